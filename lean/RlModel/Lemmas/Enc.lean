import RlModel.Model.Enc
/-!
Helper lemmas for C06 (column encodings): little-endian integers, varints, the plain / nullable
builders as folds, bitmap packing.  Core Lean only.
-/
namespace RlModel

theorem UInt8_toNat_ofNat (n : Nat) : (UInt8.ofNat n).toNat = n % 256 := by
  simp [UInt8.toNat_ofNat']

theorem leBytes_length (w n : Nat) : (leBytes w n).length = w := by
  induction w generalizing n with
  | zero => rfl
  | succ w ih => simp [leBytes, ih]

theorem natOfLE_leBytes (w n : Nat) : natOfLE (leBytes w n) = n % 256 ^ w := by
  induction w generalizing n with
  | zero => simp [leBytes, natOfLE, Nat.mod_one]
  | succ w ih =>
    simp only [leBytes, natOfLE, ih, UInt8_toNat_ofNat]
    rw [Nat.pow_succ, Nat.mul_comm (256 ^ w) 256, Nat.mod_mul]
    omega

theorem varint_rt (v : Nat) (h : v < 0xF0000000) (rest : Bytes) :
    decodeU32Slice (encode32 v ++ rest) = some (v, (encode32 v).length) := by
  by_cases h1 : v < 0x80
  · simp [encode32, encodeVarint, decodeU32Slice, h1]
    rw [if_pos (by omega)]; simp; omega
  · by_cases h2 : v / 128 < 0x80
    · simp [encode32, encodeVarint, decodeU32Slice, h1, h2]
      rw [if_neg (by omega), if_pos (by omega)]; simp; omega
    · by_cases h3 : v / 128 / 128 < 0x80
      · simp [encode32, encodeVarint, decodeU32Slice, h1, h2, h3]
        rw [if_neg (by omega), if_neg (by omega), if_pos (by omega)]; simp; omega
      · by_cases h4 : v / 128 / 128 / 128 < 0x80
        · simp [encode32, encodeVarint, decodeU32Slice, h1, h2, h3, h4]
          rw [if_neg (by omega), if_neg (by omega), if_neg (by omega), if_pos (by omega)]; simp; omega
        · have h5 : v / 128 / 128 / 128 / 128 < 0x80 := by omega
          simp [encode32, encodeVarint, decodeU32Slice, h1, h2, h3, h4, h5]
          rw [if_neg (by omega), if_neg (by omega), if_neg (by omega), if_neg (by omega), if_pos (by omega)]; simp; omega


theorem encode32_ne_nil (v : Nat) : encode32 v ≠ [] := by
  simp only [encode32, encodeVarint]; split <;> simp

theorem encode32_length_pos (v : Nat) : 0 < (encode32 v).length :=
  List.length_pos_iff.mpr (encode32_ne_nil v)


theorem varints_rt (vs : List Nat) (h : ∀ v ∈ vs, v < 0xF0000000) (fuel : Nat)
    (hf : (vs.flatMap encode32).length ≤ fuel) :
    decodeVarints fuel (vs.flatMap encode32) = some vs := by
  induction vs generalizing fuel with
  | nil => cases fuel <;> simp [decodeVarints]
  | cons v vs ih =>
    have hv := h v (by simp)
    have hpos := encode32_length_pos v
    cases fuel with
    | zero => simp only [List.flatMap_cons, List.length_append] at hf; omega
    | succ fuel =>
      simp only [List.flatMap_cons, decodeVarints]
      have hne : (encode32 v ++ vs.flatMap encode32).isEmpty = false := by
        cases hh : encode32 v with
        | nil => exact absurd hh (encode32_ne_nil v)
        | cons a as => rfl
      rw [hne]
      simp only [Bool.false_eq_true, ↓reduceIte, varint_rt v hv]
      rw [List.drop_left' rfl]
      rw [ih (fun x hx => h x (by simp [hx])) fuel (by simp only [List.flatMap_cons, List.length_append] at hf; omega)]
      rfl


/-- bytes a plain builder of kind `k` appends for a cell -/
def cellBytes (k : Kind) : Cell → Bytes
  | some it => match k with
    | .fixed _ => it
    | .char w => it ++ zeros (w - it.length)
    | .blob => it
  | none => match k with
    | .fixed w => zeros w
    | .char w => zeros w
    | .blob => []

theorem Plain.append_kind (p : Plain) (c : Cell) : (p.append c).kind = p.kind := by
  cases c <;> simp only [Plain.append, Plain.appendValue, Plain.appendDefault] <;> split <;> rfl

theorem Plain.append_target (p : Plain) (c : Cell) : (p.append c).target = p.target := by
  cases c <;> simp only [Plain.append, Plain.appendValue, Plain.appendDefault] <;> split <;> rfl

theorem Plain.append_data (p : Plain) (c : Cell) :
    (p.append c).data = p.data ++ cellBytes p.kind c := by
  cases c <;> simp only [Plain.append, Plain.appendValue, Plain.appendDefault, cellBytes] <;>
    split <;> simp_all

theorem Plain.foldl_kind (cells : List Cell) (p : Plain) :
    (cells.foldl Plain.append p).kind = p.kind := by
  induction cells generalizing p with
  | nil => rfl
  | cons c cs ih => simp [List.foldl_cons, ih, Plain.append_kind]

theorem Plain.foldl_data (cells : List Cell) (p : Plain) :
    (cells.foldl Plain.append p).data = p.data ++ cells.flatMap (cellBytes p.kind) := by
  induction cells generalizing p with
  | nil => simp
  | cons c cs ih =>
    simp [List.foldl_cons, ih, Plain.append_kind, Plain.append_data, List.append_assoc]

theorem chunksN_flatten (w : Nat) (xs : List Bytes) (h : ∀ x ∈ xs, x.length = w) (rest : Bytes) :
    chunksN w xs.length (xs.flatten ++ rest) = xs := by
  induction xs with
  | nil => rfl
  | cons x xs ih =>
    have hx := h x (by simp)
    simp only [List.length_cons, chunksN, List.flatten_cons, List.append_assoc]
    rw [List.take_left' hx, List.drop_left' hx, ih (fun y hy => h y (by simp [hy]))]

/-- what a non-nullable block hands back for a cell -/
def storedItem (k : Kind) : Cell → Bytes
  | some it => it
  | none => defaultItem k

def FixedOk (w : Nat) (cells : List Cell) : Prop := ∀ it, some it ∈ cells → it.length = w

theorem plain_fixed_roundtrip (w target : Nat) (cells : List Cell) (h : FixedOk w cells) (rest : Bytes) :
    decodePlain (.fixed w) cells.length
      ((cells.foldl Plain.append { kind := .fixed w, target }).finish ++ rest)
      = cells.map (storedItem (.fixed w)) := by
  simp only [Plain.finish, Plain.foldl_kind, Plain.foldl_data, decodePlain, List.nil_append]
  have : cells.flatMap (cellBytes (.fixed w)) = (cells.map (storedItem (.fixed w))).flatten := by
    rw [List.flatMap_def]; congr 1
  rw [this]
  have hl : (cells.map (storedItem (.fixed w))).length = cells.length := by simp
  rw [← hl]
  apply chunksN_flatten
  intro x hx
  simp only [List.mem_map] at hx
  obtain ⟨c, hc, rfl⟩ := hx
  cases c with
  | none => simp [storedItem, defaultItem, zeros]
  | some it => exact h it hc


def pad8 (l : List Bool) : List Bool := l ++ List.replicate (8 - l.length) false

theorem byteBits_packByte (bs : List Bool) : byteBits (packByte bs) = pad8 (bs.take 8) := by
  rcases bs with _ | ⟨b0, _ | ⟨b1, _ | ⟨b2, _ | ⟨b3, _ | ⟨b4, _ | ⟨b5, _ | ⟨b6, _ | ⟨b7, tl⟩⟩⟩⟩⟩⟩⟩⟩
  · decide
  · revert b0; decide
  · revert b0 b1; decide
  · revert b0 b1 b2; decide
  · revert b0 b1 b2 b3; decide
  · revert b0 b1 b2 b3 b4; decide
  · revert b0 b1 b2 b3 b4 b5; decide
  · revert b0 b1 b2 b3 b4 b5 b6; decide
  · have : ∀ b0 b1 b2 b3 b4 b5 b6 b7 : Bool, byteBits (packByte [b0, b1, b2, b3, b4, b5, b6, b7]) = [b0, b1, b2, b3, b4, b5, b6, b7] := by decide
    simpa [packByte, pad8] using this b0 b1 b2 b3 b4 b5 b6 b7

theorem unpack_pack_take (n : Nat) (bs : List Bool) (h : bs.length ≤ 8 * n) :
    (unpackBits (packBitsN n bs)).take bs.length = bs := by
  induction n generalizing bs with
  | zero => simp at h; subst h; rfl
  | succ n ih =>
    simp only [packBitsN, unpackBits, List.flatMap_cons, byteBits_packByte]
    by_cases hl : bs.length ≤ 8
    · have h8 : bs.take 8 = bs := List.take_of_length_le hl
      rw [h8, pad8, List.append_assoc, List.take_left' rfl]
    · have hlen : (pad8 (bs.take 8)).length = 8 := by simp [pad8]; omega
      have hp : pad8 (bs.take 8) = bs.take 8 := by simp [pad8]; omega
      rw [List.take_append, hlen, hp]
      have := ih (bs.drop 8) (by simp; omega)
      simp only [unpackBits, List.length_drop] at this
      rw [this]
      have : List.take bs.length (List.take 8 bs) = bs.take 8 := by
        rw [List.take_take]; congr 1; omega
      rw [this, List.take_append_drop]

theorem packBitsN_length (n : Nat) (bs : List Bool) : (packBitsN n bs).length = n := by
  induction n generalizing bs with
  | zero => rfl
  | succ n ih => simp [packBitsN, ih]

theorem packBits_length (bs : List Bool) : (packBits bs).length = (bs.length + 7) / 8 :=
  packBitsN_length _ _

theorem unpack_pack (bs : List Bool) : (unpackBits (packBits bs)).take bs.length = bs :=
  unpack_pack_take _ bs (by omega)

/-- plain blocks of kind `k` holding `cells` decode to the stored items (whatever follows) -/
def PlainRT (k : Kind) (cells : List Cell) : Prop :=
  ∀ target rest, decodePlain k cells.length
    ((cells.foldl Plain.append { kind := k, target }).finish ++ rest) = cells.map (storedItem k)

theorem Sub.foldl_nullable (cells : List Cell) (s : Sub) :
    (cells.foldl Sub.append s).nullable = s.nullable := by
  induction cells generalizing s with
  | nil => rfl
  | cons c cs ih => simp only [List.foldl_cons, ih]; simp only [Sub.append]; split <;> rfl

theorem Sub.foldl_inner (cells : List Cell) (s : Sub) :
    (cells.foldl Sub.append s).inner = cells.foldl Plain.append s.inner := by
  induction cells generalizing s with
  | nil => rfl
  | cons c cs ih => simp only [List.foldl_cons, ih]; simp only [Sub.append]; split <;> rfl

theorem Sub.foldl_bitmap (cells : List Cell) (s : Sub) (h : s.nullable = true) :
    (cells.foldl Sub.append s).bitmap = s.bitmap ++ cells.map Option.isSome := by
  induction cells generalizing s with
  | nil => simp
  | cons c cs ih =>
    simp only [List.foldl_cons]
    rw [ih _ (by simp [Sub.append, h])]
    simp [Sub.append, h]

/-- what a block of the given nullability hands back for a cell -/
def storedCell (nullable : Bool) (k : Kind) (c : Cell) : Cell :=
  if nullable then c else some (storedItem k c)

theorem map_storedCell_true (k : Kind) (cells : List Cell) :
    cells.map (storedCell true k) = cells := by
  induction cells <;> simp_all [storedCell]

theorem zip_stored (k : Kind) (cells : List Cell) (extra : List Bool) :
    ((cells.map (storedItem k)).zip (cells.map Option.isSome ++ extra)).map
      (fun (it, v) => if v then some it else none) = cells := by
  induction cells with
  | nil => simp
  | cons c cs ih =>
    cases c <;> simp_all [storedItem]

theorem sub_roundtrip (nullable : Bool) (k : Kind) (target : Nat) (cells : List Cell)
    (hp : PlainRT k cells) (hlen : cells.length < 2 ^ 32) :
    decodeSub nullable k cells.length ((cells.foldl Sub.append (Sub.new nullable k target)).finish)
      = cells.map (storedCell nullable k) := by
  cases nullable with
  | false =>
    simp only [decodeSub, Sub.finish, Sub.foldl_nullable, Sub.new, Sub.foldl_inner, Bool.false_eq_true, ↓reduceIte]
    have := hp target []
    simp only [List.append_nil] at this
    rw [this]
    simp [storedCell, Function.comp_def]
  | true =>
    simp only [decodeSub, Sub.finish, Sub.foldl_nullable, Sub.new, Sub.foldl_inner, ↓reduceIte]
    rw [Sub.foldl_bitmap _ _ rfl]
    simp only [List.nil_append]
    generalize hin : (cells.foldl Plain.append { kind := k, target }).finish = inner
    generalize hbm : packBits (cells.map Option.isSome) = bm
    have hbl : bm.length < 2 ^ 32 := by
      rw [← hbm, packBits_length]; simp; omega
    have e1 : (inner ++ bm ++ leBytes 4 bm.length).length = inner.length + bm.length + 4 := by
      simp [leBytes_length]; omega
    rw [e1]
    have e2 : inner.length + bm.length + 4 - 4 = inner.length + bm.length := by omega
    rw [e2]
    have e3 : (inner ++ bm ++ leBytes 4 bm.length).drop (inner.length + bm.length) = leBytes 4 bm.length := by
      rw [List.drop_left' (by simp)]
    rw [e3, natOfLE_leBytes]
    have e4 : bm.length % 256 ^ 4 = bm.length := Nat.mod_eq_of_lt (by simpa using hbl)
    rw [e4]
    have e5 : inner.length + bm.length - bm.length = inner.length := by omega
    rw [e5]
    have e6 : ((inner ++ bm ++ leBytes 4 bm.length).drop inner.length).take bm.length = bm := by
      rw [List.append_assoc, List.drop_left' rfl, List.take_left' rfl]
    have e7 : (inner ++ bm ++ leBytes 4 bm.length).take inner.length = inner := by
      rw [List.append_assoc, List.take_left' rfl]
    rw [e6, e7, ← hin]
    have := hp target []
    simp only [List.append_nil] at this
    rw [this, ← hbm]
    have hu := unpack_pack (cells.map Option.isSome)
    have : unpackBits (packBits (cells.map Option.isSome))
        = cells.map Option.isSome ++ (unpackBits (packBits (cells.map Option.isSome))).drop (cells.map Option.isSome).length := by
      conv => lhs; rw [← List.take_append_drop (cells.map Option.isSome).length (unpackBits (packBits (cells.map Option.isSome)))]
      rw [hu]
    rw [this, zip_stored, map_storedCell_true]


/-! ### block cutting and index assembly -/

theorem cutAux_flatten (o : ColOpts) (bb : BB) (cur xs : List Cell) :
    (cutAux o bb cur xs).flatten = cur ++ xs := by
  induction xs generalizing bb cur with
  | nil =>
    simp only [cutAux]
    split <;> simp_all
  | cons c rest ih =>
    simp only [cutAux]
    split
    · simp [ih]
    · simp [ih]

theorem cutAux_nonempty (o : ColOpts) (bb : BB) (cur xs : List Cell) :
    ∀ ch ∈ cutAux o bb cur xs, ch ≠ [] := by
  induction xs generalizing bb cur with
  | nil =>
    simp only [cutAux]
    split <;> simp_all
  | cons c rest ih =>
    simp only [cutAux]
    split
    · rename_i h
      intro ch hch
      simp only [List.mem_cons] at hch
      rcases hch with rfl | hch
      · intro hn; simp [hn] at h
      · exact ih _ _ ch hch
    · exact ih _ _

theorem assemble_length (o : ColOpts) (bt : Nat) (chunks : List (List Cell)) (off row : Nat) :
    (assemble o bt chunks off row).2.length = chunks.length := by
  induction chunks generalizing off row with
  | nil => rfl
  | cons ch rest ih => simp [assemble, ih]

theorem assemble_entry (o : ColOpts) (bt : Nat) (chunks : List (List Cell)) (off row i : Nat)
    (e : IndexEntry) (h : (assemble o bt chunks off row).2[i]? = some e) :
    e.firstRowid = row + ((chunks.take i).map List.length).sum
      ∧ chunks[i]?.map List.length = some e.rowCount := by
  induction chunks generalizing off row i with
  | nil => simp [assemble] at h
  | cons ch rest ih =>
    simp only [assemble] at h
    cases i with
    | zero =>
      simp at h; subst h; simp
    | succ i =>
      simp only [List.getElem?_cons_succ] at h
      have := ih _ _ i h
      simp only [List.take_succ_cons, List.map_cons, List.sum_cons, List.getElem?_cons_succ]
      exact ⟨by omega, this.2⟩

theorem assemble_rowsum (o : ColOpts) (bt : Nat) (chunks : List (List Cell)) (off row : Nat) :
    ((assemble o bt chunks off row).2.map (·.rowCount)).sum = chunks.flatten.length := by
  induction chunks generalizing off row with
  | nil => rfl
  | cons ch rest ih => simp [assemble, ih]


/-! ### fixed-width char -/

def CharOk (w : Nat) (cells : List Cell) : Prop :=
  ∀ it, some it ∈ cells → it.length ≤ w ∧ (0 : UInt8) ∉ it

theorem takeWhile_nonzero_pad (it : Bytes) (k : Nat) (h : (0 : UInt8) ∉ it) :
    (it ++ zeros k).takeWhile (· != 0) = it := by
  induction it with
  | nil => cases k <;> simp [zeros, List.replicate_succ]
  | cons x xs ih =>
    have hx : x ≠ 0 := fun e => h (by simp [e])
    have hxs : (0 : UInt8) ∉ xs := fun e => h (by simp [e])
    simp [hx, ih hxs]

theorem plain_char_roundtrip (w target : Nat) (cells : List Cell) (h : CharOk w cells) (rest : Bytes) :
    decodePlain (.char w) cells.length
      ((cells.foldl Plain.append { kind := .char w, target }).finish ++ rest)
      = cells.map (storedItem (.char w)) := by
  simp only [Plain.finish, Plain.foldl_kind, Plain.foldl_data, decodePlain, List.nil_append]
  have e1 : cells.flatMap (cellBytes (.char w)) = (cells.map (cellBytes (.char w))).flatten := by
    rw [List.flatMap_def]
  rw [e1]
  have hl : (cells.map (cellBytes (.char w))).length = cells.length := by simp
  rw [← hl, chunksN_flatten w]
  · rw [List.map_map]
    apply List.map_congr_left
    intro c hc
    cases c with
    | none => simp [cellBytes, storedItem, defaultItem, zeros]
    | some it =>
      simp only [Function.comp, cellBytes, storedItem]
      exact takeWhile_nonzero_pad it _ (h it hc).2
  · intro x hx
    simp only [List.mem_map] at hx
    obtain ⟨c, hc, rfl⟩ := hx
    cases c with
    | none => simp [cellBytes, zeros]
    | some it =>
      have := (h it hc).1
      simp [cellBytes, zeros]; omega

end RlModel
