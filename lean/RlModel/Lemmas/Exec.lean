import RlModel.Model.Exec
/-! Helper lemmas for the C02 / C11 theorems (core Lean only). -/
namespace RlModel
open List

deriving instance ReflBEq for Val
deriving instance LawfulBEq for Val

/-! ### chunk builder -/

theorem builder_flat (cap : Nat) (rows cur : List Row) :
    flat (builderRun cap rows cur) = cur ++ rows := by
  induction rows generalizing cur with
  | nil =>
    unfold builderRun flat
    cases cur <;> simp
  | cons r rs ih =>
    unfold builderRun
    split
    · simp only [flat] at *
      simp [ih]
    · rw [ih]; simp

theorem flat_emit (rows : List Row) : flat (emit rows) = rows := by
  unfold emit
  rw [builder_flat]
  rfl

theorem flat_map_filter (p : Row → Bool) (cs : List Chunk) :
    flat (cs.map (fun w => w.filter p)) = (flat cs).filter p := by
  unfold flat; rw [List.filter_flatten]

theorem flat_map_map (f : Row → Row) (cs : List Chunk) :
    flat (cs.map (fun w => w.map f)) = (flat cs).map f := by
  unfold flat; rw [List.map_flatten]

/-! ### bags -/

theorem flatMap_append_perm {α β} (g h : α → List β) (L : List α) :
    (L.flatMap (fun l => g l ++ h l)).Perm (L.flatMap g ++ L.flatMap h) := by
  induction L with
  | nil => simp
  | cons a as ih =>
    simp only [List.flatMap_cons]
    have h1 : ((g a ++ h a) ++ as.flatMap (fun l => g l ++ h l)).Perm
        ((g a ++ h a) ++ (as.flatMap g ++ as.flatMap h)) := Perm.append_left _ ih
    refine h1.trans ?_
    simp only [List.append_assoc]
    apply Perm.append_left
    exact perm_append_comm_assoc _ _ _

/-- nested loops commute (as bags), with a filter pushed inside. -/
theorem cross_swap_perm {α β γ} (f : α → β → γ) (p : γ → Bool) (L : List α) (R : List β) :
    ((R.flatMap (fun r => L.map (fun l => f l r))).filter p).Perm
      (L.flatMap (fun l => (R.filter (fun r => p (f l r))).map (f l))) := by
  induction R with
  | nil => simp
  | cons r rs ih =>
    simp only [List.flatMap_cons, List.filter_append, List.filter_cons]
    have h2 : (L.flatMap (fun l => (if p (f l r) = true then r :: rs.filter (fun r => p (f l r)) else rs.filter (fun r => p (f l r))).map (f l))) =
        L.flatMap (fun l => (if p (f l r) then [f l r] else []) ++ (rs.filter (fun r => p (f l r))).map (f l)) := by
      congr 1; funext l; split <;> simp
    rw [h2]
    refine Perm.trans ?_ (flatMap_append_perm _ _ L).symm
    refine Perm.append ?_ ih
    apply Perm.of_eq
    clear ih h2
    induction L with
    | nil => rfl
    | cons a as ih2 =>
      simp only [List.map_cons, List.filter_cons, List.flatMap_cons]
      split <;> simp [ih2]

/-! ### semi / anti -/

theorem any_flat {α} (f : α → Bool) (Xs : List (List α)) :
    Xs.any (fun c => c.any f) = Xs.flatten.any f := by
  rw [List.any_flatten]

theorem matches_isEmpty (on : Pred) (l : Row) (R : List Row) :
    (matchesOf on l R).isEmpty = !R.any (fun r => holds (on (l ++ r))) := by
  unfold matchesOf
  induction R with
  | nil => rfl
  | cons r rs ih =>
    simp only [List.filter_cons, List.any_cons]
    cases h : holds (on (l ++ r)) <;> simp_all

/-! ### insertion sort and the bounded heap -/

theorem take_insertStable {α} (cmp : α → α → Ordering) (x : α) (S : List α) (k : Nat) :
    (insertStable cmp x (S.take k)).take k = (insertStable cmp x S).take k := by
  induction S generalizing k with
  | nil => simp
  | cons y ys ih =>
    cases k with
    | zero => simp
    | succ k' =>
      simp only [List.take_succ_cons, insertStable]
      split
      · simp only [List.take_succ_cons]
        congr 1
        cases k' with
        | zero => simp
        | succ k'' =>
          simp only [List.take_succ_cons]
          congr 1
          rw [List.take_take]; simp
      · simp only [List.take_succ_cons]
        congr 1
        exact ih k'

theorem heap_fold_eq {α} (cmp : α → α → Ordering) (cap : Nat) (X acc : List α) :
    X.foldl (fun h r => (insertStable cmp r h).take cap) (acc.take cap) =
      (X.foldl (fun h r => insertStable cmp r h) acc).take cap := by
  induction X generalizing acc with
  | nil => rfl
  | cons x xs ih =>
    simp only [List.foldl_cons]
    rw [take_insertStable]
    exact ih _

/-! ### limit -/

theorem limitLoop_spec (n off : Nat) (hn : n ≠ 0) (cs : List Chunk) (p : Nat) :
    flat (limitLoop n off cs p) = ((flat cs).drop (off - p)).take (off + n - max off p) := by
  induction cs generalizing p with
  | nil => simp [limitLoop, flat]
  | cons c cs ih =>
    unfold limitLoop
    have hn' : (n == 0) = false := by simp [hn]
    simp only [hn', Bool.false_eq_true, if_false]
    have hflat : flat (c :: cs) = c ++ flat cs := by simp [flat]
    rw [hflat, List.drop_append, List.take_append, List.length_drop]
    by_cases h1 : max p off - p ≥ min (p + c.length) (off + n) - p
    · -- nothing from this chunk
      simp only [h1, if_true, ge_iff_le]
      have hlt : ¬ (max p off - p < min (p + c.length) (off + n) - p) := by omega
      simp only [hlt, decide_false, Bool.false_and, Bool.false_eq_true, if_false, List.nil_append]
      rw [ih]
      have e1 : (c.drop (off - p)).take (off + n - max off p) = [] := by
        rw [List.take_eq_nil_iff]
        by_cases hz : off + n - max off p = 0
        · left; exact hz
        · right; rw [List.drop_eq_nil_iff]; omega
      rw [e1, List.nil_append]
      by_cases hc : off - p ≥ c.length
      · have : off - (p + c.length) = off - p - c.length := by omega
        rw [this]
        congr 1
        omega
      · -- then off + n ≤ max off p .. both sides empty
        have hz : off + n - max off p = 0 ∨ True := Or.inr trivial
        have : off + n - max off (p + c.length) = 0 := by omega
        rw [this]
        have : off + n - max off p - (c.length - (off - p)) = 0 := by omega
        rw [this]
        simp
    · simp only [h1, if_false, ge_iff_le]
      have hlt : (max p off - p < min (p + c.length) (off + n) - p) := by omega
      by_cases h2 : p + c.length ≥ off + n
      · simp only [hlt, decide_true, Bool.true_and, h2, if_true]
        simp only [flat, List.flatten_cons, List.flatten_nil, List.append_nil]
        have : off + n - max off p - (c.length - (off - p)) = 0 := by omega
        rw [this, List.take_zero, List.append_nil]
        congr 1
        · omega
        · congr 1; omega
      · have h2' : ¬ (off + n ≤ p + c.length) := by omega
        simp only [hlt, decide_true, Bool.true_and, h2', decide_false, Bool.false_eq_true, if_false]
        have hf : flat ([(c.drop (max p off - p)).take (min (p + c.length) (off + n) - p - (max p off - p))] ++ limitLoop n off cs (p + c.length)) =
            (c.drop (max p off - p)).take (min (p + c.length) (off + n) - p - (max p off - p)) ++ flat (limitLoop n off cs (p + c.length)) := by
          simp [flat]
        rw [hf, ih]
        congr 1
        · have e1 : max p off - p = off - p := by omega
          have e2 : min (p + c.length) (off + n) = p + c.length := by omega
          rw [e1, e2]
          rw [List.take_of_length_le, List.take_of_length_le]
          · rw [List.length_drop]; omega
          · rw [List.length_drop]; omega
        · have e3 : off - (p + c.length) = off - p - c.length := by omega
          have e4 : off + n - max off (p + c.length) = off + n - max off p - (c.length - (off - p)) := by omega
          rw [e3, e4]

theorem limitLoop_zero (off : Nat) (cs : List Chunk) (p : Nat) : limitLoop 0 off cs p = [] := by
  cases cs <;> simp [limitLoop]

/-! ### the two aggregate accumulation paths -/

theorem maxVal_null_right (s : Val) : maxVal s .null = s := by
  unfold maxVal; cases s <;> simp [Val.isNull]
theorem minVal_null_right (s : Val) : minVal s .null = s := by
  unfold minVal; cases s <;> simp [Val.isNull]

theorem foldl_max_nonNull (s : Val) (vs : List Val) :
    vs.foldl maxVal s = (nonNull vs).foldl maxVal s := by
  induction vs generalizing s with
  | nil => rfl
  | cons v vs ih =>
    unfold nonNull
    simp only [List.foldl_cons, List.filter_cons]
    cases hv : v.isNull
    · simp only [Bool.not_false, if_true, List.foldl_cons]; exact ih _
    · have : v = .null := by cases v <;> simp_all [Val.isNull]
      subst this
      simp only [Bool.not_true, Bool.false_eq_true, if_false, maxVal_null_right]; exact ih _

theorem foldl_min_nonNull (s : Val) (vs : List Val) :
    vs.foldl minVal s = (nonNull vs).foldl minVal s := by
  induction vs generalizing s with
  | nil => rfl
  | cons v vs ih =>
    unfold nonNull
    simp only [List.foldl_cons, List.filter_cons]
    cases hv : v.isNull
    · simp only [Bool.not_false, if_true, List.foldl_cons]; exact ih _
    · have : v = .null := by cases v <;> simp_all [Val.isNull]
      subst this
      simp only [Bool.not_true, Bool.false_eq_true, if_false, minVal_null_right]; exact ih _

theorem foldl_aggAppend_max (s : Val) (vs : List Val) :
    vs.foldl (aggAppend .max) (.value s) = .value (vs.foldl maxVal s) := by
  induction vs generalizing s with
  | nil => rfl
  | cons v vs ih => simp only [List.foldl_cons, aggAppend]; exact ih _

theorem foldl_aggAppend_min (s : Val) (vs : List Val) :
    vs.foldl (aggAppend .min) (.value s) = .value (vs.foldl minVal s) := by
  induction vs generalizing s with
  | nil => rfl
  | cons v vs ih => simp only [List.foldl_cons, aggAppend]; exact ih _

theorem rowpath_max_eq_spec (vs : List Val) : rowPathVal .max vs = aggVal .max vs := by
  unfold rowPathVal initAgg aggVal aggMax
  rw [foldl_aggAppend_max, foldl_max_nonNull]; rfl

theorem rowpath_min_eq_spec (vs : List Val) : rowPathVal .min vs = aggVal .min vs := by
  unfold rowPathVal initAgg aggVal aggMin
  rw [foldl_aggAppend_min, foldl_min_nonNull]; rfl

theorem foldl_aggAppend_count (n : Nat) (vs : List Val) :
    vs.foldl (aggAppend .count) (.value (.i32 n)) = .value (.i32 ((n + (nonNull vs).length : Nat))) := by
  induction vs generalizing n with
  | nil => simp [nonNull]
  | cons v vs ih =>
    by_cases hv : v = .null
    · subst hv
      have h1 : nonNull (Val.null :: vs) = nonNull vs := by simp [nonNull, Val.isNull]
      have h2 : aggAppend .count (.value (.i32 n)) .null = .value (.i32 n) := by
        simp [aggAppend, addExt, Val.isNull, plusVal]
      rw [h1, List.foldl_cons, h2]; exact ih n
    · have hn : v.isNull = false := by cases v <;> simp_all [Val.isNull]
      have h1 : nonNull (v :: vs) = v :: nonNull vs := by simp [nonNull, hn]
      have h2 : aggAppend .count (.value (.i32 n)) v = .value (.i32 ((n + 1 : Nat))) := by
        simp [aggAppend, addExt, Val.isNull, plusVal]
      rw [h1, List.foldl_cons, h2, ih (n + 1)]
      congr 2
      simp only [List.length_cons]; omega

theorem rowpath_count_eq_spec (vs : List Val) : rowPathVal .count vs = aggVal .count vs := by
  unfold rowPathVal initAgg aggVal aggCount
  have := foldl_aggAppend_count 0 vs
  simp only [Nat.zero_add] at this
  have e : (Val.i32 0) = Val.i32 ((0 : Nat) : Int) := rfl
  rw [e, this]; rfl

theorem foldl_aggAppend_rowcount (n : Nat) (vs : List Val) :
    vs.foldl (aggAppend .rowCount) (.value (.i32 n)) = .value (.i32 ((n + vs.length : Nat))) := by
  induction vs generalizing n with
  | nil => simp
  | cons v vs ih =>
    simp only [List.foldl_cons, aggAppend, addExt, Val.isNull, plusVal, Bool.false_eq_true, if_false, Option.getD_some, List.length_cons]
    have e : ((n : Int) + 1) = ((n + 1 : Nat) : Int) := by omega
    rw [e, ih]; congr 2; omega

theorem rowpath_rowcount_eq_spec (vs : List Val) : rowPathVal .rowCount vs = aggVal .rowCount vs := by
  unfold rowPathVal initAgg aggVal aggRowCount
  have := foldl_aggAppend_rowcount 0 vs
  simp only [Nat.zero_add] at this
  have e : (Val.i32 0) = Val.i32 ((0 : Nat) : Int) := rfl
  rw [e, this]; rfl

/-- row-path SUM over `k` leading NULLs followed by non-NULL INT values is the SQL sum. -/
theorem foldl_aggAppend_sum_i32 (n : Int) (ws : List Int) :
    (ws.map Val.i32).foldl (aggAppend .sum) (.value (.i32 n)) = .value (.i32 (n + sumInts ws)) := by
  induction ws generalizing n with
  | nil => simp [sumInts]
  | cons w ws ih =>
    simp only [List.map_cons, List.foldl_cons, aggAppend, addExt, Val.isNull, plusVal, Bool.false_eq_true, if_false, Option.getD_some, sumInts]
    rw [ih]; congr 2; omega

theorem foldl_aggAppend_sum_nulls (k : Nat) (rest : List Val) :
    (List.replicate k Val.null ++ rest).foldl (aggAppend .sum) (.value .null) =
      rest.foldl (aggAppend .sum) (.value .null) := by
  induction k with
  | zero => simp
  | succ k ih =>
    simp only [List.replicate_succ, List.cons_append, List.foldl_cons, aggAppend, addExt, Val.isNull, if_true]
    exact ih

theorem intsOf_map_i32 (ws : List Int) : intsOf (ws.map Val.i32) = ws := by
  unfold intsOf
  induction ws with
  | nil => rfl
  | cons w ws ih => simp [Val.int?, ih]

theorem nonNull_replicate_append (k : Nat) (ws : List Int) :
    nonNull (List.replicate k Val.null ++ ws.map Val.i32) = ws.map Val.i32 := by
  unfold nonNull
  rw [List.filter_append]
  have h1 : (List.replicate k Val.null).filter (fun v => !v.isNull) = [] := by
    rw [List.filter_eq_nil_iff]; intro a ha; simp [List.mem_replicate] at ha; simp [ha.2, Val.isNull]
  have h2 : (ws.map Val.i32).filter (fun v => !v.isNull) = ws.map Val.i32 := by
    rw [List.filter_eq_self]; intro a ha; simp at ha; obtain ⟨w, _, rfl⟩ := ha; rfl
  rw [h1, h2]; rfl

theorem rowpath_sum_partial (k : Nat) (ws : List Int) :
    rowPathVal .sum (List.replicate k Val.null ++ ws.map Val.i32) =
      aggVal .sum (List.replicate k Val.null ++ ws.map Val.i32) := by
  have hs : ∀ X, aggVal .sum X = aggSum X := fun _ => rfl
  rw [hs]
  unfold rowPathVal initAgg aggSum
  rw [foldl_aggAppend_sum_nulls, nonNull_replicate_append]
  cases ws with
  | nil => rfl
  | cons w ws =>
    simp only [List.map_cons, List.foldl_cons, aggAppend, addExt, Val.isNull, if_true]
    rw [foldl_aggAppend_sum_i32]
    have := intsOf_map_i32 (w :: ws)
    simp only [List.map_cons] at this
    rw [this]
    simp [AggState.result, Val.withInt, sumInts]


/-! ### the STRUCTURAL hash join (keys compared with `==` only, NULL = NULL): what the executors did
before the `fix:` commit.  Kept as an auxiliary: the executors of Model/Exec.lean are related to it
in Lemmas/ExecNull.lean (same machinery on the NULL-free rows plus the padded NULL-key rows). -/

def hjProbeS (padRight : Bool) (rk : List (Row → Val)) (nL : Nat) :
    List Row → List HEntry → List HEntry × List Row
  | [], m => (m, [])
  | r :: rs, m =>
    let k := keyOf rk r
    match hmLookup k m with
    | some e =>
      let (m', out) := hjProbeS padRight rk nL rs (hmMark k m)
      (m', e.rows.map (· ++ r) ++ out)
    | none =>
      let (m', out) := hjProbeS padRight rk nL rs m
      (m', (if padRight then [nulls nL ++ r] else []) ++ out)

def hashJoinS (t : JoinType) (lk rk : List (Row → Val)) (nL nR : Nat) (Ls Rs : List Chunk) : List Chunk :=
  let m := hmBuild lk (flat Ls)
  let padRight := t == .rightOuter || t == .fullOuter
  let padLeft := t == .leftOuter || t == .fullOuter
  let (m', out) := hjProbeS padRight rk nL (flat Rs) m
  let rest := if padLeft then
      (m'.filter (fun e => !e.matched)).flatMap (fun e => e.rows.map (· ++ nulls nR))
    else []
  emit (out ++ rest)

def hashSemiJoinS (anti : Bool) (lk rk : List (Row → Val)) (Ls Rs : List Chunk) : List Chunk :=
  let keys := (flat Rs).map (keyOf rk)
  Ls.map (fun c => c.filter (fun l => keys.contains (keyOf lk l) != anti))

def KeysComparableS (lk rk : List (Row → Val)) (L R : List Row) : Prop :=
  ∀ l ∈ L, ∀ r ∈ R, (keyOf lk l == keyOf rk r) = holds (keysEq3 (keyOf lk l) (keyOf rk r))

/-! ### hash joins -/

theorem flatMap_congr' {α β} (f g : α → List β) (L : List α) (h : ∀ l ∈ L, f l = g l) :
    L.flatMap f = L.flatMap g := by
  induction L with
  | nil => rfl
  | cons a as ih =>
    simp only [List.flatMap_cons]
    rw [h a (List.mem_cons_self), ih (fun l hl => h l (List.mem_cons_of_mem _ hl))]

/-- nested loops commute, predicate on the pair. -/
theorem cross_swap_perm2 {α β γ} (f : α → β → γ) (q : α → β → Bool) (L : List α) (R : List β) :
    (R.flatMap (fun r => (L.filter (fun l => q l r)).map (fun l => f l r))).Perm
      (L.flatMap (fun l => (R.filter (fun r => q l r)).map (f l))) := by
  induction R with
  | nil => simp
  | cons r rs ih =>
    simp only [List.flatMap_cons, List.filter_cons]
    have h2 : (L.flatMap (fun l => (if q l r = true then r :: rs.filter (fun r => q l r) else rs.filter (fun r => q l r)).map (f l))) =
        L.flatMap (fun l => (if q l r then [f l r] else []) ++ (rs.filter (fun r => q l r)).map (f l)) := by
      congr 1; funext l; split <;> simp
    rw [h2]
    refine Perm.trans ?_ (flatMap_append_perm _ _ L).symm
    refine Perm.append ?_ ih
    apply Perm.of_eq
    clear ih h2
    induction L with
    | nil => rfl
    | cons a as ih2 =>
      simp only [List.map_cons, List.filter_cons, List.flatMap_cons]
      split <;> simp [ih2]

/-! hash semi / anti join -/

theorem contains_map_key (ks : List (Row → Val)) (R : List Row) (k : List Val) :
    (R.map (keyOf ks)).contains k = R.any (fun r => k == keyOf ks r) := by
  induction R with
  | nil => rfl
  | cons r rs ih => rw [List.map_cons, List.contains_cons, List.any_cons, ih]

theorem holds_and3_true (x : Option Bool) : holds (and3 x (some true)) = holds x := by
  cases x with
  | none => rfl
  | some b => cases b <;> rfl

theorem equiOn_split (nL : Nat) (lk rk : List (Row → Val)) (l r : Row) (hl : l.length = nL) :
    holds (equiOn nL lk rk (fun _ => some true) (l ++ r)) = holds (keysEq3 (keyOf lk l) (keyOf rk r)) := by
  unfold equiOn keyOf
  rw [holds_and3_true]
  have h1 : (l ++ r).take nL = l := by rw [← hl]; simp
  have h2 : (l ++ r).drop nL = r := by rw [← hl]; simp
  rw [h1, h2]

theorem any_congr' {α} (f g : α → Bool) (R : List α) (h : ∀ r ∈ R, f r = g r) : R.any f = R.any g := by
  induction R with
  | nil => rfl
  | cons a as ih =>
    rw [List.any_cons, List.any_cons, h a List.mem_cons_self, ih (fun r hr => h r (List.mem_cons_of_mem _ hr))]

theorem hash_semi_key (lk rk : List (Row → Val)) (nL : Nat) (L R : List Row)
    (hlen : ∀ l ∈ L, l.length = nL) (hk : KeysComparableS lk rk L R) (l : Row) (hl : l ∈ L) :
    (R.map (keyOf rk)).contains (keyOf lk l) =
      !(matchesOf (equiOn nL lk rk (fun _ => some true)) l R).isEmpty := by
  rw [contains_map_key, matches_isEmpty, Bool.not_not]
  apply any_congr'
  intro r hr
  rw [equiOn_split nL lk rk l r (hlen l hl)]
  exact hk l hl r hr

/-- hash semi join = spec semi join (hence = nested-loop semi join) under KeysComparableS. -/
theorem hash_semi_eq_spec_partial (lk rk : List (Row → Val)) (nL : Nat) (Ls Rs : List Chunk)
    (hlen : ∀ l ∈ flat Ls, l.length = nL)
    (hk : KeysComparableS lk rk (flat Ls) (flat Rs)) :
    flat (hashSemiJoinS false lk rk Ls Rs) =
      semiJoin (equiOn nL lk rk (fun _ => some true)) (flat Ls) (flat Rs) := by
  unfold hashSemiJoinS semiJoin
  rw [flat_map_filter]
  apply List.filter_congr
  intro l hl
  rw [hash_semi_key lk rk nL _ _ hlen hk l hl]
  simp

theorem hash_anti_eq_spec_partial (lk rk : List (Row → Val)) (nL : Nat) (Ls Rs : List Chunk)
    (hlen : ∀ l ∈ flat Ls, l.length = nL)
    (hk : KeysComparableS lk rk (flat Ls) (flat Rs)) :
    flat (hashSemiJoinS true lk rk Ls Rs) =
      antiJoin (equiOn nL lk rk (fun _ => some true)) (flat Ls) (flat Rs) := by
  unfold hashSemiJoinS antiJoin
  rw [flat_map_filter]
  apply List.filter_congr
  intro l hl
  rw [hash_semi_key lk rk nL _ _ hlen hk l hl]
  cases (matchesOf (equiOn nL lk rk fun _ => some true) l (flat Rs)).isEmpty <;> rfl


/-! hash join (inner) -/

def rowsOf (k : List Val) (m : List HEntry) : Option (List Row) := (hmLookup k m).map (·.rows)

theorem rowsOf_mark (k k' : List Val) (m : List HEntry) : rowsOf k (hmMark k' m) = rowsOf k m := by
  unfold rowsOf
  induction m with
  | nil => rfl
  | cons e es ih =>
    unfold hmMark
    by_cases h1 : e.key == k'
    · simp only [h1, if_true, hmLookup]
      by_cases h2 : e.key == k <;> simp [h2]
    · simp only [h1, Bool.false_eq_true, if_false, hmLookup]
      by_cases h2 : e.key == k
      · simp [h2]
      · simp only [h2, Bool.false_eq_true, if_false]; exact ih

theorem probe_out (pr : Bool) (rk : List (Row → Val)) (nL : Nat) (R : List Row) (m : List HEntry) :
    (hjProbeS pr rk nL R m).2 = R.flatMap (fun r =>
      match rowsOf (keyOf rk r) m with
      | some rows => rows.map (· ++ r)
      | none => if pr then [nulls nL ++ r] else []) := by
  induction R generalizing m with
  | nil => rfl
  | cons r rs ih =>
    unfold hjProbeS
    simp only [List.flatMap_cons]
    cases h : hmLookup (keyOf rk r) m with
    | none =>
      have hr : rowsOf (keyOf rk r) m = none := by simp [rowsOf, h]
      simp only [hr]
      rw [ih m]
    | some e =>
      have hr : rowsOf (keyOf rk r) m = some e.rows := by simp [rowsOf, h]
      simp only [hr]
      rw [ih (hmMark (keyOf rk r) m)]
      congr 1
      apply flatMap_congr'
      intro r' _
      rw [rowsOf_mark]

theorem rowsOf_insert (k k' : List Val) (row : Row) (m : List HEntry) :
    rowsOf k (hmInsert k' row m) =
      if k' == k then some ((rowsOf k m).getD [] ++ [row]) else rowsOf k m := by
  unfold rowsOf
  induction m with
  | nil =>
    unfold hmInsert
    by_cases h : k' == k <;> simp [hmLookup, h]
  | cons e es ih =>
    unfold hmInsert
    by_cases h1 : e.key == k'
    · have e1 : e.key = k' := eq_of_beq h1
      simp only [h1, if_true, hmLookup]
      by_cases h2 : k' == k
      · have : (e.key == k) = true := by rw [e1]; exact h2
        simp [this, h2]
      · have : (e.key == k) = false := by rw [e1]; simpa using h2
        simp [this, h2]
    · simp only [h1, Bool.false_eq_true, if_false, hmLookup]
      by_cases h2 : e.key == k
      · have e2 : e.key = k := eq_of_beq h2
        have : (k' == k) = false := by
          rw [← e2]; cases h3 : k' == e.key
          · rfl
          · exact absurd (by rw [eq_of_beq h3]; exact BEq.rfl) h1
        simp [h2, this]
      · simp only [h2, Bool.false_eq_true, if_false]
        exact ih

theorem rowsOf_build_aux (lk : List (Row → Val)) (L1 L0 : List Row) (m : List HEntry) (k : List Val)
    (hm : rowsOf k m = (if (L0.filter (fun l => keyOf lk l == k)).isEmpty then none else some (L0.filter (fun l => keyOf lk l == k)))) :
    rowsOf k (L1.foldl (fun m l => hmInsert (keyOf lk l) l m) m) =
      (if ((L0 ++ L1).filter (fun l => keyOf lk l == k)).isEmpty then none else some ((L0 ++ L1).filter (fun l => keyOf lk l == k))) := by
  induction L1 generalizing L0 m with
  | nil => simpa using hm
  | cons l ls ih =>
    simp only [List.foldl_cons]
    have := ih (L0 ++ [l]) (hmInsert (keyOf lk l) l m) (by
      rw [rowsOf_insert, hm, List.filter_append]
      by_cases h : keyOf lk l == k
      · simp only [h, if_true, List.filter_cons, List.filter_nil]
        cases hf : (L0.filter (fun l => keyOf lk l == k)).isEmpty
        · simp
        · have : L0.filter (fun l => keyOf lk l == k) = [] := List.isEmpty_iff.mp hf
          simp [this]
      · simp [h])
    simpa [List.append_assoc] using this

theorem rowsOf_build (lk : List (Row → Val)) (L : List Row) (k : List Val) :
    rowsOf k (hmBuild lk L) =
      (if (L.filter (fun l => keyOf lk l == k)).isEmpty then none else some (L.filter (fun l => keyOf lk l == k))) := by
  have := rowsOf_build_aux lk L [] [] k (by simp [rowsOf, hmLookup])
  simpa [hmBuild] using this

/-- what the inner hash join emits, before any hypothesis: the pairs with STRUCTURALLY equal keys. -/
theorem hashjoin_inner_rows (lk rk : List (Row → Val)) (nL nR : Nat) (Ls Rs : List Chunk) :
    (flat (hashJoinS .inner lk rk nL nR Ls Rs)).Perm
      ((flat Ls).flatMap (fun l => ((flat Rs).filter (fun r => keyOf lk l == keyOf rk r)).map (l ++ ·))) := by
  unfold hashJoinS
  simp only [show (JoinType.inner == JoinType.rightOuter || JoinType.inner == JoinType.fullOuter) = false from rfl,
    show (JoinType.inner == JoinType.leftOuter || JoinType.inner == JoinType.fullOuter) = false from rfl,
    Bool.false_eq_true, if_false, List.append_nil]
  rw [flat_emit, probe_out]
  have h : ((flat Rs).flatMap (fun r =>
      match rowsOf (keyOf rk r) (hmBuild lk (flat Ls)) with
      | some rows => rows.map (· ++ r)
      | none => if false = true then [nulls nL ++ r] else [])) =
      (flat Rs).flatMap (fun r => ((flat Ls).filter (fun l => keyOf lk l == keyOf rk r)).map (fun l => l ++ r)) := by
    apply flatMap_congr'
    intro r _
    rw [rowsOf_build]
    cases hf : ((flat Ls).filter (fun l => keyOf lk l == keyOf rk r)).isEmpty
    · simp
    · have : (flat Ls).filter (fun l => keyOf lk l == keyOf rk r) = [] := List.isEmpty_iff.mp hf
      simp [this]
  rw [h]
  exact cross_swap_perm2 (fun l r => l ++ r) (fun l r => keyOf lk l == keyOf rk r) (flat Ls) (flat Rs)

/-- hash join = spec (= nested-loop join, `nl_eq_spec_inner`) under KeysComparableS. -/
theorem hash_eq_spec_inner_partial (lk rk : List (Row → Val)) (nL nR : Nat) (Ls Rs : List Chunk)
    (hlen : ∀ l ∈ flat Ls, l.length = nL)
    (hk : KeysComparableS lk rk (flat Ls) (flat Rs)) :
    (flat (hashJoinS .inner lk rk nL nR Ls Rs)).Perm
      (joinRel .inner (equiOn nL lk rk (fun _ => some true)) nL nR (flat Ls) (flat Rs)) := by
  refine (hashjoin_inner_rows lk rk nL nR Ls Rs).trans (Perm.of_eq ?_)
  unfold joinRel innerJoin matchesOf
  apply flatMap_congr'
  intro l hl
  congr 1
  apply List.filter_congr
  intro r hr
  rw [equiOn_split nL lk rk l r (hlen l hl)]
  exact hk l hl r hr


/-! ### right outer hash join -/

theorem flatMap_ite_singleton {α β} (c : α → Bool) (f : α → β) (R : List α) :
    R.flatMap (fun r => if c r then [f r] else []) = (R.filter c).map f := by
  induction R with
  | nil => rfl
  | cons a as ih =>
    simp only [List.flatMap_cons, List.filter_cons]
    cases c a <;> simp [ih]

/-- what the probe phase emits, as a bag: the structural inner join plus (for right/full joins) the
right rows whose key is not in the table, padded. -/
theorem probe_out_perm (pr : Bool) (lk rk : List (Row → Val)) (nL : Nat) (L R : List Row) :
    ((hjProbeS pr rk nL R (hmBuild lk L)).2).Perm
      (L.flatMap (fun l => (R.filter (fun r => keyOf lk l == keyOf rk r)).map (l ++ ·)) ++
        (if pr then (R.filter (fun r => (L.filter (fun l => keyOf lk l == keyOf rk r)).isEmpty)).map (nulls nL ++ ·) else [])) := by
  rw [probe_out]
  have h : (R.flatMap (fun r =>
      match rowsOf (keyOf rk r) (hmBuild lk L) with
      | some rows => rows.map (· ++ r)
      | none => if pr then [nulls nL ++ r] else [])) =
      R.flatMap (fun r => (L.filter (fun l => keyOf lk l == keyOf rk r)).map (fun l => l ++ r) ++
        (if (pr && (L.filter (fun l => keyOf lk l == keyOf rk r)).isEmpty) then [nulls nL ++ r] else [])) := by
    apply flatMap_congr'
    intro r _
    rw [rowsOf_build]
    cases hf : (L.filter (fun l => keyOf lk l == keyOf rk r)).isEmpty
    · simp
    · have : L.filter (fun l => keyOf lk l == keyOf rk r) = [] := List.isEmpty_iff.mp hf
      cases pr <;> simp [this]
  refine (Perm.of_eq h).trans ?_
  refine (flatMap_append_perm _ _ R).trans ?_
  refine Perm.append (cross_swap_perm2 (fun l r => l ++ r) (fun l r => keyOf lk l == keyOf rk r) L R) ?_
  rw [flatMap_ite_singleton]
  cases pr
  · simp
  · simp

theorem filter_isEmpty_eq_not_any {α} (p : α → Bool) (L : List α) : (L.filter p).isEmpty = !L.any p := by
  induction L with
  | nil => rfl
  | cons a as ih =>
    simp only [List.filter_cons, List.any_cons]
    cases p a
    · simpa using ih
    · simp

theorem matchedBy_keys (lk rk : List (Row → Val)) (nL : Nat) (L R : List Row)
    (hlen : ∀ l ∈ L, l.length = nL) (hk : KeysComparableS lk rk L R) (r : Row) (hr : r ∈ R) :
    (L.filter (fun l => keyOf lk l == keyOf rk r)).isEmpty =
      !matchedBy (equiOn nL lk rk (fun _ => some true)) L r := by
  unfold matchedBy
  have : L.any (fun l => holds (equiOn nL lk rk (fun _ => some true) (l ++ r))) =
      L.any (fun l => keyOf lk l == keyOf rk r) := by
    apply any_congr'
    intro l hl
    rw [equiOn_split nL lk rk l r (hlen l hl)]
    exact (hk l hl r hr).symm
  rw [this, filter_isEmpty_eq_not_any]

theorem structural_inner_eq_spec (lk rk : List (Row → Val)) (nL : Nat) (L R : List Row)
    (hlen : ∀ l ∈ L, l.length = nL) (hk : KeysComparableS lk rk L R) :
    L.flatMap (fun l => (R.filter (fun r => keyOf lk l == keyOf rk r)).map (l ++ ·)) =
      innerJoin (equiOn nL lk rk (fun _ => some true)) L R := by
  unfold innerJoin matchesOf
  apply flatMap_congr'
  intro l hl
  congr 1
  apply List.filter_congr
  intro r hr
  rw [equiOn_split nL lk rk l r (hlen l hl)]
  exact hk l hl r hr

theorem filter_congr_mem {α} (p q : α → Bool) (L : List α) (h : ∀ a ∈ L, p a = q a) : L.filter p = L.filter q :=
  List.filter_congr h

/-- RIGHT OUTER hash join = spec under KeysComparableS. -/
theorem hash_eq_spec_right_outer_partial (lk rk : List (Row → Val)) (nL nR : Nat) (Ls Rs : List Chunk)
    (hlen : ∀ l ∈ flat Ls, l.length = nL)
    (hk : KeysComparableS lk rk (flat Ls) (flat Rs)) :
    (flat (hashJoinS .rightOuter lk rk nL nR Ls Rs)).Perm
      (joinRel .rightOuter (equiOn nL lk rk (fun _ => some true)) nL nR (flat Ls) (flat Rs)) := by
  unfold hashJoinS
  simp only [show (JoinType.rightOuter == JoinType.rightOuter || JoinType.rightOuter == JoinType.fullOuter) = true from rfl,
    show (JoinType.rightOuter == JoinType.leftOuter || JoinType.rightOuter == JoinType.fullOuter) = false from rfl,
    Bool.false_eq_true, if_false, List.append_nil]
  rw [flat_emit]
  refine (probe_out_perm true lk rk nL (flat Ls) (flat Rs)).trans (Perm.of_eq ?_)
  unfold joinRel rightJoin rightUnmatched
  rw [structural_inner_eq_spec lk rk nL _ _ hlen hk]
  simp only [if_true]
  congr 2
  apply List.filter_congr
  intro r hr
  rw [matchedBy_keys lk rk nL _ _ hlen hk r hr]


/-! ### nested-loop left outer join: the bitmap pass -/

theorem flat_rechunk (k : Nat) (Xs : List Chunk) : flat (rechunk k Xs) = flat Xs := by
  unfold rechunk; split
  · simp [flat]
  · rw [builder_flat]; rfl

/-- element `i + |L|·j` of the right-major cross product is the pair (L[i], R[j]). -/
theorem cross_getElem? {α β γ} (h : α → β → γ) (L : List α) (R : List β) (i j : Nat) (hi : i < L.length) :
    (R.flatMap (fun r => L.map (fun l => h l r)))[i + L.length * j]? =
      (R[j]?).bind (fun r => (L[i]?).map (fun l => h l r)) := by
  induction R generalizing j with
  | nil => simp
  | cons r rs ih =>
    simp only [List.flatMap_cons]
    cases j with
    | zero =>
      simp only [Nat.mul_zero, Nat.add_zero, List.getElem?_cons_zero, Option.bind_some]
      rw [List.getElem?_append_left (by simpa using hi), List.getElem?_map]
    | succ j' =>
      have e : i + L.length * (j' + 1) = (L.map (fun l => h l r)).length + (i + L.length * j') := by
        simp only [List.length_map]; rw [Nat.mul_succ]; omega
      rw [e, List.getElem?_append_right (by omega)]
      simp only [Nat.add_sub_cancel_left, List.getElem?_cons_succ]
      exact ih j'

theorem any_range_getElem? {β} (R : List β) (p : Option β → Bool) (hp : p none = false) :
    (List.range R.length).any (fun j => p R[j]?) = R.any (fun r => p (some r)) := by
  rw [Bool.eq_iff_iff]
  simp only [List.any_eq_true, List.mem_range]
  constructor
  · rintro ⟨j, hj, h⟩
    refine ⟨R[j], List.getElem_mem hj, ?_⟩
    simpa [List.getElem?_eq_getElem hj] using h
  · rintro ⟨r, hr, h⟩
    obtain ⟨j, hj, rfl⟩ := List.getElem_of_mem hr
    exact ⟨j, hj, by simpa [List.getElem?_eq_getElem hj] using h⟩

/-- the bitmap pass finds exactly the left rows without a partner. -/
theorem nlMatched_spec (on : Pred) (L R : List Row) (i : Nat) (l : Row) (hl : L[i]? = some l) :
    nlMatched ((crossRL L R).map on) L.length R.length i = !(matchesOf on l R).isEmpty := by
  have hi : i < L.length := by
    rcases Nat.lt_or_ge i L.length with h | h
    · exact h
    · rw [List.getElem?_eq_none h] at hl; cases hl
  unfold nlMatched crossRL
  rw [matches_isEmpty, Bool.not_not]
  have key : ∀ j, ((R.flatMap (fun r => L.map (fun l => l ++ r))).map on).getD (i + L.length * j) none =
      ((R[j]?).map (fun r => on (l ++ r))).getD none := by
    intro j
    rw [List.getD_eq_getElem?_getD, List.getElem?_map, cross_getElem? (fun l r => l ++ r) L R i j hi, hl]
    cases R[j]? <;> rfl
  have : (List.range R.length).any (fun j => holds (((R.flatMap (fun r => L.map (fun l => l ++ r))).map on).getD (i + L.length * j) none)) =
      (List.range R.length).any (fun j => (fun o : Option Row => holds ((o.map (fun r => on (l ++ r))).getD none)) R[j]?) := by
    congr 1; funext j; rw [key j]
  rw [this, any_range_getElem? R (fun o => holds ((o.map (fun r => on (l ++ r))).getD none)) rfl]
  rfl

theorem mem_zip_range {α} (L : List α) (i : Nat) (l : α) (h : (i, l) ∈ (List.range L.length).zip L) :
    L[i]? = some l := by
  obtain ⟨k, hk, hkk⟩ := List.getElem_of_mem h
  simp only [List.getElem_zip, List.getElem_range, Prod.mk.injEq] at hkk
  obtain ⟨rfl, rfl⟩ := hkk
  simp only [List.length_zip, List.length_range, Nat.min_self] at hk
  exact List.getElem?_eq_getElem hk

theorem filterMap_congr_mem {α β} (f g : α → Option β) (L : List α) (h : ∀ a ∈ L, f a = g a) :
    L.filterMap f = L.filterMap g := by
  induction L with
  | nil => rfl
  | cons a as ih =>
    simp only [List.filterMap_cons]
    rw [h a List.mem_cons_self, ih (fun x hx => h x (List.mem_cons_of_mem _ hx))]

theorem nlUnmatched_spec (on : Pred) (nR : Nat) (L R : List Row) :
    nlUnmatched ((crossRL L R).map on) nR L R.length = leftUnmatched on nR L R := by
  unfold nlUnmatched leftUnmatched
  have h1 : ((List.range L.length).zip L).filterMap (fun (p : Nat × Row) =>
        if nlMatched ((crossRL L R).map on) L.length R.length p.1 then none else some (p.2 ++ nulls nR)) =
      ((List.range L.length).zip L).filterMap (fun p =>
        (fun l => if (matchesOf on l R).isEmpty then some (l ++ nulls nR) else none) p.2) := by
    apply filterMap_congr_mem
    rintro ⟨i, l⟩ hm
    simp only
    rw [nlMatched_spec on L R i l (mem_zip_range L i l hm)]
    cases (matchesOf on l R).isEmpty <;> rfl
  rw [h1]
  have h2 : ∀ (g : Row → Option Row), ((List.range L.length).zip L).filterMap (fun p => g p.2) = L.filterMap g := by
    intro g
    have : (fun p : Nat × Row => g p.2) = g ∘ Prod.snd := rfl
    rw [this, ← List.filterMap_map]
    congr 1
    rw [List.map_snd_zip]; simp
  refine (h2 (fun l => if (matchesOf on l R).isEmpty then some (l ++ nulls nR) else none)).trans ?_
  clear h1 h2
  induction L with
  | nil => rfl
  | cons a as ih =>
    simp only [List.filterMap_cons, List.filter_cons]
    cases (matchesOf on a R).isEmpty
    · simp only [Bool.false_eq_true, if_false]; exact ih
    · simp only [if_true, List.map_cons]; rw [ih]


theorem leftJoin_perm_decomp (on : Pred) (nR : Nat) (L R : List Row) :
    (leftJoin on nR L R).Perm (innerJoin on L R ++ leftUnmatched on nR L R) := by
  unfold leftJoin innerJoin leftUnmatched
  induction L with
  | nil => simp
  | cons l ls ih =>
    simp only [List.flatMap_cons, List.filter_cons]
    cases h : (matchesOf on l R).isEmpty
    · simp only [Bool.false_eq_true, if_false]
      rw [List.append_assoc]
      exact Perm.append_left _ ih
    · have hm : matchesOf on l R = [] := List.isEmpty_iff.mp h
      simp only [if_true, hm, List.map_nil, List.nil_append, List.map_cons]
      refine (Perm.cons _ ih).trans ?_
      exact perm_middle.symm


/-! generic insertion-ordered association list (what both hash tables are) -/

def gInsert {K σ α} [BEq K] (step : σ → α → σ) (init : σ) (k : K) (a : α) : List (K × σ) → List (K × σ)
  | [] => [(k, step init a)]
  | (k', s) :: es => if k' == k then (k', step s a) :: es else (k', s) :: gInsert step init k a es

/-- no element occurs twice (w.r.t. `==`). -/
def NoDup {K} [BEq K] : List K → Prop
  | [] => True
  | x :: xs => (∀ y ∈ xs, (y == x) = false) ∧ NoDup xs

theorem noDup_filter {K} [BEq K] (p : K → Bool) (xs : List K) (h : NoDup xs) : NoDup (xs.filter p) := by
  induction xs with
  | nil => trivial
  | cons x xs ih =>
    simp only [List.filter_cons]
    split
    · exact ⟨fun y hy => h.1 y (List.mem_filter.mp hy).1, ih h.2⟩
    · exact ih h.2

theorem noDup_dedup {K} [BEq K] (xs : List K) : NoDup (dedup xs) := by
  induction xs with
  | nil => trivial
  | cons x xs ih =>
    simp only [dedup]
    refine ⟨fun y hy => ?_, noDup_filter _ _ ih⟩
    have := (List.mem_filter.mp hy).2
    simpa using this

theorem mem_dedup {K} [BEq K] [LawfulBEq K] (xs : List K) (k : K) : k ∈ dedup xs ↔ k ∈ xs := by
  induction xs with
  | nil => simp [dedup]
  | cons x xs ih =>
    simp only [dedup, List.mem_cons, List.mem_filter, ih]
    constructor
    · rintro (h | ⟨h, _⟩)
      · exact Or.inl h
      · exact Or.inr h
    · rintro (h | h)
      · exact Or.inl h
      · by_cases hx : k = x
        · exact Or.inl hx
        · exact Or.inr ⟨h, by simpa using hx⟩

theorem contains_dedup {K} [BEq K] [LawfulBEq K] (xs : List K) (k : K) : (dedup xs).contains k = xs.contains k := by
  rw [Bool.eq_iff_iff, List.contains_iff_mem, List.contains_iff_mem]
  exact mem_dedup xs k

theorem dedup_snoc {K} [BEq K] [LawfulBEq K] (xs : List K) (x : K) :
    dedup (xs ++ [x]) = if xs.contains x then dedup xs else dedup xs ++ [x] := by
  induction xs with
  | nil => simp [dedup]
  | cons y ys ih =>
    simp only [List.cons_append, dedup, ih, List.contains_cons]
    by_cases hxy : x == y
    · have e : x = y := eq_of_beq hxy
      subst e
      simp only [BEq.rfl, Bool.true_or, if_true]
      split
      · rfl
      · rw [List.filter_append]; simp
    · simp only [hxy, Bool.false_or]
      split
      · rfl
      · rw [List.filter_append]
        simp [hxy]

theorem gInsert_map {K σ α} [BEq K] [LawfulBEq K] (step : σ → α → σ) (init : σ) (k : K) (a : α)
    (g : K → σ) (D : List K) (hD : NoDup D) :
    gInsert step init k a (D.map (fun d => (d, g d))) =
      if D.contains k then D.map (fun d => (d, if d == k then step (g d) a else g d))
      else D.map (fun d => (d, g d)) ++ [(k, step init a)] := by
  induction D with
  | nil => simp [gInsert]
  | cons d ds ih =>
    simp only [List.map_cons, gInsert, List.contains_cons]
    by_cases hd : d == k
    · have hkd : (k == d) = true := by rw [eq_of_beq hd]; exact BEq.rfl
      simp only [hd, if_true, hkd, Bool.true_or]
      congr 1
      apply List.map_congr_left
      intro d' hd'
      have : (d' == k) = false := by
        have := hD.1 d' hd'
        rw [eq_of_beq hd] at this; exact this
      simp [this]
    · have hkd : (k == d) = false := by
        cases h : k == d
        · rfl
        · exact absurd (by rw [eq_of_beq h]; exact BEq.rfl) hd
      simp only [hd, Bool.false_eq_true, if_false, hkd, Bool.false_or]
      rw [ih hD.2]
      split <;> simp

/-- THE table lemma: folding `gInsert` over `L` yields, in first-occurrence order of the keys, each
key with the fold of `step` over exactly the elements carrying that key (in input order). -/
theorem gBuild_eq {K σ α} [BEq K] [LawfulBEq K] (step : σ → α → σ) (init : σ) (key : α → K) (L1 L0 : List α) :
    L1.foldl (fun m a => gInsert step init (key a) a m)
        ((dedup (L0.map key)).map (fun k => (k, (L0.filter (fun a => key a == k)).foldl step init))) =
      (dedup ((L0 ++ L1).map key)).map (fun k => (k, ((L0 ++ L1).filter (fun a => key a == k)).foldl step init)) := by
  induction L1 generalizing L0 with
  | nil => simp
  | cons a as ih =>
    simp only [List.foldl_cons]
    have snoc : gInsert step init (key a) a
        ((dedup (L0.map key)).map (fun k => (k, (L0.filter (fun a => key a == k)).foldl step init))) =
        (dedup ((L0 ++ [a]).map key)).map (fun k => (k, ((L0 ++ [a]).filter (fun a => key a == k)).foldl step init)) := by
      rw [gInsert_map step init (key a) a _ _ (noDup_dedup _), contains_dedup]
      rw [List.map_append, List.map_cons, List.map_nil, dedup_snoc]
      by_cases hc : (L0.map key).contains (key a)
      · simp only [hc, if_true]
        apply List.map_congr_left
        intro d _
        rw [List.filter_append]
        by_cases hd : d == key a
        · have : (key a == d) = true := by rw [eq_of_beq hd]; exact BEq.rfl
          simp [hd, this, List.foldl_append]
        · have : (key a == d) = false := by
            cases h : key a == d
            · rfl
            · exact absurd (by rw [eq_of_beq h]; exact BEq.rfl) hd
          simp [hd, this]
      · simp only [hc, Bool.false_eq_true, if_false, List.map_append, List.map_cons, List.map_nil]
        have hnone : L0.filter (fun x => key x == key a) = [] := by
          rw [List.filter_eq_nil_iff]
          intro x hx hxa
          apply hc
          rw [List.contains_iff_mem]
          rw [← eq_of_beq hxa]
          exact List.mem_map_of_mem hx
        congr 1
        · apply List.map_congr_left
          intro d hd
          have hda : (key a == d) = false := by
            cases h : key a == d
            · rfl
            · exfalso; apply hc
              have : (dedup (L0.map key)).contains (key a) = true := by
                rw [List.contains_iff_mem, eq_of_beq h]; exact hd
              rwa [contains_dedup] at this
          rw [List.filter_append]
          simp [hda]
        · rw [List.filter_append, hnone]
          simp
    rw [snoc]
    have := ih (L0 ++ [a])
    simpa [List.append_assoc] using this


/-! ### the build-side table of the hash join, explicitly -/

def toEntry (p : List Val × List Row) : HEntry := { key := p.1, rows := p.2, matched := false }

theorem hmInsert_toEntry (k : List Val) (row : Row) (m : List (List Val × List Row)) :
    hmInsert k row (m.map toEntry) = (gInsert (fun rows l => rows ++ [l]) [] k row m).map toEntry := by
  induction m with
  | nil => rfl
  | cons e es ih =>
    obtain ⟨k', rows⟩ := e
    simp only [List.map_cons, hmInsert, gInsert, toEntry]
    split
    · rfl
    · simp only [List.map_cons, toEntry]; rw [← ih]

theorem foldl_snoc_id {α} (xs acc : List α) : xs.foldl (fun rows l => rows ++ [l]) acc = acc ++ xs := by
  induction xs generalizing acc with
  | nil => simp
  | cons x xs ih => simp [ih]

/-- entries of a table described by its key list, row function and flag function. -/
def tbl (D : List (List Val)) (rows : List Val → List Row) (flag : List Val → Bool) : List HEntry :=
  D.map (fun d => { key := d, rows := rows d, matched := flag d })

theorem hmBuild_struct (lk : List (Row → Val)) (L : List Row) :
    hmBuild lk L = tbl (dedup (L.map (keyOf lk))) (fun k => L.filter (fun l => keyOf lk l == k)) (fun _ => false) := by
  unfold hmBuild
  have h : ∀ (L1 : List Row) (m : List (List Val × List Row)),
      L1.foldl (fun m l => hmInsert (keyOf lk l) l m) (m.map toEntry) =
        (L1.foldl (fun m l => gInsert (fun rows l => rows ++ [l]) [] (keyOf lk l) l m) m).map toEntry := by
    intro L1
    induction L1 with
    | nil => intro m; rfl
    | cons l ls ih => intro m; simp only [List.foldl_cons]; rw [hmInsert_toEntry, ih]
  have h0 := h L []
  simp only [List.map_nil] at h0
  rw [h0]
  have h2 := gBuild_eq (fun (rows : List Row) l => rows ++ [l]) [] (keyOf lk) L []
  simp only [List.map_nil, dedup, List.nil_append] at h2
  rw [h2, List.map_map]
  unfold tbl
  apply List.map_congr_left
  intro k _
  simp only [Function.comp, toEntry, foldl_snoc_id, List.nil_append]

theorem lookup_tbl_isSome (D : List (List Val)) (rows) (flag) (k : List Val) :
    (hmLookup k (tbl D rows flag)).isSome = D.contains k := by
  unfold tbl
  induction D with
  | nil => rfl
  | cons d ds ih =>
    simp only [List.map_cons, hmLookup, List.contains_cons]
    by_cases h : d == k
    · have : (k == d) = true := by rw [eq_of_beq h]; exact BEq.rfl
      simp [h, this]
    · have : (k == d) = false := by
        cases hk : k == d
        · rfl
        · exact absurd (by rw [eq_of_beq hk]; exact BEq.rfl) h
      simp only [h, Bool.false_eq_true, if_false, this, Bool.false_or]; exact ih

theorem mark_tbl (D : List (List Val)) (hD : NoDup D) (rows) (flag) (k : List Val) :
    hmMark k (tbl D rows flag) = tbl D rows (fun d => flag d || d == k) := by
  unfold tbl
  induction D with
  | nil => rfl
  | cons d ds ih =>
    simp only [List.map_cons, hmMark]
    by_cases h : d == k
    · simp only [h, if_true, Bool.or_true]
      congr 1
      apply List.map_congr_left
      intro d' hd'
      have : (d' == k) = false := by
        have := hD.1 d' hd'; rw [eq_of_beq h] at this; exact this
      simp [this]
    · simp only [h, Bool.false_eq_true, if_false, Bool.or_false]
      rw [ih hD.2]

theorem nomark_tbl (D : List (List Val)) (rows) (flag) (k : List Val) (hk : D.contains k = false) :
    tbl D rows (fun d => flag d || d == k) = tbl D rows flag := by
  unfold tbl
  apply List.map_congr_left
  intro d hd
  have : (d == k) = false := by
    cases h : d == k
    · rfl
    · exfalso
      have : D.contains k = true := by rw [List.contains_iff_mem, ← eq_of_beq h]; exact hd
      rw [hk] at this; cases this
  simp [this]

theorem probe_fst_cons (pr : Bool) (rk : List (Row → Val)) (nL : Nat) (r : Row) (rs : List Row) (m : List HEntry) :
    (hjProbeS pr rk nL (r :: rs) m).1 =
      (hjProbeS pr rk nL rs (if (hmLookup (keyOf rk r) m).isSome then hmMark (keyOf rk r) m else m)).1 := by
  rw [hjProbeS]
  cases hmLookup (keyOf rk r) m <;> simp

/-- matched flags after the probe phase: a key is matched iff some right row carries it. -/
theorem probe_tbl (pr : Bool) (rk : List (Row → Val)) (nL : Nat) (D : List (List Val)) (hD : NoDup D) (rows)
    (R : List Row) (flag : List Val → Bool) :
    (hjProbeS pr rk nL R (tbl D rows flag)).1 =
      tbl D rows (fun d => flag d || R.any (fun r => d == keyOf rk r)) := by
  induction R generalizing flag with
  | nil => simp [hjProbeS]
  | cons r rs ih =>
    rw [probe_fst_cons]
    have hstep : (if (hmLookup (keyOf rk r) (tbl D rows flag)).isSome then hmMark (keyOf rk r) (tbl D rows flag)
        else tbl D rows flag) = tbl D rows (fun d => flag d || d == keyOf rk r) := by
      rw [lookup_tbl_isSome]
      by_cases hc : D.contains (keyOf rk r)
      · simp only [hc, if_true]; exact mark_tbl D hD rows flag _
      · simp only [hc, Bool.false_eq_true, if_false]
        exact (nomark_tbl D rows flag _ (by simpa using hc)).symm
    rw [hstep, ih]
    congr 1; funext d; simp [Bool.or_assoc]

/-! ### grouping by key is a permutation -/

theorem noDup_filter_eq {K} [BEq K] [LawfulBEq K] (D : List K) (hD : NoDup D) (x : K) :
    D.filter (fun d => d == x) = if D.contains x then [x] else [] := by
  induction D with
  | nil => rfl
  | cons d ds ih =>
    simp only [List.filter_cons, List.contains_cons]
    by_cases h : d == x
    · have e : d = x := eq_of_beq h
      subst e
      have hnil : ds.filter (fun d' => d' == d) = [] := by
        rw [List.filter_eq_nil_iff]; intro y hy; simp [hD.1 y hy]
      simp [hnil]
    · have : (x == d) = false := by
        cases hk : x == d
        · rfl
        · exact absurd (by rw [eq_of_beq hk]; exact BEq.rfl) h
      simp only [h, Bool.false_eq_true, if_false, this, Bool.false_or]
      exact ih hD.2

theorem group_perm {α K} [BEq K] [LawfulBEq K] (f : α → K) (L : List α) :
    ((dedup (L.map f)).flatMap (fun k => L.filter (fun a => f a == k))).Perm L := by
  induction L with
  | nil => simp [dedup]
  | cons a as ih =>
    simp only [List.map_cons, dedup, List.flatMap_cons, List.filter_cons, BEq.rfl, if_true]
    have hrest : ((dedup (as.map f)).filter (fun y => !(y == f a))).flatMap
          (fun k => if f a == k then a :: as.filter (fun x => f x == k) else as.filter (fun x => f x == k)) =
        ((dedup (as.map f)).filter (fun y => !(y == f a))).flatMap (fun k => as.filter (fun x => f x == k)) := by
      apply flatMap_congr'
      intro k hk
      have : (k == f a) = false := by simpa using (List.mem_filter.mp hk).2
      have : (f a == k) = false := by
        cases h : f a == k
        · rfl
        · rw [eq_of_beq h] at this; simp at this
      simp [this]
    rw [hrest]
    simp only [List.cons_append]
    refine Perm.cons a ?_
    -- as ~ as.filter (f = f a) ++ rest
    have hsplit : ((dedup (as.map f)).flatMap (fun k => as.filter (fun x => f x == k))).Perm
        (((dedup (as.map f)).filter (fun y => y == f a)).flatMap (fun k => as.filter (fun x => f x == k)) ++
         ((dedup (as.map f)).filter (fun y => !(y == f a))).flatMap (fun k => as.filter (fun x => f x == k))) := by
      have := (filter_append_perm (fun y => y == f a) (dedup (as.map f))).symm
      refine (Perm.flatMap_right _ this).trans ?_
      rw [List.flatMap_append]
    have hfirst : ((dedup (as.map f)).filter (fun y => y == f a)).flatMap (fun k => as.filter (fun x => f x == k)) =
        as.filter (fun x => f x == f a) := by
      rw [noDup_filter_eq _ (noDup_dedup _), contains_dedup]
      by_cases hc : (as.map f).contains (f a)
      · rw [if_pos hc]; simp
      · rw [if_neg hc, List.flatMap_nil]
        symm
        rw [List.filter_eq_nil_iff]
        intro x hx hxa
        apply hc
        rw [List.contains_iff_mem, ← eq_of_beq hxa]
        exact List.mem_map_of_mem hx
    rw [hfirst] at hsplit
    exact hsplit.symm.trans ih

theorem dedup_filter_comm' {α} [BEq α] [LawfulBEq α] (p : α → Bool) (xs : List α) :
    dedup (xs.filter p) = (dedup xs).filter p := by
  induction xs with
  | nil => rfl
  | cons x xs ih =>
    simp only [List.filter_cons]
    cases hp : p x
    · simp only [Bool.false_eq_true, if_false, dedup, List.filter_cons, hp, ih, List.filter_filter]
      apply List.filter_congr
      intro y _
      by_cases hy : y == x
      · have : y = x := eq_of_beq hy
        subst this; simp [hp]
      · simp [hy]
    · simp only [if_true, dedup, List.filter_cons, hp, ih, List.filter_filter]
      congr 1
      apply List.filter_congr
      intro y _; exact Bool.and_comm _ _


/-- … also for the groups selected by a predicate on the key. -/
theorem group_perm_filter {α K} [BEq K] [LawfulBEq K] (f : α → K) (q : K → Bool) (L : List α) :
    (((dedup (L.map f)).filter q).flatMap (fun k => L.filter (fun a => f a == k))).Perm
      (L.filter (fun a => q (f a))) := by
  have h := group_perm f (L.filter (fun a => q (f a)))
  have e1 : dedup ((L.filter (fun a => q (f a))).map f) = (dedup (L.map f)).filter q := by
    rw [← dedup_filter_comm']
    congr 1
    rw [List.filter_map]; rfl
  rw [e1] at h
  refine Perm.trans (Perm.of_eq ?_) h
  apply flatMap_congr'
  intro k hk
  have hq : q k = true := (List.mem_filter.mp hk).2
  rw [List.filter_filter]
  apply List.filter_congr
  intro a _
  by_cases ha : f a == k
  · rw [eq_of_beq ha]; simp [hq]
  · simp [ha]


/-- the unmatched tail of a left / full hash join, as a bag: the left rows whose key no right row
carries (structurally), padded. -/
theorem hashjoin_rest_perm (pr : Bool) (lk rk : List (Row → Val)) (nL nR : Nat) (L R : List Row) :
    ((((hjProbeS pr rk nL R (hmBuild lk L)).1).filter (fun e => !e.matched)).flatMap
        (fun e => e.rows.map (· ++ nulls nR))).Perm
      ((L.filter (fun l => (R.filter (fun r => keyOf lk l == keyOf rk r)).isEmpty)).map (· ++ nulls nR)) := by
  rw [hmBuild_struct, probe_tbl pr rk nL _ (noDup_dedup _)]
  unfold tbl
  rw [List.filter_map, List.flatMap_map]
  simp only [Function.comp_def, Bool.false_or]
  have e1 : ((dedup (L.map (keyOf lk))).filter (fun d => !R.any (fun r => d == keyOf rk r))).flatMap
        (fun d => (L.filter (fun l => keyOf lk l == d)).map (· ++ nulls nR)) =
      (((dedup (L.map (keyOf lk))).filter (fun d => !R.any (fun r => d == keyOf rk r))).flatMap
        (fun d => L.filter (fun l => keyOf lk l == d))).map (· ++ nulls nR) := by
    rw [List.map_flatMap]
  rw [e1]
  refine (Perm.map _ (group_perm_filter (keyOf lk) (fun d => !R.any (fun r => d == keyOf rk r)) L)).trans (Perm.of_eq ?_)
  congr 1
  apply List.filter_congr
  intro l _
  rw [filter_isEmpty_eq_not_any]

theorem leftUnmatched_keys (lk rk : List (Row → Val)) (nL nR : Nat) (L R : List Row)
    (hlen : ∀ l ∈ L, l.length = nL) (hk : KeysComparableS lk rk L R) :
    (L.filter (fun l => (R.filter (fun r => keyOf lk l == keyOf rk r)).isEmpty)).map (· ++ nulls nR) =
      leftUnmatched (equiOn nL lk rk (fun _ => some true)) nR L R := by
  unfold leftUnmatched matchesOf
  congr 1
  apply List.filter_congr
  intro l hl
  congr 1
  apply List.filter_congr
  intro r hr
  rw [equiOn_split nL lk rk l r (hlen l hl)]
  exact hk l hl r hr

theorem rightUnmatched_keys (lk rk : List (Row → Val)) (nL : Nat) (L R : List Row)
    (hlen : ∀ l ∈ L, l.length = nL) (hk : KeysComparableS lk rk L R) :
    (R.filter (fun r => (L.filter (fun l => keyOf lk l == keyOf rk r)).isEmpty)).map (nulls nL ++ ·) =
      rightUnmatched (equiOn nL lk rk (fun _ => some true)) nL L R := by
  unfold rightUnmatched
  congr 1
  apply List.filter_congr
  intro r hr
  rw [matchedBy_keys lk rk nL _ _ hlen hk r hr]

theorem flat_append (a b : List Chunk) : flat (a ++ b) = flat a ++ flat b := by simp [flat]

/-- LEFT OUTER hash join = spec under KeysComparableS. -/
theorem hash_eq_spec_left_outer_partial (lk rk : List (Row → Val)) (nL nR : Nat) (Ls Rs : List Chunk)
    (hlen : ∀ l ∈ flat Ls, l.length = nL) (hk : KeysComparableS lk rk (flat Ls) (flat Rs)) :
    (flat (hashJoinS .leftOuter lk rk nL nR Ls Rs)).Perm
      (joinRel .leftOuter (equiOn nL lk rk (fun _ => some true)) nL nR (flat Ls) (flat Rs)) := by
  unfold hashJoinS
  simp only [show (JoinType.leftOuter == JoinType.rightOuter || JoinType.leftOuter == JoinType.fullOuter) = false from rfl,
    show (JoinType.leftOuter == JoinType.leftOuter || JoinType.leftOuter == JoinType.fullOuter) = true from rfl, if_true]
  rw [flat_emit]
  have h1 := probe_out_perm false lk rk nL (flat Ls) (flat Rs)
  have h2 := hashjoin_rest_perm false lk rk nL nR (flat Ls) (flat Rs)
  simp only [Bool.false_eq_true, if_false, List.append_nil] at h1
  rw [structural_inner_eq_spec lk rk nL _ _ hlen hk] at h1
  rw [leftUnmatched_keys lk rk nL nR _ _ hlen hk] at h2
  unfold joinRel
  exact (Perm.append h1 h2).trans (leftJoin_perm_decomp _ nR _ _).symm

/-- FULL OUTER hash join = spec under KeysComparableS. -/
theorem hash_eq_spec_full_outer_partial (lk rk : List (Row → Val)) (nL nR : Nat) (Ls Rs : List Chunk)
    (hlen : ∀ l ∈ flat Ls, l.length = nL) (hk : KeysComparableS lk rk (flat Ls) (flat Rs)) :
    (flat (hashJoinS .fullOuter lk rk nL nR Ls Rs)).Perm
      (joinRel .fullOuter (equiOn nL lk rk (fun _ => some true)) nL nR (flat Ls) (flat Rs)) := by
  unfold hashJoinS
  simp only [show (JoinType.fullOuter == JoinType.rightOuter || JoinType.fullOuter == JoinType.fullOuter) = true from rfl,
    show (JoinType.fullOuter == JoinType.leftOuter || JoinType.fullOuter == JoinType.fullOuter) = true from rfl, if_true]
  rw [flat_emit]
  have h1 := probe_out_perm true lk rk nL (flat Ls) (flat Rs)
  have h2 := hashjoin_rest_perm true lk rk nL nR (flat Ls) (flat Rs)
  simp only [if_true] at h1
  rw [structural_inner_eq_spec lk rk nL _ _ hlen hk, rightUnmatched_keys lk rk nL _ _ hlen hk] at h1
  rw [leftUnmatched_keys lk rk nL nR _ _ hlen hk] at h2
  unfold joinRel fullJoin
  -- (inner ++ runm) ++ lunm  ~  leftJoin ++ runm
  refine (Perm.append h1 h2).trans ?_
  refine Perm.trans ?_ (Perm.append_right _ (leftJoin_perm_decomp _ nR _ _).symm)
  simp only [List.append_assoc]
  exact Perm.append_left _ perm_append_comm


end RlModel
