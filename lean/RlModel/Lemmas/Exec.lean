import RlModel.Model.Exec
/-! Helper lemmas for the C02 / C11 theorems (core Lean only). -/
namespace RlModel
open List

/-! ### chunk builder -/

theorem builder_flat (cap : Nat) (rows cur : List Row) :
    flat (builderRun cap rows cur) = cur ++ rows := by
  induction rows generalizing cur with
  | nil =>
    unfold builderRun flat
    cases cur <;> simp
  | cons r rs ih =>
    unfold builderRun
    split
    · simp only [flat] at *
      simp [ih]
    · rw [ih]; simp

theorem flat_emit (rows : List Row) : flat (emit rows) = rows := by
  unfold emit
  rw [builder_flat]
  rfl

theorem flat_map_filter (p : Row → Bool) (cs : List Chunk) :
    flat (cs.map (fun w => w.filter p)) = (flat cs).filter p := by
  unfold flat; rw [List.filter_flatten]

theorem flat_map_map (f : Row → Row) (cs : List Chunk) :
    flat (cs.map (fun w => w.map f)) = (flat cs).map f := by
  unfold flat; rw [List.map_flatten]

/-! ### bags -/

theorem flatMap_append_perm {α β} (g h : α → List β) (L : List α) :
    (L.flatMap (fun l => g l ++ h l)).Perm (L.flatMap g ++ L.flatMap h) := by
  induction L with
  | nil => simp
  | cons a as ih =>
    simp only [List.flatMap_cons]
    have h1 : ((g a ++ h a) ++ as.flatMap (fun l => g l ++ h l)).Perm
        ((g a ++ h a) ++ (as.flatMap g ++ as.flatMap h)) := Perm.append_left _ ih
    refine h1.trans ?_
    simp only [List.append_assoc]
    apply Perm.append_left
    exact perm_append_comm_assoc _ _ _

/-- nested loops commute (as bags), with a filter pushed inside. -/
theorem cross_swap_perm {α β γ} (f : α → β → γ) (p : γ → Bool) (L : List α) (R : List β) :
    ((R.flatMap (fun r => L.map (fun l => f l r))).filter p).Perm
      (L.flatMap (fun l => (R.filter (fun r => p (f l r))).map (f l))) := by
  induction R with
  | nil => simp
  | cons r rs ih =>
    simp only [List.flatMap_cons, List.filter_append, List.filter_cons]
    have h2 : (L.flatMap (fun l => (if p (f l r) = true then r :: rs.filter (fun r => p (f l r)) else rs.filter (fun r => p (f l r))).map (f l))) =
        L.flatMap (fun l => (if p (f l r) then [f l r] else []) ++ (rs.filter (fun r => p (f l r))).map (f l)) := by
      congr 1; funext l; split <;> simp
    rw [h2]
    refine Perm.trans ?_ (flatMap_append_perm _ _ L).symm
    refine Perm.append ?_ ih
    apply Perm.of_eq
    clear ih h2
    induction L with
    | nil => rfl
    | cons a as ih2 =>
      simp only [List.map_cons, List.filter_cons, List.flatMap_cons]
      split <;> simp [ih2]

/-! ### semi / anti -/

theorem any_flat {α} (f : α → Bool) (Xs : List (List α)) :
    Xs.any (fun c => c.any f) = Xs.flatten.any f := by
  rw [List.any_flatten]

theorem matches_isEmpty (on : Pred) (l : Row) (R : List Row) :
    (matchesOf on l R).isEmpty = !R.any (fun r => holds (on (l ++ r))) := by
  unfold matchesOf
  induction R with
  | nil => rfl
  | cons r rs ih =>
    simp only [List.filter_cons, List.any_cons]
    cases h : holds (on (l ++ r)) <;> simp_all

/-! ### insertion sort and the bounded heap -/

theorem take_insertStable {α} (cmp : α → α → Ordering) (x : α) (S : List α) (k : Nat) :
    (insertStable cmp x (S.take k)).take k = (insertStable cmp x S).take k := by
  induction S generalizing k with
  | nil => simp
  | cons y ys ih =>
    cases k with
    | zero => simp
    | succ k' =>
      simp only [List.take_succ_cons, insertStable]
      split
      · simp only [List.take_succ_cons]
        congr 1
        cases k' with
        | zero => simp
        | succ k'' =>
          simp only [List.take_succ_cons]
          congr 1
          rw [List.take_take]; simp
      · simp only [List.take_succ_cons]
        congr 1
        exact ih k'

theorem heap_fold_eq {α} (cmp : α → α → Ordering) (cap : Nat) (X acc : List α) :
    X.foldl (fun h r => (insertStable cmp r h).take cap) (acc.take cap) =
      (X.foldl (fun h r => insertStable cmp r h) acc).take cap := by
  induction X generalizing acc with
  | nil => rfl
  | cons x xs ih =>
    simp only [List.foldl_cons]
    rw [take_insertStable]
    exact ih _

/-! ### limit -/

theorem limitLoop_spec (n off : Nat) (hn : n ≠ 0) (cs : List Chunk) (p : Nat) :
    flat (limitLoop n off cs p) = ((flat cs).drop (off - p)).take (off + n - max off p) := by
  induction cs generalizing p with
  | nil => simp [limitLoop, flat]
  | cons c cs ih =>
    unfold limitLoop
    have hn' : (n == 0) = false := by simp [hn]
    simp only [hn', Bool.false_eq_true, if_false]
    have hflat : flat (c :: cs) = c ++ flat cs := by simp [flat]
    rw [hflat, List.drop_append, List.take_append, List.length_drop]
    by_cases h1 : max p off - p ≥ min (p + c.length) (off + n) - p
    · -- nothing from this chunk
      simp only [h1, if_true, ge_iff_le]
      have hlt : ¬ (max p off - p < min (p + c.length) (off + n) - p) := by omega
      simp only [hlt, decide_false, Bool.false_and, Bool.false_eq_true, if_false, List.nil_append]
      rw [ih]
      have e1 : (c.drop (off - p)).take (off + n - max off p) = [] := by
        rw [List.take_eq_nil_iff]
        by_cases hz : off + n - max off p = 0
        · left; exact hz
        · right; rw [List.drop_eq_nil_iff]; omega
      rw [e1, List.nil_append]
      by_cases hc : off - p ≥ c.length
      · have : off - (p + c.length) = off - p - c.length := by omega
        rw [this]
        congr 1
        omega
      · -- then off + n ≤ max off p .. both sides empty
        have hz : off + n - max off p = 0 ∨ True := Or.inr trivial
        have : off + n - max off (p + c.length) = 0 := by omega
        rw [this]
        have : off + n - max off p - (c.length - (off - p)) = 0 := by omega
        rw [this]
        simp
    · simp only [h1, if_false, ge_iff_le]
      have hlt : (max p off - p < min (p + c.length) (off + n) - p) := by omega
      by_cases h2 : p + c.length ≥ off + n
      · simp only [hlt, decide_true, Bool.true_and, h2, if_true]
        simp only [flat, List.flatten_cons, List.flatten_nil, List.append_nil]
        have : off + n - max off p - (c.length - (off - p)) = 0 := by omega
        rw [this, List.take_zero, List.append_nil]
        congr 1
        · omega
        · congr 1; omega
      · have h2' : ¬ (off + n ≤ p + c.length) := by omega
        simp only [hlt, decide_true, Bool.true_and, h2', decide_false, Bool.false_eq_true, if_false]
        have hf : flat ([(c.drop (max p off - p)).take (min (p + c.length) (off + n) - p - (max p off - p))] ++ limitLoop n off cs (p + c.length)) =
            (c.drop (max p off - p)).take (min (p + c.length) (off + n) - p - (max p off - p)) ++ flat (limitLoop n off cs (p + c.length)) := by
          simp [flat]
        rw [hf, ih]
        congr 1
        · have e1 : max p off - p = off - p := by omega
          have e2 : min (p + c.length) (off + n) = p + c.length := by omega
          rw [e1, e2]
          rw [List.take_of_length_le, List.take_of_length_le]
          · rw [List.length_drop]; omega
          · rw [List.length_drop]; omega
        · have e3 : off - (p + c.length) = off - p - c.length := by omega
          have e4 : off + n - max off (p + c.length) = off + n - max off p - (c.length - (off - p)) := by omega
          rw [e3, e4]

theorem limitLoop_zero (off : Nat) (cs : List Chunk) (p : Nat) : limitLoop 0 off cs p = [] := by
  cases cs <;> simp [limitLoop]

end RlModel
