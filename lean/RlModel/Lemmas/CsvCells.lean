import RlModel.Lemmas.Csv
import RlModel.Thm.C19
/-! C20 ← C19 bridge: a decidable per-type predicate `cellGood` on cells, and the proof that a good
cell prints to a non-empty text which `push_str` parses back to the same cell (using C19's round-trip
theorems for every type).  `Thm/C20.table_roundtrip_typed` instantiates `table_roundtrip_partial` with it. -/
namespace RlModel
open V19 Csv

/-- the cells for which C19 proves `parse (display c) = c` with a non-empty text, per column type
(a decidable predicate on the cell alone) -/
def cellGood : Ty → Option DV → Bool
  | .bool, some (.bool _) => true
  | .i16, some (.i16 v) => decide (i16Lo ≤ v ∧ v ≤ i16Hi)
  | .i32, some (.i32 v) => decide (i32Lo ≤ v ∧ v ≤ i32Hi)
  | .i64, some (.i64 v) => decide (i64Lo ≤ v ∧ v ≤ i64Hi)
  | .str, some (.str s) => !s.isEmpty
  | .blob, some (.blob b) => !b.isEmpty
  | .date, some (.date d) => dateInRange d
  | .ts, some (.ts t) =>
      tsPrintable t && decide (chronoMinYear < (civilFromDays ((t - thirtyYearsUs) / 86400000000)).1)
  | .interval, some (.interval m d ms) =>
      inI32 m && inI32 d && inI32 ms && !(decide (m = 0 ∧ d = 0 ∧ ms = 0))
  | _, none => true          -- NULL: written as the empty field, read back as NULL
  | _, _ => false

theorem intDigits_ne_nil (v : Int) : intDigits v ≠ [] := by
  have := length_natDigits_pos v.natAbs
  unfold intDigits
  split
  · simp
  · intro h; rw [h] at this; simp at this

theorem displayBlob_ne_nil : ∀ b : Bytes, b ≠ [] → displayBlob b ≠ []
  | [], h => absurd rfl h
  | x :: xs, _ => by
    unfold displayBlob
    split
    · simp
    · split
      · simp
      · split <;> simp

theorem fmtYmd_ne_nil (y m d : Int) : fmtYmd y m d ≠ [] := by
  unfold fmtYmd; simp

theorem joinSp_ne_nil : ∀ toks : List Bytes, toks ≠ [] → (toks.all tokOk) = true → joinSp toks ≠ []
  | [], h, _ => absurd rfl h
  | [t], _, h => by
    simp only [List.all_cons, List.all_nil, Bool.and_true, tokOk, Bool.and_eq_true] at h
    simp only [joinSp]
    intro he; rw [he] at h; simp at h
  | t :: t2 :: ts, _, _ => by simp [joinSp]

theorem fieldToks_ne_nil (v : Int) (u : Bytes) (h : v ≠ 0) : fieldToks v u ≠ [] := by
  simp [fieldToks, h]

theorem displayInterval_ne_nil (m d ms : Int) (hnz : ¬ (m = 0 ∧ d = 0 ∧ ms = 0)) :
    displayInterval m d ms ≠ [] := by
  obtain ⟨m1, m2, m3⟩ := tdm m 12 (by decide)
  obtain ⟨s1, s2, s3⟩ := tdm ms 1000 (by decide)
  obtain ⟨t1, t2, t3⟩ := tdm (ms.tdiv 1000) 60 (by decide)
  obtain ⟨u1, u2, u3⟩ := tdm ((ms.tdiv 1000).tdiv 60) 60 (by decide)
  unfold displayInterval intervalFields
  apply joinSp_ne_nil _ _ (allTokOk_fields _ _ _ _ _ _ _)
  rw [intervalTokens7]
  -- some field is non-zero
  have hsome : m.tdiv 12 ≠ 0 ∨ m.tmod 12 ≠ 0 ∨ d ≠ 0 ∨ ((ms.tdiv 1000).tdiv 60).tdiv 60 ≠ 0 ∨
      ((ms.tdiv 1000).tdiv 60).tmod 60 ≠ 0 ∨ (ms.tdiv 1000).tmod 60 ≠ 0 ∨ ms.tmod 1000 ≠ 0 := by
    by_cases hm : m = 0
    · by_cases hd : d = 0
      · have hms : ms ≠ 0 := fun h => hnz ⟨hm, hd, h⟩
        right; right; right
        rcases Int.le_total 0 ms with hp | hp
        · have a1 := s2 hp; have a3 := t2 (by omega); have a4 := u2 (by omega); omega
        · have a1 := s3 hp; have a3 := t3 (by omega); have a4 := u3 (by omega); omega
      · right; right; left; exact hd
    · rcases Int.le_total 0 m with hp | hp
      · have := m2 hp; omega
      · have := m3 hp; omega
  intro he
  simp only [List.append_eq_nil_iff] at he
  rcases hsome with h | h | h | h | h | h | h
  · exact fieldToks_ne_nil _ _ h he.1
  · exact fieldToks_ne_nil _ _ h he.2.1
  · exact fieldToks_ne_nil _ _ h he.2.2.1
  · exact fieldToks_ne_nil _ _ h he.2.2.2.1
  · exact fieldToks_ne_nil _ _ h he.2.2.2.2.1
  · exact fieldToks_ne_nil _ _ h he.2.2.2.2.2.1
  · exact fieldToks_ne_nil _ _ h he.2.2.2.2.2.2.1

theorem parseCell_nonempty (ty : Ty) (t : Bytes) (h : t ≠ []) :
    parseCell ty t = (match ty with
      | .bool => some (okSome DV.bool (parseBool t))
      | .i16 => some (okSome DV.i16 (parseIntRange i16Lo i16Hi t))
      | .i32 => some (okSome DV.i32 (parseIntRange i32Lo i32Hi t))
      | .i64 => some (okSome DV.i64 (parseIntRange i64Lo i64Hi t))
      | .str => some (.ok (some (.str t)))
      | .blob => some (okSome DV.blob (parseBlobText t))
      | .date => some (okSome DV.date (parseDate t))
      | .ts => (parseTimestamp t).map (okSome DV.ts)
      | .interval => some (okSome (fun p => DV.interval p.1 p.2.1 p.2.2) (parseInterval t))) := by
  have : t.isEmpty = false := by cases t <;> simp at h ⊢
  unfold parseCell; simp only [this, Bool.false_eq_true, if_false]
  cases ty <;> rfl

/-- every good cell satisfies `CellOk` -/
theorem cellGood_spec (ty : Ty) (c : Option DV) (h : cellGood ty c = true) :
    ∃ t, cellText c = some t ∧ parseCell ty t = some (.ok c) := by
  cases ty <;> cases c with
    | none => exact ⟨[], rfl, by simp [parseCell]⟩
    | some v => ?_
  all_goals (cases v <;> simp only [cellGood, Bool.false_eq_true] at h)
  case bool.some.bool b =>
    refine ⟨displayBool b, rfl, ?_⟩
    rw [parseCell_nonempty _ _ (by cases b <;> simp [displayBool])]
    simp [bool_roundtrip, okSome]
  case i16.some.i16 v =>
    rw [decide_eq_true_eq] at h
    refine ⟨intDigits v, rfl, ?_⟩
    rw [parseCell_nonempty _ _ (intDigits_ne_nil v)]
    simp [parseIntRange_intDigits _ _ _ h, okSome]
  case i32.some.i32 v =>
    rw [decide_eq_true_eq] at h
    refine ⟨intDigits v, rfl, ?_⟩
    rw [parseCell_nonempty _ _ (intDigits_ne_nil v)]
    simp [parseIntRange_intDigits _ _ _ h, okSome]
  case i64.some.i64 v =>
    rw [decide_eq_true_eq] at h
    refine ⟨intDigits v, rfl, ?_⟩
    rw [parseCell_nonempty _ _ (intDigits_ne_nil v)]
    simp [parseIntRange_intDigits _ _ _ h, okSome]
  case str.some.str s =>
    have hs : s ≠ [] := by cases s <;> simp at h ⊢
    exact ⟨s, rfl, by rw [parseCell_nonempty _ _ hs]⟩
  case blob.some.blob b =>
    have hb : b ≠ [] := by cases b <;> simp at h ⊢
    refine ⟨displayBlob b, rfl, ?_⟩
    rw [parseCell_nonempty _ _ (displayBlob_ne_nil b hb), blob_roundtrip b]
    rfl
  case date.some.date d =>
    obtain ⟨t, h1, h2⟩ := date_roundtrip d h
    have ht : t ≠ [] := by
      simp only [displayDate, h, if_true] at h1
      injection h1 with h1; rw [← h1]; exact fmtYmd_ne_nil _ _ _
    refine ⟨t, by simp [cellText, h1], ?_⟩
    rw [parseCell_nonempty _ _ ht, h2]; rfl
  case ts.some.ts us =>
    simp only [Bool.and_eq_true, decide_eq_true_eq] at h
    obtain ⟨t, h1, h2⟩ := timestamp_roundtrip us h.1 h.2
    have ht : t ≠ [] := by
      simp only [displayTimestamp, h.1, Bool.not_true, Bool.false_eq_true, if_false] at h1
      split at h1 <;> (injection h1 with h1; rw [← h1]; simp [fmtYmd])
    refine ⟨t, by simp [cellText, h1], ?_⟩
    rw [parseCell_nonempty _ _ ht, h2]; rfl
  case interval.some.interval m d ms =>
    simp only [Bool.and_eq_true, decide_eq_true_eq, Bool.not_eq_true', decide_eq_false_iff_not] at h
    obtain ⟨⟨⟨hm, hd⟩, hms⟩, hnz⟩ := h
    have hne := displayInterval_ne_nil m d ms hnz
    refine ⟨displayInterval m d ms, rfl, ?_⟩
    rw [parseCell_nonempty _ _ hne, interval_roundtrip m d ms hm hd hms]
    rfl

end RlModel
