import RlModel.Model.Value19
/-! Lemmas for C19: `icmp`/`lexCmp` are lawful total orders on `Int` / `List Int`;
`DV.cmp` is `lexCmp` on `DV.key`; `DV.eq` is equality of keys; the hash stream is a function of
the key. -/
namespace RlModel
namespace V19

/-! ### icmp -/

theorem icmp_refl (a : Int) : icmp a a = .eq := by simp [icmp]

theorem icmp_eq_iff {a b : Int} : icmp a b = .eq ↔ a = b := by
  unfold icmp; split
  · constructor
    · intro h; cases h
    · intro h; omega
  · split <;> simp_all

theorem icmp_lt_iff {a b : Int} : icmp a b = .lt ↔ a < b := by
  unfold icmp; split
  · simp_all
  · split <;> simp_all

theorem icmp_gt_iff {a b : Int} : icmp a b = .gt ↔ b < a := by
  unfold icmp; split
  · constructor
    · intro h; cases h
    · intro h; omega
  · split
    · constructor
      · intro h; cases h
      · intro h; omega
    · constructor
      · intro _; omega
      · intro _; rfl

theorem icmp_swap (a b : Int) : icmp b a = (icmp a b).swap := by
  rcases Int.lt_trichotomy a b with h | h | h
  · rw [icmp_lt_iff.mpr h, icmp_gt_iff.mpr h]; rfl
  · subst h; simp [icmp_refl]
  · rw [icmp_gt_iff.mpr h, icmp_lt_iff.mpr h]; rfl

/-! ### lexCmp -/

theorem lexCmp_refl : ∀ a : List Int, lexCmp a a = .eq
  | [] => rfl
  | x :: xs => by simp [lexCmp, icmp_refl, lexCmp_refl xs]

theorem lexCmp_eq_iff : ∀ {a b : List Int}, lexCmp a b = .eq ↔ a = b
  | [], [] => by simp [lexCmp]
  | [], _ :: _ => by simp [lexCmp]
  | _ :: _, [] => by simp [lexCmp]
  | x :: xs, y :: ys => by
    unfold lexCmp
    rcases Int.lt_trichotomy x y with h | h | h
    · rw [icmp_lt_iff.mpr h]; simp; omega
    · subst h; simp [icmp_refl, lexCmp_eq_iff (a := xs) (b := ys)]
    · rw [icmp_gt_iff.mpr h]; simp; omega

theorem lexCmp_swap : ∀ a b : List Int, lexCmp b a = (lexCmp a b).swap
  | [], [] => rfl
  | [], _ :: _ => rfl
  | _ :: _, [] => rfl
  | x :: xs, y :: ys => by
    unfold lexCmp
    rcases Int.lt_trichotomy x y with h | h | h
    · rw [icmp_lt_iff.mpr h, icmp_gt_iff.mpr h]; rfl
    · subst h; simp [icmp_refl, lexCmp_swap xs ys]
    · rw [icmp_gt_iff.mpr h, icmp_lt_iff.mpr h]; rfl

theorem lexCmp_lt_cons {x y : Int} {xs ys : List Int} :
    lexCmp (x :: xs) (y :: ys) = .lt ↔ x < y ∨ (x = y ∧ lexCmp xs ys = .lt) := by
  rw [show lexCmp (x :: xs) (y :: ys) = (match icmp x y with | .eq => lexCmp xs ys | o => o) from rfl]
  rcases Int.lt_trichotomy x y with h | h | h
  · rw [icmp_lt_iff.mpr h]; simp [h]
  · subst h; simp [icmp_refl]
  · rw [icmp_gt_iff.mpr h]; simp; omega

theorem lexCmp_trans : ∀ {a b c : List Int},
    lexCmp a b = .lt → lexCmp b c = .lt → lexCmp a c = .lt
  | [], [], _ => by simp [lexCmp]
  | [], _ :: _, [] => by simp [lexCmp]
  | [], _ :: _, _ :: _ => by simp [lexCmp]
  | _ :: _, [], _ => by simp [lexCmp]
  | _ :: _, _ :: _, [] => by simp [lexCmp]
  | x :: xs, y :: ys, z :: zs => by
    rw [lexCmp_lt_cons, lexCmp_lt_cons, lexCmp_lt_cons]
    intro h1 h2
    rcases h1 with h1 | ⟨h1, h1'⟩ <;> rcases h2 with h2 | ⟨h2, h2'⟩
    · left; omega
    · left; omega
    · left; omega
    · right; exact ⟨by omega, lexCmp_trans h1' h2'⟩

theorem lexCmp_gt_iff (a b : List Int) : lexCmp a b = .gt ↔ lexCmp b a = .lt := by
  rw [lexCmp_swap a b]; cases lexCmp a b <;> simp [Ordering.swap]

theorem lexCmp_single (a b : Int) : lexCmp [a] [b] = icmp a b := by
  unfold lexCmp; cases h : icmp a b <;> simp [lexCmp]

theorem lexCmp_cons_same (r : Int) (xs ys : List Int) :
    lexCmp (r :: xs) (r :: ys) = lexCmp xs ys := by
  simp [lexCmp, icmp_refl]

theorem lexCmp_cons_ne {r s : Int} (h : r ≠ s) (xs ys : List Int) :
    lexCmp (r :: xs) (s :: ys) = icmp r s := by
  unfold lexCmp
  cases h' : icmp r s
  · rfl
  · exact absurd (icmp_eq_iff.mp h') h
  · rfl

/-! ### DV.cmp is lexCmp on keys -/

theorem DV.cmp_eq_lex (a b : DV) : DV.cmp a b = lexCmp a.key b.key := by
  cases a <;> cases b <;>
    simp [DV.cmp, DV.key, DV.rank, lexCmp_cons_same, lexCmp_single] <;>
    first | rfl | (rw [lexCmp_cons_ne (by decide)])

theorem DV.eq_iff_key (a b : DV) : DV.eq a b = true ↔ a.key = b.key := by
  cases a <;> cases b <;> simp [DV.eq, DV.key, and_assoc]
  case bool.bool x y => cases x <;> cases y <;> simp [b2i]
  case str.str x y =>
    simp only [bytesKey]
    constructor
    · intro h; rw [h]
    · intro h
      induction x generalizing y with
      | nil => cases y <;> simp_all
      | cons a as ih =>
        cases y with
        | nil => simp at h
        | cons b bs =>
          simp only [List.map_cons, List.cons.injEq] at h
          have h1 : a = b := UInt8.toNat_inj.mp (by omega)
          rw [h1, ih bs h.2]
  case blob.blob x y =>
    simp only [bytesKey]
    constructor
    · intro h; rw [h]
    · intro h
      induction x generalizing y with
      | nil => cases y <;> simp_all
      | cons a as ih =>
        cases y with
        | nil => simp at h
        | cons b bs =>
          simp only [List.map_cons, List.cons.injEq] at h
          have h1 : a = b := UInt8.toNat_inj.mp (by omega)
          rw [h1, ih bs h.2]


/-! ### the hash stream is a function of the key -/

theorem bytesKey_inj : ∀ {x y : List UInt8}, bytesKey x = bytesKey y → x = y
  | [], [] => fun _ => rfl
  | [], _ :: _ => by simp [bytesKey]
  | _ :: _, [] => by simp [bytesKey]
  | a :: as, b :: bs => by
    intro h
    simp only [bytesKey, List.map_cons, List.cons.injEq] at h
    have h1 : a = b := UInt8.toNat_inj.mp (by omega)
    rw [h1, bytesKey_inj (x := as) (y := bs) h.2]

theorem toNat_eq_mag (b : UInt64) : b.toNat = fmag b + (if fneg b then two63 else 0) := by
  have hb := b.toNat_lt
  unfold fmag fneg two63
  by_cases h : 9223372036854775808 ≤ b.toNat <;> simp [h] <;> omega

theorem fmag_lt (b : UInt64) : fmag b < two63 := by
  unfold fmag two63; omega

theorem fHashBits_of_fkey {a b : UInt64} (h : fkey a = fkey b) : fHashBits a = fHashBits b := by
  have ma := fmag_lt a
  have mb := fmag_lt b
  have ta := toNat_eq_mag a
  have tb := toNat_eq_mag b
  unfold fHashBits
  unfold fkey at h
  cases hA : fIsNaN a <;> cases hB : fIsNaN b <;> simp only [hA, hB, if_true, if_false] at h ⊢ <;>
    simp only [fIsNaN, decide_eq_true_eq, decide_eq_false_iff_not] at hA hB <;>
    simp only [two63, infBits] at *
  · -- neither is NaN
    cases hna : fneg a <;> cases hnb : fneg b <;>
      simp only [hna, hnb, Bool.false_eq_true, if_true, if_false] at h ta tb
    all_goals (
      by_cases za : fmag a = 0
      · have zb : fmag b = 0 := by omega
        simp [fIsZero, za, zb]
      · have zb : ¬ fmag b = 0 := by omega
        have : a = b := UInt64.toNat_inj.mp (by omega)
        subst this; rfl)
  · cases hnb : fneg a <;> simp [hnb] at h <;> omega
  · cases hnb : fneg b <;> simp [hnb] at h <;> omega

theorem normLoop_mul10 (fuel m s : Nat) :
    normLoop (fuel + 1) (m * 10) (s + 1) = normLoop fuel m s := by
  simp [normLoop, Nat.mul_mod_left, Nat.mul_div_cancel]

theorem normLoop_mul_pow (j m s : Nat) :
    normLoop (s + j) (m * 10 ^ j) (s + j) = normLoop s m s := by
  induction j with
  | zero => simp
  | succ j ih =>
    rw [show s + (j + 1) = (s + j) + 1 from rfl, Nat.pow_succ, ← Nat.mul_assoc, normLoop_mul10, ih]

theorem pos_pow10 (k : Nat) : 0 < 10 ^ k := Nat.pow_pos (by decide)

/-- two mantissa/scale pairs with the same scaled value normalise identically -/
theorem normLoop_of_scaled_eq {m1 m2 s1 s2 : Nat} (h1 : s1 ≤ 28) (h2 : s2 ≤ 28)
    (h : m1 * 10 ^ (28 - s1) = m2 * 10 ^ (28 - s2)) :
    normLoop s1 m1 s1 = normLoop s2 m2 s2 := by
  have key : ∀ {m1 m2 s1 s2 : Nat}, s1 ≤ s2 → s2 ≤ 28 →
      m1 * 10 ^ (28 - s1) = m2 * 10 ^ (28 - s2) → normLoop s1 m1 s1 = normLoop s2 m2 s2 := by
    intro m1 m2 s1 s2 hle h2 h
    obtain ⟨j, rfl⟩ := Nat.exists_eq_add_of_le hle
    have e : 28 - s1 = j + (28 - (s1 + j)) := by omega
    rw [e, Nat.pow_add, ← Nat.mul_assoc] at h
    have h' := Nat.eq_of_mul_eq_mul_right (pos_pow10 _) h
    rw [← h', normLoop_mul_pow]
  rcases Nat.le_total s1 s2 with hle | hle
  · exact key hle h2 h
  · exact (key hle h1 h.symm).symm

theorem Dec.normalize_of_key {a b : Dec} (h : a.key = b.key) : a.normalize = b.normalize := by
  have pa := pos_pow10 (28 - a.scale.val)
  have pb := pos_pow10 (28 - b.scale.val)
  have sa : a.scale.val ≤ 28 := by have := a.scale.isLt; omega
  have sb : b.scale.val ≤ 28 := by have := b.scale.isLt; omega
  unfold Dec.key at h
  dsimp only at h
  unfold Dec.normalize
  have hA : a.m = 0 ↔ a.m * 10 ^ (28 - a.scale.val) = 0 := by
    constructor
    · intro h; simp [h]
    · intro h
      rcases Nat.mul_eq_zero.mp h with h | h
      · exact h
      · omega
  have hB : b.m = 0 ↔ b.m * 10 ^ (28 - b.scale.val) = 0 := by
    constructor
    · intro h; simp [h]
    · intro h
      rcases Nat.mul_eq_zero.mp h with h | h
      · exact h
      · omega
  have hs : (a.m = 0 ∧ b.m = 0) ∨ (a.m ≠ 0 ∧ b.m ≠ 0 ∧ a.neg = b.neg ∧
      a.m * 10 ^ (28 - a.scale.val) = b.m * 10 ^ (28 - b.scale.val)) := by
    generalize a.m * 10 ^ (28 - a.scale.val) = A at *
    generalize b.m * 10 ^ (28 - b.scale.val) = B at *
    cases ha : a.neg <;> cases hb : b.neg <;>
      simp only [ha, hb, Bool.false_eq_true, if_true, if_false] at h <;>
      by_cases za : a.m = 0 <;> by_cases zb : b.m = 0 <;> simp_all <;> omega
  rcases hs with ⟨za, zb⟩ | ⟨za, zb, hn, hk⟩
  · simp [za, zb]
  · simp only [za, zb, if_false]
    rw [normLoop_of_scaled_eq sa sb hk, hn]

theorem map_fHash_of_map_fkey : ∀ {xs ys : List UInt64}, xs.map fkey = ys.map fkey →
    xs.length = ys.length ∧
    (xs.flatMap fun b => leBytes 8 (fHashBits b)) = (ys.flatMap fun b => leBytes 8 (fHashBits b))
  | [], [] => fun _ => ⟨rfl, rfl⟩
  | [], _ :: _ => by simp
  | _ :: _, [] => by simp
  | x :: xs, y :: ys => by
    intro h
    simp only [List.map_cons, List.cons.injEq] at h
    have ih := map_fHash_of_map_fkey (xs := xs) (ys := ys) h.2
    simp [List.flatMap_cons, fHashBits_of_fkey h.1, ih.1, ih.2]

theorem DV.hashKey_of_key {a b : DV} (h : a.key = b.key) : a.hashKey = b.hashKey := by
  cases a <;> cases b <;> simp [DV.key] at h <;> simp only [DV.hashKey, DV.rank]
  case bool.bool x y => cases x <;> cases y <;> simp_all [b2i]
  case i16.i16 => rw [h]
  case i32.i32 => rw [h]
  case i64.i64 => rw [h]
  case f64.f64 => rw [fHashBits_of_fkey h]
  case str.str => rw [bytesKey_inj h]
  case blob.blob => rw [bytesKey_inj h]
  case dec.dec => rw [Dec.normalize_of_key h]
  case date.date => rw [h]
  case ts.ts => rw [h]
  case tstz.tstz => rw [h]
  case interval.interval => rw [h.1, h.2.1, h.2.2]
  case vec.vec =>
    have := map_fHash_of_map_fkey h
    rw [this.1, this.2]

end V19
end RlModel
