import RlModel.Model.Val
/-!
The comparison of the SHARED value type (`RlModel.Val.cmp`, `RlModel.rowCmp`, Model/Val.lean) is a
linear order: reflexive, `cmp b a = (cmp a b).swap`, transitive, `cmp a b = .eq → a = b`, and `≤`
(`cmp ≠ .gt`) is total and transitive.  Stated (a) as plain lemmas `Val.cmp_*`, `rowCmp_*` and
(b) packaged as `LawfulCmp cmp` with the combinators `on` (compare through a projection), `lex`
(lexicographic), `dir` (descending flag), from which the row/key comparators of C02/C07/C11/C12
are built.  Imports only Model/Val (core Lean), so every Lemmas/Thm file can import it.
-/
namespace RlModel

/-- swap / transitivity of `<` / congruence of `.eq`: what makes an `Ordering`-valued function a
total preorder with a compatible equivalence -/
structure LawfulCmp {α : Type} (cmp : α → α → Ordering) : Prop where
  swap : ∀ a b, cmp b a = (cmp a b).swap
  trans_lt : ∀ a b c, cmp a b = .lt → cmp b c = .lt → cmp a c = .lt
  eq_cong : ∀ a b c, cmp a b = .eq → cmp a c = cmp b c

namespace LawfulCmp
variable {α : Type} {cmp : α → α → Ordering}

theorem refl (h : LawfulCmp cmp) (a : α) : cmp a a = .eq := by
  have := h.swap a a
  cases hc : cmp a a <;> rw [hc] at this <;> simp [Ordering.swap] at this

theorem gt_iff (h : LawfulCmp cmp) (a b : α) : cmp a b = .gt ↔ cmp b a = .lt := by
  rw [h.swap a b]; cases cmp a b <;> simp [Ordering.swap]

theorem eq_symm (h : LawfulCmp cmp) {a b : α} (hab : cmp a b = .eq) : cmp b a = .eq := by
  rw [h.swap a b, hab]; rfl

theorem eq_trans (h : LawfulCmp cmp) {a b c : α} (hab : cmp a b = .eq) (hbc : cmp b c = .eq) :
    cmp a c = .eq := by rw [h.eq_cong a b c hab, hbc]

theorem eq_cong_right (h : LawfulCmp cmp) (a b c : α) (hbc : cmp b c = .eq) : cmp a b = cmp a c := by
  have h1 := h.swap b a
  have h2 := h.swap c a
  rw [h.eq_cong b c a hbc] at h1
  rw [h1, h2]

/-- `≤` (i.e. `cmp ≠ .gt`) is transitive -/
theorem le_trans (h : LawfulCmp cmp) {a b c : α} (hab : cmp a b ≠ .gt) (hbc : cmp b c ≠ .gt) :
    cmp a c ≠ .gt := by
  cases h1 : cmp a b with
  | gt => exact absurd h1 hab
  | eq => rw [h.eq_cong a b c h1]; exact hbc
  | lt =>
    cases h2 : cmp b c with
    | gt => exact absurd h2 hbc
    | eq => rw [← h.eq_cong_right a b c h2, h1]; simp
    | lt => rw [h.trans_lt a b c h1 h2]; simp

/-- `≤` is total -/
theorem le_total (h : LawfulCmp cmp) (a b : α) : cmp a b ≠ .gt ∨ cmp b a ≠ .gt := by
  rw [h.swap a b]; cases cmp a b <;> simp [Ordering.swap]

/-- the form of `CmpLaws.total` in Thm/C02 -/
theorem not_lt_not_gt (h : LawfulCmp cmp) (a b : α) : cmp a b ≠ .lt → cmp b a ≠ .gt := by
  rw [h.swap a b]; cases cmp a b <;> simp [Ordering.swap]

theorem lt_of_lt_of_le (h : LawfulCmp cmp) {a b c : α} (hab : cmp a b = .lt) (hbc : cmp b c ≠ .gt) :
    cmp a c = .lt := by
  cases h2 : cmp b c with
  | gt => exact absurd h2 hbc
  | eq => rw [← h.eq_cong_right a b c h2, hab]
  | lt => exact h.trans_lt a b c hab h2

theorem lt_of_le_of_lt (h : LawfulCmp cmp) {a b c : α} (hab : cmp a b ≠ .gt) (hbc : cmp b c = .lt) :
    cmp a c = .lt := by
  cases h1 : cmp a b with
  | gt => exact absurd h1 hab
  | eq => rw [h.eq_cong a b c h1, hbc]
  | lt => exact h.trans_lt a b c h1 hbc

/-- comparing through a projection -/
theorem on {β : Type} (h : LawfulCmp cmp) (f : β → α) : LawfulCmp (fun a b => cmp (f a) (f b)) where
  swap := fun a b => h.swap (f a) (f b)
  trans_lt := fun a b c => h.trans_lt (f a) (f b) (f c)
  eq_cong := fun a b c => h.eq_cong (f a) (f b) (f c)

/-- descending flag: `if d then o.swap else o` -/
def dirCmp (d : Bool) (cmp : α → α → Ordering) (a b : α) : Ordering :=
  if d then (cmp a b).swap else cmp a b

theorem dir (h : LawfulCmp cmp) (d : Bool) : LawfulCmp (dirCmp d cmp) := by
  cases d
  · exact ⟨h.swap, h.trans_lt, h.eq_cong⟩
  · refine ⟨?_, ?_, ?_⟩
    · intro a b; simp only [dirCmp, if_true]; rw [h.swap a b]
    · intro a b c h1 h2
      simp only [dirCmp, if_true] at *
      have h1' : cmp b a = .lt := by rw [h.swap a b]; cases hx : cmp a b <;> rw [hx] at h1 <;> simp [Ordering.swap] at h1 ⊢
      have h2' : cmp c b = .lt := by rw [h.swap b c]; cases hx : cmp b c <;> rw [hx] at h2 <;> simp [Ordering.swap] at h2 ⊢
      have := h.trans_lt c b a h2' h1'
      rw [h.swap c a, this]; rfl
    · intro a b c h1
      simp only [dirCmp, if_true] at *
      have : cmp a b = .eq := by cases hx : cmp a b <;> rw [hx] at h1 <;> simp [Ordering.swap] at h1 ⊢
      rw [h.eq_cong a b c this]

/-- lexicographic combination -/
def lexCmp2 (c1 c2 : α → α → Ordering) (a b : α) : Ordering :=
  match c1 a b with
  | .eq => c2 a b
  | o => o

theorem lex {c1 c2 : α → α → Ordering} (h1 : LawfulCmp c1) (h2 : LawfulCmp c2) :
    LawfulCmp (lexCmp2 c1 c2) where
  swap := by
    intro a b
    unfold lexCmp2
    rw [h1.swap a b]
    cases c1 a b <;> simp [Ordering.swap, h2.swap a b]
  trans_lt := by
    intro a b c hab hbc
    unfold lexCmp2 at *
    cases x : c1 a b <;> cases y : c1 b c <;> rw [x] at hab <;> rw [y] at hbc <;> simp at hab hbc
    · rw [h1.trans_lt a b c x y]
    · rw [← h1.eq_cong_right a b c y, x]
    · rw [h1.eq_cong a b c x, y]
    · rw [h1.eq_trans x y]; exact h2.trans_lt a b c hab hbc
  eq_cong := by
    intro a b c hab
    unfold lexCmp2 at *
    cases x : c1 a b <;> rw [x] at hab <;> simp at hab
    rw [h1.eq_cong a b c x]
    cases c1 b c <;> simp
    exact h2.eq_cong a b c hab

end LawfulCmp

/-! ### primitive comparisons -/

theorem compareInt_lawful : LawfulCmp (compare : Int → Int → Ordering) where
  swap := by
    intro a b
    rcases Int.lt_trichotomy a b with h | h | h
    · rw [Int.compare_eq_lt.mpr h, Int.compare_eq_gt.mpr h]; rfl
    · subst h; simp
    · rw [Int.compare_eq_gt.mpr h, Int.compare_eq_lt.mpr h]; rfl
  trans_lt := by
    intro a b c h1 h2
    rw [Int.compare_eq_lt] at *; omega
  eq_cong := by
    intro a b c h
    rw [Int.compare_eq_eq] at h; rw [h]

theorem compareNat_lawful : LawfulCmp (compare : Nat → Nat → Ordering) where
  swap := by
    intro a b
    rcases Nat.lt_trichotomy a b with h | h | h
    · rw [Nat.compare_eq_lt.mpr h, Nat.compare_eq_gt.mpr h]; rfl
    · subst h; simp
    · rw [Nat.compare_eq_gt.mpr h, Nat.compare_eq_lt.mpr h]; rfl
  trans_lt := by
    intro a b c h1 h2
    rw [Nat.compare_eq_lt] at *; omega
  eq_cong := by
    intro a b c h
    rw [Nat.compare_eq_eq] at h; rw [h]

theorem compareBool_lawful : LawfulCmp Val.compareBool where
  swap := by intro a b; cases a <;> cases b <;> rfl
  trans_lt := by intro a b c; cases a <;> cases b <;> cases c <;> simp [Val.compareBool]
  eq_cong := by intro a b c; cases a <;> cases b <;> cases c <;> simp [Val.compareBool]

theorem compareBytes_cons (a b : UInt8) (as bs : List UInt8) :
    Val.compareBytes (a :: as) (b :: bs) =
      if a.toNat < b.toNat then .lt else if b.toNat < a.toNat then .gt else Val.compareBytes as bs := by
  simp [Val.compareBytes, UInt8.lt_iff_toNat_lt]

theorem compareBytes_lawful : LawfulCmp Val.compareBytes where
  swap := by
    intro a
    induction a with
    | nil => intro b; cases b <;> rfl
    | cons x xs ih =>
      intro b
      cases b with
      | nil => rfl
      | cons y ys =>
        rw [compareBytes_cons, compareBytes_cons]
        by_cases h1 : x.toNat < y.toNat
        · have : ¬ y.toNat < x.toNat := by omega
          simp [h1, this, Ordering.swap]
        · by_cases h2 : y.toNat < x.toNat
          · simp [h1, h2, Ordering.swap]
          · simp [h1, h2, ih ys]
  trans_lt := by
    intro a
    induction a with
    | nil => intro b c; cases b <;> cases c <;> simp [Val.compareBytes]
    | cons x xs ih =>
      intro b c
      cases b with
      | nil => simp [Val.compareBytes]
      | cons y ys =>
        cases c with
        | nil => simp [Val.compareBytes]
        | cons z zs =>
          rw [compareBytes_cons, compareBytes_cons, compareBytes_cons]
          intro h1 h2
          by_cases a1 : x.toNat < y.toNat
          · by_cases a2 : y.toNat < z.toNat
            · have : x.toNat < z.toNat := by omega
              simp [this]
            · by_cases a3 : z.toNat < y.toNat
              · simp [a2, a3] at h2
              · have : x.toNat < z.toNat := by omega
                simp [this]
          · by_cases a1' : y.toNat < x.toNat
            · simp [a1, a1'] at h1
            · simp only [a1, a1', if_false] at h1
              by_cases a2 : y.toNat < z.toNat
              · have : x.toNat < z.toNat := by omega
                simp [this]
              · by_cases a3 : z.toNat < y.toNat
                · simp [a2, a3] at h2
                · simp only [a2, a3, if_false] at h2
                  have e1 : ¬ x.toNat < z.toNat := by omega
                  have e2 : ¬ z.toNat < x.toNat := by omega
                  simp only [e1, e2, if_false]
                  exact ih ys zs h1 h2
  eq_cong := by
    intro a
    induction a with
    | nil => intro b c; cases b <;> cases c <;> simp [Val.compareBytes]
    | cons x xs ih =>
      intro b c
      cases b with
      | nil => simp [Val.compareBytes]
      | cons y ys =>
        rw [compareBytes_cons]
        intro h
        by_cases a1 : x.toNat < y.toNat
        · simp [a1] at h
        · by_cases a1' : y.toNat < x.toNat
          · simp [a1, a1'] at h
          · simp only [a1, a1', if_false] at h
            have e : x = y := UInt8.toNat_inj.mp (by omega)
            subst e
            cases c with
            | nil => rfl
            | cons z zs =>
              rw [compareBytes_cons, compareBytes_cons, ih ys zs h]

theorem compareBytes_eq : ∀ {a b : List UInt8}, Val.compareBytes a b = .eq → a = b
  | [], [], _ => rfl
  | [], _ :: _, h => by simp [Val.compareBytes] at h
  | _ :: _, [], h => by simp [Val.compareBytes] at h
  | x :: xs, y :: ys, h => by
    rw [compareBytes_cons] at h
    by_cases a1 : x.toNat < y.toNat
    · simp [a1] at h
    · by_cases a1' : y.toNat < x.toNat
      · simp [a1, a1'] at h
      · simp only [a1, a1', if_false] at h
        have e : x = y := UInt8.toNat_inj.mp (by omega)
        rw [e, compareBytes_eq h]

/-! `ByteArray.toList` is the list of its data (core has no lemma for the loop) -/

theorem ba_size (bs : ByteArray) : bs.size = bs.data.toList.length := by
  cases bs with | mk d => simp [ByteArray.size]

theorem ba_toList_loop (bs : ByteArray) : ∀ (n i : Nat) (r : List UInt8), bs.size - i = n →
    ByteArray.toList.loop bs i r = r.reverse ++ bs.data.toList.drop i := by
  intro n
  induction n with
  | zero =>
    intro i r h
    rw [ByteArray.toList.loop]
    have : ¬ i < bs.size := by omega
    simp only [this, if_false]
    have : bs.data.toList.length ≤ i := by rw [← ba_size]; omega
    simp [List.drop_eq_nil_of_le this]
  | succ n ih =>
    intro i r h
    rw [ByteArray.toList.loop]
    have hi : i < bs.size := by omega
    simp only [hi, if_true]
    rw [ih (i + 1) _ (by omega)]
    have hl : i < bs.data.toList.length := by rw [← ba_size]; exact hi
    rw [List.drop_eq_getElem_cons hl]
    have : bs.get! i = bs.data.toList[i] := by
      simp [ByteArray.get!, hi]
    simp [this]

theorem ba_toList (bs : ByteArray) : bs.toList = bs.data.toList := by
  simp [ByteArray.toList, ba_toList_loop bs _ 0 [] rfl]

theorem toUTF8_toList_inj {a b : String} (h : a.toUTF8.toList = b.toUTF8.toList) : a = b := by
  rw [ba_toList, ba_toList] at h
  exact String.toByteArray_inj.mp (ByteArray.ext (Array.toList_inj.mp h))

theorem compareStr_lawful : LawfulCmp Val.compareStr :=
  compareBytes_lawful.on (fun s : String => s.toUTF8.toList)

theorem compareStr_eq {a b : String} (h : Val.compareStr a b = .eq) : a = b :=
  toUTF8_toList_inj (compareBytes_eq h)

/-! ### `Val.cmp` -/

theorem Val.cmp_lawful : LawfulCmp Val.cmp where
  swap := by
    intro a b
    cases a <;> cases b <;>
      first
        | rfl
        | exact compareBool_lawful.swap _ _
        | exact compareInt_lawful.swap _ _
        | exact compareStr_lawful.swap _ _
  trans_lt := by
    intro a b c
    cases a <;> cases b <;> cases c <;>
      first
        | exact compareBool_lawful.trans_lt _ _ _
        | exact compareInt_lawful.trans_lt _ _ _
        | exact compareStr_lawful.trans_lt _ _ _
        | (simp [Val.cmp, Val.rank, Nat.compare_eq_lt]; done)
  eq_cong := by
    intro a b c
    cases a <;> cases b <;> cases c <;>
      first
        | exact compareBool_lawful.eq_cong _ _ _
        | exact compareInt_lawful.eq_cong _ _ _
        | exact compareStr_lawful.eq_cong _ _ _
        | (simp [Val.cmp, Val.rank, Nat.compare_eq_eq]; done)

theorem Val.cmp_refl (a : Val) : Val.cmp a a = .eq := Val.cmp_lawful.refl a

theorem Val.cmp_swap (a b : Val) : Val.cmp b a = (Val.cmp a b).swap := Val.cmp_lawful.swap a b

/-- transitivity of `<` -/
theorem Val.cmp_trans {a b c : Val} (h1 : Val.cmp a b = .lt) (h2 : Val.cmp b c = .lt) :
    Val.cmp a c = .lt := Val.cmp_lawful.trans_lt a b c h1 h2

/-- transitivity of `≤` -/
theorem Val.cmp_le_trans {a b c : Val} (h1 : Val.cmp a b ≠ .gt) (h2 : Val.cmp b c ≠ .gt) :
    Val.cmp a c ≠ .gt := Val.cmp_lawful.le_trans h1 h2

theorem Val.cmp_le_total (a b : Val) : Val.cmp a b ≠ .gt ∨ Val.cmp b a ≠ .gt :=
  Val.cmp_lawful.le_total a b

/-- antisymmetry: `cmp` is a LINEAR order on `Val` (equal means identical) -/
theorem Val.cmp_antisymm {a b : Val} (h : Val.cmp a b = .eq) : a = b := by
  cases a <;> cases b <;> simp [Val.cmp, Val.rank] at h <;> try rfl
  case bool.bool x y => cases x <;> cases y <;> simp [Val.compareBool] at h <;> rfl
  case i16.i16 => rw [h]
  case i32.i32 => rw [h]
  case i64.i64 => rw [h]
  case str.str => rw [compareStr_eq h]

theorem Val.cmp_eq_iff (a b : Val) : Val.cmp a b = .eq ↔ a = b :=
  ⟨Val.cmp_antisymm, fun h => h ▸ Val.cmp_refl a⟩

/-! ### `rowCmp` (lexicographic on rows; a proper prefix is smaller) -/

theorem rowCmp_cons (a b : Val) (as bs : Row) :
    rowCmp (a :: as) (b :: bs) = (match Val.cmp a b with | .eq => rowCmp as bs | o => o) := by
  simp only [rowCmp]
  cases Val.cmp a b <;> rfl

theorem rowCmp_lawful : LawfulCmp rowCmp where
  swap := by
    intro a
    induction a with
    | nil => intro b; cases b <;> rfl
    | cons x xs ih =>
      intro b
      cases b with
      | nil => rfl
      | cons y ys =>
        rw [rowCmp_cons, rowCmp_cons, Val.cmp_swap x y]
        cases Val.cmp x y <;> simp [Ordering.swap, ih ys]
  trans_lt := by
    intro a
    induction a with
    | nil => intro b c; cases b <;> cases c <;> simp [rowCmp]
    | cons x xs ih =>
      intro b c
      cases b with
      | nil => simp [rowCmp]
      | cons y ys =>
        cases c with
        | nil => simp [rowCmp]
        | cons z zs =>
          rw [rowCmp_cons, rowCmp_cons, rowCmp_cons]
          intro h1 h2
          cases p : Val.cmp x y <;> cases q : Val.cmp y z <;> rw [p] at h1 <;> rw [q] at h2 <;>
            simp at h1 h2
          · rw [Val.cmp_trans p q]
          · rw [← Val.cmp_lawful.eq_cong_right x y z q, p]
          · rw [Val.cmp_lawful.eq_cong x y z p, q]
          · rw [Val.cmp_lawful.eq_trans p q]; exact ih ys zs h1 h2
  eq_cong := by
    intro a
    induction a with
    | nil => intro b c; cases b <;> cases c <;> simp [rowCmp]
    | cons x xs ih =>
      intro b c
      cases b with
      | nil => simp [rowCmp]
      | cons y ys =>
        rw [rowCmp_cons]
        intro h
        cases p : Val.cmp x y <;> rw [p] at h <;> simp at h
        cases c with
        | nil => rfl
        | cons z zs =>
          rw [rowCmp_cons, rowCmp_cons, Val.cmp_lawful.eq_cong x y z p]
          cases Val.cmp y z <;> simp
          exact ih ys zs h

theorem rowCmp_refl (a : Row) : rowCmp a a = .eq := rowCmp_lawful.refl a
theorem rowCmp_swap (a b : Row) : rowCmp b a = (rowCmp a b).swap := rowCmp_lawful.swap a b
theorem rowCmp_trans {a b c : Row} (h1 : rowCmp a b = .lt) (h2 : rowCmp b c = .lt) :
    rowCmp a c = .lt := rowCmp_lawful.trans_lt a b c h1 h2
theorem rowCmp_le_trans {a b c : Row} (h1 : rowCmp a b ≠ .gt) (h2 : rowCmp b c ≠ .gt) :
    rowCmp a c ≠ .gt := rowCmp_lawful.le_trans h1 h2
theorem rowCmp_le_total (a b : Row) : rowCmp a b ≠ .gt ∨ rowCmp b a ≠ .gt :=
  rowCmp_lawful.le_total a b

theorem rowCmp_antisymm : ∀ {a b : Row}, rowCmp a b = .eq → a = b
  | [], [], _ => rfl
  | [], _ :: _, h => by simp [rowCmp] at h
  | _ :: _, [], h => by simp [rowCmp] at h
  | x :: xs, y :: ys, h => by
    rw [rowCmp_cons] at h
    cases p : Val.cmp x y <;> rw [p] at h <;> simp at h
    rw [Val.cmp_antisymm p, rowCmp_antisymm h]

/-- Boolean `≤` through any key projection (`keyLe k = fun a b => rowCmp (keyOf k a) (keyOf k b) != .gt`
in Model/Store.lean): total and transitive — the two fields of `TotalPreorder`. -/
theorem rowLe_total {β : Type} (f : β → Row) (a b : β) :
    (rowCmp (f a) (f b) != .gt) = true ∨ (rowCmp (f b) (f a) != .gt) = true := by
  rcases rowCmp_le_total (f a) (f b) with h | h
  · left; simpa using h
  · right; simpa using h

theorem rowLe_trans {β : Type} (f : β → Row) (a b c : β)
    (h1 : (rowCmp (f a) (f b) != .gt) = true) (h2 : (rowCmp (f b) (f c) != .gt) = true) :
    (rowCmp (f a) (f c) != .gt) = true := by
  have h1' : rowCmp (f a) (f b) ≠ .gt := by simpa using h1
  have h2' : rowCmp (f b) (f c) ≠ .gt := by simpa using h2
  simpa using rowCmp_le_trans h1' h2'

end RlModel
