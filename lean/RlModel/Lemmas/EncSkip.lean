import RlModel.Lemmas.Enc
/-!
# Column iterator: `skip`, the fake iterator, and seeking to a start row

Extends the scan invariant of `RlModel.Lemmas.Enc` (`GoodState`, `nextLoop_spec`, `nextBatch_spec`)
to ALL read programs: `skip_inner` with its three branches (inside the block, across blocks with the
`while cnt > 0` loop, and on top of a fake iterator), the reload of a block after a skip, and
`ColumnIndex::block_of_row` for a start row > 0.
-/
namespace RlModel
open ColIter

theorem getD_mid (pre : List BlockInfo) (b : BlockInfo) (post : List BlockInfo) :
    (pre ++ b :: post).getD pre.length default = b := by
  rw [List.getD_eq_getElem?_getD, List.getElem?_append_right (Nat.le_refl _)]; simp

/-- states of a column iterator between ANY operations: a good scan state, finished at or past the
end (a skip may run past it), or holding a fake iterator after a skip across blocks -/
def GoodX (blocks : List BlockInfo) (dflt : Bytes) (c : ColIter) : Prop :=
  GoodState blocks dflt c
  ∨ (c.blocks = blocks ∧ c.dflt = dflt ∧ c.finished = true ∧ rowsOf blocks ≤ c.rowId)
  ∨ (c.blocks = blocks ∧ c.dflt = dflt ∧ c.finished = false ∧ c.fake = true ∧
      ∃ pre b post pos, blocks = pre ++ b :: post ∧ c.blockId = pre.length ∧ pos ≤ b.cells.length
        ∧ c.rowId = rowsOf pre + pos)

/-- the reload at the beginning of `next_batch_inner` after a skip -/
def unfake (c : ColIter) : ColIter :=
  { c with fake := false, it := iterFor c.blocks c.dflt c.blockId c.rowId }

theorem nextBatch_fake (c : ColIter) (e : Option Nat) (hfin : c.finished = false) (hf : c.fake = true) :
    c.nextBatch e = (unfake c).nextBatch e := by
  simp [ColIter.nextBatch, unfake, hfin, hf]

theorem unfake_good (blocks : List BlockInfo) (dflt : Bytes) (hwf : WfBlocks blocks 0) (c : ColIter)
    (hcb : c.blocks = blocks) (hcd : c.dflt = dflt) (hfin : c.finished = false)
    (pre : List BlockInfo) (b : BlockInfo) (post : List BlockInfo) (pos : Nat)
    (hb : blocks = pre ++ b :: post) (hid : c.blockId = pre.length) (hpos : pos ≤ b.cells.length)
    (hrow : c.rowId = rowsOf pre + pos) :
    GoodState blocks dflt (unfake c) := by
  have hw := wf_split pre b post 0 (hb ▸ hwf)
  refine ⟨hcb, rfl, hcd, .inr ⟨hfin, pre, b, post, pos, hb, hid, ?_, hpos, hrow⟩⟩
  simp only [unfake, iterFor, hcb, hid, hcd, hb, getD_mid, hrow, hw.1]
  congr 1
  omega

/-- outcome of one `next_batch(expected)` from any state (`nextBatch_spec` + reload after a skip) -/
theorem nextBatch_specX (blocks : List BlockInfo) (dflt : Bytes) (hwf : WfBlocks blocks 0)
    (c : ColIter) (hg : GoodX blocks dflt c) (e : Option Nat) (he : ∀ k, e = some k → 0 < k) :
    GoodX blocks dflt (c.nextBatch e).1 ∧
    ((∃ cells, (c.nextBatch e).2 = .batch c.rowId cells
        ∧ cells = ((cellsOf blocks).drop c.rowId).take cells.length ∧ 0 < cells.length
        ∧ (∀ k, e = some k → cells.length ≤ k) ∧ (c.nextBatch e).1.rowId = c.rowId + cells.length)
     ∨ ((c.nextBatch e).2 = .none ∧ (cellsOf blocks).length ≤ c.rowId ∧ (c.nextBatch e).1.rowId = c.rowId)) := by
  rcases hg with hg | ⟨hcb, hcd, hfin, hrow⟩ | ⟨hcb, hcd, hfin, hfake, pre, b, post, pos, hb, hid, hpos, hrow⟩
  · obtain ⟨h1, h2⟩ := nextBatch_spec blocks dflt hwf c hg e he
    exact ⟨.inl h1, h2⟩
  · simp only [ColIter.nextBatch, hfin, ↓reduceIte]
    exact ⟨.inr (.inl ⟨hcb, hcd, hfin, hrow⟩), .inr ⟨trivial, by simpa [cellsOf, rowsOf] using hrow, trivial⟩⟩
  · have hgu := unfake_good blocks dflt hwf c hcb hcd hfin pre b post pos hb hid hpos hrow
    obtain ⟨h1, h2⟩ := nextBatch_spec blocks dflt hwf (unfake c) hgu e he
    rw [nextBatch_fake c e hfin hfake]
    exact ⟨.inl h1, h2⟩

/-! ### the `while cnt > 0` loop of `skip_inner` -/

theorem blk_mid (c : ColIter) (pre : List BlockInfo) (b : BlockInfo) (post : List BlockInfo)
    (hcb : c.blocks = pre ++ b :: post) (hid : c.blockId = pre.length) : c.blk c.blockId = b := by
  simp only [ColIter.blk, hcb, hid, getD_mid]

/-- `skipBlocks` from the beginning of block `b` with `cnt` rows still to skip: either the column is
exhausted (`cnt` reaches its end or beyond), or the iterator stands on the block that contains the
target row, STRICTLY inside it — whatever the row counts of the blocks skipped over are. Only
`blockId` / `finished` change. -/
theorem skipBlocks_spec (blocks : List BlockInfo) (hwf : WfBlocks blocks 0) :
    ∀ (post : List BlockInfo) (fuel : Nat) (pre : List BlockInfo) (b : BlockInfo) (c : ColIter) (cnt : Nat),
      blocks = pre ++ b :: post → c.blocks = blocks → c.blockId = pre.length → post.length < fuel →
      ((skipBlocks fuel c cnt).2 = true ∧ rowsOf blocks ≤ rowsOf pre + cnt
          ∧ (skipBlocks fuel c cnt).1 = { c with blockId := blocks.length, finished := true })
      ∨ ((skipBlocks fuel c cnt).2 = false ∧ ∃ pre2 b2 post2 pos2, blocks = pre2 ++ b2 :: post2
          ∧ pos2 < b2.cells.length ∧ rowsOf pre + cnt = rowsOf pre2 + pos2
          ∧ (skipBlocks fuel c cnt).1 = { c with blockId := pre2.length }) := by
  intro post
  induction post with
  | nil =>
    intro fuel pre b c cnt hb hcb hid hfuel
    obtain ⟨fuel, rfl⟩ : ∃ f, fuel = f + 1 := ⟨fuel - 1, by omega⟩
    have hw := wf_split pre b [] 0 (hb ▸ hwf)
    have hrc : (c.blk c.blockId).rowCount = b.cells.length := by
      rw [blk_mid c pre b [] (hcb.trans hb) hid]; exact hw.2.1
    have hlen : c.blocks.length = pre.length + 1 := by rw [hcb, hb]; simp
    simp only [skipBlocks, hrc]
    by_cases h0 : cnt > 0
    · by_cases hge : cnt ≥ b.cells.length
      · left
        simp only [h0, hge, ↓reduceIte, increBlock, hid, hlen, Nat.le_refl, ge_iff_le]
        refine ⟨trivial, ?_, ?_⟩
        · rw [hb, rowsOf_append, rowsOf_cons]; simp [rowsOf]; omega
        · rw [hb]; simp
      · right
        simp only [h0, hge, ↓reduceIte]
        refine ⟨trivial, pre, b, [], cnt, hb, by omega, rfl, ?_⟩
        rw [← hid]
    · right
      simp only [h0, ↓reduceIte]
      refine ⟨trivial, pre, b, [], 0, hb, hw.2.2, by omega, ?_⟩
      rw [← hid]
  | cons b2 post2 ih =>
    intro fuel pre b c cnt hb hcb hid hfuel
    obtain ⟨fuel, rfl⟩ : ∃ f, fuel = f + 1 := ⟨fuel - 1, by simp at hfuel; omega⟩
    have hw := wf_split pre b (b2 :: post2) 0 (hb ▸ hwf)
    have hrc : (c.blk c.blockId).rowCount = b.cells.length := by
      rw [blk_mid c pre b (b2 :: post2) (hcb.trans hb) hid]; exact hw.2.1
    have hlen : c.blocks.length = pre.length + 2 + post2.length := by rw [hcb, hb]; simp; omega
    simp only [skipBlocks, hrc]
    by_cases h0 : cnt > 0
    · by_cases hge : cnt ≥ b.cells.length
      · have hb' : blocks = (pre ++ [b]) ++ b2 :: post2 := by rw [hb]; simp
        have hnot : ¬ (pre.length + 1 ≥ pre.length + 2 + post2.length) := by omega
        simp only [h0, hge, ↓reduceIte, increBlock, hid, hlen, ge_iff_le, hnot, Bool.false_eq_true]
        have := ih fuel (pre ++ [b]) b2 { c with blockId := pre.length + 1 } (cnt - b.cells.length) hb' hcb
          (by simp) (by simp at hfuel; omega)
        have hr : rowsOf (pre ++ [b]) + (cnt - b.cells.length) = rowsOf pre + cnt := by
          rw [rowsOf_append, rowsOf_cons]; simp [rowsOf]; omega
        rw [hr] at this
        exact this
      · right
        simp only [h0, hge, ↓reduceIte]
        refine ⟨trivial, pre, b, b2 :: post2, cnt, hb, by omega, rfl, ?_⟩
        rw [← hid]
    · right
      simp only [h0, ↓reduceIte]
      refine ⟨trivial, pre, b, b2 :: post2, 0, hb, hw.2.2, by omega, ?_⟩
      rw [← hid]

/-! ### `skip_inner` on top of a fake iterator -/

/-- `skipFake` with `reached` = the end of the current block: either the column is exhausted (the
target row lies beyond its end), or the iterator stands on the block containing the target row (the
end of the block included). Only `blockId` / `finished` change. -/
theorem skipFake_spec (blocks : List BlockInfo) (hwf : WfBlocks blocks 0) :
    ∀ (post : List BlockInfo) (fuel : Nat) (pre : List BlockInfo) (b : BlockInfo) (c : ColIter) (reached : Nat),
      blocks = pre ++ b :: post → c.blocks = blocks → c.blockId = pre.length → post.length < fuel →
      reached = rowsOf pre + b.cells.length → rowsOf pre ≤ c.rowId →
      (rowsOf blocks ≤ c.rowId
          ∧ skipFake fuel c reached = { c with blockId := blocks.length, finished := true })
      ∨ (∃ pre2 b2 post2 pos2, blocks = pre2 ++ b2 :: post2
          ∧ pos2 ≤ b2.cells.length ∧ c.rowId = rowsOf pre2 + pos2
          ∧ skipFake fuel c reached = { c with blockId := pre2.length }) := by
  intro post
  induction post with
  | nil =>
    intro fuel pre b c reached hb hcb hid hfuel hreach hlo
    obtain ⟨fuel, rfl⟩ : ∃ f, fuel = f + 1 := ⟨fuel - 1, by omega⟩
    have hlen : c.blocks.length = pre.length + 1 := by rw [hcb, hb]; simp
    simp only [skipFake]
    by_cases hgt : c.rowId > reached
    · left
      simp only [hgt, ↓reduceIte, increBlock, hid, hlen, Nat.le_refl, ge_iff_le]
      refine ⟨?_, ?_⟩
      · have h0 : rowsOf ([] : List BlockInfo) = 0 := rfl
        rw [hb, rowsOf_append, rowsOf_cons, h0]; omega
      · rw [hb]; simp
    · right
      simp only [hgt, ↓reduceIte]
      refine ⟨pre, b, [], c.rowId - rowsOf pre, hb, by omega, by omega, ?_⟩
      rw [← hid]
  | cons b2 post2 ih =>
    intro fuel pre b c reached hb hcb hid hfuel hreach hlo
    obtain ⟨fuel, rfl⟩ : ∃ f, fuel = f + 1 := ⟨fuel - 1, by simp at hfuel; omega⟩
    have hlen : c.blocks.length = pre.length + 2 + post2.length := by rw [hcb, hb]; simp; omega
    simp only [skipFake]
    by_cases hgt : c.rowId > reached
    · have hb' : blocks = (pre ++ [b]) ++ b2 :: post2 := by rw [hb]; simp
      have hw2 := wf_split (pre ++ [b]) b2 post2 0 (hb' ▸ hwf)
      have hnot : ¬ (pre.length + 1 ≥ pre.length + 2 + post2.length) := by omega
      have hblk : ColIter.blk { c with blockId := pre.length + 1 } (pre.length + 1) = b2 := by
        have := blk_mid { c with blockId := pre.length + 1 } (pre ++ [b]) b2 post2 (hcb.trans hb') (by simp)
        simpa using this
      simp only [hgt, ↓reduceIte, increBlock, hid, hlen, ge_iff_le, hnot, Bool.false_eq_true, hblk]
      have hr : rowsOf (pre ++ [b]) = rowsOf pre + b.cells.length := by
        rw [rowsOf_append, rowsOf_cons]; simp [rowsOf]
      have := ih fuel (pre ++ [b]) b2 { c with blockId := pre.length + 1 } (reached + b2.rowCount) hb' hcb
        (by simp) (by simp at hfuel; omega) (by rw [hr, hw2.2.1, hreach]) (by rw [hr]; show _ ≤ c.rowId; omega)
      exact this
    · right
      simp only [hgt, ↓reduceIte]
      refine ⟨pre, b, b2 :: post2, c.rowId - rowsOf pre, hb, by omega, by omega, ?_⟩
      rw [← hid]

/-! ### one `skip(cnt)` from any state -/

theorem rowsOf_snoc (pre : List BlockInfo) (b : BlockInfo) : rowsOf (pre ++ [b]) = rowsOf pre + b.cells.length := by
  have h0 : rowsOf ([] : List BlockInfo) = 0 := rfl
  rw [rowsOf_append, rowsOf_cons, h0]; omega

theorem rowsOf_mid (pre : List BlockInfo) (b : BlockInfo) (post : List BlockInfo) :
    rowsOf (pre ++ b :: post) = rowsOf pre + b.cells.length + rowsOf post := by
  rw [rowsOf_append, rowsOf_cons]; omega

/-- **`skip(n)` moves the logical position by exactly `n`** (or does nothing on a finished
iterator) and leaves a state from which every later read is again a slice — for blocks of ANY row
counts, skips inside a block, across any number of blocks, past the end, and repeated skips on top of a
fake iterator. -/
theorem skip_spec (blocks : List BlockInfo) (dflt : Bytes) (hwf : WfBlocks blocks 0)
    (c : ColIter) (hg : GoodX blocks dflt c) (n : Nat) :
    GoodX blocks dflt (c.skip n) ∧
    ((c.skip n).rowId = c.rowId + n ∨ ((cellsOf blocks).length ≤ c.rowId ∧ (c.skip n).rowId = c.rowId)) := by
  have hcl : (cellsOf blocks).length = rowsOf blocks := rfl
  rcases hg with ⟨hcb, hfake, hcd, hst⟩ | ⟨hcb, hcd, hfin, hrow⟩ | ⟨hcb, hcd, hfin, hfake, pre, b, post, pos, hb, hid, hpos, hrow⟩
  · rcases hst with ⟨hfin, hrow⟩ | ⟨hfin, pre, b, post, pos, hb, hid, hit, hpos, hrow⟩
    · -- finished at the end
      have : c.skip n = c := by simp [ColIter.skip, hfin]
      rw [this]
      exact ⟨.inl ⟨hcb, hfake, hcd, .inl ⟨hfin, hrow⟩⟩, .inr ⟨by omega, rfl⟩⟩
    · -- a real block iterator at `pos` of block `b`
      have hrem : c.it.remaining = b.cells.length - pos := by simp [BIter.remaining, hit]
      by_cases hlt : n ≥ b.cells.length - pos
      · cases post with
        | nil =>
          have hlen : c.blocks.length = pre.length + 1 := by rw [hcb, hb]; simp
          have hs : c.skip n = { c with rowId := c.rowId + n, blockId := pre.length + 1, finished := true } := by
            simp [ColIter.skip, hfin, hfake, hrem, hlt, increBlock, hid, hlen]
          rw [hs]
          refine ⟨.inr (.inl ⟨hcb, hcd, rfl, ?_⟩), .inl rfl⟩
          show rowsOf blocks ≤ c.rowId + n
          rw [hb, rowsOf_mid, hrow]
          have h0 : rowsOf ([] : List BlockInfo) = 0 := rfl
          omega
        | cons b2 post2 =>
          have hlen : c.blocks.length = pre.length + 2 + post2.length := by rw [hcb, hb]; simp; omega
          have hb' : blocks = (pre ++ [b]) ++ b2 :: post2 := by rw [hb]; simp
          have hnot : ¬ (pre.length + 2 + post2.length ≤ pre.length + 1) := by omega
          have hr : rowsOf (pre ++ [b]) + (n - (b.cells.length - pos)) = c.rowId + n := by
            rw [rowsOf_snoc, hrow]; omega
          have hsb := skipBlocks_spec blocks hwf post2 (c.blocks.length + 1) (pre ++ [b]) b2
            { c with rowId := c.rowId + n, blockId := pre.length + 1 } (n - (b.cells.length - pos)) hb' hcb (by simp)
            (by rw [hlen]; omega)
          have hs : c.skip n =
              (if (skipBlocks (c.blocks.length + 1) { c with rowId := c.rowId + n, blockId := pre.length + 1 }
                    (n - (b.cells.length - pos))).2 = true
               then (skipBlocks (c.blocks.length + 1) { c with rowId := c.rowId + n, blockId := pre.length + 1 }
                    (n - (b.cells.length - pos))).1
               else { (skipBlocks (c.blocks.length + 1) { c with rowId := c.rowId + n, blockId := pre.length + 1 }
                    (n - (b.cells.length - pos))).1 with fake := true }) := by
            simp only [ColIter.skip, hfin, hfake, hrem, hlt, increBlock, hid, hlen, ge_iff_le, hnot,
              Bool.false_eq_true, ↓reduceIte]
          rw [hs]
          rcases hsb with ⟨h1, h2, h3⟩ | ⟨h1, pre2, b3, post3, pos3, hb3, hp3, hr3, h3⟩
          · rw [h1, if_pos rfl, h3]
            refine ⟨.inr (.inl ⟨hcb, hcd, rfl, ?_⟩), .inl rfl⟩
            show rowsOf blocks ≤ c.rowId + n
            omega
          · rw [h1, if_neg (by simp), h3]
            refine ⟨.inr (.inr ⟨hcb, hcd, hfin, rfl, pre2, b3, post3, pos3, hb3, rfl, by omega, ?_⟩), .inl rfl⟩
            show c.rowId + n = rowsOf pre2 + pos3
            omega
      · -- the skip stays inside the block
        have hs : c.skip n = { c with rowId := c.rowId + n, it := c.it.skip n } := by
          simp [ColIter.skip, hfin, hfake, hrem, hlt]
        rw [hs]
        refine ⟨.inl ⟨hcb, hfake, hcd, .inr ⟨hfin, pre, b, post, pos + n, hb, hid, ?_, by omega, ?_⟩⟩, .inl rfl⟩
        · simp [BIter.skip, hit]
        · show c.rowId + n = rowsOf pre + (pos + n); omega
  · -- finished (possibly past the end): skip is a no-op
    have : c.skip n = c := by simp [ColIter.skip, hfin]
    rw [this]
    exact ⟨.inr (.inl ⟨hcb, hcd, hfin, hrow⟩), .inr ⟨by omega, rfl⟩⟩
  · -- a fake iterator left by an earlier skip
    have hw := wf_split pre b post 0 (hb ▸ hwf)
    have hs : c.skip n = skipFake (c.blocks.length + 1) { c with rowId := c.rowId + n } (b.firstRowid + b.rowCount) := by
      simp [ColIter.skip, hfin, hfake, ColIter.blk, hcb, hb, hid, getD_mid]
    rw [hs]
    have hsf := skipFake_spec blocks hwf post (c.blocks.length + 1) pre b { c with rowId := c.rowId + n }
      (b.firstRowid + b.rowCount) hb hcb hid (by rw [hcb, hb]; simp; omega)
      (by rw [hw.1, hw.2.1]; omega) (by show rowsOf pre ≤ c.rowId + n; omega)
    rcases hsf with ⟨h2, h3⟩ | ⟨pre2, b3, post3, pos3, hb3, hp3, hr3, h3⟩
    · rw [h3]
      exact ⟨.inr (.inl ⟨hcb, hcd, rfl, h2⟩), .inl rfl⟩
    · rw [h3]
      exact ⟨.inr (.inr ⟨hcb, hcd, hfin, hfake, pre2, b3, post3, pos3, hb3, rfl, hp3, hr3⟩), .inl rfl⟩

/-! ### seeking: `ColumnIndex::block_of_row` and `ConcreteColumnIterator::new(start)` -/

theorem takeWhile_wf : ∀ (l : List BlockInfo) (base start : Nat), WfBlocks l base → l ≠ [] → base ≤ start →
    start ≤ base + rowsOf l →
    ∃ pre b post, l = pre ++ b :: post
      ∧ (l.takeWhile (fun b => decide (b.firstRowid ≤ start))).length = pre.length + 1
      ∧ base + rowsOf pre ≤ start ∧ start ≤ base + rowsOf pre + b.cells.length := by
  intro l
  induction l with
  | nil => intro _ _ _ h; exact absurd rfl h
  | cons b rest ih =>
    intro base start hwf _ hlo hhi
    obtain ⟨h1, h2, h3, h4⟩ := hwf
    have h0 : rowsOf ([] : List BlockInfo) = 0 := rfl
    have htw : (b :: rest).takeWhile (fun b => decide (b.firstRowid ≤ start))
        = b :: rest.takeWhile (fun b => decide (b.firstRowid ≤ start)) := by
      simp [List.takeWhile_cons, h1, hlo]
    rw [htw]
    cases rest with
    | nil =>
      refine ⟨[], b, [], rfl, by simp, by rw [h0]; omega, ?_⟩
      rw [rowsOf_cons, h0] at hhi; rw [h0]; omega
    | cons b2 r2 =>
      by_cases hin : start < base + b.cells.length
      · have hb2 : ¬ (b2.firstRowid ≤ start) := by have := h4.1; omega
        refine ⟨[], b, b2 :: r2, rfl, by simp [List.takeWhile_cons, hb2], by rw [h0]; omega, by rw [h0]; omega⟩
      · rw [rowsOf_cons] at hhi
        obtain ⟨pre, b', post, e1, e2, e3, e4⟩ := ih (base + b.rowCount) start h4 (by simp) (by omega) (by omega)
        refine ⟨b :: pre, b', post, by rw [e1]; rfl, by simp [e2], ?_, ?_⟩
        · rw [rowsOf_cons]; omega
        · rw [rowsOf_cons]; omega

/-- **A freshly created iterator at ANY start row ≤ the number of rows is in a good state at that
row** (`block_of_row` finds the block containing it; the end of the column is the end of the last
block). -/
theorem new_good_at (blocks : List BlockInfo) (dflt : Bytes) (hwf : WfBlocks blocks 0) (hne : blocks ≠ [])
    (start : Nat) (hs : start ≤ rowsOf blocks) :
    GoodState blocks dflt (ColIter.new blocks dflt start) ∧ (ColIter.new blocks dflt start).rowId = start := by
  obtain ⟨pre, b, post, hb, htw, hlo, hhi⟩ := takeWhile_wf blocks 0 start hwf hne (Nat.zero_le _) (by omega)
  have hw := wf_split pre b post 0 (hb ▸ hwf)
  have hbor : blockOfRow blocks start = pre.length := by simp only [blockOfRow, htw]; omega
  refine ⟨⟨rfl, rfl, rfl, .inr ⟨rfl, pre, b, post, start - rowsOf pre, hb, ?_, ?_, by omega, ?_⟩⟩, rfl⟩
  · simp [ColIter.new, hbor]
  · simp only [ColIter.new, hbor, iterFor]
    rw [hb, getD_mid, hw.1]; simp
  · show start = rowsOf pre + (start - rowsOf pre); omega

/-! ### all read programs -/

/-- every read program the iterator accepts: batch sizes ≥ 1 (`next_batch(Some(0))` is an assertion
failure in every block iterator), any `skip`, hints and row-id queries in any order -/
def ReadOp : IterOp → Prop
  | .next e => ∀ k, e = some k → 0 < k
  | .nextHinted k => 0 < k
  | _ => True

/-- the outputs of ANY read program started at logical row `p` over the written cells `xs`: every
batch is reported at the current logical row, is the slice of `xs` there, non-empty and within the
requested size, and advances the position by its length; `none` only at or past the end; `skip(n)`
advances the position by exactly `n` (on an iterator that has already reported the end it does
nothing); the row id reported is the logical position -/
def SpecFull (xs : List Cell) : Nat → List IterOp → List IterOut → Prop
  | _, [], outs => outs = []
  | p, op :: ops, outs =>
    match op with
    | .next e => ∃ out rest, outs = out :: rest ∧
        ((∃ cells, out = .batch p cells ∧ cells = (xs.drop p).take cells.length ∧ 0 < cells.length
            ∧ (∀ k, e = some k → cells.length ≤ k) ∧ SpecFull xs (p + cells.length) ops rest)
         ∨ (out = .none ∧ xs.length ≤ p ∧ SpecFull xs p ops rest))
    | .nextHinted k => ∃ out rest, outs = out :: rest ∧
        ((∃ cells, out = .batch p cells ∧ cells = (xs.drop p).take cells.length ∧ 0 < cells.length
            ∧ cells.length ≤ k ∧ SpecFull xs (p + cells.length) ops rest)
         ∨ (out = .none ∧ xs.length ≤ p ∧ SpecFull xs p ops rest))
    | .hint => ∃ h f rest, outs = .hint h f :: rest ∧ SpecFull xs p ops rest
    | .rowId => ∃ rest, outs = .rowId p :: rest ∧ SpecFull xs p ops rest
    | .skip n => SpecFull xs (p + n) ops outs ∨ (xs.length ≤ p ∧ SpecFull xs p ops outs)
    | .skipHinted n => ∃ k rest, outs = .skipped k :: rest ∧ k ≤ n ∧
        (SpecFull xs (p + k) ops rest ∨ (xs.length ≤ p ∧ SpecFull xs p ops rest))

theorem hinted_le (c : ColIter) (k : Nat) : hinted c k ≤ k := by
  simp only [hinted]
  split
  · exact Nat.le_refl _
  · exact Nat.min_le_left _ _

theorem full_spec (blocks : List BlockInfo) (dflt : Bytes) (hwf : WfBlocks blocks 0)
    (ops : List IterOp) (hops : ∀ op ∈ ops, ReadOp op) (c : ColIter) (hg : GoodX blocks dflt c) :
    SpecFull (cellsOf blocks) c.rowId ops (runOps c ops) := by
  induction ops generalizing c with
  | nil => simp [SpecFull, runOps]
  | cons op ops ih =>
    have hop := hops op (by simp)
    have hrest : ∀ o ∈ ops, ReadOp o := fun o ho => hops o (by simp [ho])
    cases op with
    | next e =>
      obtain ⟨hg', hout⟩ := nextBatch_specX blocks dflt hwf c hg e hop
      simp only [SpecFull, runOps, ColIter.step]
      refine ⟨_, _, rfl, ?_⟩
      rcases hout with ⟨cells, h1, h2, h3, h4, h5⟩ | ⟨h1, h2, h3⟩
      · left
        refine ⟨cells, h1, h2, h3, h4, ?_⟩
        have := ih hrest _ hg'
        rwa [h5] at this
      · right
        refine ⟨h1, h2, ?_⟩
        have := ih hrest _ hg'
        rwa [h3] at this
    | nextHinted k =>
      obtain ⟨hp, hle⟩ := hinted_pos c k hop
      obtain ⟨hg', hout⟩ := nextBatch_specX blocks dflt hwf c hg (some (hinted c k))
        (fun k' hk' => by injection hk' with hk'; omega)
      simp only [SpecFull, runOps, ColIter.step]
      refine ⟨_, _, rfl, ?_⟩
      rcases hout with ⟨cells, h1, h2, h3, h4, h5⟩ | ⟨h1, h2, h3⟩
      · left
        refine ⟨cells, h1, h2, h3, by have := h4 _ rfl; omega, ?_⟩
        have := ih hrest _ hg'
        rwa [h5] at this
      · right
        refine ⟨h1, h2, ?_⟩
        have := ih hrest _ hg'
        rwa [h3] at this
    | hint =>
      simp only [SpecFull, runOps, ColIter.step]
      exact ⟨_, _, _, rfl, ih hrest c hg⟩
    | rowId =>
      simp only [SpecFull, runOps, ColIter.step]
      exact ⟨_, rfl, ih hrest c hg⟩
    | skip n =>
      obtain ⟨hg', hpos⟩ := skip_spec blocks dflt hwf c hg n
      simp only [SpecFull, runOps, ColIter.step]
      have := ih hrest _ hg'
      rcases hpos with h | ⟨h1, h2⟩
      · left; rwa [h] at this
      · right; exact ⟨h1, by rwa [h2] at this⟩
    | skipHinted n =>
      obtain ⟨hg', hpos⟩ := skip_spec blocks dflt hwf c hg (hinted c n)
      simp only [SpecFull, runOps, ColIter.step]
      refine ⟨_, _, rfl, hinted_le c n, ?_⟩
      have := ih hrest _ hg'
      rcases hpos with h | ⟨h1, h2⟩
      · left; rwa [h] at this
      · right; exact ⟨h1, by rwa [h2] at this⟩

end RlModel
