import RlModel.Thm.C17
/-!
# C17 — projection pushdown keeps accepted plans accepted (`pushdown-proj-order`, after `fix:` 5c889c5)

`applyProjOrder_keeps_ok`: for every plan `(proj es (order ks c))` the executor builder accepts,
the plan `apply_proj` produces, `(proj es (order ks (proj kept c)))`, is accepted too — for
expressions, key lists and children of any size — provided every `(ref e)` the parent uses
refers to something the child outputs (`RefsProduced`; the binder only wraps produced
aggregates / subquery columns in `ref`).  Without the repair the statement is false
(`applyProjOrderOld_unsound`, Thm/C17.lean).
-/
set_option linter.unusedVariables false
set_option linter.unusedSimpArgs false
namespace RlModel.Wf

-- `==` on terms is equality ------------------------------------------------------------------------

mutual
  theorem Tm.beq_eq (x y : Tm) : Tm.beq x y = true ↔ x = y := by
    cases x with
    | col a b =>
      cases y with
      | col c d => simp [Tm.beq]
      | leaf _ => simp [Tm.beq]
      | node _ _ => simp [Tm.beq]
    | leaf a =>
      cases y with
      | col _ _ => simp [Tm.beq]
      | leaf b => simp [Tm.beq]
      | node _ _ => simp [Tm.beq]
    | node h xs =>
      cases y with
      | col _ _ => simp [Tm.beq]
      | leaf _ => simp [Tm.beq]
      | node k ys =>
        simp only [Tm.beq, Bool.and_eq_true, decide_eq_true_eq, Tm.node.injEq]
        rw [Tm.beqList_eq xs ys]
  theorem Tm.beqList_eq (xs ys : List Tm) : Tm.beqList xs ys = true ↔ xs = ys := by
    cases xs with
    | nil => cases ys <;> simp [Tm.beqList]
    | cons x xs =>
      cases ys with
      | nil => simp [Tm.beqList]
      | cons y ys =>
        simp only [Tm.beqList, Bool.and_eq_true, List.cons.injEq]
        rw [Tm.beq_eq x y, Tm.beqList_eq xs ys]
end

instance : LawfulBEq Tm where
  eq_of_beq {a b} h := (Tm.beq_eq a b).mp h
  rfl {a} := (Tm.beq_eq a a).mpr rfl

theorem indexOf?_isSome (x : Tm) (l : List Tm) (i : Nat) : (indexOf? x l i).isSome = true ↔ x ∈ l := by
  induction l generalizing i with
  | nil => simp [indexOf?]
  | cons y ys ih =>
    simp only [indexOf?]
    by_cases h : (x == y) = true
    · simp [h, eq_of_beq h]
    · have hne : x ≠ y := fun e => h (by subst e; exact beq_self_eq_true x)
      simp only [h, Bool.false_eq_true, if_false, List.mem_cons, hne, false_or]
      exact ih (i + 1)

theorem indexOf?_of_mem (x : Tm) (l : List Tm) (h : x ∈ l) : ∃ i, indexOf? x l 0 = some i := by
  have := (indexOf?_isSome x l 0).mpr h
  cases hi : indexOf? x l 0 with
  | none => simp [hi] at this
  | some i => exact ⟨i, rfl⟩

theorem indexOf?_none_of_not_mem (x : Tm) (l : List Tm) (h : x ∉ l) : indexOf? x l 0 = none := by
  cases hi : indexOf? x l 0 with
  | none => rfl
  | some i => exact absurd ((indexOf?_isSome x l 0).mp (by simp [hi])) h

/-- An entry of the schema resolves (to its position). -/
theorem resolve_of_mem (S : List Tm) (x : Tm) (h : x ∈ S) : ∃ r, resolve S x = some r := by
  obtain ⟨i, hi⟩ := indexOf?_of_mem x S h
  cases x with
  | col t c => exact ⟨.idx i, by simp [resolve, hi]⟩
  | leaf l => exact ⟨.idx i, by simp [resolve, hi]⟩
  | node hd xs => exact ⟨.idx i, by simp [resolve, hi]⟩

theorem resolveList_all (S : List Tm) (xs : List Tm) (h : ∀ x ∈ xs, ∃ r, resolve S x = some r) :
    ∃ rs, resolveList S xs = some rs := by
  induction xs with
  | nil => exact ⟨[], rfl⟩
  | cons x xs ih =>
    obtain ⟨r, hr⟩ := h x (by simp)
    obtain ⟨rs, hrs⟩ := ih (fun y hy => h y (by simp [hy]))
    exact ⟨r :: rs, by simp [resolveList, hr, hrs]⟩

theorem resolve_node_of_list (S : List Tm) (hd : Hd) (xs : List Tm)
    (h : ∃ rs, resolveList S xs = some rs) : ∃ r, resolve S (.node hd xs) = some r := by
  obtain ⟨rs, hrs⟩ := h
  cases hi : indexOf? (Tm.node hd xs) S 0 with
  | some i => exact ⟨.idx i, by simp [resolve, hi]⟩
  | none => exact ⟨.node hd rs, by simp [resolve, hi, hrs]⟩

-- what the projection keeps -----------------------------------------------------------------------------

theorem producedOf_of_colOrRef (e : Tm) (h : isColOrRef e = true) : producedOf e = e := by
  cases e with
  | col t c => rfl
  | leaf l => simp [isColOrRef] at h
  | node hd xs =>
    cases hd <;> first | rfl | simp [isColOrRef] at h

theorem producedOf_of_not (e : Tm) (h : isColOrRef e = false) : producedOf e = .node .ref [e] := by
  cases e with
  | col t c => simp [isColOrRef] at h
  | leaf l => rfl
  | node hd xs =>
    cases hd <;> first | rfl | simp [isColOrRef] at h

theorem kept_produced (roots : List Tm) (c e : Tm) (he : e ∈ schema c)
    (hu : producedOf e ∈ usedColsList roots) : producedOf e ∈ keptColumns roots c := by
  simp only [keptColumns, List.mem_flatMap]
  refine ⟨e, he, ?_⟩
  apply List.mem_append_left
  rw [if_pos (List.contains_iff_mem.mpr hu)]
  simp

theorem kept_direct (roots : List Tm) (c e : Tm) (he : e ∈ schema c) (hn : isColOrRef e = false)
    (hd : e ∈ directSubsList roots) : e ∈ keptColumns roots c := by
  simp only [keptColumns, List.mem_flatMap]
  refine ⟨e, he, ?_⟩
  apply List.mem_append_right
  have : (!isColOrRef e && (directSubsList roots).contains e) = true := by
    simp [hn, hd]
  rw [if_pos this]
  simp

/-- Everything the projection keeps resolves against the child's schema. -/
theorem kept_resolves (roots : List Tm) (c k : Tm) (hk : k ∈ keptColumns roots c) :
    ∃ r, resolve (schema c) k = some r := by
  simp only [keptColumns, List.mem_flatMap] at hk
  obtain ⟨e, he, hk⟩ := hk
  rcases List.mem_append.mp hk with hk | hk
  · by_cases hu : (usedColsList roots).contains (producedOf e) = true
    · rw [if_pos hu] at hk
      have hk' : k = producedOf e := by simpa using hk
      rw [hk']
      by_cases hc : isColOrRef e = true
      · rw [producedOf_of_colOrRef e hc]; exact resolve_of_mem _ e he
      · have hc' : isColOrRef e = false := by simpa using hc
        rw [producedOf_of_not e hc']
        apply resolve_node_of_list
        exact resolveList_all _ [e] (fun x hx => by
          have : x = e := by simpa using hx
          rw [this]; exact resolve_of_mem _ _ he)
    · rw [if_neg hu] at hk
      simp at hk
  · by_cases hu : (!isColOrRef e && (directSubsList roots).contains e) = true
    · rw [if_pos hu] at hk
      have hk' : k = e := by simpa using hk
      rw [hk']
      exact resolve_of_mem _ e he
    · rw [if_neg hu] at hk
      simp at hk

-- the parents' expressions still resolve -----------------------------------------------------------------

/-- Every `ref` the parent uses names something the child outputs: the `ref` itself is an entry of
the child's schema, or it wraps a computed entry. -/
def RefsProduced (S : List Tm) (subs : List Tm) : Prop :=
  ∀ xs, Tm.node .ref xs ∈ subs → (Tm.node .ref xs ∈ S ∨ ∃ e, xs = [e] ∧ e ∈ S ∧ isColOrRef e = false)

theorem usedCols_node (hd : Hd) (xs : List Tm) (h : hd ≠ .ref) : usedCols (.node hd xs) = usedColsList xs := by
  cases hd <;> first | rfl | exact absurd rfl h

theorem directSubs_node (hd : Hd) (xs : List Tm) (h : hd ≠ .ref) :
    directSubs (.node hd xs) = .node hd xs :: directSubsList xs := by
  cases hd <;> first | rfl | exact absurd rfl h

mutual
  theorem resolve_kept (S K used direct : List Tm)
      (hK1 : ∀ e ∈ S, producedOf e ∈ used → producedOf e ∈ K)
      (hK2 : ∀ e ∈ S, isColOrRef e = false → e ∈ direct → e ∈ K)
      (hR : RefsProduced S direct)
      (x : Tm) (hu : ∀ y ∈ usedCols x, y ∈ used) (hdir : ∀ y ∈ directSubs x, y ∈ direct)
      (h : ∃ r, resolve S x = some r) : ∃ r, resolve K x = some r := by
    cases x with
    | col t c =>
      obtain ⟨r, hr⟩ := h
      simp only [resolve] at hr
      cases hi : indexOf? (Tm.col t c) S 0 with
      | none => simp [hi] at hr
      | some i =>
        have hmem : Tm.col t c ∈ S := (indexOf?_isSome _ S 0).mp (by simp [hi])
        have hused : Tm.col t c ∈ used := hu _ (by simp [usedCols])
        have : Tm.col t c ∈ K := by
          have := hK1 _ hmem (by simpa [producedOf] using hused)
          simpa [producedOf] using this
        exact resolve_of_mem K _ this
    | leaf l =>
      simp only [resolve]
      split <;> exact ⟨_, rfl⟩
    | node hh xs =>
      by_cases href : hh = .ref
      · subst href
        have hsub : Tm.node .ref xs ∈ direct := hdir _ (by simp [directSubs])
        have hused : Tm.node .ref xs ∈ used := hu _ (by simp [usedCols])
        rcases hR xs hsub with hS | ⟨e, rfl, heS, hne⟩
        · have : Tm.node .ref xs ∈ K := by
            have := hK1 _ hS (by simpa [producedOf] using hused)
            simpa [producedOf] using this
          exact resolve_of_mem K _ this
        · have : Tm.node .ref [e] ∈ K := by
            have := hK1 e heS (by rw [producedOf_of_not e hne]; exact hused)
            rwa [producedOf_of_not e hne] at this
          exact resolve_of_mem K _ this
      · by_cases hS : Tm.node hh xs ∈ S
        · have hne : isColOrRef (Tm.node hh xs) = false := by
            cases hh <;> first | rfl | exact absurd rfl href
          have : Tm.node hh xs ∈ K := hK2 _ hS hne (hdir _ (by rw [directSubs_node hh xs href]; simp))
          exact resolve_of_mem K _ this
        · obtain ⟨r, hr⟩ := h
          simp only [resolve, indexOf?_none_of_not_mem _ S hS] at hr
          cases hl : resolveList S xs with
          | none => simp [hl] at hr
          | some rs =>
            apply resolve_node_of_list
            apply resolveList_kept S K used direct hK1 hK2 hR xs
            · intro y hy; exact hu y (by rw [usedCols_node hh xs href]; exact hy)
            · intro y hy; exact hdir y (by rw [directSubs_node hh xs href]; simp [hy])
            · exact ⟨rs, hl⟩
  theorem resolveList_kept (S K used direct : List Tm)
      (hK1 : ∀ e ∈ S, producedOf e ∈ used → producedOf e ∈ K)
      (hK2 : ∀ e ∈ S, isColOrRef e = false → e ∈ direct → e ∈ K)
      (hR : RefsProduced S direct)
      (xs : List Tm) (hu : ∀ y ∈ usedColsList xs, y ∈ used) (hdir : ∀ y ∈ directSubsList xs, y ∈ direct)
      (h : ∃ rs, resolveList S xs = some rs) : ∃ rs, resolveList K xs = some rs := by
    cases xs with
    | nil => exact ⟨[], rfl⟩
    | cons x xs =>
      obtain ⟨rs, hrs⟩ := h
      simp only [resolveList] at hrs
      cases hx : resolve S x with
      | none => simp [hx] at hrs
      | some y =>
        cases hxs : resolveList S xs with
        | none => simp [hx, hxs] at hrs
        | some ys =>
          obtain ⟨r1, h1⟩ := resolve_kept S K used direct hK1 hK2 hR x
            (fun y hy => hu y (by simp [usedColsList, hy]))
            (fun y hy => hdir y (by simp [directSubsList, hy])) ⟨y, hx⟩
          obtain ⟨r2, h2⟩ := resolveList_kept S K used direct hK1 hK2 hR xs
            (fun y hy => hu y (by simp [usedColsList, hy]))
            (fun y hy => hdir y (by simp [directSubsList, hy])) ⟨ys, hxs⟩
          exact ⟨r1 :: r2, by simp [resolveList, h1, h2]⟩
end

theorem resolvesAll_of (S : List Tm) (e : Tm) (w : String) (h : ∃ r, resolve S e = some r) :
    resolvesAll S e w = .ok := by
  obtain ⟨r, hr⟩ := h
  simp [resolvesAll, hr]

theorem resolvesAll_some (S : List Tm) (e : Tm) (w : String) (h : resolvesAll S e w = .ok) :
    ∃ r, resolve S e = some r := by
  obtain ⟨r, hr, _⟩ := resolvesAll_ok S e w h
  exact ⟨r, hr⟩

theorem obligationsOk_single (w : String) (sch : List Tm) (e : Tm) :
    obligationsOk w [(sch, e)] = resolvesAll sch e w := by
  simp only [obligationsOk]
  cases resolvesAll sch e w <;> rfl

/-- **`pushdown-proj-order` keeps accepted plans accepted** (for the repaired applier). -/
theorem applyProjOrder_keeps_ok (es ks c : Tm)
    (hR : RefsProduced (schema c) (directSubsList [es, ks]))
    (h : check (.node .proj [es, .node .order [ks, c]]) = .ok) :
    check (applyProjOrder es ks c) = .ok := by
  -- what acceptance of the original plan says
  simp only [check, resolveObligations, obligationsOk_single] at h
  obtain ⟨h1, hes⟩ := Verdict.and_ok _ _ h
  obtain ⟨hc, hks⟩ := Verdict.and_ok _ _ h1
  have hes' := resolvesAll_some _ _ _ hes
  have hks' := resolvesAll_some _ _ _ hks
  simp only [schema] at hes'
  -- the kept columns
  let K := keptColumns [es, ks] c
  have hK1 : ∀ e ∈ schema c, producedOf e ∈ usedColsList [es, ks] → producedOf e ∈ K :=
    fun e he hu => kept_produced [es, ks] c e he hu
  have hK2 : ∀ e ∈ schema c, isColOrRef e = false → e ∈ directSubsList [es, ks] → e ∈ K :=
    fun e he hn hd => kept_direct [es, ks] c e he hn hd
  have hksK := resolve_kept (schema c) K (usedColsList [es, ks]) (directSubsList [es, ks]) hK1 hK2 hR ks
    (fun y hy => by simp [usedColsList, hy]) (fun y hy => by simp [directSubsList, hy]) hks'
  have hesK := resolve_kept (schema c) K (usedColsList [es, ks]) (directSubsList [es, ks]) hK1 hK2 hR es
    (fun y hy => by simp [usedColsList, hy]) (fun y hy => by simp [directSubsList, hy]) hes'
  have hlist : ∃ r, resolve (schema c) (.node .list K) = some r :=
    resolve_node_of_list _ _ _ (resolveList_all _ K (fun k hk => kept_resolves [es, ks] c k hk))
  -- assemble
  simp only [applyProjOrder, check, resolveObligations, obligationsOk_single, schema, listItems]
  rw [hc, resolvesAll_of _ _ _ hlist]
  simp only [Verdict.and]
  rw [resolvesAll_of _ _ _ hksK]
  simp only [Verdict.and]
  exact resolvesAll_of _ _ _ hesK

/-- Non-vacuity: the witness plan of the repaired defect satisfies the hypotheses. -/
example : RefsProduced (schema wAgg) (directSubsList [wEs, wEs]) ∧
    check (.node .proj [wEs, .node .order [wEs, wAgg]]) = .ok := by
  refine ⟨?_, wPlan_ok⟩
  intro xs hx
  simp [directSubsList, directSubs, wEs, wK] at hx

end RlModel.Wf

namespace RlModel.Wf

/-- What the repaired applier builds for the witness (the plan text of
`corpus/C01/rules/pushdown-proj-order.json`, which egg must produce from the left-hand side with
exactly this rule): the child is wrapped in a projection on the computed key itself. -/
theorem applyProjOrder_witness :
    applyProjOrder wEs wEs wAgg
      = .node .proj [wEs, .node .order [wEs, .node .proj [.node .list [wK], wAgg]]] := by
  have : (applyProjOrder wEs wEs wAgg
      == .node .proj [wEs, .node .order [wEs, .node .proj [.node .list [wK], wAgg]]]) = true := by decide
  exact eq_of_beq this

end RlModel.Wf
