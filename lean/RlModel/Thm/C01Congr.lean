import RlModel.Lemmas.PlanSem
/-!
# C01 — rewriting below other operators (congruence)

The rule theorems (`psound_*`) say that the two sides of a rule have the same *output*
(`RelEq`: the rows projected on the output schema, in order; `RelPerm`: as a bag).  The optimizer
applies a rule anywhere inside a plan.  This file shows that this is sound for the operators above
the rewritten sub-plan as RisingLight builds them: an operator refers to its input only through
the input's output schema (`executor/mod.rs resolve_column_index_on_schema`: every expression of an
operator is resolved to positions of the child's schema), i.e. its parameters are functions of the
child's output row.  For such operators the output of the operator is a function of the output of
its child (`Ctx.out_eq`), so equal child outputs give equal outputs (`ctx_congr`), and — for
operators that do not cut the input (`limit`, `topn`) — bag-equal child outputs give bag-equal
outputs (`ctx_congr_perm`).

Covered here: stacks of `filter`, `proj`, `order`, `limit` (hence `topn = limit ∘ order`).  A rewritten
sub-plan below a join: `Thm/C01CongrJoin.lean`; below an aggregation: `Thm/C01CongrAgg.lean`.
-/
set_option linter.unusedSimpArgs false
set_option linter.unusedVariables false
namespace RlModel.C01
open RlModel RlModel.P

/-- An output row. -/
abbrev ORow := List PV
abbrev Out := List ORow

def outRow (r : Rel) (ρ : Env) : ORow := r.cols.map fun e => e ρ

theorem out_eq_map (r : Rel) : r.out = r.rows.map (outRow r) := rfl

/-- A parameter written against the child's output schema, as a function of the row. -/
def onOut {α} (f : ORow → α) (r : Rel) : Env → α := fun ρ => f (outRow r ρ)

-- generic stable insertion sort (the same algorithm as `sortRows`, on any type) ---------------------

def insertSortedG {α} (lt : α → α → Bool) (x : α) : List α → List α
  | [] => [x]
  | y :: ys => if lt y x then y :: insertSortedG lt x ys else x :: y :: ys

def sortG {α} (lt : α → α → Bool) : List α → List α
  | [] => []
  | x :: xs => insertSortedG lt x (sortG lt xs)

theorem insertSorted_map (lt : Env → Env → Bool) (lt' : ORow → ORow → Bool) (f : Env → ORow)
    (h : ∀ a b, lt a b = lt' (f a) (f b)) (x : Env) (ys : List Env) :
    (insertSorted lt x ys).map f = insertSortedG lt' (f x) (ys.map f) := by
  induction ys with
  | nil => rfl
  | cons y ys ih =>
    simp only [insertSorted, List.map_cons, insertSortedG, h y x]
    split <;> simp [ih]

theorem sortRows_map (lt : Env → Env → Bool) (lt' : ORow → ORow → Bool) (f : Env → ORow)
    (h : ∀ a b, lt a b = lt' (f a) (f b)) (xs : List Env) :
    (sortRows lt xs).map f = sortG lt' (xs.map f) := by
  induction xs with
  | nil => rfl
  | cons x xs ih =>
    simp only [sortRows, List.map_cons, sortG]
    rw [insertSorted_map lt lt' f h, ih]

theorem insertSortedG_perm {α} (lt : α → α → Bool) (x : α) (ys : List α) :
    (insertSortedG lt x ys).Perm (x :: ys) := by
  induction ys with
  | nil => exact List.Perm.refl _
  | cons y ys ih =>
    simp only [insertSortedG]
    split
    · exact (List.Perm.cons y ih).trans (List.Perm.swap x y ys)
    · exact List.Perm.refl _

theorem sortG_perm {α} (lt : α → α → Bool) (xs : List α) : (sortG lt xs).Perm xs := by
  induction xs with
  | nil => exact List.Perm.refl _
  | cons x xs ih => exact (insertSortedG_perm lt x _).trans (List.Perm.cons x ih)

-- order keys on output rows ---------------------------------------------------------------------------

/-- An order key written against the output schema. -/
structure OKey where
  f : ORow → PV
  desc : Bool

def OKey.pull (k : OKey) (r : Rel) : Key := { e := onOut k.f r, desc := k.desc }

/-- `keysLt` on output rows. -/
def okeysLt : List OKey → ORow → ORow → Bool
  | [], _, _ => false
  | k :: ks, v, w =>
    let a := k.f v
    let b := k.f w
    if a = b then okeysLt ks v w
    else if k.desc then pvLt b a else pvLt a b

theorem keysLt_pull (ks : List OKey) (r : Rel) (ρ σ : Env) :
    keysLt (ks.map fun k => k.pull r) ρ σ = okeysLt ks (outRow r ρ) (outRow r σ) := by
  induction ks with
  | nil => rfl
  | cons k ks ih =>
    have ih' : keysLt (ks.map fun k => k.pull r) ρ σ = okeysLt ks (outRow r ρ) (outRow r σ) := ih
    show (if (k.pull r).e ρ = (k.pull r).e σ then keysLt (ks.map fun k => k.pull r) ρ σ
        else if (k.pull r).desc then pvLt ((k.pull r).e σ) ((k.pull r).e ρ) else pvLt ((k.pull r).e ρ) ((k.pull r).e σ))
      = okeysLt (k :: ks) (outRow r ρ) (outRow r σ)
    rw [ih']
    rfl

-- contexts ----------------------------------------------------------------------------------------------

/-- A stack of unary operators above a sub-plan, each written against its input's output schema. -/
inductive Ctx where
  | hole
  | filter (p : ORow → Option Bool) (c : Ctx)
  | proj (fs : List (ORow → PV)) (c : Ctx)
  | order (ks : List OKey) (c : Ctx)
  | limit (n : Option Nat) (off : Nat) (c : Ctx)

/-- The plan: the context's operators above `r` (innermost constructor = operator directly above
`r`... the constructors are read from the root down, the hole is the rewritten sub-plan). -/
def Ctx.apply : Ctx → Rel → Rel
  | .hole, r => r
  | .filter p c, r => let x := c.apply r; P.filter (onOut p x) x
  | .proj fs c, r => let x := c.apply r; P.proj (fs.map fun f => onOut f x) x
  | .order ks c, r => let x := c.apply r; P.order (ks.map fun k => k.pull x) x
  | .limit n off c, r => P.limit n off (c.apply r)

/-- What the context does to an output. -/
def Ctx.onOutput : Ctx → Out → Out
  | .hole, o => o
  | .filter p c, o => (c.onOutput o).filter fun v => p v == some true
  | .proj fs c, o => (c.onOutput o).map fun v => fs.map fun f => f v
  | .order ks c, o => sortG (okeysLt ks) (c.onOutput o)
  | .limit n off c, o =>
    match n with
    | none => (c.onOutput o).drop off
    | some k => ((c.onOutput o).drop off).take k

theorem filter_out (p : ORow → Option Bool) (x : Rel) :
    (P.filter (onOut p x) x).out = x.out.filter fun v => p v == some true := by
  simp only [Rel.out, P.filter, List.filter_map]
  congr 1

theorem proj_out (fs : List (ORow → PV)) (x : Rel) :
    (P.proj (fs.map fun f => onOut f x) x).out = x.out.map fun v => fs.map fun f => f v := by
  simp only [Rel.out, P.proj, List.map_map]
  apply List.map_congr_left
  intro ρ _
  simp [onOut, outRow, Function.comp]

theorem order_out (ks : List OKey) (x : Rel) :
    (P.order (ks.map fun k => k.pull x) x).out = sortG (okeysLt ks) x.out := by
  have h := sortRows_map (keysLt (ks.map fun k => k.pull x)) (okeysLt ks) (outRow x)
    (fun a b => keysLt_pull ks x a b) x.rows
  exact h

theorem limit_out (n : Option Nat) (off : Nat) (x : Rel) :
    (P.limit n off x).out = match n with
      | none => x.out.drop off
      | some k => (x.out.drop off).take k := by
  cases n <;> simp [Rel.out, P.limit, List.map_drop, List.map_take]

/-- **The output of a plan is a function of the output of the sub-plan in the hole.** -/
theorem Ctx.out_eq (C : Ctx) (r : Rel) : (C.apply r).out = C.onOutput r.out := by
  induction C with
  | hole => rfl
  | filter p c ih => simp only [Ctx.apply, Ctx.onOutput, filter_out, ih]
  | proj fs c ih => simp only [Ctx.apply, Ctx.onOutput, proj_out, ih]
  | order ks c ih => simp only [Ctx.apply, Ctx.onOutput, order_out, ih]
  | limit n off c ih => simp only [Ctx.apply, Ctx.onOutput, limit_out, ih]

/-- **Rewriting below a stack of filter / proj / order / limit operators**: if the two sub-plans
have the same output (what every `psound_*` theorem with a `RelEq` conclusion gives), the two
plans have the same output. -/
theorem ctx_congr (C : Ctx) (a b : Rel) (h : RelEq a b) : RelEq (C.apply a) (C.apply b) := by
  unfold RelEq at *
  rw [Ctx.out_eq, Ctx.out_eq, h]

/-- Contexts that do not cut their input. -/
def Ctx.noLimit : Ctx → Prop
  | .hole => True
  | .filter _ c => c.noLimit
  | .proj _ c => c.noLimit
  | .order _ c => c.noLimit
  | .limit _ _ _ => False

theorem Ctx.onOutput_perm (C : Ctx) (hc : C.noLimit) (o o' : Out) (h : o.Perm o') :
    (C.onOutput o).Perm (C.onOutput o') := by
  induction C with
  | hole => exact h
  | filter p c ih => exact (ih hc).filter _
  | proj fs c ih => exact (ih hc).map _
  | order ks c ih => exact ((sortG_perm _ _).trans (ih hc)).trans (sortG_perm _ _).symm
  | limit n off c ih => exact absurd hc (by simp [Ctx.noLimit])

/-- **Rewriting by a bag-equality rule** (join commutation / rotation, filter below aggregation,
aggregate decorrelation) below filter / proj / order operators keeps the answer as a bag.  (Below
a `limit` it does not: which rows a LIMIT without a total ORDER BY returns depends on the order.) -/
theorem ctx_congr_perm (C : Ctx) (hc : C.noLimit) (a b : Rel) (h : RelPerm a b) :
    RelPerm (C.apply a) (C.apply b) := by
  unfold RelPerm at *
  rw [Ctx.out_eq, Ctx.out_eq]
  exact Ctx.onOutput_perm C hc _ _ h

/-- Non-vacuity: a concrete context over a concrete relation. -/
example : ((Ctx.limit (some 1) 0 (Ctx.filter (fun v => some (v.head? == some (.n 1))) Ctx.hole)).apply
    { cols := [fun ρ => ρ 0], owned := fun x => x == 0, rows := [fun _ => .n 0, fun _ => .n 1] }).out
      = [[.n 1]] := by
  simp [Ctx.apply, P.limit, P.filter, Rel.out, onOut, outRow, holds]

end RlModel.C01
