import RlModel.Model.DateArith
/-!
C14 — DATE ± INTERVAL: the code's month arithmetic (truncated `/` and `%` by 12, ONE carry, the
day clamped to the resulting month) is the SQL rule for EVERY date and EVERY interval
(`addMonthsCivil_eq_spec`), never trips its `assert!` (`addMonthsCivil_some`) and yields a day that
exists in the resulting month (`addMonths_day_valid`); the civil date chrono hands to it has a month
in 1..12 and a day ≥ 1 (`civilFromDays_month`, `civilFromDays_day_pos`), so `addInterval` never
panics on the month (`addInterval_month_ok`).  `clampFirst_ne_spec`: the variant that clamps the
day with the year BEFORE the carry (seeded change c14f) is not the SQL rule.
-/
namespace RlModel.DateArith

/-- Rust's truncated division by 12, in floor arithmetic. -/
theorem tdiv_tmod_12 (n : Int) :
    (0 ≤ n → Int.tdiv n 12 = n / 12 ∧ Int.tmod n 12 = n % 12) ∧
    (n < 0 → Int.tdiv n 12 = -((-n) / 12) ∧ Int.tmod n 12 = -((-n) % 12)) := by
  constructor
  · intro h
    exact ⟨Int.tdiv_eq_ediv_of_nonneg h, Int.tmod_eq_emod_of_nonneg h⟩
  · intro h
    have h' : 0 ≤ -n := by omega
    have e : n = -(-n) := by omega
    constructor
    · rw [e, Int.neg_tdiv, Int.tdiv_eq_ediv_of_nonneg h']; simp
    · rw [e, Int.neg_tmod, Int.tmod_eq_emod_of_nonneg h']; simp

/-- The code's year / month after adding `months` are the floor quotient / remainder of the month index. -/
theorem carry_eq_floor (y m months : Int) (hm1 : 1 ≤ m) (hm2 : m ≤ 12) :
    let mo := m + Int.tmod months 12
    let yr := y + Int.tdiv months 12
    let p := if mo > 12 then (mo - 12, yr + 1) else if mo ≤ 0 then (mo + 12, yr - 1) else (mo, yr)
    p.1 = (12 * y + (m - 1) + months) % 12 + 1 ∧ p.2 = (12 * y + (m - 1) + months) / 12 := by
  intro mo yr p
  have h := tdiv_tmod_12 months
  by_cases hn : months < 0
  · obtain ⟨hd, hr⟩ := h.2 hn
    simp only [p, mo, yr, hd, hr]
    split
    · constructor <;> omega
    · split <;> constructor <;> omega
  · obtain ⟨hd, hr⟩ := h.1 (by omega)
    simp only [p, mo, yr, hd, hr]
    split
    · constructor <;> omega
    · split <;> constructor <;> omega

/-- **The code computes the SQL rule**, for every date and every number of months. -/
theorem addMonthsCivil_eq_spec (y m d months : Int) (hm1 : 1 ≤ m) (hm2 : m ≤ 12) :
    addMonthsCivil y m d months = some (addMonthsSpec y m d months) := by
  have h := carry_eq_floor y m months hm1 hm2
  simp only at h
  unfold addMonthsCivil addMonthsSpec
  simp only
  generalize hp : (if m + Int.tmod months 12 > 12 then (m + Int.tmod months 12 - 12, y + Int.tdiv months 12 + 1)
      else if m + Int.tmod months 12 ≤ 0 then (m + Int.tmod months 12 + 12, y + Int.tdiv months 12 - 1)
      else (m + Int.tmod months 12, y + Int.tdiv months 12)) = p at h ⊢
  obtain ⟨p1, p2⟩ := p
  simp only at h ⊢
  obtain ⟨h1, h2⟩ := h
  have r1 : 1 ≤ p1 := by omega
  have r2 : p1 ≤ 12 := by omega
  subst h1 h2
  simp only [r1, r2, and_self, ↓reduceIte]

theorem addMonthsCivil_some (y m d months : Int) (hm1 : 1 ≤ m) (hm2 : m ≤ 12) :
    (addMonthsCivil y m d months).isSome = true := by
  rw [addMonthsCivil_eq_spec y m d months hm1 hm2]; rfl

theorem monthDays_ge (y m : Int) (h1 : 1 ≤ m) (h2 : m ≤ 12) : 28 ≤ monthDays y m := by
  unfold monthDays
  split
  · split <;> omega
  · split
    · omega
    · simp [h1, h2]

/-- The day handed to `from_ymd_opt` exists in the resulting month. -/
theorem addMonths_day_valid (y m d months : Int) (hd : 1 ≤ d) :
    let r := addMonthsSpec y m d months
    1 ≤ r.2.1 ∧ r.2.1 ≤ 12 ∧ 1 ≤ r.2.2 ∧ r.2.2 ≤ monthDays r.1 r.2.1 := by
  intro r
  have hm1 : 1 ≤ r.2.1 := by simp only [r, addMonthsSpec]; omega
  have hm2 : r.2.1 ≤ 12 := by simp only [r, addMonthsSpec]; omega
  have hg := monthDays_ge r.1 r.2.1 hm1 hm2
  refine ⟨hm1, hm2, ?_, ?_⟩
  · simp only [r, addMonthsSpec] at hg ⊢; omega
  · simp only [r, addMonthsSpec]; omega

/-- Adding twelve times `k` months keeps the month and moves the year by `k`. -/
theorem addMonthsSpec_years (y m d k : Int) (hm1 : 1 ≤ m) (hm2 : m ≤ 12) :
    addMonthsSpec y m d (12 * k) = (y + k, m, min d (monthDays (y + k) m)) := by
  unfold addMonthsSpec
  have e1 : (12 * y + (m - 1) + 12 * k) / 12 = y + k := by omega
  have e2 : (12 * y + (m - 1) + 12 * k) % 12 + 1 = m := by omega
  simp only [e1, e2]

/-- chrono's civil date has a month in 1..12 … -/
theorem civilFromDays_month (z : Int) : 1 ≤ (civilFromDays z).2.1 ∧ (civilFromDays z).2.1 ≤ 12 := by
  unfold civilFromDays
  simp only
  split <;> omega

/-- … and a day of month ≥ 1. -/
theorem civilFromDays_day_pos (z : Int) : 1 ≤ (civilFromDays z).2.2 := by
  unfold civilFromDays
  simp only
  omega

/-- `Date + Interval` never fails on the month `assert!`, whatever the date and the interval. -/
theorem addInterval_month_ok (date months days : Int) :
    (addMonthsCivil (civilFromDays (date + days)).1 (civilFromDays (date + days)).2.1 (civilFromDays (date + days)).2.2 months).isSome = true := by
  have h := civilFromDays_month (date + days)
  exact addMonthsCivil_some _ _ _ _ h.1 h.2

/-- `Date + Interval` never panics, whatever the date and the interval (as far as the calendar
arithmetic goes: chrono's and i32's ranges are not modelled). -/
theorem addInterval_isSome (date months days : Int) : (addInterval date months days).isSome = true := by
  unfold addInterval
  generalize hc : civilFromDays (date + days) = c
  obtain ⟨y, m, d⟩ := c
  have hm := civilFromDays_month (date + days)
  have hd := civilFromDays_day_pos (date + days)
  rw [hc] at hm hd
  simp only at hm hd
  simp only
  rw [addMonthsCivil_eq_spec y m d months hm.1 hm.2]
  have hv := addMonths_day_valid y m d months hd
  simp only at hv
  generalize addMonthsSpec y m d months = r at hv
  obtain ⟨yr, mo, dd⟩ := r
  simp only at hv ⊢
  simp [hv.2.2.1, hv.2.2.2]

/-- The day number moves by one with the day of month (the conversion is a count of days). -/
theorem daysFromCivil_succ (y m d : Int) : daysFromCivil y m (d + 1) = daysFromCivil y m d + 1 := by
  unfold daysFromCivil
  simp only
  omega

/-- The seeded variant c14f: the day clamped with the year BEFORE the carry. -/
def addMonthsClampFirst (y m d months : Int) : Int × Int × Int :=
  let t := m - 1 + Int.tmod months 12
  let yr := y + Int.tdiv months 12
  let mo := t % 12 + 1
  (yr + t / 12, mo, min d (monthDays yr mo))

theorem clampFirst_ne_spec : addMonthsClampFirst 2023 12 31 2 ≠ addMonthsSpec 2023 12 31 2 := by decide

-- non-vacuity / regression: 2023-12-31 + 2 months = 2024-02-29; 2024-01-31 + 1 month = 2024-02-29;
-- 2023-03-31 - 1 month = 2023-02-28; 1970-01-01 is day 0
example : addInterval (daysFromCivil 2023 12 31) 2 0 = some (daysFromCivil 2024 2 29) := by decide
example : addInterval (daysFromCivil 2024 1 31) 1 0 = some (daysFromCivil 2024 2 29) := by decide
example : subInterval (daysFromCivil 2023 3 31) 1 0 = some (daysFromCivil 2023 2 28) := by decide
example : daysFromCivil 1970 1 1 = 0 ∧ civilFromDays 0 = (1970, 1, 1) := by decide

end RlModel.DateArith
