import RlModel.Gen.RowsTree
import Mathlib.Tactic.Linarith
import Mathlib.Tactic.Positivity
import Mathlib.Algebra.Order.Field.Rat
/-!
# C17 — no row estimate is negative

The planner extracts the cheapest plan of the e-graph; the costs (`planner/cost.rs`) are sums and
products of row estimates (`planner/rules/rows.rs analyze_rows`).  An estimate below zero makes a
plan cheaper every time the extractor goes around a cyclic e-class (it never finishes: fix
f74847a), an infinite one times a zero selectivity is NaN and the extractor panics (fix 37a2a68):
either way an accepted statement gets no plan.  `Gen/RowsArms.lean` is regenerated from the source
on every run, one definition and one statement per arm; this file proves every statement: **each
arm keeps `0 ≤ estimate` for plans and `0 ≤ selectivity ≤ 1` for everything else**, given the same
of its operands.  By induction over the construction of the e-graph no estimate is ever negative;
the final clamp keeps every estimate at most `f32::MAX`, hence finite.
(An arm that is edited gets a new statement; no theorem of that name and shape → undischarged.)
-/
namespace RlModel.Rows

theorem half_pow_nonneg (n : Nat) : (0 : Rat) ≤ ((5 : Rat) / 10) ^ n := by positivity

theorem rows_Values_inv : stmt_rows_Values := by
  intro n; unfold rows_Values; positivity
theorem rows_Scan_stat_inv : stmt_rows_Scan_stat := by
  intro n; unfold rows_Scan_stat; positivity
theorem rows_Proj_Order_Window_inv : stmt_rows_Proj_Order_Window := by
  intro c hc; exact hc
theorem rows_Agg_inv : stmt_rows_Agg := by
  intro _; unfold rows_Agg; norm_num
theorem rows_HashAgg_SortAgg_inv : stmt_rows_HashAgg_SortAgg := by
  intro c n hc; unfold rows_HashAgg_SortAgg
  exact le_min (by positivity) hc
theorem rows_Filter_inv : stmt_rows_Filter := by
  intro c s hc hs _; unfold rows_Filter; exact mul_nonneg hc hs
theorem rows_Limit_TopN_inv : stmt_rows_Limit_TopN := by
  intro c l hc hl; unfold rows_Limit_TopN; exact le_min hc hl
theorem rows_Join_SemiAnti_inv : stmt_rows_Join_SemiAnti := by
  intro l o hl ho _; unfold rows_Join_SemiAnti; exact mul_nonneg hl ho
theorem rows_Join_other_inv : stmt_rows_Join_other := by
  intro l o r hl ho _ hr; unfold rows_Join_other; exact mul_nonneg (mul_nonneg hl hr) ho
theorem rows_HashJoin_MergeJoin_SemiAnti_inv : stmt_rows_HashJoin_MergeJoin_SemiAnti := by
  intro l o n hl ho _; unfold rows_HashJoin_MergeJoin_SemiAnti
  exact mul_nonneg (mul_nonneg hl ho) (half_pow_nonneg n)
theorem rows_HashJoin_MergeJoin_if0_inv : stmt_rows_HashJoin_MergeJoin_if0 := by
  intro o r ho _ hr; unfold rows_HashJoin_MergeJoin_if0; exact mul_nonneg hr ho
theorem rows_HashJoin_MergeJoin_if1_inv : stmt_rows_HashJoin_MergeJoin_if1 := by
  intro l o hl ho _; unfold rows_HashJoin_MergeJoin_if1; exact mul_nonneg hl ho
theorem rows_HashJoin_MergeJoin_if2_inv : stmt_rows_HashJoin_MergeJoin_if2 := by
  intro l o r n hl ho _ hr; unfold rows_HashJoin_MergeJoin_if2
  exact mul_nonneg (mul_nonneg (mul_nonneg hl hr) ho) (half_pow_nonneg n)
theorem rows_Apply_SemiAnti_inv : stmt_rows_Apply_SemiAnti := by
  intro l hl; exact hl
theorem rows_Apply_other_inv : stmt_rows_Apply_other := by
  intro l r hl hr; unfold rows_Apply_other; exact mul_nonneg hl hr
theorem rows_Empty_inv : stmt_rows_Empty := by
  intro _; unfold rows_Empty; norm_num
theorem rows_Max1Row_inv : stmt_rows_Max1Row := by
  intro _; unfold rows_Max1Row; norm_num
theorem rows_Ref_inv : stmt_rows_Ref := by
  intro a h0 h1; exact ⟨h0, h1⟩
theorem rows_Constant_false_inv : stmt_rows_Constant_false := by
  intro _; unfold rows_Constant_false; norm_num
theorem rows_Constant_true_inv : stmt_rows_Constant_true := by
  intro _; unfold rows_Constant_true; norm_num
theorem rows_And_inv : stmt_rows_And := by
  intro a b ha ha1 hb hb1; unfold rows_And
  exact ⟨mul_nonneg ha hb, by nlinarith⟩
theorem rows_Or_inv : stmt_rows_Or := by
  intro a b ha ha1 hb hb1; unfold rows_Or
  constructor <;> nlinarith [mul_nonneg ha hb, mul_nonneg (sub_nonneg.mpr ha1) (sub_nonneg.mpr hb1)]
theorem rows_Xor_inv : stmt_rows_Xor := by
  intro a b ha ha1 hb hb1; unfold rows_Xor
  constructor <;>
    nlinarith [mul_nonneg ha hb, mul_nonneg (sub_nonneg.mpr ha1) (sub_nonneg.mpr hb1),
      mul_nonneg ha (sub_nonneg.mpr hb1), mul_nonneg hb (sub_nonneg.mpr ha1)]
theorem rows_Not_inv : stmt_rows_Not := by
  intro a ha _; unfold rows_Not
  refine ⟨le_max_right _ _, max_le (by linarith) (by norm_num)⟩
theorem rows_Gt_Lt_GtEq_LtEq_Eq_NotEq_Like_inv : stmt_rows_Gt_Lt_GtEq_LtEq_Eq_NotEq_Like := by
  intro _; unfold rows_Gt_Lt_GtEq_LtEq_Eq_NotEq_Like; norm_num
theorem rows_In_inv : stmt_rows_In := by
  intro b hb; unfold rows_In
  refine ⟨le_min (by positivity) (by norm_num), min_le_right _ _⟩
theorem rows_Exists_inv : stmt_rows_Exists := by
  intro _; unfold rows_Exists; norm_num
theorem rows_default_inv : stmt_rows_default := by
  intro _; unfold rows_default; norm_num
theorem rows_clamp_inv : stmt_rows_clamp := by
  intro r m hm; unfold rows_clamp
  refine ⟨fun h => le_min h (by linarith), fun _ h1 => le_trans (min_le_left _ _) h1, min_le_right _ _⟩

/-- Regression statement for the arm as it was before fix f74847a (`Not(a) => 1.0 - x(a)` with
`In([_, b]) => 1.0 / x(b)` unclamped): a subquery estimated at half a row makes `not (x in …)`
negative. -/
theorem not_of_unclamped_in_negative : ∃ b : Rat, 0 ≤ b ∧ (1 : Rat) - 1 / b < 0 :=
  ⟨1 / 2, by norm_num, by norm_num⟩

/-- Regression statement for a `Limit` arm that subtracts the offset without a clamp (seeded change
c17e): the estimate goes negative for an offset beyond the input. -/
theorem limit_minus_offset_negative : ∃ c off lim : Rat, 0 ≤ c ∧ 0 ≤ off ∧ 0 ≤ lim ∧ min (c - off) lim < 0 :=
  ⟨3, 5, 10, by norm_num, by norm_num, by norm_num, by norm_num⟩

/-- **No row estimate is negative, every selectivity is within [0, 1]** — for every term `analyze_rows` can
compute (`Gen/RowsTree.lean`: `PNode` plans, `SNode` everything else; the roles of the operands are their
types), by induction over the term with the arm statements above as the steps. The e-class merge keeps the
smaller of two estimates (`Analysis::merge`), and the clamp (`rows_clamp_inv`) only lowers a value towards a
bound `≥ 1`: both keep the two bounds. -/
theorem est_inv : (∀ p : PNode, 0 ≤ p.est) ∧ (∀ s : SNode, 0 ≤ s.est ∧ s.est ≤ 1) :=
  est_inv_of_arms
    rows_Values_inv
    rows_Scan_stat_inv
    rows_Proj_Order_Window_inv
    rows_Agg_inv
    rows_HashAgg_SortAgg_inv
    rows_Filter_inv
    rows_Limit_TopN_inv
    rows_Join_SemiAnti_inv
    rows_Join_other_inv
    rows_HashJoin_MergeJoin_SemiAnti_inv
    rows_HashJoin_MergeJoin_if0_inv
    rows_HashJoin_MergeJoin_if1_inv
    rows_HashJoin_MergeJoin_if2_inv
    rows_Apply_SemiAnti_inv
    rows_Apply_other_inv
    rows_Empty_inv
    rows_Max1Row_inv
    rows_Ref_inv
    rows_Constant_false_inv
    rows_Constant_true_inv
    rows_And_inv
    rows_Or_inv
    rows_Xor_inv
    rows_Not_inv
    rows_Gt_Lt_GtEq_LtEq_Eq_NotEq_Like_inv
    rows_In_inv
    rows_Exists_inv
    rows_default_inv

/-- The merge of two estimates of one e-class (the smaller one) keeps the bounds. -/
theorem merge_min_inv (a b : Rat) (ha : 0 ≤ a) (hb : 0 ≤ b) : 0 ≤ min a b := le_min ha hb

/-- Non-vacuity: the estimate of `filter (a > 1 and b in (subquery of 2 rows)) (scan of 7 rows)` is `7 * (1/2 * 1/2)`. -/
example : (PNode.Filter (.Scan_stat 7) (.And .Gt_Lt_GtEq_LtEq_Eq_NotEq_Like (.In (.Values 2)))).est = 7 / 4 := by
  simp only [PNode.est, SNode.est, rows_Filter, rows_Scan_stat, rows_And, rows_Gt_Lt_GtEq_LtEq_Eq_NotEq_Like, rows_In, rows_Values]
  norm_num

end RlModel.Rows
