import RlModel.Gen.CostArms
import Mathlib.Tactic.Positivity
import Mathlib.Algebra.Order.Field.Rat
/-!
# C17 — no plan cost is negative

`Gen/CostArms.lean` is regenerated from `planner/cost.rs CostFn::cost` on every run: one definition
and one statement per arm.  This file proves every statement: **each arm's cost is `>= 0`** given
non-negative row estimates (`Thm/C17Rows.lean`), column counts and child costs; the logarithms
`(E + 1).log2()` stand as variables `lg_k >= 0`, justified by the side statements `…_lgarg_k`
(`0 <= E`, so the argument is at least 1).  The translator rejects subtraction and division in a cost
expression outright.  With the final clamp (`c.min(f32::MAX)`, checked by the translator) every cost
is a finite non-negative number: plans compare, and going around a cyclic e-class never lowers a cost.
-/
namespace RlModel.Cost

/-- Every term of a cost expression is a product or sum of non-negative quantities. -/
macro "cost_nonneg" d:ident : tactic => `(tactic| (intros; unfold $d; positivity))

theorem cost_Scan_Values_IndexScan_inv : stmt_cost_Scan_Values_IndexScan := by
  unfold stmt_cost_Scan_Values_IndexScan; cost_nonneg cost_Scan_Values_IndexScan
theorem cost_Order_inv : stmt_cost_Order := by
  unfold stmt_cost_Order; cost_nonneg cost_Order
theorem cost_Order_lgarg_0_inv : stmt_cost_Order_lgarg_0 := by
  unfold stmt_cost_Order_lgarg_0; intros; positivity
theorem cost_Filter_inv : stmt_cost_Filter := by
  unfold stmt_cost_Filter; cost_nonneg cost_Filter
theorem cost_Proj_Window_inv : stmt_cost_Proj_Window := by
  unfold stmt_cost_Proj_Window; cost_nonneg cost_Proj_Window
theorem cost_Agg_inv : stmt_cost_Agg := by
  unfold stmt_cost_Agg; cost_nonneg cost_Agg
theorem cost_HashAgg_inv : stmt_cost_HashAgg := by
  unfold stmt_cost_HashAgg; cost_nonneg cost_HashAgg
theorem cost_HashAgg_lgarg_0_inv : stmt_cost_HashAgg_lgarg_0 := by
  unfold stmt_cost_HashAgg_lgarg_0; intros; positivity
theorem cost_SortAgg_inv : stmt_cost_SortAgg := by
  unfold stmt_cost_SortAgg; cost_nonneg cost_SortAgg
theorem cost_Limit_inv : stmt_cost_Limit := by
  unfold stmt_cost_Limit; cost_nonneg cost_Limit
theorem cost_TopN_inv : stmt_cost_TopN := by
  unfold stmt_cost_TopN; cost_nonneg cost_TopN
theorem cost_TopN_lgarg_0_inv : stmt_cost_TopN_lgarg_0 := by
  unfold stmt_cost_TopN_lgarg_0; intros; positivity
theorem cost_Join_inv : stmt_cost_Join := by
  unfold stmt_cost_Join; cost_nonneg cost_Join
theorem cost_HashJoin_SemiAnti_inv : stmt_cost_HashJoin_SemiAnti := by
  unfold stmt_cost_HashJoin_SemiAnti; cost_nonneg cost_HashJoin_SemiAnti
theorem cost_HashJoin_SemiAnti_lgarg_0_inv : stmt_cost_HashJoin_SemiAnti_lgarg_0 := by
  unfold stmt_cost_HashJoin_SemiAnti_lgarg_0; intros; positivity
theorem cost_HashJoin_other_inv : stmt_cost_HashJoin_other := by
  unfold stmt_cost_HashJoin_other; cost_nonneg cost_HashJoin_other
theorem cost_HashJoin_other_lgarg_0_inv : stmt_cost_HashJoin_other_lgarg_0 := by
  unfold stmt_cost_HashJoin_other_lgarg_0; intros; positivity
theorem cost_MergeJoin_inv : stmt_cost_MergeJoin := by
  unfold stmt_cost_MergeJoin; cost_nonneg cost_MergeJoin
theorem cost_Apply_inv : stmt_cost_Apply := by
  unfold stmt_cost_Apply; cost_nonneg cost_Apply
theorem cost_Insert_CopyTo_inv : stmt_cost_Insert_CopyTo := by
  unfold stmt_cost_Insert_CopyTo; cost_nonneg cost_Insert_CopyTo
theorem cost_Empty_inv : stmt_cost_Empty := by
  unfold stmt_cost_Empty; cost_nonneg cost_Empty
theorem cost_Max1Row_inv : stmt_cost_Max1Row := by
  unfold stmt_cost_Max1Row; cost_nonneg cost_Max1Row
theorem cost_Column_Ref_inv : stmt_cost_Column_Ref := by
  unfold stmt_cost_Column_Ref; cost_nonneg cost_Column_Ref
theorem cost_List_inv : stmt_cost_List := by
  unfold stmt_cost_List; cost_nonneg cost_List
theorem cost_default_inv : stmt_cost_default := by
  unfold stmt_cost_default; cost_nonneg cost_default

/-- Regression statement: a cost arm with a subtraction is outside what can be proved — the translator
refuses it (`TRANSLATE-ERROR`), e.g. a "discount" for sorted input: -/
theorem discounted_cost_negative : ∃ rows cols discount : Rat, 0 ≤ rows ∧ 0 ≤ cols ∧ 0 ≤ discount ∧ rows * cols - discount < 0 :=
  ⟨1, 1, 2, by norm_num, by norm_num, by norm_num, by norm_num⟩

end RlModel.Cost
