import RlModel.Thm.C01Congr
import RlModel.Lemmas.PlanAgg
/-!
# C01 — rewriting below an aggregation (congruence)

**The output of a hash / sort / scalar aggregation is a function of the output of its input**
(`hashagg_out`, `agg_out`), when the aggregation is built the way RisingLight builds it: the group
keys and the aggregates' arguments are written against the input's output schema (`onOut`,
`OAgg.pull`: an aggregate's value on a group is a function of the group's *output* rows, in input
order), and the aggregates are published under column identities that are distinct from one
another and that the input's output columns do not read (`AggsFresh`: the columns are created by
this very node).

Consequence: `hashagg_congr` / `agg_congr` — a `RelEq` rewrite of the input keeps the output of
the aggregation.  (For a bag-equality rewrite the groups' order and — for order-sensitive
aggregates — their values may change; the optimizer's bag-equality rules below an aggregation
rest on the whole-optimizer differential run.)
-/
set_option linter.unusedSimpArgs false
set_option linter.unusedVariables false
namespace RlModel.C01
open RlModel RlModel.P

/-- An aggregate written against the output schema: the column it is published under and its
value on the output rows of a group (input order). -/
structure OAgg where
  col : Col
  g : Out → PV

def OAgg.pull (a : OAgg) (r : Rel) : Agg := { col := a.col, fn := fun ms => a.g (ms.map (outRow r)) }

/-- The aggregates' columns are pairwise distinct and not read by the input's output columns. -/
structure AggsFresh (as : List OAgg) (r : Rel) : Prop where
  nodup : (as.map fun a => a.col).Nodup
  unread : ∀ c ∈ r.cols, Indep c (fun x => as.any fun a => a.col == x)

-- grouping on outputs --------------------------------------------------------------------------------

def groupKeyO (ks : List (ORow → PV)) (v : ORow) : List PV := ks.map fun k => k v

def groupInsertO (ks : List (ORow → PV)) (v : ORow) : List (List PV × Out) → List (List PV × Out)
  | [] => [(groupKeyO ks v, [v])]
  | (k, ms) :: gs => if k = groupKeyO ks v then (k, v :: ms) :: gs else (k, ms) :: groupInsertO ks v gs

def groupsO (ks : List (ORow → PV)) : Out → List (List PV × Out)
  | [] => []
  | v :: rest => groupInsertO ks v (groupsO ks rest)

/-- The hash aggregation on outputs: one row per group — its key, then the aggregates. -/
def hashaggOut (ks : List (ORow → PV)) (as : List OAgg) (o : Out) : Out :=
  (groupsO ks o).map fun g => g.1 ++ as.map fun a => a.g g.2

/-- The scalar aggregation on outputs: exactly one row. -/
def aggOut (as : List OAgg) (o : Out) : Out := [as.map fun a => a.g o]

theorem groupKey_pull (ks : List (ORow → PV)) (r : Rel) (ρ : Env) :
    groupKey (ks.map fun k => onOut k r) ρ = groupKeyO ks (outRow r ρ) := by
  simp [groupKey, groupKeyO, onOut]

theorem groupInsert_pull (ks : List (ORow → PV)) (r : Rel) (ρ : Env) (gs : List (List PV × List Env)) :
    (groupInsert (ks.map fun k => onOut k r) ρ gs).map (fun g => (g.1, g.2.map (outRow r)))
      = groupInsertO ks (outRow r ρ) (gs.map fun g => (g.1, g.2.map (outRow r))) := by
  induction gs with
  | nil => simp [groupInsert, groupInsertO, groupKey_pull]
  | cons g gs ih =>
    obtain ⟨k, ms⟩ := g
    simp only [groupInsert, List.map_cons, groupInsertO, groupKey_pull]
    split
    · simp
    · simp [ih]

theorem groups_pull (ks : List (ORow → PV)) (r : Rel) (rows : List Env) :
    (groups (ks.map fun k => onOut k r) rows).map (fun g => (g.1, g.2.map (outRow r)))
      = groupsO ks (rows.map (outRow r)) := by
  induction rows with
  | nil => rfl
  | cons ρ rest ih =>
    simp only [groups, List.map_cons, groupsO]
    rw [groupInsert_pull, ih]

-- the aggregated row, read through the output schema ------------------------------------------------------

theorem find_pull (as : List OAgg) (r : Rel) (a : OAgg) (ha : a ∈ as)
    (hn : (as.map fun a => a.col).Nodup) :
    (as.map fun a => a.pull r).find? (fun b => b.col == a.col) = some (a.pull r) := by
  induction as with
  | nil => cases ha
  | cons b bs ih =>
    simp only [List.map_cons, List.nodup_cons] at hn
    rcases List.mem_cons.mp ha with rfl | ha'
    · simp [List.find?_cons, OAgg.pull]
    · have hne : b.col ≠ a.col := by
        intro h
        exact hn.1 (by rw [h]; exact List.mem_map.mpr ⟨a, ha', rfl⟩)
      simp only [List.map_cons, List.find?_cons]
      have : ((b.pull r).col == a.col) = false := by simpa [OAgg.pull] using hne
      rw [this]
      exact ih ha' hn.2

theorem aggRow_agg (as : List OAgg) (r : Rel) (a : OAgg) (ha : a ∈ as)
    (hn : (as.map fun a => a.col).Nodup) (ms : List Env) :
    aggRow (as.map fun a => a.pull r) ms a.col = a.g (ms.map (outRow r)) := by
  unfold aggRow
  rw [find_pull as r a ha hn]
  rfl

theorem any_pull (as : List OAgg) (r : Rel) (x : Col) :
    ((as.map fun a => a.pull r).any fun b => b.col == x) = as.any fun a => a.col == x := by
  induction as with
  | nil => rfl
  | cons a as ih =>
    simp only [List.map_cons, List.any_cons, ih]
    rfl

/-- On the aggregated row the input's output columns read the group's first member. -/
theorem outRow_aggRow (as : List OAgg) (r : Rel) (hf : AggsFresh as r) (m : Env) (ms : List Env) :
    outRow r (aggRow (as.map fun a => a.pull r) (m :: ms)) = outRow r m := by
  unfold outRow
  apply List.map_congr_left
  intro c hc
  apply hf.unread c hc
  intro x hx
  apply aggRow_outside
  rw [any_pull]
  exact hx

/-- One output row of the aggregation. -/
theorem hashagg_row (ks : List (ORow → PV)) (as : List OAgg) (r : Rel) (hf : AggsFresh as r)
    (k : List PV) (ms : List Env) (hne : ms ≠ [])
    (hk : ∀ m ∈ ms, groupKey (ks.map fun k => onOut k r) m = k) :
    ((ks.map fun k => onOut k r) ++ (as.map fun a => a.pull r).map fun (a : Agg) => fun (ρ : Env) => ρ a.col).map
        (fun (e : VExpr) => e (aggRow (as.map fun a => a.pull r) ms))
      = k ++ as.map fun a => a.g (ms.map (outRow r)) := by
  cases ms with
  | nil => exact absurd rfl hne
  | cons m ms =>
    rw [List.map_append]
    congr 1
    · have h0 := hk m (List.mem_cons_self ..)
      rw [← h0]
      simp only [groupKey, List.map_map]
      apply List.map_congr_left
      intro kf _
      simp only [Function.comp, onOut, outRow_aggRow as r hf m ms]
    · simp only [List.map_map]
      apply List.map_congr_left
      intro a ha
      simp only [Function.comp]
      exact aggRow_agg as r a ha hf.nodup (m :: ms)

/-- **The output of a hash (or sort) aggregation is a function of the output of its input.** -/
theorem hashagg_out (ks : List (ORow → PV)) (as : List OAgg) (r : Rel) (hf : AggsFresh as r) :
    (hashagg (ks.map fun k => onOut k r) (as.map fun a => a.pull r) r).out = hashaggOut ks as r.out := by
  unfold hashaggOut
  rw [out_eq_map r, ← groups_pull ks r r.rows, List.map_map]
  simp only [Rel.out, hashagg, List.map_map]
  apply List.map_congr_left
  intro g hg
  have hinv := groups_inv (ks.map fun k => onOut k r) r.rows g hg
  simp only [Function.comp]
  have h := hashagg_row ks as r hf g.1 g.2 hinv.1 hinv.2
  simpa [List.map_map, Function.comp] using h

/-- **The output of a scalar aggregation is a function of the output of its input.** -/
theorem agg_out (as : List OAgg) (r : Rel) (hn : (as.map fun a => a.col).Nodup) :
    (agg (as.map fun a => a.pull r) r).out = aggOut as r.out := by
  simp only [Rel.out, agg, aggOut, List.map_cons, List.map_nil, List.map_map]
  congr 1
  apply List.map_congr_left
  intro a ha
  simp only [Function.comp]
  exact aggRow_agg as r a ha hn r.rows

/-- **Rewriting below a hash / sort aggregation.** -/
theorem hashagg_congr (ks : List (ORow → PV)) (as : List OAgg) (a b : Rel) (h : RelEq a b)
    (ha : AggsFresh as a) (hb : AggsFresh as b) :
    RelEq (hashagg (ks.map fun k => onOut k a) (as.map fun x => x.pull a) a)
          (hashagg (ks.map fun k => onOut k b) (as.map fun x => x.pull b) b) := by
  unfold RelEq at *
  rw [hashagg_out ks as a ha, hashagg_out ks as b hb, h]

/-- **Rewriting below a scalar aggregation.** -/
theorem agg_congr (as : List OAgg) (a b : Rel) (h : RelEq a b) (hn : (as.map fun a => a.col).Nodup) :
    RelEq (agg (as.map fun x => x.pull a) a) (agg (as.map fun x => x.pull b) b) := by
  unfold RelEq at *
  rw [agg_out as a hn, agg_out as b hn, h]

/-- Non-vacuity: `select c0, count(*) … group by c0` on a concrete output. -/
example : hashaggOut [fun v => v.headD .null] [{ col := 7, g := fun o => .n o.length }]
    [[.n 1], [.n 2], [.n 1]] = [[.n 1, .n 2], [.n 2, .n 1]] := by
  decide

/-- … and `AggsFresh` holds of a scan and one aggregate column outside the scan's columns. -/
example : AggsFresh [{ col := 7, g := fun o => .n o.length }]
    { cols := [fun ρ => ρ 0], owned := fun x => x == 0, rows := [fun _ => .n 1] } := by
  refine ⟨by simp, ?_⟩
  intro c hc ρ ρ' h
  simp only [List.mem_singleton] at hc
  subst hc
  exact h 0 (by decide)

end RlModel.C01
