/-
C10 — Concurrent sessions behave like some serial order.

FULL STATEMENT (properties.jsonl C10): "every acknowledged statement takes effect exactly once,
each query result is explained by some serial order of the acknowledged statements consistent
with per-session order, no session panics or deadlocks, and the database reopens afterwards."

For the code that exists the unrestricted statement is FALSE; the refutations below are
schedules taken from the real implementation (the check replays them on it):
`drop_vs_insert_regression`
(and C09's two witnesses for DELETE vs compaction); `drop_vs_compaction_regression` and
`drop_dv_vs_compaction_regression` are the regression inputs of two defects fixed in /repo 6efcfe7.  What is proved for every schedule:
`exactly_once`, `epoch_counts_commits`; and for the restricted fragment {INSERT, SELECT,
CREATE/DROP of distinct names} the per-statement linearization facts `serializable_partial`
and `no_panic_partial`.
-/
import RlModel.Thm.C09

namespace RlModel
namespace SC

/-! ### exactly once -/

/-- A kernel operation either leaves manifest and epoch alone, or is phase B of a commit: it
appends exactly one transaction (the changeset prepared by phase A under the manifest lock) and
advances the epoch by one. -/
theorem log_kstep {k k' : K} (st : KStep k k') :
    (k'.log = k.log ∧ k'.epoch = k.epoch)
    ∨ (∃ th f, k.infl = some (th, f) ∧ k'.log = k.log ++ [f.recs] ∧ k'.epoch = k.epoch + 1
        ∧ k'.infl = none) := by
  cases st with
  | refl => exact Or.inl ⟨rfl, rfl⟩
  | pin th => exact Or.inl ⟨rfl, rfl⟩
  | unpin th e hm => exact Or.inl ⟨rfl, rfl⟩
  | reserve th t => exact Or.inl ⟨rfl, rfl⟩
  | find th => exact Or.inl ⟨rfl, rfl⟩
  | unlink th ed key hm => exact Or.inl ⟨rfl, rfl⟩
  | abandon th => exact Or.inl ⟨rfl, rfl⟩
  | allocDv n => exact Or.inl ⟨rfl, rfl⟩
  | commitA _ th ops hc =>
      left
      simp only [kCommitA] at hc
      split at hc
      · cases hc
      split at hc
      · cases hc
      split at hc
      · cases hc
      cases hc
      exact ⟨rfl, rfl⟩
  | commitAPanic _ th ops hc =>
      left
      simp only [kCommitAPanic] at hc
      split at hc
      · cases hc
      split at hc
      · cases hc
      split at hc
      · cases hc
      cases hc
      exact ⟨rfl, rfl⟩
  | commitB _ th hc =>
      right
      simp only [kCommitB] at hc
      split at hc
      · cases hc
      rename_i hh f hi
      split at hc
      case isFalse => cases hc
      rename_i hcond
      cases hc
      exact ⟨hh, f, hi, rfl, rfl, rfl⟩

/-- Every acknowledged commit's records are in the manifest exactly once: the manifest has one
transaction per published epoch, in every reachable state of every schedule. -/
theorem epoch_counts_commits : ∀ (acts : List Act) {s s' : Sys},
    s.k.epoch = s.k.log.length + 1 → run s acts = some s' → s'.k.epoch = s'.k.log.length + 1
  | [], s, s', h, hr => by simp only [run] at hr; cases hr; exact h
  | a :: r, s, s', h, hr => by
      simp only [run] at hr
      split at hr
      · rename_i s1 h1
        apply epoch_counts_commits r _ hr
        rcases log_kstep (astep_kstep h1) with ⟨hl, he⟩ | ⟨th, f, _, hl, he, _⟩
        · rw [hl, he]; exact h
        · rw [hl, he, h]; simp
      · cases hr

/-- The publishing step of a commit: the thread must hold the manifest lock with the changeset
phase A prepared, the records are appended once, and the lock state is cleared — a second
publish needs a new phase A. -/
theorem exactly_once {k k' : K} {th : Tid} (hc : kCommitB k th = some k') :
    ∃ f, k.infl = some (th, f) ∧ k'.log = k.log ++ [f.recs] ∧ k'.infl = none
      ∧ kCommitB k' th = none := by
  simp only [kCommitB] at hc
  split at hc
  · cases hc
  rename_i hh f hi
  split at hc
  case isFalse => cases hc
  rename_i hcond
  cases hc
  obtain ⟨h1, _⟩ := hcond
  subst h1
  exact ⟨f, hi, rfl, rfl, by simp [kCommitB]⟩

example : (stateOf wFull).k.epoch = (stateOf wFull).k.log.length + 1 :=
  epoch_counts_commits wFull rfl (run_stateOf (by decide))

/-! ### serializable_partial: linearization points of the restricted fragment -/

/-- For sessions restricted to INSERT, SELECT (count) and CREATE/DROP of distinct names every
statement takes effect atomically at one point of the schedule, whatever is interleaved:
* nothing but the publishing step of a commit changes any table (`frame`);
* a SELECT reads the snapshot current at its pin, unchanged until it finishes (`select`);
* the publishing step of an INSERT adds exactly its rows to its table and nothing else (`insert`).
Hence the order of these points is a serial order explaining every result.  (The statement about
*whole runs* — existence of the permutation — is checked by enumeration in the harness for
≤ 3 sessions × ≤ 3 statements; the three facts hold for any number of sessions.) -/
theorem serializable_partial {k : K} (h : KInv k) :
    (∀ k', KStep k k' → k'.epoch = k.epoch → ∀ t, curRows k' t = curRows k t)
    ∧ (∀ p ∈ k.pins, ∀ k', KStep k k' → ∀ t,
        rowsAt? k'.pool (k'.status p.2) t = rowsAt? k.pool (k.status p.2) t)
    ∧ (∀ th t n vs k1 k2, deadPos (k.status k.epoch) (t, n) = [] →
        kCommitA k th [.add (t, n) vs] = some k1 → kCommitB k1 th = some k2 →
        (∀ r, curRows k t = some r → curRows k2 t = some (vs ++ r))
        ∧ ∀ t', t' ≠ t → curRows k2 t' = curRows k t') :=
  ⟨fun _ st he t => frame_other_steps h st he t,
   fun _ hp _ st t => kstep_stable h st hp t,
   fun _ _ _ _ _ _ hd hA hB => insert_commit_exact h hd hA hB⟩

/-! ### no_panic_partial -/

theorem applyOp_total (s : Snap) (o : Op) : ∃ s', applyOp s o = some s' := by
  cases o <;> exact ⟨_, rfl⟩

/-- Since /repo 6efcfe7 (`Snapshot::delete_rowset` / `delete_dv` tolerate a missing entry) phase A
of a commit succeeds on EVERY changeset over EVERY snapshot — whatever a concurrent DROP TABLE or
compaction removed in the meantime. -/
theorem applyOps_total : ∀ (ops : List Op) (s : Snap), (applyOps s ops).isSome = true
  | [], _ => rfl
  | o :: r, s => by
      obtain ⟨s1, h1⟩ := applyOp_total s o
      simp only [applyOps, h1]
      exact applyOps_total r s1

/-- ... so the panicking variant of phase A is never enabled. -/
theorem commitA_never_panics (k : K) (th : Tid) (ops : List Op) : kCommitAPanic k th ops = none := by
  simp only [kCommitAPanic]
  split
  · rfl
  split
  · rfl
  split
  · rfl
  · rename_i hn
    have := applyOps_total ops (k.status k.epoch)
    rw [hn] at this
    cases this

theorem dvDels_nil {sp : Snap} (h : sp.dvs = []) (sel : List Key) : dvDels sp sel = [] := by
  simp only [dvDels, h, List.filter_nil, List.map_nil]
  induction sel with
  | nil => rfl
  | cons _ r ih => simpa using ih

/-- The modelled `assert!` / `unwrap` sites of the storage engine are unreachable in EVERY
schedule (no restriction any more since /repo 6efcfe7): the epoch-continuity assert of phase B,
`get_rowset(..).unwrap()` on a pinned snapshot, and the `unwrap`s of `Snapshot::delete_rowset` /
`delete_dv` in phase A.  (Kept under its old name; what is still restricted is the panic in
`executor::Builder::new` was removed by /repo 25ba285, see `panic_never_enabled`.) -/
theorem no_panic_partial {s : Sys} (h : Inv s) :
    (∀ th f, s.k.infl = some (th, f) → f.base = s.k.epoch)
    ∧ (∀ p ∈ s.k.pins, ∀ t, ∃ rows, rowsAt? s.k.pool (s.k.status p.2) t = some rows)
    ∧ (∀ (snap : Snap) (ops : List Op), (applyOps snap ops).isSome = true)
    ∧ (∀ th ops, kCommitAPanic s.k th ops = none) :=
  ⟨fun _ _ hi => assert_epoch_unreachable h hi,
   fun _ hp t => (no_missing_file h hp t).1,
   fun snap ops => applyOps_total ops snap,
   fun th ops => commitA_never_panics s.k th ops⟩

/-! ### what the restriction excludes: schedules of the real implementation -/

/-- Two `CREATE TABLE t3` both pass the binder's existence check; both log a CreateTable record;
the second fails when applying to the catalog. -/
def createCreateSchedule : List Act :=
  [.cmdBegin (0,0) (.create 1), .bound (0,0), .lockBegin (0,1), .commitBegin (0,1),
   .commitA (0,1), .append (0,1), .committed (0,1), .createApplied (0,1), .cmdDone (0,0),
   .cmdBegin (1,0) (.create 3), .cmdBegin (2,0) (.create 3), .pin (1,0), .txnPinned (1,0) .ro 0,
   .unpin (1,0) 2, .bound (1,0), .pin (2,0), .txnPinned (2,0) .ro 0, .unpin (2,0) 2, .bound (2,0),
   .lockBegin (1,1), .commitBegin (1,1), .commitA (1,1), .append (1,1), .committed (1,1),
   .createApplied (1,1), .cmdDone (1,0), .lockBegin (2,1), .cmdDone (2,0)]

/-- REGRESSION INPUT (was `sched:drop-vs-compaction-empty-output-panic`, fixed in /repo 6efcfe7):
`DROP TABLE t1` commits while the compactor (all rows of t1 deleted: empty output, only
DeleteRowSet / DeleteDV ops) is between selecting its inputs and committing.  Trace of the fixed
implementation. -/
def dropVsCompactionSchedule : List Act :=
  [.cmdBegin (0,0) (.create 1), .bound (0,0), .commitBegin (0,1), .commitA (0,1), .append (0,1),
   .committed (0,1), .createApplied (0,1), .cmdDone (0,0), .cmdBegin (0,0) (.insert 1 [1, 2]),
   .pin (0,0), .txnPinned (0,0) .ro 0, .unpin (0,0) 2, .bound (0,0), .pin (0,2),
   .txnPinned (0,2) .rw 0, .commitBegin (0,2), .commitA (0,2), .append (0,2), .committed (0,2),
   .unpin (0,2) 2, .cmdDone (0,0), .cmdBegin (0,0) (.insert 1 [3]), .pin (0,0),
   .txnPinned (0,0) .ro 0, .unpin (0,0) 3, .bound (0,0), .pin (0,3), .txnPinned (0,3) .rw 0,
   .commitBegin (0,3), .commitA (0,3), .append (0,3), .committed (0,3), .unpin (0,3) 3,
   .cmdDone (0,0), .cmdBegin (0,0) (.delete 1 .all 0), .pin (0,0), .txnPinned (0,0) .ro 0,
   .unpin (0,0) 4, .bound (0,0), .pin (0,4), .txnPinned (0,4) .ro 0, .lockBegin (0,5),
   .unpin (0,4) 4, .pin (0,5), .txnPinned (0,5) .upd 0, .txnLocked (0,5), .commitBegin (0,5),
   .commitA (0,5), .append (0,5), .committed (0,5), .unpin (0,5) 4, .cmdDone (0,0),
   .cmdBegin (1,0) .compact, .cmdBegin (2,0) (.drop 1), .cpPinned (1,0), .cpTable (1,0) 0,
   .pin (1,0), .cpLocked (1,0) 0, .commitBegin (1,0), .pin (2,0), .txnPinned (2,0) .ro 0,
   .unpin (2,0) 5, .bound (2,0), .dropApplied (2,1), .commitA (1,0), .append (1,0),
   .committed (1,0), .unpin (1,0) 5, .cpEnd (1,0), .cmdDone (1,0), .pin (2,1), .commitBegin (2,1),
   .commitA (2,1), .append (2,1), .committed (2,1), .unpin (2,1) 6, .cmdDone (2,0)]

/-- `INSERT INTO t1` has pinned and written its row-set; `DROP TABLE t1` commits; the INSERT
commits afterwards. -/
def dropVsInsertSchedule : List Act :=
  [.cmdBegin (0,0) (.create 1), .bound (0,0), .lockBegin (0,1), .commitBegin (0,1),
   .commitA (0,1), .append (0,1), .committed (0,1), .createApplied (0,1), .cmdDone (0,0),
   .cmdBegin (0,0) (.insert 1 [1]), .pin (0,0), .txnPinned (0,0) .ro 0, .unpin (0,0) 2,
   .bound (0,0), .pin (0,2), .txnPinned (0,2) .rw 0, .commitBegin (0,2), .commitA (0,2),
   .append (0,2), .committed (0,2), .unpin (0,2) 2, .cmdDone (0,0),
   .cmdBegin (1,0) (.insert 1 [2]), .cmdBegin (2,0) (.drop 1), .pin (1,0), .txnPinned (1,0) .ro 0,
   .unpin (1,0) 3, .bound (1,0), .pin (1,1), .txnPinned (1,1) .rw 0, .commitBegin (1,1),
   .pin (2,0), .txnPinned (2,0) .ro 0, .unpin (2,0) 3, .bound (2,0), .dropApplied (2,1),
   .pin (2,1), .commitBegin (2,1), .commitA (2,1), .append (2,1), .committed (2,1),
   .unpin (2,1) 3, .cmdDone (2,0), .unpin (1,1) 3, .cmdDone (1,0)]

def createRecords (acts : List Act) (n : Nat) : Nat :=
  (((stateOf acts).k.log.flatMap id).filter (fun o => match o with
    | .create m => m == n
    | _ => false)).length

def resultsOf (acts : List Act) : List (Nat × Bool) :=
  (stateOf acts).outs.map (fun o => (o.1.1, match o.2.2 with | .rows _ => true | .ok => true | _ => false))

/-- REGRESSION (was `sched:create-create-same-name`, fixed in /repo 60f6d7f): both sessions pass
the binder, but CREATE TABLE now checks the name again under the DDL lock before logging: one
CreateTable record, one session acknowledged, the other gets "duplicated" — and the manifest
replays. -/
theorem create_create_regression :
    (run init createCreateSchedule).isSome = true
    ∧ createRecords createCreateSchedule 3 = 1
    ∧ ((stateOf createCreateSchedule).catalog.filter (fun p => p.1 == 3)).length = 1
    ∧ (resultsOf createCreateSchedule).filter (fun r => r.1 != 0) = [(1, true), (2, false)] := by
  decide

def panicked (acts : List Act) : Bool :=
  (stateOf acts).outs.any (fun o => match o.2.2 with | .panic => true | _ => false)

/-- The compaction's phase A now treats the `DeleteRowSet`s of the dropped table as no-ops: no
panic, both commands acknowledged, nothing of the table left in the snapshot. -/
theorem drop_vs_compaction_regression :
    (run init dropVsCompactionSchedule).isSome = true ∧ panicked dropVsCompactionSchedule = false
    ∧ (stateOf dropVsCompactionSchedule).tables = []
    ∧ ((stateOf dropVsCompactionSchedule).k.status (stateOf dropVsCompactionSchedule).k.epoch).rs = []
    ∧ (resultsOf dropVsCompactionSchedule).filter (fun r => r.1 != 0) = [(1, true), (2, true)] := by
  decide

/-- REGRESSION (was `sched:drop-vs-dml-commit-orphan`, fixed in /repo c955db2): `commit_changes`
refuses the INSERT's row-set because DROP TABLE marked the table before it pinned: the INSERT
fails (not acknowledged), the DROP is acknowledged, nothing of the table is left in the snapshot
or the manifest beyond the DROP's own records. -/
theorem drop_vs_insert_regression :
    (run init dropVsInsertSchedule).isSome = true
    ∧ (stateOf dropVsInsertSchedule).tables = []
    ∧ ((stateOf dropVsInsertSchedule).k.status (stateOf dropVsInsertSchedule).k.epoch).rs = []
    ∧ (resultsOf dropVsInsertSchedule).filter (fun r => r.1 != 0) = [(2, true), (1, false)] := by
  decide

/-- REGRESSION INPUT (was `sched:drop-vs-compaction-delete-dv-panic`, fixed in /repo 6efcfe7):
`DROP TABLE t1` pinned a snapshot in which row-set 0_0 carries a delete vector and built its
changeset (`DeleteDV 0_0 dv0`) from it; a compaction pass that had started before commits in
between and deletes that delete vector together with the row-sets.  Trace of the fixed
implementation. -/
def dropDvVsCompactionSchedule : List Act :=
  [.cmdBegin (0,0) (.create 1), .bound (0,0), .commitBegin (0,1), .commitA (0,1), .append (0,1),
   .committed (0,1), .createApplied (0,1), .cmdDone (0,0), .cmdBegin (0,0) (.insert 1 [1, 2]),
   .pin (0,0), .txnPinned (0,0) .ro 0, .unpin (0,0) 2, .bound (0,0), .pin (0,2),
   .txnPinned (0,2) .rw 0, .commitBegin (0,2), .commitA (0,2), .append (0,2), .committed (0,2),
   .unpin (0,2) 2, .cmdDone (0,0), .cmdBegin (0,0) (.insert 1 [3, 4]), .pin (0,0),
   .txnPinned (0,0) .ro 0, .unpin (0,0) 3, .bound (0,0), .pin (0,3), .txnPinned (0,3) .rw 0,
   .commitBegin (0,3), .commitA (0,3), .append (0,3), .committed (0,3), .unpin (0,3) 3,
   .cmdDone (0,0), .cmdBegin (0,0) (.delete 1 .lt 3), .pin (0,0), .txnPinned (0,0) .ro 0,
   .unpin (0,0) 4, .bound (0,0), .pin (0,4), .txnPinned (0,4) .ro 0, .lockBegin (0,5),
   .unpin (0,4) 4, .pin (0,5), .txnPinned (0,5) .upd 0, .txnLocked (0,5), .commitBegin (0,5),
   .commitA (0,5), .append (0,5), .committed (0,5), .unpin (0,5) 4, .cmdDone (0,0),
   .cmdBegin (1,0) (.drop 1), .cmdBegin (2,0) .compact, .cpPinned (2,0), .pin (1,0),
   .txnPinned (1,0) .ro 0, .unpin (1,0) 5, .bound (1,0), .dropApplied (1,1), .pin (1,1),
   .commitBegin (1,1), .cpTable (2,0) 0, .cpEnd (2,0), .cmdDone (2,0), .commitA (1,1),
   .append (1,1), .committed (1,1), .unpin (1,1) 5, .cmdDone (1,0)]

/-- Since /repo 504f23d DROP TABLE holds the table's deletion lock while it pins, builds its
changeset and commits: the compaction that had started before cannot lock the table until the DROP
is done, then pins a snapshot without the table and does nothing.  No panic, the DROP is logged,
nothing of the table is left in the snapshot (the orphan row-set of
`sched:drop-vs-compaction-orphan-rowset` is gone too). -/
theorem drop_dv_vs_compaction_regression :
    (run init dropDvVsCompactionSchedule).isSome = true
    ∧ panicked dropDvVsCompactionSchedule = false
    ∧ (stateOf dropDvVsCompactionSchedule).tables = []
    ∧ (((stateOf dropDvVsCompactionSchedule).k.log.flatMap id).filter (fun o => match o with
        | .drop _ => true
        | _ => false)).length = 1
    ∧ ((stateOf dropDvVsCompactionSchedule).k.status (stateOf dropDvVsCompactionSchedule).k.epoch).rs
        = [] := by
  decide

/-- Two sessions `DROP TABLE t1`: both bound before either applies; the second one's executors
are built for a table that is gone. -/
def dropDropSchedule : List Act :=
  [.cmdBegin (0,0) (.create 1), .bound (0,0), .commitBegin (0,1), .commitA (0,1), .append (0,1),
   .committed (0,1), .createApplied (0,1), .cmdDone (0,0), .cmdBegin (0,0) (.insert 1 [1]),
   .pin (0,0), .txnPinned (0,0) .ro 0, .unpin (0,0) 2, .bound (0,0), .pin (0,2),
   .txnPinned (0,2) .rw 0, .commitBegin (0,2), .commitA (0,2), .append (0,2), .committed (0,2),
   .unpin (0,2) 2, .cmdDone (0,0), .cmdBegin (1,0) (.drop 1), .cmdBegin (2,0) (.drop 1),
   .pin (1,0), .txnPinned (1,0) .ro 0, .unpin (1,0) 3, .bound (1,0), .pin (2,0),
   .txnPinned (2,0) .ro 0, .unpin (2,0) 3, .bound (2,0), .dropApplied (1,1), .pin (1,1),
   .commitBegin (1,1), .commitA (1,1), .append (1,1), .committed (1,1), .unpin (1,1) 3,
   .cmdDone (1,0), .cmdDone (2,0)]

/-- REGRESSION (was `sched:drop-vs-bound-statement-panic`, fixed in /repo 25ba285): the second
`DROP TABLE t1` fails with "table not found" — no panic, one DropTable record. -/
theorem drop_drop_regression :
    (run init dropDropSchedule).isSome = true ∧ panicked dropDropSchedule = false
    ∧ (resultsOf dropDropSchedule).filter (fun r => r.1 != 0) = [(1, true), (2, false)]
    ∧ (((stateOf dropDropSchedule).k.log.flatMap id).filter (fun o => match o with
        | .drop _ => true
        | _ => false)).length = 1 := by
  decide

/-- No modelled panic site is reachable any more: the `panic` segment is never enabled, in any
state (phase A cannot panic since /repo 6efcfe7, building the executors of a statement whose
table was dropped since /repo 25ba285). -/
theorem panic_never_enabled (s : Sys) (th : Tid) : astep s (.panic th) = none := by
  simp only [astep, stepPanic, commitA_never_panics]
  split <;> rfl


/-! ### whole-run serializability of the restricted fragment

Statement set: INSERT, SELECT, CREATE TABLE (any number of sessions, tables, statements; reads,
pins, vacuum passes and id allocation interleaved at will).  The serial order is the **manifest
order**: in every reachable state every table holds exactly what executing the published
changesets one after the other, in the order the manifest lists them, produces; and a SELECT
returns what that sequential execution had produced when the SELECT pinned.  (Per-session order:
a session issues its next statement only after `cmd.done` of the previous one, and a statement's
publishing step lies between its `cmd.begin` and `cmd.done`, so the manifest order extends every
session's order.) -/

/-- sequential meaning of one published changeset on table contents -/
def specAfter (recs : List Op) (spec : Nat → List Int) : Nat → List Int :=
  match recs with
  | [.add (t, _) vs] => fun t' => if t' = t then vs ++ spec t' else spec t'
  | _ => spec

/-- sequential execution of the manifest -/
def specOfLog (log : List (List Op)) : Nat → List Int :=
  log.foldl (fun sp recs => specAfter recs sp) (fun _ => [])

theorem specOfLog_snoc (log : List (List Op)) (recs : List Op) :
    specOfLog (log ++ [recs]) = specAfter recs (specOfLog log) := by
  simp [specOfLog, List.foldl_append]

/-- changesets of the fragment -/
def shapeOk : List Op → Bool
  | [.add _ _] => true
  | [.create _] => true
  | _ => false

/-- kernel operations of the fragment: everything except phase A of other changesets and the
phase-A panic -/
inductive RStep : K → K → Prop where
  | refl (k : K) : RStep k k
  | pin (k : K) (th : Tid) : RStep k (kPin k th)
  | unpin (k : K) (th : Tid) (e : Nat) (h : (th, e) ∈ k.pins) : RStep k (kUnpin k th e)
  | reserve (k : K) (th : Tid) (t : Nat) : RStep k (kReserve k th t)
  | find (k : K) (th : Tid) : RStep k (kFind k th)
  | unlink (k : K) (th : Tid) (ed : Nat) (key : Key) (h : (th, ed, key) ∈ k.uq) :
      RStep k (kUnlink k th ed key)
  | abandon (k : K) (th : Tid) : RStep k (kAbandon k th)
  | allocDv (k : K) (n : Nat) : RStep k (kAllocDv k n)
  | commitAIns (k k' : K) (th : Tid) (t n : Nat) (vs : List Int)
      (h : kCommitA k th [.add (t, n) vs] = some k') : RStep k k'
  | commitACreate (k k' : K) (th : Tid) (n : Nat) (h : kCommitA k th [.create n] = some k') :
      RStep k k'
  | commitB (k k' : K) (th : Tid) (h : kCommitB k th = some k') : RStep k k'

theorem rstep_kstep : ∀ {k k' : K}, RStep k k' → KStep k k'
  | _, _, .refl _ => .refl _
  | _, _, .pin _ th => .pin _ th
  | _, _, .unpin _ th e h => .unpin _ th e h
  | _, _, .reserve _ th t => .reserve _ th t
  | _, _, .find _ th => .find _ th
  | _, _, .unlink _ th ed key h => .unlink _ th ed key h
  | _, _, .abandon _ th => .abandon _ th
  | _, _, .allocDv _ n => .allocDv _ n
  | _, _, .commitAIns _ _ th _ _ _ h => .commitA _ _ th _ h
  | _, _, .commitACreate _ _ th _ h => .commitA _ _ th _ h
  | _, _, .commitB _ _ th h => .commitB _ _ th h

/-- The serializability invariant: the tables are the sequential execution of the manifest, and
the in-flight commit (between phase A and phase B) will make them the sequential execution of
the manifest extended by its changeset. -/
structure SerInv (k : K) : Prop where
  cur : ∀ t, curRows k t = some (specOfLog k.log t)
  infl : ∀ th f, k.infl = some (th, f) →
    ∀ t, rowsAt? k.pool f.snap t = some (specAfter f.recs (specOfLog k.log) t)

theorem serinv_init : SerInv ({} : K) :=
  ⟨fun _ => rfl, fun _ _ hf => by cases hf⟩

theorem commitA_fields {k k1 : K} {th : Tid} {ops : List Op} (hA : kCommitA k th ops = some k1) :
    ∃ snap', applyOps (k.status k.epoch) ops = some snap' ∧ opsOk k th ops = true
      ∧ k1.infl = some (th, { base := k.epoch, snap := snap', dels := delKeys ops, recs := ops })
      ∧ k1.pool = poolAdds ops ++ k.pool ∧ k1.log = k.log ∧ k1.epoch = k.epoch
      ∧ k1.status = k.status := by
  simp only [kCommitA] at hA
  split at hA
  · cases hA
  split at hA
  · cases hA
  rename_i _ hok
  have hok : opsOk k th ops = true := by simpa using hok
  split at hA
  · cases hA
  rename_i snap' hsnap
  cases hA
  exact ⟨snap', hsnap, hok, rfl, rfl, rfl, rfl, rfl⟩

theorem serinv_rstep {k k' : K} (h : KInv k) (hd : DvInv k) (hs : SerInv k) (st : RStep k k') :
    SerInv k' := by
  cases st with
  | refl => exact hs
  | pin th => exact ⟨hs.cur, hs.infl⟩
  | unpin th e hm => exact ⟨hs.cur, hs.infl⟩
  | reserve th t => exact ⟨hs.cur, hs.infl⟩
  | unlink th ed key hm => exact ⟨hs.cur, hs.infl⟩
  | abandon th => exact ⟨hs.cur, hs.infl⟩
  | allocDv n => exact ⟨hs.cur, hs.infl⟩
  | find th =>
      refine ⟨fun t => ?_, fun th' f hf t => ?_⟩
      · rw [frame_other_steps h (.find k th) rfl t]; exact hs.cur t
      · have hf' : k.infl = some (th', f) := hf
        show rowsAt? (kFind k th).pool f.snap t = some (specAfter f.recs (specOfLog k.log) t)
        rw [← hs.infl th' f hf' t]
        apply rowsAt?_congr
        intro key hk
        simp only [kFind]
        apply lookupPool_filter
        intro pe _ hpk
        simp only [Bool.not_eq_true', List.contains_eq_mem, decide_eq_false_iff_not, List.mem_map,
          not_exists, not_and]
        intro q hq heq
        have hq' := mem_takenUpTo.mp hq
        rw [heq, hpk] at hq'
        exact (h.infl_ok th' f hf').2.2.1 q.1 key hq'.2 hk
  | commitB _ th hc =>
      simp only [kCommitB] at hc
      split at hc
      · cases hc
      rename_i hh f hi
      split at hc
      case isFalse => cases hc
      cases hc
      refine ⟨fun t => ?_, fun _ _ hf => by cases hf⟩
      simp only [curRows, if_true, specOfLog_snoc]
      exact hs.infl hh f hi t
  | commitACreate _ th n hc =>
      have hfr := fun t => frame_other_steps h (.commitA k _ th _ hc) (by
        simp only [kCommitA] at hc
        split at hc
        · cases hc
        split at hc
        · cases hc
        split at hc
        · cases hc
        cases hc; rfl) t
      simp only [kCommitA] at hc
      split at hc
      · cases hc
      split at hc
      · cases hc
      split at hc
      · cases hc
      rename_i snap' hsnap
      simp only [applyOps, applyOp, Option.some.injEq] at hsnap
      subst hsnap
      cases hc
      refine ⟨fun t => ?_, fun th' f hf t => ?_⟩
      · exact (hfr t).trans (hs.cur t)
      · cases hf
        exact hs.cur t
  | commitAIns _ th t n vs hc =>
      obtain ⟨snap', hsnap, hok, hinfl, hpool, hlog, hep, hstat⟩ := commitA_fields hc
      have hcur : ∀ t', curRows k' t' = curRows k t' := fun t' =>
        frame_other_steps h (.commitA k k' th _ hc) hep t'
      refine ⟨fun t' => by rw [hlog]; exact (hcur t').trans (hs.cur t'), fun th' f hf t' => ?_⟩
      rw [hinfl] at hf
      cases hf
      rw [hlog]
      have hnodv := reserved_no_dv hd
        (opsOk_add hok (by simp [addKeys] : (t, n) ∈ addKeys [.add (t, n) vs]))
      -- phase B right after this phase A would publish exactly `snap'` over the same pool
      cases hB : kCommitB k' th with
      | none => simp [kCommitB, hinfl, hep] at hB
      | some k2 =>
          obtain ⟨e1, e2⟩ := insert_commit_exact h hnodv hc hB
          obtain ⟨snap2, hsnap2, _, he2, hst2, hpool2⟩ := commit_result hc hB
          rw [hsnap] at hsnap2
          cases hsnap2
          have hk2 : ∀ t'', curRows k2 t'' = rowsAt? k'.pool snap' t'' := by
            intro t''
            simp only [curRows, he2, hst2, hpool2, hpool]
          rw [← hk2 t']
          by_cases htt : t' = t
          · subst htt
            simp only [specAfter, if_true]
            exact e1 _ (hs.cur t')
          · simp only [specAfter, htt, if_false]
            rw [e2 t' htt]
            exact hs.cur t'

/-- an action of the fragment: phase A only with an INSERT- or CREATE-shaped changeset, no panic -/
def restrictedAct (s : Sys) : Act → Bool
  | .commitA th => shapeOk (getTh s th).ops
  | .panic _ => false
  | _ => true

macro "rstep_close" : tactic => `(tactic| (
  first
  | exact RStep.refl _
  | exact RStep.pin _ _
  | exact RStep.reserve _ _ _
  | exact RStep.find _ _
  | exact RStep.abandon _ _
  | exact RStep.allocDv _ _
  | (apply RStep.unpin; assumption)
  | (apply RStep.commitB; assumption)))

macro "rstep_auto" : tactic => `(tactic| (
  repeat' (split at ‹_ = some _›)
  all_goals (first | (cases ‹_ = some _›; done) | skip)
  all_goals (cases ‹_ = some _›)
  all_goals (try simp only [setTh_k, unlockAll_k, unlockActor_k, withK_k])
  all_goals rstep_close))

/-- every atomic segment of the fragment is one kernel operation of the fragment -/
theorem astep_rstep {s s' : Sys} {a : Act} (hr : restrictedAct s a = true)
    (h : astep s a = some s') : RStep s.k s'.k := by
  cases a <;> simp only [astep] at h
  case config big => cases h; exact RStep.refl _
  case cmdBegin th c => simp only [stepCmdBegin] at h; rstep_auto
  case bound th => simp only [stepBound] at h; rstep_auto
  case pin th => simp only [stepPin] at h; rstep_auto
  case unpin th e =>
    simp only [stepUnpin] at h
    split at h
    · cases h
    rename_i hc
    have hm : (th, e) ∈ s.k.pins := by simpa using hc
    rstep_auto
  case txnPinned th m t => simp only [stepTxnPinned] at h; rstep_auto
  case txnLocked th => simp only [stepTxnLocked] at h; rstep_auto
  case lockBegin th => simp only [stepLockBegin] at h; rstep_auto
  case scanBatch th n => simp only [stepScanBatch] at h; rstep_auto
  case commitBegin th => simp only [stepCommitBegin] at h; rstep_auto
  case commitA th =>
    simp only [restrictedAct] at hr
    simp only [stepCommitA] at h
    split at h
    · cases h
    split at h
    · rename_i k' hk
      cases h
      simp only [withK_k]
      cases hops : (getTh s th).ops with
      | nil => simp [hops, shapeOk] at hr
      | cons o r =>
        cases r with
        | cons o2 r2 => cases o <;> simp [hops, shapeOk] at hr
        | nil =>
          rw [hops] at hk
          cases o with
          | add key vs => exact RStep.commitAIns _ _ th key.1 key.2 vs hk
          | create n => exact RStep.commitACreate _ _ th n hk
          | drop _ => simp [hops, shapeOk] at hr
          | del _ => simp [hops, shapeOk] at hr
          | addDv _ _ _ => simp [hops, shapeOk] at hr
          | delDv _ _ => simp [hops, shapeOk] at hr
    · cases h
  case append th => simp only [stepAppend] at h; rstep_auto
  case committed th => simp only [stepCommitted] at h; rstep_auto
  case createApplied th => simp only [stepCreateApplied] at h; rstep_auto
  case dropApplied th => simp only [stepDropApplied] at h; rstep_auto
  case cpPinned th => simp only [stepCpPinned] at h; rstep_auto
  case cpTable th t => simp only [stepCpTable] at h; rstep_auto
  case cpLocked th t => simp only [stepCpLocked] at h; rstep_auto
  case cpEnd th => simp only [stepCpEnd] at h; rstep_auto
  case vacFind th => simp only [stepVacFind] at h; rstep_auto
  case vacUnlinked th key =>
    simp only [stepVacUnlinked] at h
    split at h
    · rename_i q hq
      have hq1 := List.find?_some hq
      have hq2 := List.mem_of_find?_eq_some hq
      simp only [Bool.and_eq_true, beq_iff_eq] at hq1
      have hm : (th, q.2.1, key) ∈ s.k.uq := by
        obtain ⟨a, b⟩ := hq1
        have : q = (th, q.2.1, key) := by
          rcases q with ⟨q1, q2, q3⟩
          simp only at a b ⊢
          rw [a, b]
        rw [← this]; exact hq2
      split at h
      · cases h
        simp only [withK_k]
        exact RStep.unlink _ _ _ _ hm
      · cases h
    · cases h
  case rdOpen th => simp only [stepRdOpen] at h; rstep_auto
  case rdBatch th n => simp only [stepRdBatch] at h; rstep_auto
  case cmdDone th => simp only [stepCmdDone] at h; rstep_auto
  case panic th => simp [restrictedAct] at hr

/-- every action of the schedule is an action of the fragment (in the state where it runs) -/
def restrictedRun : Sys → List Act → Bool
  | _, [] => true
  | s, a :: r => restrictedAct s a && (match astep s a with
      | some s' => restrictedRun s' r
      | none => true)

/-- **Whole-run serializability (INSERT / SELECT / CREATE).**  Along every schedule of the
fragment — any number of sessions, threads and steps — the serializability invariant holds. -/
theorem serializable_run : ∀ (acts : List Act) {s s' : Sys}, Inv s → DvInv s.k → SerInv s.k →
    restrictedRun s acts = true → run s acts = some s' → SerInv s'.k
  | [], s, s', _, _, hs, _, hr => by simp only [run] at hr; cases hr; exact hs
  | a :: r, s, s', h, hd, hs, hres, hr => by
      simp only [run] at hr
      simp only [restrictedRun, Bool.and_eq_true] at hres
      split at hr
      · rename_i s1 h1
        have hres2 := hres.2
        simp only [h1] at hres2
        have st := astep_rstep hres.1 h1
        exact serializable_run r (inv_step h h1) (dvinv_kstep h hd (rstep_kstep st))
          (serinv_rstep h hd hs st) hres2 hr
      · cases hr

/-- In every state reachable by a schedule of the fragment, every table holds exactly the
sequential execution of the manifest (= the acknowledged INSERTs in publishing order). -/
theorem serializable_restricted {acts : List Act} {s : Sys} (hres : restrictedRun init acts = true)
    (hr : run init acts = some s) : ∀ t, curRows s.k t = some (specOfLog s.k.log t) :=
  (serializable_run acts inv_init dvinv_init serinv_init hres hr).cur

/-- ... and a SELECT that pinned in such a state returns, whenever it finishes and whatever
commits in between, the sequential execution of the manifest as it was when it pinned. -/
theorem select_serial {acts1 acts2 : List Act} {s1 s2 : Sys} {p : Tid × Nat}
    (hres : restrictedRun init acts1 = true) (hr1 : run init acts1 = some s1)
    (hp : p.2 = s1.k.epoch) (hr2 : run s1 acts2 = some s2) (hheld : HeldAlong p s1 acts2) (t : Nat) :
    rowsAt? s2.k.pool (s2.k.status p.2) t = some (specOfLog s1.k.log t) := by
  rw [reader_sees_start_snapshot acts2 (inv_reachable_init acts1 hr1) hr2 hheld t, hp]
  exact serializable_restricted hres hr1 t

-- non-vacuity: three inserts' worth of schedule with an overlapping reader, compaction excluded
example : restrictedRun init (wSetup ++ wReadPin ++ wIns 4 4 [9] ++ wReadEnd 4) = true := by decide

example : curRows (stateOf (wSetup ++ wReadPin ++ wIns 4 4 [9] ++ wReadEnd 4)).k 0 = some [9, 3, 1, 2] := by
  decide

-- the compaction witness of C09 is outside the fragment
example : restrictedRun init wPinThenCompact = false := by decide

end SC
end RlModel
