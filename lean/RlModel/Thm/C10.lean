/-
C10 — Concurrent sessions behave like some serial order.

FULL STATEMENT (properties.jsonl C10): "every acknowledged statement takes effect exactly once,
each query result is explained by some serial order of the acknowledged statements consistent
with per-session order, no session panics or deadlocks, and the database reopens afterwards."

For the code that exists the unrestricted statement is FALSE; the refutations below are
schedules taken from the real implementation (the check replays them on it):
`create_create_witness`, `drop_vs_compaction_panic_witness`, `drop_vs_insert_witness`
(and C09's two witnesses for DELETE vs compaction).  What is proved for every schedule:
`exactly_once`, `epoch_counts_commits`; and for the restricted fragment {INSERT, SELECT,
CREATE/DROP of distinct names} the per-statement linearization facts `serializable_partial`
and `no_panic_partial`.
-/
import RlModel.Thm.C09

namespace RlModel
namespace SC

/-! ### exactly once -/

/-- A kernel operation either leaves manifest and epoch alone, or is phase B of a commit: it
appends exactly one transaction (the changeset prepared by phase A under the manifest lock) and
advances the epoch by one. -/
theorem log_kstep {k k' : K} (st : KStep k k') :
    (k'.log = k.log ∧ k'.epoch = k.epoch)
    ∨ (∃ th f, k.infl = some (th, f) ∧ k'.log = k.log ++ [f.recs] ∧ k'.epoch = k.epoch + 1
        ∧ k'.infl = none) := by
  cases st with
  | refl => exact Or.inl ⟨rfl, rfl⟩
  | pin th => exact Or.inl ⟨rfl, rfl⟩
  | unpin th e hm => exact Or.inl ⟨rfl, rfl⟩
  | reserve th t => exact Or.inl ⟨rfl, rfl⟩
  | find th => exact Or.inl ⟨rfl, rfl⟩
  | unlink th ed key hm => exact Or.inl ⟨rfl, rfl⟩
  | abandon th => exact Or.inl ⟨rfl, rfl⟩
  | allocDv n => exact Or.inl ⟨rfl, rfl⟩
  | commitA _ th ops hc =>
      left
      simp only [kCommitA] at hc
      split at hc
      · cases hc
      split at hc
      · cases hc
      split at hc
      · cases hc
      cases hc
      exact ⟨rfl, rfl⟩
  | commitAPanic _ th ops hc =>
      left
      simp only [kCommitAPanic] at hc
      split at hc
      · cases hc
      split at hc
      · cases hc
      split at hc
      · cases hc
      cases hc
      exact ⟨rfl, rfl⟩
  | commitB _ th hc =>
      right
      simp only [kCommitB] at hc
      split at hc
      · cases hc
      rename_i hh f hi
      split at hc
      case isFalse => cases hc
      rename_i hcond
      cases hc
      exact ⟨hh, f, hi, rfl, rfl, rfl⟩

/-- Every acknowledged commit's records are in the manifest exactly once: the manifest has one
transaction per published epoch, in every reachable state of every schedule. -/
theorem epoch_counts_commits : ∀ (acts : List Act) {s s' : Sys},
    s.k.epoch = s.k.log.length + 1 → run s acts = some s' → s'.k.epoch = s'.k.log.length + 1
  | [], s, s', h, hr => by simp only [run] at hr; cases hr; exact h
  | a :: r, s, s', h, hr => by
      simp only [run] at hr
      split at hr
      · rename_i s1 h1
        apply epoch_counts_commits r _ hr
        rcases log_kstep (astep_kstep h1) with ⟨hl, he⟩ | ⟨th, f, _, hl, he, _⟩
        · rw [hl, he]; exact h
        · rw [hl, he, h]; simp
      · cases hr

/-- The publishing step of a commit: the thread must hold the manifest lock with the changeset
phase A prepared, the records are appended once, and the lock state is cleared — a second
publish needs a new phase A. -/
theorem exactly_once {k k' : K} {th : Tid} (hc : kCommitB k th = some k') :
    ∃ f, k.infl = some (th, f) ∧ k'.log = k.log ++ [f.recs] ∧ k'.infl = none
      ∧ kCommitB k' th = none := by
  simp only [kCommitB] at hc
  split at hc
  · cases hc
  rename_i hh f hi
  split at hc
  case isFalse => cases hc
  rename_i hcond
  cases hc
  obtain ⟨h1, _⟩ := hcond
  subst h1
  exact ⟨f, hi, rfl, rfl, by simp [kCommitB]⟩

example : (stateOf wFull).k.epoch = (stateOf wFull).k.log.length + 1 :=
  epoch_counts_commits wFull rfl (run_stateOf (by decide))

/-! ### serializable_partial: linearization points of the restricted fragment -/

/-- For sessions restricted to INSERT, SELECT (count) and CREATE/DROP of distinct names every
statement takes effect atomically at one point of the schedule, whatever is interleaved:
* nothing but the publishing step of a commit changes any table (`frame`);
* a SELECT reads the snapshot current at its pin, unchanged until it finishes (`select`);
* the publishing step of an INSERT adds exactly its rows to its table and nothing else (`insert`).
Hence the order of these points is a serial order explaining every result.  (The statement about
*whole runs* — existence of the permutation — is checked by enumeration in the harness for
≤ 3 sessions × ≤ 3 statements; the three facts hold for any number of sessions.) -/
theorem serializable_partial {k : K} (h : KInv k) :
    (∀ k', KStep k k' → k'.epoch = k.epoch → ∀ t, curRows k' t = curRows k t)
    ∧ (∀ p ∈ k.pins, ∀ k', KStep k k' → ∀ t,
        rowsAt? k'.pool (k'.status p.2) t = rowsAt? k.pool (k.status p.2) t)
    ∧ (∀ th t n vs k1 k2, deadPos (k.status k.epoch) (t, n) = [] →
        kCommitA k th [.add (t, n) vs] = some k1 → kCommitB k1 th = some k2 →
        (∀ r, curRows k t = some r → curRows k2 t = some (vs ++ r))
        ∧ ∀ t', t' ≠ t → curRows k2 t' = curRows k t') :=
  ⟨fun _ st he t => frame_other_steps h st he t,
   fun _ hp _ st t => kstep_stable h st hp t,
   fun _ _ _ _ _ _ hd hA hB => insert_commit_exact h hd hA hB⟩

/-! ### no_panic_partial -/

theorem applyOps_insert_some (s : Snap) (key : Key) (vs : List Int) :
    applyOps s [.add key vs] = some { s with rs := key :: s.rs } := rfl

theorem applyOps_dels_some (t n : Nat) : ∀ (dels : List Key) (s : Snap),
    (∀ d ∈ dels, d.1 = t ∧ d ≠ (t, n)) → (t, n) ∈ s.rs →
    (applyOps s (dels.map Op.del)).isSome = true
  | [], _, _, _ => rfl
  | d :: r, s, hd, hm => by
      simp only [List.map_cons, applyOps, applyOp]
      have h1 := hd d List.mem_cons_self
      have hany : (s.rs.any fun x => x.1 == d.1) = true := by
        apply List.any_eq_true.mpr
        exact ⟨(t, n), hm, by simp [h1.1]⟩
      simp only [hany, if_true]
      apply applyOps_dels_some t n r
      · intro x hx; exact hd x (List.mem_cons_of_mem _ hx)
      · apply List.mem_filter.mpr
        refine ⟨hm, ?_⟩
        simp only [bne_iff_ne, ne_eq]
        exact fun hh => h1.2 hh.symm

/-- The changeset of a compaction with a non-empty output (`AddRowSet` of the table first, then
`DeleteRowSet`s of the same table) never hits the `unwrap` in `Snapshot::delete_rowset`, whatever
the current snapshot is (in particular after a concurrent DROP). -/
theorem applyOps_compaction_some (s : Snap) (t n : Nat) (rows : List Int) (dels : List Key)
    (hd : ∀ d ∈ dels, d.1 = t ∧ d ≠ (t, n)) :
    (applyOps s (.add (t, n) rows :: dels.map Op.del)).isSome = true := by
  simp only [applyOps, applyOp]
  exact applyOps_dels_some t n dels _ hd List.mem_cons_self

/-- The modelled `assert!` / `unwrap` sites, for the restricted fragment: the epoch-continuity
assert of phase B and `get_rowset(..).unwrap()` on a pinned snapshot are unreachable in every
schedule; the changesets the fragment produces (insert; compaction with non-empty output — no
DELETE means no empty output) pass phase A without panicking. -/
theorem no_panic_partial {s : Sys} (h : Inv s) :
    (∀ th f, s.k.infl = some (th, f) → f.base = s.k.epoch)
    ∧ (∀ p ∈ s.k.pins, ∀ t, ∃ rows, rowsAt? s.k.pool (s.k.status p.2) t = some rows)
    ∧ (∀ snap key vs, (applyOps snap [.add key vs]).isSome = true)
    ∧ (∀ (snap : Snap) (t n : Nat) (rows : List Int) (dels : List Key),
        (∀ d ∈ dels, d.1 = t ∧ d ≠ (t, n)) →
        (applyOps snap (.add (t, n) rows :: dels.map Op.del)).isSome = true) :=
  ⟨fun _ _ hi => assert_epoch_unreachable h hi,
   fun _ hp t => (no_missing_file h hp t).1,
   fun _ _ _ => rfl,
   fun snap t n rows dels hd => applyOps_compaction_some snap t n rows dels hd⟩

/-! ### what the restriction excludes: schedules of the real implementation -/

/-- Two `CREATE TABLE t3` both pass the binder's existence check; both log a CreateTable record;
the second fails when applying to the catalog. -/
def createCreateSchedule : List Act :=
  [.cmdBegin (0,0) (.create 1), .bound (0,0), .commitBegin (0,1), .commitA (0,1), .append (0,1),
   .committed (0,1), .createApplied (0,1), .cmdDone (0,0), .cmdBegin (1,0) (.create 3),
   .cmdBegin (2,0) (.create 3), .pin (1,0), .txnPinned (1,0) .ro 0, .unpin (1,0) 2, .bound (1,0),
   .pin (2,0), .txnPinned (2,0) .ro 0, .unpin (2,0) 2, .bound (2,0), .commitBegin (1,1),
   .commitA (1,1), .append (1,1), .committed (1,1), .createApplied (1,1), .cmdDone (1,0),
   .commitBegin (2,1), .commitA (2,1), .append (2,1), .committed (2,1), .cmdDone (2,0)]

/-- `DROP TABLE t1` commits while the compactor (all rows of t1 deleted: empty output, only
DeleteRowSet ops) is between selecting its inputs and committing. -/
def dropVsCompactionSchedule : List Act :=
  [.cmdBegin (0,0) (.create 1), .bound (0,0), .commitBegin (0,1), .commitA (0,1), .append (0,1),
   .committed (0,1), .createApplied (0,1), .cmdDone (0,0), .cmdBegin (0,0) (.insert 1 [1, 2]),
   .pin (0,0), .txnPinned (0,0) .ro 0, .unpin (0,0) 2, .bound (0,0), .pin (0,2),
   .txnPinned (0,2) .rw 0, .commitBegin (0,2), .commitA (0,2), .append (0,2), .committed (0,2),
   .unpin (0,2) 2, .cmdDone (0,0), .cmdBegin (0,0) (.insert 1 [3]), .pin (0,0),
   .txnPinned (0,0) .ro 0, .unpin (0,0) 3, .bound (0,0), .pin (0,3), .txnPinned (0,3) .rw 0,
   .commitBegin (0,3), .commitA (0,3), .append (0,3), .committed (0,3), .unpin (0,3) 3,
   .cmdDone (0,0), .cmdBegin (0,0) (.delete 1 .all 0), .pin (0,0), .txnPinned (0,0) .ro 0,
   .unpin (0,0) 4, .bound (0,0), .pin (0,4), .txnPinned (0,4) .ro 0, .pin (0,5),
   .txnPinned (0,5) .upd 0, .unpin (0,4) 4, .txnLocked (0,5), .commitBegin (0,5), .commitA (0,5),
   .append (0,5), .committed (0,5), .unpin (0,5) 4, .cmdDone (0,0), .cmdBegin (1,0) .compact,
   .cmdBegin (2,0) (.drop 1), .pin (1,0), .cpPinned (1,0), .cpTable (1,0) 0, .cpLocked (1,0) 0,
   .commitBegin (1,0), .pin (2,0), .txnPinned (2,0) .ro 0, .unpin (2,0) 5, .bound (2,0),
   .dropApplied (2,1), .pin (2,1), .commitBegin (2,1), .commitA (2,1), .append (2,1),
   .committed (2,1), .unpin (2,1) 5, .cmdDone (2,0), .panic (1,0), .unpin (1,0) 5, .cmdDone (1,0)]

/-- `INSERT INTO t1` has pinned and written its row-set; `DROP TABLE t1` commits; the INSERT
commits afterwards. -/
def dropVsInsertSchedule : List Act :=
  [.cmdBegin (0,0) (.create 1), .bound (0,0), .commitBegin (0,1), .commitA (0,1), .append (0,1),
   .committed (0,1), .createApplied (0,1), .cmdDone (0,0), .cmdBegin (0,0) (.insert 1 [1]),
   .pin (0,0), .txnPinned (0,0) .ro 0, .unpin (0,0) 2, .bound (0,0), .pin (0,2),
   .txnPinned (0,2) .rw 0, .commitBegin (0,2), .commitA (0,2), .append (0,2), .committed (0,2),
   .unpin (0,2) 2, .cmdDone (0,0), .cmdBegin (1,0) (.insert 1 [2]), .cmdBegin (2,0) (.drop 1),
   .pin (1,0), .txnPinned (1,0) .ro 0, .unpin (1,0) 3, .bound (1,0), .pin (1,1),
   .txnPinned (1,1) .rw 0, .commitBegin (1,1), .pin (2,0), .txnPinned (2,0) .ro 0, .unpin (2,0) 3,
   .bound (2,0), .dropApplied (2,1), .pin (2,1), .commitBegin (2,1), .commitA (2,1),
   .append (2,1), .committed (2,1), .unpin (2,1) 3, .cmdDone (2,0), .commitA (1,1), .append (1,1),
   .committed (1,1), .unpin (1,1) 3, .cmdDone (1,0)]

def createRecords (acts : List Act) (n : Nat) : Nat :=
  (((stateOf acts).k.log.flatMap id).filter (fun o => match o with
    | .create m => m == n
    | _ => false)).length

def resultsOf (acts : List Act) : List (Nat × Bool) :=
  (stateOf acts).outs.map (fun o => (o.1.1, match o.2.2 with | .rows _ => true | .ok => true | _ => false))

/-- Both sessions log a create record for the same name (the manifest then has two, and replaying
it fails with "duplicated table"), one session is acknowledged, the other gets an error. -/
theorem create_create_witness :
    (run init createCreateSchedule).isSome = true
    ∧ createRecords createCreateSchedule 3 = 2
    ∧ ((stateOf createCreateSchedule).catalog.filter (fun p => p.1 == 3)).length = 1
    ∧ (resultsOf createCreateSchedule).filter (fun r => r.1 != 0) = [(1, true), (2, false)] := by
  decide

def panicked (acts : List Act) : Bool :=
  (stateOf acts).outs.any (fun o => match o.2.2 with | .panic => true | _ => false)

/-- The compactor's phase A runs `Snapshot::delete_rowset` on a table entry that the DROP
removed: `unwrap` on `None`. -/
theorem drop_vs_compaction_panic_witness :
    (run init dropVsCompactionSchedule).isSome = true ∧ panicked dropVsCompactionSchedule = true := by
  decide

/-- The INSERT is acknowledged after the DROP: its row-set is in the current snapshot (and in
the manifest) for a table that no longer exists — reopening panics on it. -/
theorem drop_vs_insert_witness :
    (run init dropVsInsertSchedule).isSome = true
    ∧ (stateOf dropVsInsertSchedule).tables = []
    ∧ ((stateOf dropVsInsertSchedule).k.status (stateOf dropVsInsertSchedule).k.epoch).rs ≠ []
    ∧ (resultsOf dropVsInsertSchedule).filter (fun r => r.1 != 0) = [(2, true), (1, true)] := by
  decide

/-- "No session or background pass panics" is false without the restriction. -/
theorem no_panic_unrestricted_false :
    ¬ (∀ acts : List Act, (run init acts).isSome = true → panicked acts = false) := by
  intro h
  exact absurd (h dropVsCompactionSchedule (by decide)) (by decide)

end SC
end RlModel
