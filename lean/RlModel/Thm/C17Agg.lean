import RlModel.Model.PlanWf
/-!
C17 — "every column an operator references is produced by its input", for aggregate and window
calls: `scalarOk` (Model/PlanWf.lean) holds exactly when the evaluator, walking the expression on
rows of the input's schema, reaches no aggregate / window call (`scalarOk_iff_visited`); it is
monotone in the schema (`scalarOk_mono`: an operator that produces more leaves accepted
expressions accepted); a call that is a column of the input is accepted, a call that is not is
refused (`scalarOk_of_mem`, `scalarOk_agg_call`).  Witness: the plan of
`select a from t order by row_number() over () desc` without a `window` operator (the shape a
binder that forgets ORDER BY's window functions produces) is refused, the bound plan of the
unchanged binder is accepted.
-/
namespace RlModel.Wf
open RlModel

theorem scalarOk_of_mem (agg : Hd → Bool) (sch : List Tm) (hd : Hd) (xs : List Tm)
    (h : sch.contains (.node hd xs) = true) : scalarOk agg sch (.node hd xs) = true := by
  simp [scalarOk, h]

/-- An aggregate / window call that is not a column of the input is refused, whatever its arguments. -/
theorem scalarOk_agg_call (agg : Hd → Bool) (sch : List Tm) (hd : Hd) (xs : List Tm) (ha : agg hd = true)
    (hp : planHead hd = false) (hm : sch.contains (.node hd xs) = false) :
    scalarOk agg sch (.node hd xs) = false := by
  simp [scalarOk, ha, hp, hm]

mutual
  /-- `scalarOk` says exactly that the evaluator visits no aggregate / window call. -/
  theorem scalarOk_iff_visited (agg : Hd → Bool) (sch : List Tm) :
      ∀ e : Tm, scalarOk agg sch e = true ↔ ∀ h xs, Tm.node h xs ∈ visited sch e → agg h = false
    | .col _ _ => by simp [scalarOk, visited]
    | .leaf _ => by simp [scalarOk, visited]
    | .node h xs => by
      have ih := scalarOkList_iff_visited agg sch xs
      by_cases hm : (sch.contains (.node h xs) || planHead h) = true
      · have h1 : scalarOk agg sch (.node h xs) = true := by
          simp only [scalarOk]; simp only [Bool.or_eq_true] at hm ⊢; exact Or.inl hm
        simp [h1, visited, hm]
      · have hm' : (sch.contains (.node h xs) || planHead h) = false := by simpa using hm
        have e1 : scalarOk agg sch (.node h xs) = (!agg h && scalarOkList agg sch xs) := by
          simp only [scalarOk]; rw [hm']; simp
        rw [e1]
        simp only [visited, hm', Bool.false_eq_true, ↓reduceIte, List.mem_cons, Bool.and_eq_true, Bool.not_eq_eq_eq_not, Bool.not_true]
        constructor
        · rintro ⟨ha, hl⟩ h' xs' hx
          rcases hx with hx | hx
          · cases hx; exact ha
          · exact (ih.mp hl) h' xs' hx
        · intro hall
          exact ⟨hall h xs (Or.inl rfl), ih.mpr (fun h' xs' hx => hall h' xs' (Or.inr hx))⟩
  theorem scalarOkList_iff_visited (agg : Hd → Bool) (sch : List Tm) :
      ∀ es : List Tm, scalarOkList agg sch es = true ↔ ∀ h xs, Tm.node h xs ∈ visitedList sch es → agg h = false
    | [] => by simp [scalarOkList, visitedList]
    | e :: es => by
      have ih1 := scalarOk_iff_visited agg sch e
      have ih2 := scalarOkList_iff_visited agg sch es
      simp only [scalarOkList, visitedList, Bool.and_eq_true, List.mem_append]
      constructor
      · rintro ⟨h1, h2⟩ h' xs' hx
        rcases hx with hx | hx
        · exact (ih1.mp h1) h' xs' hx
        · exact (ih2.mp h2) h' xs' hx
      · intro hall
        exact ⟨ih1.mpr (fun h' xs' hx => hall h' xs' (Or.inl hx)), ih2.mpr (fun h' xs' hx => hall h' xs' (Or.inr hx))⟩
end

mutual
  /-- Monotone in the schema: with more columns produced below, an accepted expression stays accepted. -/
  theorem scalarOk_mono (agg : Hd → Bool) (sch sch' : List Tm)
      (hs : ∀ t, sch.contains t = true → sch'.contains t = true) :
      ∀ e : Tm, scalarOk agg sch e = true → scalarOk agg sch' e = true
    | .col _ _ => by simp [scalarOk]
    | .leaf _ => by simp [scalarOk]
    | .node h xs => by
      have ih := scalarOkList_mono agg sch sch' hs xs
      simp only [scalarOk, Bool.or_eq_true, Bool.and_eq_true]
      rintro ((hm | hp) | ⟨ha, hl⟩)
      · exact Or.inl (Or.inl (hs _ hm))
      · exact Or.inl (Or.inr hp)
      · exact Or.inr ⟨ha, ih hl⟩
  theorem scalarOkList_mono (agg : Hd → Bool) (sch sch' : List Tm)
      (hs : ∀ t, sch.contains t = true → sch'.contains t = true) :
      ∀ es : List Tm, scalarOkList agg sch es = true → scalarOkList agg sch' es = true
    | [] => by simp [scalarOkList]
    | e :: es => by
      have ih1 := scalarOk_mono agg sch sch' hs e
      have ih2 := scalarOkList_mono agg sch sch' hs es
      simp only [scalarOkList, Bool.and_eq_true]
      rintro ⟨h1, h2⟩
      exact ⟨ih1 h1, ih2 h2⟩
end

/-- A plan whose check holds: every operator's expressions are scalar on its input (or, for the
aggregation and window operators, lists of calls with scalar arguments), and so for its inputs. -/
theorem aggRefsCheck_node (agg over : Hd → Bool) (hd : Hd) (xs : List Tm) (hp : planHead hd = true)
    (h : aggRefsCheck agg over (.node hd xs) = true) :
    aggRefsNode agg over (.node hd xs) = true ∧ aggRefsCheckList agg over xs = true := by
  simpa [aggRefsCheck, hp] using h

-- witnesses (heads by code: 7 = `over`, 8 = `row_number`, 9 = `desc`) ---------------------------
def wAgg : Hd → Bool := fun h => h == .other 7 || h == .other 8
def wOver : Hd → Bool := fun h => h == .other 7

def wScan : Tm := .node .scan [.leaf (.table 0), .node .list [.col 0 0], .leaf .tru]
def wCall : Tm := .node (.other 7) [.node (.other 8) [], .node .list [], .node .list []]

/-- `select a from t order by row_number() over () desc` as the unchanged binder plans it. -/
def wWin : Tm :=
  .node .proj [.node .list [.col 0 0],
    .node .order [.node .list [.node (.other 9) [wCall]], .node .window [.node .list [wCall], wScan]]]

/-- The same statement without the `window` operator. -/
def wNoWin : Tm :=
  .node .proj [.node .list [.col 0 0], .node .order [.node .list [.node (.other 9) [wCall]], wScan]]

theorem wWin_ok : check wWin = .ok ∧ aggRefsCheck wAgg wOver wWin = true := by decide
theorem wNoWin_builds_but_refused : check wNoWin = .ok ∧ evalCheck wNoWin = true ∧ aggRefsCheck wAgg wOver wNoWin = false := by decide

end RlModel.Wf
