import RlModel.Gen.PlanRules
import RlModel.Lemmas.PlanPerm
/-!
# C01 — join-reordering rules (property theorems; bag equality)
-/
set_option linter.unusedSimpArgs false
set_option linter.unusedVariables false
namespace RlModel.C01
open RlModel RlModel.P RlModel.Gen List

/-- Swapping the sides of an inner join under a projection keeps the bag of output rows. -/
theorem inner_join_swap_core (es : List VExpr) (on : BExpr) (L R : Rel)
    (hes : ∀ e ∈ es, ReadsWithin e (fun x => L.owned x || R.owned x))
    (hd : ∀ x, L.owned x = true → R.owned x = false)
    (hon : ReadsWithin on (fun x => L.owned x || R.owned x)) :
    RelPerm (proj es (join .inner on L R)) (proj es (join .inner on R L)) := by
  unfold RelPerm
  rw [inner_join_out, inner_join_out]
  refine (flatMap_swap_perm _ _ _).trans (Perm.of_eq ?_)
  apply flatMap_congr'
  intro r _
  apply flatMap_congr'
  intro l _
  have hag := merge_swap_agree L.owned R.owned hd l r
  have h1 : holds on (merge R.owned l r) = holds on (merge L.owned r l) := by
    unfold holds; rw [hon _ _ hag]
  have h2 : (es.map fun e => e (merge R.owned l r)) = es.map fun e => e (merge L.owned r l) := by
    apply List.map_congr_left
    intro e he
    exact hes e he _ _ hag
  rw [h1, h2]

theorem psound_inner_join_swap : pstmt_inner_join_swap := by
  intro es on L R hes hd hon
  exact inner_join_swap_core es on L R (by simpa [join] using hes) hd hon

theorem keyEq_comm (a b : PV) : keyEq a b = keyEq b a := by
  unfold keyEq
  apply decide_eq_decide.mpr
  constructor
  · rintro ⟨hn, rfl⟩; exact ⟨hn, rfl⟩
  · rintro ⟨hn, rfl⟩; exact ⟨hn, rfl⟩

theorem keysEq_comm (lk rk : List VExpr) (ρ : Env) : keysEq lk rk ρ = keysEq rk lk ρ := by
  induction lk generalizing rk with
  | nil => cases rk <;> rfl
  | cons l ls ih =>
    cases rk with
    | nil => rfl
    | cons r rs => simp [keysEq, keyEq_comm, ih rs]

theorem keysEq_reads (lk rk : List VExpr) (S : Col → Bool)
    (hl : ∀ e ∈ lk, ReadsWithin e S) (hr : ∀ e ∈ rk, ReadsWithin e S) : ReadsWithin (keysEq lk rk) S := by
  induction lk generalizing rk with
  | nil => cases rk <;> (intro ρ ρ' _; rfl)
  | cons l ls ih =>
    cases rk with
    | nil => intro ρ ρ' _; rfl
    | cons r rs =>
      intro ρ ρ' h
      have h1 := hl l (by simp) ρ ρ' h
      have h2 := hr r (by simp) ρ ρ' h
      have h3 := ih rs (fun e he => hl e (by simp [he])) (fun e he => hr e (by simp [he])) ρ ρ' h
      simp [keysEq, h1, h2, h3]

theorem psound_inner_hash_join_swap : pstmt_inner_hash_join_swap := by
  intro es c lk rk L R hes hd hc hlk hrk
  have hl : hashjoin .inner c lk rk L R
      = join .inner (fun ρ => some ((keysEq lk rk ρ == some true) && holds c ρ)) L R :=
    hashjoin_unmasked .inner c lk rk L R hlk hrk
  have hr : hashjoin .inner c rk lk R L
      = join .inner (fun ρ => some ((keysEq rk lk ρ == some true) && holds c ρ)) R L :=
    hashjoin_unmasked .inner c rk lk R L hrk hlk
  rw [hl] at hes ⊢
  rw [hr]
  have hsymm : (fun ρ => some ((keysEq rk lk ρ == some true) && holds c ρ))
      = (fun ρ => some ((keysEq lk rk ρ == some true) && holds c ρ)) := by
    funext ρ; rw [keysEq_comm]
  rw [hsymm]
  apply inner_join_swap_core es _ L R (by simpa [join] using hes) hd
  intro ρ ρ' h
  have h1 := keysEq_reads lk rk _
    (fun e he ρ ρ' h => hlk e he ρ ρ' (fun x hx => h x (by simp [hx])))
    (fun e he ρ ρ' h => hrk e he ρ ρ' (fun x hx => h x (by simp [hx]))) ρ ρ' h
  have h2 : holds c ρ = holds c ρ' := by unfold holds; rw [hc ρ ρ' h]
  simp [h1, h2]

/-- Rows of an inner join as nested loops. -/
theorem inner_join_rows (on : BExpr) (L R : Rel) :
    (join .inner on L R).rows =
      L.rows.flatMap fun l => R.rows.flatMap fun r =>
        if holds on (P.merge R.owned l r) then [P.merge R.owned l r] else [] := by
  simp only [join, joinRows, matchesL]
  apply flatMap_congr'
  intro l _
  rw [filter_map_eq_flatMap]

theorem flatMap_ite_nil {α β} (c : Bool) (xs : List α) (f : α → List β) :
    (if c then xs else []).flatMap f = if c then xs.flatMap f else [] := by
  cases c <;> simp

/-- Right rotation of two inner joins: the same rows in the same order. -/
theorem inner_join_right_rotate_rows (c1 c2 : BExpr) (L M R : Rel)
    (hd : ∀ x, (L.owned x || M.owned x) = true → R.owned x = false)
    (hc2 : ReadsWithin c2 (fun x => L.owned x || M.owned x)) :
    (join .inner c1 (join .inner c2 L M) R).rows =
      (join .inner (bAnd c1 c2) L (join .inner bTrue M R)).rows := by
  rw [inner_join_rows c1 (join .inner c2 L M) R, inner_join_rows c2 L M,
      inner_join_rows (bAnd c1 c2) L (join .inner bTrue M R), inner_join_rows bTrue M R]
  rw [List.flatMap_assoc]
  apply flatMap_congr'
  intro l _
  rw [List.flatMap_assoc, List.flatMap_assoc]
  apply flatMap_congr'
  intro m _
  -- left: (if c2 (l⊕m) then [l⊕m] else []).flatMap (fun lm => R.flatMap …)
  -- right: (R.flatMap (fun r => if true then [m⊕r] else [])).flatMap (fun mr => if (c1∧c2) (l⊕mr) …)
  rw [flatMap_ite_nil]
  simp only [List.flatMap_cons, List.flatMap_nil, List.append_nil, holds_bTrue, if_true]
  rw [List.flatMap_assoc]
  have hown : (join .inner bTrue M R).owned = fun x => M.owned x || R.owned x := by
    funext x; simp [join]
  have henv : ∀ r : Env, P.merge (join .inner bTrue M R).owned l (P.merge R.owned m r)
      = P.merge R.owned (P.merge M.owned l m) r := by
    intro r; funext x
    rw [hown]
    by_cases hr : R.owned x = true
    · simp [P.merge, hr]
    · by_cases hm : M.owned x = true <;> simp [P.merge, hr, hm]
  have hc2' : ∀ r : Env, holds c2 (P.merge R.owned (P.merge M.owned l m) r) = holds c2 (P.merge M.owned l m) := by
    intro r
    unfold holds
    rw [hc2 (P.merge R.owned (P.merge M.owned l m) r) (P.merge M.owned l m)]
    intro x hx
    have := hd x hx
    simp [P.merge, this]
  by_cases h2 : holds c2 (P.merge M.owned l m) = true
  · simp only [h2, if_true]
    apply flatMap_congr'
    intro r _
    simp only [List.flatMap_cons, List.flatMap_nil, List.append_nil]
    rw [henv r, holds_bAnd, hc2' r, h2, Bool.and_true]
  · simp only [h2]
    symm
    apply List.flatMap_eq_nil_iff.mpr
    intro r _
    simp only [List.flatMap_cons, List.flatMap_nil, List.append_nil]
    rw [henv r, holds_bAnd, hc2' r]
    simp [h2]

theorem psound_inner_join_right_rotate : pstmt_inner_join_right_rotate := by
  intro c1 c2 L M R hd _ _ hc2
  unfold RelPerm
  apply List.Perm.of_eq
  have hrows := inner_join_right_rotate_rows c1 c2 L M R (by simpa [join] using hd) hc2
  have hcols : (join .inner c1 (join .inner c2 L M) R).cols
      = (join .inner (bAnd c1 c2) L (join .inner bTrue M R)).cols := by
    simp [join, List.append_assoc]
  simp only [Rel.out, hrows, hcols]

theorem psound_inner_join_right_rotate_1 : pstmt_inner_join_right_rotate_1 := by
  intro es c pl cl L M R _ hd _ _ _ hcl
  unfold RelPerm
  apply List.Perm.of_eq
  -- a projection changes the schema only: the inner `(proj ?projl …)` has the rows and the owned
  -- columns of the join below it
  have hrows : (join .inner c (proj pl (join .inner cl L M)) R).rows
      = (join .inner (bAnd c cl) L (join .inner bTrue M R)).rows := by
    have h := inner_join_right_rotate_rows c cl L M R (by simpa [join, proj] using hd) hcl
    simpa [join, proj, joinRows] using h
  exact congrArg (List.map fun ρ => es.map fun e => e ρ) hrows

end RlModel.C01
