import RlModel.Gen.PlanRules
import RlModel.Lemmas.PlanPerm
/-!
# C01 — join-reordering rules (property theorems; bag equality)
-/
set_option linter.unusedSimpArgs false
set_option linter.unusedVariables false
namespace RlModel.C01
open RlModel RlModel.P RlModel.Gen List

/-- Swapping the sides of an inner join under a projection keeps the bag of output rows. -/
theorem inner_join_swap_core (es : List VExpr) (on : BExpr) (L R : Rel)
    (hes : ∀ e ∈ es, ReadsWithin e (fun x => L.owned x || R.owned x))
    (hd : ∀ x, L.owned x = true → R.owned x = false)
    (hon : ReadsWithin on (fun x => L.owned x || R.owned x)) :
    RelPerm (proj es (join .inner on L R)) (proj es (join .inner on R L)) := by
  unfold RelPerm
  rw [inner_join_out, inner_join_out]
  refine (flatMap_swap_perm _ _ _).trans (Perm.of_eq ?_)
  apply flatMap_congr'
  intro r _
  apply flatMap_congr'
  intro l _
  have hag := merge_swap_agree L.owned R.owned hd l r
  have h1 : holds on (merge R.owned l r) = holds on (merge L.owned r l) := by
    unfold holds; rw [hon _ _ hag]
  have h2 : (es.map fun e => e (merge R.owned l r)) = es.map fun e => e (merge L.owned r l) := by
    apply List.map_congr_left
    intro e he
    exact hes e he _ _ hag
  rw [h1, h2]

theorem psound_inner_join_swap : pstmt_inner_join_swap := by
  intro es on L R hes hd hon
  exact inner_join_swap_core es on L R (by simpa [join] using hes) hd hon

theorem keyEq_comm (a b : PV) : keyEq a b = keyEq b a := by
  unfold keyEq; exact decide_eq_decide.mpr ⟨fun h => h.symm, fun h => h.symm⟩

theorem keysEq_comm (lk rk : List VExpr) (ρ : Env) : keysEq lk rk ρ = keysEq rk lk ρ := by
  induction lk generalizing rk with
  | nil => cases rk <;> rfl
  | cons l ls ih =>
    cases rk with
    | nil => rfl
    | cons r rs => simp [keysEq, keyEq_comm, ih rs]

theorem keysEq_reads (lk rk : List VExpr) (S : Col → Bool)
    (hl : ∀ e ∈ lk, ReadsWithin e S) (hr : ∀ e ∈ rk, ReadsWithin e S) : ReadsWithin (keysEq lk rk) S := by
  induction lk generalizing rk with
  | nil => cases rk <;> (intro ρ ρ' _; rfl)
  | cons l ls ih =>
    cases rk with
    | nil => intro ρ ρ' _; rfl
    | cons r rs =>
      intro ρ ρ' h
      have h1 := hl l (by simp) ρ ρ' h
      have h2 := hr r (by simp) ρ ρ' h
      have h3 := ih rs (fun e he => hl e (by simp [he])) (fun e he => hr e (by simp [he])) ρ ρ' h
      simp [keysEq, h1, h2, h3]

theorem psound_inner_hash_join_swap : pstmt_inner_hash_join_swap := by
  intro es c lk rk L R hes hd hc hlk hrk
  unfold hashjoin at *
  have hsymm : (fun ρ => some ((keysEq rk lk ρ == some true) && holds c ρ))
      = (fun ρ => some ((keysEq lk rk ρ == some true) && holds c ρ)) := by
    funext ρ; rw [keysEq_comm]
  rw [hsymm]
  apply inner_join_swap_core es _ L R (by simpa [join] using hes) hd
  intro ρ ρ' h
  have h1 := keysEq_reads lk rk _ hlk hrk ρ ρ' h
  have h2 : holds c ρ = holds c ρ' := by unfold holds; rw [hc ρ ρ' h]
  simp [h1, h2]

end RlModel.C01
