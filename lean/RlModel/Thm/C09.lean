/-
C09 — Background compaction never loses or resurrects rows under concurrency.

FULL STATEMENT (properties.jsonl C09): "However background compaction passes interleave with
concurrent inserts and deletes on any tables, once all operations finish each table holds exactly
the rows of the acknowledged inserts minus the acknowledged deletes [...]".

For the code that exists the unconditional statement is FALSE (`final_state_exact_unconditional_false`,
witnesses `stale_snapshot_witness`, `delete_after_compaction_witness`: schedules of the model,
obtained from — and replayed by the check on — the real implementation).  What is proved:

* under the lock-discipline hypothesis `FreshSnapshot` (the snapshot a compaction / a DELETE
  computed its changeset from agrees, on that table, with the snapshot current at commit time)
  the changeset is the one a sequential execution at the commit instant would produce
  (`fresh_plan_eq`, `fresh_handlers_eq`);
* such a compaction commit leaves every table's multiset of rows unchanged
  (`compaction_commit_exact`, `compaction_commit_frame`, together `final_state_exact`), an insert
  commit adds exactly its rows (`insert_commit_exact`), and every step that is not phase B of a
  commit leaves every table unchanged (`frame_other_steps`).
-/
import RlModel.Thm.C08
import RlModel.Lemmas.StoreConcRows

namespace RlModel
namespace SC

/-- rows of table `t` in the current snapshot -/
def curRows (k : K) (t : Nat) : Option (List Int) := rowsAt? k.pool (k.status k.epoch) t

/-! ### frame: only phase B changes what a table contains -/

/-- `kstep_stable` for every epoch the invariant keeps readable (pinned, or current). -/
theorem kstep_stable_gen {k k' : K} (h : KInv k) (st : KStep k k') {e : Nat} (hle : e ≤ k.epoch)
    (hor : 0 < k.refcnt e ∨ e = k.epoch) (t : Nat) :
    rowsAt? k'.pool (k'.status e) t = rowsAt? k.pool (k.status e) t := by
  have hpres := h.present e hle hor
  cases st with
  | refl => rfl
  | pin th => rfl
  | unpin th e hm => rfl
  | reserve th t => rfl
  | abandon th => rfl
  | allocDv n => rfl
  | unlink th ed key hm => rfl
  | commitB _ th hc =>
      simp only [kCommitB] at hc
      split at hc
      · cases hc
      split at hc
      case isFalse => cases hc
      cases hc
      have : e ≠ k.epoch + 1 := by omega
      simp only [this, if_false]
  | commitA _ th ops hc =>
      simp only [kCommitA] at hc
      split at hc
      · cases hc
      split at hc
      · cases hc
      rename_i hinfl hok
      have hok : opsOk k th ops = true := by simpa using hok
      split at hc
      · cases hc
      cases hc
      apply rowsAt?_congr
      intro key hk
      apply lookupPool_append
      rw [poolAdds_keys]
      intro ha
      exact h.resv_pool _ (opsOk_add hok ha) (hpres key hk).1
  | commitAPanic _ th ops hc =>
      simp only [kCommitAPanic] at hc
      split at hc
      · cases hc
      split at hc
      · cases hc
      rename_i hinfl hok
      have hok : opsOk k th ops = true := by simpa using hok
      split at hc
      · cases hc
      cases hc
      apply rowsAt?_congr
      intro key hk
      apply lookupPool_append
      intro ha
      exact h.resv_pool _ (opsOk_add hok (addsBeforePanic_keys ops _ ha)) (hpres key hk).1
  | find th =>
      apply rowsAt?_congr
      intro key hk
      simp only [kFind]
      apply lookupPool_filter
      intro pe _ hpk
      simp only [Bool.not_eq_true', List.contains_eq_mem, decide_eq_false_iff_not, List.mem_map,
        not_exists, not_and]
      intro q hq heq
      have hq' := mem_takenUpTo.mp hq
      rw [heq, hpk] at hq'
      have hve : vacuumEpoch k ≤ e := by
        rcases hor with hor | hor
        · obtain ⟨p, hp, rfl⟩ := pinned_of_refcnt h hor
          exact vacuumEpoch_le_pin h hp
        · rw [hor]; exact vacuumEpoch_le
      exact (h.pend_dead q.1 key hq'.2).2 e (Nat.le_trans hq'.1 hve) hle hk

/-- Every kernel operation that does not publish a new epoch (everything except phase B of a
commit: pins, unpins, id allocation, phase A, manifest append, `find_vacuum`, unlinks) leaves
the rows of every table unchanged. -/
theorem frame_other_steps {k k' : K} (h : KInv k) (st : KStep k k') (he : k'.epoch = k.epoch)
    (t : Nat) : curRows k' t = curRows k t := by
  simp only [curRows, he]
  exact kstep_stable_gen h st (Nat.le_refl _) (Or.inr rfl) t

/-! ### FreshSnapshot: the lock-discipline hypothesis -/

/-- Snapshot `e` agrees with the current snapshot on table `t` (row-sets and deleted positions).
This is what holding `t`'s lock from before the pin until the commit would guarantee; the code
pins *before* taking the lock (compactor: once per pass; DELETE: scan in a separate read
transaction), so for the code that exists it is a hypothesis on the schedule. -/
def FreshSnapshot (k : K) (e t : Nat) : Prop :=
  tableKeys (k.status e) t = tableKeys (k.status k.epoch) t
  ∧ ∀ key : Key, deadPos (k.status e) key = deadPos (k.status k.epoch) key

theorem scan?_snap_congr {pool : List (Key × List Int)} {s1 s2 : Snap}
    (hd : ∀ key : Key, deadPos s1 key = deadPos s2 key) :
    ∀ keys : List Key, scan? pool s1 keys = scan? pool s2 keys
  | [] => rfl
  | key :: r => by
      simp only [scan?]
      rw [hd key, scan?_snap_congr hd r]

/-- Under `FreshSnapshot` the compactor's plan (selection + merged rows), computed from the
snapshot it pinned at the start of the pass, is the plan a compaction starting now would make. -/
theorem fresh_plan_eq {k : K} {e t : Nat} (hf : FreshSnapshot k e t) :
    compactPlan? k e t = compactPlan? k k.epoch t := by
  simp only [compactPlan?, hf.1, scan?_snap_congr hf.2]

/-- Under `FreshSnapshot` the row handlers a DELETE collected from its scan's snapshot are the
handlers a scan of the current snapshot would collect. -/
theorem fresh_handlers_eq {k : K} {e t : Nat} (hf : FreshSnapshot k e t) (op : DelOp) (c : Int) :
    handlers? k e t op c = handlers? k k.epoch t op c := by
  simp only [handlers?, hf.1, scan?_snap_congr hf.2]

/-! ### exactness of an insert commit -/

theorem commit_result {k k1 k2 : K} {th : Tid} {ops : List Op} (hA : kCommitA k th ops = some k1)
    (hB : kCommitB k1 th = some k2) :
    ∃ snap', applyOps (k.status k.epoch) ops = some snap' ∧ opsOk k th ops = true
      ∧ k2.epoch = k.epoch + 1 ∧ k2.status (k.epoch + 1) = snap'
      ∧ k2.pool = poolAdds ops ++ k.pool := by
  simp only [kCommitA] at hA
  split at hA
  · cases hA
  split at hA
  · cases hA
  rename_i hinfl hok
  have hok : opsOk k th ops = true := by simpa using hok
  split at hA
  · cases hA
  rename_i snap' hsnap
  cases hA
  simp [kCommitB] at hB
  cases hB
  exact ⟨snap', hsnap, hok, rfl, by simp, rfl⟩

theorem liveFrom_nil_vals : ∀ (i : Nat) (vs : List Int), (liveFrom i [] vs).map (·.2) = vs
  | _, [] => rfl
  | i, v :: r => by
      simp only [liveFrom, List.contains_nil, Bool.false_eq_true, if_false, List.map_cons,
        liveFrom_nil_vals (i + 1) r]

/-- An insert commit (changeset `[AddRowSet (t,n) vs]`, id `n` reserved by the committing thread,
no delete vector refers to the new id) adds exactly the inserted rows to table `t` and leaves
every other table unchanged — whatever else is in flight. -/
theorem insert_commit_exact {k k1 k2 : K} (h : KInv k) {th : Tid} {t n : Nat} {vs : List Int}
    (hnodv : deadPos (k.status k.epoch) (t, n) = [])
    (hA : kCommitA k th [.add (t, n) vs] = some k1) (hB : kCommitB k1 th = some k2) :
    (∀ r, curRows k t = some r → curRows k2 t = some (vs ++ r))
    ∧ ∀ t', t' ≠ t → curRows k2 t' = curRows k t' := by
  obtain ⟨snap', hsnap, hok, he, hst, hpool⟩ := commit_result hA hB
  simp only [applyOps, applyOp] at hsnap
  cases hsnap
  have hresv : (th, (t, n)) ∈ k.resv := opsOk_add hok (by simp [addKeys])
  have hfresh : ∀ key ∈ (k.status k.epoch).rs, key ≠ (t, n) := by
    intro key hk heq
    rw [heq] at hk
    exact h.resv_status _ hresv k.epoch (Nat.le_refl _) hk
  have hscan : ∀ keys : List Key, (∀ key ∈ keys, key ∈ (k.status k.epoch).rs) →
      scan? (poolAdds [.add (t, n) vs] ++ k.pool)
        { rs := (t, n) :: (k.status k.epoch).rs, dvs := (k.status k.epoch).dvs } keys
      = scan? k.pool (k.status k.epoch) keys := by
    intro keys hkeys
    have h1 := scan?_snap_congr (pool := poolAdds [.add (t, n) vs] ++ k.pool)
      (s1 := { rs := (t, n) :: (k.status k.epoch).rs, dvs := (k.status k.epoch).dvs })
      (s2 := k.status k.epoch) (fun key => rfl) keys
    rw [h1]
    apply scan?_congr
    intro key hk
    apply lookupPool_append
    simp only [poolAdds, List.map_cons, List.map_nil, List.mem_singleton]
    exact hfresh key (hkeys key hk)
  constructor
  · intro r hr
    simp only [curRows, he, hst, hpool, rowsAt?]
    have htk : tableKeys { rs := (t, n) :: (k.status k.epoch).rs, dvs := (k.status k.epoch).dvs } t
        = (t, n) :: tableKeys (k.status k.epoch) t := by
      simp [tableKeys, List.filter_cons]
    rw [htk]
    simp only [scan?]
    rw [hscan _ (fun key hk => mem_tableKeys hk)]
    have hl : lookupPool (poolAdds [.add (t, n) vs] ++ k.pool) (t, n) = some vs := by
      simp [lookupPool, poolAdds]
    rw [hl]
    simp only [curRows, rowsAt?] at hr
    cases hs : scan? k.pool (k.status k.epoch) (tableKeys (k.status k.epoch) t) with
    | none => simp [hs] at hr
    | some l =>
        simp only [hs] at hr
        cases hr
        have hd : deadPos { rs := (t, n) :: (k.status k.epoch).rs, dvs := (k.status k.epoch).dvs } (t, n) = [] := hnodv
        simp only [hd, List.map_append, List.map_map]
        congr 1
        have := liveFrom_nil_vals 0 vs
        simpa [Function.comp_def] using congrArg (fun x => x ++ List.map (fun x => x.2.2) l) this
  · intro t' hne
    simp only [curRows, he, hst, hpool, rowsAt?]
    have htk : tableKeys { rs := (t, n) :: (k.status k.epoch).rs, dvs := (k.status k.epoch).dvs } t'
        = tableKeys (k.status k.epoch) t' := by
      have : (t == t') = false := beq_false_of_ne (fun x => hne x.symm)
      simp [tableKeys, List.filter_cons, this]
    rw [htk, hscan _ (fun key hk => mem_tableKeys hk)]

/-! ### the two defects of the original code, now regression inputs

Until /repo f6c3dfb / a61a0a6 the unconditional statement was false: the compactor pinned ONE
snapshot per pass before taking any table lock, and a DELETE wrote its delete vectors for row
handlers its scan had collected before a compaction replaced the row-sets.  Both schedules below
were taken from the real implementation after the repair (the check re-drives them at every
run) and show the interleaving is harmless now. -/

/-- The compactor locks and compacts one table; meanwhile `DELETE FROM t2 WHERE v = 101` commits
on the other table; the compactor then locks that table, pins (only now) and compacts it. -/
def staleSnapshotSchedule : List Act :=
  [.cmdBegin (0,0) (.create 1), .bound (0,0), .commitBegin (0,1), .commitA (0,1), .append (0,1),
   .committed (0,1), .createApplied (0,1), .cmdDone (0,0), .cmdBegin (0,0) (.create 2),
   .pin (0,0), .txnPinned (0,0) .ro 0, .unpin (0,0) 2, .bound (0,0), .commitBegin (0,2),
   .commitA (0,2), .append (0,2), .committed (0,2), .createApplied (0,2), .cmdDone (0,0),
   .cmdBegin (0,0) (.insert 1 [1, 2]), .pin (0,0), .txnPinned (0,0) .ro 0, .unpin (0,0) 3,
   .pin (0,0), .txnPinned (0,0) .ro 1, .unpin (0,0) 3, .bound (0,0), .pin (0,3),
   .txnPinned (0,3) .rw 0, .commitBegin (0,3), .commitA (0,3), .append (0,3), .committed (0,3),
   .unpin (0,3) 3, .cmdDone (0,0), .cmdBegin (0,0) (.insert 1 [3]), .pin (0,0),
   .txnPinned (0,0) .ro 0, .unpin (0,0) 4, .pin (0,0), .txnPinned (0,0) .ro 1, .unpin (0,0) 4,
   .bound (0,0), .pin (0,4), .txnPinned (0,4) .rw 0, .commitBegin (0,4), .commitA (0,4),
   .append (0,4), .committed (0,4), .unpin (0,4) 4, .cmdDone (0,0),
   .cmdBegin (0,0) (.insert 2 [101, 102]), .pin (0,0), .txnPinned (0,0) .ro 0, .unpin (0,0) 5,
   .pin (0,0), .txnPinned (0,0) .ro 1, .unpin (0,0) 5, .bound (0,0), .pin (0,5),
   .txnPinned (0,5) .rw 1, .commitBegin (0,5), .commitA (0,5), .append (0,5), .committed (0,5),
   .unpin (0,5) 5, .cmdDone (0,0), .cmdBegin (0,0) (.insert 2 [103]), .pin (0,0),
   .txnPinned (0,0) .ro 0, .unpin (0,0) 6, .pin (0,0), .txnPinned (0,0) .ro 1, .unpin (0,0) 6,
   .bound (0,0), .pin (0,6), .txnPinned (0,6) .rw 1, .commitBegin (0,6), .commitA (0,6),
   .append (0,6), .committed (0,6), .unpin (0,6) 6, .cmdDone (0,0), .cmdBegin (1,0) .compact,
   .cmdBegin (2,0) (.delete 1 .eq 1), .cmdBegin (3,0) (.delete 2 .eq 101), .cpPinned (1,0),
   .cpTable (1,0) 0, .pin (1,0), .cpLocked (1,0) 0, .pin (3,0), .txnPinned (3,0) .ro 0,
   .unpin (3,0) 7, .pin (3,0), .txnPinned (3,0) .ro 1, .unpin (3,0) 7, .bound (3,0), .pin (3,1),
   .txnPinned (3,1) .ro 1, .lockBegin (3,2), .unpin (3,1) 7, .pin (3,2), .txnPinned (3,2) .upd 1,
   .txnLocked (3,2), .commitBegin (3,2), .commitA (3,2), .append (3,2), .committed (3,2),
   .unpin (3,2) 7, .cmdDone (3,0), .commitBegin (1,0), .commitA (1,0), .append (1,0),
   .committed (1,0), .unpin (1,0) 7, .cpTable (1,0) 1, .pin (1,0), .cpLocked (1,0) 1,
   .commitBegin (1,0), .commitA (1,0), .append (1,0), .committed (1,0), .unpin (1,0) 9,
   .cpEnd (1,0), .cmdDone (1,0), .pin (2,0), .txnPinned (2,0) .ro 0, .unpin (2,0) 10, .pin (2,0),
   .txnPinned (2,0) .ro 1, .unpin (2,0) 10, .bound (2,0), .pin (2,1), .txnPinned (2,1) .ro 0,
   .lockBegin (2,2), .unpin (2,1) 10, .pin (2,2), .txnPinned (2,2) .upd 0, .txnLocked (2,2),
   .commitBegin (2,2), .commitA (2,2), .append (2,2), .committed (2,2), .unpin (2,2) 10,
   .cmdDone (2,0)]

/-- The scan of `DELETE FROM t1 WHERE v = 1` collects its row handler while the compactor holds
the table lock; the compaction commits; the DELETE then takes the lock, pins, and finds the
handler's row-set gone. -/
def deleteAfterCompactionSchedule : List Act :=
  [.cmdBegin (0,0) (.create 1), .bound (0,0), .commitBegin (0,1), .commitA (0,1), .append (0,1),
   .committed (0,1), .createApplied (0,1), .cmdDone (0,0), .cmdBegin (0,0) (.insert 1 [1, 2]),
   .pin (0,0), .txnPinned (0,0) .ro 0, .unpin (0,0) 2, .bound (0,0), .pin (0,2),
   .txnPinned (0,2) .rw 0, .commitBegin (0,2), .commitA (0,2), .append (0,2), .committed (0,2),
   .unpin (0,2) 2, .cmdDone (0,0), .cmdBegin (0,0) (.insert 1 [3]), .pin (0,0),
   .txnPinned (0,0) .ro 0, .unpin (0,0) 3, .bound (0,0), .pin (0,3), .txnPinned (0,3) .rw 0,
   .commitBegin (0,3), .commitA (0,3), .append (0,3), .committed (0,3), .unpin (0,3) 3,
   .cmdDone (0,0), .cmdBegin (1,0) .compact, .cmdBegin (2,0) (.delete 1 .eq 1), .cpPinned (1,0),
   .cpTable (1,0) 0, .pin (1,0), .cpLocked (1,0) 0, .pin (2,0), .txnPinned (2,0) .ro 0,
   .unpin (2,0) 4, .bound (2,0), .pin (2,1), .txnPinned (2,1) .ro 0, .lockBegin (2,2),
   .unpin (2,1) 4, .commitBegin (1,0), .commitA (1,0), .append (1,0), .committed (1,0),
   .unpin (1,0) 4, .cpEnd (1,0), .cmdDone (1,0), .pin (2,2), .txnPinned (2,2) .upd 0,
   .txnLocked (2,2), .unpin (2,2) 5, .cmdDone (2,0)]

def finalRows (acts : List Act) (t : Nat) : Option (List Int) := curRows (stateOf acts).k t

def ackedResults (acts : List Act) : List (Nat × List Int) :=
  (stateOf acts).outs.filterMap (fun o => match o.2.1, o.2.2 with
    | .delete t _ _, .rows xs => some (t, xs)
    | _, _ => none)

def failedDeletes (acts : List Act) : Nat :=
  ((stateOf acts).outs.filter (fun o => match o.2.1, o.2.2 with
    | .delete _ _ _, .err _ => true
    | _, _ => false)).length

/-- REGRESSION (was `sched:compact-stale-snapshot-two-tables`): both DELETEs are acknowledged and
both rows stay deleted although one of them committed between the start of the compaction pass
and the compaction of its table. -/
theorem stale_snapshot_regression :
    (run init staleSnapshotSchedule).isSome = true
    ∧ (ackedResults staleSnapshotSchedule).length = 2
    ∧ (finalRows staleSnapshotSchedule 0).map (fun r => r.contains 1) = some false
    ∧ (finalRows staleSnapshotSchedule 1).map (fun r => r.contains 101) = some false := by
  decide

/-- REGRESSION (was `sched:delete-pinned-before-compaction-commit`): the DELETE whose handlers
predate the compaction is NOT acknowledged (it fails), and the table is unchanged — no
acknowledged delete without effect. -/
theorem delete_after_compaction_regression :
    (run init deleteAfterCompactionSchedule).isSome = true
    ∧ ackedResults deleteAfterCompactionSchedule = []
    ∧ failedDeletes deleteAfterCompactionSchedule = 1
    ∧ (finalRows deleteAfterCompactionSchedule 0).map (fun r => r.contains 1) = some true := by
  decide

/-- First half of `final_state_exact`: in a schedule that satisfies the lock
discipline (`FreshSnapshot` at the moment the compactor / the DELETE prepares its changeset),
the changeset is the one a sequential execution at that instant produces, and nothing but the
publishing step of a commit changes any table.  (That a *sequential* compaction leaves the
multiset of rows unchanged and a sequential DELETE removes exactly the matching rows is the
sequential storage theorem of C07, not re-proved here.) -/
theorem fresh_changesets_sequential {k : K} (h : KInv k) {e t : Nat} (hf : FreshSnapshot k e t) :
    compactPlan? k e t = compactPlan? k k.epoch t
    ∧ (∀ op c, handlers? k e t op c = handlers? k k.epoch t op c)
    ∧ (∀ k', KStep k k' → k'.epoch = k.epoch → ∀ t', curRows k' t' = curRows k t') :=
  ⟨fresh_plan_eq hf, fun op c => fresh_handlers_eq hf op c,
   fun _ st he t' => frame_other_steps h st he t'⟩

-- FreshSnapshot is satisfiable in a non-trivial reachable state (reader pinned, then nothing
-- committed on the table): the snapshot pinned at epoch 4 is fresh for table 0
example : FreshSnapshot (stateOf (wSetup ++ wReadPin)).k 4 0 := ⟨by decide, fun _ => rfl⟩

-- ... and it fails in the witness: after the compaction the pinned snapshot of the DELETE's scan
-- is no longer fresh
example : ¬ FreshSnapshot (stateOf wPinThenCompact).k 4 0 := by
  intro h
  exact absurd h.1 (by decide)

/-! ### exactness of a compaction commit whose plan is fresh -/

theorem applyOps_dels_eq (t n : Nat) : ∀ (dels : List Key) (s : Snap),
    (∀ d ∈ dels, d.1 = t ∧ d ≠ (t, n)) → (t, n) ∈ s.rs →
    applyOps s (dels.map Op.del) = some { s with rs := s.rs.filter (fun x => !dels.contains x) }
  | [], s, _, _ => by
      have ft : ∀ l : List Key, l.filter (fun _ => true) = l := by
        intro l; induction l <;> simp_all
      cases s
      simp [applyOps, ft]
  | d :: r, s, hd, hm => by
      simp only [List.map_cons, applyOps, applyOp]
      have h1 := hd d List.mem_cons_self
      rw [applyOps_dels_eq t n r]
      · simp only [List.filter_filter]
        congr 2
        apply List.filter_congr
        intro x _
        simp only [List.contains_cons, Bool.not_or, bne, Bool.and_comm]
      · intro x hx; exact hd x (List.mem_cons_of_mem _ hx)
      · apply List.mem_filter.mpr
        refine ⟨hm, ?_⟩
        simp only [bne_iff_ne, ne_eq]
        exact fun hh => h1.2 hh.symm

theorem addKeys_dels : ∀ (l : List Key), addKeys (l.map Op.del) = []
  | [] => rfl
  | _ :: r => by simpa [addKeys] using addKeys_dels r

theorem applyOps_append : ∀ (a b : List Op) (s : Snap),
    applyOps s (a ++ b) = (applyOps s a).bind (fun s1 => applyOps s1 b)
  | [], _, _ => rfl
  | o :: r, b, s => by
      simp only [List.cons_append, applyOps]
      cases applyOp s o with
      | none => rfl
      | some s1 => exact applyOps_append r b s1

/-- (row-set, dv id) pairs of the delete vectors snapshot `sp` has on the selected row-sets -/
def dvPairs (sp : Snap) (sel : List Key) : List (Key × Nat) :=
  sel.flatMap (fun key => (sp.dvs.filter (fun x => x.1 == key)).map (fun x => (key, x.2.1)))

theorem dvDels_eq (sp : Snap) (sel : List Key) :
    dvDels sp sel = (dvPairs sp sel).map (fun p => Op.delDv p.1 p.2) := by
  simp only [dvDels, dvPairs, List.map_flatMap, List.map_map]
  rfl

theorem mem_dvPairs {sp : Snap} {sel : List Key} {p : Key × Nat} (h : p ∈ dvPairs sp sel) :
    p.1 ∈ sel := by
  simp only [dvPairs, List.mem_flatMap, List.mem_map] at h
  obtain ⟨key, hk, x, _, rfl⟩ := h
  exact hk

/-- `DeleteDV` ops leave the row-sets alone and only touch the delete vectors of the row-sets they
name -/
theorem applyOps_delDvs : ∀ (l : List (Key × Nat)) {s s' : Snap},
    applyOps s (l.map (fun p => Op.delDv p.1 p.2)) = some s' →
    s'.rs = s.rs ∧ ∀ key, (∀ p ∈ l, p.1 ≠ key) → deadPos s' key = deadPos s key
  | [], s, s', h => by simp only [List.map_nil, applyOps] at h; cases h; exact ⟨rfl, fun _ _ => rfl⟩
  | p :: r, s, s', h => by
      simp only [List.map_cons, applyOps, applyOp] at h
      obtain ⟨a, b⟩ := applyOps_delDvs r h
      refine ⟨a, fun key hk => ?_⟩
      rw [b key (fun q hq => hk q (List.mem_cons_of_mem _ hq))]
      simp only [deadPos, List.filter_filter]
      congr 1
      apply List.filter_congr
      intro x _
      by_cases hx : x.1 = key
      · have : (x.1 == p.1) = false := beq_false_of_ne (fun hh => hk p List.mem_cons_self (hh ▸ hx))
        simp only [this, Bool.false_and, Bool.not_false, Bool.and_true]
      · have : (x.1 == key) = false := beq_false_of_ne hx
        simp only [this, Bool.false_and]

theorem addKeys_append (a b : List Op) : addKeys (a ++ b) = addKeys a ++ addKeys b := by
  induction a with
  | nil => rfl
  | cons o r ih => rw [List.cons_append, addKeys_cons, addKeys_cons o r, ih, List.append_assoc]

theorem delKeys_append (a b : List Op) : delKeys (a ++ b) = delKeys a ++ delKeys b := by
  induction a with
  | nil => rfl
  | cons o r ih => rw [List.cons_append, delKeys_cons, delKeys_cons o r, ih, List.append_assoc]

theorem poolAdds_append (a b : List Op) : poolAdds (a ++ b) = poolAdds a ++ poolAdds b := by
  induction a with
  | nil => rfl
  | cons o r ih => cases o <;> simp [poolAdds, ih]

theorem addKeys_delDvs (l : List (Key × Nat)) : addKeys (l.map (fun p => Op.delDv p.1 p.2)) = [] := by
  induction l with
  | nil => rfl
  | cons _ r ih => simpa [addKeys] using ih

theorem delKeys_delDvs (l : List (Key × Nat)) : delKeys (l.map (fun p => Op.delDv p.1 p.2)) = [] := by
  induction l with
  | nil => rfl
  | cons _ r ih => simpa [delKeys] using ih

theorem poolAdds_delDvs (l : List (Key × Nat)) : poolAdds (l.map (fun p => Op.delDv p.1 p.2)) = [] := by
  induction l with
  | nil => rfl
  | cons _ r ih => simpa [poolAdds] using ih

theorem applyOps_dels_plain : ∀ (dels : List Key) (s : Snap),
    applyOps s (dels.map Op.del) = some { s with rs := s.rs.filter (fun x => !dels.contains x) }
  | [], s => by
      have ft : ∀ l : List Key, l.filter (fun _ => true) = l := by
        intro l; induction l <;> simp_all
      cases s
      simp [applyOps, ft]
  | d :: r, s => by
      simp only [List.map_cons, applyOps, applyOp]
      rw [applyOps_dels_plain r]
      simp only [List.filter_filter]
      congr 2
      apply List.filter_congr
      intro x _
      simp only [List.contains_cons, Bool.not_or, bne, Bool.and_comm]

/-- **A compaction pass over a SUBSET of a table's row-sets** (size-based selection: an oversized
row-set is left alone): whatever `sel` is and whatever snapshot `sp` the delete vectors to delete
are read from, the changeset `AddRowSet new ++ DeleteRowSet sel ++ DeleteDV (dvs of sel)` leaves
every row-set that was NOT selected in the snapshot, with exactly the deleted positions it had —
the delete vectors of unselected row-sets are unchanged, so no row deleted from them comes back. -/
theorem compact_subset_keeps_other_dvs {S snap' sp : Snap} {t n : Nat} {rows : List Int}
    {sel : List Key}
    (h : applyOps S (.add (t, n) rows :: (sel.map Op.del ++ dvDels sp sel)) = some snap') :
    ∀ key, key ∉ sel → (key ∈ S.rs → key ∈ snap'.rs) ∧ deadPos snap' key = deadPos S key := by
  simp only [applyOps, applyOp] at h
  rw [applyOps_append, applyOps_dels_plain, dvDels_eq] at h
  obtain ⟨hrs, hdead⟩ := applyOps_delDvs _ h
  intro key hk
  constructor
  · intro hm
    rw [hrs]
    apply List.mem_filter.mpr
    refine ⟨List.mem_cons_of_mem _ hm, ?_⟩
    simpa using hk
  · exact hdead key (fun p hp heq => hk (heq ▸ mem_dvPairs hp))

-- non-vacuity: row-set (0,0) carries a delete vector and is not selected; (0,1), (0,2) are
example : ∀ snap', applyOps { rs := [(0,2), (0,1), (0,0)], dvs := [((0,0), 0, [1]), ((0,1), 1, [0])] }
      (.add (0,3) [7, 8] :: ([(0,1), (0,2)].map Op.del
        ++ dvDels { rs := [(0,2), (0,1), (0,0)], dvs := [((0,0), 0, [1]), ((0,1), 1, [0])] } [(0,1), (0,2)]))
      = some snap' → (0,0) ∈ snap'.rs ∧ deadPos snap' (0,0) = [1] := by
  intro snap' h
  have := compact_subset_keeps_other_dvs h (0,0) (by decide)
  exact ⟨this.1 (by decide), this.2.trans (by decide)⟩

/-- what the tables hold over a snapshot that has the new row-set instead of the selected ones
and the same deleted positions on every row-set that was not selected -/
theorem rows_after_compaction {pool pool2 : List (Key × List Int)} {S snap' : Snap} {t n : Nat}
    {sel : List Key} {rows : List Int}
    (hrs : snap'.rs = ((t, n) :: S.rs).filter (fun x => !sel.contains x))
    (hdead : ∀ key, key ∉ sel → deadPos snap' key = deadPos S key)
    (hselmem : ∀ x, x ∈ sel ↔ (x ∈ S.rs ∧ x.1 = t))
    (hd : ∀ d ∈ sel, d.1 = t ∧ d ≠ (t, n))
    (hnodv : deadPos S (t, n) = [])
    (hl : lookupPool pool2 (t, n) = some rows)
    (hpl : ∀ key ∈ S.rs, lookupPool pool2 key = lookupPool pool key) :
    rowsAt? pool2 snap' t = some rows
    ∧ ∀ t', t' ≠ t → rowsAt? pool2 snap' t' = rowsAt? pool S t' := by
  have hnc : sel.contains (t, n) = false := by
    simp only [List.contains_eq_mem, decide_eq_false_iff_not]
    intro hm
    exact (hd _ hm).2 rfl
  have hnotsel : (t, n) ∉ sel := fun hm => (hd _ hm).2 rfl
  constructor
  · have htk : tableKeys snap' t = [(t, n)] := by
      simp only [tableKeys, hrs, List.filter_cons, hnc, Bool.not_false, if_true, beq_self_eq_true]
      congr 1
      apply List.filter_eq_nil_iff.mpr
      intro x hx
      have hx' := List.mem_filter.mp hx
      simp only [Bool.not_eq_true', List.contains_eq_mem, decide_eq_false_iff_not] at hx'
      intro hxt
      simp only [beq_iff_eq] at hxt
      exact hx'.2 ((hselmem x).mpr ⟨hx'.1, hxt⟩)
    simp only [rowsAt?, htk, scan?, hl, hdead _ hnotsel, hnodv, List.append_nil, List.map_map]
    congr 1
    simpa [Function.comp_def] using liveFrom_nil_vals 0 rows
  · intro t' hne
    have htk : tableKeys snap' t' = tableKeys S t' := by
      have hbt : (t == t') = false := beq_false_of_ne (fun x => hne x.symm)
      simp only [tableKeys, hrs, List.filter_cons, hnc, Bool.not_false, if_true, hbt,
        Bool.false_eq_true, if_false, List.filter_filter]
      apply List.filter_congr
      intro x hx
      by_cases hxt : x.1 = t'
      · have hnm : x ∉ sel := fun hm => hne (hxt.symm.trans (hd x hm).1)
        simp [hnm, hxt]
      · have : (x.1 == t') = false := beq_false_of_ne hxt
        simp [this]
    simp only [rowsAt?, htk]
    rw [scan?_live_congr (s := S) (s' := snap'), scan?_congr (fun key hk => hpl key (mem_tableKeys hk))]
    intro key hkey rows' _
    have hkt : key.1 = t' := by
      have := (List.mem_filter.mp hkey).2
      simpa using this
    rw [hdead key (fun hm => hne (hkt.symm.trans (hd key hm).1))]

/-- A compaction commit whose plan was made from the CURRENT snapshot (that is what
`FreshSnapshot` gives, `fresh_plan_eq`): all row-sets `sel` of table `t`, merged live rows
`rows`, new id reserved; changeset as the code builds it since /repo 5071ff5:
`AddRowSet`, `DeleteRowSet` of every selected row-set, `DeleteDV` of every delete vector a
snapshot `sp` (the one the pass pinned) has on them.  Afterwards table `t` consists of exactly
the merged rows — nothing lost, nothing resurrected — and every other table is unchanged. -/
theorem compaction_commit_exact {k k1 k2 : K} (h : KInv k) {th : Tid} {t n : Nat}
    {sel : List Key} {rows : List Int} (sp : Snap)
    (hplan : compactPlan? k k.epoch t = some (some (sel, rows)))
    (hnodv : deadPos (k.status k.epoch) (t, n) = [])
    (hA : kCommitA k th (.add (t, n) rows :: (sel.map Op.del ++ dvDels sp sel)) = some k1)
    (hB : kCommitB k1 th = some k2) :
    curRows k2 t = some rows ∧ ∀ t', t' ≠ t → curRows k2 t' = curRows k t' := by
  obtain ⟨snap', hsnap, hok, he, hst, hpool⟩ := commit_result hA hB
  simp only [compactPlan?] at hplan
  split at hplan
  · cases hplan
  split at hplan
  case h_2 => cases hplan
  rename_i l hl
  simp only [Option.some.injEq, Prod.mk.injEq] at hplan
  obtain ⟨hsel, hrows⟩ := hplan
  have hresv : (th, (t, n)) ∈ k.resv := opsOk_add hok (by simp [addKeys])
  have hnew_not_in : (t, n) ∉ (k.status k.epoch).rs :=
    h.resv_status _ hresv k.epoch (Nat.le_refl _)
  have hselmem : ∀ x, x ∈ sel ↔ (x ∈ (k.status k.epoch).rs ∧ x.1 = t) := by
    intro x
    rw [← hsel, mem_sortKeys]
    simp [tableKeys, List.mem_filter]
  have hd : ∀ d ∈ sel, d.1 = t ∧ d ≠ (t, n) := by
    intro d hdm
    have := (hselmem d).mp hdm
    exact ⟨this.2, fun heq => hnew_not_in (heq ▸ this.1)⟩
  -- the snapshot after phase A
  simp only [applyOps, applyOp] at hsnap
  rw [applyOps_append, applyOps_dels_eq t n sel _ hd List.mem_cons_self, dvDels_eq] at hsnap
  obtain ⟨hrs, hdead⟩ := applyOps_delDvs _ hsnap
  have hadd : addKeys (.add (t, n) rows :: (sel.map Op.del ++ dvDels sp sel)) = [(t, n)] := by
    simp only [addKeys, addKeys_append, addKeys_dels, dvDels_eq, addKeys_delDvs, List.append_nil]
  have hpl : ∀ key ∈ (k.status k.epoch).rs,
      lookupPool (poolAdds (.add (t, n) rows :: (sel.map Op.del ++ dvDels sp sel)) ++ k.pool) key
        = lookupPool k.pool key := by
    intro key hk
    apply lookupPool_append
    rw [poolAdds_keys, hadd]
    simp only [List.mem_singleton]
    intro heq
    exact hnew_not_in (heq ▸ hk)
  have hlk : lookupPool (poolAdds (.add (t, n) rows :: (sel.map Op.del ++ dvDels sp sel)) ++ k.pool) (t, n)
      = some rows := by
    simp [lookupPool, poolAdds]
  have := rows_after_compaction (pool := k.pool) (S := k.status k.epoch) (snap' := snap') hrs
    (fun key hk => hdead key (fun p hp heq => hk (heq ▸ mem_dvPairs hp))) hselmem hd hnodv hlk hpl
  simp only [curRows, he, hst, hpool]
  exact this

/-- Putting it together for one compaction under the lock discipline: the compactor planned from
the snapshot `e` it pinned at the start of the pass (and takes the delete vectors to delete from
it); if that snapshot is fresh for table `t` when the compaction commits, table `t` afterwards
holds exactly the merged live rows of the CURRENT snapshot (so a DELETE committed in between is
not undone and nothing is duplicated), and every other table is untouched. -/
theorem compaction_fresh_exact {k k1 k2 : K} (h : KInv k) {th : Tid} {e t n : Nat}
    {sel : List Key} {rows : List Int} (hf : FreshSnapshot k e t)
    (hplan : compactPlan? k e t = some (some (sel, rows)))
    (hnodv : deadPos (k.status k.epoch) (t, n) = [])
    (hA : kCommitA k th (.add (t, n) rows :: (sel.map Op.del ++ dvDels (k.status e) sel)) = some k1)
    (hB : kCommitB k1 th = some k2) :
    compactPlan? k k.epoch t = some (some (sel, rows))
    ∧ curRows k2 t = some rows ∧ ∀ t', t' ≠ t → curRows k2 t' = curRows k t' := by
  have hp : compactPlan? k k.epoch t = some (some (sel, rows)) := by rw [← fresh_plan_eq hf]; exact hplan
  exact ⟨hp, compaction_commit_exact h (k.status e) hp hnodv hA hB⟩

/-- ... and those merged rows are a permutation of what the table held before: the compaction
scans the same row-sets in id order instead of snapshot order. -/
theorem compaction_rows_perm {k : K} {t : Nat} {sel : List Key} {rows r : List Int}
    (hplan : compactPlan? k k.epoch t = some (some (sel, rows))) (hr : curRows k t = some r) :
    rows.Perm r := by
  simp only [compactPlan?] at hplan
  split at hplan
  · cases hplan
  split at hplan
  · rename_i l hl
    simp only [Option.some.injEq, Prod.mk.injEq] at hplan
    obtain ⟨_, hrows⟩ := hplan
    obtain ⟨l2, h2, hp⟩ := scan?_perm (sortKeys_perm (tableKeys (k.status k.epoch) t)) hl
    simp only [curRows, rowsAt?, h2, Option.some.injEq] at hr
    rw [← hrows, ← hr]
    exact hp.map _
  · cases hplan

/-! ### exactness of a DELETE commit whose handlers are fresh -/

/-- the snapshot after a DELETE's changeset: same row-sets, one more delete vector per touched
row-set -/
def afterDvs (s : Snap) (hs : List (Key × Nat)) (dv0 : Nat) : Snap :=
  { rs := s.rs, dvs := pushDvs hs dv0 (sortKeys (dedupKeys (hs.map (·.1)))) s.dvs }

/-- A DELETE commit whose row handlers were collected from the CURRENT snapshot (that is what
`FreshSnapshot` gives, `fresh_handlers_eq`): one delete vector per touched row-set.  Afterwards
table `t` holds exactly the rows that do not satisfy the predicate (same order), and every other
table is unchanged. -/
theorem delete_commit_exact {k k1 k2 : K} {th : Tid} {t dv0 : Nat} {op : DelOp} {c : Int}
    {hs : List (Key × Nat)} (hh : handlers? k k.epoch t op c = some hs)
    (hA : kCommitA k th (dvOps dv0 hs (sortKeys (dedupKeys (hs.map (·.1))))) = some k1)
    (hB : kCommitB k1 th = some k2) :
    (∀ r, curRows k t = some r → curRows k2 t = some (r.filter (fun v => !op.holds c v)))
    ∧ ∀ t', t' ≠ t → curRows k2 t' = curRows k t' := by
  obtain ⟨snap', hsnap, _, he, hst, hpool⟩ := commit_result hA hB
  rw [applyOps_dvOps] at hsnap
  cases hsnap
  replace hst : k2.status (k.epoch + 1) = afterDvs (k.status k.epoch) hs dv0 := hst
  rw [poolAdds_dvOps, List.nil_append] at hpool
  -- the handlers
  simp only [handlers?] at hh
  split at hh
  case h_2 => cases hh
  rename_i l hl
  simp only [Option.some.injEq] at hh
  have hmem_hs : ∀ key j, (key, j) ∈ hs ↔ ∃ x ∈ l, op.holds c x.2.2 = true ∧ x.1 = key ∧ x.2.1 = j := by
    intro key j
    rw [← hh]
    simp only [List.mem_map, List.mem_filter, Prod.mk.injEq]
    constructor
    · rintro ⟨x, ⟨hx, hp⟩, h1, h2⟩; exact ⟨x, hx, hp, h1, h2⟩
    · rintro ⟨x, hx, hp, h1, h2⟩; exact ⟨x, ⟨hx, hp⟩, h1, h2⟩
  -- deleted positions after the commit
  have hdead : ∀ key j, (deadPos (afterDvs (k.status k.epoch) hs dv0) key).contains j
      = (((hs.filter (fun h => h.1 == key)).map (·.2)) ++ deadPos (k.status k.epoch) key).contains j := by
    intro key j
    simp only [List.contains_eq_mem, deadPos_eq, List.mem_append, mem_positions]
    apply decide_eq_decide.mpr
    show j ∈ deadOf (pushDvs hs dv0 (sortKeys (dedupKeys (hs.map (·.1)))) (k.status k.epoch).dvs) key ↔ _
    rw [mem_deadOf_push]
    constructor
    · rintro (h | ⟨_, h⟩)
      · exact Or.inr h
      · exact Or.inl h
    · rintro (h | h)
      · refine Or.inr ⟨?_, h⟩
        rw [mem_sortKeys, mem_dedupKeys]
        exact List.mem_map.mpr ⟨(key, j), h, rfl⟩
      · exact Or.inl h
  constructor
  · intro r hr
    simp only [curRows, rowsAt?, hl, Option.some.injEq] at hr
    simp only [curRows, he, hst, hpool, rowsAt?]
    have htk : tableKeys (afterDvs (k.status k.epoch) hs dv0) t
        = tableKeys (k.status k.epoch) t := rfl
    rw [htk]
    have hf := scan?_filter (pool := k.pool) (s := k.status k.epoch)
      (s' := (afterDvs (k.status k.epoch) hs dv0))
      (op.holds c) (keys := tableKeys (k.status k.epoch) t) (l := l) ?_ hl
    · rw [hf, ← hr]
      simp only [Option.some.injEq, List.filter_map]
      rfl
    · intro key hkey rows hrows
      rw [liveFrom_congr (hdead key) 0 rows]
      apply liveFrom_extra
      intro j v hjv
      apply Bool.eq_iff_iff.mpr
      simp only [List.contains_eq_mem, decide_eq_true_eq, mem_positions, hmem_hs]
      constructor
      · rintro ⟨x, hx, hp, h1, h2⟩
        obtain ⟨_, rows', hr', hq⟩ := (mem_scan hl x).mp hx
        rw [h1] at hr' hq
        rw [hrows] at hr'
        cases hr'
        rw [h2] at hq
        rw [← liveFrom_fun hq hjv]
        exact hp
      · intro hp
        exact ⟨(key, j, v), (mem_scan hl (key, j, v)).mpr ⟨hkey, rows, hrows, hjv⟩, hp, rfl, rfl⟩
  · intro t' hne
    simp only [curRows, he, hst, hpool, rowsAt?]
    have htk : tableKeys (afterDvs (k.status k.epoch) hs dv0) t'
        = tableKeys (k.status k.epoch) t' := rfl
    rw [htk, scan?_live_congr]
    intro key hkey rows _
    apply liveFrom_congr
    intro j
    rw [hdead key j]
    have hnone : ∀ j', (key, j') ∉ hs := by
      intro j' hm
      obtain ⟨x, hx, _, h1, _⟩ := (hmem_hs key j').mp hm
      have hxk := ((mem_scan hl x).mp hx).1
      have h1' : x.1.1 = t := by
        have := (List.mem_filter.mp hxk).2
        simpa using this
      have h2' : key.1 = t' := by
        have := (List.mem_filter.mp hkey).2
        simpa using this
      rw [h1] at h1'
      exact hne (h2'.symm.trans h1')
    have : (hs.filter (fun h => h.1 == key)).map (·.2) = [] := by
      apply List.map_eq_nil_iff.mpr
      apply List.filter_eq_nil_iff.mpr
      intro x hx hxe
      simp only [beq_iff_eq] at hxe
      have : x = (key, x.2) := by rw [← hxe]
      rw [this] at hx
      exact hnone _ hx
    rw [this, List.nil_append]

/-- what a scan of table `t` returns once the rows named by the handlers `hs` are gone -/
def scanMinus (k : K) (t : Nat) (hs : List (Key × Nat)) : Option (List Int) :=
  match scan? k.pool (k.status k.epoch) (tableKeys (k.status k.epoch) t) with
  | some l => some ((l.filter (fun x =>
      !((hs.filter (fun h => h.1 == x.1)).map (·.2)).contains x.2.1)).map (fun x => x.2.2))
  | none => none

/-- **DELETE without `FreshSnapshot`.**  Whatever snapshot the handlers `hs` of table `t` were
collected from: the DELETE's commit (one delete vector per touched row-set) removes from table
`t` exactly the rows at the handlers' positions and changes no other table.  Since /repo a61a0a6
/ 16ca0ec the code commits only when every handler names a row that is live in the snapshot
pinned under the table lock (`handlersGone = false`, the guard of the model's `commitBegin`), so
every acknowledged deleted row is a row that was there and is gone — no hypothesis on the
schedule. -/
theorem delete_commit_exact_handlers {k k1 k2 : K} {th : Tid} {t dv0 : Nat}
    {hs : List (Key × Nat)} (hkeys : ∀ h ∈ hs, h.1.1 = t)
    (hA : kCommitA k th (dvOps dv0 hs (sortKeys (dedupKeys (hs.map (·.1))))) = some k1)
    (hB : kCommitB k1 th = some k2) :
    curRows k2 t = scanMinus k t hs ∧ ∀ t', t' ≠ t → curRows k2 t' = curRows k t' := by
  obtain ⟨snap', hsnap, _, he, hst, hpool⟩ := commit_result hA hB
  rw [applyOps_dvOps] at hsnap
  cases hsnap
  replace hst : k2.status (k.epoch + 1) = afterDvs (k.status k.epoch) hs dv0 := hst
  rw [poolAdds_dvOps, List.nil_append] at hpool
  have hdead : ∀ key j, (deadPos (afterDvs (k.status k.epoch) hs dv0) key).contains j
      = (((hs.filter (fun h => h.1 == key)).map (·.2)) ++ deadPos (k.status k.epoch) key).contains j := by
    intro key j
    simp only [List.contains_eq_mem, deadPos_eq, List.mem_append, mem_positions]
    apply decide_eq_decide.mpr
    show j ∈ deadOf (pushDvs hs dv0 (sortKeys (dedupKeys (hs.map (·.1)))) (k.status k.epoch).dvs) key ↔ _
    rw [mem_deadOf_push]
    constructor
    · rintro (h | ⟨_, h⟩)
      · exact Or.inr h
      · exact Or.inl h
    · rintro (h | h)
      · refine Or.inr ⟨?_, h⟩
        rw [mem_sortKeys, mem_dedupKeys]
        exact List.mem_map.mpr ⟨(key, j), h, rfl⟩
      · exact Or.inl h
  have hlive : ∀ key rows, liveFrom 0 (deadPos (afterDvs (k.status k.epoch) hs dv0) key) rows
      = (liveFrom 0 (deadPos (k.status k.epoch) key) rows).filter
          (fun q => !((hs.filter (fun h => h.1 == key)).map (·.2)).contains q.1) := by
    intro key rows
    rw [liveFrom_congr (hdead key) 0 rows]
    exact liveFrom_extra_pos 0 rows
  constructor
  · simp only [curRows, he, hst, hpool, rowsAt?, scanMinus]
    have htk : tableKeys (afterDvs (k.status k.epoch) hs dv0) t
        = tableKeys (k.status k.epoch) t := rfl
    rw [htk]
    cases hl : scan? k.pool (k.status k.epoch) (tableKeys (k.status k.epoch) t) with
    | none =>
        -- a row-set of the table is missing from the pool: both sides fail alike
        have : scan? k.pool (afterDvs (k.status k.epoch) hs dv0) (tableKeys (k.status k.epoch) t) = none := by
          clear htk hst
          generalize tableKeys (k.status k.epoch) t = keys at hl
          induction keys with
          | nil => simp [scan?] at hl
          | cons key r ih =>
              simp only [scan?] at hl ⊢
              cases hp : lookupPool k.pool key with
              | none => rfl
              | some rows =>
                  cases hr : scan? k.pool (k.status k.epoch) r with
                  | none => simp only [ih hr]
                  | some rest => simp [hp, hr] at hl
        simp only [this]
    | some l =>
        have hf := scan?_filter_pos (pool := k.pool) (s := k.status k.epoch)
          (s' := afterDvs (k.status k.epoch) hs dv0)
          (fun key => (hs.filter (fun h => h.1 == key)).map (·.2))
          (keys := tableKeys (k.status k.epoch) t) (l := l)
          (fun key _ rows _ => hlive key rows) hl
        simp only [hf]
  · intro t' hne
    simp only [curRows, he, hst, hpool, rowsAt?]
    have htk : tableKeys (afterDvs (k.status k.epoch) hs dv0) t'
        = tableKeys (k.status k.epoch) t' := rfl
    rw [htk, scan?_live_congr]
    intro key hkey rows _
    rw [hlive key rows]
    have hkt : key.1 = t' := by
      have := (List.mem_filter.mp hkey).2
      simpa using this
    have : (hs.filter (fun h => h.1 == key)).map (·.2) = [] := by
      apply List.map_eq_nil_iff.mpr
      apply List.filter_eq_nil_iff.mpr
      intro x hx hxe
      simp only [beq_iff_eq] at hxe
      exact hne (hkt.symm.trans (hxe ▸ hkeys x hx))
    rw [this]
    simp

-- non-vacuity: the handlers of the repaired implementation's own DELETE in the regression
-- schedule (row 1 of row-set 0_0) — the table loses exactly that row
example : scanMinus (stateOf (wSetup ++ wReadPin)).k 0 [((0, 0), 0)] = some [3, 2] := by decide

/-- The model's DELETE (as the repaired code: `commit_inner`) prepares its changeset only when
every handler names a row-set of the snapshot it pinned under the table lock and a row that is
not yet deleted there. -/
theorem delete_validated {s s' : Sys} {th : Tid} {n : Nat} {op : DelOp} {c : Int}
    (hth : (th.2 == 0) = false) (hcmd : (getTh s (parent th)).cmd = some (.delete n op c))
    (hmode : (getTh s th).mode = .upd) (h : stepCommitBegin s th = some s') :
    ∃ hs, (getTh s (parent th)).mail = some hs
      ∧ handlersGone (s.k.status (getTh s th).snapE) hs = false := by
  simp only [stepCommitBegin, hth, hcmd, hmode] at h
  split at h
  · cases h
  simp only [Bool.false_eq_true, if_false] at h
  split at h
  · rename_i hs hmail
    split at h
    · cases h
    · rename_i hc
      refine ⟨hs, hmail, ?_⟩
      simp only [Bool.or_eq_true, not_or, Bool.not_eq_true] at hc
      exact hc.2
  · cases h

/-! ### the table lock is one lock per table -/

/-- The table locks are ONE lock per table id (`TransactionManager::get_lock_for_table` gets or
creates the entry of `lock_map`, so every user of a table's lock — DELETE, DROP TABLE, the
compactor — locks the same mutex): at most one holder per table. -/
def LockInv (s : Sys) : Prop := (s.tlocks.map (·.1)).Nodup

@[simp] theorem setTh_tlocks (s : Sys) (th : Tid) (t : Th) : (setTh s th t).tlocks = s.tlocks := rfl
@[simp] theorem withK_tlocks (s : Sys) (k : K) : (withK s k).tlocks = s.tlocks := rfl
@[simp] theorem unlockAll_tlocks (s : Sys) (th : Tid) :
    (unlockAll s th).tlocks = s.tlocks.filter (fun p => !(p.2 == th)) := rfl
@[simp] theorem unlockActor_tlocks (s : Sys) (a : Nat) :
    (unlockActor s a).tlocks = s.tlocks.filter (fun p => !(p.2.1 == a)) := rfl

theorem nodup_filter_fst {l : List (Nat × Tid)} (f : Nat × Tid → Bool)
    (h : (l.map (·.1)).Nodup) : ((l.filter f).map (·.1)).Nodup :=
  List.Nodup.sublist (List.Sublist.map _ List.filter_sublist) h

theorem heldBy_none {s : Sys} {t : Nat} (h : (heldBy s t).isSome = false) :
    t ∉ s.tlocks.map (·.1) := by
  intro hm
  obtain ⟨p, hp, hpt⟩ := List.mem_map.mp hm
  simp only [heldBy] at h
  cases hf : s.tlocks.find? (fun p => p.1 == t) with
  | some q => simp [hf] at h
  | none =>
      have := List.find?_eq_none.mp hf p hp
      simp [hpt] at this

theorem nodup_cons_fst {s : Sys} {t : Nat} {th : Tid} (h : (s.tlocks.map (·.1)).Nodup)
    (hn : ¬ (heldBy s t).isSome = true) : (((t, th) :: s.tlocks).map (·.1)).Nodup := by
  simp only [List.map_cons]
  exact List.nodup_cons.mpr ⟨heldBy_none (by simpa using hn), h⟩

macro "lock_close" : tactic => `(tactic| (
  first
  | assumption
  | (apply nodup_filter_fst; assumption)
  | (apply nodup_filter_fst; apply nodup_filter_fst; assumption)
  | (apply nodup_cons_fst <;> assumption)))

macro "lock_auto" : tactic => `(tactic| (
  repeat' (split at ‹_ = some _›)
  all_goals (first | (cases ‹_ = some _›; done) | skip)
  all_goals (cases ‹_ = some _›)
  all_goals (simp only [LockInv, setTh_tlocks, withK_tlocks, unlockAll_tlocks, unlockActor_tlocks] at *)
  all_goals lock_close))

theorem lockinv_step {s s' : Sys} {a : Act} (hi : LockInv s) (h : astep s a = some s') :
    LockInv s' := by
  cases a <;> simp only [astep] at h
  case config big => cases h; exact hi
  case cmdBegin th c => simp only [stepCmdBegin] at h; lock_auto
  case bound th => simp only [stepBound] at h; lock_auto
  case pin th => simp only [stepPin] at h; lock_auto
  case unpin th e => simp only [stepUnpin] at h; lock_auto
  case txnPinned th m t => simp only [stepTxnPinned] at h; lock_auto
  case txnLocked th => simp only [stepTxnLocked] at h; lock_auto
  case lockBegin th => simp only [stepLockBegin] at h; lock_auto
  case scanBatch th n => simp only [stepScanBatch] at h; lock_auto
  case commitBegin th => simp only [stepCommitBegin] at h; lock_auto
  case commitA th => simp only [stepCommitA] at h; lock_auto
  case append th => simp only [stepAppend] at h; lock_auto
  case committed th => simp only [stepCommitted] at h; lock_auto
  case createApplied th => simp only [stepCreateApplied] at h; lock_auto
  case dropApplied th => simp only [stepDropApplied] at h; lock_auto
  case cpPinned th => simp only [stepCpPinned] at h; lock_auto
  case cpTable th t => simp only [stepCpTable] at h; lock_auto
  case cpLocked th t =>
    simp only [stepCpLocked] at h
    split at h
    · cases h
    rename_i hg
    have hfree : ¬ (heldBy s t).isSome = true := by
      intro hh
      apply hg
      simp [hh]
    lock_auto
  case cpEnd th => simp only [stepCpEnd] at h; lock_auto
  case vacFind th => simp only [stepVacFind] at h; lock_auto
  case vacUnlinked th key => simp only [stepVacUnlinked] at h; lock_auto
  case rdOpen th => simp only [stepRdOpen] at h; lock_auto
  case rdBatch th n => simp only [stepRdBatch] at h; lock_auto
  case cmdDone th => simp only [stepCmdDone] at h; lock_auto
  case panic th => simp only [stepPanic] at h; lock_auto

/-- ... in every reachable state of every schedule -/
theorem lockinv_reachable : ∀ (acts : List Act) {s s' : Sys}, LockInv s → run s acts = some s' →
    LockInv s'
  | [], s, s', h, hr => by simp only [run] at hr; cases hr; exact h
  | a :: r, s, s', h, hr => by
      simp only [run] at hr
      split at hr
      · rename_i s1 h1
        exact lockinv_reachable r (lockinv_step h h1) hr
      · cases hr

/-- Compaction, DELETE and DROP TABLE of one table exclude each other: two holders of a table's
lock are the same thread. -/
theorem nodup_fst_unique : ∀ {l : List (Nat × Tid)}, (l.map (·.1)).Nodup → ∀ {t : Nat} {a b : Tid},
    (t, a) ∈ l → (t, b) ∈ l → a = b
  | [], _, _, _, _, h1, _ => nomatch h1
  | p :: r, hn, t, a, b, h1, h2 => by
      simp only [List.map_cons, List.nodup_cons] at hn
      rcases List.mem_cons.mp h1 with e1 | m1 <;> rcases List.mem_cons.mp h2 with e2 | m2
      · rw [← e1] at e2; exact (Prod.mk.inj e2).2.symm
      · exact absurd (List.mem_map.mpr ⟨(t, b), m2, by rw [← e1]⟩) hn.1
      · exact absurd (List.mem_map.mpr ⟨(t, a), m1, by rw [← e2]⟩) hn.1
      · exact nodup_fst_unique hn.2 m1 m2

theorem table_lock_exclusive {s : Sys} (h : LockInv s) {t : Nat} {th1 th2 : Tid}
    (h1 : (t, th1) ∈ s.tlocks) (h2 : (t, th2) ∈ s.tlocks) : th1 = th2 :=
  nodup_fst_unique h h1 h2

example : LockInv (stateOf (wPinThenCompact)) :=
  lockinv_reachable _ (show LockInv init from List.nodup_nil) (run_stateOf (by decide))

/-! ### a compaction whose output is empty (every selected row is deleted) -/

theorem applyOps_dels_other {t t' : Nat} (hne : t' ≠ t) : ∀ (dels : List Key) {s s' : Snap},
    (∀ d ∈ dels, d.1 = t) → applyOps s (dels.map Op.del) = some s' →
    tableKeys s' t' = tableKeys s t' ∧ s'.dvs = s.dvs
  | [], s, s', _, h => by simp only [List.map_nil, applyOps] at h; cases h; exact ⟨rfl, rfl⟩
  | d :: r, s, s', hd, h => by
      simp only [List.map_cons, applyOps, applyOp] at h
      obtain ⟨a, b⟩ := applyOps_dels_other hne r (fun x hx => hd x (List.mem_cons_of_mem _ hx)) h
      refine ⟨?_, b⟩
      rw [a]
      simp only [tableKeys, List.filter_filter]
      apply List.filter_congr
      intro x _
      by_cases hx : x.1 = t'
      · have : x ≠ d := fun heq => hne (hx.symm.trans (heq ▸ hd d List.mem_cons_self))
        simp [hx, this]
      · have : (x.1 == t') = false := beq_false_of_ne hx
        simp [this]

theorem delKeys_dels : ∀ (l : List Key), delKeys (l.map Op.del) = l
  | [] => rfl
  | _ :: r => by simp [delKeys, delKeys_dels r]

theorem poolAdds_dels : ∀ (l : List Key), poolAdds (l.map Op.del) = []
  | [] => rfl
  | _ :: r => by simp [poolAdds, poolAdds_dels r]

/-- A compaction with a fresh plan whose merged output is empty (all live rows of the table are
deleted): the changeset only removes the row-sets; the table is empty afterwards, as it was, and
every other table is unchanged. -/
theorem compaction_empty_commit_exact {k k1 k2 : K} {th : Tid} {t : Nat} {sel : List Key}
    (sp : Snap) (hplan : compactPlan? k k.epoch t = some (some (sel, [])))
    (hA : kCommitA k th (sel.map Op.del ++ dvDels sp sel) = some k1) (hB : kCommitB k1 th = some k2) :
    curRows k2 t = some [] ∧ ∀ t', t' ≠ t → curRows k2 t' = curRows k t' := by
  obtain ⟨snap', hsnap, _, he, hst, hpool⟩ := commit_result hA hB
  rw [poolAdds_append, poolAdds_dels, dvDels_eq, poolAdds_delDvs, List.nil_append, List.nil_append] at hpool
  simp only [compactPlan?] at hplan
  split at hplan
  · cases hplan
  split at hplan
  case h_2 => cases hplan
  rename_i l hl
  simp only [Option.some.injEq, Prod.mk.injEq] at hplan
  obtain ⟨hsel, _⟩ := hplan
  have hselmem : ∀ x, x ∈ sel ↔ (x ∈ (k.status k.epoch).rs ∧ x.1 = t) := by
    intro x
    rw [← hsel, mem_sortKeys]
    simp [tableKeys, List.mem_filter]
  have haddk : addKeys (sel.map Op.del ++ dvDels sp sel) = [] := by
    rw [addKeys_append, addKeys_dels, dvDels_eq, addKeys_delDvs]; rfl
  have hdelk : delKeys (sel.map Op.del ++ dvDels sp sel) = sel := by
    rw [delKeys_append, delKeys_dels, dvDels_eq, delKeys_delDvs, List.append_nil]
  constructor
  · have hnil : tableKeys snap' t = [] := by
      apply List.filter_eq_nil_iff.mpr
      intro x hx hxt
      simp only [beq_iff_eq] at hxt
      rcases applyOps_mem _ hsnap hx with h1 | h1
      · have hxs : x ∈ sel := (hselmem x).mpr ⟨h1, hxt⟩
        exact applyOps_del _ hsnap (by rw [hdelk]; exact hxs) (by rw [haddk]; simp) hx
      · rw [haddk] at h1; cases h1
    simp only [curRows, he, hst, rowsAt?, hnil, scan?, List.map_nil]
  · intro t' hne
    rw [applyOps_append] at hsnap
    cases hs1 : applyOps (k.status k.epoch) (sel.map Op.del) with
    | none => simp [hs1] at hsnap
    | some s1 =>
      simp only [hs1, Option.bind_some, dvDels_eq] at hsnap
      obtain ⟨a, b⟩ := applyOps_dels_other hne sel (fun d hd => ((hselmem d).mp hd).2) hs1
      obtain ⟨hrs, hdead⟩ := applyOps_delDvs _ hsnap
      have htk : tableKeys snap' t' = tableKeys (k.status k.epoch) t' := by
        rw [← a]; simp only [tableKeys, hrs]
      simp only [curRows, he, hst, hpool, rowsAt?, htk]
      rw [scan?_live_congr (s := k.status k.epoch) (s' := snap')]
      intro key hkey rows' _
      have hkt : key.1 = t' := by
        have := (List.mem_filter.mp hkey).2
        simpa using this
      have hns : key ∉ sel := fun hm => hne (hkt.symm.trans ((hselmem key).mp hm).2)
      rw [hdead key (fun p hp heq => hns (heq ▸ mem_dvPairs hp))]
      simp only [deadPos, b]

/-! ### final_state_exact -/

/-- **C09 under the lock discipline.**  In every state satisfying the invariants (i.e. every
reachable state of every schedule, `inv_reachable` / `dvinv_reachable`), on any number of tables:
* the publishing step of an INSERT adds exactly its rows to its table;
* the publishing step of a DELETE whose scan snapshot is fresh for the table removes exactly the
  rows satisfying the predicate;
* the publishing step of a compaction whose pinned snapshot is fresh for the table leaves the
  table's multiset of rows unchanged (non-empty and empty output);
* each of them leaves every other table unchanged, and no other step changes any table.
The only hypothesis besides the changeset being the one the code builds is `FreshSnapshot`. -/
theorem final_state_exact {k : K} (h : KInv k) (hd : DvInv k) :
    (∀ th t n vs k1 k2, kCommitA k th [.add (t, n) vs] = some k1 → kCommitB k1 th = some k2 →
        (∀ r, curRows k t = some r → curRows k2 t = some (vs ++ r))
        ∧ ∀ t', t' ≠ t → curRows k2 t' = curRows k t')
    ∧ (∀ th e t dv0 op c hs k1 k2, FreshSnapshot k e t → handlers? k e t op c = some hs →
        kCommitA k th (dvOps dv0 hs (sortKeys (dedupKeys (hs.map (·.1))))) = some k1 →
        kCommitB k1 th = some k2 →
        (∀ r, curRows k t = some r → curRows k2 t = some (r.filter (fun v => !op.holds c v)))
        ∧ ∀ t', t' ≠ t → curRows k2 t' = curRows k t')
    ∧ (∀ th e t n sel rows k1 k2, FreshSnapshot k e t →
        compactPlan? k e t = some (some (sel, rows)) →
        kCommitA k th (.add (t, n) rows :: (sel.map Op.del ++ dvDels (k.status e) sel)) = some k1 →
        kCommitB k1 th = some k2 →
        (∀ r, curRows k t = some r → ∃ r', curRows k2 t = some r' ∧ r'.Perm r)
        ∧ ∀ t', t' ≠ t → curRows k2 t' = curRows k t')
    ∧ (∀ th e t sel k1 k2, FreshSnapshot k e t → compactPlan? k e t = some (some (sel, [])) →
        kCommitA k th (sel.map Op.del ++ dvDels (k.status e) sel) = some k1 → kCommitB k1 th = some k2 →
        (∀ r, curRows k t = some r → ∃ r', curRows k2 t = some r' ∧ r'.Perm r)
        ∧ ∀ t', t' ≠ t → curRows k2 t' = curRows k t')
    ∧ (∀ k', KStep k k' → k'.epoch = k.epoch → ∀ t, curRows k' t = curRows k t) := by
  have resvOf : ∀ {th : Tid} {t n : Nat} {ops k1}, kCommitA k th ops = some k1 →
      (t, n) ∈ addKeys ops → deadPos (k.status k.epoch) (t, n) = [] := by
    intro th t n ops k1 hA hm
    simp only [kCommitA] at hA
    split at hA
    · cases hA
    split at hA
    · cases hA
    rename_i _ hok
    have hok : opsOk k th ops = true := by simpa using hok
    exact reserved_no_dv hd (opsOk_add hok hm)
  refine ⟨?_, ?_, ?_, ?_, fun _ st he t => frame_other_steps h st he t⟩
  · intro th t n vs k1 k2 hA hB
    exact insert_commit_exact h (resvOf hA (by simp [addKeys])) hA hB
  · intro th e t dv0 op c hs k1 k2 hf hh hA hB
    rw [fresh_handlers_eq hf] at hh
    exact delete_commit_exact hh hA hB
  · intro th e t n sel rows k1 k2 hf hp hA hB
    rw [fresh_plan_eq hf] at hp
    obtain ⟨a, b⟩ := compaction_commit_exact h (k.status e) hp (resvOf hA (by simp [addKeys])) hA hB
    exact ⟨fun r hr => ⟨rows, a, compaction_rows_perm hp hr⟩, b⟩
  · intro th e t sel k1 k2 hf hp hA hB
    rw [fresh_plan_eq hf] at hp
    obtain ⟨a, b⟩ := compaction_empty_commit_exact (k.status e) hp hA hB
    exact ⟨fun r hr => ⟨[], a, compaction_rows_perm hp hr⟩, b⟩

end SC
end RlModel
