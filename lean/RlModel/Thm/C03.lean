import RlModel.Lemmas.StoreSim
/-!
# C03 — Acknowledged changes survive a clean shutdown and reopen

Theorems about `Store.reopen` (= `SecondaryStorage::bootstrap` on the directory left behind) of the
executable model `Model/Store.lean`.  Where the code that exists does not meet the full statement,
the full statement is kept as a `def …Full : Prop`, the part that holds is proved (`…_partial`),
and the full one is refuted by a concrete history that the check replays on the real engine.
-/
namespace RlModel

def St.isDead : St → Bool
  | .dead _ => true
  | .up _ => false

/-! ## The log -/

/-- An acknowledged transaction appended to a clean log is replayed, after everything older, as
exactly its records (Begin/End bracketing loses nothing and invents nothing). -/
theorem log_replay_txn (m recs : List Rec) (hc : Closed m) (h : ∀ r ∈ recs, r.isMark = false) :
    replay (m ++ txn recs) = replay m ++ recs ∧ Closed (m ++ txn recs) :=
  replay_append_txn m recs hc h

example : replay (txn [] ++ txn [.addRowSet 0 0]) = [.addRowSet 0 0] := by decide

/-- **Replaying the manifest that bootstrap rewrites yields the state replaying the original
gave**: same catalog (hence same table ids), same tables, same live row-sets and delete vectors. -/
theorem rewrite_preserves_replay (ops : List Rec) (hf : (bootFold ops).failed = none) :
    let b := bootFold ops
    let b' := bootFold (rewriteOps b)
    b'.cat = b.cat ∧ b'.tables = b.tables ∧ b'.tableOps = b.tableOps ∧ b'.failed = none ∧
      b'.rsOpen = b.rsOpen ∧ b'.dvOpen = b.dvOpen :=
  bootFold_rewrite ops hf

example : (bootFold (rewriteOps (bootFold [.createTable ⟨"t", []⟩, .addRowSet 0 0, .addRowSet 0 1, .delRowSet 0 0]))).rsOpen
    = [(0, 1)] := by decide

/-! ## Reopen -/

/-- Full statement: after every history of acknowledged statements the directory can be opened
again and every table reads the same. -/
def ReopenRefinesFull : Prop :=
  ∀ (h : List Op) (s : Store), run (.up Store.init) h = .up s →
    ∃ s', s.reopen = .ok s' ∧ ∀ n, s'.abs n = s.abs n

/-- What holds for the code that exists: if the log replays to the live state (`ReopenHyp`: same
table ids, same tables, same row-sets and DVs, files present, every row-set and DV belongs to a
known table) the reopen succeeds and every table has the same definition and the same rows. -/
theorem reopen_refines_partial (s : Store) (h : ReopenHyp s) :
    ∃ s', s.reopen = .ok s' ∧ (∀ n, s'.abs n = s.abs n) :=
  let ⟨s', h1, h2, _⟩ := reopen_of_hyp s h
  ⟨s', h1, h2⟩

def tA : TableDef := ⟨"a", [⟨"x", "INT", false, false⟩]⟩
def tB : TableDef := ⟨"b", [⟨"x", "INT", false, false⟩]⟩

/-- a view created between two tables takes a table id that the log cannot reproduce -/
def viewWitness : List Op :=
  [.create tA, .createView "v", .create tB, .insert "b" [[[.i32 1]]]]

/-- the history that made bootstrap panic before repository commit 5071ff5 (compaction left the DVs
of the row-sets it removed in the snapshot, DROP TABLE deleted only the DVs of live row-sets, the
surviving `AddDV` named a table that no longer existed) -/
def staleDvWitness : List Op :=
  [.create tA, .insert "a" [[[.i32 1], [.i32 2]]], .insert "a" [[[.i32 3]]],
   .delete "a" (fun r => r == [.i32 1]), .compact [(0, [0, 1])], .drop "a"]

theorem reopen_fails_view_witness : (run (.up Store.init) (viewWitness ++ [.reopen])).isDead = true := by decide

/-- **DROP after a compaction that removed DV-carrying row-sets reopens** (positive form of the former
finding `reopen:stale-dv-of-dropped-table`, repaired by 5071ff5: the compaction commit deletes the
delete vectors together with their row-sets) -/
theorem drop_after_compaction_reopens :
    GoodHist Store.init (staleDvWitness ++ [.reopen]) ∧
      (run (.up Store.init) (staleDvWitness ++ [.reopen])).isDead = false := by decide

theorem reopen_refines_full_unsound : ¬ ReopenRefinesFull := by
  intro h
  cases hr : run (.up Store.init) viewWitness with
  | dead w =>
    have : (run (.up Store.init) viewWitness).isDead = false := by decide
    rw [hr] at this; simp [St.isDead] at this
  | up s =>
    obtain ⟨s', h1, _⟩ := h viewWitness s hr
    have hd : (run (.up Store.init) (viewWitness ++ [.reopen])).isDead = true := reopen_fails_view_witness
    have : run (.up Store.init) (viewWitness ++ [.reopen]) = .up s' := by
      have hrun : ∀ (a b : List Op) (st : St), run st (a ++ b) = run (run st a) b := by
        intro a
        induction a with
        | nil => intro b st; rfl
        | cons x xs ih => intro b st; simp [run, ih]
      rw [hrun, hr]
      simp [run, step, stepUp, h1]
    rw [this] at hd
    simp [St.isDead] at hd

/-- **Any number of reopen cycles**: whatever a successful open found, shutting down and opening
again succeeds and shows the same tables (unconditional: this is what the boot-time rewrite buys). -/
theorem reopen_idempotent (s s' : Store) (h : s.reopen = .ok s') :
    ∃ s'', s'.reopen = .ok s'' ∧ (∀ n, s''.abs n = s'.abs n) :=
  reopen_refines_partial s' (reopenHyp_of_reopen s s' h)

/-- `n` further cycles -/
theorem reopen_cycles (n : Nat) : ∀ (s s' : Store), s.reopen = .ok s' →
    ∃ s'', run (.up s') (List.replicate n .reopen) = .up s'' ∧ (∀ t, s''.abs t = s'.abs t)
  := by
  induction n with
  | zero => intro s s' _; exact ⟨s', rfl, fun _ => rfl⟩
  | succ n ih =>
    intro s s' h
    obtain ⟨s2, h2, e2⟩ := reopen_idempotent s s' h
    obtain ⟨s3, h3, e3⟩ := ih s' s2 h2
    refine ⟨s3, ?_, fun t => (e3 t).trans (e2 t)⟩
    simp only [List.replicate_succ, run, step, stepUp, h2]
    exact h3

example : ∃ s', (run (.up Store.init) [.create tA, .insert "a" [[[.i32 1]]]]) = .up s' ∧
    ∃ s'', s'.reopen = .ok s'' ∧ s''.abs "a" = some (tA, [[.i32 1]]) := by
  refine ⟨_, rfl, _, rfl, ?_⟩
  decide

/-! ## Ids handed out after a reopen -/

/-- After a reopen the id generators are above every live row-set id and every live DV id: a
re-issued id never collides with a live one. -/
theorem ids_fresh_after_reopen_partial (s s' : Store) (h : s.reopen = .ok s') :
    (∀ k ∈ s'.rowsets, k.2 < s'.nextRs) ∧ (∀ e ∈ s'.dvs, e.dv < s'.nextDv) := by
  have hf := bootFold_fresh (replay s.manifest)
  unfold Store.reopen at h
  generalize bootFold (replay s.manifest) = b at h hf
  simp only at h
  split at h
  · simp at h
  · split at h
    · simp at h
    · split at h
      · simp at h
      · split at h
        · simp at h
        · split at h
          · simp at h
          · rename_i dvs hdv
            simp only [Opened.ok.injEq] at h
            subst h
            have hsp := openDvs_spec s.dvFiles b.dvOpen dvs hdv
            refine ⟨hf.1, ?_⟩
            intro e he
            have hk : e.key ∈ b.dvOpen := by rw [← hsp.1]; exact List.mem_map_of_mem he
            exact hf.2.1 e.key hk

/-- the history of the former finding `reopen:rowset-id-reissued-under-stale-dv`: delete everything,
compact (both row-sets vanish - and, since 5071ff5, their DVs with them), reopen twice -/
def staleIdWitness : List Op :=
  [.create tA, .insert "a" [[[.i32 1], [.i32 2]]], .insert "a" [[[.i32 3]]],
   .delete "a" (fun _ => true), .compact [(0, [0, 1])], .reopen, .reopen]

/-- rows inserted after that history are visible (before the repair a stale vector hid them) -/
theorem no_stale_dv_hides_new_rows :
    (match run (.up Store.init) (staleIdWitness ++ [.insert "a" [[[.i32 5], [.i32 6]]]]) with
     | .up s => s.abs "a"
     | .dead _ => none) = some (tA, [[.i32 5], [.i32 6]]) := by decide

/-- the history of the former finding `delete:dv-file-reused-after-reopen` (delete-vector files were
never unlinked, so once both id counters had restarted a (table, row-set, DV) triple was handed out
again and `create_new` failed; since the boot-time vacuum of `dv/` the file is gone by then) -/
def dvFileWitness : List Op :=
  [.create tA, .insert "a" [[[.i32 1], [.i32 2]]], .insert "a" [[[.i32 3]]],
   .delete "a" (fun r => r != [.i32 3]), .delete "a" (fun _ => true), .compact [(0, [0, 1])], .reopen, .reopen,
   .insert "a" [[[.i32 5]]], .delete "a" (fun _ => true)]

/-- regression: that history is a good history and ends with the table empty -/
theorem dv_file_reuse_regression :
    GoodHist Store.init dvFileWitness ∧
    (match run (.up Store.init) dvFileWitness with
     | .up s => s.abs "a"
     | .dead _ => none) = some (tA, []) := by decide

/-! ## Histories (the invariant behind `ReopenHyp`) -/

/-- **Every guarded history reaches a state whose log replays to it** (`Inv`: the manifest replays
to the live TABLE catalog / tables / row-sets / DVs, the files exist, ids are fresh), by induction
over histories of CREATE/DROP TABLE, CREATE VIEW, CREATE INDEX, DROP VIEW, INSERT (any partition
into row-sets; NULL into NOT NULL is rejected), DELETE, compaction passes (any plan), vacuum passes
and shutdown+reopen cycles in any order.  `GoodHist` evaluates `Guard` in the state each statement is
issued in, and `Guard` is the exact one: only CREATE TABLE has a condition - replay's id counter
equals the live id counter, i.e. no view or index took an id since the last CREATE TABLE / reopen
(`guard_exact`: without it the log no longer replays to the live state). -/
theorem history_reaches_invariant (h : List Op) (g : GoodHist Store.init h) :
    ∃ s, run (.up Store.init) h = .up s ∧ Inv s :=
  hist_inv h Store.init inv_init g

/-- **reopen_refines** (history form): after any guarded history, shutting down and reopening
succeeds, every table has the same definition and the same rows, and the reopened database
satisfies the invariant again (so it accepts further statements, and any number of cycles). -/
theorem reopen_refines (h : List Op) (g : GoodHist Store.init (h ++ [.reopen])) :
    ∃ s s', run (.up Store.init) h = .up s ∧ s.reopen = .ok s' ∧ Inv s' ∧ ∀ n, s'.abs n = s.abs n := by
  have hsplit : ∀ (a : List Op) (s0 : Store), GoodHist s0 (a ++ [.reopen]) → GoodHist s0 a := by
    intro a
    induction a with
    | nil => intro s0 _; trivial
    | cons op ops ih =>
      intro s0 g0
      have g1 := g0.2
      cases hs : (stepUp s0 op).1 with
      | dead w => exact ⟨g0.1, by rw [hs]; trivial⟩
      | up s2 =>
        rw [hs] at g1
        exact ⟨g0.1, by rw [hs]; exact ih s2 g1⟩
  obtain ⟨s, hs, inv⟩ := hist_inv h Store.init inv_init (hsplit h Store.init g)
  obtain ⟨s', r1, r2, r3, _⟩ := reopen_inv s inv
  exact ⟨s, s', hs, r1, r2, r3⟩

/-- **ids_fresh_after_reopen, full form over guarded histories**: every row-set id and DV id the
snapshot mentions - in a row-set entry or in a delete vector - is below the generators, also after
any number of reopens (no DV outlives its row-set any more). -/
theorem ids_fresh_full (h : List Op) (g : GoodHist Store.init h) :
    ∃ s, run (.up Store.init) h = .up s ∧ (∀ k ∈ s.rowsets, k.2 < s.nextRs) ∧
      (∀ e ∈ s.dvs, e.rs < s.nextRs ∧ e.dv < s.nextDv ∧ (e.tid, e.rs) ∈ s.rowsets) :=
  let ⟨s, h1, inv⟩ := hist_inv h Store.init inv_init g
  ⟨s, h1, inv.wf.rs, fun e he => ⟨inv.wf.dv e he, inv.dvIds e he, inv.dvLive e he⟩⟩

/-- the reopened database accepts further (guarded) statements and keeps the invariant -/
theorem reopen_accepts_ops (s : Store) (inv : Inv s) (h : List Op) (g : GoodHist s (.reopen :: h)) :
    ∃ s', run (.up s) (.reopen :: h) = .up s' ∧ Inv s' :=
  hist_inv (.reopen :: h) s inv g

/-! ## The exact guard (views and indexes) -/

/-- **the guard is necessary**: a CREATE TABLE that succeeds while the counters are NOT aligned
leaves a log that does not replay to the live catalog (the table's records carry an id the replay
gives to nobody or to another table) - this is `reopen:view-shifts-table-id`. -/
theorem guard_exact (s : Store) (inv : Inv s) (d : TableDef) (id : Nat) (c' : Catalog)
    (h : s.cat.add d.name .table = some (id, c')) (hg : ¬ Guard s (.create d)) :
    ¬ Sync (s.createTable d).1 := by
  intro sy
  apply hg
  show (bootFold (replay s.manifest)).cat.nextId = s.cat.nextId
  obtain ⟨f1, _, _, _, _, _, _, _, _, f10, _⟩ := createTable_fields s d id c' h
  obtain ⟨_, _, a3⟩ := add_spec _ _ _ _ _ h
  have hok := sy.ok
  have hcat := sy.cat
  rw [f10, (sync_commit s.manifest [Rec.createTable d] inv.sync.closed (by intro r hr; simp at hr; subst hr; rfl)).2] at hok hcat
  rw [f1, a3] at hcat
  simp only [List.foldl_cons, List.foldl_nil] at hok hcat
  unfold Boot.step at hok hcat
  simp only [inv.sync.ok, Option.isSome_none, Bool.false_eq_true, if_false] at hok hcat
  cases hadd : (bootFold (replay s.manifest)).cat.add d.name .table with
  | none => simp [hadd] at hok
  | some r2 =>
    obtain ⟨id2, c2⟩ := r2
    obtain ⟨_, _, b3⟩ := add_spec _ _ _ _ _ hadd
    simp only [hadd, b3, List.filter_append, inv.sync.cat] at hcat
    have := List.append_cancel_left hcat
    simpa using this

/-- **the guard is sufficient, and views/indexes need none**: CREATE VIEW, CREATE INDEX, DROP (table
or view), INSERT, DELETE, compaction, vacuum and reopen keep the invariant unconditionally; CREATE
TABLE keeps it when the counters are aligned. -/
theorem guard_sufficient (s : Store) (inv : Inv s) (op : Op) (g : Guard s op) :
    ∃ s', (stepUp s op).1 = .up s' ∧ Inv s' :=
  step_inv s inv op g

/-- **reopen re-aligns**: after a reopen every CREATE TABLE is allowed again, whatever views and
indexes existed before (they are forgotten - `reopen:view-not-persisted` - and so are their ids). -/
theorem reopen_realigns (s : Store) (inv : Inv s) :
    ∃ s', s.reopen = .ok s' ∧ Inv s' ∧ ∀ d, Guard s' (.create d) :=
  let ⟨s', r1, r2, _, _, _, _, hal⟩ := reopen_inv s inv
  ⟨s', r1, r2, fun _ => hal⟩

/-- **table ids are stable across reopen** in every state satisfying the invariant: each table name
resolves to the same id, definition and rows; exactly the TABLE entries of the catalog survive. -/
theorem table_ids_stable_across_reopen (s : Store) (inv : Inv s) :
    ∃ s', s.reopen = .ok s' ∧ (∀ n, s'.tableId? n = s.tableId? n) ∧
      s'.cat.entries = s.cat.entries.filter (·.kind == Kind.table) ∧ s'.tables = s.tables ∧
      ∀ t, s'.scan t = s.scan t :=
  let ⟨s', r1, _, _, hent, ht, hsc, _⟩ := reopen_inv s inv
  ⟨s', r1, tableId?_of_sync hent inv.namesNodup, hent, ht, hsc⟩

/-- **without views and indexes the guard is free**: every history of the view-free fragment is
guarded, hence reaches the invariant and reopens to the same tables with the same ids - "table ids
are stable across reopen when no view / index was created". -/
theorem view_free_histories_guarded (h : List Op) (hv : h.all Op.noView = true) : GoodHist Store.init h :=
  goodHist_of_noView h Store.init inv_init aligned_init hv

theorem view_free_history_reopens (h : List Op) (hv : h.all Op.noView = true) :
    ∃ s s', run (.up Store.init) h = .up s ∧ s.reopen = .ok s' ∧ Inv s' ∧
      (∀ n, s'.tableId? n = s.tableId? n) ∧ ∀ n, s'.abs n = s.abs n := by
  obtain ⟨s, hs, inv⟩ := hist_inv h Store.init inv_init (view_free_histories_guarded h hv)
  obtain ⟨s', r1, r2, habs, hent, _, _, _⟩ := reopen_inv s inv
  exact ⟨s, s', hs, r1, r2, tableId?_of_sync hent inv.namesNodup, habs⟩

/-- a view, then a reopen, then a table: allowed (the reopen re-aligned the counters) -/
example : GoodHist Store.init [.create tA, .createView "v", .createIndex "i" "a", .insert "a" [[[.i32 1]]],
    .drop "v", .reopen, .create tB, .insert "b" [[[.i32 2]]], .reopen] := by decide
/-- a view after the last table: allowed -/
example : GoodHist Store.init [.create tA, .create tB, .createView "v", .insert "b" [[[.i32 1]]], .reopen] := by decide
/-- a table right after a view: rejected, and `viewWitness` shows the reopen then fails -/
example : ¬ GoodHist Store.init [.create tA, .createView "v", .create tB] := by decide
example : Guard Store.init (.create tA) := by decide

example : GoodHist Store.init ([.create tA, .insert "a" [[[.i32 1]], [[.i32 2]]], .compact [(0, [0, 1])],
    .delete "a" (fun r => r == [.i32 1]), .reopen, .vacuum, .drop "a", .create tA, .insert "a" [[[.null]]]] ++ [.reopen]) := by
  decide

/-- the guards are not decoration: the refutation witnesses above are exactly the histories they reject -/
example : GoodHist Store.init (staleIdWitness ++ [.insert "a" [[[.i32 5]]]]) := by decide
example : ¬ GoodHist Store.init (viewWitness ++ [.reopen]) := by decide

end RlModel
