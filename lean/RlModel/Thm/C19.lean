import RlModel.Lemmas.Value19
import RlModel.Lemmas.Text
import RlModel.Gen.ValueOrder
/-!
# C19 — values of every type compare, hash and print coherently

Property theorems about the executable model (`Model/Value19.lean`, `Model/Text.lean`).  The same
definitions run in `Drivers/C19.lean` against the real `DataValue` (`harness/src/bin/c19.rs`).

All statements quantify over the WHOLE modelled `DataValue` (`DV`, 14 variants, unbounded
integers / byte strings / vectors), not over a sample.
-/
namespace RlModel
open V19

/-! ## the translator tie: `derive(Ord)` order = declaration order of `enum DataValue` -/

/-- The variant order regenerated from src/types/value.rs is the one `DV.rank` encodes.
Fails to compile when a variant is added, removed or moved. -/
theorem rank_matches_source : Gen.ValueOrder.dataValueVariants = DV.variantNames := by decide

/-- `rank v` is the position of `v`'s variant in that list. -/
theorem rank_is_position (v : DV) : DV.variantNames[v.rank]? = some v.variantName := by
  cases v <;> rfl

/-- `DataValue` still derives all five relations (no hand-written instance replaces them). -/
theorem derives_match_source :
    ["PartialEq", "Eq", "PartialOrd", "Ord", "Hash"].all
      (fun d => Gen.ValueOrder.dataValueDerives.contains d) = true := by decide

/-- `enum DataType` variant order ("NOTE: order matters", used by `DataType::union`). -/
theorem type_order_matches_source : Gen.ValueOrder.dataTypeVariants =
    ["Null", "Bool", "Int16", "Int32", "Int64", "Float64", "Decimal", "Date", "Timestamp",
     "TimestampTz", "Interval", "String", "Blob", "Struct", "Vector"] := by decide

/-- `struct Interval` still derives its relations over the fields months, days, ms in this order
(the model's `DV.interval months days ms` compares / hashes them lexicographically in that order). -/
theorem interval_fields_match_source :
    Gen.ValueOrder.intervalFields = ["months:i32", "days:i32", "ms:i32"] := by decide

example : DV.rank (.str []) = 6 ∧ DV.variantNames[6]? = some "String" := by decide

/-! ## `cmp` is a total order on all values, consistent with `eq` -/

theorem cmp_refl (a : DV) : DV.cmp a a = .eq := by
  rw [DV.cmp_eq_lex]; exact lexCmp_refl _

/-- antisymmetry in its strongest form: swapping the arguments swaps the answer -/
theorem cmp_antisymm (a b : DV) : DV.cmp b a = (DV.cmp a b).swap := by
  rw [DV.cmp_eq_lex, DV.cmp_eq_lex]; exact lexCmp_swap _ _

theorem cmp_trans (a b c : DV) (h1 : DV.cmp a b = .lt) (h2 : DV.cmp b c = .lt) :
    DV.cmp a c = .lt := by
  rw [DV.cmp_eq_lex] at *; exact lexCmp_trans h1 h2

/-- totality: exactly one of `a < b`, `a == b`, `b < a` -/
theorem cmp_total (a b : DV) :
    (DV.cmp a b = .lt ∧ DV.cmp b a = .gt) ∨ (DV.cmp a b = .eq ∧ DV.cmp b a = .eq) ∨
    (DV.cmp a b = .gt ∧ DV.cmp b a = .lt) := by
  rw [cmp_antisymm a b]; cases DV.cmp a b <;> simp [Ordering.swap]

/-- consistency with `==`: `cmp` says Equal exactly when `PartialEq` says equal -/
theorem cmp_eq_iff_eq (a b : DV) : DV.cmp a b = .eq ↔ DV.eq a b = true := by
  rw [DV.cmp_eq_lex, lexCmp_eq_iff, DV.eq_iff_key]

/-- `==`-equal values are interchangeable in every comparison (cmp is a congruence) -/
theorem cmp_congr (a b c : DV) (h : DV.eq a b = true) : DV.cmp a c = DV.cmp b c := by
  rw [DV.eq_iff_key] at h; rw [DV.cmp_eq_lex, DV.cmp_eq_lex, h]

theorem eq_refl (a : DV) : DV.eq a a = true := (DV.eq_iff_key a a).mpr rfl
theorem eq_symm (a b : DV) (h : DV.eq a b = true) : DV.eq b a = true :=
  (DV.eq_iff_key b a).mpr ((DV.eq_iff_key a b).mp h).symm
theorem eq_trans (a b c : DV) (h1 : DV.eq a b = true) (h2 : DV.eq b c = true) : DV.eq a c = true :=
  (DV.eq_iff_key a c).mpr (((DV.eq_iff_key a b).mp h1).trans ((DV.eq_iff_key b c).mp h2))

-- non-vacuity: equal-but-not-identical values exist (−0.0 vs +0.0, 1.0 vs 1.00, two NaNs)
example : DV.eq (.f64 0x8000000000000000) (.f64 0) = true ∧ DV.f64 0x8000000000000000 ≠ .f64 0 := by
  decide
example : DV.eq (.dec ⟨false, 10, 1⟩) (.dec ⟨false, 100, 2⟩) = true := by decide
example : DV.cmp (.f64 0x7ff8000000000000) (.f64 0xfff8000000000001) = .eq := by decide
example : DV.cmp (.f64 0x7ff0000000000000) (.f64 0x7ff8000000000000) = .lt := by decide
example : DV.cmp (.interval (-1) 5 0) (.interval 0 (-5) 0) = .lt := by decide
example : DV.cmp (.str [97]) (.str [97, 0]) = .lt ∧ DV.cmp (.str [97, 0]) (.str [98]) = .lt := by
  decide

/-! ## equal values hash alike -/

/-- `a == b → hash(a) == hash(b)`: the byte streams fed to the hasher are identical -/
theorem eq_hash (a b : DV) (h : DV.eq a b = true) : DV.hashKey a = DV.hashKey b :=
  DV.hashKey_of_key ((DV.eq_iff_key a b).mp h)

example : DV.hashKey (.f64 0x8000000000000000) = DV.hashKey (.f64 0) := by decide
example : DV.hashKey (.dec ⟨false, 10, 1⟩) = DV.hashKey (.dec ⟨true, 0, 5⟩) → False := by decide

/-! ## values of different variants never compare equal (source of C11's hypothesis) -/

theorem cross_type_cmp (a b : DV) (h : a.rank ≠ b.rank) :
    DV.eq a b = false ∧ DV.cmp a b = icmp a.rank b.rank := by
  cases a <;> cases b <;> simp_all [DV.eq, DV.cmp, DV.rank]

/-- `Int32 1` and `Int64 1` are different keys for sort / group / join -/
theorem int32_int64_differ (v : Int) : DV.eq (.i32 v) (.i64 v) = false ∧ DV.cmp (.i32 v) (.i64 v) = .lt :=
  ⟨rfl, rfl⟩

/-- NULL is the least value -/
theorem null_least (v : DV) (h : v ≠ .null) : DV.cmp .null v = .lt := by
  cases v <;> first | contradiction | rfl

/-! ## SQL comparison kernels agree with `cmp` -/

/-- For two non-NULL values of the same variant for which a `cmp!` arm exists, the arm computes
`cmp`; so `a < b` (SQL) ⇔ `cmp a b = Less` ⇔ `a` sorts before `b`, and `a = b` (SQL) ⇔ `a == b`
⇔ same group / join partner. -/
theorem sql_kernel_eq_cmp (a b : DV) (o : Ordering) (h : kernelOrd a b = some o)
    (hr : a.rank = b.rank) : o = DV.cmp a b := by
  cases a <;> cases b <;> simp_all [kernelOrd, DV.cmp, DV.rank]

theorem sql_lt_iff_cmp (a b : DV) (o : Ordering) (h : kernelOrd a b = some o) (hr : a.rank = b.rank) :
    (CmpOp.lt.ofOrd o = true ↔ DV.cmp a b = .lt) ∧ (CmpOp.eq.ofOrd o = true ↔ DV.eq a b = true) := by
  rw [sql_kernel_eq_cmp a b o h hr, ← cmp_eq_iff_eq]
  simp [CmpOp.ofOrd]

/-- Across integer widths the kernel promotes and compares numerically, while `cmp` orders by
variant first: `WHERE a = b` can hold between an INT and a BIGINT that never join/group together. -/
theorem sql_cross_width (x : Int) :
    kernelOrd (.i32 x) (.i64 x) = some .eq ∧ DV.cmp (.i32 x) (.i64 x) = .lt := by
  simp [kernelOrd, icmp, DV.cmp, DV.rank]

example : kernelOrd (.dec ⟨false, 10, 1⟩) (.dec ⟨false, 100, 2⟩) = some .eq := by decide

/-! ## printing and parsing -/

/-- `parse (display d) = d` for every day chrono can represent (years −262143 ..= 262142). -/
theorem date_roundtrip (d : Int) (h : dateInRange d = true) :
    ∃ t, displayDate d = .ok t ∧ parseDate t = .ok d := by
  have hv := civilFromDays_valid d
  have hr := civilFromDays_year_range d h
  have hd := daysFromCivil_civilFromDays d
  refine ⟨fmtYmd (civilFromDays d).1 (civilFromDays d).2.1 (civilFromDays d).2.2, ?_, ?_⟩
  · simp [displayDate, h]
  · have hb := (validYmd_iff _ _ _).mp hv
    have hdim : daysInMonth (civilFromDays d).1 (civilFromDays d).2.1 ≤ 31 := by
      unfold daysInMonth; split <;> (try split) <;> omega
    unfold parseDate
    rw [scanYmd_fmtYmd _ _ _ (by omega) (by omega) (by omega) (by omega)]
    simp only [hv, hr.1, hr.2, and_self, if_true, hd]

/-- REGRESSION (fixed by 333d59c; was `display:date:out-of-range-panic`): outside chrono's range
`Date::fmt` no longer panics, it prints a fallback text … -/
theorem date_display_out_of_range_regression (d : Int) (h : dateInRange d = false) :
    displayDate d = .ok (dateFallback d) := by
  simp [displayDate, h]

/-- … which is not a date text: the round trip of such a value is a parse ERROR (known finding
`roundtrip:date:out-of-range`: `Date` admits every `i32`, the text format only chrono's years). -/
theorem date_out_of_range_unparseable (d : Int) : parseDate (dateFallback d) = .err := by
  simp [parseDate, scanYmd, scanYear, dateFallback, skipWs, isWs, takeDigits, isDigit]

example : displayDate 11016 = .ok [50, 48, 48, 48, 45, 48, 50, 45, 50, 57] := by decide
example : parseDate [50, 48, 48, 48, 45, 48, 50, 45, 50, 57] = .ok 11016 := by decide
example : parseDate [49, 57, 48, 48, 45, 48, 50, 45, 50, 57] = .err := by decide

/-- the calendar functions themselves invert each other on ALL integers (no range needed) -/
theorem civil_roundtrip (z : Int) :
    validYmd (civilFromDays z).1 (civilFromDays z).2.1 (civilFromDays z).2.2 = true ∧
    daysFromCivil (civilFromDays z).1 (civilFromDays z).2.1 (civilFromDays z).2.2 = z :=
  ⟨civilFromDays_valid z, daysFromCivil_civilFromDays z⟩

/-! ### integers, booleans, strings -/

/-- every i16 / i32 / i64 (any range, in fact) prints and parses back -/
theorem int_roundtrip (lo hi v : Int) (h : lo ≤ v ∧ v ≤ hi) :
    parseIntRange lo hi (intDigits v) = .ok v := parseIntRange_intDigits lo hi v h

example : parseIntRange i64Lo i64Hi (intDigits (-9223372036854775808)) = .ok (-9223372036854775808) :=
  int_roundtrip _ _ _ (by decide)

theorem bool_roundtrip (b : Bool) : parseBool (displayBool b) = .ok b := by cases b <;> rfl

/-- `String` Display is the identity and `push_str` stores the text as is (non-empty text; the
empty string is C20's `csv:empty-string`) -/
theorem string_roundtrip (s : Bytes) : (fun t : Bytes => (Out.ok t : Out Bytes)) s = .ok s := rfl

/-! ### blobs (full statement, after the fix c766350 of `Blob::from_str`) -/

/-- FULL statement: every blob survives Display + FromStr. -/
def BlobRoundtripFull : Prop := ∀ b : Bytes, parseBlobText (displayBlob b) = .ok b

theorem blob_roundtrip : BlobRoundtripFull :=
  fun b => parseBlob_displayBlob b _ (Nat.lt_succ_self _)

/-- REGRESSION (was `blob_roundtrip_unsound`, finding `roundtrip:blob:backslash-or-quote`): the
one-byte blobs `\` and `'` now come back as they were -/
theorem blob_backslash_quote_regression :
    parseBlobText (displayBlob [92]) = .ok [92] ∧ parseBlobText (displayBlob [39]) = .ok [39] ∧
    parseBlobText (displayBlob [92, 120, 52, 49, 39, 0]) = .ok [92, 120, 52, 49, 39, 0] := by
  decide

/-! ### intervals (full statement, after fix 2c03e9c) and timestamps -/

/-- FULL statement: every interval (i32 fields) survives Display + FromStr. -/
def IntervalRoundtripFull : Prop :=
  ∀ m d ms : Int, inI32 m = true → inI32 d = true → inI32 ms = true →
    parseInterval (displayInterval m d ms) = .ok (m, d, ms)

/-- PROVED in full since Display prints the millisecond part and `from_str` takes the unit
(negative fields, zero fields, singular/plural units, any i32 magnitude: no overflow panic on
the way back). -/
theorem interval_roundtrip : IntervalRoundtripFull :=
  fun m d ms hm hd hms => parseInterval_displayInterval m d ms hm hd hms

/-- the OLD Display (whole seconds only: the text of `ms - ms % 1000`) lost the sub-second part:
the former witness of `interval_roundtrip_unsound`, kept as a statement about the old writer … -/
theorem interval_old_display_unsound :
    ¬ (∀ m d ms : Int, inI32 m = true → inI32 d = true → inI32 ms = true →
        parseInterval (displayInterval m d (ms - Int.tmod ms 1000)) = .ok (m, d, ms)) := by
  intro h
  have := h 0 0 1 (by decide) (by decide) (by decide)
  revert this
  decide

/-- … and as a regression statement about the new one (finding `roundtrip:interval:subsecond`) -/
theorem interval_subsecond_regression :
    parseInterval (displayInterval 0 0 1) = .ok (0, 0, 1) ∧
    parseInterval (displayInterval 0 0 (-1500)) = .ok (0, 0, -1500) ∧
    displayInterval 0 0 1 = [49, 32, 109, 105, 108, 108, 105, 115, 101, 99, 111, 110, 100] := by
  decide

example : parseInterval (displayInterval (-2147483648) 2147483647 (-2147483647)) =
    .ok (-2147483648, 2147483647, -2147483647) :=
  interval_roundtrip _ _ _ (by decide) (by decide) (by decide)

example : parseInterval (displayInterval 14 3 14706000) = .ok (14, 3, 14706000) := by decide

/-- FULL statement: every timestamp that can be printed parses back to itself. -/
def TimestampRoundtripFull : Prop :=
  ∀ us : Int, tsPrintable us = true → ∀ t, displayTimestamp us = .ok t → parseTimestamp t = some (.ok us)

/-- PROVED (after the fix of `roundtrip:timestamp:subsecond` / `…:bc-year-over-4-digits`): EVERY
printable timestamp — µs precision, AD years up to +262142, BC form, signed wide years — survives
Display + FromStr, except those in chrono's very first year −262143 (its BC mirror +262143 is not a
chrono year: known finding `roundtrip:timestamp:first-chrono-year`). -/
theorem timestamp_roundtrip (us : Int) (hp : tsPrintable us = true)
    (hy : chronoMinYear < (civilFromDays ((us - thirtyYearsUs) / 86400000000)).1) :
    ∃ t, displayTimestamp us = .ok t ∧ parseTimestamp t = some (.ok us) :=
  parseTimestamp_displayTimestamp us hp hy

/-- REGRESSIONS (were `timestamp_roundtrip_unsound`, `timestamp_wholesec_roundtrip_unsound`): 1 µs,
−1 µs, 1500 µs and a whole-second timestamp in year −27251 come back exactly -/
theorem timestamp_subsecond_regression :
    (∃ t, displayTimestamp 1 = .ok t ∧ parseTimestamp t = some (.ok 1)) ∧
    (∃ t, displayTimestamp (-1) = .ok t ∧ parseTimestamp t = some (.ok (-1))) ∧
    (∃ t, displayTimestamp 1500 = .ok t ∧ parseTimestamp t = some (.ok 1500)) ∧
    (∃ t, displayTimestamp (-922097156719000000) = .ok t ∧ parseTimestamp t = some (.ok (-922097156719000000))) :=
  ⟨timestamp_roundtrip _ (by decide) (by decide), timestamp_roundtrip _ (by decide) (by decide),
   timestamp_roundtrip _ (by decide) (by decide), timestamp_roundtrip _ (by decide) (by decide)⟩

-- 1 µs after the stored epoch prints with six fraction digits
example : displayTimestamp 1 = .ok [49, 57, 52, 48, 45, 48, 49, 45, 48, 50, 32, 48, 48, 58, 48, 48, 58, 48, 48, 46, 48, 48, 48, 48, 48, 49] := by decide

/-- the remaining gap of the FULL statement: the first chrono year -/
theorem timestamp_first_year_unsound : ¬ TimestampRoundtripFull := by
  intro h
  have := h (-8334588182400000000 + thirtyYearsUs) (by decide) _ rfl
  revert this
  decide

/-! ### f64 (modelled subset: integer-valued doubles below 2^53, ±0, ±inf, NaN) and time zones

No general theorem: the subset model is validated differentially; these are kernel-checked
instances (100.0, −(2^53−1), −0.0, −inf; 0.1 is outside the subset). -/
example : (displayF64? 0x4059000000000000).bind parseF64? = some (.ok 0x4059000000000000) := by decide
example : (displayF64? 0xc33fffffffffffff).bind parseF64? = some (.ok 0xc33fffffffffffff) := by decide
example : (displayF64? 0x8000000000000000).bind parseF64? = some (.ok 0x8000000000000000) := by decide
example : (displayF64? 0xfff0000000000000).bind parseF64? = some (.ok 0xfff0000000000000) := by decide
example : displayF64? 0x3fb999999999999a = none := by decide

/-- NaN prints as `NaN` and parses to the canonical NaN, which is `==` to every NaN -/
theorem f64_nan_roundtrip (b : UInt64) (h : fIsNaN b = true) :
    ∃ t c, displayF64? b = some t ∧ parseF64? t = some (.ok c) ∧ DV.eq (.f64 c) (.f64 b) = true := by
  refine ⟨[78, 97, 78], 0x7ff8000000000000, by simp [displayF64?, h], by decide, ?_⟩
  have hc : fIsNaN 0x7ff8000000000000 = true := by decide
  simp [DV.eq, fkey, h, hc]

end RlModel
