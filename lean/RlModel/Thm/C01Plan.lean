import RlModel.Gen.PlanRules
import RlModel.Lemmas.PlanSem
import RlModel.Lemmas.PlanOrder
import RlModel.Lemmas.PlanAgg
/-!
# C01 — plan rewrite rules (property theorems)

For every rule of `src/planner/rules/{plan,order,range}.rs` that the translator can state over
the shallow relational semantics (`Gen/PlanRules.lean`, regenerated from the source on every
run as `pstmt_<rule>`): `psound_<rule> : pstmt_<rule>` — for ALL relations, predicates, key
lists, join types … satisfying the rule's side conditions and the well-formedness of its
left-hand side, both sides denote the same answer (same rows in the same order; the same bag
for the join-reordering rules) — or `punsound_<rule> : ¬ pstmt_<rule>` with a concrete witness
and `psound_<rule>_partial` under the weakest hypothesis found.
-/
set_option linter.unusedSimpArgs false
set_option linter.unusedVariables false
namespace RlModel.C01
open RlModel RlModel.P RlModel.Gen

-- cancel / merge rules ---------------------------------------------------------------------

theorem psound_limit_null : pstmt_limit_null := by
  intro c; simp [RelEq, Rel.out, limit]

theorem psound_order_null : pstmt_order_null := by
  intro c; simp [RelEq, Rel.out, order, sortRows_const_false]

theorem psound_filter_true : pstmt_filter_true := by
  intro c; simp [RelEq, Rel.out, filter]

theorem psound_filter_false : pstmt_filter_false := by
  intro c; simp [RelEq, Rel.out, filter, empty]

theorem psound_window_null : pstmt_window_null := by
  intro c; rfl

theorem psound_limit_order_topn : pstmt_limit_order_topn := by
  unfold pstmt_limit_order_topn; intros; rfl

theorem psound_filter_merge : pstmt_filter_merge := by
  intro c1 c2 r _ _
  simp [RelEq, Rel.out, filter, List.filter_filter, Bool.and_comm]

theorem psound_filter_split : pstmt_filter_split := by
  intro c1 c2 r _
  simp [RelEq, Rel.out, filter, List.filter_filter, Bool.and_comm]

/-- A filter commutes with ORDER BY: the sort is stable and its comparison a strict weak order,
so the rows that pass keep their relative order. -/
theorem psound_pushdown_filter_order : pstmt_pushdown_filter_order := by
  intro c ks r _ _
  simp only [RelEq, Rel.out, filter, order]
  rw [sortRows_filter (keysLt ks) (keysLt_strictWeak ks) (holds c) r.rows]

theorem filter_map_comm {α β} (gs : List α) (f : α → β) (q : β → Bool) (r : α → Bool)
    (h : ∀ g ∈ gs, q (f g) = r g) : (gs.map f).filter q = (gs.filter r).map f := by
  induction gs with
  | nil => rfl
  | cons g gs ih =>
    have hg := h g (by simp)
    have ih' := ih (fun x hx => h x (by simp [hx]))
    by_cases hr : r g = true
    · simp [List.filter_cons, hg, hr, ih']
    · simp [List.filter_cons, hg, hr, ih']

/-- A filter that only depends on the group keys commutes with hash aggregation: groups are
kept or dropped as a whole and the aggregates of the kept groups see the same member rows. -/
theorem psound_pushdown_filter_hashagg : pstmt_pushdown_filter_hashagg := by
  intro c ks aggs R _ _ hind hkey
  unfold RelPerm
  apply List.Perm.of_eq
  simp only [Rel.out, filter, hashagg]
  congr 1
  -- a key-level predicate, chosen classically from any row with that key
  classical
  let P : List PV → Bool := fun kv =>
    if h : ∃ ρ : Env, groupKey ks ρ = kv then holds c (Classical.choose h) else false
  have hP : ∀ ρ, holds c ρ = P (groupKey ks ρ) := by
    intro ρ
    have hex : ∃ ρ' : Env, groupKey ks ρ' = groupKey ks ρ := ⟨ρ, rfl⟩
    simp only [P, dif_pos hex]
    unfold holds
    rw [hkey ρ (Classical.choose hex) (Classical.choose_spec hex).symm]
  rw [groups_filter ks (holds c) P hP R.rows]
  apply filter_map_comm
  intro g hg
  obtain ⟨hne, hmem⟩ := groups_inv ks R.rows g hg
  obtain ⟨k, ms⟩ := g
  cases ms with
  | nil => exact absurd rfl hne
  | cons m ms =>
    have hk : groupKey ks m = k := hmem m (by simp)
    have h1 : holds c (aggRow aggs (m :: ms)) = holds c m := by
      unfold holds
      rw [hind (aggRow aggs (m :: ms)) m (fun x hx => aggRow_outside aggs m ms x hx)]
    simp only [h1, hP m, hk]

-- projection rules: a projection changes the schema only ----------------------------------

theorem psound_identical_proj : pstmt_identical_proj := by
  intro es c _ h; subst h; rfl

theorem psound_pushdown_proj_proj : pstmt_pushdown_proj_proj := by
  unfold pstmt_pushdown_proj_proj; intros; rfl

theorem psound_pushdown_proj_limit : pstmt_pushdown_proj_limit := by
  unfold pstmt_pushdown_proj_limit; intros; rfl

theorem psound_pushdown_limit_proj : pstmt_pushdown_limit_proj := by
  unfold pstmt_pushdown_limit_proj; intros; rfl

theorem psound_pushdown_proj_order : pstmt_pushdown_proj_order := by
  unfold pstmt_pushdown_proj_order; intros; rfl

theorem psound_pushdown_proj_topn : pstmt_pushdown_proj_topn := by
  unfold pstmt_pushdown_proj_topn; intros; rfl

theorem psound_pushdown_proj_filter : pstmt_pushdown_proj_filter := by
  unfold pstmt_pushdown_proj_filter; intros; rfl

theorem psound_pushdown_proj_agg : pstmt_pushdown_proj_agg := by
  unfold pstmt_pushdown_proj_agg; intros; rfl

theorem psound_pushdown_proj_hashagg : pstmt_pushdown_proj_hashagg := by
  unfold pstmt_pushdown_proj_hashagg; intros; rfl

theorem psound_pushdown_proj_join : pstmt_pushdown_proj_join := by
  unfold pstmt_pushdown_proj_join; intro es t on L R pl pr _ _ _
  cases t <;> rfl

theorem psound_pushdown_proj_scan : pstmt_pushdown_proj_scan := by
  unfold pstmt_pushdown_proj_scan; intros; rfl

theorem psound_pushdown_filter_proj : pstmt_pushdown_filter_proj := by
  unfold pstmt_pushdown_filter_proj; intros; rfl

-- order / range rules: stated relative to the scan contracts decided by C12 / C13 -------------

theorem psound_useless_order : pstmt_useless_order := by
  intro ks c _ h; simp [RelEq, Rel.out, order, h]

theorem psound_merge_join : pstmt_merge_join := by
  unfold pstmt_merge_join; intros; rfl

theorem psound_sort_agg : pstmt_sort_agg := by
  unfold pstmt_sort_agg; intros; rfl

theorem psound_filter_scan : pstmt_filter_scan := by
  intro c t cols _ _; simp [RelEq, Rel.out, scan, filter]

theorem psound_filter_scan_1 : pstmt_filter_scan_1 := by
  intro c1 c2 t cols _ _
  simp [RelEq, Rel.out, scan, filter, List.filter_filter, Bool.and_comm]

-- filter below limit / top-n: UNSOUND --------------------------------------------------------

/-- Witness: one column `0`; rows with values 0 and 1; `limit 1` keeps the first row; the
filter keeps rows whose column is 1. -/
def wRows : List Env := [fun _ => .n 0, fun _ => .n 1]
def wRel : Rel := { cols := [fun ρ => ρ 0], owned := fun x => x == 0, rows := wRows }
def wCond : BExpr := fun ρ => some (decide (ρ 0 = .n 1))

theorem wCond_reads : ReadsWithin wCond wRel.owned := by
  intro ρ ρ' h
  have := h 0 (by simp [wRel])
  simp [wCond, this]

/-- `(filter c (limit n off r)) => (limit n off (filter c r))` was an optimizer rule until `fix:`
881d3d2 removed it (and its top-N twin): it is not an equivalence.  Kept as a regression
statement: if the rule comes back, the translator emits `pstmt_pushdown_filter_limit` again and
this is its refutation. -/
theorem pushdown_filter_limit_not_equivalence :
    ¬ ∀ (c : BExpr) (n : Option Nat) (off : Nat) (r : Rel), ReadsWithin c r.owned →
      RelEq (filter c (limit n off r)) (limit n off (filter c r)) := by
  intro h
  have := h wCond (some 1) 0 wRel wCond_reads
  revert this
  simp [RelEq, Rel.out, filter, limit, wRel, wRows, wCond, holds]

theorem pushdown_filter_topn_not_equivalence :
    ¬ ∀ (c : BExpr) (n : Option Nat) (off : Nat) (ks : List Key) (r : Rel), ReadsWithin c r.owned →
      (∀ k ∈ ks, ReadsWithin k.e r.owned) →
      RelEq (filter c (topn n off ks r)) (topn n off ks (filter c r)) := by
  intro h
  have := h wCond (some 1) 0 [] wRel wCond_reads (by simp)
  revert this
  simp [RelEq, Rel.out, filter, limit, topn, order, sortRows_const_false, wRel, wRows, wCond, holds]

/-- Without a limit and offset the two rules are fine. -/
theorem psound_pushdown_filter_limit_partial (c : BExpr) (r : Rel) :
    RelEq (filter c (limit none 0 r)) (limit none 0 (filter c r)) := by
  simp [RelEq, Rel.out, filter, limit]

-- predicate pushdown through joins ------------------------------------------------------------

theorem psound_pushdown_filter_inner_join : pstmt_pushdown_filter_inner_join := by
  intro c on L R _ _ _
  simp only [RelEq, Rel.out, filter, join, joinRows, matchesL]
  congr 1
  rw [List.filter_flatMap]
  apply flatMap_congr'
  intro l _
  simp [List.filter_filter, Bool.and_comm]

/-- Expressions above a semi/anti join see the left side only. -/
theorem reads_left_indep_right {α} (c : Env → α) (L R : Rel)
    (hd : ∀ x, L.owned x = true → R.owned x = false)
    (hc : ReadsWithin c L.owned) : Indep c R.owned := by
  intro ρ ρ' h
  apply hc
  intro x hx
  exact h x (hd x hx)

theorem psound_pushdown_filter_semi_join : pstmt_pushdown_filter_semi_join := by
  intro c on L R hc hd _
  have hc' : ReadsWithin c L.owned := by
    intro ρ ρ' h; apply hc; intro x hx; apply h; simpa [join] using hx
  have hi := reads_left_indep_right c L R hd hc'
  simp only [RelEq, Rel.out, filter, join, joinRows]
  congr 1
  rw [List.filter_filter]
  apply List.filter_congr
  intro l _
  have : matchesL (bAnd on c) R.owned l R.rows = if holds c l then matchesL on R.owned l R.rows else [] := by
    unfold matchesL
    by_cases hl : holds c l = true
    · simp only [hl, if_true]
      apply List.filter_congr
      intro ρ hρ
      obtain ⟨r, _, rfl⟩ := List.mem_map.mp hρ
      have : holds c (merge R.owned l r) = true := by
        unfold holds at *; rw [merge_indep c R.owned hi l r]; exact hl
      simp [this]
    · simp only [hl]
      apply List.filter_eq_nil_iff.mpr
      intro ρ hρ
      obtain ⟨r, _, rfl⟩ := List.mem_map.mp hρ
      have : holds c (merge R.owned l r) = false := by
        unfold holds at *; rw [merge_indep c R.owned hi l r]; simpa using hl
      simp [this]
  rw [this]
  by_cases hl : holds c l = true <;> simp [hl]

theorem psound_pushdown_filter_anti_join : pstmt_pushdown_filter_anti_join := by
  intro c on L R _ _ _ _
  simp only [RelEq, Rel.out, filter, join, joinRows]
  congr 1
  simp only [List.filter_filter]
  apply List.filter_congr
  intro l _
  exact Bool.and_comm _ _

theorem psound_pushdown_filter_left_outer_join : pstmt_pushdown_filter_left_outer_join := by
  intro c on L R _ _ _ hi
  simp only [RelEq, Rel.out, filter, join, joinRows]
  congr 1
  apply filter_flatMap_const
  intro l _ ρ hρ
  cases hm : matchesL on R.owned l R.rows with
  | nil =>
    simp only [hm, List.mem_singleton] at hρ
    subst hρ
    unfold holds; rw [merge_indep c R.owned hi]
  | cons m ms =>
    simp only [hm] at hρ
    have : ρ ∈ matchesL on R.owned l R.rows := by rw [hm]; exact hρ
    unfold matchesL at this
    obtain ⟨hρ', _⟩ := List.mem_filter.mp this
    obtain ⟨r, _, rfl⟩ := List.mem_map.mp hρ'
    unfold holds; rw [merge_indep c R.owned hi]

-- join-condition pushdown: sound for some join types only ---------------------------------------

/-- Witness relations: left owns column 0 (one row, value 0), right owns column 1 (one row,
value 0). -/
def wL : Rel := { cols := [fun ρ => ρ 0], owned := fun x => x == 0, rows := [fun _ => .n 0] }
def wR : Rel := { cols := [fun ρ => ρ 1], owned := fun x => x == 1, rows := [fun _ => .n 0] }
/-- `col0 = 1`: false on the left row. -/
def wC0 : BExpr := fun ρ => some (decide (ρ 0 = .n 1))
/-- `col1 = 1`: false on the right row. -/
def wC1 : BExpr := fun ρ => some (decide (ρ 1 = .n 1))

theorem wL_wR_disjoint : ∀ x, wL.owned x = true → wR.owned x = false := by
  intro x hx
  simp only [wL, wR, beq_iff_eq] at hx ⊢
  subst hx; rfl

theorem wC0_indep_right : Indep wC0 wR.owned := by
  intro ρ ρ' h
  have := h 0 (by simp [wR])
  simp [wC0, this]

theorem wC1_indep_left : Indep wC1 wL.owned := by
  intro ρ ρ' h
  have := h 1 (by simp [wL])
  simp [wC1, this]

theorem wC0_reads : ReadsWithin wC0 (fun x => wL.owned x || wR.owned x) := by
  intro ρ ρ' h
  have := h 0 (by simp [wL])
  simp [wC0, this]

theorem wC1_reads : ReadsWithin wC1 (fun x => wL.owned x || wR.owned x) := by
  intro ρ ρ' h
  have := h 1 (by simp [wR])
  simp [wC1, this]

theorem wAnd_reads (c : BExpr) (hc : ReadsWithin c (fun x => wL.owned x || wR.owned x)) :
    ReadsWithin (bAnd c bTrue) (fun x => wL.owned x || wR.owned x) := by
  intro ρ ρ' h
  simp [bAnd, hc ρ ρ' h, bTrue]

/-- `(join ?type (and ?cond1 ?cond2) L R) => (join ?type ?cond2 (filter ?cond1 L) R)` was stated
for every join type until `fix:` 881d3d2 added `join_type_is`; for an anti join (and for left/full
outer joins) it drops left rows that the join must keep.  Witness: anti join, `cond1` false on
the only left row.  The guard of the repaired rule is therefore necessary. -/
theorem pushdown_join_condition_left_needs_type_guard :
    ¬ ∀ (t : JoinType) (c1 c2 : BExpr) (L R : Rel), (∀ x, L.owned x = true → R.owned x = false) →
      ReadsWithin (bAnd c1 c2) (fun x => L.owned x || R.owned x) → Indep c1 R.owned →
      RelEq (join t (bAnd c1 c2) L R) (join t c2 (filter c1 L) R) := by
  intro h
  have := h .anti wC0 bTrue wL wR wL_wR_disjoint (wAnd_reads wC0 wC0_reads) wC0_indep_right
  revert this
  simp [RelEq, Rel.out, join, joinRows, matchesL, filter, holds, wL, wR, wC0, bAnd, bTrue, merge, X.and3]

/-- Same for the right side and a right outer join. -/
theorem pushdown_join_condition_right_needs_type_guard :
    ¬ ∀ (t : JoinType) (c1 c2 : BExpr) (L R : Rel), (∀ x, L.owned x = true → R.owned x = false) →
      ReadsWithin (bAnd c1 c2) (fun x => L.owned x || R.owned x) → Indep c1 L.owned →
      RelEq (join t (bAnd c1 c2) L R) (join t c2 L (filter c1 R)) := by
  intro h
  have := h .rightOuter wC1 bTrue wL wR wL_wR_disjoint (wAnd_reads wC1 wC1_reads) wC1_indep_left
  revert this
  simp [RelEq, Rel.out, join, joinRows, matchesL, filter, holds, wL, wR, wC1, bAnd, bTrue, merge, X.and3]

theorem matchesL_and_left (c1 c2 : BExpr) (S : Col → Bool) (hi : Indep c1 S) (l : Env) (R : List Env) :
    matchesL (bAnd c1 c2) S l R = if holds c1 l then matchesL c2 S l R else [] := by
  unfold matchesL
  by_cases hl : holds c1 l = true
  · simp only [hl, if_true]
    apply List.filter_congr
    intro ρ hρ
    obtain ⟨r, _, rfl⟩ := List.mem_map.mp hρ
    have : holds c1 (merge S l r) = true := by
      unfold holds at *; rw [merge_indep c1 S hi l r]; exact hl
    simp [this]
  · simp only [hl]
    apply List.filter_eq_nil_iff.mpr
    intro ρ hρ
    obtain ⟨r, _, rfl⟩ := List.mem_map.mp hρ
    have : holds c1 (merge S l r) = false := by
      unfold holds at *; rw [merge_indep c1 S hi l r]; simpa using hl
    simp [this]

theorem flatMap_ite_filter {α β} (xs : List α) (q : α → Bool) (f : α → List β) :
    xs.flatMap (fun x => if q x then f x else []) = (xs.filter q).flatMap f := by
  induction xs with
  | nil => rfl
  | cons x xs ih =>
    by_cases hq : q x <;> simp [List.flatMap_cons, List.filter_cons, hq, ih]

/-- The left variant is sound for inner, semi and right-outer joins. -/
theorem psound_pushdown_join_condition_left_partial (t : JoinType)
    (ht : t = .inner ∨ t = .semi ∨ t = .rightOuter)
    (c1 c2 : BExpr) (L R : Rel) (hi : Indep c1 R.owned) :
    RelEq (join t (bAnd c1 c2) L R) (join t c2 (filter c1 L) R) := by
  rcases ht with rfl | rfl | rfl
  · simp only [RelEq, Rel.out, join, joinRows, filter]
    congr 1
    rw [← flatMap_ite_filter]
    apply flatMap_congr'
    intro l _
    exact matchesL_and_left c1 c2 R.owned hi l R.rows
  · simp only [RelEq, Rel.out, join, joinRows, filter]
    congr 1
    rw [List.filter_filter]
    apply List.filter_congr
    intro l _
    rw [matchesL_and_left c1 c2 R.owned hi l R.rows]
    by_cases hl : holds c1 l = true <;> simp [hl]
  · simp only [RelEq, Rel.out, join, joinRows, filter]
    congr 1
    apply flatMap_congr'
    intro r _
    have : (L.rows.map fun l => merge R.owned l r).filter (holds (bAnd c1 c2))
        = ((L.rows.filter (holds c1)).map fun l => merge R.owned l r).filter (holds c2) := by
      rw [holds_bAnd_fn]
      apply filter_map_and
      intro l
      unfold holds; rw [merge_indep c1 R.owned hi l r]
    rw [this]
    rfl

theorem matchesL_and_right (c1 c2 : BExpr) (SL SR : Col → Bool)
    (hd : ∀ x, SL x = true → SR x = false)
    (hw : ReadsWithin c1 (fun x => SL x || SR x)) (hi : Indep c1 SL) (l : Env) (R : List Env) :
    matchesL (bAnd c1 c2) SR l R = matchesL c2 SR l (R.filter (holds c1)) := by
  unfold matchesL
  rw [holds_bAnd_fn]
  apply filter_map_and
  intro r
  unfold holds; rw [merge_indep_left c1 SL SR hd hw hi l r]

/-- The right variant is sound for inner, semi, anti and left-outer joins. -/
theorem psound_pushdown_join_condition_right_partial (t : JoinType)
    (ht : t = .inner ∨ t = .semi ∨ t = .anti ∨ t = .leftOuter)
    (c1 c2 : BExpr) (L R : Rel)
    (hd : ∀ x, L.owned x = true → R.owned x = false)
    (hw : ReadsWithin c1 (fun x => L.owned x || R.owned x)) (hi : Indep c1 L.owned) :
    RelEq (join t (bAnd c1 c2) L R) (join t c2 L (filter c1 R)) := by
  have hm := fun l => matchesL_and_right c1 c2 L.owned R.owned hd hw hi l R.rows
  rcases ht with rfl | rfl | rfl | rfl <;>
    simp [RelEq, Rel.out, join, joinRows, filter, hm]

/-- Two joins whose conditions agree as truth values denote the same relation. -/
theorem join_of_holds_eq (t : JoinType) (on on' : BExpr) (L R : Rel)
    (h : ∀ ρ, holds on ρ = holds on' ρ) : join t on L R = join t on' L R :=
  join_congr t on on' L R (fun _ _ _ _ => h _)

theorem holds_bAnd_true (c : BExpr) (ρ : Env) : holds (bAnd c bTrue) ρ = holds c ρ := by
  unfold holds bAnd bTrue
  cases h : c ρ with
  | none => simp [X.and3]
  | some v => cases v <;> simp [X.and3]

/-- The repaired rules (`fix:` 881d3d2: `if join_type_is("?type", LEFT_PUSHABLE)`). -/
theorem psound_pushdown_join_condition_left : pstmt_pushdown_join_condition_left := by
  intro t c1 c2 L R _ _ _ hi ht
  exact psound_pushdown_join_condition_left_partial t ht c1 c2 L R hi

theorem psound_pushdown_join_condition_left_1 : pstmt_pushdown_join_condition_left_1 := by
  intro t c1 L R _ _ hi ht
  have h := psound_pushdown_join_condition_left_partial t ht c1 bTrue L R hi
  rw [join_of_holds_eq t c1 (bAnd c1 bTrue) L R (fun ρ => (holds_bAnd_true c1 ρ).symm)]
  exact h

theorem psound_pushdown_join_condition_right : pstmt_pushdown_join_condition_right := by
  intro t c1 c2 L R hd hw _ hi ht
  exact psound_pushdown_join_condition_right_partial t ht c1 c2 L R hd hw hi

theorem psound_pushdown_join_condition_right_1 : pstmt_pushdown_join_condition_right_1 := by
  intro t c1 L R hd hw hi ht
  have h := psound_pushdown_join_condition_right_partial t ht c1 bTrue L R hd hw hi
  rw [join_of_holds_eq t c1 (bAnd c1 bTrue) L R (fun ρ => (holds_bAnd_true c1 ρ).symm)]
  exact h

-- join -> hashjoin: the hash-join executor matches non-NULL keys by `DataValue` equality ----------

/-- SQL `=` is TRUE exactly when the executor's key equality holds. -/
theorem sqlEq_keyEq (a b : PV) : (sqlEq a b == some true) = keyEq a b := by
  cases a <;> cases b <;> simp [sqlEq, keyEq]

theorem holds_bEq (l r : VExpr) (ρ : Env) : holds (bEq l r) ρ = keyEq (l ρ) (r ρ) := by
  simp only [holds, bEq]; exact sqlEq_keyEq _ _

theorem keysEq_one (l r : VExpr) (ρ : Env) : (keysEq [l] [r] ρ == some true) = keyEq (l ρ) (r ρ) := by
  simp [keysEq, bTrue]

theorem keysEq_two (l1 l2 r1 r2 : VExpr) (ρ : Env) :
    (keysEq [l1, l2] [r1, r2] ρ == some true) = (keyEq (l1 ρ) (r1 ρ) && keyEq (l2 ρ) (r2 ρ)) := by
  simp [keysEq, bTrue]

theorem keysEq_three (l1 l2 l3 r1 r2 r3 : VExpr) (ρ : Env) :
    (keysEq [l1, l2, l3] [r1, r2, r3] ρ == some true)
      = (keyEq (l1 ρ) (r1 ρ) && (keyEq (l2 ρ) (r2 ρ) && keyEq (l3 ρ) (r3 ρ))) := by
  simp [keysEq, bTrue]

theorem psound_hash_join_on_one_eq : pstmt_hash_join_on_one_eq := by
  intro t l1 r1 L R hd hwl hwr hil hir
  have hl := readsWithin_of_union_indep l1 L.owned R.owned hwl hil
  have hr := readsWithin_of_union_indep r1 R.owned L.owned (readsWithin_union_comm _ _ _ hwr) hir
  rw [hashjoin_unmasked t bTrue [l1] [r1] L R (by simpa using hl) (by simpa using hr)]
  unfold RelEq
  rw [join_of_holds_eq t (bEq l1 r1) _ L R]
  intro ρ
  rw [holds_bEq]
  simp [holds, keysEq_one, bTrue]

theorem psound_hash_join_on_two_eq : pstmt_hash_join_on_two_eq := by
  intro t l1 r1 l2 r2 L R hd hw1 hv1 hw2 hv2 hi1 hi2 hj1 hj2
  have hl1 := readsWithin_of_union_indep l1 L.owned R.owned hw1 hi1
  have hl2 := readsWithin_of_union_indep l2 L.owned R.owned hw2 hi2
  have hr1 := readsWithin_of_union_indep r1 R.owned L.owned (readsWithin_union_comm _ _ _ hv1) hj1
  have hr2 := readsWithin_of_union_indep r2 R.owned L.owned (readsWithin_union_comm _ _ _ hv2) hj2
  rw [hashjoin_unmasked t bTrue [l1, l2] [r1, r2] L R
    (by intro e he; simp at he; rcases he with rfl | rfl <;> assumption)
    (by intro e he; simp at he; rcases he with rfl | rfl <;> assumption)]
  unfold RelEq
  rw [join_of_holds_eq t (bAnd (bEq l1 r1) (bEq l2 r2)) _ L R]
  intro ρ
  rw [holds_bAnd, holds_bEq, holds_bEq]
  simp [holds, keysEq_two, bTrue]

theorem psound_hash_join_on_three_eq : pstmt_hash_join_on_three_eq := by
  intro t l1 r1 l2 r2 l3 r3 L R hd hw1 hv1 hw2 hv2 hw3 hv3 hi1 hi2 hi3 hj1 hj2 hj3
  have hl1 := readsWithin_of_union_indep l1 L.owned R.owned hw1 hi1
  have hl2 := readsWithin_of_union_indep l2 L.owned R.owned hw2 hi2
  have hl3 := readsWithin_of_union_indep l3 L.owned R.owned hw3 hi3
  have hr1 := readsWithin_of_union_indep r1 R.owned L.owned (readsWithin_union_comm _ _ _ hv1) hj1
  have hr2 := readsWithin_of_union_indep r2 R.owned L.owned (readsWithin_union_comm _ _ _ hv2) hj2
  have hr3 := readsWithin_of_union_indep r3 R.owned L.owned (readsWithin_union_comm _ _ _ hv3) hj3
  rw [hashjoin_unmasked t bTrue [l1, l2, l3] [r1, r2, r3] L R
    (by intro e he; simp at he; rcases he with rfl | rfl | rfl <;> assumption)
    (by intro e he; simp at he; rcases he with rfl | rfl | rfl <;> assumption)]
  unfold RelEq
  rw [join_of_holds_eq t (bAnd (bEq l1 r1) (bAnd (bEq l2 r2) (bEq l3 r3))) _ L R]
  intro ρ
  rw [holds_bAnd, holds_bAnd, holds_bEq, holds_bEq, holds_bEq]
  simp [holds, keysEq_three, bTrue]

/-- `(join inner (and (= l r) cond) L R) => (filter cond (hashjoin inner true [l] [r] L R))` -/
theorem psound_hash_join_on_one_eq_1 : pstmt_hash_join_on_one_eq_1 := by
  intro l1 r1 c L R hd hwl hwr hwc hil hir
  have hl := readsWithin_of_union_indep l1 L.owned R.owned hwl hil
  have hr := readsWithin_of_union_indep r1 R.owned L.owned (readsWithin_union_comm _ _ _ hwr) hir
  rw [hashjoin_unmasked .inner bTrue [l1] [r1] L R (by simpa using hl) (by simpa using hr)]
  simp only [RelEq, Rel.out, filter, join, joinRows, matchesL]
  congr 1
  rw [List.filter_flatMap]
  apply flatMap_congr'
  intro l _
  rw [List.filter_filter]
  apply List.filter_congr
  intro ρ _
  rw [holds_bAnd, holds_bEq]
  simp [holds, keysEq_one, bTrue, Bool.and_comm]

theorem psound_hash_join_on_one_eq_2 : pstmt_hash_join_on_one_eq_2 := by
  intro l1 r1 c L R hd hwl hwr hwc hil hir
  have hl := readsWithin_of_union_indep l1 L.owned R.owned hwl hil
  have hr := readsWithin_of_union_indep r1 R.owned L.owned (readsWithin_union_comm _ _ _ hwr) hir
  rw [hashjoin_unmasked .semi c [l1] [r1] L R (by simpa using hl) (by simpa using hr)]
  unfold RelEq
  rw [join_of_holds_eq .semi (bAnd (bEq l1 r1) c) _ L R]
  intro ρ
  rw [holds_bAnd, holds_bEq]
  simp [holds, keysEq_one]

theorem psound_hash_join_on_one_eq_3 : pstmt_hash_join_on_one_eq_3 := by
  intro l1 r1 c L R hd hwl hwr hwc hil hir
  have hl := readsWithin_of_union_indep l1 L.owned R.owned hwl hil
  have hr := readsWithin_of_union_indep r1 R.owned L.owned (readsWithin_union_comm _ _ _ hwr) hir
  rw [hashjoin_unmasked .anti c [l1] [r1] L R (by simpa using hl) (by simpa using hr)]
  unfold RelEq
  rw [join_of_holds_eq .anti (bAnd (bEq l1 r1) c) _ L R]
  intro ρ
  rw [holds_bAnd, holds_bEq]
  simp [holds, keysEq_one]

theorem psound_hash_join_on_one_eq_rev : pstmt_hash_join_on_one_eq_rev := by
  intro t c l1 r1 L R hd hwc hl hr
  rw [hashjoin_unmasked t c [l1] [r1] L R hl hr]
  unfold RelEq
  rw [join_of_holds_eq t _ (bAnd c (bEq l1 r1)) L R]
  intro ρ
  rw [holds_bAnd, holds_bEq]
  simp [holds, keysEq_one, Bool.and_comm]

theorem psound_hash_join_on_two_eq_rev : pstmt_hash_join_on_two_eq_rev := by
  intro t c l1 l2 r1 r2 L R hd hwc hl hr
  rw [hashjoin_unmasked t c [l1, l2] [r1, r2] L R hl hr]
  unfold RelEq
  rw [join_of_holds_eq t _ (bAnd c (bAnd (bEq l1 r1) (bEq l2 r2))) L R]
  intro ρ
  rw [holds_bAnd, holds_bAnd, holds_bEq, holds_bEq]
  simp [holds, keysEq_two, Bool.and_comm]

theorem psound_hash_join_on_three_eq_rev : pstmt_hash_join_on_three_eq_rev := by
  intro t c l1 l2 l3 r1 r2 r3 L R hd hwc hl hr
  rw [hashjoin_unmasked t c [l1, l2, l3] [r1, r2, r3] L R hl hr]
  unfold RelEq
  rw [join_of_holds_eq t _ (bAnd c (bAnd (bEq l1 r1) (bAnd (bEq l2 r2) (bEq l3 r3)))) L R]
  intro ρ
  rw [holds_bAnd, holds_bAnd, holds_bAnd, holds_bEq, holds_bEq, holds_bEq]
  simp [holds, keysEq_three, Bool.and_comm]

end RlModel.C01
