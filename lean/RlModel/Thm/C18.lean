import RlModel.Lemmas.Crc
import RlModel.Lemmas.Enc
import RlModel.Gen.Consts
/-!
# C18 — corrupted column data is detected, not returned

Property theorems about `RlModel.Model.Crc`: CRC-32 (IEEE, reflected) as a linear register over
GF(2), the block trailer / index footer, `verify_checksum`, and the read path of
`Column::get_block` with its block cache.  Data of ANY length.
-/
namespace RlModel

/-! ## CRC-32 as polynomial arithmetic -/

/-- The CRC register is linear over GF(2) in (start state, input bits): running on the bitwise
xor of two equally long streams from the xor of two states gives the xor of the two runs. -/
theorem crc_linear (as bs : List Bool) (h : as.length = bs.length) (s t : Nat) :
    crcRun (s ^^^ t) (xorBits as bs) = crcRun s as ^^^ crcRun t bs :=
  crcRun_xor as bs h s t

example : crcRun (5 ^^^ 9) (xorBits [true, false, true] [false, false, true])
    = crcRun 5 [true, false, true] ^^^ crcRun 9 [false, false, true] :=
  crc_linear [true, false, true] [false, false, true] rfl 5 9

/-- Any single flipped bit of the bit stream, at any position of data of any length, changes the
CRC-32. -/
theorem crc_detects_single_bit (p q : List Bool) (b : Bool) :
    crcRun CRC_INIT (p ++ [b] ++ q) ^^^ 0xFFFFFFFF ≠ crcRun CRC_INIT (p ++ [!b] ++ q) ^^^ 0xFFFFFFFF := by
  intro h
  have h' : crcRun CRC_INIT (p ++ [b] ++ q) = crcRun CRC_INIT (p ++ [!b] ++ q) := by
    have := congrArg (· ^^^ 0xFFFFFFFF) h
    simpa [Nat.xor_assoc, Nat.xor_self, Nat.xor_zero] using this
  exact crcRun_burst (by decide) p [b] [!b] q rfl (by simp) (by cases b <;> decide) h'

/-- Any alteration confined to a window of at most 32 consecutive bits (bit streams). -/
theorem crc_detects_burst_le_32_bits (p m m' q : List Bool) (hl : m.length = m'.length)
    (h32 : m.length ≤ 32) (hne : m ≠ m') :
    crcRun CRC_INIT (p ++ m ++ q) ≠ crcRun CRC_INIT (p ++ m' ++ q) :=
  crcRun_burst (by decide) p m m' q hl h32 hne

/-- Byte form: data and data' of any length that agree outside a window of at most 4 consecutive
bytes (one flipped bit, one overwritten byte, a burst of ≤ 32 bits) have different CRC-32s. -/
theorem crc_detects_burst_le_32 (p m m' q : Bytes) (hl : m.length = m'.length)
    (h4 : m.length ≤ 4) (hne : m ≠ m') : crc32 (p ++ m ++ q) ≠ crc32 (p ++ m' ++ q) := by
  intro h
  simp only [crc32, bitsOf_append] at h
  have h' : crcRun CRC_INIT (bitsOf p ++ bitsOf m ++ bitsOf q) = crcRun CRC_INIT (bitsOf p ++ bitsOf m' ++ bitsOf q) := by
    have := congrArg (· ^^^ 0xFFFFFFFF) h
    simpa [Nat.xor_assoc, Nat.xor_self, Nat.xor_zero] using this
  refine crcRun_burst (by decide) (bitsOf p) (bitsOf m) (bitsOf m') (bitsOf q) ?_ ?_ ?_ h'
  · rw [bitsOf_length, bitsOf_length, hl]
  · rw [bitsOf_length]; omega
  · intro e; exact hne (bitsOf_inj m m' hl e)

/-- one overwritten byte (in particular one flipped bit of a byte) -/
theorem crc_detects_byte_overwrite (p q : Bytes) (x y : UInt8) (h : x ≠ y) :
    crc32 (p ++ x :: q) ≠ crc32 (p ++ y :: q) := by
  have := crc_detects_burst_le_32 p [x] [y] q rfl (by simp) (by simpa using h)
  simpa using this

example : crc32 [1, 2, 3] ≠ crc32 [1, 6, 3] := crc_detects_byte_overwrite [1] [3] 2 6 (by decide)

/-- the model's CRC on the standard check string "123456789" -/
example : crc32 [49, 50, 51, 52, 53, 54, 55, 56, 57] = 0xCBF43926 := by decide +kernel

/-! ## verification of a block (`Column::get_block` on a freshly loaded block) -/

/-- With the checksum-type and checksum fields of the trailer intact, a block whose payload/type
part was altered within a window of ≤ 4 bytes (single-bit flip, byte overwrite, ≤ 32-bit burst)
is rejected when it is loaded from disk: `Err(Checksum)` (or `Err(Decode)` when the alteration hit
the block-type field). -/
theorem verify_detects (p m m' q : Bytes) (hl : m.length = m'.length) (h4 : m.length ≤ 4) (hne : m ≠ m') :
    let body := p ++ m ++ q
    let body' := p ++ m' ++ q
    openBlock true (body' ++ beBytes 4 CkType.crc32.code ++ beBytes 8 (crc32 body)) = .error .checksum
    ∨ openBlock true (body' ++ beBytes 4 CkType.crc32.code ++ beBytes 8 (crc32 body)) = .error .decode := by
  intro body body'
  by_cases h : 4 ≤ body.length
  · exact openBlock_sealed body body' (by simp [body, body', hl]) h
      (by exact fun e => crc_detects_burst_le_32 p m m' q hl h4 hne e.symm)
  · right
    have hlen : (body' ++ beBytes 4 CkType.crc32.code ++ beBytes 8 (crc32 body)).length < 16 := by
      simp [body, body', beBytes_length] at h ⊢; omega
    simp only [openBlock, openBlockCfg]
    rw [if_pos (by simpa [BLOCK_META_SIZE] using hlen)]

example : openBlock true (([65, 0, 0, 0] ++ beBytes 4 0) ++ beBytes 4 1 ++ beBytes 8 (crc32 ([1, 0, 0, 0] ++ beBytes 4 0)))
    = .error .checksum := by decide +kernel

/-- The honest general statement for ARBITRARY alterations of the payload/type part (trailer
checksum fields intact): the load is rejected, or the altered body collides with the original
under CRC-32 (probability 2⁻³² for random alterations; no theorem can exclude it). -/
theorem verify_or_unchanged_partial (body body' : Bytes) (hl : body'.length = body.length) (h4 : 4 ≤ body.length) :
    (openBlock true (body' ++ beBytes 4 CkType.crc32.code ++ beBytes 8 (crc32 body)) = .error .checksum
      ∨ openBlock true (body' ++ beBytes 4 CkType.crc32.code ++ beBytes 8 (crc32 body)) = .error .decode)
    ∨ crc32 body' = crc32 body := by
  by_cases h : crc32 body' = crc32 body
  · exact .inr h
  · exact .inl (openBlock_sealed body body' hl h4 h)

/-! ## every read, not only the first -/

/-- a file holding one block at offset 0, read `n` times through `read` with the same cache -/
def readN (read : BlockCache → Bytes → Nat → Nat → Nat → BlockCache × Except ReadErr (Nat × Bytes))
    (file : Bytes) : Nat → BlockCache → List (Except ReadErr (Nat × Bytes))
  | 0, _ => []
  | n + 1, c => let (c', r) := read c file 0 0 file.length; r :: readN read file n c'

def isErr : Except ReadErr (Nat × Bytes) → Bool
  | .error _ => true
  | .ok _ => false

/-- FULL statement: a corrupted block (rejected when loaded) fails on EVERY read. -/
def DetectedEveryTime
    (read : BlockCache → Bytes → Nat → Nat → Nat → BlockCache × Except ReadErr (Nat × Bytes)) : Prop :=
  ∀ (file : Bytes) (n : Nat), isErr (openBlock true file) = true →
    ∀ r ∈ readN read file n {}, isErr r = true

/-- pristine block `[1,0,0,0]` of type Plain and the same block with its first byte overwritten -/
def witnessGood : Bytes := sealBlock .crc32 0 [1, 0, 0, 0]
def witnessBad : Bytes := (65 : UInt8) :: witnessGood.drop 1

/-- **Every read, not only the first** (the read path since the repair: verify, then publish).
Every one of ANY number of reads of a corrupted block through the same cache fails: a block that
does not verify is never published, so no later read can be a cache hit on it.  Induction on the
number of reads. -/
theorem detected_every_time : DetectedEveryTime getBlock := by
  intro file n hbad
  suffices ∀ c : BlockCache, c.get 0 = none → ∀ r ∈ readN getBlock file n c, isErr r = true from
    this {} rfl
  induction n with
  | zero => intro c _ r hr; simp [readN] at hr
  | succ n ih =>
    intro c hc r hr
    have hstep : getBlock c file 0 0 file.length = (c, openBlock true file) := by
      simp only [getBlock, hc]
      simp only [Nat.zero_add, Nat.lt_irrefl, ↓reduceIte, List.drop_zero, List.take_length]
      cases ho : openBlock true file with
      | error e => rfl
      | ok v => rw [ho] at hbad; simp [isErr] at hbad
    simp only [readN, hstep, List.mem_cons] at hr
    rcases hr with rfl | hr
    · exact hbad
    · exact ih c hc r hr

example : readN getBlock witnessBad 3 {} = [.error .checksum, .error .checksum, .error .checksum] := by
  decide +kernel

/-- The design before the repair (cache first, verify afterwards) did NOT have this property: first
read `Err(Checksum)`, second read `Ok` with the altered payload.  Kept machine-checked: a regression
to that design makes model and implementation disagree on the witness the check replays. -/
theorem cache_first_read_path_unsound : ¬ DetectedEveryTime getBlockCacheFirst := by
  intro h
  have := h witnessBad 2 (by decide +kernel) (.ok (0, [65, 0, 0, 0])) (by decide +kernel)
  exact absurd this (by decide)

example : readN getBlockCacheFirst witnessBad 2 {} = [.error .checksum, .ok (0, [65, 0, 0, 0])] := by decide +kernel

/-! ## alterations BETWEEN reads, evictions

`detected_every_time` reads ONE file content any number of times.  Here the file may change between any
two reads (an alteration while the database stays open) and anything may leave the cache at any time
(capacity 0, eviction).  The clause: **every block `get_block` takes from the file passes its checksum
at THAT read** — there is no per-column memory of "already verified" — so whatever is returned was
verified when it was loaded. -/

theorem openBlock_false_of_true (b : Bytes) (r : Nat × Bytes) (h : openBlock true b = .ok r) :
    openBlock false b = .ok r := by
  simp only [openBlock, openBlockCfg] at h ⊢
  by_cases hlen : b.length < BLOCK_META_SIZE
  · rw [if_pos hlen] at h; cases h
  · rw [if_neg hlen] at h ⊢
    by_cases hbt : natOfBE ((b.drop (b.length - 16)).take 4) ≥ BLOCK_TYPE_COUNT
    · rw [if_pos hbt] at h; cases h
    · rw [if_neg hbt] at h ⊢
      cases ht : CkType.ofCode? (natOfBE ((b.drop (b.length - 12)).take 4)) with
      | none => rw [ht] at h; cases h
      | some t =>
        rw [ht] at h
        simp only [↓reduceIte] at h ⊢
        cases hv : verifyStored .crc32 t (b.take (b.length - BLOCK_META_CHECKSUM_SIZE))
            (natOfBE ((b.drop (b.length - 8)).take 8)) with
        | some e => rw [hv] at h; cases h
        | none => rw [hv] at h; exact h

/-- **per read**: a read that misses the cache returns `Ok` only if the bytes that are in the file AT
THAT READ pass `openBlock true` (decode + `verify_stored_checksum`), whatever was read, verified or
cached before -/
theorem getBlock_verifies_at_that_read (c : BlockCache) (file : Bytes) (key off len : Nat)
    (hmiss : c.get key = none) (r : Nat × Bytes) (h : (getBlock c file key off len).2 = .ok r) :
    openBlock true ((file.drop off).take len) = .ok r := by
  simp only [getBlock, hmiss] at h
  split at h
  · cases h
  · split at h
    · rename_i r' hr
      simp only at h
      rw [hr]; exact h
    · cases h

/-- every entry of the cache passed decode + checksum when it was loaded -/
def CacheVerified (c : BlockCache) : Prop := ∀ e ∈ c.entries, ∃ r, openBlock true e.2 = .ok r

theorem CacheVerified.get {c : BlockCache} (hc : CacheVerified c) {k : Nat} {b : Bytes}
    (h : c.get k = some b) : ∃ r, openBlock true b = .ok r := by
  simp only [BlockCache.get, Option.map_eq_some_iff] at h
  obtain ⟨e, he, rfl⟩ := h
  exact hc e (List.mem_of_find?_eq_some he)

/-- one `get_block` against ANY file content keeps the cache verified, and whatever it returns is the
content of a block that passed its checksum (now, or when it entered the cache) -/
theorem getBlock_step (c : BlockCache) (file : Bytes) (key off len : Nat) (hc : CacheVerified c) :
    CacheVerified (getBlock c file key off len).1
    ∧ ∀ r, (getBlock c file key off len).2 = .ok r → ∃ b, openBlock true b = .ok r := by
  cases hg : c.get key with
  | some b =>
    obtain ⟨r0, hr0⟩ := hc.get hg
    simp only [getBlock, hg]
    refine ⟨hc, fun r hr => ⟨b, ?_⟩⟩
    rw [openBlock_false_of_true b r0 hr0] at hr
    rw [hr0]; exact hr
  | none =>
    refine ⟨?_, fun r hr => ⟨_, getBlock_verifies_at_that_read c file key off len hg r hr⟩⟩
    simp only [getBlock, hg]
    split
    · exact hc
    · split
      · rename_i r' hr
        intro e he
        simp only [BlockCache.insert, List.mem_cons, List.mem_filter] at he
        rcases he with rfl | ⟨he, _⟩
        · exact ⟨r', hr⟩
        · exact hc e he
      · exact hc

/-- anything may leave the cache at any time (capacity 0, eviction) -/
def BlockCache.evict (c : BlockCache) (keep : Nat → Bool) : BlockCache :=
  { entries := c.entries.filter (fun e => keep e.1) }

theorem CacheVerified.evict {c : BlockCache} (hc : CacheVerified c) (keep : Nat → Bool) :
    CacheVerified (c.evict keep) := by
  intro e he
  simp only [BlockCache.evict, List.mem_filter] at he
  exact hc e he.1

/-- what can happen to an open column: a read of block (key, off, len) with the file AS IT IS AT THAT
MOMENT (it may have been altered since the last read), or an eviction -/
inductive ColStep
  | read (file : Bytes) (key off len : Nat)
  | evict (keep : Nat → Bool)

def runSteps : BlockCache → List ColStep → List (Except ReadErr (Nat × Bytes))
  | _, [] => []
  | c, .read file key off len :: rest =>
    (getBlock c file key off len).2 :: runSteps (getBlock c file key off len).1 rest
  | c, .evict keep :: rest => runSteps (c.evict keep) rest

/-- **Every block ever returned passed its checksum at the read that loaded it**, under ANY
interleaving of reads, alterations of the file between reads, and evictions. -/
theorem every_returned_block_was_verified (steps : List ColStep) :
    ∀ (c : BlockCache), CacheVerified c → ∀ r, .ok r ∈ runSteps c steps → ∃ b, openBlock true b = .ok r := by
  induction steps with
  | nil => intro c _ r h; simp [runSteps] at h
  | cons st rest ih =>
    intro c hc r h
    cases st with
    | read file key off len =>
      obtain ⟨h1, h2⟩ := getBlock_step c file key off len hc
      simp only [runSteps, List.mem_cons] at h
      rcases h with h | h
      · exact h2 r h.symm
      · exact ih _ h1 r h
    | evict keep =>
      simp only [runSteps] at h
      exact ih _ (hc.evict keep) r h

/-- the scenario of the seeded change s7c18 (a per-column "already verified" flag): read the pristine
block, it leaves the cache, the file is altered, the block is read again — `Err`, not the altered
payload; without the eviction the second read is a cache hit on the ORIGINAL payload (fine) -/
example : runSteps {} [.read witnessGood 0 0 witnessGood.length, .evict (fun _ => false),
      .read witnessBad 0 0 witnessBad.length]
    = [.ok (0, [1, 0, 0, 0]), .error .checksum]
  ∧ runSteps {} [.read witnessGood 0 0 witnessGood.length, .read witnessBad 0 0 witnessBad.length]
    = [.ok (0, [1, 0, 0, 0]), .ok (0, [1, 0, 0, 0])] := by decide +kernel

/-! ## background compaction reads the corrupted block first

`Compactor::run` calls `compact_table` for every table on every pass (1 s timer) and only logs a
failure (`warn!("failed to compact")`); `compact_table` reads every block of the selected row-sets
through the same `Column::get_block` / block cache as a query, writes the rows into a NEW row-set
whose blocks get fresh checksums, and deletes the old row-sets. -/

/-- `n` compaction passes over a one-block column file with the same cache: `some bytes` = a new
row-set block was written (sealed with a fresh CRC), `none` = the pass failed and wrote nothing. -/
def compactN (read : BlockCache → Bytes → Nat → Nat → Nat → BlockCache × Except ReadErr (Nat × Bytes))
    (file : Bytes) : Nat → BlockCache → List (Option Bytes)
  | 0, _ => []
  | n + 1, c =>
    let (c', r) := read c file 0 0 file.length
    (match r with
      | .ok (bt, payload) => some (sealBlock .crc32 bt payload)
      | .error _ => none) :: compactN read file n c'

/-- FULL statement: no number of compaction passes over a corrupted block ever writes a row-set. -/
def NeverLaunders
    (read : BlockCache → Bytes → Nat → Nat → Nat → BlockCache × Except ReadErr (Nat × Bytes)) : Prop :=
  ∀ (file : Bytes) (n : Nat), isErr (openBlock true file) = true →
    ∀ o ∈ compactN read file n {}, o = none

/-- **Compaction never launders** (read path since the repair): no number of compaction passes over a
corrupted block ever writes a row-set — every pass fails, because the block never reaches the cache. -/
theorem compaction_never_launders : NeverLaunders getBlock := by
  intro file n hbad
  suffices ∀ c : BlockCache, c.get 0 = none → ∀ o ∈ compactN getBlock file n c, o = none from
    this {} rfl
  induction n with
  | zero => intro c _ o ho; simp [compactN] at ho
  | succ n ih =>
    intro c hc o ho
    have hstep : getBlock c file 0 0 file.length = (c, openBlock true file) := by
      simp only [getBlock, hc]
      simp only [Nat.zero_add, Nat.lt_irrefl, ↓reduceIte, List.drop_zero, List.take_length]
      cases ho' : openBlock true file with
      | error e => rfl
      | ok v => rw [ho'] at hbad; simp [isErr] at hbad
    simp only [compactN, hstep, List.mem_cons] at ho
    rcases ho with rfl | ho
    · cases ho' : openBlock true file with
      | error e => rfl
      | ok v => rw [ho'] at hbad; simp [isErr] at hbad
    · exact ih c hc o ho

example : compactN getBlock witnessBad 3 {} = [none, none, none] := by decide +kernel

/-- Before the repair the second pass read the cached corrupted block unverified and wrote it into a
new row-set **with a valid checksum** (permanent, surviving a reopen).  Kept machine-checked. -/
theorem cache_first_compaction_launders : ¬ NeverLaunders getBlockCacheFirst := by
  intro h
  have := h witnessBad 2 (by decide +kernel) (some (sealBlock .crc32 0 [65, 0, 0, 0])) (by decide +kernel)
  exact absurd this (by decide)

/-- why laundering was permanent: whatever a compaction pass read, the block it writes verifies on
a fresh load -/
theorem laundered_block_verifies (bt : Nat) (payload : Bytes) (hbt : bt < BLOCK_TYPE_COUNT) :
    openBlock true (sealBlock .crc32 bt payload) = .ok (bt, payload) :=
  openBlock_sealBlock .crc32 bt payload hbt

/-! ## the checksum type is stored in bytes that nothing protects

Since the repair of `trailer:cktype-overwrite` the reader is told the checksum type the storage is
configured with and refuses a stored type `None` under a configuration that writes checksums
(`verify_stored_checksum`).  What a 16-byte trailer next to the data can and cannot give: -/

/-- **Every accepted fresh load carries the CRC-32 of its own body** (database configured with Crc32):
whatever the 16 trailer bytes are, `get_block` returns `Ok` for a freshly loaded block only if the
stored checksum type is Crc32 and the stored checksum is the CRC-32 of the bytes before it. -/
theorem accepted_has_own_crc (blk : Bytes) (r : Nat × Bytes) (h : openBlock true blk = .ok r) :
    natOfBE ((blk.drop (blk.length - 12)).take 4) = CkType.crc32.code
    ∧ natOfBE ((blk.drop (blk.length - 8)).take 8) = crc32 (blk.take (blk.length - BLOCK_META_CHECKSUM_SIZE)) := by
  simp only [openBlock, openBlockCfg] at h
  split at h
  · cases h
  · split at h
    · cases h
    · split at h
      · cases h
      · rename_i t ht
        cases t with
        | none => simp [verifyStored] at h
        | crc32 =>
          have hc : natOfBE ((blk.drop (blk.length - 12)).take 4) = 1 := by
            generalize natOfBE ((blk.drop (blk.length - 12)).take 4) = c at ht
            match c, ht with
            | 1, _ => rfl
          refine ⟨hc, ?_⟩
          by_cases hv : verifyChecksum .crc32 (blk.take (blk.length - BLOCK_META_CHECKSUM_SIZE))
              (natOfBE ((blk.drop (blk.length - 8)).take 8)) = true
          · simp only [verifyChecksum, buildChecksum, beq_iff_eq] at hv
            exact hv.symm
          · simp [verifyStored, hv] at h

/-- **A stored checksum type `None` is refused**, whatever the rest of the block is. -/
theorem cktype_none_refused (body ck8 : Bytes) (h8 : ck8.length = 8) :
    isErr (openBlock true (body ++ beBytes 4 CkType.none.code ++ ck8)) = true := by
  cases h : openBlock true (body ++ beBytes 4 CkType.none.code ++ ck8) with
  | error e => rfl
  | ok r =>
    have := (accepted_has_own_crc _ r h).1
    rw [show (body ++ beBytes 4 CkType.none.code ++ ck8).length - 12 = body.length by
        simp [beBytes_length, h8], List.append_assoc, List.drop_left' rfl,
      List.take_left' (beBytes_length _ _)] at this
    exact absurd this (by decide)

/-- a block `body' ++ type field ++ checksum c` that is accepted has `c = crc32 body'` -/
theorem accepted_sealed (body' tb : Bytes) (c : Nat) (hc : c < 2 ^ 32) (htb : tb.length = 4) (r : Nat × Bytes)
    (h : openBlock true (body' ++ tb ++ beBytes 8 c) = .ok r) : c = crc32 body' := by
  generalize hb : body' ++ tb ++ beBytes 8 c = blk at h
  have hlen : blk.length = body'.length + 12 := by rw [← hb]; simp [beBytes_length, htb]
  have e_ck : natOfBE ((blk.drop (blk.length - 8)).take 8) = c := by
    rw [hlen, ← hb, show body'.length + 12 - 8 = (body' ++ tb).length by simp [htb],
      List.drop_left' rfl, List.take_of_length_le (by simp [beBytes_length])]
    exact natOfBE_beBytes 8 _ (Nat.lt_of_lt_of_le hc (by decide))
  have e_body : blk.take (blk.length - BLOCK_META_CHECKSUM_SIZE) = body' := by
    rw [hlen, ← hb, List.append_assoc]
    simp only [BLOCK_META_CHECKSUM_SIZE]
    rw [show body'.length + 12 - 12 = body'.length by omega, List.take_left' rfl]
  have := (accepted_has_own_crc blk r h).2
  rw [e_ck, e_body] at this
  exact this

/-- **Overwriting the checksum-type field does not switch the verification off**: with the stored
checksum intact, a body altered within a window of ≤ 4 bytes is rejected whatever the four bytes of
the type field have become (`verify_detects` without its hypothesis on the type field). -/
theorem verify_detects_any_cktype (p m m' q tb : Bytes) (hl : m.length = m'.length) (h4 : m.length ≤ 4)
    (hne : m ≠ m') (htb : tb.length = 4) :
    isErr (openBlock true ((p ++ m' ++ q) ++ tb ++ beBytes 8 (crc32 (p ++ m ++ q)))) = true := by
  cases h : openBlock true ((p ++ m' ++ q) ++ tb ++ beBytes 8 (crc32 (p ++ m ++ q))) with
  | error e => rfl
  | ok r =>
    exact absurd (accepted_sealed _ tb _ (crc32_lt _) htb r h) (crc_detects_burst_le_32 p m m' q hl h4 hne)

/-- REGRESSION (was `cktype_field_unprotected_witness`): the 12 checksum bytes overwritten with
type := None, checksum := 0 over an altered payload — refused since the repair (`Err(Decode)`); the
read that trusts the stored type (the code before the repair) accepts the altered payload. -/
theorem cktype_overwrite_regression :
    openBlock true ([65, 0, 0, 0] ++ beBytes 4 0 ++ (beBytes 4 0 ++ beBytes 8 0)) = .error .decode
    ∧ openBlockTrusting true ([65, 0, 0, 0] ++ beBytes 4 0 ++ (beBytes 4 0 ++ beBytes 8 0)) = .ok (0, [65, 0, 0, 0]) := by
  decide +kernel

/-- overwriting the checksum type alone -/
example : openBlock true (([65, 0, 0, 0] ++ beBytes 4 0) ++ beBytes 4 0 ++ beBytes 8 (crc32 ([1, 0, 0, 0] ++ beBytes 4 0)))
    = .error .decode := by decide +kernel

/-- FULL statement (kept visible; FALSE for every design that keeps an unkeyed checksum next to the
data, repaired or not): whatever is done to the 12 checksum bytes of the trailer, an altered payload is
never accepted. -/
def TrailerProtected : Prop :=
  ∀ (payload payload' : Bytes) (bt : Nat) (trailer : Bytes), trailer.length = 12 → payload' ≠ payload →
    payload'.length = payload.length →
    isErr (openBlock true (payload' ++ beBytes 4 bt ++ trailer)) = true

/-- The limit of the repair: CRC-32 is not a MAC.  An alteration that also writes the CRC-32 of the
ALTERED body into the trailer is accepted — by `accepted_has_own_crc` that is the only way, and no
random corruption model (bit flips, byte overwrites, bursts, zeroed ranges, truncation) produces it
except with probability 2⁻³². -/
theorem trailer_not_a_mac : ¬ TrailerProtected := by
  intro h
  have := h [1, 0, 0, 0] [65, 0, 0, 0] 0 (beBytes 4 1 ++ beBytes 8 (crc32 ([65, 0, 0, 0] ++ beBytes 4 0)))
    (by decide) (by decide) rfl
  exact absurd this (by decide +kernel)

/-! ## index files -/

/-- An index file whose entry bytes were altered within a ≤ 4-byte window (footer intact) fails to
open with a checksum error. -/
theorem index_open_detects (p m m' q : Bytes) (hl : m.length = m'.length) (h4 : m.length ≤ 4) (hne : m ≠ m')
    (count : Nat) :
    openIndex (sealIndexWith (p ++ m' ++ q) count .crc32 (crc32 (p ++ m ++ q))) = .error .checksum := by
  have hcrc := crc_detects_burst_le_32 p m m' q hl h4 hne
  generalize p ++ m ++ q = body at hcrc ⊢
  generalize p ++ m' ++ q = body' at hcrc ⊢
  simp only [sealIndexWith]
  generalize hb : body' ++ beBytes 4 SECONDARY_INDEX_MAGIC ++ beBytes 8 count ++ beBytes 4 CkType.crc32.code
      ++ beBytes 8 (crc32 body) = blk
  have hlen : blk.length = body'.length + 24 := by rw [← hb]; simp [beBytes_length]
  have e_body : blk.take (blk.length - 24) = body' := by
    rw [hlen, ← hb]; simp only [List.append_assoc]
    rw [show body'.length + 24 - 24 = body'.length by omega, List.take_left' rfl]
  have e_magic : natOfBE ((blk.drop (blk.length - 24)).take 4) = SECONDARY_INDEX_MAGIC := by
    rw [hlen, ← hb]; simp only [List.append_assoc]
    rw [show body'.length + 24 - 24 = body'.length by omega, List.drop_left' rfl,
      List.take_left' (beBytes_length _ _)]
    decide
  have e_ct : natOfBE ((blk.drop (blk.length - 12)).take 4) = 1 := by
    rw [hlen, ← hb]
    rw [show body'.length + 24 - 12 = (body' ++ beBytes 4 SECONDARY_INDEX_MAGIC ++ beBytes 8 count).length by
      simp [beBytes_length]]
    rw [List.append_assoc _ (beBytes 4 CkType.crc32.code), List.drop_left' rfl, List.take_left' (beBytes_length _ _)]
    decide
  have e_ck : natOfBE ((blk.drop (blk.length - 8)).take 8) = crc32 body := by
    rw [hlen, ← hb]
    rw [show body'.length + 24 - 8 = (body' ++ beBytes 4 SECONDARY_INDEX_MAGIC ++ beBytes 8 count ++ beBytes 4 CkType.crc32.code).length by
      simp [beBytes_length]]
    rw [List.drop_left' rfl, List.take_of_length_le (by simp [beBytes_length])]
    exact natOfBE_beBytes 8 _ (Nat.lt_of_lt_of_le (crc32_lt body) (by decide))
  simp only [openIndex, openIndexCfg]
  rw [if_neg (by simp only [INDEX_FOOTER_SIZE]; omega)]
  simp only [e_body, e_magic, e_ct, e_ck]
  simp [CkType.ofCode?, verifyStored, verifyChecksum, buildChecksum, Ne.symm hcrc]

/-- **The block count is cross-checked against the entries** (repair of
`idx:footer-count-unprotected`; the count itself is still outside the checksum): an index file opens
only if its entry area is exactly `count` complete length-delimited frames. -/
theorem index_count_protected (data : Bytes) (count : Nat) (body : Bytes)
    (h : openIndex data = .ok (count, body)) :
    body = data.take (data.length - 24) ∧ frameCount body.length body = some count := by
  simp only [openIndex, openIndexCfg] at h
  split at h
  · cases h
  · split at h
    · cases h
    · split at h
      · cases h
      · split at h
        · cases h
        · split at h
          · rename_i hf
            injection h with h
            injection h with h1 h2
            subst h2
            refine ⟨rfl, ?_⟩
            rw [← h1]
            simpa using hf
          · cases h

/-- hence the same entry bytes never open under two different counts: overwriting the count of an
index file (fewer blocks: rows silently dropped; more: decode past the end; huge: allocation abort)
is always refused -/
theorem index_count_unique (d1 d2 : Bytes) (c1 c2 : Nat) (body : Bytes)
    (h1 : openIndex d1 = .ok (c1, body)) (h2 : openIndex d2 = .ok (c2, body)) : c1 = c2 := by
  have e1 := (index_count_protected d1 c1 body h1).2
  have e2 := (index_count_protected d2 c2 body h2).2
  rw [e1] at e2
  exact Option.some.inj e2

/-- the same refusal of a stored type `None` as for blocks -/
theorem index_cktype_none_refused (entries : Bytes) (count cksum : Nat) :
    ∃ e, openIndex (sealIndexWith entries count .none cksum) = .error e := by
  cases h : openIndex (sealIndexWith entries count .none cksum) with
  | error e => exact ⟨e, rfl⟩
  | ok r =>
    exfalso
    generalize hb : sealIndexWith entries count .none cksum = blk at h
    have hlen : blk.length = entries.length + 24 := by rw [← hb]; simp [sealIndexWith, beBytes_length]
    have e_ct : natOfBE ((blk.drop (blk.length - 12)).take 4) = 0 := by
      rw [hlen, ← hb]
      simp only [sealIndexWith]
      rw [show entries.length + 24 - 12 = (entries ++ beBytes 4 SECONDARY_INDEX_MAGIC ++ beBytes 8 count).length by
        simp [beBytes_length]]
      rw [List.append_assoc _ (beBytes 4 CkType.none.code), List.drop_left' rfl, List.take_left' (beBytes_length _ _)]
      decide
    simp only [openIndex, openIndexCfg, e_ct, CkType.ofCode?, verifyStored] at h
    split at h
    · cases h
    · split at h
      · cases h
      · simp at h

/-- REGRESSION (was `index_count_unprotected_witness`; entry area = two one-byte frames): the right
count opens; a smaller or larger count is refused (`Err(Decode)`); the reader before the repair
opened the file with the overwritten count and announced one block. -/
theorem index_count_regression :
    openIndex (sealIndex .crc32 2 [1, 10, 1, 20]) = .ok (2, [1, 10, 1, 20])
    ∧ openIndex (sealIndexWith [1, 10, 1, 20] 1 .crc32 (crc32 [1, 10, 1, 20])) = .error .decode
    ∧ openIndex (sealIndexWith [1, 10, 1, 20] 3 .crc32 (crc32 [1, 10, 1, 20])) = .error .decode
    ∧ openIndex (sealIndexWith [1, 10, 1, 20] (2 ^ 63) .crc32 (crc32 [1, 10, 1, 20])) = .error .decode
    ∧ openIndexTrusting (sealIndexWith [1, 10, 1, 20] 1 .crc32 (crc32 [1, 10, 1, 20])) = .ok (1, [1, 10, 1, 20]) := by
  decide +kernel

/-- REGRESSION (`idx-footer:cktype-overwrite`): altered entries under type := None, checksum := 0 —
refused since the repair, accepted by the reader that trusts the stored type. -/
theorem index_cktype_overwrite_regression :
    openIndex (sealIndexWith [1, 99, 1, 20] 2 .none 0) = .error .decode
    ∧ openIndexTrusting (sealIndexWith [1, 99, 1, 20] 2 .none 0) = .ok (2, [1, 99, 1, 20]) := by
  decide +kernel

/-! ## tie to the constants regenerated from the source -/

example : Gen.BLOCK_META_SIZE = BLOCK_META_SIZE ∧ Gen.BLOCK_META_CHECKSUM_SIZE = BLOCK_META_CHECKSUM_SIZE
    ∧ Gen.SECONDARY_INDEX_MAGIC = SECONDARY_INDEX_MAGIC ∧ Gen.INDEX_FOOTER_SIZE = INDEX_FOOTER_SIZE := by decide
example : Gen.CK_None = CkType.none.code ∧ Gen.CK_CRC32 = CkType.crc32.code ∧ Gen.CK_COUNT = 2
    ∧ CkType.ofCode? Gen.CK_COUNT = none ∧ Gen.CK_DEFAULT_FOR_CLI = CkType.crc32.code := by decide
example : Gen.BT_MAX_CODE + 1 = BLOCK_TYPE_COUNT := by decide

end RlModel
