import RlModel.Lemmas.Scan
import RlModel.Lemmas.Heap
import RlModel.Lemmas.OrderSem
/-!
# C12 — ORDER BY, LIMIT and OFFSET are honoured on every storage layout

Property theorems about the executable model `RlModel/Model/Scan.lean` (the same definitions the
driver `drv_c12` runs against the implementation).  All statements quantify over every row list,
key list, chunking, number and size of row-sets.

The property for ORDER BY, `useless_order_sound`:

    isOrderBy t ks c = true → execPlan t lay c = .ok rows → execPlan t lay (.order ks c) = .ok rows

("whenever the optimizer's `useless-order` rule may fire, removing the sort does not change the
result") holds since fix d36c2ac in /repo: the executor reads keyed tables through the merging
iterator (`tableScan`), so the planner's contract `ScanContractSorted` is a THEOREM
(`scan_contract_sorted`, from `merge_heap_sorted` + `memtable_sorted`). Before the fix the scan
concatenated the row-sets and the statement was refuted (`useless_order_unsound`, finding
`order:pk-order-multi-rowset`); `concat_scan_sorted_iff` still describes that concatenating scan
(unkeyed tables, `ScanOptions::default()` at the storage API).
-/
namespace RlModel

/-! ## ORDER BY = key-sorted permutation -/

/-- The order executor's output is sorted by the keys (asc/desc per key, NULL lowest as in
`DataValue::cmp`) and is a permutation of its input. -/
theorem order_sorted_perm (ks : List OrdKey) (rows : List Row) :
    SortedBy (keyCmp ks) (sortL (keyCmp ks) rows) ∧ (sortL (keyCmp ks) rows).Perm rows :=
  ⟨sortL_sorted _ (keyCmp_laws ks) rows, sortL_perm _ rows⟩

example : sortL (keyCmp [⟨0, true⟩]) [[.i32 1], [.null], [.i32 5]] = [[.i32 5], [.i32 1], [.null]] := by decide

/-! ## LIMIT / OFFSET -/

/-- |limit n m X| = min n (|X| − m); with LIMIT absent, |X| − m. -/
theorem limit_count {α : Type} (n : Option Nat) (m : Nat) (xs : List α) :
    (limitRows n m xs).length = match n with
      | some n => min n (xs.length - m)
      | none => xs.length - m := by
  cases n <;> simp [limitRows]

example : (limitRows (some 2) 1 [10, 20, 30, 40]).length = 2 := by decide

/-- every returned row belongs to the full result, in the same relative order -/
theorem limit_subset {α : Type} (n : Option Nat) (m : Nat) (xs : List α) :
    (limitRows n m xs).Sublist xs := by
  cases n with
  | none => exact List.drop_sublist m xs
  | some n => exact (List.take_sublist n _).trans (List.drop_sublist m xs)

example : (limitRows (some 2) 1 [10, 20, 30, 40]) = [20, 30] := by decide

/-- The LIMIT executor (chunk by chunk, `processed` counter, early break) returns exactly rows
m+1..m+n of its input stream, for every chunking. -/
theorem limit_exec_spec {α : Type} (n m : Nat) (chunks : List (List α)) :
    limitExec (some n) m chunks = limitRows (some n) m chunks.flatten := by
  have := limitChunks_flatten n m 0 chunks
  simp only [limitExec, limitRows, Option.getD_some]
  rw [this]
  simp

example : limitExec (some 3) 2 [[1, 2, 3], [4], [5, 6, 7]] = [3, 4, 5] := by decide

/-- An absent LIMIT (`usize::MAX/2` in the builder) returns all remaining rows. -/
theorem absent_limit {α : Type} (m : Nat) (chunks : List (List α)) (h : chunks.flatten.length ≤ usizeHalf) :
    limitExec none m chunks = limitRows none m chunks.flatten := by
  have := limitChunks_flatten usizeHalf m 0 chunks
  simp only [limitExec, limitRows, Option.getD_none]
  rw [this]
  apply List.take_of_length_le
  simp only [List.length_drop]
  omega

example : limitRows none 2 [1, 2, 3, 4] = [3, 4] := by decide

/-- LIMIT n OFFSET m over an ordered query returns rows m+1..m+n of that order. -/
theorem order_limit_slice (ks : List OrdKey) (n m : Nat) (chunks : List (List Row)) :
    limitExec (some n) m [sortL (keyCmp ks) chunks.flatten]
      = ((sortL (keyCmp ks) chunks.flatten).drop m).take n := by
  rw [limit_exec_spec]; simp [limitRows]

/-- The top-N executor (bounded heap) equals ORDER BY followed by LIMIT/OFFSET. -/
theorem topn_eq_order_limit (ks : List OrdKey) (n m : Nat) (rows : List Row) :
    topnExec (keyCmp ks) (some n) m rows = .ok (limitRows (some n) m (sortL (keyCmp ks) rows)) := by
  simp only [topnExec, Option.getD_some, limitRows, topnState_eq]
  congr 1
  rw [List.drop_take]
  rw [List.take_take]
  congr 1
  omega

example : topnExec (keyCmp [⟨0, false⟩]) (some 2) 1 [[.i32 3], [.i32 1], [.i32 2], [.i32 0]]
    = .ok [[.i32 1], [.i32 2]] := by decide

/-- ORDER BY + OFFSET without LIMIT (planned as top-N with `limit = usize::MAX/2`) returns ALL
remaining rows of the order. (Before fix ec313d4 the eager heap allocation overflowed and the
statement returned no rows: former finding `topn:absent-limit`.) -/
theorem topn_absent_limit (ks : List OrdKey) (m : Nat) (rows : List Row) (h : rows.length ≤ usizeHalf) :
    topnExec (keyCmp ks) none m rows = .ok (limitRows none m (sortL (keyCmp ks) rows)) := by
  have hlen : (sortL (keyCmp ks) rows).length = rows.length := (sortL_perm _ rows).length_eq
  simp only [topnExec, Option.getD_none, limitRows, topnState_eq]
  congr 1
  rw [List.take_of_length_le (by omega : (sortL (keyCmp ks) rows).length ≤ m + usizeHalf)]
  apply List.take_of_length_le
  simp only [List.length_drop]
  omega

example : topnExec (keyCmp [⟨0, false⟩]) none 1 [[.i32 3], [.i32 1], [.i32 2]] = .ok [[.i32 2], [.i32 3]] := by
  rw [topn_absent_limit _ _ _ (by decide)]; decide

/-! ## Storage layout: memtable, merge scan, concat scan -/

/-- A row-set flushed by the B-tree memtable is sorted by the sort-key columns and holds exactly
the appended rows (duplicates kept). -/
theorem memtable_sorted (pk : List Nat) (rows : List Row) (h : pk ≠ []) :
    SortedBy (keyCmp (ascKeys pk)) (memtableFlush pk rows) ∧ (memtableFlush pk rows).Perm rows := by
  have : pk.isEmpty = false := by cases pk <;> simp_all
  simp only [memtableFlush, this]
  exact ⟨sortL_sorted _ (keyCmp_laws _) rows, sortL_perm _ rows⟩

example : memtableFlush [0] [[.i32 9, .i32 1], [.i32 1, .i32 2], [.i32 9, .i32 0]]
    = [[.i32 1, .i32 2], [.i32 9, .i32 1], [.i32 9, .i32 0]] := by decide

/-- MergeIterator (k-way merge by least head): sorted inputs give a sorted output that is a
permutation of the concatenation. For any number and size of inputs. -/
theorem merge_iter_sorted (ks : List OrdKey) (ls : List (List Row)) (hs : ∀ l ∈ ls, SortedBy (keyCmp ks) l) :
    SortedBy (keyCmp ks) (mergeK (keyCmp ks) (totalLen ls) ls)
      ∧ (mergeK (keyCmp ks) (totalLen ls) ls).Perm ls.flatten := by
  have hf : ls.flatten.length ≤ totalLen ls := by rw [totalLen_eq]; exact Nat.le_refl _
  exact ⟨mergeK_sorted _ (keyCmp_laws ks) _ ls hf hs, mergeK_perm _ _ ls hf⟩

example : mergeK (keyCmp [⟨0, false⟩]) 6 [[[.i32 1], [.i32 2], [.i32 9]], [[.i32 5], [.i32 6], [.i32 7]]]
    = [[.i32 1], [.i32 2], [.i32 5], [.i32 6], [.i32 7], [.i32 9]] := by decide

/-- The loop bounds and child indices of `MergeIterator::replace_pending_data`, as RE-EXTRACTED FROM
THE SOURCE on every run (`Gen/MergeHeap.lean`), are exactly those of a binary heap: left child
`2i+1`, right child `2i+2`, stop when the left child is outside `0..len`, look at the right child
iff it is inside (for a non-empty heap, which is when the loop runs). Every theorem about the merging scan below depends on this one; an off-by-one in
a bound (e.g. the seeded change `right_child < len - 1`) makes it - and them - fail. -/
theorem merge_heap_bounds : MergeBoundsExact := by
  refine ⟨?_, ?_, ?_, ?_⟩
  · intro i; simp only [Gen.mergeLeftIdx]; omega
  · intro i; simp only [Gen.mergeRightIdx]; omega
  · intro a n hn; unfold Gen.mergeLeftStop; first | rfl | (rw [decide_eq_decide]; omega)
  · intro a n hn; unfold Gen.mergeRightOk; first | rfl | (rw [decide_eq_decide]; omega)

example : Gen.mergeRightOk 2 3 = true ∧ Gen.mergeLeftStop 3 3 = true := by decide

/-- The REAL MergeIterator: array-embedded binary min-heap over the child iterators with the
code's sift-up / sift-down / pop and chunk-wise refills (`Model/Heap.lean mergeHeap`). For any
number of child iterators, any chunking, any duplicates: sorted children give a sorted output that
is a permutation of all rows. Proof: heap invariant (`siftUp_heap`, `siftDown_heap`) by induction. -/
theorem merge_heap_sorted (ks : List OrdKey) (streams : List (List (List Row)))
    (hs : ∀ s ∈ streams, SortedBy (keyCmp ks) s.flatten) :
    SortedBy (keyCmp ks) (mergeHeap (keyCmp ks) streams)
      ∧ (mergeHeap (keyCmp ks) streams).Perm (streams.map List.flatten).flatten := by
  have L := keyCmp_laws ks
  have h0 : MergeInv (keyCmp ks) ([] : List (MEntry Row)) :=
    ⟨by intro p c a b _ ha; simp at ha, by intro e he; simp at he⟩
  obtain ⟨hinv, hperm⟩ := mergeInit_spec L streams 0 [] h0 hs
  have hperm' : (remaining (mergeInit (keyCmp ks) 0 streams [])).Perm (streams.map List.flatten).flatten := by
    simpa [remaining] using hperm
  have hlen : (remaining (mergeInit (keyCmp ks) 0 streams [])).length ≤ (streams.map fun s => s.flatten.length).sum := by
    rw [hperm'.length_eq, List.length_flatten, List.map_map]
    exact Nat.le_refl _
  obtain ⟨h1, h2⟩ := mergeHeapLoop_spec merge_heap_bounds L _ _ hinv hlen
  exact ⟨h1, h2.trans hperm'⟩

example : ∀ s ∈ ([[[[.i32 1], [.i32 2]], [[.i32 9]]], [[[.i32 5], [.i32 5], [.i32 7]]], []] : List (List (List Row))),
    SortedBy (keyCmp [⟨0, false⟩]) s.flatten := by decide

/-- The REAL top-N executor (bounded binary max-heap, `into_sorted_vec`): its output is rows m+1..m+n of SOME key-sorted permutation of the
input (which rows of a tie group survive is the heap's business - exactly what ORDER BY + LIMIT
promises). The abstract `topn_eq_order_limit` is the instance with the stable sort. -/
theorem topn_heap_eq_order_limit (ks : List OrdKey) (n m : Nat) (rows : List Row) :
    ∃ sorted : List Row, sorted.Perm rows ∧ SortedBy (keyCmp ks) sorted ∧
      topnHeapExec (keyCmp ks) (some n) m rows = .ok (limitRows (some n) m sorted) := by
  have L := keyCmp_laws ks
  obtain ⟨D, inv⟩ := topnHeapState_inv L (m + n) rows
  obtain ⟨hdp, hds⟩ := heapDrain_spec L _ (topnHeapState (keyCmp ks) (m + n) rows) inv.heap (Nat.le_refl _)
  refine ⟨(heapDrain (rcmp (keyCmp ks)) (topnHeapState (keyCmp ks) (m + n) rows).length (topnHeapState (keyCmp ks) (m + n) rows)).reverse ++ sortL (keyCmp ks) D, ?_, ?_, ?_⟩
  · exact (List.Perm.append ((List.reverse_perm _).trans hdp) (sortL_perm _ D)).trans inv.perm
  · unfold SortedBy
    rw [List.pairwise_append]
    refine ⟨hds, sortL_sorted _ L D, ?_⟩
    intro a ha b hb
    exact inv.le a (hdp.mem_iff.1 (List.mem_reverse.1 ha)) b ((sortL_perm _ D).mem_iff.1 hb)
  · have hlenS : (heapDrain (rcmp (keyCmp ks)) (topnHeapState (keyCmp ks) (m + n) rows).length
        (topnHeapState (keyCmp ks) (m + n) rows)).reverse.length = (topnHeapState (keyCmp ks) (m + n) rows).length := by
      rw [List.length_reverse, hdp.length_eq]
    simp only [topnHeapExec, Option.getD_some, limitRows]
    rw [show (fun a b => keyCmp ks b a) = rcmp (keyCmp ks) from rfl]
    congr 1
    generalize (heapDrain (rcmp (keyCmp ks)) (topnHeapState (keyCmp ks) (m + n) rows).length
        (topnHeapState (keyCmp ks) (m + n) rows)).reverse = S at hlenS ⊢
    by_cases hD : D = []
    · subst hD; simp [sortL]
    · have hfull := inv.full hD
      rw [List.drop_append, List.take_append]
      have e1 : m - S.length = 0 := by omega
      have e2 : n - (List.drop m S).length = 0 := by rw [List.length_drop]; omega
      rw [e1, e2]; simp

example : ∃ rows : List Row, rows = [[.i32 3], [.i32 1], [.i32 1]] := ⟨_, rfl⟩

/-- The executor's actual scan (`ScanOptions::default()`: row-sets concatenated in snapshot
order) is key-sorted iff every row-set is sorted AND the row-sets do not overlap and come in
key order. -/
theorem concat_scan_sorted_iff (cmp : Row → Row → Ordering) (l : List RowSet) :
    SortedBy cmp (concatScan l) ↔
      (∀ rs ∈ l, SortedBy cmp rs.visible) ∧
      l.Pairwise (fun a b => ∀ x ∈ a.visible, ∀ y ∈ b.visible, leBy cmp x y) := by
  unfold SortedBy concatScan
  exact List.pairwise_flatMap

/-- The two row-sets written by `insert 1,2,9` then `insert 5,6,7` into a table keyed on column 0. -/
def witnessLayout : List RowSet :=
  [ { id := 0, rows := memtableFlush [0] [[.i32 1], [.i32 2], [.i32 9]], dead := [], blocks := [[3]] },
    { id := 1, rows := memtableFlush [0] [[.i32 5], [.i32 6], [.i32 7]], dead := [], blocks := [[3]] } ]

/-- The executor's table scan of a keyed table (fix d36c2ac): whatever the number of row-sets,
their snapshot order, blocks, delete vectors and the pushed range, key-sorted row-sets give a
key-sorted scan. -/
theorem table_scan_sorted (primary : List Nat) (lay : List RowSet) (cols : List Nat) (r : Option KeyRange)
    (rows : List Row) (hpk : primary ≠ []) (hcols : cols ≠ [])
    (hs : ∀ rs ∈ lay, SortedBy (keyCmp (ascKeys primary)) rs.rows)
    (h : tableScan primary lay cols r = .ok rows) :
    SortedBy (keyCmp (ascKeys primary)) rows := by
  have h1 : primary.isEmpty = false := by cases primary <;> simp_all
  have h2 : cols.isEmpty = false := by cases cols <;> simp_all
  unfold tableScan at h
  have hcond : (primary.isEmpty || cols.isEmpty) = false := by rw [h1, h2]; rfl
  rw [hcond] at h
  rw [if_neg (by decide)] at h
  generalize (cols ++ primary.filter fun k => !cols.contains k) = cols' at h
  cases hc : collectOut (lay.map fun rs => scanRowSetC rs cols' r) with
  | panic s => simp [hc, Out.map] at h
  | ok streams =>
    simp only [hc, Out.map, Out.ok.injEq] at h
    have hstreams : ∀ s ∈ streams, SortedBy (keyCmp (ascKeys primary)) s.flatten := by
      intro s hsm
      obtain ⟨rs, hrs, hrsc⟩ := collectOut_mem _ lay streams hc s hsm
      exact scanRowSetC_sorted _ rs _ r s hrsc (hs rs hrs)
    subst h
    split
    next s => exact hstreams s (by simp)
    next => exact (merge_heap_sorted (ascKeys primary) streams hstreams).1

/-- ... in particular under a pushed key range (`WHERE k >= c ORDER BY k`: the planner drops the
sort, the executor must still request the merging scan): the ordered-scan contract holds for range
scans too. -/
theorem table_scan_sorted_under_range (k : Nat) (lay : List RowSet) (cols : List Nat) (r : KeyRange) (rows : List Row)
    (hcols : cols ≠ []) (hs : ∀ rs ∈ lay, SortedBy (keyCmp [⟨k, false⟩]) rs.rows)
    (h : tableScan [k] lay cols (some r) = .ok rows) : SortedBy (keyCmp [⟨k, false⟩]) rows := by
  have := table_scan_sorted [k] lay cols (some r) rows (by simp) hcols (by simpa [ascKeys] using hs) h
  simpa [ascKeys] using this

example : ∃ rows, tableScan [0] witnessLayout [0] (some ⟨.incl (.i32 2), .unb⟩) = .ok rows := ⟨_, rfl⟩

/-- the former witness of the defect: both snapshot orders of `{1,2,9}`, `{5,6,7}` now scan sorted -/
theorem two_rowsets_scan_sorted (rows : List Row) :
    (tableScan [0] witnessLayout [0] none = .ok rows ∨ tableScan [0] witnessLayout.reverse [0] none = .ok rows) →
    SortedBy (keyCmp [⟨0, false⟩]) rows := by
  intro h
  rcases h with h | h
  · exact table_scan_sorted [0] witnessLayout [0] none rows (by simp) (by simp) (by decide) h
  · exact table_scan_sorted [0] witnessLayout.reverse [0] none rows (by simp) (by simp) (by decide) h

example : ∃ rows, tableScan [0] witnessLayout [0] none = .ok rows := ⟨_, rfl⟩

theorem isSortedBy_of_sorted {α : Type} (cmp : α → α → Ordering) (l : List α) (h : SortedBy cmp l) :
    isSortedBy cmp l = true := by
  induction l with
  | nil => rfl
  | cons a t ih =>
    cases t with
    | nil => rfl
    | cons b t' =>
      unfold SortedBy at h
      have h' := List.pairwise_cons.1 h
      have hab : cmp a b ≠ .gt := h'.1 b (by simp)
      simp only [isSortedBy, Bool.and_eq_true]
      exact ⟨by simpa using hab, ih h'.2⟩

/-! ## Compaction -/

theorem visible_no_dead (i : Nat) (rows : List Row) (bl : List (List Nat)) :
    ({ id := i, rows := rows, dead := [], blocks := bl } : RowSet).visible = rows := by
  unfold RowSet.visible liveRows
  have h := tagged_map_fst { id := i, rows := rows, dead := [], blocks := bl }
  simp only at h
  have hall : ∀ x ∈ ({ id := i, rows := rows, dead := [], blocks := bl } : RowSet).tagged, x.2 = true := by
    intro x hx
    unfold RowSet.tagged at hx
    obtain ⟨y, _, rfl⟩ := List.mem_map.1 hx
    simp
  rw [List.filter_eq_self.2 hall]
  exact h

/-- A compaction pass over ≥ 2 key-sorted row-sets leaves one row-set holding exactly the visible
rows, in key order: after it the concatenating scan IS sorted (until the next INSERT). -/
theorem compaction_sorted_perm (pk : List Nat) (hpk : pk ≠ []) (n : Nat) (l : List RowSet)
    (hs : ∀ rs ∈ l, SortedBy (keyCmp (ascKeys pk)) rs.visible) :
    (concatScan (compactAll pk n l).1).Perm (concatScan l)
      ∧ (2 ≤ l.length → SortedBy (keyCmp (ascKeys pk)) (concatScan (compactAll pk n l).1)) := by
  have hpk' : pk.isEmpty = false := by cases pk <;> simp_all
  unfold compactAll
  by_cases hlen : l.length ≤ 1
  · simp only [hlen, if_true]
    exact ⟨List.Perm.refl _, fun h => by omega⟩
  · simp only [hlen, if_false, hpk', Bool.false_eq_true]
    have hm := merge_iter_sorted (ascKeys pk) (l.map RowSet.visible) (by
      intro x hx
      obtain ⟨rs, hrs, rfl⟩ := List.mem_map.1 hx
      exact hs rs hrs)
    have hflat : (l.map RowSet.visible).flatten = concatScan l := by
      simp [concatScan, List.flatMap]
    split
    next hemp =>
      have : mergeK (keyCmp (ascKeys pk)) (totalLen (l.map RowSet.visible)) (l.map RowSet.visible) = [] := by
        simpa using hemp
      refine ⟨?_, fun _ => by simp [concatScan, SortedBy]⟩
      rw [← hflat]
      have := hm.2
      rw [‹mergeK _ _ _ = []›] at this
      simpa [concatScan] using this
    next hne =>
      simp only [concatScan, List.flatMap_cons, List.flatMap_nil, List.append_nil, visible_no_dead]
      exact ⟨by rw [← concatScan, ← hflat]; exact hm.2, fun _ => hm.1⟩

example : (compactAll [0] 2 witnessLayout).1.map (·.rows) = [[[.i32 1], [.i32 2], [.i32 5], [.i32 6], [.i32 7], [.i32 9]]] := by decide

/-! ## Reachable layouts -/

theorem visible_sorted (cmp : Row → Row → Ordering) (rs : RowSet) (h : SortedBy cmp rs.rows) : SortedBy cmp rs.visible := by
  unfold RowSet.visible
  have := liveRows_sublist_map_fst rs.tagged
  rw [tagged_map_fst] at this
  exact List.Pairwise.sublist this h

theorem applyStoreOp_sorted (pk : List Nat) (hpk : pk ≠ []) (st : List RowSet × Nat) (op : StoreOp)
    (h : ∀ rs ∈ st.1, SortedBy (keyCmp (ascKeys pk)) rs.rows) :
    ∀ rs ∈ (applyStoreOp pk st op).1, SortedBy (keyCmp (ascKeys pk)) rs.rows := by
  obtain ⟨l, n⟩ := st
  cases op with
  | ins rows =>
    intro rs hrs
    simp only [applyStoreOp, List.mem_append, List.mem_singleton] at hrs
    rcases hrs with hrs | rfl
    · exact h rs hrs
    · exact (memtable_sorted pk rows hpk).1
  | del c v1 v2 =>
    intro rs hrs
    simp only [applyStoreOp, List.mem_map] at hrs
    obtain ⟨rs0, h0, rfl⟩ := hrs
    exact h rs0 h0
  | delRange c r =>
    intro rs hrs
    simp only [applyStoreOp, List.mem_map] at hrs
    obtain ⟨rs0, h0, rfl⟩ := hrs
    exact h rs0 h0
  | compact =>
    intro rs hrs
    simp only [applyStoreOp] at hrs
    have hpk' : pk.isEmpty = false := by cases pk <;> simp_all
    unfold compactAll at hrs
    by_cases hlen : l.length ≤ 1
    · simp only [hlen, if_true] at hrs
      exact h rs hrs
    · simp only [hlen, if_false, hpk', Bool.false_eq_true] at hrs
      split at hrs
      · cases hrs
      · simp only [List.mem_singleton] at hrs
        subst hrs
        exact (merge_iter_sorted (ascKeys pk) (l.map RowSet.visible) (by
          intro x hx
          obtain ⟨r0, hr0, rfl⟩ := List.mem_map.1 hx
          exact visible_sorted _ r0 (h r0 hr0))).1

/-- Every row-set a write history can produce on a keyed table is key-sorted: the hypothesis
`hsorted` of the range-scan and table-scan theorems holds for every reachable layout. -/
theorem reachable_rowsets_sorted (pk : List Nat) (hpk : pk ≠ []) (ops : List StoreOp) :
    ∀ rs ∈ (replayStore pk ops).1, SortedBy (keyCmp (ascKeys pk)) rs.rows := by
  unfold replayStore
  suffices H : ∀ (ops : List StoreOp) (st : List RowSet × Nat), (∀ rs ∈ st.1, SortedBy (keyCmp (ascKeys pk)) rs.rows) →
      ∀ rs ∈ (ops.foldl (applyStoreOp pk) st).1, SortedBy (keyCmp (ascKeys pk)) rs.rows by
    exact H ops ([], 0) (by intro rs hrs; cases hrs)
  intro ops
  induction ops with
  | nil => intro st h; exact h
  | cons op ops ih =>
    intro st h
    exact ih _ (applyStoreOp_sorted pk hpk st op h)

example : (replayStore [0] [.ins [[.i32 9], [.i32 1]], .ins [[.i32 5]], .del 0 (.i32 1) (.i32 7), .compact]).1.map (·.rows)
    = [[[.i32 5], [.i32 9]]] := by decide

/-! ## The planner's order analysis and the `useless-order` rule -/

/-- What the planner assumes of the storage engine (`Config.table_is_sorted_by_primary_key`):
every scan that includes a primary-key column returns rows in ascending order of the first
such column. -/
def ScanContractSorted (t : TableMeta) (lay : List RowSet) : Prop :=
  ∀ cols f rows c, tableScan t.primary lay cols (keyRangeOfFilter f) = .ok rows →
    cols.find? (fun c => t.primary.contains c) = some c → SortedBy (keyCmp [⟨c, false⟩]) rows

theorem sortedBy_nil_keys (rows : List Row) : SortedBy (keyCmp []) rows := by
  unfold SortedBy
  induction rows with
  | nil => simp
  | cons a t ih => exact List.pairwise_cons.2 ⟨fun _ _ => by simp [leBy, keyCmp], ih⟩

/-- a scan node returns the table scan's rows, possibly filtered by a residual (non-range) filter -/
theorem execPlan_scan_sublist (t : TableMeta) (lay : List RowSet) (cols : List Nat) (f : Expr) (rows : List Row)
    (h : execPlan t lay (.scan cols f) = .ok rows) :
    ∃ rows0, tableScan t.primary lay cols (keyRangeOfFilter f) = .ok rows0 ∧ rows.Sublist rows0 := by
  simp only [execPlan] at h
  cases hts : tableScan t.primary lay cols (keyRangeOfFilter f) with
  | panic s =>
    rw [hts] at h
    split at h
    · cases h
    · split at h <;> simp [Out.map] at h
  | ok rows0 =>
    rw [hts] at h
    refine ⟨rows0, rfl, ?_⟩
    split at h
    · cases h; exact List.Sublist.refl _
    · split at h
      · simp only [Out.map, Out.ok.injEq] at h
        subst h
        exact List.filter_sublist
      · cases h; exact List.Sublist.refl _

/-- `analyze_order` is sound under the scan contract: every plan's output is sorted by the key
list the analysis assigns to it. -/
theorem order_analysis_sound (t : TableMeta) (lay : List RowSet) (hc : ScanContractSorted t lay)
    (p : Plan) (rows : List Row) (h : execPlan t lay p = .ok rows) :
    SortedBy (keyCmp (analyzeOrder t p)) rows := by
  induction p generalizing rows with
  | scan cols f =>
    simp only [analyzeOrder]
    split
    · split
      next c hfind =>
        obtain ⟨rows0, h0, hsub⟩ := execPlan_scan_sublist t lay cols f rows h
        exact List.Pairwise.sublist hsub (hc cols f rows0 c h0 hfind)
      next => exact sortedBy_nil_keys rows
    · exact sortedBy_nil_keys rows
  | filter c p ih =>
    simp only [execPlan] at h
    cases hp : execPlan t lay p with
    | panic s => simp [hp, Out.map] at h
    | ok r =>
      simp only [hp, Out.map, Out.ok.injEq] at h
      subst h
      exact List.Pairwise.filter _ (ih r hp)
  | proj cs p ih => exact ih rows h
  | empty p _ =>
    simp only [execPlan, Out.ok.injEq] at h
    subst h
    simp [SortedBy]
  | order ks p _ =>
    simp only [execPlan] at h
    cases hp : execPlan t lay p with
    | panic s => simp [hp, Out.map] at h
    | ok r =>
      simp only [hp, Out.map, Out.ok.injEq] at h
      subst h
      exact sortL_sorted _ (keyCmp_laws ks) r
  | limit n m p ih =>
    simp only [execPlan] at h
    cases hp : execPlan t lay p with
    | panic s => simp [hp, Out.map] at h
    | ok r =>
      simp only [hp, Out.map, Out.ok.injEq] at h
      subst h
      have hsub : (limitExec n m [r]).Sublist r := by
        have := limitChunks_flatten (n.getD usizeHalf) m 0 [r]
        simp only [limitExec]
        rw [this]
        simp only [List.flatten_cons, List.flatten_nil, List.append_nil]
        exact (List.take_sublist _ _).trans (List.drop_sublist _ _)
      exact List.Pairwise.sublist hsub (ih r hp)
  | topn n m ks p _ =>
    simp only [execPlan] at h
    cases hp : execPlan t lay p with
    | panic s => simp [hp, Out.bind] at h
    | ok r =>
      simp only [hp, Out.bind, topnExec, Out.ok.injEq] at h
      subst h
      rw [topnState_eq]
      have hs := sortL_sorted _ (keyCmp_laws ks) r
      exact List.Pairwise.sublist
        ((List.take_sublist _ _).trans ((List.drop_sublist _ _).trans (List.take_sublist _ _))) hs

theorem sortedBy_prefix (ks1 ks2 : List OrdKey) (rows : List Row) (h : SortedBy (keyCmp (ks1 ++ ks2)) rows) :
    SortedBy (keyCmp ks1) rows := by
  unfold SortedBy at *
  exact List.Pairwise.imp (fun {a b} hab => keyCmp_prefix_le ks1 ks2 a b hab) h

/-- `useless-order` (`(order ?keys ?child) => ?child if is_orderby`) is sound UNDER the scan
contract: removing the sort does not change the rows at all. -/
theorem useless_order_sound_partial (t : TableMeta) (lay : List RowSet) (hc : ScanContractSorted t lay)
    (ks : List OrdKey) (c : Plan) (rows : List Row)
    (hrule : isOrderBy t ks c = true) (h : execPlan t lay c = .ok rows) :
    execPlan t lay (.order ks c) = .ok rows := by
  have hs := order_analysis_sound t lay hc c rows h
  have hpre : ∃ rest, analyzeOrder t c = ks ++ rest := by
    have := List.isPrefixOf_iff_prefix.1 hrule
    rcases this with ⟨rest, hr⟩
    exact ⟨rest, hr.symm⟩
  rcases hpre with ⟨rest, hr⟩
  rw [hr] at hs
  have := sortL_of_sorted _ (keyCmp_laws ks) rows (sortedBy_prefix ks rest rows hs)
  simp [execPlan, h, Out.map, this]

example : isOrderBy { primary := [0], sortedByPk := true } [⟨0, false⟩] (.filter (.const (.bool true)) (.scan [0, 1] (.const (.bool true)))) = true := by
  decide

/-- The planner's scan contract HOLDS for the scan the executor performs (fix d36c2ac), for tables
with one sort-key column whose row-sets are key-sorted (`memtable_sorted`, `compaction_sorted_perm`). -/
theorem scan_contract_sorted (t : TableMeta) (lay : List RowSet) (k : Nat) (hk : t.primary = [k])
    (hs : ∀ rs ∈ lay, SortedBy (keyCmp [⟨k, false⟩]) rs.rows) : ScanContractSorted t lay := by
  intro cols f rows c hscan hfind
  have hc : c = k := by
    have := List.find?_some hfind
    simpa [hk] using this
  subst hc
  have hcols : cols ≠ [] := by
    intro he; subst he; simp at hfind
  rw [hk] at hscan
  exact table_scan_sorted [c] lay cols _ rows (by simp) hcols (by simpa [ascKeys] using hs) hscan

/-- `useless-order` is sound for the code that exists: when `is_orderby` holds, removing the sort
does not change the rows. -/
theorem useless_order_sound (t : TableMeta) (lay : List RowSet) (k : Nat) (hk : t.primary = [k])
    (hs : ∀ rs ∈ lay, SortedBy (keyCmp [⟨k, false⟩]) rs.rows)
    (ks : List OrdKey) (c : Plan) (rows : List Row)
    (hrule : isOrderBy t ks c = true) (h : execPlan t lay c = .ok rows) :
    execPlan t lay (.order ks c) = .ok rows :=
  useless_order_sound_partial t lay (scan_contract_sorted t lay k hk hs) ks c rows hrule h

/-- ... and for EVERY layout a write history (INSERTs, DELETEs, compaction passes) produces - no
hypothesis on the stored rows is left. -/
theorem useless_order_sound_reachable (t : TableMeta) (k : Nat) (hk : t.primary = [k]) (ops : List StoreOp)
    (ks : List OrdKey) (c : Plan) (rows : List Row)
    (hrule : isOrderBy t ks c = true) (h : execPlan t (replayStore t.primary ops).1 c = .ok rows) :
    execPlan t (replayStore t.primary ops).1 (.order ks c) = .ok rows := by
  have hs := reachable_rowsets_sorted t.primary (by rw [hk]; simp) ops
  rw [hk] at hs
  exact useless_order_sound t _ k hk (by rw [hk]; simpa [ascKeys] using hs) ks c rows hrule h

def witnessTable : TableMeta := { primary := [0], sortedByPk := true }

example : isOrderBy witnessTable [⟨0, false⟩] (.scan [0] (.const (.bool true))) = true
    ∧ ∀ rs ∈ witnessLayout, SortedBy (keyCmp [⟨0, false⟩]) rs.rows := by decide


/-! ## The arms of `analyze_order`, regenerated from the source (`Gen/OrderArms.lean`)

For every operator with an explicit arm the check requires a theorem `order_arm_<Op>`: if the
children's outputs are sorted by the orders claimed for them, the operator's output (as the
executor emits it, `Model/OrderSem.lean`) is sorted by the order the arm claims. A new or changed
arm without such a theorem is an undischarged obligation. -/

theorem sorted_of_eq_nil {ks : List OrdKey} (h : ks = []) (rows : List Row) : SortedBy (keyCmp ks) rows := by
  subst h; exact sortedBy_nil_keys rows

/-- arm `Scan`: the claim is the planner's scan contract, which the executor's scan of a keyed
table satisfies (`scan_contract_sorted`: merge of key-sorted row-sets, also under a pushed range). -/
theorem order_arm_Scan (t : TableMeta) (lay : List RowSet) (k : Nat) (hk : t.primary = [k])
    (hs : ∀ rs ∈ lay, SortedBy (keyCmp [⟨k, false⟩]) rs.rows) (cols : List Nat) (f : Expr) (rows : List Row)
    (h : tableScan t.primary lay cols (keyRangeOfFilter f) = .ok rows) :
    SortedBy (keyCmp (Gen.claim_Scan t.sortedByPk t.primary cols)) rows := by
  unfold Gen.claim_Scan
  split
  · split
    next c hfind => exact scan_contract_sorted t lay k hk hs cols f rows c h hfind
    next => exact sortedBy_nil_keys rows
  · exact sortedBy_nil_keys rows

theorem order_arm_Order (ks xc : List OrdKey) (rows : List Row) :
    SortedBy (keyCmp (Gen.claim_Order ks xc)) (opOrder ks rows) :=
  sortL_sorted _ (keyCmp_laws ks) rows

theorem order_arm_TopN (n : Option Nat) (m : Nat) (ks xc : List OrdKey) (rows : List Row) :
    SortedBy (keyCmp (Gen.claim_TopN ks xc)) (opTopN n m ks rows) :=
  List.Pairwise.sublist (limit_subset n m _) (sortL_sorted _ (keyCmp_laws ks) rows)

theorem order_arm_Proj (keys xc : List OrdKey) (rows : List Row) (h : SortedBy (keyCmp xc) rows) :
    SortedBy (keyCmp (Gen.claim_Proj keys xc)) (opProj rows) := h

theorem order_arm_Filter (keys xc : List OrdKey) (p : Row → Bool) (rows : List Row) (h : SortedBy (keyCmp xc) rows) :
    SortedBy (keyCmp (Gen.claim_Filter keys xc)) (opFilter p rows) :=
  List.Pairwise.filter _ h

theorem order_arm_Window (keys xc : List OrdKey) (rows : List Row) (h : SortedBy (keyCmp xc) rows) :
    SortedBy (keyCmp (Gen.claim_Window keys xc)) (opWindow rows) := h

theorem order_arm_Limit (keys xc : List OrdKey) (n : Option Nat) (m : Nat) (rows : List Row) (h : SortedBy (keyCmp xc) rows) :
    SortedBy (keyCmp (Gen.claim_Limit keys xc)) (opLimit n m rows) :=
  List.Pairwise.sublist (limit_subset n m rows) h

/-- arm `SortAgg`: one output row per run of equal group keys, in input order. -/
theorem order_arm_SortAgg (keys xc : List OrdKey) (gk : List Nat) (rows : List Row) (h : SortedBy (keyCmp xc) rows) :
    SortedBy (keyCmp (Gen.claim_SortAgg keys xc)) (opSortAgg gk rows) :=
  List.Pairwise.sublist (runHeads_sublist _ _ rows) h

/-- arm `MergeJoin` since fix in /repo (`Inner | RightOuter => x(rkeys)`, `LeftOuter => x(lkeys)`,
others nothing): the output of a merge join whose inputs are sorted by their join keys is sorted
by the right join keys (inner, right outer: no row's right side is padding) resp. the left join
keys (left outer) - at full strength, no hypothesis on what else the inputs are ordered by. -/
theorem order_arm_MergeJoin (t : JT) (mg : Row → Row → Row) (lk rk : List Nat) (xl xr : List OrdKey)
    (L R : List Row) (hL : SortedBy (keyCmp (ascKeys lk)) L) (hR : SortedBy (keyCmp (ascKeys rk)) R)
    (hmgL : ∀ l r, SameKeyCols (ascKeys lk) (mg l r) l) (hmgR : ∀ l r, SameKeyCols (ascKeys rk) (mg l r) r) :
    SortedBy (keyCmp (Gen.claim_MergeJoin t (ascKeys lk) (ascKeys rk) xl xr)) (opMergeJoin t mg lk rk L R) := by
  have hgroup : ∀ g ∈ runs (sameKeys rk) R, ∀ a ∈ g, ∀ b ∈ g, keyCmp (ascKeys rk) a b = .eq := by
    intro g hg a ha b hb
    obtain ⟨hs, ht, hr⟩ := sameKeys_equiv rk
    exact keyCmp_eq_of_sameKeys rk a b (runs_equiv (sameKeys rk) hs ht hr R g hg a ha b hb)
  have inner_right : ∀ (pad : Bool),
      SortedBy (keyCmp (ascKeys rk)) ((runs (sameKeys rk) R).flatMap (mjBlock pad mg lk rk L)) := by
    intro pad
    have hblock : ∀ g, ∀ y ∈ mjBlock pad mg lk rk L g, ∃ r ∈ g, SameKeyCols (ascKeys rk) y r := by
      intro g y hy
      unfold mjBlock at hy
      split at hy
      · split at hy
        · exact ⟨y, hy, fun _ _ => rfl⟩
        · cases hy
      · obtain ⟨l, _, hy'⟩ := List.mem_flatMap.1 hy
        obtain ⟨r, hr, rfl⟩ := List.mem_map.1 hy'
        exact ⟨r, hr, hmgR l r⟩
    have hRf : SortedBy (keyCmp (ascKeys rk)) (runs (sameKeys rk) R).flatten := by rw [runs_flatten]; exact hR
    unfold SortedBy at hRf ⊢
    rw [List.pairwise_flatten] at hRf
    rw [List.pairwise_flatMap]
    refine ⟨?_, ?_⟩
    · intro g hg
      apply List.pairwise_of_forall_mem_list
      intro y hy y' hy'
      obtain ⟨r, hr, hyr⟩ := hblock g y hy
      obtain ⟨r', hr', hyr'⟩ := hblock g y' hy'
      refine le_of_sameKeyCols _ hyr hyr' ?_
      unfold leBy; rw [hgroup g hg r hr r' hr']; simp
    · exact hRf.2.imp (fun hgg y hy y' hy' => by
        obtain ⟨r, hr, hyr⟩ := hblock _ y hy
        obtain ⟨r', hr', hyr'⟩ := hblock _ y' hy'
        exact le_of_sameKeyCols _ hyr hyr' (hgg r hr r' hr'))
  cases t with
  | leftOuter =>
    simp only [Gen.claim_MergeJoin, opMergeJoin]
    apply sorted_flatMap_blocks _ L _ hL
    intro l _ y hy
    split at hy
    · simp at hy; subst hy; exact fun _ _ => rfl
    · obtain ⟨r, _, rfl⟩ := List.mem_map.1 hy
      exact hmgL l r
  | inner =>
    simp only [Gen.claim_MergeJoin, opMergeJoin]
    exact inner_right false
  | rightOuter =>
    simp only [Gen.claim_MergeJoin, opMergeJoin]
    exact inner_right true
  | fullOuter => exact sorted_of_eq_nil rfl _
  | semi => exact sorted_of_eq_nil rfl _
  | anti => exact sorted_of_eq_nil rfl _

example : opMergeJoin .leftOuter (mergeRow 4 [2, 3]) [0] [2]
    [[.i32 1, .i32 10, .null, .null], [.i32 4, .i32 40, .null, .null]] [[.null, .null, .i32 1, .i32 7]]
    = [[.i32 1, .i32 10, .i32 1, .i32 7], [.i32 4, .i32 40, .null, .null]] := by decide

/-- Regression of `order:mergejoin-input-order-longer-than-join-key` (the arm used to claim the right
input's WHOLE order): an inner merge join whose right input is ordered by (key, w DESC) and whose
left input has a duplicate key emits w = 101, 100, 101, 100 - ordered by the join key, which is all
the arm claims now, NOT by (key, w DESC). corpus/C12/mergejoin_longer_order.case. -/
theorem mergejoin_order_claim_needs_group_eq :
    let L : List Row := [[.i32 1, .i32 10, .null, .null], [.i32 1, .i32 11, .null, .null]]
    let R : List Row := [[.null, .null, .i32 1, .i32 101], [.null, .null, .i32 1, .i32 100]]
    let xr : List OrdKey := [⟨2, false⟩, ⟨3, true⟩]
    let out := opMergeJoin .inner (mergeRow 4 [2, 3]) [0] [2] L R
    SortedBy (keyCmp xr) R ∧ SortedBy (keyCmp [⟨0, false⟩]) L ∧
      ¬ SortedBy (keyCmp xr) out ∧ SortedBy (keyCmp (Gen.claim_MergeJoin .inner (ascKeys [0]) (ascKeys [2]) [⟨0, false⟩] xr)) out := by
  decide

/-- The class-level order property: `ExprAnalysis::merge` (regenerated: `Gen.mergeOrder`) combines
the claims of two members of an e-class into a claim that holds for WHICHEVER member is extracted:
it is a prefix of both. (With `merge_max`, the former code, this fails: finding
`order:eclass-order-max`, fixed in /repo 85f5275.) -/
theorem order_merge_sound (a b : List OrdKey) (rows : List Row) :
    (SortedBy (keyCmp a) rows → SortedBy (keyCmp (Gen.mergeOrder a b)) rows) ∧
    (SortedBy (keyCmp b) rows → SortedBy (keyCmp (Gen.mergeOrder a b)) rows) := by
  have hpre : ∀ (a b : List OrdKey), (∃ r, a = Gen.mergeOrder a b ++ r) ∧ (∃ r, b = Gen.mergeOrder a b ++ r) := by
    intro a
    induction a with
    | nil => intro b; exact ⟨⟨[], by simp [Gen.mergeOrder]⟩, ⟨b, by simp [Gen.mergeOrder]⟩⟩
    | cons x xs ih =>
      intro b
      cases b with
      | nil => exact ⟨⟨x :: xs, by simp [Gen.mergeOrder]⟩, ⟨[], by simp [Gen.mergeOrder]⟩⟩
      | cons y ys =>
        by_cases hxy : x = y
        · subst hxy
          obtain ⟨⟨r1, h1⟩, ⟨r2, h2⟩⟩ := ih ys
          refine ⟨⟨r1, ?_⟩, ⟨r2, ?_⟩⟩
          · simp only [Gen.mergeOrder, if_true, List.cons_append]; rw [← h1]
          · simp only [Gen.mergeOrder, if_true, List.cons_append]; rw [← h2]
        · exact ⟨⟨x :: xs, by simp [Gen.mergeOrder, hxy]⟩, ⟨y :: ys, by simp [Gen.mergeOrder, hxy]⟩⟩
  obtain ⟨⟨r1, h1⟩, ⟨r2, h2⟩⟩ := hpre a b
  refine ⟨fun h => ?_, fun h => ?_⟩
  · rw [h1] at h; exact sortedBy_prefix _ r1 rows h
  · rw [h2] at h; exact sortedBy_prefix _ r2 rows h

example : Gen.mergeOrder [⟨1, false⟩, ⟨2, true⟩] [⟨1, false⟩] = [⟨1, false⟩] := by decide

/-- The hash join (no arm: the planner claims no order for it) does emit its rows in the order of
its RIGHT input for inner and right outer joins ... -/
theorem hashjoin_probe_order (t : JT) (ht : t = .inner ∨ t = .rightOuter) (mg : Row → Row → Row) (lk rk : List Nat)
    (xr : List OrdKey) (L R : List Row) (hR : SortedBy (keyCmp xr) R) (hmgR : ∀ l r, SameKeyCols xr (mg l r) r) :
    SortedBy (keyCmp xr) (opHashJoin t mg lk rk L R) := by
  have hno : ¬ (t = .leftOuter ∨ t = .fullOuter) := by rcases ht with rfl | rfl <;> decide
  simp only [opHashJoin, hno, if_false, List.append_nil]
  apply sorted_flatMap_blocks xr R _ hR
  intro r _ y hy
  split at hy
  · split at hy
    · simp at hy; subst hy; exact fun _ _ => rfl
    · cases hy
  · obtain ⟨l, _, rfl⟩ := List.mem_map.1 hy
    exact hmgR l r

/-- ... but NOT for left and full outer joins: the unmatched left rows are appended after the probe
phase, with NULL in the right input's key. An arm `HashJoin(.., r) => x(r)` for every join type
(seeded change s4c02) is refuted by this witness. -/
theorem hashjoin_left_outer_order_unsound :
    let L : List Row := [[.i32 1, .null], [.i32 5, .null]]
    let R : List Row := [[.null, .i32 1], [.null, .i32 3]]
    SortedBy (keyCmp [⟨1, false⟩]) R ∧
      ¬ SortedBy (keyCmp [⟨1, false⟩]) (opHashJoin .leftOuter (mergeRow 2 [1]) [0] [1] L R) := by
  decide

end RlModel
