import RlModel.Lemmas.Csv
import RlModel.Lemmas.CsvCells
/-!
# C20 — CSV export followed by import reproduces the table

Theorems about the executable model `Model/Csv.lean` (writer = `csv` crate with
`QuoteStyle::Necessary`; reader = `csv_core` automaton + `csv::Reader` + `CopyFromFileExecutor`;
cells = `get_to_string` / `push_str`).  The same definitions run in `Drivers/C20.lean` against
`COPY … TO` / `COPY … FROM` of the implementation, byte for byte.
-/
namespace RlModel
open V19 Csv

/-! ## the codec: read (write rows) = rows, for ALL rows of ALL byte strings -/

/-- Guards, explicitly: delimiter ≠ quote, neither is CR or LF (`Opts.Good`; ANY escape option
since fix c296646 — the hypothesis "no escape option" is gone); every record has at least one field.  No bound on the number of records, fields
or bytes; fields may contain delimiters, quotes, CR, LF, be empty, … -/
theorem csv_codec_roundtrip (o : Opts) (g : o.Good) (rows : List (List Bytes))
    (h : ∀ r ∈ rows, r ≠ []) : readRecords o (writeCsv o rows) = rows :=
  readRecords_writeCsv o g rows h

example : readRecords {} (writeCsv {} [[[97, 44, 34, 10, 13], []], [[], [34]], [[]], [[], []]]) =
    [[[97, 44, 34, 10, 13], []], [[], [34]], [[]], [[], []]] :=
  csv_codec_roundtrip {} ⟨by decide, by decide, by decide⟩ _ (by decide)

/-- through `csv::Reader` (equal record lengths enforced, no header) -/
theorem csv_reader_roundtrip (o : Opts) (g : o.Good) (hh : o.header = false) (n : Nat) (hn : 0 < n)
    (rows : List (List Bytes)) (h : ∀ r ∈ rows, r.length = n) :
    readCsv o (writeCsv o rows) = some rows := by
  have hne : ∀ r ∈ rows, r ≠ [] := by
    intro r hr he; have := h r hr; rw [he] at this; simp at this; omega
  unfold readCsv
  rw [csv_codec_roundtrip o g rows hne]
  cases rows with
  | nil => rfl
  | cons r0 rs =>
    have hall : (r0 :: rs).all (fun r => r.length == r0.length) = true := by
      rw [List.all_eq_true]
      intro r hr
      have h1 := h r hr
      have h2 := h r0 (by simp)
      simp [h1, h2]
    simp only [hall, if_true, hh]
    rfl

/-- the reader with HEADER returns the records after the first one -/
theorem csv_header_drops_first_record (o : Opts) (g : o.Good) (hh : o.header = true) (n : Nat)
    (hn : 0 < n) (r0 : List Bytes) (rows : List (List Bytes)) (h : ∀ r ∈ r0 :: rows, r.length = n) :
    readCsv o (writeCsv o (r0 :: rows)) = some rows := by
  have hne : ∀ r ∈ r0 :: rows, r ≠ [] := by
    intro r hr he; have := h r hr; rw [he] at this; simp at this; omega
  unfold readCsv
  rw [csv_codec_roundtrip o g _ hne]
  have hall : (r0 :: rows).all (fun r => r.length == r0.length) = true := by
    rw [List.all_eq_true]
    intro r hr
    have h1 := h r hr
    have h2 := h r0 (by simp)
    simp [h1, h2]
  simp only [hall, if_true, hh]
  rfl

/-- whole files, HEADER or not (fix 669035f: the writer emits the column-name record that the
reader swallows): `readCsv (writeFile names rows) = rows` -/
theorem csv_file_roundtrip (o : Opts) (g : o.Good) (n : Nat) (hn : 0 < n) (names : List Bytes)
    (hnames : names.length = n) (rows : List (List Bytes)) (h : ∀ r ∈ rows, r.length = n) :
    readCsv o (writeFile o names rows) = some rows := by
  unfold writeFile
  cases hh : o.header with
  | false => simpa using csv_reader_roundtrip o g hh n hn rows h
  | true =>
    simp only [if_true]
    have := csv_header_drops_first_record o g hh n hn names rows
      (by intro r hr; simp only [List.mem_cons] at hr; rcases hr with hr | hr
          · rw [hr]; exact hnames
          · exact h r hr)
    simpa [writeCsv] using this

/-! ## COPY TO replaces the target file -/

/-- After `COPY TO path` the path holds exactly the export, WHATEVER it held before (nothing, an
earlier longer export, arbitrary bytes), and no other path changes. -/
theorem copy_to_replaces (fs : Fs) (path : String) (o : Opts) (names : List Bytes)
    (rows : List (List Bytes)) :
    (copyToFs fs path o names rows) path = some (writeFile o names rows) ∧
    ∀ p, p ≠ path → (copyToFs fs path o names rows) p = fs p := by
  constructor
  · simp [copyToFs, Fs.put]
  · intro p hp; simp [copyToFs, Fs.put, hp]

/-- Export then import over HISTORIES: for every previous state `fs` of the file system — in
particular every previous content of `path` — `COPY FROM path` after `COPY TO path` returns the
exported records (HEADER or not, any escape). -/
theorem csv_file_roundtrip_any_previous (fs : Fs) (path : String) (o : Opts) (g : o.Good) (n : Nat)
    (hn : 0 < n) (names : List Bytes) (hnames : names.length = n) (rows : List (List Bytes))
    (h : ∀ r ∈ rows, r.length = n) :
    copyFromFs (copyToFs fs path o names rows) path o = some rows := by
  simp only [copyFromFs, (copy_to_replaces fs path o names rows).1, Option.bind_some]
  exact csv_file_roundtrip o g n hn names hnames rows h

/-- a second, smaller export to the same path leaves exactly the second table there -/
theorem reexport_smaller (fs : Fs) (path : String) (o : Opts) (g : o.Good) (n : Nat) (hn : 0 < n)
    (names : List Bytes) (hnames : names.length = n) (rowsA rowsB : List (List Bytes))
    (hB : ∀ r ∈ rowsB, r.length = n) :
    copyFromFs (copyToFs (copyToFs fs path o names rowsA) path o names rowsB) path o = some rowsB :=
  csv_file_roundtrip_any_previous _ path o g n hn names hnames rowsB hB

example : copyFromFs (copyToFs (fun _ => some [115, 116, 97, 108, 101, 10, 111, 108, 100]) "p" {} [[99]] [[[49]]]) "p" {} =
    some [[[49]]] :=
  csv_file_roundtrip_any_previous _ "p" {} ⟨by decide, by decide, by decide⟩ 1 (by decide) [[99]] rfl [[[49]]] (by decide)

/-! ## tables -/

/-- a cell whose text parses back to itself (C19's round trips; NULL ↦ empty field ↦ NULL) -/
def CellOk (ty : Ty) (c : Option DV) : Prop :=
  ∃ t, cellText c = some t ∧ parseCell ty t = some (.ok c)

def RowOk : List Ty → List (Option DV) → Prop
  | [], [] => True
  | ty :: tys, c :: cs => CellOk ty c ∧ RowOk tys cs
  | _, _ => False

theorem rowOk_texts : ∀ (tys : List Ty) (row : List (Option DV)), RowOk tys row →
    ∃ texts, allSome (row.map cellText) = some texts ∧ texts.length = tys.length ∧
      parseRow tys texts = .ok row
  | [], [], _ => ⟨[], rfl, rfl, rfl⟩
  | [], _ :: _, h => absurd h (by simp [RowOk])
  | _ :: _, [], h => absurd h (by simp [RowOk])
  | ty :: tys, c :: cs, h => by
    obtain ⟨⟨t, ht, hp⟩, hrest⟩ := h
    obtain ⟨texts, h1, h2, h3⟩ := rowOk_texts tys cs hrest
    refine ⟨t :: texts, ?_, by simp [h2], ?_⟩
    · simp [allSome, ht, h1]
    · simp [parseRow, hp, h3]

theorem tableOk_import (tys : List Ty) : ∀ (t : Table), (∀ row ∈ t, RowOk tys row) →
    ∃ texts, tableTexts t = some texts ∧ (∀ r ∈ texts, r.length = tys.length) ∧
      importRecords tys texts = .ok t
  | [], _ => ⟨[], rfl, by simp, rfl⟩
  | row :: rest, h => by
    obtain ⟨rt, h1, h2, h3⟩ := rowOk_texts tys row (h row (by simp))
    obtain ⟨texts, g1, g2, g3⟩ := tableOk_import tys rest (fun r hr => h r (by simp [hr]))
    refine ⟨rt :: texts, ?_, ?_, ?_⟩
    · simp only [tableTexts, List.map_cons, allSome, h1] at g1 ⊢
      simp [g1]
    · intro r hr
      simp only [List.mem_cons] at hr
      rcases hr with hr | hr
      · rw [hr]; exact h2
      · exact g2 r hr
    · simp [importRecords, h2, h3, g3]

/-- PROVED PART.  A table whose cells are all non-NULL, print to non-empty texts and survive
`parse ∘ display` for their column type (C19: integers, booleans, non-empty strings, in-range
dates, all blobs, …), with at least one column (BLOB columns included since the cast fix), exported and imported with good
options — ANY escape, HEADER or not — comes back exactly (same rows, same order). -/
theorem table_roundtrip_partial (o : Opts) (g : o.Good) (tys : List Ty) (names : List Bytes)
    (hnames : names.length = tys.length)
    (hcols : 0 < tys.length) (t : Table)
    (h : ∀ row ∈ t, RowOk tys row) :
    ∃ file, exportTable o names t = some file ∧ importCsv o tys file = .ok t := by
  obtain ⟨texts, h1, h2, h3⟩ := tableOk_import tys t h
  refine ⟨writeFile o names texts, by simp [exportTable, h1], ?_⟩
  unfold importCsv
  rw [csv_file_roundtrip o g tys.length hcols names hnames texts h2]
  exact h3

example : ∃ file, exportTable {} [[99, 48], [99, 49]] [[some (.i32 (-5)), some (.str [44, 34, 10])], [some (.i32 7), some (.str [78, 85, 76, 76])]] = some file ∧
    importCsv {} [.i32, .str] file = .ok [[some (.i32 (-5)), some (.str [44, 34, 10])], [some (.i32 7), some (.str [78, 85, 76, 76])]] :=
  ⟨_, rfl, by decide⟩

/-! ### the table theorem with a decidable hypothesis (C19's theorems discharge `CellOk`) -/

def rowGood : List Ty → List (Option DV) → Bool
  | [], [] => true
  | ty :: tys, c :: cs => cellGood ty c && rowGood tys cs
  | _, _ => false

theorem rowGood_rowOk : ∀ (tys : List Ty) (row : List (Option DV)), rowGood tys row = true → RowOk tys row
  | [], [], _ => trivial
  | [], _ :: _, h => by simp [rowGood] at h
  | _ :: _, [], h => by simp [rowGood] at h
  | ty :: tys, c :: cs, h => by
    simp only [rowGood, Bool.and_eq_true] at h
    exact ⟨cellGood_spec ty c h.1, rowGood_rowOk tys cs h.2⟩

/-- TYPED TABLE THEOREM.  For every option set with delimiter ≠ quote, neither CR/LF (any ESCAPE,
HEADER or not), every column list of at least one of {BOOLEAN, SMALLINT, INT, BIGINT, VARCHAR, BLOB,
DATE, TIMESTAMP, INTERVAL} and every table whose cells are: NULL, or integers in range, non-empty
strings / blobs (any bytes), dates in chrono's range, printable timestamps (µs precision) outside
chrono's first year, intervals with i32 fields (any milliseconds) and not all-zero —
`COPY FROM (COPY TO t) = t`, same rows in the same order.  All hypotheses are decidable on the table;
each excluded cell class has a recorded witness ('', zero interval, out-of-range date / timestamp). -/
theorem table_roundtrip_typed (o : Opts) (g : o.Good) (tys : List Ty) (names : List Bytes)
    (hnames : names.length = tys.length) (hcols : 0 < tys.length) (t : Table)
    (h : t.all (rowGood tys) = true) :
    ∃ file, exportTable o names t = some file ∧ importCsv o tys file = .ok t :=
  table_roundtrip_partial o g tys names hnames hcols t
    (fun row hr => rowGood_rowOk tys row (List.all_eq_true.mp h row hr))

example : ∃ file, exportTable { delim := 59, quote := 39, escape := some 92, header := true } [[97], [98], [99]]
      [[some (.blob [0, 92, 39, 59]), some (.date 11016), some (.interval (-14) 0 1001)],
       [some (.blob [255]), none, some (.interval 0 3 0)]] = some file ∧
    importCsv { delim := 59, quote := 39, escape := some 92, header := true } [.blob, .date, .interval] file =
      .ok [[some (.blob [0, 92, 39, 59]), some (.date 11016), some (.interval (-14) 0 1001)],
           [some (.blob [255]), none, some (.interval 0 3 0)]] :=
  table_roundtrip_typed _ ⟨by decide, by decide, by decide⟩ _ _ rfl (by decide) _ (by decide)

/-! ## the FULL statement is false on the code that exists -/

/-- cells of the column's type -/
def cellHasTy : Ty → Option DV → Bool
  | _, none => true
  | .bool, some (.bool _) | .i16, some (.i16 _) | .i32, some (.i32 _) | .i64, some (.i64 _)
  | .str, some (.str _) | .blob, some (.blob _) | .date, some (.date _) | .ts, some (.ts _)
  | .interval, some (.interval ..) => true
  | _, _ => false

def rowHasTys : List Ty → List (Option DV) → Bool
  | [], [] => true
  | ty :: tys, c :: cs => cellHasTy ty c && rowHasTys tys cs
  | _, _ => false

/-- FULL statement (property as written): for every option set, every column type list and
every well-typed table (NULLs and empty strings included), import (export t) = t. -/
def TableRoundtripFull : Prop :=
  ∀ (o : Opts) (tys : List Ty) (names : List Bytes) (t : Table), names.length = tys.length →
    (t.all (rowHasTys tys)) = true →
    ∀ file, exportTable o names t = some file → importCsv o tys file = .ok t

/-- the FULL statement is still false: the empty string comes back as NULL (see
`empty_string_unsound` below) -/
theorem table_roundtrip_full_unsound : ¬ TableRoundtripFull := by
  intro h
  have := h {} [.str] [[99, 48]] [[some (.str [])]] rfl (by decide) _ rfl
  revert this
  decide

/-- The OLD writer (`get_to_string`: NULL ↦ the four letters `NULL`): the former witnesses of
`null_cell_unsound` / `null_cell_int_error`, as statements about that writer — the letters were read
back as the string 'NULL' in a text column and rejected in an INT column … -/
theorem null_cell_old_writer_unsound :
    importCsv {} [.str] (writeCsv {} [[nullText]]) = .ok [[some (.str nullText)]] ∧
    importCsv {} [.i32] (writeCsv {} [[[49]], [nullText]]) = .error := by decide

/-- … REGRESSION for the new writer (fix f651426, finding `csv:null-cell`): NULL cells come back
as NULL in every column type, alone in a one-column table (written `""`) or among others, and
the string 'NULL' stays a string -/
theorem null_cell_regression :
    (∃ file, exportTable {} [[99, 48]] [[none]] = some file ∧ importCsv {} [.str] file = .ok [[none]]) ∧
    (∃ file, exportTable {} [[99, 48]] [[some (.i32 1)], [none]] = some file ∧
      importCsv {} [.i32] file = .ok [[some (.i32 1)], [none]]) ∧
    (∃ file, exportTable {} [[97], [98], [99]] [[none, some (.str nullText), none]] = some file ∧
      importCsv {} [.date, .str, .blob] file = .ok [[none, some (.str nullText), none]]) :=
  ⟨⟨_, rfl, by decide⟩, ⟨_, rfl, by decide⟩, ⟨_, rfl, by decide⟩⟩

/-- the empty string is written as `""` and read back as NULL (known finding `csv:empty-string`) -/
theorem empty_string_unsound : ∃ file, exportTable {} [[99, 48]] [[some (.str [])]] = some file ∧
    importCsv {} [.str] file = .ok [[none]] := ⟨_, rfl, by decide⟩

/-- the zero interval prints as the empty text and comes back as NULL
(known finding `csv:empty-interval`) -/
theorem zero_interval_unsound : ∃ file, exportTable {} [[99, 48]] [[some (.interval 0 0 0)]] = some file ∧
    importCsv {} [.interval] file = .ok [[none]] := ⟨_, rfl, by decide⟩

/-- REGRESSION (was `escape_option_unsound`, finding `csv:escape-option`, fixed by c296646): with
`ESCAPE '!'` the field `a!,"` is written `"a!!,!""` and read back unchanged -/
theorem escape_option_regression :
    readRecords { escape := some 33 } (writeCsv { escape := some 33 } [[[97, 33, 44, 34]]]) = [[[97, 33, 44, 34]]] ∧
    writeCsv { escape := some 33 } [[[97, 33, 44, 34]]] = [34, 97, 33, 33, 44, 33, 34, 34, 10] := by
  decide

/-- REGRESSION (was `blob_column_unsound`, finding `csv:blob-column-import`): a table with a BLOB
column imports its rows (`ArrayImpl::cast` has Blob arms now), blobs with `\` and `'` included -/
theorem blob_column_regression : ∃ file, exportTable {} [[99, 48]] [[some (.blob [65, 92, 39, 0])]] = some file ∧
    importCsv {} [.blob] file = .ok [[some (.blob [65, 92, 39, 0])]] := ⟨_, rfl, by decide⟩

/-- REGRESSION (was `header_unsound`, finding `csv:header-drops-first-row`, fixed by 669035f):
with HEADER both rows come back; the file starts with the column-name record -/
theorem header_regression : ∃ file, exportTable { header := true } [[99, 48]] [[some (.i32 1)], [some (.i32 2)]] = some file ∧
    file = [99, 48, 10, 49, 10, 50, 10] ∧
    importCsv { header := true } [.i32] file = .ok [[some (.i32 1)], [some (.i32 2)]] := ⟨_, rfl, by decide, by decide⟩

end RlModel
