import RlModel.Gen.Rules
/-!
# C01 — expression rewrite rules (property theorems)

For every rule of `src/planner/rules/expr.rs` (re-extracted from the source on every run into
`Gen/Rules.lean` as `stmt_<rule>_<sorts>`), and every sort instantiation of its pattern
variables, one of:

* `sound_<rule>_<sorts> : stmt_…` — for ALL values of the pattern variables (NULL included,
  integers unbounded) satisfying the rule's side conditions, both sides evaluate to the same
  SQL value;
* `unsound_<rule>_<sorts> : ¬ stmt_…` with a concrete witness, plus
  `sound_<rule>_<sorts>_partial` under the weakest hypothesis found.  These are genuine defects
  of the unchanged tree (the check replays each witness on the implementation and matches it
  against `known_findings/C01.json`).

The theorem names are keyed by rule name; the statements are regenerated from the source, so a
changed, re-conditioned or added rule breaks (or lacks) its proof obligation.
-/
set_option linter.unusedSimpArgs false
set_option linter.unusedVariables false
namespace RlModel.C01
open RlModel RlModel.X RlModel.Gen

macro "xsimp" : tactic => `(tactic|
  simp [nAdd, nSub, nMul, nDiv, nMod, nNeg, eqO, neO, ltO, gtO, leO, geO, ite3, isNull3,
        notZeroN, notZeroB, notZeroS, condGe, condGt, condLe, condLt] at *)

macro "xclose" : tactic => `(tactic| (
  first
  | (xsimp; done)
  | decide
  | (xsimp; first | done | omega | grind [String.lt_trans, String.lt_irrefl, String.lt_asymm, String.le_antisymm, Int.mul_add, Int.add_mul, Int.mul_comm, Int.mul_assoc])
  | grind))

-- rule:add-zero (+ ?a 0) => ?a
theorem sound_add_zero_N : stmt_add_zero_N := by
  intro v_a hc
  simp only [lhs_add_zero_N, rhs_add_zero_N, cond_add_zero_N] at *
  rcases v_a with _ | x_a <;> xclose

-- rule:add-comm (+ ?a ?b) => (+ ?b ?a)
theorem sound_add_comm_NN : stmt_add_comm_NN := by
  intro v_a v_b hc
  simp only [lhs_add_comm_NN, rhs_add_comm_NN, cond_add_comm_NN] at *
  rcases v_a with _ | x_a <;> rcases v_b with _ | x_b <;> xclose

-- rule:add-assoc (+ ?a (+ ?b ?c)) => (+ (+ ?a ?b) ?c)
theorem sound_add_assoc_NNN : stmt_add_assoc_NNN := by
  intro v_a v_b v_c hc
  simp only [lhs_add_assoc_NNN, rhs_add_assoc_NNN, cond_add_assoc_NNN] at *
  rcases v_a with _ | x_a <;> rcases v_b with _ | x_b <;> rcases v_c with _ | x_c <;> xclose

-- rule:add-same (+ ?a ?a) => (* ?a 2)
theorem sound_add_same_N : stmt_add_same_N := by
  intro v_a hc
  simp only [lhs_add_same_N, rhs_add_same_N, cond_add_same_N] at *
  rcases v_a with _ | x_a <;> xclose

-- rule:add-neg (+ ?a (- ?b)) => (- ?a ?b)
theorem sound_add_neg_NN : stmt_add_neg_NN := by
  intro v_a v_b hc
  simp only [lhs_add_neg_NN, rhs_add_neg_NN, cond_add_neg_NN] at *
  rcases v_a with _ | x_a <;> rcases v_b with _ | x_b <;> xclose

-- rule:mul-one (* ?a 1) => ?a
theorem sound_mul_one_N : stmt_mul_one_N := by
  intro v_a hc
  simp only [lhs_mul_one_N, rhs_mul_one_N, cond_mul_one_N] at *
  rcases v_a with _ | x_a <;> xclose

-- rule:mul-minus (* ?a -1) => (- ?a)
theorem sound_mul_minus_N : stmt_mul_minus_N := by
  intro v_a hc
  simp only [lhs_mul_minus_N, rhs_mul_minus_N, cond_mul_minus_N] at *
  rcases v_a with _ | x_a <;> xclose

-- rule:mul-comm (* ?a ?b) => (* ?b ?a)
theorem sound_mul_comm_NN : stmt_mul_comm_NN := by
  intro v_a v_b hc
  simp only [lhs_mul_comm_NN, rhs_mul_comm_NN, cond_mul_comm_NN] at *
  rcases v_a with _ | x_a <;> rcases v_b with _ | x_b <;> xclose

-- rule:mul-assoc (* ?a (* ?b ?c)) => (* (* ?a ?b) ?c)
theorem sound_mul_assoc_NNN : stmt_mul_assoc_NNN := by
  intro v_a v_b v_c hc
  simp only [lhs_mul_assoc_NNN, rhs_mul_assoc_NNN, cond_mul_assoc_NNN] at *
  rcases v_a with _ | x_a <;> rcases v_b with _ | x_b <;> rcases v_c with _ | x_c <;> xclose

-- rule:neg-neg (- (- ?a)) => ?a
theorem sound_neg_neg_N : stmt_neg_neg_N := by
  intro v_a hc
  simp only [lhs_neg_neg_N, rhs_neg_neg_N, cond_neg_neg_N] at *
  rcases v_a with _ | x_a <;> xclose

-- rule:neg-sub (- (- ?a ?b)) => (- ?b ?a)
theorem sound_neg_sub_NN : stmt_neg_sub_NN := by
  intro v_a v_b hc
  simp only [lhs_neg_sub_NN, rhs_neg_sub_NN, cond_neg_sub_NN] at *
  rcases v_a with _ | x_a <;> rcases v_b with _ | x_b <;> xclose

-- rule:sub-zero (- ?a 0) => ?a
theorem sound_sub_zero_N : stmt_sub_zero_N := by
  intro v_a hc
  simp only [lhs_sub_zero_N, rhs_sub_zero_N, cond_sub_zero_N] at *
  rcases v_a with _ | x_a <;> xclose

-- rule:zero-sub (- 0 ?a) => (- ?a)
theorem sound_zero_sub_N : stmt_zero_sub_N := by
  intro v_a hc
  simp only [lhs_zero_sub_N, rhs_zero_sub_N, cond_zero_sub_N] at *
  rcases v_a with _ | x_a <;> xclose

-- rule:mul-add-distri (* ?a (+ ?b ?c)) => (+ (* ?a ?b) (* ?a ?c))
theorem sound_mul_add_distri_NNN : stmt_mul_add_distri_NNN := by
  intro v_a v_b v_c hc
  simp only [lhs_mul_add_distri_NNN, rhs_mul_add_distri_NNN, cond_mul_add_distri_NNN] at *
  rcases v_a with _ | x_a <;> rcases v_b with _ | x_b <;> rcases v_c with _ | x_c <;> xclose

-- rule:mul-add-factor (+ (* ?a ?b) (* ?a ?c)) => (* ?a (+ ?b ?c))
theorem sound_mul_add_factor_NNN : stmt_mul_add_factor_NNN := by
  intro v_a v_b v_c hc
  simp only [lhs_mul_add_factor_NNN, rhs_mul_add_factor_NNN, cond_mul_add_factor_NNN] at *
  rcases v_a with _ | x_a <;> rcases v_b with _ | x_b <;> rcases v_c with _ | x_c <;> xclose

-- rule:eq-comm (= ?a ?b) => (= ?b ?a)
theorem sound_eq_comm_NN : stmt_eq_comm_NN := by
  intro v_a v_b hc
  simp only [lhs_eq_comm_NN, rhs_eq_comm_NN, cond_eq_comm_NN] at *
  rcases v_a with _ | x_a <;> rcases v_b with _ | x_b <;> xclose

theorem sound_eq_comm_BB : stmt_eq_comm_BB := by
  intro v_a v_b hc
  simp only [lhs_eq_comm_BB, rhs_eq_comm_BB, cond_eq_comm_BB] at *
  rcases v_a with _ | _ | _ <;> rcases v_b with _ | _ | _ <;> xclose

theorem sound_eq_comm_SS : stmt_eq_comm_SS := by
  intro v_a v_b hc
  simp only [lhs_eq_comm_SS, rhs_eq_comm_SS, cond_eq_comm_SS] at *
  rcases v_a with _ | x_a <;> rcases v_b with _ | x_b <;> xclose

-- rule:ne-comm (<> ?a ?b) => (<> ?b ?a)
theorem sound_ne_comm_NN : stmt_ne_comm_NN := by
  intro v_a v_b hc
  simp only [lhs_ne_comm_NN, rhs_ne_comm_NN, cond_ne_comm_NN] at *
  rcases v_a with _ | x_a <;> rcases v_b with _ | x_b <;> xclose

theorem sound_ne_comm_BB : stmt_ne_comm_BB := by
  intro v_a v_b hc
  simp only [lhs_ne_comm_BB, rhs_ne_comm_BB, cond_ne_comm_BB] at *
  rcases v_a with _ | _ | _ <;> rcases v_b with _ | _ | _ <;> xclose

theorem sound_ne_comm_SS : stmt_ne_comm_SS := by
  intro v_a v_b hc
  simp only [lhs_ne_comm_SS, rhs_ne_comm_SS, cond_ne_comm_SS] at *
  rcases v_a with _ | x_a <;> rcases v_b with _ | x_b <;> xclose

-- rule:gt-comm (> ?a ?b) => (< ?b ?a)
theorem sound_gt_comm_NN : stmt_gt_comm_NN := by
  intro v_a v_b hc
  simp only [lhs_gt_comm_NN, rhs_gt_comm_NN, cond_gt_comm_NN] at *
  rcases v_a with _ | x_a <;> rcases v_b with _ | x_b <;> xclose

theorem sound_gt_comm_BB : stmt_gt_comm_BB := by
  intro v_a v_b hc
  simp only [lhs_gt_comm_BB, rhs_gt_comm_BB, cond_gt_comm_BB] at *
  rcases v_a with _ | _ | _ <;> rcases v_b with _ | _ | _ <;> xclose

theorem sound_gt_comm_SS : stmt_gt_comm_SS := by
  intro v_a v_b hc
  simp only [lhs_gt_comm_SS, rhs_gt_comm_SS, cond_gt_comm_SS] at *
  rcases v_a with _ | x_a <;> rcases v_b with _ | x_b <;> xclose

-- rule:lt-comm (< ?a ?b) => (> ?b ?a)
theorem sound_lt_comm_NN : stmt_lt_comm_NN := by
  intro v_a v_b hc
  simp only [lhs_lt_comm_NN, rhs_lt_comm_NN, cond_lt_comm_NN] at *
  rcases v_a with _ | x_a <;> rcases v_b with _ | x_b <;> xclose

theorem sound_lt_comm_BB : stmt_lt_comm_BB := by
  intro v_a v_b hc
  simp only [lhs_lt_comm_BB, rhs_lt_comm_BB, cond_lt_comm_BB] at *
  rcases v_a with _ | _ | _ <;> rcases v_b with _ | _ | _ <;> xclose

theorem sound_lt_comm_SS : stmt_lt_comm_SS := by
  intro v_a v_b hc
  simp only [lhs_lt_comm_SS, rhs_lt_comm_SS, cond_lt_comm_SS] at *
  rcases v_a with _ | x_a <;> rcases v_b with _ | x_b <;> xclose

-- rule:ge-comm (>= ?a ?b) => (<= ?b ?a)
theorem sound_ge_comm_NN : stmt_ge_comm_NN := by
  intro v_a v_b hc
  simp only [lhs_ge_comm_NN, rhs_ge_comm_NN, cond_ge_comm_NN] at *
  rcases v_a with _ | x_a <;> rcases v_b with _ | x_b <;> xclose

theorem sound_ge_comm_BB : stmt_ge_comm_BB := by
  intro v_a v_b hc
  simp only [lhs_ge_comm_BB, rhs_ge_comm_BB, cond_ge_comm_BB] at *
  rcases v_a with _ | _ | _ <;> rcases v_b with _ | _ | _ <;> xclose

theorem sound_ge_comm_SS : stmt_ge_comm_SS := by
  intro v_a v_b hc
  simp only [lhs_ge_comm_SS, rhs_ge_comm_SS, cond_ge_comm_SS] at *
  rcases v_a with _ | x_a <;> rcases v_b with _ | x_b <;> xclose

-- rule:le-comm (<= ?a ?b) => (>= ?b ?a)
theorem sound_le_comm_NN : stmt_le_comm_NN := by
  intro v_a v_b hc
  simp only [lhs_le_comm_NN, rhs_le_comm_NN, cond_le_comm_NN] at *
  rcases v_a with _ | x_a <;> rcases v_b with _ | x_b <;> xclose

theorem sound_le_comm_BB : stmt_le_comm_BB := by
  intro v_a v_b hc
  simp only [lhs_le_comm_BB, rhs_le_comm_BB, cond_le_comm_BB] at *
  rcases v_a with _ | _ | _ <;> rcases v_b with _ | _ | _ <;> xclose

theorem sound_le_comm_SS : stmt_le_comm_SS := by
  intro v_a v_b hc
  simp only [lhs_le_comm_SS, rhs_le_comm_SS, cond_le_comm_SS] at *
  rcases v_a with _ | x_a <;> rcases v_b with _ | x_b <;> xclose

-- rule:eq-add (= (+ ?a ?b) ?c) => (= ?a (- ?c ?b))
theorem sound_eq_add_NNN : stmt_eq_add_NNN := by
  intro v_a v_b v_c hc
  simp only [lhs_eq_add_NNN, rhs_eq_add_NNN, cond_eq_add_NNN] at *
  rcases v_a with _ | x_a <;> rcases v_b with _ | x_b <;> rcases v_c with _ | x_c <;> xclose

-- rule:ne-add (<> (+ ?a ?b) ?c) => (<> ?a (- ?c ?b))
theorem sound_ne_add_NNN : stmt_ne_add_NNN := by
  intro v_a v_b v_c hc
  simp only [lhs_ne_add_NNN, rhs_ne_add_NNN, cond_ne_add_NNN] at *
  rcases v_a with _ | x_a <;> rcases v_b with _ | x_b <;> rcases v_c with _ | x_c <;> xclose

-- rule:gt-add (> (+ ?a ?b) ?c) => (> ?a (- ?c ?b))
theorem sound_gt_add_NNN : stmt_gt_add_NNN := by
  intro v_a v_b v_c hc
  simp only [lhs_gt_add_NNN, rhs_gt_add_NNN, cond_gt_add_NNN] at *
  rcases v_a with _ | x_a <;> rcases v_b with _ | x_b <;> rcases v_c with _ | x_c <;> xclose

-- rule:lt-add (< (+ ?a ?b) ?c) => (< ?a (- ?c ?b))
theorem sound_lt_add_NNN : stmt_lt_add_NNN := by
  intro v_a v_b v_c hc
  simp only [lhs_lt_add_NNN, rhs_lt_add_NNN, cond_lt_add_NNN] at *
  rcases v_a with _ | x_a <;> rcases v_b with _ | x_b <;> rcases v_c with _ | x_c <;> xclose

-- rule:ge-add (>= (+ ?a ?b) ?c) => (>= ?a (- ?c ?b))
theorem sound_ge_add_NNN : stmt_ge_add_NNN := by
  intro v_a v_b v_c hc
  simp only [lhs_ge_add_NNN, rhs_ge_add_NNN, cond_ge_add_NNN] at *
  rcases v_a with _ | x_a <;> rcases v_b with _ | x_b <;> rcases v_c with _ | x_c <;> xclose

-- rule:le-add (<= (+ ?a ?b) ?c) => (<= ?a (- ?c ?b))
theorem sound_le_add_NNN : stmt_le_add_NNN := by
  intro v_a v_b v_c hc
  simp only [lhs_le_add_NNN, rhs_le_add_NNN, cond_le_add_NNN] at *
  rcases v_a with _ | x_a <;> rcases v_b with _ | x_b <;> rcases v_c with _ | x_c <;> xclose

-- rule:eq-trans (and (= ?a ?b) (= ?b ?c)) => (and (= ?a ?b) (= ?a ?c))
theorem unsound_eq_trans_NNN : ¬ stmt_eq_trans_NNN := by
  intro h
  have := h none (some (0)) (some (1)) (by simp [cond_eq_trans_NNN, notZeroN, notZeroB, condGe, condGt, condLe, condLt])
  simp [lhs_eq_trans_NNN, rhs_eq_trans_NNN, nAdd, nSub, nMul, nDiv, nMod, nNeg, eqO, neO, ltO, gtO, leO, geO, ite3, isNull3] at this

theorem sound_eq_trans_NNN_partial : ∀ (v_a : Option Int) (v_b : Option Int) (v_c : Option Int), v_a ≠ none → v_b ≠ none → v_c ≠ none → cond_eq_trans_NNN v_a v_b v_c = true → lhs_eq_trans_NNN v_a v_b v_c = rhs_eq_trans_NNN v_a v_b v_c := by
  intro v_a v_b v_c hn_a hn_b hn_c hc
  simp only [lhs_eq_trans_NNN, rhs_eq_trans_NNN, cond_eq_trans_NNN] at *
  rcases v_a with _ | x_a <;> rcases v_b with _ | x_b <;> rcases v_c with _ | x_c <;> xclose

theorem unsound_eq_trans_BBB : ¬ stmt_eq_trans_BBB := by
  intro h
  have := h none (some true) (some false) (by simp [cond_eq_trans_BBB, notZeroN, notZeroB, condGe, condGt, condLe, condLt])
  simp [lhs_eq_trans_BBB, rhs_eq_trans_BBB, nAdd, nSub, nMul, nDiv, nMod, nNeg, eqO, neO, ltO, gtO, leO, geO, ite3, isNull3] at this

theorem sound_eq_trans_BBB_partial : ∀ (v_a : Option Bool) (v_b : Option Bool) (v_c : Option Bool), v_a ≠ none → v_b ≠ none → v_c ≠ none → cond_eq_trans_BBB v_a v_b v_c = true → lhs_eq_trans_BBB v_a v_b v_c = rhs_eq_trans_BBB v_a v_b v_c := by
  intro v_a v_b v_c hn_a hn_b hn_c hc
  simp only [lhs_eq_trans_BBB, rhs_eq_trans_BBB, cond_eq_trans_BBB] at *
  rcases v_a with _ | _ | _ <;> rcases v_b with _ | _ | _ <;> rcases v_c with _ | _ | _ <;> xclose

theorem unsound_eq_trans_SSS : ¬ stmt_eq_trans_SSS := by
  intro h
  have := h none (some "") (some "a") (by simp [cond_eq_trans_SSS, notZeroN, notZeroB, condGe, condGt, condLe, condLt])
  simp [lhs_eq_trans_SSS, rhs_eq_trans_SSS, nAdd, nSub, nMul, nDiv, nMod, nNeg, eqO, neO, ltO, gtO, leO, geO, ite3, isNull3] at this

theorem sound_eq_trans_SSS_partial : ∀ (v_a : Option String) (v_b : Option String) (v_c : Option String), v_a ≠ none → v_b ≠ none → v_c ≠ none → cond_eq_trans_SSS v_a v_b v_c = true → lhs_eq_trans_SSS v_a v_b v_c = rhs_eq_trans_SSS v_a v_b v_c := by
  intro v_a v_b v_c hn_a hn_b hn_c hc
  simp only [lhs_eq_trans_SSS, rhs_eq_trans_SSS, cond_eq_trans_SSS] at *
  rcases v_a with _ | x_a <;> rcases v_b with _ | x_b <;> rcases v_c with _ | x_c <;> xclose

-- rule:not-eq (not (= ?a ?b)) => (<> ?a ?b)
theorem sound_not_eq_NN : stmt_not_eq_NN := by
  intro v_a v_b hc
  simp only [lhs_not_eq_NN, rhs_not_eq_NN, cond_not_eq_NN] at *
  rcases v_a with _ | x_a <;> rcases v_b with _ | x_b <;> xclose

theorem sound_not_eq_BB : stmt_not_eq_BB := by
  intro v_a v_b hc
  simp only [lhs_not_eq_BB, rhs_not_eq_BB, cond_not_eq_BB] at *
  rcases v_a with _ | _ | _ <;> rcases v_b with _ | _ | _ <;> xclose

theorem sound_not_eq_SS : stmt_not_eq_SS := by
  intro v_a v_b hc
  simp only [lhs_not_eq_SS, rhs_not_eq_SS, cond_not_eq_SS] at *
  rcases v_a with _ | x_a <;> rcases v_b with _ | x_b <;> xclose

-- rule:not-ne (not (<> ?a ?b)) => (= ?a ?b)
theorem sound_not_ne_NN : stmt_not_ne_NN := by
  intro v_a v_b hc
  simp only [lhs_not_ne_NN, rhs_not_ne_NN, cond_not_ne_NN] at *
  rcases v_a with _ | x_a <;> rcases v_b with _ | x_b <;> xclose

theorem sound_not_ne_BB : stmt_not_ne_BB := by
  intro v_a v_b hc
  simp only [lhs_not_ne_BB, rhs_not_ne_BB, cond_not_ne_BB] at *
  rcases v_a with _ | _ | _ <;> rcases v_b with _ | _ | _ <;> xclose

theorem sound_not_ne_SS : stmt_not_ne_SS := by
  intro v_a v_b hc
  simp only [lhs_not_ne_SS, rhs_not_ne_SS, cond_not_ne_SS] at *
  rcases v_a with _ | x_a <;> rcases v_b with _ | x_b <;> xclose

-- rule:not-gt (not (> ?a ?b)) => (<= ?a ?b)
theorem sound_not_gt_NN : stmt_not_gt_NN := by
  intro v_a v_b hc
  simp only [lhs_not_gt_NN, rhs_not_gt_NN, cond_not_gt_NN] at *
  rcases v_a with _ | x_a <;> rcases v_b with _ | x_b <;> xclose

theorem sound_not_gt_BB : stmt_not_gt_BB := by
  intro v_a v_b hc
  simp only [lhs_not_gt_BB, rhs_not_gt_BB, cond_not_gt_BB] at *
  rcases v_a with _ | _ | _ <;> rcases v_b with _ | _ | _ <;> xclose

theorem sound_not_gt_SS : stmt_not_gt_SS := by
  intro v_a v_b hc
  simp only [lhs_not_gt_SS, rhs_not_gt_SS, cond_not_gt_SS] at *
  rcases v_a with _ | x_a <;> rcases v_b with _ | x_b <;> xclose

-- rule:not-ge (not (>= ?a ?b)) => (< ?a ?b)
theorem sound_not_ge_NN : stmt_not_ge_NN := by
  intro v_a v_b hc
  simp only [lhs_not_ge_NN, rhs_not_ge_NN, cond_not_ge_NN] at *
  rcases v_a with _ | x_a <;> rcases v_b with _ | x_b <;> xclose

theorem sound_not_ge_BB : stmt_not_ge_BB := by
  intro v_a v_b hc
  simp only [lhs_not_ge_BB, rhs_not_ge_BB, cond_not_ge_BB] at *
  rcases v_a with _ | _ | _ <;> rcases v_b with _ | _ | _ <;> xclose

theorem sound_not_ge_SS : stmt_not_ge_SS := by
  intro v_a v_b hc
  simp only [lhs_not_ge_SS, rhs_not_ge_SS, cond_not_ge_SS] at *
  rcases v_a with _ | x_a <;> rcases v_b with _ | x_b <;> xclose

-- rule:not-lt (not (< ?a ?b)) => (>= ?a ?b)
theorem sound_not_lt_NN : stmt_not_lt_NN := by
  intro v_a v_b hc
  simp only [lhs_not_lt_NN, rhs_not_lt_NN, cond_not_lt_NN] at *
  rcases v_a with _ | x_a <;> rcases v_b with _ | x_b <;> xclose

theorem sound_not_lt_BB : stmt_not_lt_BB := by
  intro v_a v_b hc
  simp only [lhs_not_lt_BB, rhs_not_lt_BB, cond_not_lt_BB] at *
  rcases v_a with _ | _ | _ <;> rcases v_b with _ | _ | _ <;> xclose

theorem sound_not_lt_SS : stmt_not_lt_SS := by
  intro v_a v_b hc
  simp only [lhs_not_lt_SS, rhs_not_lt_SS, cond_not_lt_SS] at *
  rcases v_a with _ | x_a <;> rcases v_b with _ | x_b <;> xclose

-- rule:not-le (not (<= ?a ?b)) => (> ?a ?b)
theorem sound_not_le_NN : stmt_not_le_NN := by
  intro v_a v_b hc
  simp only [lhs_not_le_NN, rhs_not_le_NN, cond_not_le_NN] at *
  rcases v_a with _ | x_a <;> rcases v_b with _ | x_b <;> xclose

theorem sound_not_le_BB : stmt_not_le_BB := by
  intro v_a v_b hc
  simp only [lhs_not_le_BB, rhs_not_le_BB, cond_not_le_BB] at *
  rcases v_a with _ | _ | _ <;> rcases v_b with _ | _ | _ <;> xclose

theorem sound_not_le_SS : stmt_not_le_SS := by
  intro v_a v_b hc
  simp only [lhs_not_le_SS, rhs_not_le_SS, cond_not_le_SS] at *
  rcases v_a with _ | x_a <;> rcases v_b with _ | x_b <;> xclose

-- rule:not-and (not (and ?a ?b)) => (or (not ?a) (not ?b))
theorem sound_not_and_BB : stmt_not_and_BB := by
  intro v_a v_b hc
  simp only [lhs_not_and_BB, rhs_not_and_BB, cond_not_and_BB] at *
  rcases v_a with _ | _ | _ <;> rcases v_b with _ | _ | _ <;> xclose

-- rule:not-or (not (or ?a ?b)) => (and (not ?a) (not ?b))
theorem sound_not_or_BB : stmt_not_or_BB := by
  intro v_a v_b hc
  simp only [lhs_not_or_BB, rhs_not_or_BB, cond_not_or_BB] at *
  rcases v_a with _ | _ | _ <;> rcases v_b with _ | _ | _ <;> xclose

-- rule:not-not (not (not ?a)) => ?a
theorem sound_not_not_B : stmt_not_not_B := by
  intro v_a hc
  simp only [lhs_not_not_B, rhs_not_not_B, cond_not_not_B] at *
  rcases v_a with _ | _ | _ <;> xclose

-- rule:and-false (and false ?a) => false
theorem sound_and_false_B : stmt_and_false_B := by
  intro v_a hc
  simp only [lhs_and_false_B, rhs_and_false_B, cond_and_false_B] at *
  rcases v_a with _ | _ | _ <;> xclose

-- rule:and-true (and true ?a) => ?a
theorem sound_and_true_B : stmt_and_true_B := by
  intro v_a hc
  simp only [lhs_and_true_B, rhs_and_true_B, cond_and_true_B] at *
  rcases v_a with _ | _ | _ <;> xclose

-- rule:and-comm (and ?a ?b) => (and ?b ?a)
theorem sound_and_comm_BB : stmt_and_comm_BB := by
  intro v_a v_b hc
  simp only [lhs_and_comm_BB, rhs_and_comm_BB, cond_and_comm_BB] at *
  rcases v_a with _ | _ | _ <;> rcases v_b with _ | _ | _ <;> xclose

-- rule:and-assoc (and ?a (and ?b ?c)) => (and (and ?a ?b) ?c)
theorem sound_and_assoc_BBB : stmt_and_assoc_BBB := by
  intro v_a v_b v_c hc
  simp only [lhs_and_assoc_BBB, rhs_and_assoc_BBB, cond_and_assoc_BBB] at *
  rcases v_a with _ | _ | _ <;> rcases v_b with _ | _ | _ <;> rcases v_c with _ | _ | _ <;> xclose

-- rule:and-gt-gt-fold (and (> ?x ?a) (> ?x ?b)) => (> ?x ?a) if is_greater_than_or_equal(?a,?b)
theorem sound_and_gt_gt_fold_NNN : stmt_and_gt_gt_fold_NNN := by
  intro v_x v_a v_b hc
  simp only [lhs_and_gt_gt_fold_NNN, rhs_and_gt_gt_fold_NNN, cond_and_gt_gt_fold_NNN] at *
  rcases v_x with _ | x_x <;> rcases v_a with _ | x_a <;> rcases v_b with _ | x_b <;> xclose

theorem sound_and_gt_gt_fold_BBB : stmt_and_gt_gt_fold_BBB := by
  intro v_x v_a v_b hc
  simp only [lhs_and_gt_gt_fold_BBB, rhs_and_gt_gt_fold_BBB, cond_and_gt_gt_fold_BBB] at *
  rcases v_x with _ | _ | _ <;> rcases v_a with _ | _ | _ <;> rcases v_b with _ | _ | _ <;> xclose

theorem sound_and_gt_gt_fold_SSS : stmt_and_gt_gt_fold_SSS := by
  intro v_x v_a v_b hc
  simp only [lhs_and_gt_gt_fold_SSS, rhs_and_gt_gt_fold_SSS, cond_and_gt_gt_fold_SSS] at *
  rcases v_x with _ | x_x <;> rcases v_a with _ | x_a <;> rcases v_b with _ | x_b <;> xclose

-- rule:and-ge-ge-fold (and (>= ?x ?a) (>= ?x ?b)) => (>= ?x ?a) if is_greater_than_or_equal(?a,?b)
theorem sound_and_ge_ge_fold_NNN : stmt_and_ge_ge_fold_NNN := by
  intro v_x v_a v_b hc
  simp only [lhs_and_ge_ge_fold_NNN, rhs_and_ge_ge_fold_NNN, cond_and_ge_ge_fold_NNN] at *
  rcases v_x with _ | x_x <;> rcases v_a with _ | x_a <;> rcases v_b with _ | x_b <;> xclose

theorem sound_and_ge_ge_fold_BBB : stmt_and_ge_ge_fold_BBB := by
  intro v_x v_a v_b hc
  simp only [lhs_and_ge_ge_fold_BBB, rhs_and_ge_ge_fold_BBB, cond_and_ge_ge_fold_BBB] at *
  rcases v_x with _ | _ | _ <;> rcases v_a with _ | _ | _ <;> rcases v_b with _ | _ | _ <;> xclose

theorem sound_and_ge_ge_fold_SSS : stmt_and_ge_ge_fold_SSS := by
  intro v_x v_a v_b hc
  simp only [lhs_and_ge_ge_fold_SSS, rhs_and_ge_ge_fold_SSS, cond_and_ge_ge_fold_SSS] at *
  rcases v_x with _ | x_x <;> rcases v_a with _ | x_a <;> rcases v_b with _ | x_b <;> xclose

-- rule:and-gt-ge-fold (and (> ?x ?a) (>= ?x ?b)) => (> ?x ?a) if is_greater_than_or_equal(?a,?b)
theorem sound_and_gt_ge_fold_NNN : stmt_and_gt_ge_fold_NNN := by
  intro v_x v_a v_b hc
  simp only [lhs_and_gt_ge_fold_NNN, rhs_and_gt_ge_fold_NNN, cond_and_gt_ge_fold_NNN] at *
  rcases v_x with _ | x_x <;> rcases v_a with _ | x_a <;> rcases v_b with _ | x_b <;> xclose

theorem sound_and_gt_ge_fold_BBB : stmt_and_gt_ge_fold_BBB := by
  intro v_x v_a v_b hc
  simp only [lhs_and_gt_ge_fold_BBB, rhs_and_gt_ge_fold_BBB, cond_and_gt_ge_fold_BBB] at *
  rcases v_x with _ | _ | _ <;> rcases v_a with _ | _ | _ <;> rcases v_b with _ | _ | _ <;> xclose

theorem sound_and_gt_ge_fold_SSS : stmt_and_gt_ge_fold_SSS := by
  intro v_x v_a v_b hc
  simp only [lhs_and_gt_ge_fold_SSS, rhs_and_gt_ge_fold_SSS, cond_and_gt_ge_fold_SSS] at *
  rcases v_x with _ | x_x <;> rcases v_a with _ | x_a <;> rcases v_b with _ | x_b <;> xclose

-- rule:and-ge-gt-fold (and (>= ?x ?a) (> ?x ?b)) => (>= ?x ?a) if is_greater_than(?a,?b)
theorem sound_and_ge_gt_fold_NNN : stmt_and_ge_gt_fold_NNN := by
  intro v_x v_a v_b hc
  simp only [lhs_and_ge_gt_fold_NNN, rhs_and_ge_gt_fold_NNN, cond_and_ge_gt_fold_NNN] at *
  rcases v_x with _ | x_x <;> rcases v_a with _ | x_a <;> rcases v_b with _ | x_b <;> xclose

theorem sound_and_ge_gt_fold_BBB : stmt_and_ge_gt_fold_BBB := by
  intro v_x v_a v_b hc
  simp only [lhs_and_ge_gt_fold_BBB, rhs_and_ge_gt_fold_BBB, cond_and_ge_gt_fold_BBB] at *
  rcases v_x with _ | _ | _ <;> rcases v_a with _ | _ | _ <;> rcases v_b with _ | _ | _ <;> xclose

theorem sound_and_ge_gt_fold_SSS : stmt_and_ge_gt_fold_SSS := by
  intro v_x v_a v_b hc
  simp only [lhs_and_ge_gt_fold_SSS, rhs_and_ge_gt_fold_SSS, cond_and_ge_gt_fold_SSS] at *
  rcases v_x with _ | x_x <;> rcases v_a with _ | x_a <;> rcases v_b with _ | x_b <;> xclose

-- rule:and-lt-lt-fold (and (< ?x ?a) (< ?x ?b)) => (< ?x ?a) if is_less_than_or_equal(?a,?b)
theorem sound_and_lt_lt_fold_NNN : stmt_and_lt_lt_fold_NNN := by
  intro v_x v_a v_b hc
  simp only [lhs_and_lt_lt_fold_NNN, rhs_and_lt_lt_fold_NNN, cond_and_lt_lt_fold_NNN] at *
  rcases v_x with _ | x_x <;> rcases v_a with _ | x_a <;> rcases v_b with _ | x_b <;> xclose

theorem sound_and_lt_lt_fold_BBB : stmt_and_lt_lt_fold_BBB := by
  intro v_x v_a v_b hc
  simp only [lhs_and_lt_lt_fold_BBB, rhs_and_lt_lt_fold_BBB, cond_and_lt_lt_fold_BBB] at *
  rcases v_x with _ | _ | _ <;> rcases v_a with _ | _ | _ <;> rcases v_b with _ | _ | _ <;> xclose

theorem sound_and_lt_lt_fold_SSS : stmt_and_lt_lt_fold_SSS := by
  intro v_x v_a v_b hc
  simp only [lhs_and_lt_lt_fold_SSS, rhs_and_lt_lt_fold_SSS, cond_and_lt_lt_fold_SSS] at *
  rcases v_x with _ | x_x <;> rcases v_a with _ | x_a <;> rcases v_b with _ | x_b <;> xclose

-- rule:and-le-le-fold (and (<= ?x ?a) (<= ?x ?b)) => (<= ?x ?a) if is_less_than_or_equal(?a,?b)
theorem sound_and_le_le_fold_NNN : stmt_and_le_le_fold_NNN := by
  intro v_x v_a v_b hc
  simp only [lhs_and_le_le_fold_NNN, rhs_and_le_le_fold_NNN, cond_and_le_le_fold_NNN] at *
  rcases v_x with _ | x_x <;> rcases v_a with _ | x_a <;> rcases v_b with _ | x_b <;> xclose

theorem sound_and_le_le_fold_BBB : stmt_and_le_le_fold_BBB := by
  intro v_x v_a v_b hc
  simp only [lhs_and_le_le_fold_BBB, rhs_and_le_le_fold_BBB, cond_and_le_le_fold_BBB] at *
  rcases v_x with _ | _ | _ <;> rcases v_a with _ | _ | _ <;> rcases v_b with _ | _ | _ <;> xclose

theorem sound_and_le_le_fold_SSS : stmt_and_le_le_fold_SSS := by
  intro v_x v_a v_b hc
  simp only [lhs_and_le_le_fold_SSS, rhs_and_le_le_fold_SSS, cond_and_le_le_fold_SSS] at *
  rcases v_x with _ | x_x <;> rcases v_a with _ | x_a <;> rcases v_b with _ | x_b <;> xclose

-- rule:and-lt-le-fold (and (< ?x ?a) (<= ?x ?b)) => (< ?x ?a) if is_less_than_or_equal(?a,?b)
theorem sound_and_lt_le_fold_NNN : stmt_and_lt_le_fold_NNN := by
  intro v_x v_a v_b hc
  simp only [lhs_and_lt_le_fold_NNN, rhs_and_lt_le_fold_NNN, cond_and_lt_le_fold_NNN] at *
  rcases v_x with _ | x_x <;> rcases v_a with _ | x_a <;> rcases v_b with _ | x_b <;> xclose

theorem sound_and_lt_le_fold_BBB : stmt_and_lt_le_fold_BBB := by
  intro v_x v_a v_b hc
  simp only [lhs_and_lt_le_fold_BBB, rhs_and_lt_le_fold_BBB, cond_and_lt_le_fold_BBB] at *
  rcases v_x with _ | _ | _ <;> rcases v_a with _ | _ | _ <;> rcases v_b with _ | _ | _ <;> xclose

theorem sound_and_lt_le_fold_SSS : stmt_and_lt_le_fold_SSS := by
  intro v_x v_a v_b hc
  simp only [lhs_and_lt_le_fold_SSS, rhs_and_lt_le_fold_SSS, cond_and_lt_le_fold_SSS] at *
  rcases v_x with _ | x_x <;> rcases v_a with _ | x_a <;> rcases v_b with _ | x_b <;> xclose

-- rule:and-le-lt-fold (and (<= ?x ?a) (< ?x ?b)) => (<= ?x ?a) if is_less_than(?a,?b)
theorem sound_and_le_lt_fold_NNN : stmt_and_le_lt_fold_NNN := by
  intro v_x v_a v_b hc
  simp only [lhs_and_le_lt_fold_NNN, rhs_and_le_lt_fold_NNN, cond_and_le_lt_fold_NNN] at *
  rcases v_x with _ | x_x <;> rcases v_a with _ | x_a <;> rcases v_b with _ | x_b <;> xclose

theorem sound_and_le_lt_fold_BBB : stmt_and_le_lt_fold_BBB := by
  intro v_x v_a v_b hc
  simp only [lhs_and_le_lt_fold_BBB, rhs_and_le_lt_fold_BBB, cond_and_le_lt_fold_BBB] at *
  rcases v_x with _ | _ | _ <;> rcases v_a with _ | _ | _ <;> rcases v_b with _ | _ | _ <;> xclose

theorem sound_and_le_lt_fold_SSS : stmt_and_le_lt_fold_SSS := by
  intro v_x v_a v_b hc
  simp only [lhs_and_le_lt_fold_SSS, rhs_and_le_lt_fold_SSS, cond_and_le_lt_fold_SSS] at *
  rcases v_x with _ | x_x <;> rcases v_a with _ | x_a <;> rcases v_b with _ | x_b <;> xclose

-- rule:and-gt-lt-conflict (and (> ?x ?a) (< ?x ?b)) => false if is_greater_than_or_equal(?a,?b)
theorem unsound_and_gt_lt_conflict_NNN : ¬ stmt_and_gt_lt_conflict_NNN := by
  intro h
  have := h none none none (by simp [cond_and_gt_lt_conflict_NNN, notZeroN, notZeroB, condGe, condGt, condLe, condLt])
  simp [lhs_and_gt_lt_conflict_NNN, rhs_and_gt_lt_conflict_NNN, nAdd, nSub, nMul, nDiv, nMod, nNeg, eqO, neO, ltO, gtO, leO, geO, ite3, isNull3] at this

theorem sound_and_gt_lt_conflict_NNN_partial : ∀ (v_x : Option Int) (v_a : Option Int) (v_b : Option Int), v_x ≠ none → v_a ≠ none → v_b ≠ none → cond_and_gt_lt_conflict_NNN v_x v_a v_b = true → lhs_and_gt_lt_conflict_NNN v_x v_a v_b = rhs_and_gt_lt_conflict_NNN v_x v_a v_b := by
  intro v_x v_a v_b hn_x hn_a hn_b hc
  simp only [lhs_and_gt_lt_conflict_NNN, rhs_and_gt_lt_conflict_NNN, cond_and_gt_lt_conflict_NNN] at *
  rcases v_x with _ | x_x <;> rcases v_a with _ | x_a <;> rcases v_b with _ | x_b <;> xclose

theorem unsound_and_gt_lt_conflict_BBB : ¬ stmt_and_gt_lt_conflict_BBB := by
  intro h
  have := h none none none (by simp [cond_and_gt_lt_conflict_BBB, notZeroN, notZeroB, condGe, condGt, condLe, condLt])
  simp [lhs_and_gt_lt_conflict_BBB, rhs_and_gt_lt_conflict_BBB, nAdd, nSub, nMul, nDiv, nMod, nNeg, eqO, neO, ltO, gtO, leO, geO, ite3, isNull3] at this

theorem sound_and_gt_lt_conflict_BBB_partial : ∀ (v_x : Option Bool) (v_a : Option Bool) (v_b : Option Bool), v_x ≠ none → v_a ≠ none → v_b ≠ none → cond_and_gt_lt_conflict_BBB v_x v_a v_b = true → lhs_and_gt_lt_conflict_BBB v_x v_a v_b = rhs_and_gt_lt_conflict_BBB v_x v_a v_b := by
  intro v_x v_a v_b hn_x hn_a hn_b hc
  simp only [lhs_and_gt_lt_conflict_BBB, rhs_and_gt_lt_conflict_BBB, cond_and_gt_lt_conflict_BBB] at *
  rcases v_x with _ | _ | _ <;> rcases v_a with _ | _ | _ <;> rcases v_b with _ | _ | _ <;> xclose

theorem unsound_and_gt_lt_conflict_SSS : ¬ stmt_and_gt_lt_conflict_SSS := by
  intro h
  have := h none none none (by simp [cond_and_gt_lt_conflict_SSS, notZeroN, notZeroB, condGe, condGt, condLe, condLt])
  simp [lhs_and_gt_lt_conflict_SSS, rhs_and_gt_lt_conflict_SSS, nAdd, nSub, nMul, nDiv, nMod, nNeg, eqO, neO, ltO, gtO, leO, geO, ite3, isNull3] at this

theorem sound_and_gt_lt_conflict_SSS_partial : ∀ (v_x : Option String) (v_a : Option String) (v_b : Option String), v_x ≠ none → v_a ≠ none → v_b ≠ none → cond_and_gt_lt_conflict_SSS v_x v_a v_b = true → lhs_and_gt_lt_conflict_SSS v_x v_a v_b = rhs_and_gt_lt_conflict_SSS v_x v_a v_b := by
  intro v_x v_a v_b hn_x hn_a hn_b hc
  simp only [lhs_and_gt_lt_conflict_SSS, rhs_and_gt_lt_conflict_SSS, cond_and_gt_lt_conflict_SSS] at *
  rcases v_x with _ | x_x <;> rcases v_a with _ | x_a <;> rcases v_b with _ | x_b <;> xclose

-- rule:or-false (or false ?a) => ?a
theorem sound_or_false_B : stmt_or_false_B := by
  intro v_a hc
  simp only [lhs_or_false_B, rhs_or_false_B, cond_or_false_B] at *
  rcases v_a with _ | _ | _ <;> xclose

-- rule:or-true (or true ?a) => true
theorem sound_or_true_B : stmt_or_true_B := by
  intro v_a hc
  simp only [lhs_or_true_B, rhs_or_true_B, cond_or_true_B] at *
  rcases v_a with _ | _ | _ <;> xclose

-- rule:or-comm (or ?a ?b) => (or ?b ?a)
theorem sound_or_comm_BB : stmt_or_comm_BB := by
  intro v_a v_b hc
  simp only [lhs_or_comm_BB, rhs_or_comm_BB, cond_or_comm_BB] at *
  rcases v_a with _ | _ | _ <;> rcases v_b with _ | _ | _ <;> xclose

-- rule:or-assoc (or ?a (or ?b ?c)) => (or (or ?a ?b) ?c)
theorem sound_or_assoc_BBB : stmt_or_assoc_BBB := by
  intro v_a v_b v_c hc
  simp only [lhs_or_assoc_BBB, rhs_or_assoc_BBB, cond_or_assoc_BBB] at *
  rcases v_a with _ | _ | _ <;> rcases v_b with _ | _ | _ <;> rcases v_c with _ | _ | _ <;> xclose

-- rule:if-false (if false ?then ?else) => ?else
theorem sound_if_false_NN : stmt_if_false_NN := by
  intro v_then v_else hc
  simp only [lhs_if_false_NN, rhs_if_false_NN, cond_if_false_NN] at *
  rcases v_then with _ | x_then <;> rcases v_else with _ | x_else <;> xclose

theorem sound_if_false_BB : stmt_if_false_BB := by
  intro v_then v_else hc
  simp only [lhs_if_false_BB, rhs_if_false_BB, cond_if_false_BB] at *
  rcases v_then with _ | _ | _ <;> rcases v_else with _ | _ | _ <;> xclose

theorem sound_if_false_SS : stmt_if_false_SS := by
  intro v_then v_else hc
  simp only [lhs_if_false_SS, rhs_if_false_SS, cond_if_false_SS] at *
  rcases v_then with _ | x_then <;> rcases v_else with _ | x_else <;> xclose

-- rule:if-true (if true ?then ?else) => ?then
theorem sound_if_true_NN : stmt_if_true_NN := by
  intro v_then v_else hc
  simp only [lhs_if_true_NN, rhs_if_true_NN, cond_if_true_NN] at *
  rcases v_then with _ | x_then <;> rcases v_else with _ | x_else <;> xclose

theorem sound_if_true_BB : stmt_if_true_BB := by
  intro v_then v_else hc
  simp only [lhs_if_true_BB, rhs_if_true_BB, cond_if_true_BB] at *
  rcases v_then with _ | _ | _ <;> rcases v_else with _ | _ | _ <;> xclose

theorem sound_if_true_SS : stmt_if_true_SS := by
  intro v_then v_else hc
  simp only [lhs_if_true_SS, rhs_if_true_SS, cond_if_true_SS] at *
  rcases v_then with _ | x_then <;> rcases v_else with _ | x_else <;> xclose

-- rule:add-or-distri (or (and ?a ?b) (and ?a ?c))) => (and ?a (or ?b ?c))
theorem sound_add_or_distri_BBB : stmt_add_or_distri_BBB := by
  intro v_a v_b v_c hc
  simp only [lhs_add_or_distri_BBB, rhs_add_or_distri_BBB, cond_add_or_distri_BBB] at *
  rcases v_a with _ | _ | _ <;> rcases v_b with _ | _ | _ <;> rcases v_c with _ | _ | _ <;> xclose

-- regression statements for rules repaired in /repo (audited by name: EXTRA_THEOREMS) -----------------

/-- The removed rule `and-null` (`(and null ?a) => null`, /repo bf65f8a) is not an equivalence, and no
rule rewriting `NULL AND a` to a constant is: the value depends on `a`. -/
theorem and_null_not_equivalence : ¬ ∃ c : Option Bool, ∀ a : Option Bool, and3 none a = c := by
  rintro ⟨c, h⟩
  have h1 := h (some false)
  have h2 := h (some true)
  simp [and3] at h1 h2
  rw [← h1] at h2
  cases h2

/-- The removed rule `or-null` (`(or null ?a) => null`). -/
theorem or_null_not_equivalence : ¬ ∃ c : Option Bool, ∀ a : Option Bool, or3 none a = c := by
  rintro ⟨c, h⟩
  have h1 := h (some false)
  have h2 := h (some true)
  simp [or3] at h1 h2
  rw [← h1] at h2
  cases h2

end RlModel.C01
