import RlModel.Lemmas.Enc
import RlModel.Lemmas.EncSkip
import RlModel.Gen.Consts
/-!
# C06 — column encodings round-trip every value exactly

Property theorems about the executable model `RlModel.Model.Enc` (the same definitions the driver
`drv_c06` runs against the real builders / iterators).  Items are the encoded byte strings of the
values; `Cell = Option item`.  All statements are for lists of ANY length.
-/
namespace RlModel

/-! ## varint -/

/-- `decode_u32_slice (encode_32 v) = v` — for every `v` below `0xF000_0000`. The guard is forced
by the `b < 0x0f` test on the fifth byte (`varint_guard_forced`). -/
theorem varint_roundtrip (v : Nat) (h : v < 0xF0000000) (rest : Bytes) :
    decodeU32Slice (encode32 v ++ rest) = some (v, (encode32 v).length) :=
  varint_rt v h rest

example : decodeU32Slice (encode32 300 ++ [7]) = some (300, 2) := varint_roundtrip 300 (by decide) [7]

/-- The guard of `varint_roundtrip` cannot be dropped: a u32 at or above `0xF000_0000` (a run of
that many equal rows) encodes to five bytes that `decode_u32_slice` rejects. -/
theorem varint_guard_forced :
    decodeU32Slice (encode32 0xF0000000) = none ∧ decodeU32Slice (encode32 U32_MAX) = none := by
  decide

/-- A whole run-count area decodes back (what `RleBlockIterator::new` does). -/
theorem varints_roundtrip (vs : List Nat) (h : ∀ v ∈ vs, v < 0xF0000000) :
    decodeVarints (vs.flatMap encode32).length (vs.flatMap encode32) = some vs :=
  varints_rt vs h _ (Nat.le_refl _)

example : decodeVarints 3 ([1, 200].flatMap encode32) = some [1, 200] := by decide

/-! ## fixed-width little endian -/

theorem le_roundtrip (w n : Nat) (h : n < 256 ^ w) :
    natOfLE (leBytes w n) = n ∧ (leBytes w n).length = w :=
  ⟨by rw [natOfLE_leBytes, Nat.mod_eq_of_lt h], leBytes_length w n⟩

example : natOfLE (leBytes 4 0x01020304) = 0x01020304 := (le_roundtrip 4 _ (by decide)).1

/-! ## blocks -/

/-- A freshly created block builder never asks to be finished (so the column builder always
makes progress and no block is empty). -/
theorem shouldFinish_new (o : ColOpts) (c : Cell) : (BB.new o).shouldFinish c = false := by
  cases h : o.enc <;>
    simp [BB.new, h, BB.shouldFinish, Sub.shouldFinish, Sub.new, Plain.shouldFinish, Plain.isEmpty,
      Rle.shouldFinish, Dict.shouldFinish, Dict.new] <;>
    (try split) <;> simp

/-- Plain encoding (any nullability) over any plain kind whose items decode (`PlainRT`). -/
theorem block_roundtrip_plain_of (o : ColOpts) (henc : o.enc = .plain) (cells : List Cell)
    (hp : PlainRT o.kind cells) (hlen : cells.length < 2 ^ 32) :
    decodeBlock o cells.length (encodeBlock o cells)
      = some (cells.map (storedCell o.nullable o.kind)) := by
  have hf : ∀ (cs : List Cell) (s : Sub), cs.foldl BB.append (.plain s) = .plain (cs.foldl Sub.append s) := by
    intro cs; induction cs with
    | nil => intro s; rfl
    | cons c cs ih => intro s; simp [List.foldl_cons, BB.append, ih]
  simp only [decodeBlock, encodeBlock, BB.new, henc, hf, BB.finish]
  rw [sub_roundtrip _ _ _ _ hp hlen]

/-- plain, non-nullable, fixed width `w` (bool / i16 / i32 / i64 / f64 / date …): the block of
ANY list of cells decodes to the same items; a NULL cell written to the non-nullable encoding is
read back as the type's default (`nonnullable_null_witness`), which is why the statement maps
cells through `storedCell false`. -/
theorem block_roundtrip_plain_fixed (w bs : Nat) (ck : CkType) (eq : EqKind) (cells : List Cell)
    (h : FixedOk w cells) (hlen : cells.length < 2 ^ 32) (hnn : ∀ c ∈ cells, c ≠ none) :
    decodeBlock { kind := .fixed w, eq, nullable := false, enc := .plain, blockSize := bs, ck } cells.length
        (encodeBlock { kind := .fixed w, eq, nullable := false, enc := .plain, blockSize := bs, ck } cells)
      = some cells := by
  rw [block_roundtrip_plain_of _ rfl cells (fun t r => plain_fixed_roundtrip w t cells h r) hlen]
  congr 1
  induction cells with
  | nil => rfl
  | cons c cs ih =>
    have hc := hnn c (by simp)
    cases c with
    | none => exact absurd rfl hc
    | some it =>
      simp only [List.map_cons, storedCell, storedItem]
      rw [ih (fun it h' => h it (by simp [h'])) (by simp at hlen; omega) (fun c hc => hnn c (by simp [hc]))]
      simp

example : decodeBlock { kind := .fixed 2, nullable := false, enc := .plain, blockSize := 64 } 2
    (encodeBlock { kind := .fixed 2, nullable := false, enc := .plain, blockSize := 64 } [some [1, 0], some [255, 127]])
    = some [some [1, 0], some [255, 127]] := by decide

/-- nullable plain blocks (inner block + validity bitmap + bitmap byte length): exact for ANY list
of cells, NULLs included. -/
theorem block_roundtrip_nullable (w bs : Nat) (ck : CkType) (eq : EqKind) (cells : List Cell)
    (h : FixedOk w cells) (hlen : cells.length < 2 ^ 32) :
    decodeBlock { kind := .fixed w, eq, nullable := true, enc := .plain, blockSize := bs, ck } cells.length
        (encodeBlock { kind := .fixed w, eq, nullable := true, enc := .plain, blockSize := bs, ck } cells)
      = some cells := by
  rw [block_roundtrip_plain_of _ rfl cells (fun t r => plain_fixed_roundtrip w t cells h r) hlen]
  rw [map_storedCell_true]

example : decodeBlock { kind := .fixed 1, nullable := true, enc := .plain, blockSize := 64 } 3
    (encodeBlock { kind := .fixed 1, nullable := true, enc := .plain, blockSize := 64 } [some [1], none, some [0]])
    = some [some [1], none, some [0]] := by decide

/-- fixed-width char (zero padded to the char width), nullable: exact for ANY list of items that
fit the width and contain no NUL byte (`char_embedded_nul_witness` shows the second hypothesis is
forced; a longer item makes the builder panic). -/
theorem block_roundtrip_plain_char (w bs : Nat) (ck : CkType) (cells : List Cell)
    (h : CharOk w cells) (hlen : cells.length < 2 ^ 32) :
    decodeBlock { kind := .char w, nullable := true, enc := .plain, blockSize := bs, ck } cells.length
        (encodeBlock { kind := .char w, nullable := true, enc := .plain, blockSize := bs, ck } cells)
      = some cells := by
  rw [block_roundtrip_plain_of _ rfl cells (fun t r => plain_char_roundtrip w t cells h r) hlen]
  rw [map_storedCell_true]

example : decodeBlock { kind := .char 3, nullable := true, enc := .plain, blockSize := 64 } 3
    (encodeBlock { kind := .char 3, nullable := true, enc := .plain, blockSize := 64 } [some [97], none, some [98, 99, 100]])
    = some [some [97], none, some [98, 99, 100]] := by decide

/-- FULL statement for the non-nullable encodings (kept visible): every list of cells, NULLs
included, reads back unchanged. It is false for the code that exists. -/
def NonNullableRoundtripFull : Prop :=
  ∀ cells : List Cell, FixedOk 4 cells →
    decodeBlock { kind := .fixed 4, nullable := false, enc := .plain, blockSize := 64 } cells.length
      (encodeBlock { kind := .fixed 4, nullable := false, enc := .plain, blockSize := 64 } cells) = some cells

/-- A NULL written through a non-nullable encoding is stored as the default value and read back
as `0` (the non-nullable builders have no validity bitmap). -/
theorem nonnullable_null_witness : ¬ NonNullableRoundtripFull := by
  intro h
  have := h [some [5, 0, 0, 0], none] (by intro it hit; simp at hit; subst hit; rfl)
  revert this; decide

/-- cells for which the column hands back exactly what was written -/
theorem map_storedOf_id (o : ColOpts) (cells : List Cell)
    (h : o.nullable = true ∨ o.enc = .dict ∨ ∀ c ∈ cells, c ≠ none) : cells.map (storedOf o) = cells := by
  induction cells with
  | nil => rfl
  | cons c cs ih =>
    have hcs : cs.map (storedOf o) = cs := ih (by
      rcases h with h | h | h
      · exact .inl h
      · exact .inr (.inl h)
      · exact .inr (.inr (fun x hx => h x (by simp [hx]))))
    simp only [List.map_cons, hcs]
    congr 1
    rcases h with h | h | h
    · simp only [storedOf]; split <;> simp [storedCell, h]
    · simp [storedOf, h]
    · have hc := h c (by simp)
      cases c with
      | none => exact absurd rfl hc
      | some it => simp only [storedOf]; split <;> simp [storedCell_some]

/-- RLE blocks (run counts as varints + inner block of run heads), any inner kind, nullable or not:
exact for ANY list of cells the kind accepts (runs of any length below 2^29 rows per block; the run
equality must be sound — it is for every type but f64, see `rle_eq_not_identity_witness`). -/
theorem block_roundtrip_rle (o : ColOpts) (henc : o.enc = .rle) (heq : EqSound o.eq) (cells : List Cell)
    (hk : KindOk o.kind cells) (hlen : cells.length < 2 ^ 29)
    (hn : o.nullable = true ∨ ∀ c ∈ cells, c ≠ none) :
    decodeBlock o cells.length (encodeBlock o cells) = some cells := by
  have := blockRT_of o cells (fun l hl => plainRT_of_kindOk (hk.sublist hl)) hlen (.inr heq)
  unfold BlockRT at this
  rw [this, map_storedOf_id o cells (by rcases hn with h | h; exact .inl h; exact .inr (.inr h))]

example : decodeBlock { kind := .fixed 1, nullable := true, enc := .rle, blockSize := 64 } 5
    (encodeBlock { kind := .fixed 1, nullable := true, enc := .rle, blockSize := 64 } [some [7], some [7], none, none, some [7]])
    = some [some [7], some [7], none, none, some [7]] := by decide +kernel

/-- dictionary blocks (rle block of i32 keys, `i32::MIN` = NULL, + block of distinct values): exact
for ANY list of cells, NULLs included — even in a non-nullable column, because NULL is a key. -/
theorem block_roundtrip_dict (o : ColOpts) (henc : o.enc = .dict) (heq : EqSound o.eq) (cells : List Cell)
    (hk : KindOk o.kind cells) (hlen : cells.length < 2 ^ 29) :
    decodeBlock o cells.length (encodeBlock o cells) = some cells := by
  have := blockRT_of o cells (fun l hl => plainRT_of_kindOk (hk.sublist hl)) hlen (.inr heq)
  unfold BlockRT at this
  rw [this, map_storedOf_id o cells (.inr (.inl henc))]

example : decodeBlock { kind := .blob, nullable := false, enc := .dict, blockSize := 64 } 4
    (encodeBlock { kind := .blob, nullable := false, enc := .dict, blockSize := 64 } [some [1, 2], none, some [], some [1, 2]])
    = some [some [1, 2], none, some [], some [1, 2]] := by decide +kernel

/-- blob / varchar blocks (u32-LE end offsets, then the bytes), nullable: exact for ANY list of items
whose total size fits the u32 offsets (empty items and NULLs add an offset only). -/
theorem block_roundtrip_blob (bs : Nat) (ck : CkType) (cells : List Cell)
    (h : BlobOk cells) (hlen : cells.length < 2 ^ 29) :
    decodeBlock { kind := .blob, nullable := true, enc := .plain, blockSize := bs, ck } cells.length
        (encodeBlock { kind := .blob, nullable := true, enc := .plain, blockSize := bs, ck } cells)
      = some cells := by
  have := blockRT_of { kind := .blob, nullable := true, enc := .plain, blockSize := bs, ck } cells
    (fun l hl => plainRT_of_kindOk (KindOk.sublist (k := .blob) h hl)) hlen (.inl rfl)
  unfold BlockRT at this
  rw [this, map_storedOf_id _ cells (.inl rfl)]

example : decodeBlock { kind := .blob, nullable := true, enc := .plain, blockSize := 64 } 4
    (encodeBlock { kind := .blob, nullable := true, enc := .plain, blockSize := 64 } [some [104, 105], none, some [], some [0, 1, 2]])
    = some [some [104, 105], none, some [], some [0, 1, 2]] := by decide +kernel

/-! ## block cutting and the block index -/

/-- The blocks the column builder cuts partition the input, for every block size and encoding. -/
theorem cut_concat (o : ColOpts) (xs : List Cell) : (cut o xs).flatten = xs := by
  simp [cut, cutAux_flatten]

theorem cut_blocks_nonempty (o : ColOpts) (xs : List Cell) : ∀ ch ∈ cut o xs, ch ≠ [] :=
  cutAux_nonempty o _ [] xs

example : cut { kind := .fixed 4, nullable := false, enc := .plain, blockSize := 24 }
    [some [1,0,0,0], some [2,0,0,0], some [3,0,0,0]] = [[some [1,0,0,0], some [2,0,0,0]], [some [3,0,0,0]]] := by
  decide

/-- Index entry `i` records exactly the number of rows before block `i` and the block's row count. -/
theorem index_exact (o : ColOpts) (bt : Nat) (xs : List Cell) (i : Nat) (e : IndexEntry)
    (h : (buildColumn o bt xs).2[i]? = some e) :
    e.firstRowid = (((cut o xs).take i).map List.length).sum
      ∧ (cut o xs)[i]?.map List.length = some e.rowCount := by
  have := assemble_entry o bt (cut o xs) 0 0 i e h
  simpa using this

/-- The index has one entry per block and covers every row exactly once. -/
theorem index_covers (o : ColOpts) (bt : Nat) (xs : List Cell) :
    (buildColumn o bt xs).2.length = (cut o xs).length
      ∧ ((buildColumn o bt xs).2.map (·.rowCount)).sum = xs.length := by
  refine ⟨assemble_length _ _ _ _ _, ?_⟩
  rw [buildColumn, assemble_rowsum, cut_concat]

example : ((buildColumn { kind := .fixed 4, nullable := false, enc := .plain, blockSize := 24 } 0
    [some [1,0,0,0], some [2,0,0,0], some [3,0,0,0]]).2.map (fun e => (e.firstRowid, e.rowCount))) = [(0, 2), (2, 1)] := by
  decide


/-- **Column round trip.** For every block size, encoding, nullability and kind: the `.col` bytes and
index the column builder produces decode (through every block trailer, CRC included) into blocks
whose cells, concatenated, are the written cells (`storedOf`: identity except NULL through a
non-nullable plain/RLE encoding), and the decoded blocks are well formed (contiguous row ids, non-empty). -/
theorem column_roundtrip (o : ColOpts) (bt : Nat) (hbt : bt < BLOCK_TYPE_COUNT) (xs : List Cell)
    (hk : KindOk o.kind xs) (hlen : xs.length < 2 ^ 29) (heq : o.enc = .plain ∨ EqSound o.eq) :
    blockInfos o (buildColumn o bt xs).1 (buildColumn o bt xs).2 = some (infosOf o (cut o xs) 0)
      ∧ (infosOf o (cut o xs) 0).flatMap (·.cells) = xs.map (storedOf o)
      ∧ WfBlocks (infosOf o (cut o xs) 0) 0 := by
  have hsub : ∀ ch ∈ cut o xs, ch.Sublist xs := fun ch hch => by
    have := List.sublist_flatten_of_mem hch
    rwa [cut_concat] at this
  refine ⟨?_, ?_, infosOf_wf o _ 0 (cut_blocks_nonempty o xs)⟩
  · have := blockInfos_assemble o bt hbt (cut o xs) (fun ch hch =>
      blockRT_of o ch (fun l hl => plainRT_of_kindOk (hk.sublist (hl.trans (hsub ch hch))))
        (by have := (hsub ch hch).length_le; omega) heq) [] 0
    simpa [buildColumn] using this
  · rw [infosOf_cells, cut_concat]

/-- … and exactly the written cells when the column is nullable, dictionary encoded, or holds no NULL. -/
theorem column_roundtrip_exact (o : ColOpts) (bt : Nat) (hbt : bt < BLOCK_TYPE_COUNT) (xs : List Cell)
    (hk : KindOk o.kind xs) (hlen : xs.length < 2 ^ 29) (heq : o.enc = .plain ∨ EqSound o.eq)
    (hn : o.nullable = true ∨ o.enc = .dict ∨ ∀ c ∈ xs, c ≠ none) :
    ∃ blocks, blockInfos o (buildColumn o bt xs).1 (buildColumn o bt xs).2 = some blocks
      ∧ blocks.flatMap (·.cells) = xs ∧ WfBlocks blocks 0 := by
  obtain ⟨h1, h2, h3⟩ := column_roundtrip o bt hbt xs hk hlen heq
  exact ⟨_, h1, by rw [h2, map_storedOf_id o xs hn], h3⟩

example : ∃ blocks, blockInfos { kind := .fixed 4, nullable := true, enc := .rle, blockSize := 24, ck := .crc32 }
      (buildColumn { kind := .fixed 4, nullable := true, enc := .rle, blockSize := 24, ck := .crc32 } 6
        [some [1,0,0,0], none, none, some [3,0,0,0]]).1
      (buildColumn { kind := .fixed 4, nullable := true, enc := .rle, blockSize := 24, ck := .crc32 } 6
        [some [1,0,0,0], none, none, some [3,0,0,0]]).2 = some blocks
    ∧ blocks.flatMap (·.cells) = [some [1,0,0,0], none, none, some [3,0,0,0]] ∧ WfBlocks blocks 0 :=
  column_roundtrip_exact _ 6 (by decide) _ (by intro it hit; simp at hit; rcases hit with rfl | rfl <;> rfl)
    (by decide) (.inr eqSound_bytes) (.inl rfl)

/-! ## reads: the full statement and why it fails on the code that exists -/

/-- a returned batch is the slice of the written cells at the reported row id -/
def batchIsSlice (xs : List Cell) : IterOut → Bool
  | .batch r cells => cells == (xs.drop r).take cells.length
  | _ => true

/-- build the column, decode its blocks, run a read program from `start` -/
def readColumn (o : ColOpts) (bt : Nat) (xs : List Cell) (start : Nat) (ops : List IterOp) :
    Option (List IterOut) :=
  (blockInfos o (buildColumn o bt xs).1 (buildColumn o bt xs).2).map
    fun blocks => runOps (ColIter.new blocks (defaultItem o.kind) start) ops

/-- **Reads refine slices (scan programs; every column, plain-nullable included).**
Invariant proof over ARBITRARY sequences of `next_batch(Some k)` (any k ≥ 1), `next_batch(None)`,
hint-bounded batches, `fetch_hint` and `fetch_current_row_id`, from ANY good iterator state (`GoodState`:
what `new` and every such operation leave behind): every returned `(row_id, batch)` has
`row_id` = the logical position, `batch = xs[row_id .. row_id+len]`, `1 ≤ len ≤ k`; the position advances
by `len`, so the concatenation of the batches is `xs[start ..]` in order; `None` only at the end.
Hypothesis: well-formed decoded blocks (what `column_roundtrip` delivers).  Since the repair of
`iter:nullable-batch-crosses-block` (`replace_bitmap` rewrites the validity of the rows just produced,
lemma `replaceBitmap_pushed`) there is no hypothesis on the block type any more: blocks read through a
top-level `NullableBlockIterator` are covered, for batches spanning any number of blocks.
NOT covered by a theorem: `skip` / seeking to a start row > 0 (`skip_inner`, fake iterator,
`block_of_row`). -/
theorem iter_refines_slice_partial (blocks : List BlockInfo) (dflt : Bytes)
    (hwf : WfBlocks blocks 0)
    (ops : List IterOp) (hops : ∀ op ∈ ops, ScanOp op) (c : ColIter) (hg : GoodState blocks dflt c) :
    SpecScan (cellsOf blocks) c.rowId ops (runOps c ops) :=
  scan_spec blocks dflt hwf ops hops c hg

/-- End to end: build a column (any kind / block size / encoding, nullable or not), decode it, scan it
from row 0 with any scan program: the outputs are the slices of the written cells. -/
theorem iter_refines_slice_scan (o : ColOpts) (bt : Nat) (hbt : bt < BLOCK_TYPE_COUNT) (xs : List Cell)
    (hk : KindOk o.kind xs) (hlen : xs.length < 2 ^ 29) (heq : o.enc = .plain ∨ EqSound o.eq)
    (hn : o.nullable = true ∨ o.enc = .dict ∨ ∀ c ∈ xs, c ≠ none)
    (hne : xs ≠ [])
    (ops : List IterOp) (hops : ∀ op ∈ ops, ScanOp op) :
    ∃ blocks, blockInfos o (buildColumn o bt xs).1 (buildColumn o bt xs).2 = some blocks
      ∧ SpecScan xs 0 ops (runOps (ColIter.new blocks (defaultItem o.kind) 0) ops) := by
  obtain ⟨h1, h2, h3⟩ := column_roundtrip o bt hbt xs hk hlen heq
  refine ⟨_, h1, ?_⟩
  have hne' : infosOf o (cut o xs) 0 ≠ [] := by
    intro h0
    have := congrArg (fun l => l.flatMap (·.cells)) h0
    simp only [h2, List.flatMap_nil] at this
    cases xs with
    | nil => exact hne rfl
    | cons x rest => simp at this
  obtain ⟨hg, hr0⟩ := new_good _ (defaultItem o.kind) h3 hne'
  have := iter_refines_slice_partial _ _ h3 ops hops _ hg
  rw [hr0] at this
  have hx : cellsOf (infosOf o (cut o xs) 0) = xs := by
    show (infosOf o (cut o xs) 0).flatMap (·.cells) = xs
    rw [h2, map_storedOf_id o xs hn]
  rwa [hx] at this

example : ∃ blocks, blockInfos { kind := .fixed 1, nullable := true, enc := .rle, blockSize := 19 }
      (buildColumn { kind := .fixed 1, nullable := true, enc := .rle, blockSize := 19 } 6 [some [1], none, none, some [2]]).1
      (buildColumn { kind := .fixed 1, nullable := true, enc := .rle, blockSize := 19 } 6 [some [1], none, none, some [2]]).2
        = some blocks
    ∧ SpecScan [some [1], none, none, some [2]] 0 [.next (some 3), .hint, .next none]
        (runOps (ColIter.new blocks (defaultItem (.fixed 1)) 0) [.next (some 3), .hint, .next none]) :=
  iter_refines_slice_scan _ 6 (by decide) _ (by intro it hit; simp at hit; rcases hit with rfl | rfl <;> rfl)
    (by decide) (.inr eqSound_bytes) (.inl rfl) (by decide) _
    (by intro op hop; simp at hop; rcases hop with rfl | rfl | rfl <;> simp [ScanOp])

/-- the plain-nullable instance of the theorem: three i32 cells `[1, NULL, 3]`, block size 24 (one row
per block), batches of two rows spanning two blocks -/
example : ∃ blocks, blockInfos { kind := .fixed 4, nullable := true, enc := .plain, blockSize := 24 }
      (buildColumn { kind := .fixed 4, nullable := true, enc := .plain, blockSize := 24 } 3 [some [1, 0, 0, 0], none, some [3, 0, 0, 0]]).1
      (buildColumn { kind := .fixed 4, nullable := true, enc := .plain, blockSize := 24 } 3 [some [1, 0, 0, 0], none, some [3, 0, 0, 0]]).2
        = some blocks
    ∧ SpecScan [some [1, 0, 0, 0], none, some [3, 0, 0, 0]] 0 [.next (some 2), .next none]
        (runOps (ColIter.new blocks (defaultItem (.fixed 4)) 0) [.next (some 2), .next none]) :=
  iter_refines_slice_scan _ 3 (by decide) _ (by intro it hit; simp at hit; rcases hit with rfl | rfl <;> rfl)
    (by decide) (.inl rfl) (.inl rfl) (by decide) _
    (by intro op hop; simp at hop; rcases hop with rfl | rfl <;> simp [ScanOp])

/-- **Reads refine slices — ALL read programs, any start row** (blocks level).  Invariant `GoodX` over
arbitrary sequences of `next_batch(Some k≥1)` / `next_batch(None)` / hint-bounded batches / `skip(n)` /
hint-bounded skips / `fetch_hint` / `fetch_current_row_id`: batches are the slices at the logical
position, `skip(n)` advances it by exactly `n` — inside a block, across any number of blocks of ANY row
counts (`skipBlocks_spec`: the `while cnt > 0` loop subtracts each block's OWN row count), past the end,
and again on top of the fake iterator a previous skip left behind (`skipFake_spec`); the block is
reloaded at the right row by the next read (`unfake_good`). -/
theorem iter_refines_slice_all (blocks : List BlockInfo) (dflt : Bytes) (hwf : WfBlocks blocks 0)
    (ops : List IterOp) (hops : ∀ op ∈ ops, ReadOp op) (c : ColIter) (hg : GoodX blocks dflt c) :
    SpecFull (cellsOf blocks) c.rowId ops (runOps c ops) :=
  full_spec blocks dflt hwf ops hops c hg

/-- End to end, any start row: build a column (any kind / block size / encoding, nullable or not),
decode it, create the iterator at ANY row `start ≤ xs.length` (`block_of_row`, `new_good_at`) and run
ANY read program: the outputs follow `SpecFull` over the written cells. -/
theorem iter_refines_slice_full (o : ColOpts) (bt : Nat) (hbt : bt < BLOCK_TYPE_COUNT) (xs : List Cell)
    (hk : KindOk o.kind xs) (hlen : xs.length < 2 ^ 29) (heq : o.enc = .plain ∨ EqSound o.eq)
    (hn : o.nullable = true ∨ o.enc = .dict ∨ ∀ c ∈ xs, c ≠ none)
    (hne : xs ≠ []) (start : Nat) (hstart : start ≤ xs.length)
    (ops : List IterOp) (hops : ∀ op ∈ ops, ReadOp op) :
    ∃ blocks, blockInfos o (buildColumn o bt xs).1 (buildColumn o bt xs).2 = some blocks
      ∧ SpecFull xs start ops (runOps (ColIter.new blocks (defaultItem o.kind) start) ops) := by
  obtain ⟨h1, h2, h3⟩ := column_roundtrip o bt hbt xs hk hlen heq
  refine ⟨_, h1, ?_⟩
  have hne' : infosOf o (cut o xs) 0 ≠ [] := by
    intro h0
    have := congrArg (fun l => l.flatMap (·.cells)) h0
    simp only [h2, List.flatMap_nil] at this
    cases xs with
    | nil => exact hne rfl
    | cons x rest => simp at this
  have hx : cellsOf (infosOf o (cut o xs) 0) = xs := by
    show (infosOf o (cut o xs) 0).flatMap (·.cells) = xs
    rw [h2, map_storedOf_id o xs hn]
  have hrows : rowsOf (infosOf o (cut o xs) 0) = xs.length := by
    show (cellsOf (infosOf o (cut o xs) 0)).length = xs.length
    rw [hx]
  obtain ⟨hg, hr0⟩ := new_good_at _ (defaultItem o.kind) h3 hne' start (by omega)
  have := iter_refines_slice_all _ _ h3 ops hops _ (.inl hg)
  rw [hr0, hx] at this
  exact this

/-- every batch of a run that follows `SpecFull` is the slice of the written cells at its row id -/
theorem specFull_batches (xs : List Cell) (ops : List IterOp) :
    ∀ (p : Nat) (outs : List IterOut), SpecFull xs p ops outs → ∀ out ∈ outs, batchIsSlice xs out = true := by
  induction ops with
  | nil => intro p outs h out hout; simp only [SpecFull] at h; subst h; simp at hout
  | cons op ops ih =>
    intro p outs h out hout
    cases op with
    | next e =>
      simp only [SpecFull] at h
      obtain ⟨o1, rest, rfl, h⟩ := h
      rcases h with ⟨cells, rfl, hc, _, _, hr⟩ | ⟨rfl, _, hr⟩
      · rcases List.mem_cons.mp hout with rfl | hm
        · simp only [batchIsSlice, beq_iff_eq]; exact hc
        · exact ih _ _ hr out hm
      · rcases List.mem_cons.mp hout with rfl | hm
        · rfl
        · exact ih _ _ hr out hm
    | nextHinted k =>
      simp only [SpecFull] at h
      obtain ⟨o1, rest, rfl, h⟩ := h
      rcases h with ⟨cells, rfl, hc, _, _, hr⟩ | ⟨rfl, _, hr⟩
      · rcases List.mem_cons.mp hout with rfl | hm
        · simp only [batchIsSlice, beq_iff_eq]; exact hc
        · exact ih _ _ hr out hm
      · rcases List.mem_cons.mp hout with rfl | hm
        · rfl
        · exact ih _ _ hr out hm
    | hint =>
      simp only [SpecFull] at h
      obtain ⟨hh, hf, rest, rfl, hr⟩ := h
      rcases List.mem_cons.mp hout with rfl | hm
      · rfl
      · exact ih _ _ hr out hm
    | rowId =>
      simp only [SpecFull] at h
      obtain ⟨rest, rfl, hr⟩ := h
      rcases List.mem_cons.mp hout with rfl | hm
      · rfl
      · exact ih _ _ hr out hm
    | skip n =>
      simp only [SpecFull] at h
      rcases h with hr | ⟨_, hr⟩
      · exact ih _ _ hr out hout
      · exact ih _ _ hr out hout
    | skipHinted n =>
      simp only [SpecFull] at h
      obtain ⟨k, rest, rfl, _, h⟩ := h
      rcases List.mem_cons.mp hout with rfl | hm
      · rfl
      · rcases h with hr | ⟨_, hr⟩
        · exact ih _ _ hr out hm
        · exact ih _ _ hr out hm

/-- FULL statement of the read side of C06: for every column in the input domain of the builders
(`KindOk`, < 2^29 rows, run/key equality that is the identity, NULL only where the encoding can hold
it), every start row ≤ the row count and every read program the iterator accepts (`ReadOp`), each
returned (row_id, batch) is the slice of the input at row_id. -/
def IterRefinesSliceFull : Prop :=
  ∀ (o : ColOpts) (bt : Nat) (xs : List Cell) (start : Nat) (ops : List IterOp) (outs : List IterOut),
    bt < BLOCK_TYPE_COUNT → KindOk o.kind xs → xs.length < 2 ^ 29 → (o.enc = .plain ∨ EqSound o.eq) →
    (o.nullable = true ∨ o.enc = .dict ∨ ∀ c ∈ xs, c ≠ none) → xs ≠ [] → start ≤ xs.length →
    (∀ op ∈ ops, ReadOp op) →
    readColumn o bt xs start ops = some outs → ∀ out ∈ outs, batchIsSlice xs out = true

/-- **`IterRefinesSliceFull` holds** (it was refuted by `nullable_cross_block_witness` until the
round-5 repair, and open for `skip` / start rows > 0 until round 6). -/
theorem iter_refines_slice_full_holds : IterRefinesSliceFull := by
  intro o bt xs start ops outs hbt hk hlen heq hn hne hstart hops hread out hout
  obtain ⟨blocks, h1, h2⟩ := iter_refines_slice_full o bt hbt xs hk hlen heq hn hne start hstart ops hops
  simp only [readColumn, h1, Option.map_some] at hread
  injection hread with hread
  subst hread
  exact specFull_batches xs ops start _ h2 out hout

/-- the hypotheses are satisfiable, on a column whose blocks have DIFFERENT row counts (3, 2, 3, 1: varchar
items of different lengths, block size 40), read from start row 1 with a skip over the rest of the first
block, the whole second block and into the third, a batch crossing into the fourth block, and a skip on
top of the fake iterator -/
example : ∃ blocks, blockInfos { kind := .blob, nullable := true, enc := .plain, blockSize := 40 }
      (buildColumn { kind := .blob, nullable := true, enc := .plain, blockSize := 40 } 3
        [some [1], some [2], some [3], some [4,4,4,4,4,4,4,4,4,4,4,4], none, some [6], some [7,7,7,7,7,7,7,7,7], some [8], some [9]]).1
      (buildColumn { kind := .blob, nullable := true, enc := .plain, blockSize := 40 } 3
        [some [1], some [2], some [3], some [4,4,4,4,4,4,4,4,4,4,4,4], none, some [6], some [7,7,7,7,7,7,7,7,7], some [8], some [9]]).2
        = some blocks
    ∧ SpecFull [some [1], some [2], some [3], some [4,4,4,4,4,4,4,4,4,4,4,4], none, some [6], some [7,7,7,7,7,7,7,7,7], some [8], some [9]]
        1 [.skip 5, .next (some 2), .skip 1, .skip 0, .rowId, .next none]
        (runOps (ColIter.new blocks (defaultItem .blob) 1) [.skip 5, .next (some 2), .skip 1, .skip 0, .rowId, .next none]) :=
  iter_refines_slice_full _ 3 (by decide) _ (by show BlobOk _; unfold BlobOk; decide)
    (by decide) (.inl rfl) (.inl rfl) (by decide) 1 (by decide) _
    (by intro op hop; simp at hop; rcases hop with rfl | rfl | rfl | rfl | rfl | rfl <;> simp [ReadOp])

/-- what the model (and the implementation: the same request is in corpus/C06) return on it -/
example : readColumn { kind := .blob, nullable := true, enc := .plain, blockSize := 40 } 3
    [some [1], some [2], some [3], some [4,4,4,4,4,4,4,4,4,4,4,4], none, some [6], some [7,7,7,7,7,7,7,7,7], some [8], some [9]]
    1 [.skip 5, .next (some 2), .skip 1, .skip 0, .rowId, .next none]
    = some [.batch 6 [some [7,7,7,7,7,7,7,7,7], some [8]], .rowId 9, .none] := by decide +kernel

/-- REGRESSION (was `nullable_cross_block_witness`, the refutation of `IterRefinesSliceFull`): on a plain
nullable column a batch that spans two blocks comes back complete, under each row's own validity.
Three i32 cells `[1, NULL, 3]`, block size 24 (one row per block): `next_batch(Some 2)` from row 0
returns `[1, NULL]` at row id 0 and the next batch `[3]` at row id 2 (corpus/C06 line 1; before the
repair the model and the implementation returned `[NULL]` at row id 0: one row lost). -/
theorem nullable_cross_block_regression :
    readColumn { kind := .fixed 4, nullable := true, enc := .plain, blockSize := 24 } 3
      [some [1, 0, 0, 0], none, some [3, 0, 0, 0]] 0 [.next (some 2), .next none]
    = some [.batch 0 [some [1, 0, 0, 0], none], .batch 2 [some [3, 0, 0, 0]]] := by decide +kernel

/-- the mechanism that was repaired: a block iterator that REPLACES the builder's whole validity bitmap
(`nextBatchPre`) loses the rows the builder already holds from the previous block; the repaired one
keeps them. -/
theorem replace_whole_bitmap_loses_rows :
    let it : BIter := { cells := [none], pos := 0, rawNullable := true, dflt := [0, 0, 0, 0] }
    let held : ArrB := { data := [[1, 0, 0, 0]], valid := [true] }
    (it.nextBatchPre (some 1) held).2.1.finish = [none]
    ∧ (it.nextBatch (some 1) held).2.1.finish = [some [1, 0, 0, 0], none] := by decide

/-- REGRESSION (`interval:subday-part-dropped`, repaired in /repo d377780): an INTERVAL item is now 12
bytes — months, days, milliseconds, three big-endian i32 — so `INTERVAL '1 hour'` (ms = 3 600 000 =
0x0036EE80) is an ordinary `fixed 12` cell and reads back exactly, NULLs included (instance of
`block_roundtrip_nullable`; the 8-byte encoding before the repair had no room for the third field). -/
theorem interval_subday_regression :
    decodeBlock { kind := .fixed 12, nullable := true, enc := .plain, blockSize := 64 } 3
      (encodeBlock { kind := .fixed 12, nullable := true, enc := .plain, blockSize := 64 }
        [some [0, 0, 0, 1, 0, 0, 0, 2, 0, 0, 0, 0], none, some [0, 0, 0, 0, 0, 0, 0, 0, 0, 0x36, 0xEE, 0x80]])
    = some [some [0, 0, 0, 1, 0, 0, 0, 2, 0, 0, 0, 0], none, some [0, 0, 0, 0, 0, 0, 0, 0, 0, 0x36, 0xEE, 0x80]] := by
  decide +kernel

/-- FULL statement for fixed-width char (kept visible): every item of at most `w` bytes reads back. -/
def CharRoundtripFull : Prop :=
  ∀ (w : Nat) (cells : List Cell), (∀ it, some it ∈ cells → it.length ≤ w) →
    decodeBlock { kind := .char w, nullable := true, enc := .plain, blockSize := 64 } cells.length
      (encodeBlock { kind := .char w, nullable := true, enc := .plain, blockSize := 64 } cells) = some cells

/-- REFUTED: zero padding is the length marker, so an item with an embedded NUL byte is cut. -/
theorem char_embedded_nul_witness : ¬ CharRoundtripFull := by
  intro h
  have := h 4 [some [120, 0, 121]] (by intro it hit; simp at hit; subst hit; decide)
  revert this; decide +kernel

/-- FULL statement for RLE over f64 (kept visible). -/
def RleF64RoundtripFull : Prop :=
  ∀ cells : List Cell, FixedOk 8 cells →
    decodeBlock { kind := .fixed 8, eq := .f64, nullable := true, enc := .rle, blockSize := 64 } cells.length
      (encodeBlock { kind := .fixed 8, eq := .f64, nullable := true, enc := .rle, blockSize := 64 } cells) = some cells

/-- REFUTED: runs are detected with `OrderedFloat`'s equality, under which `-0.0 == 0.0`; the
second cell joins the run of the first and reads back as `+0.0`. -/
theorem rle_eq_not_identity_witness : ¬ RleF64RoundtripFull := by
  intro h
  have := h [some (leBytes 8 0), some (leBytes 8 0x8000000000000000)]
    (by intro it hit; simp at hit; rcases hit with rfl | rfl <;> rfl)
  revert this; decide +kernel


/-! ## tie to the constants regenerated from the source on every run (`RlModel.Gen.Consts`) -/

example : Gen.BLOCK_META_SIZE = BLOCK_META_SIZE ∧ Gen.BLOCK_META_CHECKSUM_SIZE = BLOCK_META_CHECKSUM_SIZE
    ∧ Gen.BLOCK_META_NON_CHECKSUM_SIZE = BLOCK_META_NON_CHECKSUM_SIZE := by decide
example : Gen.DICT_NULL_VALUE_KEY_U32 = DICT_NULL_KEY ∧ Gen.RLE_MAX_RUN = U32_MAX := by decide
/-- the builders get `target_block_size - 16` -/
example : BB.new { kind := .fixed 4, nullable := false, enc := .plain, blockSize := 100 }
    = .plain (Sub.new false (.fixed 4) (100 - Gen.BLOCK_TARGET_HEADROOM)) := rfl
/-- the fifth-byte guard of `decode_u32_slice` -/
example : decodeU32Slice [0x80, 0x80, 0x80, 0x80, UInt8.ofNat (Gen.VARINT_FIFTH_BYTE_LIMIT - 1)] ≠ none
    ∧ decodeU32Slice [0x80, 0x80, 0x80, 0x80, UInt8.ofNat Gen.VARINT_FIFTH_BYTE_LIMIT] = none := by decide
/-- block type codes written into the trailer -/
example :
    let o (k : Kind) (n : Bool) (e : EncType) : ColOpts := { kind := k, nullable := n, enc := e, blockSize := 0 }
    blockTypeCode (o (.fixed 4) false .plain) = Gen.BT_Plain ∧ blockTypeCode (o (.fixed 4) true .plain) = Gen.BT_PlainNullable
    ∧ blockTypeCode (o (.fixed 4) false .rle) = Gen.BT_RunLength ∧ blockTypeCode (o (.fixed 4) true .rle) = Gen.BT_RleNullable
    ∧ blockTypeCode (o (.fixed 4) false .dict) = Gen.BT_Dictionary ∧ blockTypeCode (o (.fixed 4) true .dict) = Gen.BT_DictNullable
    ∧ blockTypeCode (o .blob false .plain) = Gen.BT_Plain ∧ blockTypeCode (o .blob true .dict) = Gen.BT_DictNullable
    ∧ blockTypeCode (o (.char 3) false .plain) = Gen.BT_PlainFixedChar ∧ blockTypeCode (o (.char 3) true .plain) = Gen.BT_PlainNullableFixedChar
    ∧ blockTypeCode (o (.char 3) false .rle) = Gen.BT_RleFixedChar ∧ blockTypeCode (o (.char 3) true .rle) = Gen.BT_RleNullableFixedChar
    ∧ blockTypeCode (o (.char 3) false .dict) = Gen.BT_DictFixedChar ∧ blockTypeCode (o (.char 3) true .dict) = Gen.BT_DictNullableFixedChar
    ∧ blockTypeCodeVarchar (o .blob false .plain) = Gen.BT_PlainVarchar ∧ blockTypeCodeVarchar (o .blob true .plain) = Gen.BT_PlainNullableVarchar
    ∧ blockTypeCodeVarchar (o .blob false .rle) = Gen.BT_RleVarchar ∧ blockTypeCodeVarchar (o .blob true .rle) = Gen.BT_RleNullableVarchar
    ∧ blockTypeCodeVarchar (o .blob false .dict) = Gen.BT_DictVarchar ∧ blockTypeCodeVarchar (o .blob true .dict) = Gen.BT_DictNullableVarchar
    ∧ Gen.BT_MAX_CODE + 1 = BLOCK_TYPE_COUNT ∧ Gen.BT_COUNT = BLOCK_TYPE_COUNT := by decide

end RlModel
