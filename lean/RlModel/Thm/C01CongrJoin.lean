import RlModel.Thm.C01Congr
/-!
# C01 — rewriting below a join (congruence, two-sided)

`Thm/C01Congr.lean` lifts a rule's soundness through stacks of unary operators.  This file does
the same for a join: **the output of a join is a function of the outputs of its two inputs**
(`join_out`), for all six join types, when the join is built the way RisingLight builds it:

* the join condition is written against the two inputs' output schemas (`onOut2`: every
  expression of an operator is resolved to positions of its children's schemas);
* each input's output columns read only the columns that input defines (`ColsWithin`), and the two
  inputs define disjoint columns (`Disjoint`).

The NULL padding of an outer join is, in this model, the padded side's schema evaluated on the
all-NULL row (`padRow`) — for plain column references that is the all-NULL row RisingLight emits;
a computed column over the padding is read differently by the model (DESIGN §7), so the padding
rows are a parameter of the output-level function and the congruence theorems ask the rewritten
input to have the same padding row (`padRow a = padRow b`, which holds whenever both schemas
consist of column references: `padRow_of_padNull`).

Consequences: `join_congr_left` / `join_congr_right` (a `RelEq` rewrite of an input keeps the
join's output), and `join_congr_left_perm` / `join_congr_right_perm` (a bag-equality rewrite of an
input keeps the join's output as a bag) — the latter for inner, semi, anti and the outer joins.
-/
set_option linter.unusedSimpArgs false
set_option linter.unusedVariables false
namespace RlModel.C01
open RlModel RlModel.P

/-- A join condition written against the two inputs' output schemas. -/
def onOut2 (on : ORow → ORow → Option Bool) (L R : Rel) : BExpr :=
  fun ρ => on (outRow L ρ) (outRow R ρ)

/-- Every output column of `r` reads only columns `r` defines. -/
def ColsWithin (r : Rel) : Prop := ∀ c ∈ r.cols, ReadsWithin c r.owned

/-- The two inputs define disjoint columns. -/
def DisjointOwned (L R : Rel) : Prop := ∀ x, L.owned x = true → R.owned x = false

/-- The padding row of an outer join for input `r` (its schema on the all-NULL row). -/
def padRow (r : Rel) : ORow := outRow r nullEnv

/-- All output columns are NULL on the all-NULL row (true of column references). -/
def PadNull (r : Rel) : Prop := ∀ c ∈ r.cols, c nullEnv = .null

theorem padRow_of_padNull (r : Rel) (h : PadNull r) : padRow r = r.cols.map fun _ => PV.null := by
  unfold padRow outRow
  apply List.map_congr_left
  intro c hc
  exact h c hc

theorem padRow_eq_of_padNull (a b : Rel) (ha : PadNull a) (hb : PadNull b)
    (hlen : a.cols.length = b.cols.length) : padRow a = padRow b := by
  rw [padRow_of_padNull a ha, padRow_of_padNull b hb]
  have : ∀ (n : Nat) (xs : List VExpr), xs.length = n → (xs.map fun _ => PV.null) = List.replicate n PV.null := by
    intro n xs h
    subst h
    induction xs with
    | nil => rfl
    | cons x xs ih => simp [List.replicate_succ, ih]
  rw [this _ a.cols rfl, this _ b.cols hlen.symm]

-- the output-level join ------------------------------------------------------------------------------

/-- `xs`, or the padding element when `xs` is empty. -/
def padIfEmpty {α} (a : α) : List α → List α
  | [] => [a]
  | ms => ms

theorem padIfEmpty_map {α β} (f : α → β) (a : α) (xs : List α) :
    (padIfEmpty a xs).map f = padIfEmpty (f a) (xs.map f) := by
  cases xs <;> rfl

theorem padIfEmpty_perm {α} (a : α) (xs ys : List α) (h : xs.Perm ys) :
    (padIfEmpty a xs).Perm (padIfEmpty a ys) := by
  cases xs with
  | nil => rw [List.nil_perm.mp h]
  | cons x xs =>
    cases ys with
    | nil => exact absurd h.symm (by simp)
    | cons y ys => exact h

def matchO (on : ORow → ORow → Option Bool) (l : ORow) (ro : Out) : Out :=
  ro.filter fun r => on l r == some true

def matchOL (on : ORow → ORow → Option Bool) (lo : Out) (r : ORow) : Out :=
  lo.filter fun l => on l r == some true

/-- The join on outputs. `pl`, `pr`: padding rows of the left / right input. -/
def joinOut (t : JoinType) (on : ORow → ORow → Option Bool) (lo ro : Out) (pl pr : ORow) : Out :=
  match t with
  | .inner => lo.flatMap fun l => (matchO on l ro).map fun r => l ++ r
  | .leftOuter => lo.flatMap fun l => padIfEmpty (l ++ pr) ((matchO on l ro).map fun r => l ++ r)
  | .semi => lo.filter fun l => !(matchO on l ro).isEmpty
  | .anti => lo.filter fun l => (matchO on l ro).isEmpty
  | .rightOuter => ro.flatMap fun r => padIfEmpty (pl ++ r) ((matchOL on lo r).map fun l => l ++ r)
  | .fullOuter =>
      (lo.flatMap fun l => padIfEmpty (l ++ pr) ((matchO on l ro).map fun r => l ++ r)) ++
      ((ro.filter fun r => (matchOL on lo r).isEmpty).map fun r => pl ++ r)

-- reading a merged row through the two schemas ---------------------------------------------------------

theorem outRow_congr (r : Rel) (ρ σ : Env) (h : ∀ c ∈ r.cols, c ρ = c σ) : outRow r ρ = outRow r σ := by
  unfold outRow
  exact List.map_congr_left h

theorem outRow_left (L R : Rel) (hd : DisjointOwned L R) (hL : ColsWithin L) (l r : Env) :
    outRow L (merge R.owned l r) = outRow L l := by
  apply outRow_congr
  intro c hc
  apply hL c hc
  intro x hx
  simp [merge, hd x hx]

theorem outRow_right (R : Rel) (hR : ColsWithin R) (l r : Env) :
    outRow R (merge R.owned l r) = outRow R r := by
  apply outRow_congr
  intro c hc
  apply hR c hc
  intro x hx
  simp [merge, hx]

/-- The right padding: the right schema on `merge S l nullEnv` is the padding row. -/
theorem outRow_right_pad (R : Rel) (hR : ColsWithin R) (l : Env) :
    outRow R (merge R.owned l nullEnv) = padRow R := outRow_right R hR l nullEnv

/-- The left padding of a right / full outer join. -/
theorem outRow_left_pad (L R : Rel) (hd : DisjointOwned L R) (hL : ColsWithin L) (r : Env) :
    outRow L (merge R.owned (fun x => if L.owned x then PV.null else r x) r) = padRow L := by
  apply outRow_congr
  intro c hc
  apply hL c hc
  intro x hx
  simp [merge, hd x hx, hx, nullEnv]

theorem holds_onOut2 (on : ORow → ORow → Option Bool) (L R : Rel) (hd : DisjointOwned L R)
    (hL : ColsWithin L) (hR : ColsWithin R) (l r : Env) :
    holds (onOut2 on L R) (merge R.owned l r) = (on (outRow L l) (outRow R r) == some true) := by
  unfold holds onOut2
  rw [outRow_left L R hd hL, outRow_right R hR]

/-- Output row of a (non-semi) join row. -/
def outRow2 (L R : Rel) (ρ : Env) : ORow := outRow L ρ ++ outRow R ρ

theorem outRow_cat (L R : Rel) (o : Col → Bool) (rows : List Env) (ρ : Env) :
    outRow { cols := L.cols ++ R.cols, owned := o, rows := rows } ρ = outRow2 L R ρ := by
  simp [outRow, outRow2]

-- matches, read through the schemas ----------------------------------------------------------------------

theorem matchesL_out (on : ORow → ORow → Option Bool) (L R : Rel) (hd : DisjointOwned L R)
    (hL : ColsWithin L) (hR : ColsWithin R) (l : Env) :
    (matchesL (onOut2 on L R) R.owned l R.rows).map (outRow2 L R)
      = (matchO on (outRow L l) R.out).map fun r => outRow L l ++ r := by
  unfold matchesL matchO
  rw [out_eq_map]
  induction R.rows with
  | nil => rfl
  | cons r rs ih =>
    simp only [List.map_cons, List.filter_cons, holds_onOut2 on L R hd hL hR]
    split
    · simp only [List.map_cons, ih, outRow2, outRow_left L R hd hL, outRow_right R hR]
    · exact ih

theorem matchesL_isEmpty (on : ORow → ORow → Option Bool) (L R : Rel) (hd : DisjointOwned L R)
    (hL : ColsWithin L) (hR : ColsWithin R) (l : Env) :
    (matchesL (onOut2 on L R) R.owned l R.rows).isEmpty = (matchO on (outRow L l) R.out).isEmpty := by
  have h := congrArg List.isEmpty (matchesL_out on L R hd hL hR l)
  simpa using h

theorem matchesR_out (on : ORow → ORow → Option Bool) (L R : Rel) (hd : DisjointOwned L R)
    (hL : ColsWithin L) (hR : ColsWithin R) (r : Env) :
    ((L.rows.map fun l => merge R.owned l r).filter (holds (onOut2 on L R))).map (outRow2 L R)
      = (matchOL on L.out (outRow R r)).map fun l => l ++ outRow R r := by
  unfold matchOL
  rw [out_eq_map]
  induction L.rows with
  | nil => rfl
  | cons l ls ih =>
    simp only [List.map_cons, List.filter_cons, holds_onOut2 on L R hd hL hR]
    split
    · simp only [List.map_cons, ih, outRow2, outRow_left L R hd hL, outRow_right R hR]
    · exact ih

theorem matchesR_isEmpty (on : ORow → ORow → Option Bool) (L R : Rel) (hd : DisjointOwned L R)
    (hL : ColsWithin L) (hR : ColsWithin R) (r : Env) :
    ((L.rows.map fun l => merge R.owned l r).filter (holds (onOut2 on L R))).isEmpty
      = (matchOL on L.out (outRow R r)).isEmpty := by
  have h := congrArg List.isEmpty (matchesR_out on L R hd hL hR r)
  simpa using h

theorem flatMap_map_out {β} (rows : List Env) (f : Env → ORow) (g : ORow → List β) (g' : Env → List β)
    (h : ∀ ρ, g' ρ = g (f ρ)) : rows.flatMap g' = (rows.map f).flatMap g := by
  induction rows with
  | nil => rfl
  | cons x xs ih => simp [List.flatMap_cons, h, ih]

theorem joinRows_leftOuter (on : BExpr) (L R : Rel) :
    joinRows .leftOuter on L R
      = L.rows.flatMap fun l => padIfEmpty (merge R.owned l nullEnv) (matchesL on R.owned l R.rows) := by
  unfold joinRows
  apply flatMap_congr'
  intro l _
  cases matchesL on R.owned l R.rows <;> rfl

theorem joinRows_rightOuter (on : BExpr) (L R : Rel) :
    joinRows .rightOuter on L R
      = R.rows.flatMap fun r => padIfEmpty (merge R.owned (fun x => if L.owned x then PV.null else r x) r)
          ((L.rows.map fun l => merge R.owned l r).filter (holds on)) := by
  unfold joinRows
  apply flatMap_congr'
  intro r _
  cases (L.rows.map fun l => merge R.owned l r).filter (holds on) <;> rfl

theorem joinRows_fullOuter (on : BExpr) (L R : Rel) :
    joinRows .fullOuter on L R
      = (L.rows.flatMap fun l => padIfEmpty (merge R.owned l nullEnv) (matchesL on R.owned l R.rows)) ++
        (R.rows.filter fun r => ((L.rows.map fun l => merge R.owned l r).filter (holds on)).isEmpty).map
          fun r => merge R.owned (fun x => if L.owned x then PV.null else r x) r := by
  simp only [joinRows]
  congr 1
  apply flatMap_congr'
  intro l _
  cases matchesL on R.owned l R.rows <;> rfl

/-- The per-left-row block of a left / full outer join, read through the schemas. -/
theorem leftBlock_out (on : ORow → ORow → Option Bool) (L R : Rel) (hd : DisjointOwned L R)
    (hL : ColsWithin L) (hR : ColsWithin R) (l : Env) :
    (padIfEmpty (merge R.owned l nullEnv) (matchesL (onOut2 on L R) R.owned l R.rows)).map (outRow2 L R)
      = padIfEmpty (outRow L l ++ padRow R) ((matchO on (outRow L l) R.out).map fun r => outRow L l ++ r) := by
  rw [padIfEmpty_map, matchesL_out on L R hd hL hR]
  simp only [outRow2, outRow_left L R hd hL, outRow_right_pad R hR]

theorem rightBlock_out (on : ORow → ORow → Option Bool) (L R : Rel) (hd : DisjointOwned L R)
    (hL : ColsWithin L) (hR : ColsWithin R) (r : Env) :
    (padIfEmpty (merge R.owned (fun x => if L.owned x then PV.null else r x) r)
        ((L.rows.map fun l => merge R.owned l r).filter (holds (onOut2 on L R)))).map (outRow2 L R)
      = padIfEmpty (padRow L ++ outRow R r) ((matchOL on L.out (outRow R r)).map fun l => l ++ outRow R r) := by
  rw [padIfEmpty_map, matchesR_out on L R hd hL hR]
  simp only [outRow2, outRow_left_pad L R hd hL, outRow_right R hR]

theorem join_out_rows (t : JoinType) (c : BExpr) (L R : Rel) (h : ¬ (t = .semi ∨ t = .anti)) :
    (join t c L R).out = (joinRows t c L R).map (outRow2 L R) := by
  simp only [Rel.out, join, h, if_false]
  apply List.map_congr_left
  intro ρ _
  simp [outRow2, outRow]

theorem join_out_rows_semi (t : JoinType) (c : BExpr) (L R : Rel) (h : t = .semi ∨ t = .anti) :
    (join t c L R).out = (joinRows t c L R).map (outRow L) := by
  simp only [Rel.out, join, h, if_true]
  rfl

/-- **The output of a join is a function of the outputs of its inputs** (all six join types). -/
theorem join_out (t : JoinType) (on : ORow → ORow → Option Bool) (L R : Rel)
    (hd : DisjointOwned L R) (hL : ColsWithin L) (hR : ColsWithin R) :
    (join t (onOut2 on L R) L R).out = joinOut t on L.out R.out (padRow L) (padRow R) := by
  cases t with
  | inner =>
    rw [join_out_rows _ _ _ _ (by decide)]
    simp only [joinRows, joinOut]
    rw [List.map_flatMap, out_eq_map L]
    exact flatMap_map_out L.rows (outRow L) (fun l => (matchO on l R.out).map fun r => l ++ r) _
      (fun l => matchesL_out on L R hd hL hR l)
  | leftOuter =>
    rw [join_out_rows _ _ _ _ (by decide), joinRows_leftOuter]
    simp only [joinOut]
    rw [List.map_flatMap, out_eq_map L]
    exact flatMap_map_out L.rows (outRow L)
      (fun l => padIfEmpty (l ++ padRow R) ((matchO on l R.out).map fun r => l ++ r)) _
      (fun l => leftBlock_out on L R hd hL hR l)
  | semi =>
    rw [join_out_rows_semi _ _ _ _ (Or.inl rfl)]
    simp only [joinRows, joinOut]
    rw [out_eq_map L, List.filter_map]
    congr 1
    apply List.filter_congr
    intro l _
    simp only [Function.comp]
    rw [matchesL_isEmpty on L R hd hL hR l]
  | anti =>
    rw [join_out_rows_semi _ _ _ _ (Or.inr rfl)]
    simp only [joinRows, joinOut]
    rw [out_eq_map L, List.filter_map]
    congr 1
    apply List.filter_congr
    intro l _
    simp only [Function.comp]
    rw [matchesL_isEmpty on L R hd hL hR l]
  | rightOuter =>
    rw [join_out_rows _ _ _ _ (by decide), joinRows_rightOuter]
    simp only [joinOut]
    rw [List.map_flatMap, out_eq_map R]
    exact flatMap_map_out R.rows (outRow R)
      (fun r => padIfEmpty (padRow L ++ r) ((matchOL on L.out r).map fun l => l ++ r)) _
      (fun r => rightBlock_out on L R hd hL hR r)
  | fullOuter =>
    rw [join_out_rows _ _ _ _ (by decide), joinRows_fullOuter]
    simp only [joinOut]
    rw [List.map_append, List.map_flatMap]
    congr 1
    · rw [out_eq_map L]
      exact flatMap_map_out L.rows (outRow L)
        (fun l => padIfEmpty (l ++ padRow R) ((matchO on l R.out).map fun r => l ++ r)) _
        (fun l => leftBlock_out on L R hd hL hR l)
    · rw [out_eq_map R, List.filter_map, List.map_map, List.map_map]
      have hf : (R.rows.filter fun r => ((L.rows.map fun l => merge R.owned l r).filter (holds (onOut2 on L R))).isEmpty)
          = R.rows.filter ((fun r => (matchOL on L.out r).isEmpty) ∘ outRow R) := by
        apply List.filter_congr
        intro r _
        simp only [Function.comp]
        rw [matchesR_isEmpty on L R hd hL hR r]
      rw [hf]
      apply List.map_congr_left
      intro r _
      simp only [Function.comp, outRow2, outRow_left_pad L R hd hL r,
        outRow_right R hR (fun x => if L.owned x then PV.null else r x) r]

-- congruence ------------------------------------------------------------------------------------------------

/-- **Rewriting the left input of a join**: same output of the input (a `psound_*` conclusion),
same padding row — same output of the join. -/
theorem join_congr_left (t : JoinType) (on : ORow → ORow → Option Bool) (a b R : Rel)
    (h : RelEq a b) (hpad : padRow a = padRow b)
    (hda : DisjointOwned a R) (hdb : DisjointOwned b R)
    (ha : ColsWithin a) (hb : ColsWithin b) (hR : ColsWithin R) :
    RelEq (join t (onOut2 on a R) a R) (join t (onOut2 on b R) b R) := by
  unfold RelEq at *
  rw [join_out t on a R hda ha hR, join_out t on b R hdb hb hR, h, hpad]

/-- **Rewriting the right input of a join.** -/
theorem join_congr_right (t : JoinType) (on : ORow → ORow → Option Bool) (L a b : Rel)
    (h : RelEq a b) (hpad : padRow a = padRow b)
    (hda : DisjointOwned L a) (hdb : DisjointOwned L b)
    (hL : ColsWithin L) (ha : ColsWithin a) (hb : ColsWithin b) :
    RelEq (join t (onOut2 on L a) L a) (join t (onOut2 on L b) L b) := by
  unfold RelEq at *
  rw [join_out t on L a hda hL ha, join_out t on L b hdb hL hb, h, hpad]

-- bag congruence -----------------------------------------------------------------------------------------------

theorem matchO_perm (on : ORow → ORow → Option Bool) (l : ORow) (ro ro' : Out) (h : ro.Perm ro') :
    (matchO on l ro).Perm (matchO on l ro') := h.filter _

theorem matchOL_perm (on : ORow → ORow → Option Bool) (lo lo' : Out) (r : ORow) (h : lo.Perm lo') :
    (matchOL on lo r).Perm (matchOL on lo' r) := h.filter _

theorem isEmpty_perm {α} (xs ys : List α) (h : xs.Perm ys) : xs.isEmpty = ys.isEmpty := by
  cases xs with
  | nil => rw [List.nil_perm.mp h]
  | cons x xs =>
    cases ys with
    | nil => exact absurd h.symm (by simp)
    | cons y ys => rfl

theorem perm_flatMap_left {α β} (l : List α) (f g : α → List β) (h : ∀ a ∈ l, (f a).Perm (g a)) :
    (l.flatMap f).Perm (l.flatMap g) := by
  induction l with
  | nil => exact List.Perm.refl _
  | cons a l ih =>
    simp only [List.flatMap_cons]
    exact List.Perm.append (h a (List.mem_cons_self ..)) (ih fun b hb => h b (List.mem_cons_of_mem _ hb))

/-- The output-level join respects bag equality of the **left** output. -/
theorem joinOut_perm_left (t : JoinType) (on : ORow → ORow → Option Bool) (lo lo' ro : Out)
    (pl pr : ORow) (h : lo.Perm lo') : (joinOut t on lo ro pl pr).Perm (joinOut t on lo' ro pl pr) := by
  cases t with
  | inner => exact h.flatMap_right _
  | leftOuter => exact h.flatMap_right _
  | semi => exact h.filter _
  | anti => exact h.filter _
  | rightOuter =>
    simp only [joinOut]
    apply perm_flatMap_left _ _ _
    intro r _
    exact padIfEmpty_perm _ _ _ ((matchOL_perm on lo lo' r h).map _)
  | fullOuter =>
    simp only [joinOut]
    apply List.Perm.append (h.flatMap_right _)
    have : (ro.filter fun r => (matchOL on lo r).isEmpty) = ro.filter fun r => (matchOL on lo' r).isEmpty := by
      apply List.filter_congr
      intro r _
      exact isEmpty_perm _ _ (matchOL_perm on lo lo' r h)
    rw [this]

/-- The output-level join respects bag equality of the **right** output. -/
theorem joinOut_perm_right (t : JoinType) (on : ORow → ORow → Option Bool) (lo ro ro' : Out)
    (pl pr : ORow) (h : ro.Perm ro') : (joinOut t on lo ro pl pr).Perm (joinOut t on lo ro' pl pr) := by
  cases t with
  | inner =>
    simp only [joinOut]
    apply perm_flatMap_left _ _ _
    intro l _
    exact (matchO_perm on l ro ro' h).map _
  | leftOuter =>
    simp only [joinOut]
    apply perm_flatMap_left _ _ _
    intro l _
    exact padIfEmpty_perm _ _ _ ((matchO_perm on l ro ro' h).map _)
  | semi =>
    simp only [joinOut]
    have : (lo.filter fun l => !(matchO on l ro).isEmpty) = lo.filter fun l => !(matchO on l ro').isEmpty := by
      apply List.filter_congr
      intro l _
      rw [isEmpty_perm _ _ (matchO_perm on l ro ro' h)]
    rw [this]
  | anti =>
    simp only [joinOut]
    have : (lo.filter fun l => (matchO on l ro).isEmpty) = lo.filter fun l => (matchO on l ro').isEmpty := by
      apply List.filter_congr
      intro l _
      rw [isEmpty_perm _ _ (matchO_perm on l ro ro' h)]
    rw [this]
  | rightOuter => exact h.flatMap_right _
  | fullOuter =>
    simp only [joinOut]
    apply List.Perm.append
    · apply perm_flatMap_left _ _ _
      intro l _
      exact padIfEmpty_perm _ _ _ ((matchO_perm on l ro ro' h).map _)
    · exact (h.filter _).map _

/-- **Rewriting the left input of a join by a bag-equality rule** (join commutation / rotation
below another join, …) keeps the join's answer as a bag. -/
theorem join_congr_left_perm (t : JoinType) (on : ORow → ORow → Option Bool) (a b R : Rel)
    (h : RelPerm a b) (hpad : padRow a = padRow b)
    (hda : DisjointOwned a R) (hdb : DisjointOwned b R)
    (ha : ColsWithin a) (hb : ColsWithin b) (hR : ColsWithin R) :
    RelPerm (join t (onOut2 on a R) a R) (join t (onOut2 on b R) b R) := by
  unfold RelPerm at *
  rw [join_out t on a R hda ha hR, join_out t on b R hdb hb hR, hpad]
  exact joinOut_perm_left t on _ _ _ _ _ h

/-- **Rewriting the right input of a join by a bag-equality rule.** -/
theorem join_congr_right_perm (t : JoinType) (on : ORow → ORow → Option Bool) (L a b : Rel)
    (h : RelPerm a b) (hpad : padRow a = padRow b)
    (hda : DisjointOwned L a) (hdb : DisjointOwned L b)
    (hL : ColsWithin L) (ha : ColsWithin a) (hb : ColsWithin b) :
    RelPerm (join t (onOut2 on L a) L a) (join t (onOut2 on L b) L b) := by
  unfold RelPerm at *
  rw [join_out t on L a hda hL ha, join_out t on L b hdb hL hb, hpad]
  exact joinOut_perm_right t on _ _ _ _ _ h

-- hash / merge join --------------------------------------------------------------------------------------------

/-- Key-list equality of the hash / merge join executors on output rows. -/
def keysEqO : List (ORow → PV) → List (ORow → PV) → ORow → ORow → Bool
  | [], [], _, _ => true
  | l :: ls, r :: rs, v, w => keyEq (l v) (r w) && keysEqO ls rs v w
  | _, _, _, _ => false

theorem outRow_maskTo (r : Rel) (hr : ColsWithin r) (ρ : Env) : outRow r (maskTo r.owned ρ) = outRow r ρ := by
  apply outRow_congr
  intro c hc
  apply hr c hc
  intro x hx
  simp [maskTo, hx]

theorem keysEq_pull (lk rk : List (ORow → PV)) (L R : Rel) (hL : ColsWithin L) (hR : ColsWithin R) (ρ : Env) :
    (keysEq (keysOn L.owned (lk.map fun k => onOut k L)) (keysOn R.owned (rk.map fun k => onOut k R)) ρ == some true)
      = keysEqO lk rk (outRow L ρ) (outRow R ρ) := by
  induction lk generalizing rk with
  | nil =>
    cases rk with
    | nil => rfl
    | cons r rs => rfl
  | cons l ls ih =>
    cases rk with
    | nil => rfl
    | cons r rs =>
      have ih' := ih rs
      simp only [keysOn, List.map_cons, List.map_map] at ih' ⊢
      simp only [keysEq, keysEqO, Function.comp, onOut, outRow_maskTo L hL, outRow_maskTo R hR]
      rw [← ih']
      cases keyEq (l (outRow L ρ)) (r (outRow R ρ)) <;> simp

/-- **The output of a hash (or merge) join is a function of the outputs of its inputs**: keys and
residual condition written against the inputs' output schemas. -/
theorem hashjoin_out (t : JoinType) (c : ORow → ORow → Option Bool) (lk rk : List (ORow → PV)) (L R : Rel)
    (hd : DisjointOwned L R) (hL : ColsWithin L) (hR : ColsWithin R) :
    (hashjoin t (onOut2 c L R) (lk.map fun k => onOut k L) (rk.map fun k => onOut k R) L R).out
      = joinOut t (fun v w => some (keysEqO lk rk v w && (c v w == some true))) L.out R.out (padRow L) (padRow R) := by
  have hc : (fun ρ => some ((keysEq (keysOn L.owned (lk.map fun k => onOut k L))
        (keysOn R.owned (rk.map fun k => onOut k R)) ρ == some true) && holds (onOut2 c L R) ρ))
      = onOut2 (fun v w => some (keysEqO lk rk v w && (c v w == some true))) L R := by
    funext ρ
    simp only [onOut2, holds, keysEq_pull lk rk L R hL hR ρ]
  unfold hashjoin
  rw [hc]
  exact join_out t _ L R hd hL hR

/-- **Rewriting an input of a hash / merge join** (left input; the right one is symmetric through
`hashjoin_out`). -/
theorem hashjoin_congr_left (t : JoinType) (c : ORow → ORow → Option Bool) (lk rk : List (ORow → PV))
    (a b R : Rel) (h : RelEq a b) (hpad : padRow a = padRow b)
    (hda : DisjointOwned a R) (hdb : DisjointOwned b R)
    (ha : ColsWithin a) (hb : ColsWithin b) (hR : ColsWithin R) :
    RelEq (hashjoin t (onOut2 c a R) (lk.map fun k => onOut k a) (rk.map fun k => onOut k R) a R)
          (hashjoin t (onOut2 c b R) (lk.map fun k => onOut k b) (rk.map fun k => onOut k R) b R) := by
  unfold RelEq at *
  rw [hashjoin_out t c lk rk a R hda ha hR, hashjoin_out t c lk rk b R hdb hb hR, h, hpad]

theorem hashjoin_congr_right (t : JoinType) (c : ORow → ORow → Option Bool) (lk rk : List (ORow → PV))
    (L a b : Rel) (h : RelEq a b) (hpad : padRow a = padRow b)
    (hda : DisjointOwned L a) (hdb : DisjointOwned L b)
    (hL : ColsWithin L) (ha : ColsWithin a) (hb : ColsWithin b) :
    RelEq (hashjoin t (onOut2 c L a) (lk.map fun k => onOut k L) (rk.map fun k => onOut k a) L a)
          (hashjoin t (onOut2 c L b) (lk.map fun k => onOut k L) (rk.map fun k => onOut k b) L b) := by
  unfold RelEq at *
  rw [hashjoin_out t c lk rk L a hda hL ha, hashjoin_out t c lk rk L b hdb hL hb, h, hpad]

/-- Non-vacuity: a left outer join of two concrete one-column tables on equality, read through
`join_out`'s right-hand side: the unmatched left row is padded. -/
example : joinOut .leftOuter (fun l r => some (l == r)) [[.n 1], [.n 2]] [[.n 2], [.n 3]] [.null] [.null]
    = [[.n 1, .null], [.n 2, .n 2]] := by
  decide

/-- … and the hypotheses of `join_out` hold of two scans of different tables. -/
example :
    let L : Rel := { cols := [fun ρ => ρ 0], owned := fun x => x == 0, rows := [fun _ => .n 1, fun _ => .n 2] }
    let R : Rel := { cols := [fun ρ => ρ 1], owned := fun x => x == 1, rows := [fun _ => .n 2] }
    DisjointOwned L R ∧ ColsWithin L ∧ ColsWithin R ∧ PadNull L ∧ PadNull R := by
  refine ⟨?_, ?_, ?_, ?_, ?_⟩
  · intro x hx
    simp only [beq_iff_eq] at hx
    subst hx
    decide
  · intro c hc ρ ρ' h
    simp only [List.mem_singleton] at hc
    subst hc
    exact h 0 (by decide)
  · intro c hc ρ ρ' h
    simp only [List.mem_singleton] at hc
    subst hc
    exact h 1 (by decide)
  · intro c hc
    simp only [List.mem_singleton] at hc
    subst hc
    rfl
  · intro c hc
    simp only [List.mem_singleton] at hc
    subst hc
    rfl

end RlModel.C01
