import RlModel.Lemmas.PlanOrder
/-!
# C01 — the order property behind `useless-order`, `sort-agg`, `merge-join`

The three order rules (`planner/rules/order.rs`) fire on the condition `is_orderby(keys, plan)`:
the order analysis' claim for the e-class of `plan` *starts with* `keys`.  The rule statements
(`pstmt_useless_order`, …) take the semantic fact "the rows are sorted by `keys`" as their
hypothesis.  This file closes the gap between the two:

* `sortRows_id_iff` — "sorting by the keys changes nothing" (the hypothesis as the translator
  writes it) is exactly sortedness (`SortedBy`: no later row sorts strictly before an earlier one);
* `sortedBy_prefix` / `is_orderby_sound` — rows sorted by a key list are sorted by every prefix of
  it: a claim that starts with `keys` gives the rule's hypothesis;
* `class_claim_common_prefix_sound` — **the class-level claim**: an e-class holds several plans
  (a hash aggregation next to its sort aggregation, a hash join next to its merge join) and the
  extractor picks one by cost alone.  If every member's own claim is true of its own rows, then
  the common prefix of the claims is true of *every* member's rows — the merge /repo uses since
  85f5275.  `class_claim_max_unsound` is the regression statement for the merge it replaced
  (`merge_max`: the claim of one member): there are two members with true claims for which the
  maximum is false of the other member's rows.
-/
set_option linter.unusedSimpArgs false
set_option linter.unusedVariables false
namespace RlModel.C01
open RlModel RlModel.P

theorem sortRows_of_sorted (lt : Env → Env → Bool) (xs : List Env) (h : SortedBy lt xs) :
    sortRows lt xs = xs := by
  induction xs with
  | nil => rfl
  | cons x xs ih =>
    obtain ⟨hx, hxs⟩ := h
    simp only [sortRows, ih hxs]
    exact insertSorted_front lt x xs hx

/-- "Sorting changes nothing" is sortedness. -/
theorem sortRows_id_iff (lt : Env → Env → Bool) (hw : StrictWeak lt) (xs : List Env) :
    sortRows lt xs = xs ↔ SortedBy lt xs := by
  constructor
  · intro h
    have := sortRows_sorted lt hw xs
    rwa [h] at this
  · exact sortRows_of_sorted lt xs

/-- Strictly before under a key list is strictly before under any extension of it. -/
theorem keysLt_append (ks ks' : List Key) (a b : Env) (h : keysLt ks a b = true) :
    keysLt (ks ++ ks') a b = true := by
  induction ks with
  | nil => simp [keysLt] at h
  | cons k ks ih =>
    simp only [List.cons_append, keysLt] at h ⊢
    by_cases he : k.e a = k.e b
    · simp only [he, if_true] at h ⊢
      exact ih h
    · simp only [he, if_false] at h ⊢
      exact h

theorem sortedBy_mono (lt lt' : Env → Env → Bool) (h : ∀ a b, lt' a b = true → lt a b = true)
    (xs : List Env) (hs : SortedBy lt xs) : SortedBy lt' xs := by
  induction xs with
  | nil => trivial
  | cons x xs ih =>
    obtain ⟨hx, hxs⟩ := hs
    refine ⟨?_, ih hxs⟩
    intro y hy
    cases hyx : lt' y x with
    | false => rfl
    | true =>
      have := h y x hyx
      rw [hx y hy] at this
      cases this

/-- **Rows sorted by a key list are sorted by every prefix of it.** -/
theorem sortedBy_prefix (ks ks' : List Key) (xs : List Env) (h : SortedBy (keysLt (ks ++ ks')) xs) :
    SortedBy (keysLt ks) xs :=
  sortedBy_mono _ _ (fun a b hab => keysLt_append ks ks' a b hab) xs h

/-- **`is_orderby(keys, plan)` gives the hypothesis of the order rules**: the class' claim starts
with `keys` (`claim = keys ++ rest`) and is true of the rows. -/
theorem is_orderby_sound (keys rest : List Key) (rows : List Env)
    (hclaim : SortedBy (keysLt (keys ++ rest)) rows) :
    sortRows (keysLt keys) rows = rows :=
  sortRows_of_sorted _ _ (sortedBy_prefix keys rest rows hclaim)

/-- **The class-level claim with the common-prefix merge is true of every member**: two plans of
one e-class with claims `p ++ a` and `p ++ b`, each true of its own rows; the merged claim `p` is
true of both — whichever the extractor picks. -/
theorem class_claim_common_prefix_sound (p a b : List Key) (rowsA rowsB : List Env)
    (hA : SortedBy (keysLt (p ++ a)) rowsA) (hB : SortedBy (keysLt (p ++ b)) rowsB) :
    SortedBy (keysLt p) rowsA ∧ SortedBy (keysLt p) rowsB :=
  ⟨sortedBy_prefix p a rowsA hA, sortedBy_prefix p b rowsB hB⟩

/-- Regression statement for `merge_max` (/repo before 85f5275): the class of a sort aggregation
(claim `[k]`, rows sorted) and its hash aggregation (claim `[]`, the same rows in another order)
got the claim `[k]`, which is false of the hash aggregation's rows. -/
theorem class_claim_max_unsound :
    ∃ (k : Key) (rowsA rowsB : List Env),
      SortedBy (keysLt [k]) rowsA ∧ SortedBy (keysLt []) rowsB ∧ rowsA.Perm rowsB ∧
      ¬ SortedBy (keysLt [k]) rowsB := by
  refine ⟨{ e := fun ρ => ρ 0, desc := false }, [fun _ => .n 1, fun _ => .n 2], [fun _ => .n 2, fun _ => .n 1],
    ?_, ?_, ?_, ?_⟩
  · refine ⟨?_, ?_, trivial⟩
    · intro y hy
      simp only [List.mem_singleton] at hy
      subst hy
      decide
    · intro y hy
      cases hy
  · refine ⟨?_, ?_, trivial⟩
    · intro y hy
      rfl
    · intro y hy
      cases hy
  · exact List.Perm.swap _ _ _
  · intro h
    have := h.1 (fun _ => .n 1) (by simp)
    revert this
    decide

/-- Non-vacuity of `is_orderby_sound`: three rows sorted by `(c0, c1 desc)` are sorted by `c0`. -/
example :
    let rows : List Env := [fun x => if x = 0 then .n 1 else .n 9, fun x => if x = 0 then .n 1 else .n 3,
      fun x => if x = 0 then .n 2 else .n 5]
    sortRows (keysLt [{ e := fun ρ => ρ 0, desc := false }]) rows = rows := by
  intro rows
  apply is_orderby_sound [{ e := fun ρ => ρ 0, desc := false }] [{ e := fun ρ => ρ 1, desc := true }]
  refine ⟨?_, ?_, ?_, trivial⟩
  · intro y hy
    simp only [List.mem_cons, List.mem_singleton, List.not_mem_nil, or_false] at hy
    rcases hy with rfl | rfl <;> decide
  · intro y hy
    simp only [List.mem_singleton] at hy
    subst hy
    decide
  · intro y hy
    cases hy

end RlModel.C01
