import RlModel.Thm.C01
/-!
# C01 — the two open value-unsound expression rules are truth-preserving

`eq-trans` and `and-gt-lt-conflict` (open findings: the unit tests of the repository expect them)
change the VALUE of a predicate between NULL and FALSE, never its truth: both sides are TRUE for the
same operands, NULLs included (`truth_eq_trans_*`, `truth_and_gt_lt_conflict_*`).  A filter, a join
condition and every AND / OR above them only look at "is it TRUE" (`PCtx.truth_congr`): in such a
positive context the rewritten query returns the same rows.  Under a NOT it does not
(`truth_not_congr_fails`): that is exactly where the recorded findings produce a wrong answer
(`WHERE NOT (b > 2 AND b < 1)` with a NULL `b`).
-/
set_option linter.unusedSimpArgs false
set_option linter.unusedVariables false
namespace RlModel.C01
open RlModel RlModel.X RlModel.Gen

/-- What a filter / join condition looks at. -/
def IsTrue (v : Option Bool) : Bool := v == some true

theorem truth_eq_trans_NNN (a b c : Option Int) :
    IsTrue (lhs_eq_trans_NNN a b c) = IsTrue (rhs_eq_trans_NNN a b c) := by
  simp only [lhs_eq_trans_NNN, rhs_eq_trans_NNN, IsTrue]
  rcases a with _ | a <;> rcases b with _ | b <;> rcases c with _ | c <;> xclose
theorem truth_eq_trans_BBB (a b c : Option Bool) :
    IsTrue (lhs_eq_trans_BBB a b c) = IsTrue (rhs_eq_trans_BBB a b c) := by
  simp only [lhs_eq_trans_BBB, rhs_eq_trans_BBB, IsTrue]
  rcases a with _ | _ | _ <;> rcases b with _ | _ | _ <;> rcases c with _ | _ | _ <;> xclose
theorem truth_eq_trans_SSS (a b c : Option String) :
    IsTrue (lhs_eq_trans_SSS a b c) = IsTrue (rhs_eq_trans_SSS a b c) := by
  simp only [lhs_eq_trans_SSS, rhs_eq_trans_SSS, IsTrue]
  rcases a with _ | a <;> rcases b with _ | b <;> rcases c with _ | c <;> xclose

theorem truth_and_gt_lt_conflict_NNN (x a b : Option Int) (h : cond_and_gt_lt_conflict_NNN x a b = true) :
    IsTrue (lhs_and_gt_lt_conflict_NNN x a b) = IsTrue (rhs_and_gt_lt_conflict_NNN x a b) := by
  simp only [lhs_and_gt_lt_conflict_NNN, rhs_and_gt_lt_conflict_NNN, cond_and_gt_lt_conflict_NNN, IsTrue] at *
  rcases x with _ | x <;> rcases a with _ | a <;> rcases b with _ | b <;> xclose
theorem truth_and_gt_lt_conflict_BBB (x a b : Option Bool) (h : cond_and_gt_lt_conflict_BBB x a b = true) :
    IsTrue (lhs_and_gt_lt_conflict_BBB x a b) = IsTrue (rhs_and_gt_lt_conflict_BBB x a b) := by
  simp only [lhs_and_gt_lt_conflict_BBB, rhs_and_gt_lt_conflict_BBB, cond_and_gt_lt_conflict_BBB, IsTrue] at *
  rcases x with _ | _ | _ <;> rcases a with _ | _ | _ <;> rcases b with _ | _ | _ <;> xclose
theorem truth_and_gt_lt_conflict_SSS (x a b : Option String) (h : cond_and_gt_lt_conflict_SSS x a b = true) :
    IsTrue (lhs_and_gt_lt_conflict_SSS x a b) = IsTrue (rhs_and_gt_lt_conflict_SSS x a b) := by
  simp only [lhs_and_gt_lt_conflict_SSS, rhs_and_gt_lt_conflict_SSS, cond_and_gt_lt_conflict_SSS, IsTrue] at *
  rcases x with _ | x <;> rcases a with _ | a <;> rcases b with _ | b <;> xclose

/-- Positive boolean contexts: conjunctions and disjunctions around the rewritten predicate. -/
inductive PCtx where
  | hole
  | andL (x : Option Bool) (c : PCtx)     -- `x AND □`
  | andR (c : PCtx) (x : Option Bool)     -- `□ AND x`
  | orL (x : Option Bool) (c : PCtx)
  | orR (c : PCtx) (x : Option Bool)

def PCtx.apply : PCtx → Option Bool → Option Bool
  | .hole, v => v
  | .andL x c, v => and3 x (c.apply v)
  | .andR c x, v => and3 (c.apply v) x
  | .orL x c, v => or3 x (c.apply v)
  | .orR c x, v => or3 (c.apply v) x

theorem isTrue_and3 (a b : Option Bool) : IsTrue (and3 a b) = (IsTrue a && IsTrue b) := by
  rcases a with _ | _ | _ <;> rcases b with _ | _ | _ <;> rfl
theorem isTrue_or3 (a b : Option Bool) : IsTrue (or3 a b) = (IsTrue a || IsTrue b) := by
  rcases a with _ | _ | _ <;> rcases b with _ | _ | _ <;> rfl

/-- **Under AND / OR a truth-preserving rewrite keeps the truth of the whole predicate** — hence the
rows a filter or a join keeps. -/
theorem PCtx.truth_congr (C : PCtx) (u v : Option Bool) (h : IsTrue u = IsTrue v) :
    IsTrue (C.apply u) = IsTrue (C.apply v) := by
  induction C with
  | hole => exact h
  | andL x c ih => simp only [PCtx.apply, isTrue_and3, ih]
  | andR c x ih => simp only [PCtx.apply, isTrue_and3, ih]
  | orL x c ih => simp only [PCtx.apply, isTrue_or3, ih]
  | orR c x ih => simp only [PCtx.apply, isTrue_or3, ih]

/-- Under NOT it does not: NULL and FALSE have the same truth, their negations do not. -/
theorem truth_not_congr_fails : ∃ u v : Option Bool, IsTrue u = IsTrue v ∧ IsTrue (not3 u) ≠ IsTrue (not3 v) :=
  ⟨none, some false, rfl, by decide⟩

/-- … and that is the recorded wrong answer: `NOT (b > 2 AND b < 1)` with a NULL `b` is NULL (row
dropped), rewritten by `and-gt-lt-conflict` it is `NOT FALSE` = TRUE (row kept). -/
example : IsTrue (not3 (lhs_and_gt_lt_conflict_NNN none (some 2) (some 1))) = false ∧
    IsTrue (not3 (rhs_and_gt_lt_conflict_NNN none (some 2) (some 1))) = true := by
  constructor <;> decide

end RlModel.C01
