import RlModel.Model.PlanSem
/-!
# C01 — the translator's condition dictionary: syntactic column conditions imply the semantic ones

The rule statements (`Gen/PlanRules.lean`) carry *semantic* hypotheses — `Indep e S` ("`e` does not
read a column of `S`"), `ReadsWithin e S` ("`e` reads only columns of `S`") — where the Rust rules
check *syntactic* ones on the column-set analysis (`analyze_columns`: the set of column identities
occurring in an expression; `not_depend_on`: disjoint from the columns a plan produces;
`all_depend_on`: a subset of them).  This file closes that step for expressions as the planner
sees them — any tree of operators over columns and constants, whatever the operators compute:
an expression's value depends on the row only through the columns that occur in it
(`eval_congr`), hence disjointness gives `Indep` (`indep_of_cols_disjoint`) and inclusion gives
`ReadsWithin` (`readsWithin_of_cols_subset`).
-/
namespace RlModel.C01
open RlModel RlModel.P

/-- Scalar expressions as trees: a column, a constant, or an operator applied to arguments.
Operators are arbitrary functions of the argument values (arithmetic, comparisons, `and`/`or`
with their three-valued tables, `case`, `cast`, `like`, …: nothing here depends on which). -/
inductive DE where
  | col (c : Col)
  | const (v : PV)
  | op (f : List PV → PV) (args : List DE)

mutual
  def DE.eval : DE → Env → PV
    | .col c, ρ => ρ c
    | .const v, _ => v
    | .op f args, ρ => f (DE.evalList args ρ)
  def DE.evalList : List DE → Env → List PV
    | [], _ => []
    | e :: es, ρ => e.eval ρ :: DE.evalList es ρ
end

mutual
  /-- `analyze_columns`: the columns occurring in the expression. -/
  def DE.cols : DE → List Col
    | .col c => [c]
    | .const _ => []
    | .op _ args => DE.colsList args
  def DE.colsList : List DE → List Col
    | [] => []
    | e :: es => e.cols ++ DE.colsList es
end

mutual
  /-- The value depends on the row only through the columns that occur in the expression. -/
  theorem DE.eval_congr (e : DE) (ρ σ : Env) (h : ∀ c ∈ e.cols, ρ c = σ c) : e.eval ρ = e.eval σ := by
    cases e with
    | col c => exact h c (by simp [DE.cols])
    | const v => rfl
    | op f args =>
      simp only [DE.eval]
      rw [DE.evalList_congr args ρ σ (fun c hc => h c (by simpa [DE.cols] using hc))]
  theorem DE.evalList_congr (es : List DE) (ρ σ : Env) (h : ∀ c ∈ DE.colsList es, ρ c = σ c) :
      DE.evalList es ρ = DE.evalList es σ := by
    cases es with
    | nil => rfl
    | cons e es =>
      simp only [DE.evalList]
      rw [DE.eval_congr e ρ σ (fun c hc => h c (by simp [DE.colsList, hc])),
        DE.evalList_congr es ρ σ (fun c hc => h c (by simp [DE.colsList, hc]))]
end

/-- `not_depend_on(e, plan)`: the columns of `e` are disjoint from the columns `plan` defines —
then `e` is independent of them (`Indep`), as a value expression … -/
theorem indep_of_cols_disjoint (e : DE) (S : Col → Bool) (h : ∀ c ∈ e.cols, S c = false) :
    Indep e.eval S := by
  intro ρ ρ' hagree
  exact DE.eval_congr e ρ ρ' (fun c hc => hagree c (h c hc))

/-- … and `all_depend_on(e, plan)`: the columns of `e` are among the columns `plan` provides — then
`e` reads only those (`ReadsWithin`). -/
theorem readsWithin_of_cols_subset (e : DE) (S : Col → Bool) (h : ∀ c ∈ e.cols, S c = true) :
    ReadsWithin e.eval S := by
  intro ρ ρ' hagree
  exact DE.eval_congr e ρ ρ' (fun c hc => hagree c (h c hc))

/-- A predicate is an expression read as a truth value. -/
def DE.evalB (e : DE) : BExpr := fun ρ =>
  match e.eval ρ with
  | .b v => some v
  | _ => none

theorem indepB_of_cols_disjoint (e : DE) (S : Col → Bool) (h : ∀ c ∈ e.cols, S c = false) :
    Indep e.evalB S := by
  intro ρ ρ' hagree
  simp only [DE.evalB]
  rw [indep_of_cols_disjoint e S h ρ ρ' hagree]

theorem readsWithinB_of_cols_subset (e : DE) (S : Col → Bool) (h : ∀ c ∈ e.cols, S c = true) :
    ReadsWithin e.evalB S := by
  intro ρ ρ' hagree
  simp only [DE.evalB]
  rw [readsWithin_of_cols_subset e S h ρ ρ' hagree]

/-- `depend_on(e, plan)` (some column of `e` is produced by `plan`) does NOT give the semantic
`¬ Indep`: `x - x` mentions `x` and does not depend on it.  So the statement the translator gives the one
rule using `depend_on` (hypothesis `¬ Indep`) speaks about fewer situations than the rule fires
in; that rule, `left-outer-apply-to-inner-apply`, is refuted even there. -/
theorem depend_on_is_only_syntactic :
    ∃ (e : DE) (S : Col → Bool), (∃ c ∈ e.cols, S c = true) ∧ Indep e.eval S :=
  ⟨.op (fun _ => .n 0) [.col 0], fun _ => true, ⟨0, by simp [DE.cols, DE.colsList], rfl⟩, by
    intro ρ ρ' _; rfl⟩

example : Indep (DE.op (fun vs => vs.headD .null) [.col 3]).eval (fun c => c == 5) :=
  indep_of_cols_disjoint _ _ (by intro c hc; simp [DE.cols, DE.colsList] at hc; subst hc; rfl)

end RlModel.C01
