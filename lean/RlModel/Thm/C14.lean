import RlModel.Lemmas.KernelSlots
import RlModel.Lemmas.KernelEval
/-!
C14 — vectorised expression evaluation equals scalar SQL semantics.

Central theorem K, per kernel: for arrays of ANY length and ALL raw contents under NULL slots,
`vals (kernel a b) = rows2 scalar (vals a) (vals b)`, i.e. the result at row i is the scalar
SQL function of row i alone.  Where the code that exists does not satisfy this, the full
statement is kept as a `def … : Prop`, refuted with a witness (`…_unsound`, replayed on the
implementation by checks/c14.py) and the provable part is `…_partial` under the forced
hypothesis.
-/
namespace RlModel

/-! ## Comparisons: hold in full -/

/-- K for every `cmp!` arm: any length (mismatch = `assert_eq!` panic on both sides), any raw
garbage under NULL. -/
theorem cmp_pointwise {α} (f : α → α → Bool) (a b : Arr α) :
    (cmpK f a b).map vals = rows2 (fun x y => .ok (specCmp f x y)) (vals a) (vals b) := by
  rw [cmpK_eq]
  apply zipSlotM_vals'
  intro p _
  rcases p with ⟨⟨va, ra⟩, ⟨vb, rb⟩⟩
  cases va <;> cases vb <;> simp [cmpSlot, Slot.val, specCmp, KOut.map]

example : (cmpK CmpOp.lt.onInt [⟨true, 1⟩, ⟨false, 99⟩] [⟨true, 2⟩, ⟨true, 0⟩]).map vals
    = .ok [some true, none] := by decide

/-! ## AND: value holds in full; OR: only under the raw invariant -/

theorem and_pointwise (a b : Arr Bool) :
    (andK a b).map vals = rows2 (fun x y => .ok (specAnd x y)) (vals a) (vals b) := by
  rw [andK_eq]
  apply zipSlotM_vals'
  intro p _
  rcases p with ⟨⟨va, ra⟩, ⟨vb, rb⟩⟩
  cases va <;> cases vb <;> cases ra <;> cases rb <;> simp [andSlot, Slot.val, specAnd, KOut.map]

example : (andK [⟨false, true⟩, ⟨false, true⟩] [⟨true, false⟩, ⟨true, true⟩]).map vals
    = .ok [some false, none] := by decide

/-- Full statement for OR (does NOT hold for the code that exists). -/
def OrPointwise : Prop := ∀ a b : Arr Bool,
  (orK a b).map vals = rows2 (fun x y => .ok (specOr x y)) (vals a) (vals b)

/-- OR under the forced hypothesis: raw bits are false under NULL in both inputs. -/
theorem or_pointwise_partial (a b : Arr Bool) (ha : RawFalseUnderNull a)
    (hb : RawFalseUnderNull b) :
    (orK a b).map vals = rows2 (fun x y => .ok (specOr x y)) (vals a) (vals b) := by
  rw [orK_eq]
  apply zipSlotM_vals'
  intro p hp
  have h1 := ha p.1 (List.of_mem_zip hp).1
  have h2 := hb p.2 (List.of_mem_zip hp).2
  rcases p with ⟨⟨va, ra⟩, ⟨vb, rb⟩⟩
  cases va <;> cases vb <;> cases ra <;> cases rb <;>
    simp_all [orSlot, Slot.val, specOr, KOut.map]

example : RawFalseUnderNull [⟨false, false⟩, ⟨true, true⟩] := by
  intro s hs; simp at hs; rcases hs with h | h <;> simp [h]

/-- Witness: `NULL(raw true) OR FALSE` evaluates to TRUE instead of NULL. -/
theorem or_pointwise_unsound : ¬ OrPointwise := by
  intro h
  exact absurd (h [⟨false, true⟩] [⟨true, false⟩]) (by decide)

theorem not_pointwise (a : Arr Bool) : vals (notK a) = (vals a).map specNot := by
  rw [notK_eq]
  induction a with
  | nil => rfl
  | cons x xs ih =>
    simp only [vals, List.map_cons, List.map_map] at ih ⊢
    rw [ih]
    rcases x with ⟨v, r⟩
    cases v <;> simp [notSlot, Slot.val, specNot]

example : vals (notK [⟨true, false⟩, ⟨false, false⟩]) = [some true, none] := by decide

/-! ## The raw invariant `RawFalseUnderNull` -/

theorem zipSlotM_forall {α β γ} (g : Slot α → Slot β → KOut (Slot γ)) (P : Slot γ → Prop)
    (a : Arr α) (b : Arr β) (c : Arr γ)
    (hg : ∀ p ∈ List.zip a b, ∀ r, g p.1 p.2 = .ok r → P r)
    (h : zipSlotM g a b = .ok c) : ∀ s ∈ c, P s := by
  induction a generalizing b c with
  | nil =>
    cases b with
    | nil => simp [zipSlotM] at h; subst h; simp
    | cons y ys => simp [zipSlotM] at h
  | cons x xs ih =>
    cases b with
    | nil => simp [zipSlotM] at h
    | cons y ys =>
      simp only [zipSlotM] at h
      cases hxy : g x y with
      | ok r =>
        cases hz : zipSlotM g xs ys with
        | ok rs =>
          simp only [hxy, hz] at h
          cases h
          intro s hs
          simp at hs
          rcases hs with rfl | hs
          · exact hg (x, y) (by simp) _ hxy
          · exact ih ys rs (fun p hp => hg p (by simp [hp])) hz s hs
        | err => simp [hxy, hz] at h
        | panic => simp [hxy, hz] at h
      | err => simp [hxy] at h
      | panic => simp [hxy] at h

/-- Every comparison kernel establishes the invariant (that is what `clear_null` is for). -/
theorem cmp_raw_invariant {α} (f : α → α → Bool) (a b : Arr α) (c : Arr Bool)
    (h : cmpK f a b = .ok c) : RawFalseUnderNull c := by
  rw [cmpK_eq] at h
  apply zipSlotM_forall _ (fun s => s.valid = false → s.raw = false) a b c _ h
  intro p _ r hr
  cases hr
  rcases p with ⟨⟨va, ra⟩, ⟨vb, rb⟩⟩
  cases va <;> cases vb <;> simp [cmpSlot]

/-- OR establishes the invariant whatever its inputs (`valid |= raw`). -/
theorem or_raw_invariant (a b c : Arr Bool) (h : orK a b = .ok c) : RawFalseUnderNull c := by
  rw [orK_eq] at h
  apply zipSlotM_forall _ (fun s => s.valid = false → s.raw = false) a b c _ h
  intro p _ r hr
  cases hr
  rcases p with ⟨⟨va, ra⟩, ⟨vb, rb⟩⟩
  cases va <;> cases vb <;> cases ra <;> cases rb <;> simp [orSlot]

theorem not_raw_invariant (a : Arr Bool) : RawFalseUnderNull (notK a) := by
  rw [notK_eq]
  intro s hs
  simp only [List.mem_map] at hs
  rcases hs with ⟨t, _, rfl⟩
  rcases t with ⟨v, r⟩
  cases v <;> simp [notSlot]

/-- Full statement: every bool-producing kernel yields raw false under NULL. -/
def RawInvariantPreserved : Prop :=
  (∀ a b c : Arr Bool, andK a b = .ok c → RawFalseUnderNull c) ∧
  (∀ (w : IW) (a : Arr Int) (c : Arr Bool),
      Col.cast .bool (.int w a) = .ok (.bool c) → RawFalseUnderNull c)

/-- AND preserves the invariant when its inputs have it. -/
theorem and_raw_invariant_partial (a b c : Arr Bool) (ha : RawFalseUnderNull a)
    (hb : RawFalseUnderNull b) (h : andK a b = .ok c) : RawFalseUnderNull c := by
  rw [andK_eq] at h
  apply zipSlotM_forall _ (fun s => s.valid = false → s.raw = false) a b c _ h
  intro p hp r hr
  cases hr
  have h1 := ha p.1 (List.of_mem_zip hp).1
  have h2 := hb p.2 (List.of_mem_zip hp).2
  rcases p with ⟨⟨va, ra⟩, ⟨vb, rb⟩⟩
  cases va <;> cases vb <;> cases ra <;> cases rb <;> simp_all [andSlot]

/-- Witnesses: `cast(int as boolean)` is a plain `unary_op` (no `clear_null`): a NULL slot with
a non-zero raw integer becomes a NULL with raw `true`; and AND passes such a bit on. -/
theorem raw_invariant_unsound : ¬ RawInvariantPreserved := by
  intro h
  have := h.2 .w32 [⟨false, 5⟩] [⟨false, true⟩] (by decide)
  have := this ⟨false, true⟩ (by simp) rfl
  simp at this

/-- `FilterExecutor`, nested-loop and hash-semi joins keep row i iff the RAW bit i of the
predicate array is set (`true_array()`). -/
def filterByRaw {ρ} : Arr Bool → List ρ → List ρ
  | p :: ps, r :: rs => if p.raw then r :: filterByRaw ps rs else filterByRaw ps rs
  | _, _ => []

/-- SQL: keep row i iff the predicate is TRUE. -/
def filterByVal {ρ} : List (Option Bool) → List ρ → List ρ
  | p :: ps, r :: rs => if p == some true then r :: filterByVal ps rs else filterByVal ps rs
  | _, _ => []

def FilterUsesValues : Prop := ∀ (p : Arr Bool) (rows : List Nat),
  filterByRaw p rows = filterByVal (vals p) rows

/-- Selecting by raw bits is selecting by "predicate is TRUE" exactly under the invariant. -/
theorem filter_uses_raw_bits_partial {ρ} (p : Arr Bool) (rows : List ρ)
    (h : RawFalseUnderNull p) : filterByRaw p rows = filterByVal (vals p) rows := by
  induction p generalizing rows with
  | nil => cases rows <;> simp [filterByRaw, filterByVal, vals]
  | cons x xs ih =>
    cases rows with
    | nil => simp [filterByRaw, filterByVal, vals]
    | cons r rs =>
      have hx := h x (by simp)
      have ih' := ih rs (fun s hs => h s (by simp [hs]))
      simp only [vals, List.map_cons, filterByRaw, filterByVal] at ih' ⊢
      rw [ih']
      rcases x with ⟨v, r0⟩
      cases v <;> cases r0 <;> simp_all [Slot.val]

theorem filter_uses_raw_bits_unsound : ¬ FilterUsesValues := by
  intro h
  exact absurd (h [⟨false, true⟩] [7]) (by decide)

/-! ## CASE / `select_op` -/

def specSelectRows {α} : List (Option Bool) → List (Option α) → List (Option α) →
    List (Option α)
  | c :: cs, a :: as, b :: bs => specSelect c a b :: specSelectRows cs as bs
  | _, _, _ => []

/-- Full statement (does NOT hold): CASE takes, row by row, THEN where the condition is TRUE
and ELSE otherwise. -/
def SelectPointwise : Prop := ∀ (s : Arr Bool) (a b : Arr Int),
  a.length = b.length → s.length = a.length →
  (selectOp s a b).map vals = .ok (specSelectRows (vals s) (vals a) (vals b))

/-- What `select_op` needs to be right on a row: the condition's raw bit is false under NULL,
and where the condition is FALSE the two branches agree on validity (validity is taken from
the THEN branch for every non-NULL condition). -/
def SelectOk {α} (s : Slot Bool) (a b : Slot α) : Prop :=
  (s.valid = false → s.raw = false) ∧ (s.valid = true → s.raw = false → a.valid = b.valid)

theorem select_pointwise_partial {α} (s : Arr Bool) (a b : Arr α)
    (h1 : a.length = b.length) (h2 : s.length = a.length)
    (h : ∀ t ∈ List.zip s (List.zip a b), SelectOk t.1 t.2.1 t.2.2) :
    (selectOp s a b).map vals = .ok (specSelectRows (vals s) (vals a) (vals b)) := by
  rw [selectOp_eq s a b h1 h2]
  simp only [KOut.map]
  congr 1
  induction s generalizing a b with
  | nil => simp [zip3, vals, specSelectRows]
  | cons s0 ss ih =>
    cases a with
    | nil => simp at h2
    | cons a0 as =>
      cases b with
      | nil => simp at h1
      | cons b0 bs =>
        have h0 := h (s0, a0, b0) (by simp)
        have ih' := ih as bs (by simpa using h1) (by simpa using h2)
          (fun t ht => h t (by simp [ht]))
        simp only [zip3, vals, List.map_cons, specSelectRows] at ih' ⊢
        rw [ih']
        rcases s0 with ⟨sv, sr⟩
        rcases a0 with ⟨av, ar⟩
        rcases b0 with ⟨bv, br⟩
        simp only [SelectOk] at h0
        cases sv <;> cases sr <;> cases av <;> cases bv <;>
          simp [selSlot, Slot.val, specSelect] at h0 ⊢

/-- Witness 1: `CASE WHEN FALSE THEN NULL ELSE 7 END` is NULL (validity of the THEN branch). -/
theorem select_pointwise_unsound : ¬ SelectPointwise := by
  intro h
  exact absurd (h [⟨true, false⟩] [⟨false, 0⟩] [⟨true, 7⟩] rfl rfl) (by decide)

/-- Witness 2: `CASE WHEN FALSE THEN 1 ELSE NULL END` is the raw value under the NULL (0),
not NULL. -/
theorem select_else_null_unsound :
    (selectOp [⟨true, false⟩] [⟨true, (1 : Int)⟩] [⟨false, 0⟩]).map vals = .ok [some 0] := by
  decide

/-! ## Integer arithmetic -/

/-- Full statement K for an arithmetic operator (does NOT hold for any of `+ - * / %`). -/
def ArithPointwise (op : ArithOp) : Prop := ∀ (w : IW) (a b : Arr Int),
  (arithK op w a b).map vals = rows2 (specArith op w) (vals a) (vals b)

/-- Forced hypothesis: the raw computation succeeds on EVERY slot the kernel touches, NULL
slots included (for `/` after `safen_dividend`). -/
def RawNoFault (op : ArithOp) (w : IW) (a b : Arr Int) : Prop :=
  ∀ p ∈ List.zip a b, ∃ c, op.raw w p.1.raw p.2.raw = .ok c

theorem zipSlotM_map_right {α β β' γ} (g : Slot α → Slot β' → KOut (Slot γ))
    (m : Slot β → Slot β') (a : Arr α) (b : Arr β) :
    zipSlotM g a (b.map m) = zipSlotM (fun s t => g s (m t)) a b := by
  induction a generalizing b with
  | nil => cases b <;> simp [zipSlotM]
  | cons x xs ih => cases b with
    | nil => simp [zipSlotM]
    | cons y ys => simp only [List.map_cons, zipSlotM, ih ys]

theorem raw_never_err (op : ArithOp) (w : IW) (x y : Int) : op.raw w x y ≠ .err := by
  cases op <;> simp only [ArithOp.raw, addW, subW, mulW, divW, remW, chk] <;>
    (repeat' split) <;> simp

/-- On a row whose two operands are non-NULL, a successful raw computation is the SQL value. -/
theorem arith_slot (op : ArithOp) (hop : op ≠ .div) (w : IW) (x y c : Int)
    (hc : op.raw w x y = .ok c) : specArith op w (some x) (some y) = .ok (some c) := by
  cases op with
  | add =>
    simp only [ArithOp.raw, addW, chk] at hc
    simp only [specArith]
    split at hc <;> simp_all
  | sub =>
    simp only [ArithOp.raw, subW, chk] at hc
    simp only [specArith]
    split at hc <;> simp_all
  | mul =>
    simp only [ArithOp.raw, mulW, chk] at hc
    simp only [specArith]
    split at hc <;> simp_all
  | div => exact absurd rfl hop
  | rem =>
    simp only [ArithOp.raw, remW] at hc
    simp only [specArith]
    split at hc
    · cases hc
    · split at hc
      · cases hc
      · simp_all

theorem arith_pointwise_partial (op : ArithOp) (hop : op ≠ .div) (w : IW) (a b : Arr Int)
    (h : RawNoFault op w a b) :
    (arithK op w a b).map vals = rows2 (specArith op w) (vals a) (vals b) := by
  have hne : (op == ArithOp.div) = false := by
    cases op <;> first | exact absurd rfl hop | decide
  simp only [arithK, hne]
  rw [binaryOp_eq_zipSlotM' _ _ _ (raw_never_err op w)]
  apply zipSlotM_vals'
  intro p hp
  obtain ⟨c, hc⟩ := h p hp
  have hs := arith_slot op hop w p.1.raw p.2.raw c hc
  rcases p with ⟨⟨va, ra⟩, ⟨vb, rb⟩⟩
  simp only [binSlot, hc, KOut.map, Slot.val] at hs ⊢
  cases va <;> cases vb
  · simp [specArith]
  · simp [specArith]
  · simp [specArith]
  · simp only [Bool.and_self, ↓reduceIte]
    exact hs.symm

theorem div_pointwise_partial (w : IW) (a b : Arr Int)
    (h : RawNoFault .div w a (safenDividend b)) :
    (arithK .div w a b).map vals = rows2 (specArith .div w) (vals a) (vals b) := by
  simp only [arithK, beq_self_eq_true, if_true]
  rw [binaryOp_eq_zipSlotM' _ _ _ (raw_never_err .div w)]
  · unfold safenDividend at h ⊢
    rw [zipSlotM_map_right]
    apply zipSlotM_vals'
    intro p hp
    have hp' : (p.1, (⟨p.2.valid && p.2.raw != 0, if p.2.raw == 0 then 1 else p.2.raw⟩ : Slot Int))
        ∈ List.zip a (b.map fun s => ⟨s.valid && s.raw != 0, if s.raw == 0 then 1 else s.raw⟩) := by
      rw [List.zip_map_right]
      exact List.mem_map.mpr ⟨p, hp, rfl⟩
    obtain ⟨c, hc⟩ := h _ hp'
    rcases p with ⟨⟨va, ra⟩, ⟨vb, rb⟩⟩
    simp only [binSlot, ArithOp.raw] at hc ⊢
    rw [hc]
    by_cases hz : rb = 0
    · subst hz
      cases va <;> cases vb <;> simp [KOut.map, Slot.val, specArith]
    · simp only [hz, beq_iff_eq, if_false, divW, chk] at hc
      cases va <;> cases vb <;> simp [KOut.map, Slot.val, specArith, hz]
      split at hc <;> simp_all

example : RawNoFault .add .w32 [⟨true, 1⟩, ⟨false, 0⟩] [⟨true, 2⟩, ⟨true, 5⟩] := by
  intro p hp; simp at hp
  rcases hp with rfl | rfl
  · exact ⟨3, by decide⟩
  · exact ⟨5, by decide⟩

/-- `null_slot_never_faults` (full statement, does NOT hold): the outcome of a kernel depends
only on the SQL values of its inputs, never on raw bits under NULL. -/
def NullSlotNeverFaults (op : ArithOp) : Prop := ∀ (w : IW) (a b a' b' : Arr Int),
  vals a = vals a' → vals b = vals b' →
  (arithK op w a b).map vals = (arithK op w a' b').map vals

/-- Witness: raw `i32::MAX` under a NULL, then `+ 1`: overflow panic for a row whose SQL value
is NULL. -/
theorem null_slot_never_faults_unsound : ¬ NullSlotNeverFaults .add := by
  intro h
  exact absurd (h .w32 [⟨false, 2147483647⟩] [⟨true, 1⟩] [⟨false, 0⟩] [⟨true, 1⟩] rfl rfl)
    (by decide)

theorem arith_add_pointwise_unsound : ¬ ArithPointwise .add := by
  intro h
  exact absurd (h .w32 [⟨false, 2147483647⟩] [⟨true, 1⟩]) (by decide)

/-- Witness: `1 % 0` panics; SQL (and the property) say NULL. Also `x % NULL` when the raw
value under the NULL is the builder default 0. -/
theorem rem_zero_divisor_unsound : ¬ ArithPointwise .rem := by
  intro h
  exact absurd (h .w32 [⟨true, 1⟩] [⟨true, 0⟩]) (by decide)

theorem rem_null_divisor_faults :
    arithK .rem .w32 [⟨true, 1⟩] [⟨false, 0⟩] = .panic := by decide

/-- Witness: `/` is safened only against zero: raw `-1` under a NULL divisor with dividend MIN
still faults. -/
theorem div_null_slot_faults :
    arithK .div .w32 [⟨true, -2147483648⟩] [⟨false, -1⟩] = .panic := by decide

/-- Comparisons do satisfy it (corollary of `cmp_pointwise`). -/
theorem cmp_null_slot_never_faults {α} (f : α → α → Bool) (a b a' b' : Arr α)
    (ha : vals a = vals a') (hb : vals b = vals b') :
    (cmpK f a b).map vals = (cmpK f a' b').map vals := by
  rw [cmp_pointwise, cmp_pointwise, ha, hb]

theorem and_null_slot_never_faults (a b a' b' : Arr Bool)
    (ha : vals a = vals a') (hb : vals b = vals b') :
    (andK a b).map vals = (andK a' b').map vals := by
  rw [and_pointwise, and_pointwise, ha, hb]

/-- `overflow_is_error` (full statement, does NOT hold in the debug profile the tests and the
harness are built with: the operator task panics instead of returning `Err`). -/
def OverflowIsError : Prop := ∀ (op : ArithOp) (w : IW) (a b : Arr Int),
  rows2 (specArith op w) (vals a) (vals b) = .err → arithK op w a b = .err

theorem overflow_is_error_unsound : ¬ OverflowIsError := by
  intro h
  exact absurd (h .add .w32 [⟨true, 2147483647⟩] [⟨true, 1⟩] (by decide)) (by decide)

/-! ## Batch independence -/

/-- `eval (a₁ ++ a₂) (b₁ ++ b₂) = eval a₁ b₁ ++ eval a₂ b₂` for `binary_op` with ANY raw
function, any lengths (in particular across the 64-bit bitmap word boundary). -/
theorem batch_independent_binary {α β γ} (f : α → β → KOut γ) (a1 a2 : Arr α) (b1 b2 : Arr β)
    (h1 : a1.length = b1.length) (h2 : a2.length = b2.length) :
    binaryOp f (a1 ++ a2) (b1 ++ b2) = KOut.append2 (binaryOp f a1 b1) (binaryOp f a2 b2) := by
  rw [binaryOp_eq_zipSlotM f _ _ (by simp [h1, h2]), binaryOp_eq_zipSlotM f _ _ h1,
    binaryOp_eq_zipSlotM f _ _ h2]
  exact zipSlotM_append _ a1 a2 b1 b2 h1

theorem batch_independent_arith (op : ArithOp) (w : IW) (a1 a2 b1 b2 : Arr Int)
    (h1 : a1.length = b1.length) (h2 : a2.length = b2.length) :
    arithK op w (a1 ++ a2) (b1 ++ b2)
      = KOut.append2 (arithK op w a1 b1) (arithK op w a2 b2) := by
  unfold arithK
  cases hop : (op == ArithOp.div)
  · simp only [Bool.false_eq_true, if_false]
    exact batch_independent_binary _ a1 a2 b1 b2 h1 h2
  · simp only [if_true, safenDividend, List.map_append]
    exact batch_independent_binary _ a1 a2 _ _ (by simpa using h1) (by simpa using h2)

theorem batch_independent_or (a1 a2 b1 b2 : Arr Bool) (h1 : a1.length = b1.length) :
    orK (a1 ++ a2) (b1 ++ b2) = KOut.append2 (orK a1 b1) (orK a2 b2) := by
  simp only [orK_eq]
  exact zipSlotM_append _ a1 a2 b1 b2 h1

theorem batch_independent_and (a1 a2 b1 b2 : Arr Bool) (h1 : a1.length = b1.length) :
    andK (a1 ++ a2) (b1 ++ b2) = KOut.append2 (andK a1 b1) (andK a2 b2) := by
  simp only [andK_eq]
  exact zipSlotM_append _ a1 a2 b1 b2 h1

theorem batch_independent_cmp {α} (f : α → α → Bool) (a1 a2 b1 b2 : Arr α)
    (h1 : a1.length = b1.length) :
    cmpK f (a1 ++ a2) (b1 ++ b2) = KOut.append2 (cmpK f a1 b1) (cmpK f a2 b2) := by
  simp only [cmpK_eq]
  exact zipSlotM_append _ a1 a2 b1 b2 h1

example : arithK .add .w32 ([⟨true, 1⟩] ++ [⟨false, 3⟩]) ([⟨true, 2⟩] ++ [⟨true, 4⟩])
    = .ok [⟨true, 3⟩, ⟨false, 7⟩] := by decide

/-! ## Reason tags are the forced hypotheses (node level), casts, IS NULL -/

theorem rawNoFault_of_B (op : ArithOp) (w : IW) (a b : Arr Int) (h : rawNoFaultB op w a b = true) :
    RawNoFault op w a b := by
  intro p hp
  simp only [rawNoFaultB, List.all_eq_true] at h
  have := h p hp
  cases hr : op.raw w p.1.raw p.2.raw with
  | ok c => exact ⟨c, rfl⟩
  | err => simp [hr, KOut.isOk] at this
  | panic => simp [hr, KOut.isOk] at this

/-- An arithmetic node without reason tag denotes the row-wise SQL operator. -/
theorem arith_no_tag (op : ArithOp) (w : IW) (x y : Arr Int) (hl : x.length = y.length)
    (h : arithTags op w x y = []) :
    (arithK op w x y).map vals = rows2 (specArith op w) (vals x) (vals y) := by
  unfold arithTags at h
  simp only [hl, ne_eq, not_true_eq_false, if_false] at h
  by_cases hr : rawNoFaultB op w x (if op == .div then safenDividend y else y) = true
  · by_cases hd : op = .div
    · subst hd
      simp only [beq_self_eq_true, if_true] at hr
      exact div_pointwise_partial _ x y (rawNoFault_of_B _ _ _ _ hr)
    · have hne : (op == ArithOp.div) = false := by simpa using hd
      simp only [hne, Bool.false_eq_true, if_false] at hr
      exact arith_pointwise_partial op hd _ x y (rawNoFault_of_B _ _ _ _ hr)
  · simp only [hr, Bool.false_eq_true, if_false] at h
    repeat' (split at h)
    all_goals exact absurd h (List.cons_ne_nil _ _)

/-- An OR node without reason tag denotes three-valued OR. -/
theorem or_no_tag (x y : Arr Bool)
    (h : (rawFalseUnderNullB x && rawFalseUnderNullB y) = true) :
    (orK x y).map vals = rows2 (fun p q => .ok (specOr p q)) (vals x) (vals y) := by
  simp only [Bool.and_eq_true] at h
  exact or_pointwise_partial x y (rawFalseUnderNull_of_B x h.1) (rawFalseUnderNull_of_B y h.2)

/-- A CASE node without reason tag denotes row-wise CASE. -/
theorem select_no_tag {α} (s : Arr Bool) (x y : Arr α) (h1 : x.length = y.length)
    (h2 : s.length = x.length) (h : selectTags s x y = []) :
    (selectOp s x y).map vals = .ok (specSelectRows (vals s) (vals x) (vals y)) := by
  apply select_pointwise_partial s x y h1 h2
  unfold selectTags at h
  by_cases hb : selectAllOkB s x y = true
  · intro t ht
    simp only [selectAllOkB, List.all_eq_true] at hb
    have := hb t ht
    rcases t with ⟨⟨sv, sr⟩, ⟨av, ar⟩, ⟨bv, br⟩⟩
    simp only [selectOkB] at this
    simp only [SelectOk]
    cases sv <;> cases sr <;> cases av <;> cases bv <;> simp_all
  · simp only [hb, Bool.false_eq_true, if_false] at h
    split at h <;> exact absurd h (List.cons_ne_nil _ _)

/-- K for casts (no hypothesis): `try_unary_op` casts skip NULL slots, the `unary_op` casts
are value-correct whatever the raw bits. -/
theorem cast_pointwise (t : Ty) (c : Col) : (Col.cast t c).map Col.abs = specCast t c.abs :=
  cast_abs t c

theorem isnull_pointwise (c : Col) :
    (Col.isNull c).abs = match c.abs with
      | .null k => .bool (List.replicate k (some true))
      | .bool xs => .bool (xs.map fun x => some x.isNone)
      | .int _ xs => .bool (xs.map fun x => some x.isNone)
      | .str xs => .bool (xs.map fun x => some x.isNone) :=
  isNull_abs c

example : arithTags .add .w32 [⟨true, 1⟩, ⟨false, 0⟩] [⟨true, 2⟩, ⟨true, 5⟩] = [] := by decide
example : selectTags [⟨true, true⟩, ⟨false, false⟩] [⟨true, (1 : Int)⟩, ⟨false, 9⟩] [⟨false, 0⟩, ⟨true, 3⟩] = [] := by
  decide

end RlModel
