import RlModel.Lemmas.KernelSlots
import RlModel.Lemmas.KernelEval
import RlModel.Lemmas.KernelLen
import RlModel.Model.KernelFold
/-!
C14 — vectorised expression evaluation equals scalar SQL semantics.

Central theorem K, per kernel: for arrays of ANY length and ALL raw contents under NULL slots,
`vals (kernel a b) = rows2 scalar (vals a) (vals b)`, i.e. the result at row i is the scalar
SQL function of row i alone.  Where the code that exists does not satisfy this, the full
statement is kept as a `def … : Prop`, refuted with a witness (`…_unsound`, replayed on the
implementation by checks/c14.py) and the provable part is `…_partial` under the forced
hypothesis.
-/
namespace RlModel

/-! ## Comparisons: hold in full -/

/-- K for every `cmp!` arm: any length (mismatch = `assert_eq!` panic on both sides), any raw
garbage under NULL. -/
theorem cmp_pointwise {α} (f : α → α → Bool) (a b : Arr α) :
    (cmpK f a b).map vals = rows2 (fun x y => .ok (specCmp f x y)) (vals a) (vals b) := by
  rw [cmpK_eq]
  apply zipSlotM_vals'
  intro p _
  rcases p with ⟨⟨va, ra⟩, ⟨vb, rb⟩⟩
  cases va <;> cases vb <;> simp [cmpSlot, Slot.val, specCmp, KOut.map]

example : (cmpK CmpOp.lt.onInt [⟨true, 1⟩, ⟨false, 99⟩] [⟨true, 2⟩, ⟨true, 0⟩]).map vals
    = .ok [some true, none] := by decide

/-! ## AND: value holds in full; OR: only under the raw invariant -/

theorem and_pointwise (a b : Arr Bool) :
    (andK a b).map vals = rows2 (fun x y => .ok (specAnd x y)) (vals a) (vals b) := by
  rw [andK_eq]
  apply zipSlotM_vals'
  intro p _
  rcases p with ⟨⟨va, ra⟩, ⟨vb, rb⟩⟩
  cases va <;> cases vb <;> cases ra <;> cases rb <;> simp [andSlot, Slot.val, specAnd, KOut.map]

example : (andK [⟨false, true⟩, ⟨false, true⟩] [⟨true, false⟩, ⟨true, true⟩]).map vals
    = .ok [some false, none] := by decide

/-- K for OR — holds in full since /repo 0494ff0 (an operand counts as TRUE only where it is
valid): three-valued OR row by row, whatever raw bits lie under NULL. -/
theorem or_pointwise (a b : Arr Bool) :
    (orK a b).map vals = rows2 (fun x y => .ok (specOr x y)) (vals a) (vals b) := by
  rw [orK_eq]
  apply zipSlotM_vals'
  intro p _
  rcases p with ⟨⟨va, ra⟩, ⟨vb, rb⟩⟩
  cases va <;> cases vb <;> cases ra <;> cases rb <;> simp [orSlot, Slot.val, specOr, KOut.map]

/-- Regression (was the witness of `or_pointwise_unsound`): NULL with raw `true` OR FALSE is NULL. -/
theorem or_regression : (orK [⟨false, true⟩] [⟨true, false⟩]).map vals = .ok [none] := by decide

theorem not_pointwise (a : Arr Bool) : vals (notK a) = (vals a).map specNot := by
  rw [notK_eq]
  induction a with
  | nil => rfl
  | cons x xs ih =>
    simp only [vals, List.map_cons, List.map_map] at ih ⊢
    rw [ih]
    rcases x with ⟨v, r⟩
    cases v <;> simp [notSlot, Slot.val, specNot]

example : vals (notK [⟨true, false⟩, ⟨false, false⟩]) = [some true, none] := by decide

/-! ## The raw invariant `RawFalseUnderNull` -/

theorem zipSlotM_forall {α β γ} (g : Slot α → Slot β → KOut (Slot γ)) (P : Slot γ → Prop)
    (a : Arr α) (b : Arr β) (c : Arr γ)
    (hg : ∀ p ∈ List.zip a b, ∀ r, g p.1 p.2 = .ok r → P r)
    (h : zipSlotM g a b = .ok c) : ∀ s ∈ c, P s := by
  induction a generalizing b c with
  | nil =>
    cases b with
    | nil => simp [zipSlotM] at h; subst h; simp
    | cons y ys => simp [zipSlotM] at h
  | cons x xs ih =>
    cases b with
    | nil => simp [zipSlotM] at h
    | cons y ys =>
      simp only [zipSlotM] at h
      cases hxy : g x y with
      | ok r =>
        cases hz : zipSlotM g xs ys with
        | ok rs =>
          simp only [hxy, hz] at h
          cases h
          intro s hs
          simp at hs
          rcases hs with rfl | hs
          · exact hg (x, y) (by simp) _ hxy
          · exact ih ys rs (fun p hp => hg p (by simp [hp])) hz s hs
        | err => simp [hxy, hz] at h
        | panic => simp [hxy, hz] at h
      | err => simp [hxy] at h
      | panic => simp [hxy] at h

/-- Every comparison kernel establishes the invariant (that is what `clear_null` is for). -/
theorem cmp_raw_invariant {α} (f : α → α → Bool) (a b : Arr α) (c : Arr Bool)
    (h : cmpK f a b = .ok c) : RawFalseUnderNull c := by
  rw [cmpK_eq] at h
  apply zipSlotM_forall _ (fun s => s.valid = false → s.raw = false) a b c _ h
  intro p _ r hr
  cases hr
  rcases p with ⟨⟨va, ra⟩, ⟨vb, rb⟩⟩
  cases va <;> cases vb <;> simp [cmpSlot]

/-- OR establishes the invariant whatever its inputs (`valid |= raw`). -/
theorem or_raw_invariant (a b c : Arr Bool) (h : orK a b = .ok c) : RawFalseUnderNull c := by
  rw [orK_eq] at h
  apply zipSlotM_forall _ (fun s => s.valid = false → s.raw = false) a b c _ h
  intro p _ r hr
  cases hr
  rcases p with ⟨⟨va, ra⟩, ⟨vb, rb⟩⟩
  cases va <;> cases vb <;> cases ra <;> cases rb <;> simp [orSlot]

theorem not_raw_invariant (a : Arr Bool) : RawFalseUnderNull (notK a) := by
  rw [notK_eq]
  intro s hs
  simp only [List.mem_map] at hs
  rcases hs with ⟨t, _, rfl⟩
  rcases t with ⟨v, r⟩
  cases v <;> simp [notSlot]

/-- Full statement: every bool-producing kernel yields raw false under NULL. -/
def RawInvariantPreserved : Prop :=
  (∀ a b c : Arr Bool, andK a b = .ok c → RawFalseUnderNull c) ∧
  (∀ (w : IW) (a : Arr Int) (c : Arr Bool),
      Col.cast .bool (.int w a) = .ok (.bool c) → RawFalseUnderNull c)

/-- AND preserves the invariant when its inputs have it. -/
theorem and_raw_invariant_partial (a b c : Arr Bool) (ha : RawFalseUnderNull a)
    (hb : RawFalseUnderNull b) (h : andK a b = .ok c) : RawFalseUnderNull c := by
  rw [andK_eq] at h
  apply zipSlotM_forall _ (fun s => s.valid = false → s.raw = false) a b c _ h
  intro p hp r hr
  cases hr
  have h1 := ha p.1 (List.of_mem_zip hp).1
  have h2 := hb p.2 (List.of_mem_zip hp).2
  rcases p with ⟨⟨va, ra⟩, ⟨vb, rb⟩⟩
  cases va <;> cases vb <;> cases ra <;> cases rb <;> simp_all [andSlot]

/-- Witnesses: `cast(int as boolean)` is a plain `unary_op` (no `clear_null`): a NULL slot with
a non-zero raw integer becomes a NULL with raw `true`; and AND passes such a bit on. -/
theorem raw_invariant_unsound : ¬ RawInvariantPreserved := by
  intro h
  have := h.2 .w32 [⟨false, 5⟩] [⟨false, true⟩] (by decide)
  have := this ⟨false, true⟩ (by simp) rfl
  simp at this

/-- `FilterExecutor`, nested-loop and hash-semi joins keep row i iff the RAW bit i of the
predicate array is set (`true_array()`). -/
def filterByRaw {ρ} : Arr Bool → List ρ → List ρ
  | p :: ps, r :: rs => if p.raw then r :: filterByRaw ps rs else filterByRaw ps rs
  | _, _ => []

/-- SQL: keep row i iff the predicate is TRUE. -/
def filterByVal {ρ} : List (Option Bool) → List ρ → List ρ
  | p :: ps, r :: rs => if p == some true then r :: filterByVal ps rs else filterByVal ps rs
  | _, _ => []

def FilterUsesValues : Prop := ∀ (p : Arr Bool) (rows : List Nat),
  filterByRaw p rows = filterByVal (vals p) rows

/-- Selecting by raw bits is selecting by "predicate is TRUE" exactly under the invariant. -/
theorem filter_uses_raw_bits_partial {ρ} (p : Arr Bool) (rows : List ρ)
    (h : RawFalseUnderNull p) : filterByRaw p rows = filterByVal (vals p) rows := by
  induction p generalizing rows with
  | nil => cases rows <;> simp [filterByRaw, filterByVal, vals]
  | cons x xs ih =>
    cases rows with
    | nil => simp [filterByRaw, filterByVal, vals]
    | cons r rs =>
      have hx := h x (by simp)
      have ih' := ih rs (fun s hs => h s (by simp [hs]))
      simp only [vals, List.map_cons, filterByRaw, filterByVal] at ih' ⊢
      rw [ih']
      rcases x with ⟨v, r0⟩
      cases v <;> cases r0 <;> simp_all [Slot.val]

theorem filter_uses_raw_bits_unsound : ¬ FilterUsesValues := by
  intro h
  exact absurd (h [⟨false, true⟩] [7]) (by decide)

/-! ## CASE / `select_op` -/

/-- Row-wise CASE (`specSelRows` of the model). -/
abbrev specSelectRows {α} := @specSelRows α

/-- K for CASE / `select_op` (holds in full since repository commit `fix: CASE/select takes value
and validity from the branch chosen by a TRUE condition`): row by row THEN where the condition is
TRUE, ELSE where it is FALSE or NULL — whatever raw bits lie under NULL conditions or branches. -/
theorem select_pointwise {α} (s : Arr Bool) (a b : Arr α)
    (h1 : a.length = b.length) (h2 : s.length = a.length) :
    (selectOp s a b).map vals = .ok (specSelectRows (vals s) (vals a) (vals b)) := by
  rw [selectOp_eq s a b h1 h2]
  simp only [KOut.map]
  congr 1
  induction s generalizing a b with
  | nil => simp [zip3, vals, specSelectRows, specSelRows]
  | cons s0 ss ih =>
    cases a with
    | nil => simp at h2
    | cons a0 as =>
      cases b with
      | nil => simp at h1
      | cons b0 bs =>
        have ih' := ih as bs (by simpa using h1) (by simpa using h2)
        simp only [zip3, vals, List.map_cons, specSelectRows, specSelRows] at ih' ⊢
        rw [ih']
        rcases s0 with ⟨sv, sr⟩
        rcases a0 with ⟨av, ar⟩
        rcases b0 with ⟨bv, br⟩
        cases sv <;> cases sr <;> cases av <;> cases bv <;> simp [selSlot, Slot.val, specSelect]

example : (selectOp [⟨true, false⟩, ⟨false, true⟩] [⟨false, (0 : Int)⟩, ⟨true, 1⟩] [⟨true, 7⟩, ⟨false, 9⟩]).map vals
    = .ok [some 7, none] := by decide

/-! ## Integer arithmetic (since /repo 5b4435f: valid slots only, checked, overflow = error) -/

theorem zipSlotM_map_right {α β β' γ} (g : Slot α → Slot β' → KOut (Slot γ))
    (m : Slot β → Slot β') (a : Arr α) (b : Arr β) :
    zipSlotM g a (b.map m) = zipSlotM (fun s t => g s (m t)) a b := by
  induction a generalizing b with
  | nil => cases b <;> simp [zipSlotM]
  | cons x xs ih => cases b with
    | nil => simp [zipSlotM]
    | cons y ys => simp only [List.map_cons, zipSlotM, ih ys]

theorem chk_slot (w : IW) (x : Int) :
    ((chk w x).map fun c => (⟨true, c⟩ : Slot Int)).map Slot.val
      = if w.fits x then .ok (some x) else .err := by
  unfold chk
  split <;> simp [KOut.map, Slot.val]

/-- The slot function of a non-safened operator is the scalar SQL operator on the two values. -/
theorem arith_slot_plain (op : ArithOp) (hop : op.safens = false) (w : IW) (s t : Slot Int) :
    (trySlot 0 (op.raw w) s t).map Slot.val = specArith op w s.val t.val := by
  rcases s with ⟨va, ra⟩
  rcases t with ⟨vb, rb⟩
  cases op <;> simp [ArithOp.safens] at hop <;> cases va <;> cases vb <;>
    first
      | (simp only [trySlot, ArithOp.raw, addW, subW, mulW, specArith, Bool.and_self, if_true]
         exact chk_slot _ _)
      | simp [trySlot, specArith, Slot.val, KOut.map]

/-- The slot function of `/` and `%` after `safen_dividend`. -/
theorem arith_slot_safened (op : ArithOp) (hop : op.safens = true) (w : IW) (s t : Slot Int) :
    (trySlot 0 (op.raw w) s ⟨t.valid && t.raw != 0, if t.raw == 0 then 1 else t.raw⟩).map Slot.val
      = specArith op w s.val t.val := by
  rcases s with ⟨va, ra⟩
  rcases t with ⟨vb, rb⟩
  by_cases hz : rb = 0
  · subst hz
    cases op <;> simp [ArithOp.safens] at hop <;> cases va <;> cases vb <;>
      simp [trySlot, specArith, Slot.val, KOut.map]
  · cases op with
    | add => simp [ArithOp.safens] at hop
    | sub => simp [ArithOp.safens] at hop
    | mul => simp [ArithOp.safens] at hop
    | rem =>
      cases va <;> cases vb <;>
        simp [trySlot, ArithOp.raw, remW, specArith, Slot.val, KOut.map, hz]
    | div =>
      cases va <;> cases vb <;>
        simp [trySlot, ArithOp.raw, specArith, Slot.val, KOut.map, hz]
      by_cases hf : w.fits (ra.tdiv rb) = true <;> simp [divW, chk, hz, hf]

/-- K for `+ - * / %` — holds in full since /repo 5b4435f: row by row the SQL operator
(`x / 0` and `x % 0` are NULL, a result outside the type is an ERROR for the statement), whatever
raw values lie under NULL slots. -/
theorem arith_pointwise (op : ArithOp) (w : IW) (a b : Arr Int) (hl : a.length = b.length) :
    (arithK op w a b).map vals = rows2 (specArith op w) (vals a) (vals b) := by
  unfold arithK tryBinaryOp
  cases hs : op.safens
  · simp only [Bool.false_eq_true, if_false, hl, ne_eq, not_true_eq_false]
    apply zipSlotM_vals'
    intro p _
    exact arith_slot_plain op hs w p.1 p.2
  · simp only [if_true, safenDividend, List.length_map, hl, ne_eq, not_true_eq_false, if_false]
    rw [zipSlotM_map_right]
    apply zipSlotM_vals'
    intro p _
    exact arith_slot_safened op hs w p.1 p.2

example : (arithK .div .w32 [⟨true, 7⟩, ⟨true, 1⟩, ⟨false, 99⟩] [⟨true, 2⟩, ⟨true, 0⟩, ⟨true, 3⟩]).map vals
    = .ok [some 3, none, none] := by decide

/-- `null_slot_never_faults` — holds since /repo 5b4435f: the outcome depends only on the SQL values
of the inputs, never on raw bits under NULL. -/
theorem null_slot_never_faults (op : ArithOp) (w : IW) (a b a' b' : Arr Int)
    (hl : a.length = b.length) (ha : vals a = vals a') (hb : vals b = vals b') :
    (arithK op w a b).map vals = (arithK op w a' b').map vals := by
  have hl' : a'.length = b'.length := by
    have h1 := congrArg List.length ha
    have h2 := congrArg List.length hb
    simp only [vals, List.length_map] at h1 h2
    omega
  rw [arith_pointwise op w a b hl, arith_pointwise op w a' b' hl', ha, hb]

/-- `overflow_is_error` — holds since /repo 5b4435f: when a row overflows, the kernel returns
`Err` (no panic, no wrapped value). -/
theorem overflow_is_error (op : ArithOp) (w : IW) (a b : Arr Int) (hl : a.length = b.length)
    (h : rows2 (specArith op w) (vals a) (vals b) = .err) : arithK op w a b = .err := by
  have := arith_pointwise op w a b hl
  rw [h] at this
  cases hk : arithK op w a b <;> simp [hk, KOut.map] at this
  rfl

/-- Regressions (the former witnesses of the refuted statements). -/
theorem arith_regression :
    arithK .add .w32 [⟨false, 2147483647⟩] [⟨true, 1⟩] = .ok [⟨false, 0⟩] ∧
    arithK .add .w32 [⟨true, 2147483647⟩] [⟨true, 1⟩] = .err ∧
    arithK .div .w32 [⟨true, -2147483648⟩] [⟨false, -1⟩] = .ok [⟨false, 0⟩] ∧
    arithK .rem .w32 [⟨true, -2147483648⟩] [⟨true, -1⟩] = .ok [⟨true, 0⟩] ∧
    arithK .rem .w32 [⟨true, 1⟩, ⟨true, 7⟩] [⟨true, 0⟩, ⟨false, 0⟩] = .ok [⟨false, 0⟩, ⟨false, 0⟩] := by
  decide

/-- Comparisons do satisfy it (corollary of `cmp_pointwise`). -/
theorem cmp_null_slot_never_faults {α} (f : α → α → Bool) (a b a' b' : Arr α)
    (ha : vals a = vals a') (hb : vals b = vals b') :
    (cmpK f a b).map vals = (cmpK f a' b').map vals := by
  rw [cmp_pointwise, cmp_pointwise, ha, hb]

theorem and_null_slot_never_faults (a b a' b' : Arr Bool)
    (ha : vals a = vals a') (hb : vals b = vals b') :
    (andK a b).map vals = (andK a' b').map vals := by
  rw [and_pointwise, and_pointwise, ha, hb]

/-! ## Batch independence -/

/-- `eval (a₁ ++ a₂) (b₁ ++ b₂) = eval a₁ b₁ ++ eval a₂ b₂` for `binary_op` with ANY raw
function, any lengths (in particular across the 64-bit bitmap word boundary). -/
theorem batch_independent_binary {α β γ} (f : α → β → KOut γ) (a1 a2 : Arr α) (b1 b2 : Arr β)
    (h1 : a1.length = b1.length) (h2 : a2.length = b2.length) :
    binaryOp f (a1 ++ a2) (b1 ++ b2) = KOut.append2 (binaryOp f a1 b1) (binaryOp f a2 b2) := by
  rw [binaryOp_eq_zipSlotM f _ _ (by simp [h1, h2]), binaryOp_eq_zipSlotM f _ _ h1,
    binaryOp_eq_zipSlotM f _ _ h2]
  exact zipSlotM_append _ a1 a2 b1 b2 h1

theorem batch_independent_arith (op : ArithOp) (w : IW) (a1 a2 b1 b2 : Arr Int)
    (h1 : a1.length = b1.length) (h2 : a2.length = b2.length) :
    arithK op w (a1 ++ a2) (b1 ++ b2)
      = KOut.append2 (arithK op w a1 b1) (arithK op w a2 b2) := by
  unfold arithK tryBinaryOp
  cases hop : op.safens
  · simp only [Bool.false_eq_true, if_false, List.length_append, h1, h2, ne_eq, not_true_eq_false]
    exact zipSlotM_append _ a1 a2 b1 b2 h1
  · simp only [if_true, safenDividend, List.map_append, List.length_append, List.length_map, h1, h2,
      ne_eq, not_true_eq_false, if_false]
    exact zipSlotM_append _ a1 a2 _ _ (by simpa using h1)

theorem batch_independent_or (a1 a2 b1 b2 : Arr Bool) (h1 : a1.length = b1.length) :
    orK (a1 ++ a2) (b1 ++ b2) = KOut.append2 (orK a1 b1) (orK a2 b2) := by
  simp only [orK_eq]
  exact zipSlotM_append _ a1 a2 b1 b2 h1

theorem batch_independent_and (a1 a2 b1 b2 : Arr Bool) (h1 : a1.length = b1.length) :
    andK (a1 ++ a2) (b1 ++ b2) = KOut.append2 (andK a1 b1) (andK a2 b2) := by
  simp only [andK_eq]
  exact zipSlotM_append _ a1 a2 b1 b2 h1

theorem batch_independent_cmp {α} (f : α → α → Bool) (a1 a2 b1 b2 : Arr α)
    (h1 : a1.length = b1.length) :
    cmpK f (a1 ++ a2) (b1 ++ b2) = KOut.append2 (cmpK f a1 b1) (cmpK f a2 b2) := by
  simp only [cmpK_eq]
  exact zipSlotM_append _ a1 a2 b1 b2 h1

example : arithK .add .w32 ([⟨true, 1⟩] ++ [⟨false, 3⟩]) ([⟨true, 2⟩] ++ [⟨true, 4⟩])
    = .ok [⟨true, 3⟩, ⟨false, 0⟩] := by decide

/-! ## Reason tags are the forced hypotheses (node level), casts, IS NULL -/

/-- K for casts (no hypothesis): `try_unary_op` casts skip NULL slots, the `unary_op` casts
are value-correct whatever the raw bits. -/
theorem cast_pointwise (t : Ty) (c : Col) : (Col.cast t c).map Col.abs = specCast t c.abs :=
  cast_abs t c

theorem isnull_pointwise (c : Col) :
    (Col.isNull c).abs = match c.abs with
      | .null k => .bool (List.replicate k (some true))
      | .bool xs => .bool (xs.map fun x => some x.isNone)
      | .int _ xs => .bool (xs.map fun x => some x.isNone)
      | .str xs => .bool (xs.map fun x => some x.isNone) :=
  isNull_abs c


/-! ## Whole expression trees (auxiliary column-level lemmas, then the composition theorem) -/

theorem map_abs_int (w : IW) (r : KOut (Arr Int)) :
    (r.map (Col.int w)).map Col.abs = (r.map vals).map (SCol.int w) := by cases r <;> rfl
theorem map_abs_bool (r : KOut (Arr Bool)) :
    (r.map Col.bool).map Col.abs = (r.map vals).map SCol.bool := by cases r <;> rfl
theorem map_abs_str (r : KOut (Arr String)) :
    (r.map Col.str).map Col.abs = (r.map vals).map SCol.str := by cases r <;> rfl

theorem vals_map_mem {α β} (a : Arr α) (g : Slot α → Slot β) (h : Option α → Option β)
    (hg : ∀ s ∈ a, (g s).val = h s.val) : vals (a.map g) = (vals a).map h := by
  induction a with
  | nil => rfl
  | cons x xs ih =>
    have := ih (fun s hs => hg s (by simp [hs]))
    simp only [vals, List.map_cons, List.map_map] at this ⊢
    simp [hg x (by simp), ← this]

theorem concat_abs (a b : Arr String) :
    (Col.concat (.str a) (.str b)).map Col.abs =
      (rows2 (fun x y => match x, y with
        | some p, some q => KOut.ok (some (p ++ q))
        | _, _ => KOut.ok none) (vals a) (vals b)).map SCol.str := by
  have h : (binaryOp (fun x y => KOut.ok (x ++ y)) a b).map vals = rows2 (fun x y => match x, y with
        | some p, some q => KOut.ok (some (p ++ q))
        | _, _ => KOut.ok none) (vals a) (vals b) := by
    rw [binaryOp_eq_zipSlotM' _ a b (by intro x y h; cases h)]
    apply zipSlotM_vals'
    intro p _
    rcases p with ⟨⟨va, ra⟩, ⟨vb, rb⟩⟩
    cases va <;> cases vb <;> simp [binSlot, Slot.val, KOut.map]
  rw [← h]
  simp only [Col.concat]
  cases binaryOp (fun x y => KOut.ok (x ++ y)) a b <;> rfl

theorem repeat_abs (a : Arr String) (b : Arr Int) :
    (Col.repeat_ (.str a) (.int .w32 b)).map Col.abs =
      (rows2 (fun x y => match x, y with
        | some p, some q => KOut.ok (some (repeatF p q))
        | _, _ => KOut.ok none) (vals a) (vals b)).map SCol.str := by
  have h : (binaryOp (fun s n => KOut.ok (repeatF s n)) a b).map vals = rows2 (fun x y => match x, y with
        | some p, some q => KOut.ok (some (repeatF p q))
        | _, _ => KOut.ok none) (vals a) (vals b) := by
    rw [binaryOp_eq_zipSlotM' _ a b (by intro x y h; cases h)]
    apply zipSlotM_vals'
    intro p _
    rcases p with ⟨⟨va, ra⟩, ⟨vb, rb⟩⟩
    cases va <;> cases vb <;> simp [binSlot, Slot.val, KOut.map]
  rw [← h]
  simp only [Col.repeat_]
  cases binaryOp (fun s n => KOut.ok (repeatF s n)) a b <;> rfl

theorem replace_abs (f t : String) (a : Arr String) :
    (Col.replace f t (.str a)).map Col.abs
      = .ok (.str ((vals a).map (Option.map fun s => replaceF f t s))) := by
  simp only [Col.replace, KOut.map, Col.abs]
  rw [vals_map a _ (Option.map fun s => replaceF f t s)]
  intro s; rcases s with ⟨v, r⟩; cases v <;> simp [Slot.val]

theorem like_abs (p : String) (a : Arr String) :
    (Col.like p (.str a)).map Col.abs
      = .ok (.bool ((vals a).map (Option.map fun s => likeSpec p s))) := by
  simp only [Col.like, likeK, KOut.map, Col.abs, clearNull, List.map_map]
  congr 2
  apply vals_map
  intro s
  rcases s with ⟨v, r⟩
  cases v <;> simp [Slot.val, likeImpl, likeSpec, likeImplToks, likeSpecToks]

theorem substring_abs (a : Arr String) (b c : Arr Int) :
    vals (ternaryOp "" substrF a b c) = specSubstrRows (vals a) (vals b) (vals c) := by
  induction a generalizing b c with
  | nil => cases b <;> cases c <;> simp [ternaryOp, vals, specSubstrRows]
  | cons x xs ih =>
    cases b with
    | nil => cases c <;> simp [ternaryOp, vals, specSubstrRows]
    | cons y ys =>
      cases c with
      | nil => simp [ternaryOp, vals, specSubstrRows]
      | cons z zs =>
        have := ih ys zs
        simp only [vals, List.map_cons, ternaryOp] at this ⊢
        rcases x with ⟨vx, rx⟩
        rcases y with ⟨vy, ry⟩
        rcases z with ⟨vz, rz⟩
        cases vx <;> cases vy <;> cases vz <;> simp [Slot.val, specSubstrRows, this]

/-- K for unary minus (since /repo 5b4435f): valid slots only, overflow = error. -/
theorem neg_abs (w : IW) (x : Arr Int) :
    (Col.neg (.int w x)).map Col.abs = (rows1 (specNeg w) (vals x)).map (SCol.int w) := by
  have hv : (tryUnaryOp 0 (negW w) x).map vals = rows1 (specNeg w) (vals x) := by
    rw [tryUnaryOp_vals]
    congr 1
    funext o
    cases o with
    | none => rfl
    | some v =>
      simp only [liftOpt, specNeg, negW, chk]
      split <;> simp [KOut.map]
  rw [← hv]
  simp only [Col.neg]
  cases tryUnaryOp 0 (negW w) x <;> rfl

theorem vals_clearNull (c : Arr Bool) : vals (clearNull c) = vals c := by
  induction c with
  | nil => rfl
  | cons x xs ih =>
    simp only [clearNull, vals, List.map_cons] at ih ⊢
    rw [ih]
    rcases x with ⟨v, r⟩
    cases v <;> simp [Slot.val]

theorem select_abs_bool (s x y : Arr Bool) (h1 : x.length = y.length) (h2 : s.length = x.length) :
    (Col.select (.bool s) (.bool x) (.bool y)).map Col.abs
      = (specSelM (vals s) (vals x) (vals y)).map SCol.bool := by
  have hs := select_pointwise s x y h1 h2
  have hl : ¬ ((vals x).length ≠ (vals y).length ∨ (vals s).length ≠ (vals x).length) := by
    simp [vals, h1, h2]
  simp only [Col.select, specSelM, hl, if_false]
  cases hk : selectOp s x y with
  | ok c =>
    rw [hk] at hs; simp only [KOut.map] at hs ⊢
    have := KOut.ok.inj hs
    simp only [Col.abs, vals_clearNull, this, specSelectRows]
  | err => rw [hk] at hs; cases hs
  | panic => rw [hk] at hs; cases hs

theorem select_abs_str (s : Arr Bool) (x y : Arr String) (h1 : x.length = y.length)
    (h2 : s.length = x.length) :
    (Col.select (.bool s) (.str x) (.str y)).map Col.abs
      = (specSelM (vals s) (vals x) (vals y)).map SCol.str := by
  have hs := select_pointwise s x y h1 h2
  have hl : ¬ ((vals x).length ≠ (vals y).length ∨ (vals s).length ≠ (vals x).length) := by
    simp [vals, h1, h2]
  simp only [Col.select, specSelM, hl, if_false]
  cases hk : selectOp s x y with
  | ok c =>
    rw [hk] at hs; simp only [KOut.map] at hs ⊢
    have := KOut.ok.inj hs
    simp only [Col.abs, this, specSelectRows]
  | err => rw [hk] at hs; cases hs
  | panic => rw [hk] at hs; cases hs

theorem select_abs (s : Arr Bool) (w : IW) (x y : Arr Int) (h1 : x.length = y.length)
    (h2 : s.length = x.length) :
    (Col.select (.bool s) (.int w x) (.int w y)).map Col.abs
      = (specSelM (vals s) (vals x) (vals y)).map (SCol.int w) := by
  have hs := select_pointwise s x y h1 h2
  simp only [Col.select, beq_self_eq_true, if_true]
  have hl : ¬ ((vals x).length ≠ (vals y).length ∨ (vals s).length ≠ (vals x).length) := by
    simp [vals, h1, h2]
  simp only [specSelM, hl, if_false]
  cases hk : selectOp s x y with
  | ok c =>
    rw [hk] at hs; simp only [KOut.map] at hs ⊢
    have := KOut.ok.inj hs
    simp only [Col.abs, this, specSelectRows]
  | err => rw [hk] at hs; cases hs
  | panic => rw [hk] at hs; cases hs


theorem abs_len (c : Col) : c.abs.len = c.len := by
  cases c <;> simp [Col.abs, SCol.len, Col.len, vals]

theorem abs_divisorOk (op : ArithOp) (c : Col) : c.abs.divisorOk op = c.divisorOk op := by
  cases c <;> rfl

theorem vals_replicate_null {α} (n : Nat) (d : α) :
    vals (List.replicate n (⟨false, d⟩ : Slot α)) = List.replicate n none := by
  simp [vals, Slot.val]

/-- Column-level K for arithmetic, operands of type NULL included (since /repo 26c93c7). -/
theorem arith_col_abs (op : ArithOp) (ca cb : Col) (hl : ca.len = cb.len) :
    (Col.arith op ca cb).map Col.abs = specArithCol op ca.abs cb.abs := by
  unfold Col.arith specArithCol
  rw [abs_divisorOk]
  cases hd : Col.divisorOk op cb
  · simp [KOut.map]
  · simp only [Bool.not_true, Bool.false_eq_true, if_false]
    cases ca <;> cases cb <;> first
      | (simp only [Col.abs]
         rw [map_abs_int, arith_pointwise _ _ _ _ (by simpa [Col.len] using hl)])
      | simp [Col.abs, KOut.map]

/-- Column-level K for comparisons, operands of type NULL included. -/
theorem cmp_col_abs (op : CmpOp) (ca cb : Col) :
    (Col.cmp op ca cb).map Col.abs = specCmpCol op ca.abs cb.abs := by
  cases ca <;> cases cb <;> first
    | (simp only [Col.cmp, Col.abs, specCmpCol]
       rw [map_abs_bool, cmp_pointwise])
    | simp [Col.cmp, Col.abs, specCmpCol, KOut.map, Col.len, SCol.len, vals, Slot.val]

theorem asBoolArr_abs (c : Col) : c.abs.asBool = (c.asBoolArr).map vals := by
  cases c <;> simp [Col.abs, SCol.asBool, Col.asBoolArr, vals_replicate_null]

/-- Column-level K for AND / OR, operands of type NULL included. -/
theorem and_col_abs (ca cb : Col) : (Col.and ca cb).map Col.abs = specAndCol ca.abs cb.abs := by
  unfold Col.and specAndCol
  rw [asBoolArr_abs, asBoolArr_abs]
  cases ca.asBoolArr <;> cases cb.asBoolArr <;> simp [KOut.map]
  rename_i a b
  rw [← and_pointwise]
  cases andK a b <;> simp [KOut.map, Col.abs]

theorem or_col_abs (ca cb : Col) : (Col.or ca cb).map Col.abs = specOrCol ca.abs cb.abs := by
  unfold Col.or specOrCol
  rw [asBoolArr_abs, asBoolArr_abs]
  cases ca.asBoolArr <;> cases cb.asBoolArr <;> simp [KOut.map]
  rename_i a b
  rw [← or_pointwise]
  cases orK a b <;> simp [KOut.map, Col.abs]

/-- Column-level K for CASE: every accepted branch type, two untyped NULLs included. -/
theorem ite_col_abs (cc ct ce : Col) (h1 : cc.len = ct.len) (h2 : ct.len = ce.len) :
    (Col.select cc ct ce).map Col.abs = specIteCol cc.abs ct.abs ce.abs := by
  cases cc with
  | bool s =>
    cases ct with
    | int wa x =>
      cases ce with
      | int wb y =>
        by_cases hw : wa = wb
        · subst hw
          simp only [Col.abs, specIteCol, beq_self_eq_true, if_true]
          exact select_abs s wa x y (by simpa [Col.len] using h2) (by simpa [Col.len] using h1)
        · have hb : (wa == wb) = false := by simpa using hw
          simp [Col.select, Col.abs, specIteCol, KOut.map, hb]
      | null k => simp [Col.select, Col.abs, specIteCol, KOut.map]
      | bool y => simp [Col.select, Col.abs, specIteCol, KOut.map]
      | str y => simp [Col.select, Col.abs, specIteCol, KOut.map]
    | bool x =>
      cases ce with
      | bool y =>
        simp only [Col.abs, specIteCol]
        exact select_abs_bool s x y (by simpa [Col.len] using h2) (by simpa [Col.len] using h1)
      | null k => simp [Col.select, Col.abs, specIteCol, KOut.map]
      | int w y => simp [Col.select, Col.abs, specIteCol, KOut.map]
      | str y => simp [Col.select, Col.abs, specIteCol, KOut.map]
    | str x =>
      cases ce with
      | str y =>
        simp only [Col.abs, specIteCol]
        exact select_abs_str s x y (by simpa [Col.len] using h2) (by simpa [Col.len] using h1)
      | null k => simp [Col.select, Col.abs, specIteCol, KOut.map]
      | int w y => simp [Col.select, Col.abs, specIteCol, KOut.map]
      | bool y => simp [Col.select, Col.abs, specIteCol, KOut.map]
    | null k => cases ce <;> simp [Col.select, Col.abs, specIteCol, KOut.map]
  | null k => cases ct <;> cases ce <;> simp [Col.select, Col.abs, specIteCol, KOut.map]
  | int w s => cases ct <;> cases ce <;> simp [Col.select, Col.abs, specIteCol, KOut.map]
  | str s => cases ct <;> cases ce <;> simp [Col.select, Col.abs, specIteCol, KOut.map]

/-- Composition over whole expression trees: an expression evaluated on a well-formed chunk
(arrays of ANY length n, any raw garbage under NULL) for which no node raises a reason tag — i.e.
every forced hypothesis of the node theorems holds on the actual intermediate arrays — denotes,
row by row, its SQL value (`specEval` is built from scalar functions of one row only). -/
theorem eval_tree_pointwise (chunk : List Col) (n : Nat) (hwf : ChunkWF chunk n) (e : KExpr) :
    (evalK chunk n e).2 = [] →
      (evalK chunk n e).1.map Col.abs = specEval (chunk.map Col.abs) n e := by
  induction e with
  | col i =>
    intro _
    simp only [evalK, specEval, List.getElem?_map]
    cases chunk[i]? <;> rfl
  | const v =>
    intro _
    simp only [evalK, specEval, KOut.map]
    cases v <;> simp [constCol, constSCol, Col.abs, vals_replicate_valid]
  | arith op a b iha ihb =>
    intro ht
    simp only [evalK] at ht ⊢
    simp only [specEval]
    rcases ha : evalK chunk n a with ⟨ra, ta⟩
    try rw [ha] at ht
    try rw [ha]
    cases ra with
    | ok ca =>
      rcases hb : evalK chunk n b with ⟨rb, tb⟩
      try rw [hb] at ht
      try rw [hb]
      cases rb with
      | ok cb =>
        simp only [List.append_nil, List.append_eq_nil_iff] at ht
        obtain ⟨hta, htb⟩ := ht
        have ea := iha (by rw [ha]; exact hta)
        have eb := ihb (by rw [hb]; exact htb)
        rw [ha] at ea; rw [hb] at eb
        simp only [KOut.map] at ea eb
        have la := evalK_len chunk n hwf a ca (by rw [ha])
        have lb := evalK_len chunk n hwf b cb (by rw [hb])
        rw [← ea, ← eb]
        simp only
        exact arith_col_abs op ca cb (la.trans lb.symm)
      | err =>
        simp only [List.append_eq_nil_iff] at ht
        have ea := iha (by rw [ha]; exact ht.1)
        have eb := ihb (by rw [hb]; exact ht.2)
        rw [ha] at ea; rw [hb] at eb
        simp only [KOut.map] at ea eb
        rw [← ea, ← eb]; rfl
      | panic =>
        simp only [List.append_eq_nil_iff] at ht
        have ea := iha (by rw [ha]; exact ht.1)
        have eb := ihb (by rw [hb]; exact ht.2)
        rw [ha] at ea; rw [hb] at eb
        simp only [KOut.map] at ea eb
        rw [← ea, ← eb]; rfl
    | err =>
      have ea := iha (by rw [ha]; exact ht)
      rw [ha] at ea; simp only [KOut.map] at ea
      rw [← ea]; rfl
    | panic =>
      have ea := iha (by rw [ha]; exact ht)
      rw [ha] at ea; simp only [KOut.map] at ea
      rw [← ea]; rfl
  | cmp op a b iha ihb =>
    intro ht
    simp only [evalK] at ht ⊢
    simp only [specEval]
    rcases ha : evalK chunk n a with ⟨ra, ta⟩
    try rw [ha] at ht
    try rw [ha]
    cases ra with
    | ok ca =>
      rcases hb : evalK chunk n b with ⟨rb, tb⟩
      try rw [hb] at ht
      try rw [hb]
      cases rb with
      | ok cb =>
        simp only [List.append_nil, List.append_eq_nil_iff] at ht
        obtain ⟨hta, htb⟩ := ht
        have ea := iha (by rw [ha]; exact hta)
        have eb := ihb (by rw [hb]; exact htb)
        rw [ha] at ea; rw [hb] at eb
        simp only [KOut.map] at ea eb
        have la := evalK_len chunk n hwf a ca (by rw [ha])
        have lb := evalK_len chunk n hwf b cb (by rw [hb])
        rw [← ea, ← eb]
        simp only
        exact cmp_col_abs op ca cb
      | err =>
        simp only [List.append_eq_nil_iff] at ht
        have ea := iha (by rw [ha]; exact ht.1)
        have eb := ihb (by rw [hb]; exact ht.2)
        rw [ha] at ea; rw [hb] at eb
        simp only [KOut.map] at ea eb
        rw [← ea, ← eb]; rfl
      | panic =>
        simp only [List.append_eq_nil_iff] at ht
        have ea := iha (by rw [ha]; exact ht.1)
        have eb := ihb (by rw [hb]; exact ht.2)
        rw [ha] at ea; rw [hb] at eb
        simp only [KOut.map] at ea eb
        rw [← ea, ← eb]; rfl
    | err =>
      have ea := iha (by rw [ha]; exact ht)
      rw [ha] at ea; simp only [KOut.map] at ea
      rw [← ea]; rfl
    | panic =>
      have ea := iha (by rw [ha]; exact ht)
      rw [ha] at ea; simp only [KOut.map] at ea
      rw [← ea]; rfl
  | and a b iha ihb =>
    intro ht
    simp only [evalK] at ht ⊢
    simp only [specEval]
    rcases ha : evalK chunk n a with ⟨ra, ta⟩
    try rw [ha] at ht
    try rw [ha]
    cases ra with
    | ok ca =>
      rcases hb : evalK chunk n b with ⟨rb, tb⟩
      try rw [hb] at ht
      try rw [hb]
      cases rb with
      | ok cb =>
        simp only [List.append_nil, List.append_eq_nil_iff] at ht
        obtain ⟨hta, htb⟩ := ht
        have ea := iha (by rw [ha]; exact hta)
        have eb := ihb (by rw [hb]; exact htb)
        rw [ha] at ea; rw [hb] at eb
        simp only [KOut.map] at ea eb
        have la := evalK_len chunk n hwf a ca (by rw [ha])
        have lb := evalK_len chunk n hwf b cb (by rw [hb])
        rw [← ea, ← eb]
        simp only
        exact and_col_abs ca cb
      | err =>
        simp only [List.append_eq_nil_iff] at ht
        have ea := iha (by rw [ha]; exact ht.1)
        have eb := ihb (by rw [hb]; exact ht.2)
        rw [ha] at ea; rw [hb] at eb
        simp only [KOut.map] at ea eb
        rw [← ea, ← eb]; rfl
      | panic =>
        simp only [List.append_eq_nil_iff] at ht
        have ea := iha (by rw [ha]; exact ht.1)
        have eb := ihb (by rw [hb]; exact ht.2)
        rw [ha] at ea; rw [hb] at eb
        simp only [KOut.map] at ea eb
        rw [← ea, ← eb]; rfl
    | err =>
      have ea := iha (by rw [ha]; exact ht)
      rw [ha] at ea; simp only [KOut.map] at ea
      rw [← ea]; rfl
    | panic =>
      have ea := iha (by rw [ha]; exact ht)
      rw [ha] at ea; simp only [KOut.map] at ea
      rw [← ea]; rfl
  | or a b iha ihb =>
    intro ht
    simp only [evalK] at ht ⊢
    simp only [specEval]
    rcases ha : evalK chunk n a with ⟨ra, ta⟩
    try rw [ha] at ht
    try rw [ha]
    cases ra with
    | ok ca =>
      rcases hb : evalK chunk n b with ⟨rb, tb⟩
      try rw [hb] at ht
      try rw [hb]
      cases rb with
      | ok cb =>
        simp only [List.append_nil, List.append_eq_nil_iff] at ht
        obtain ⟨hta, htb⟩ := ht
        have ea := iha (by rw [ha]; exact hta)
        have eb := ihb (by rw [hb]; exact htb)
        rw [ha] at ea; rw [hb] at eb
        simp only [KOut.map] at ea eb
        have la := evalK_len chunk n hwf a ca (by rw [ha])
        have lb := evalK_len chunk n hwf b cb (by rw [hb])
        rw [← ea, ← eb]
        simp only
        exact or_col_abs ca cb
      | err =>
        simp only [List.append_eq_nil_iff] at ht
        have ea := iha (by rw [ha]; exact ht.1)
        have eb := ihb (by rw [hb]; exact ht.2)
        rw [ha] at ea; rw [hb] at eb
        simp only [KOut.map] at ea eb
        rw [← ea, ← eb]; rfl
      | panic =>
        simp only [List.append_eq_nil_iff] at ht
        have ea := iha (by rw [ha]; exact ht.1)
        have eb := ihb (by rw [hb]; exact ht.2)
        rw [ha] at ea; rw [hb] at eb
        simp only [KOut.map] at ea eb
        rw [← ea, ← eb]; rfl
    | err =>
      have ea := iha (by rw [ha]; exact ht)
      rw [ha] at ea; simp only [KOut.map] at ea
      rw [← ea]; rfl
    | panic =>
      have ea := iha (by rw [ha]; exact ht)
      rw [ha] at ea; simp only [KOut.map] at ea
      rw [← ea]; rfl
  | not a iha =>
    intro ht
    simp only [evalK] at ht ⊢
    simp only [specEval]
    rcases ha : evalK chunk n a with ⟨ra, ta⟩
    try rw [ha] at ht
    try rw [ha]
    cases ra with
    | ok ca =>
        simp only [List.append_nil] at ht
        have hta := ht
        have ea := iha (by rw [ha]; exact hta)
        rw [ha] at ea
        simp only [KOut.map] at ea
        have la := evalK_len chunk n hwf a ca (by rw [ha])
        rw [← ea]
        simp only
        cases ca <;> first
          | (simp only [Col.not, Col.abs, KOut.map]
             rw [not_pointwise])
          | (simp [Col.not, Col.abs, KOut.map])
    | err =>
      have ea := iha (by rw [ha]; exact ht)
      rw [ha] at ea; simp only [KOut.map] at ea
      rw [← ea]; rfl
    | panic =>
      have ea := iha (by rw [ha]; exact ht)
      rw [ha] at ea; simp only [KOut.map] at ea
      rw [← ea]; rfl
  | neg a iha =>
    intro ht
    simp only [evalK] at ht ⊢
    simp only [specEval]
    rcases ha : evalK chunk n a with ⟨ra, ta⟩
    try rw [ha] at ht
    try rw [ha]
    cases ra with
    | ok ca =>
        simp only [List.append_nil] at ht
        have hta := ht
        have ea := iha (by rw [ha]; exact hta)
        rw [ha] at ea
        simp only [KOut.map] at ea
        have la := evalK_len chunk n hwf a ca (by rw [ha])
        rw [← ea]
        simp only
        cases ca with
        | int w x =>
          simp only [Col.abs]
          exact neg_abs w x
        | null k => simp [Col.neg, Col.abs, KOut.map]
        | bool x => simp [Col.neg, Col.abs, KOut.map]
        | str x => simp [Col.neg, Col.abs, KOut.map]
    | err =>
      have ea := iha (by rw [ha]; exact ht)
      rw [ha] at ea; simp only [KOut.map] at ea
      rw [← ea]; rfl
    | panic =>
      have ea := iha (by rw [ha]; exact ht)
      rw [ha] at ea; simp only [KOut.map] at ea
      rw [← ea]; rfl
  | isnull a iha =>
    intro ht
    simp only [evalK] at ht ⊢
    simp only [specEval]
    rcases ha : evalK chunk n a with ⟨ra, ta⟩
    try rw [ha] at ht
    try rw [ha]
    cases ra with
    | ok ca =>
        have hta := ht
        have ea := iha (by rw [ha]; exact hta)
        rw [ha] at ea
        simp only [KOut.map] at ea
        have la := evalK_len chunk n hwf a ca (by rw [ha])
        rw [← ea]
        simp only
        simp only [KOut.map, isNull_abs]
        cases ca <;> rfl
    | err =>
      have ea := iha (by rw [ha]; exact ht)
      rw [ha] at ea; simp only [KOut.map] at ea
      rw [← ea]; rfl
    | panic =>
      have ea := iha (by rw [ha]; exact ht)
      rw [ha] at ea; simp only [KOut.map] at ea
      rw [← ea]; rfl
  | cast t a iha =>
    intro ht
    simp only [evalK] at ht ⊢
    simp only [specEval]
    rcases ha : evalK chunk n a with ⟨ra, ta⟩
    try rw [ha] at ht
    try rw [ha]
    cases ra with
    | ok ca =>
        have hta := ht
        have ea := iha (by rw [ha]; exact hta)
        rw [ha] at ea
        simp only [KOut.map] at ea
        have la := evalK_len chunk n hwf a ca (by rw [ha])
        rw [← ea]
        simp only
        exact cast_abs t ca
    | err =>
      have ea := iha (by rw [ha]; exact ht)
      rw [ha] at ea; simp only [KOut.map] at ea
      rw [← ea]; rfl
    | panic =>
      have ea := iha (by rw [ha]; exact ht)
      rw [ha] at ea; simp only [KOut.map] at ea
      rw [← ea]; rfl
  | concat a b iha ihb =>
    intro ht
    simp only [evalK] at ht ⊢
    simp only [specEval]
    rcases ha : evalK chunk n a with ⟨ra, ta⟩
    try rw [ha] at ht
    try rw [ha]
    cases ra with
    | ok ca =>
      rcases hb : evalK chunk n b with ⟨rb, tb⟩
      try rw [hb] at ht
      try rw [hb]
      cases rb with
      | ok cb =>
        simp only [List.append_nil, List.append_eq_nil_iff] at ht
        obtain ⟨hta, htb⟩ := ht
        have ea := iha (by rw [ha]; exact hta)
        have eb := ihb (by rw [hb]; exact htb)
        rw [ha] at ea; rw [hb] at eb
        simp only [KOut.map] at ea eb
        have la := evalK_len chunk n hwf a ca (by rw [ha])
        have lb := evalK_len chunk n hwf b cb (by rw [hb])
        rw [← ea, ← eb]
        simp only
        cases ca <;> cases cb <;> first
          | (simp only [Col.abs]
             exact concat_abs _ _)
          | (simp [Col.concat, Col.abs, KOut.map])
      | err =>
        simp only [List.append_eq_nil_iff] at ht
        have ea := iha (by rw [ha]; exact ht.1)
        have eb := ihb (by rw [hb]; exact ht.2)
        rw [ha] at ea; rw [hb] at eb
        simp only [KOut.map] at ea eb
        rw [← ea, ← eb]; rfl
      | panic =>
        simp only [List.append_eq_nil_iff] at ht
        have ea := iha (by rw [ha]; exact ht.1)
        have eb := ihb (by rw [hb]; exact ht.2)
        rw [ha] at ea; rw [hb] at eb
        simp only [KOut.map] at ea eb
        rw [← ea, ← eb]; rfl
    | err =>
      have ea := iha (by rw [ha]; exact ht)
      rw [ha] at ea; simp only [KOut.map] at ea
      rw [← ea]; rfl
    | panic =>
      have ea := iha (by rw [ha]; exact ht)
      rw [ha] at ea; simp only [KOut.map] at ea
      rw [← ea]; rfl
  | like a p iha =>
    intro ht
    simp only [evalK] at ht ⊢
    simp only [specEval]
    rcases ha : evalK chunk n a with ⟨ra, ta⟩
    try rw [ha] at ht
    try rw [ha]
    cases ra with
    | ok ca =>
        simp only [List.append_nil] at ht
        have hta := ht
        have ea := iha (by rw [ha]; exact hta)
        rw [ha] at ea
        simp only [KOut.map] at ea
        have la := evalK_len chunk n hwf a ca (by rw [ha])
        rw [← ea]
        simp only
        cases ca with
        | str x => simp only [Col.abs]; exact like_abs p x
        | null k => simp [Col.like, Col.abs, KOut.map]
        | bool x => simp [Col.like, Col.abs, KOut.map]
        | int w x => simp [Col.like, Col.abs, KOut.map]
    | err =>
      have ea := iha (by rw [ha]; exact ht)
      rw [ha] at ea; simp only [KOut.map] at ea
      rw [← ea]; rfl
    | panic =>
      have ea := iha (by rw [ha]; exact ht)
      rw [ha] at ea; simp only [KOut.map] at ea
      rw [← ea]; rfl
  | replace a f t iha =>
    intro ht
    simp only [evalK] at ht ⊢
    simp only [specEval]
    rcases ha : evalK chunk n a with ⟨ra, ta⟩
    try rw [ha] at ht
    try rw [ha]
    cases ra with
    | ok ca =>
        simp only [List.append_nil] at ht
        have hta := ht
        have ea := iha (by rw [ha]; exact hta)
        rw [ha] at ea
        simp only [KOut.map] at ea
        have la := evalK_len chunk n hwf a ca (by rw [ha])
        rw [← ea]
        simp only
        cases ca with
        | str x => simp only [Col.abs]; exact replace_abs f t x
        | null k => simp [Col.replace, Col.abs, KOut.map]
        | bool x => simp [Col.replace, Col.abs, KOut.map]
        | int w x => simp [Col.replace, Col.abs, KOut.map]
    | err =>
      have ea := iha (by rw [ha]; exact ht)
      rw [ha] at ea; simp only [KOut.map] at ea
      rw [← ea]; rfl
    | panic =>
      have ea := iha (by rw [ha]; exact ht)
      rw [ha] at ea; simp only [KOut.map] at ea
      rw [← ea]; rfl
  | repeat_ s k ihs ihk =>
    intro ht
    simp only [evalK] at ht ⊢
    simp only [specEval]
    rcases ha : evalK chunk n s with ⟨ra, ta⟩
    try rw [ha] at ht
    try rw [ha]
    cases ra with
    | ok ca =>
      rcases hb : evalK chunk n k with ⟨rb, tb⟩
      try rw [hb] at ht
      try rw [hb]
      cases rb with
      | ok cb =>
        simp only [List.append_nil, List.append_eq_nil_iff] at ht
        obtain ⟨hta, htb⟩ := ht
        have ea := ihs (by rw [ha]; exact hta)
        have eb := ihk (by rw [hb]; exact htb)
        rw [ha] at ea; rw [hb] at eb
        simp only [KOut.map] at ea eb
        have la := evalK_len chunk n hwf s ca (by rw [ha])
        have lb := evalK_len chunk n hwf k cb (by rw [hb])
        rw [← ea, ← eb]
        simp only
        cases ca with
        | str x =>
          cases cb with
          | int w y =>
            cases w <;> first
              | (simp only [Col.abs]
                 exact repeat_abs _ _)
              | (simp [Col.repeat_, Col.abs, KOut.map])
          | null k => simp [Col.repeat_, Col.abs, KOut.map]
          | bool y => simp [Col.repeat_, Col.abs, KOut.map]
          | str y => simp [Col.repeat_, Col.abs, KOut.map]
        | null k => cases cb <;> simp [Col.repeat_, Col.abs, KOut.map]
        | bool x => cases cb <;> simp [Col.repeat_, Col.abs, KOut.map]
        | int w x => cases cb <;> simp [Col.repeat_, Col.abs, KOut.map]
      | err =>
        simp only [List.append_eq_nil_iff] at ht
        have ea := ihs (by rw [ha]; exact ht.1)
        have eb := ihk (by rw [hb]; exact ht.2)
        rw [ha] at ea; rw [hb] at eb
        simp only [KOut.map] at ea eb
        rw [← ea, ← eb]; rfl
      | panic =>
        simp only [List.append_eq_nil_iff] at ht
        have ea := ihs (by rw [ha]; exact ht.1)
        have eb := ihk (by rw [hb]; exact ht.2)
        rw [ha] at ea; rw [hb] at eb
        simp only [KOut.map] at ea eb
        rw [← ea, ← eb]; rfl
    | err =>
      have ea := ihs (by rw [ha]; exact ht)
      rw [ha] at ea; simp only [KOut.map] at ea
      rw [← ea]; rfl
    | panic =>
      have ea := ihs (by rw [ha]; exact ht)
      rw [ha] at ea; simp only [KOut.map] at ea
      rw [← ea]; rfl
  | ite cnd t e ihc iht ihe =>
    intro ht
    simp only [evalK] at ht ⊢
    simp only [specEval]
    rcases h1 : evalK chunk n cnd with ⟨r1, t1⟩
    try rw [h1] at ht
    try rw [h1]
    cases r1 with
    | ok c1 =>
      rcases h2 : evalK chunk n t with ⟨r2, t2⟩
      try rw [h2] at ht
      try rw [h2]
      cases r2 with
      | ok c2 =>
        rcases h3 : evalK chunk n e with ⟨r3, t3⟩
        try rw [h3] at ht
        try rw [h3]
        cases r3 with
        | ok c3 =>
          simp only [List.append_nil, List.append_eq_nil_iff] at ht
          obtain ⟨⟨ht1, ht2⟩, ht3⟩ := ht
          have e1 := ihc (by rw [h1]; exact ht1)
          have e2 := iht (by rw [h2]; exact ht2)
          have e3 := ihe (by rw [h3]; exact ht3)
          rw [h1] at e1; rw [h2] at e2; rw [h3] at e3
          simp only [KOut.map] at e1 e2 e3
          have l1 := evalK_len chunk n hwf cnd c1 (by rw [h1])
          have l2 := evalK_len chunk n hwf t c2 (by rw [h2])
          have l3 := evalK_len chunk n hwf e c3 (by rw [h3])
          rw [← e1, ← e2, ← e3]
          simp only
          exact ite_col_abs c1 c2 c3 (l1.trans l2.symm) (l2.trans l3.symm)
        | err =>
          simp only [List.append_eq_nil_iff] at ht
          have e1 := ihc (by rw [h1]; exact ht.1.1)
          have e2 := iht (by rw [h2]; exact ht.1.2)
          have e3 := ihe (by rw [h3]; exact ht.2)
          rw [h1] at e1; rw [h2] at e2; rw [h3] at e3
          simp only [KOut.map] at e1 e2 e3
          rw [← e1, ← e2, ← e3]; rfl
        | panic =>
          simp only [List.append_eq_nil_iff] at ht
          have e1 := ihc (by rw [h1]; exact ht.1.1)
          have e2 := iht (by rw [h2]; exact ht.1.2)
          have e3 := ihe (by rw [h3]; exact ht.2)
          rw [h1] at e1; rw [h2] at e2; rw [h3] at e3
          simp only [KOut.map] at e1 e2 e3
          rw [← e1, ← e2, ← e3]; rfl
      | err =>
        simp only [List.append_eq_nil_iff] at ht
        have e1 := ihc (by rw [h1]; exact ht.1)
        have e2 := iht (by rw [h2]; exact ht.2)
        rw [h1] at e1; rw [h2] at e2
        simp only [KOut.map] at e1 e2
        rw [← e1, ← e2]; rfl
      | panic =>
        simp only [List.append_eq_nil_iff] at ht
        have e1 := ihc (by rw [h1]; exact ht.1)
        have e2 := iht (by rw [h2]; exact ht.2)
        rw [h1] at e1; rw [h2] at e2
        simp only [KOut.map] at e1 e2
        rw [← e1, ← e2]; rfl
    | err =>
      have e1 := ihc (by rw [h1]; exact ht)
      rw [h1] at e1; simp only [KOut.map] at e1
      rw [← e1]; rfl
    | panic =>
      have e1 := ihc (by rw [h1]; exact ht)
      rw [h1] at e1; simp only [KOut.map] at e1
      rw [← e1]; rfl
  | substring s b c0 ihs ihb ihc =>
    intro ht
    simp only [evalK] at ht ⊢
    simp only [specEval]
    rcases h1 : evalK chunk n s with ⟨r1, t1⟩
    try rw [h1] at ht
    try rw [h1]
    cases r1 with
    | ok c1 =>
      rcases h2 : evalK chunk n b with ⟨r2, t2⟩
      try rw [h2] at ht
      try rw [h2]
      cases r2 with
      | ok c2 =>
        rcases h3 : evalK chunk n c0 with ⟨r3, t3⟩
        try rw [h3] at ht
        try rw [h3]
        cases r3 with
        | ok c3 =>
          simp only [List.append_nil, List.append_eq_nil_iff] at ht
          obtain ⟨⟨ht1, ht2⟩, ht3⟩ := ht
          have e1 := ihs (by rw [h1]; exact ht1)
          have e2 := ihb (by rw [h2]; exact ht2)
          have e3 := ihc (by rw [h3]; exact ht3)
          rw [h1] at e1; rw [h2] at e2; rw [h3] at e3
          simp only [KOut.map] at e1 e2 e3
          have l1 := evalK_len chunk n hwf s c1 (by rw [h1])
          have l2 := evalK_len chunk n hwf b c2 (by rw [h2])
          have l3 := evalK_len chunk n hwf c0 c3 (by rw [h3])
          rw [← e1, ← e2, ← e3]
          simp only
          cases c1 with
          | str x =>
            cases c2 with
            | int w1 y =>
              cases c3 with
              | int w2 z =>
                cases w1 <;> cases w2 <;> first
                  | (simp only [Col.substring, Col.abs, KOut.map]
                     rw [substring_abs])
                  | (simp [Col.substring, Col.abs, KOut.map])
              | null k => cases w1 <;> simp [Col.substring, Col.abs, KOut.map]
              | bool z => cases w1 <;> simp [Col.substring, Col.abs, KOut.map]
              | str z => cases w1 <;> simp [Col.substring, Col.abs, KOut.map]
            | null k => cases c3 <;> simp [Col.substring, Col.abs, KOut.map]
            | bool y => cases c3 <;> simp [Col.substring, Col.abs, KOut.map]
            | str y => cases c3 <;> simp [Col.substring, Col.abs, KOut.map]
          | null k => cases c2 <;> cases c3 <;> simp [Col.substring, Col.abs, KOut.map]
          | bool x => cases c2 <;> cases c3 <;> simp [Col.substring, Col.abs, KOut.map]
          | int w x => cases c2 <;> cases c3 <;> simp [Col.substring, Col.abs, KOut.map]
        | err =>
          simp only [List.append_eq_nil_iff] at ht
          have e1 := ihs (by rw [h1]; exact ht.1.1)
          have e2 := ihb (by rw [h2]; exact ht.1.2)
          have e3 := ihc (by rw [h3]; exact ht.2)
          rw [h1] at e1; rw [h2] at e2; rw [h3] at e3
          simp only [KOut.map] at e1 e2 e3
          rw [← e1, ← e2, ← e3]; rfl
        | panic =>
          simp only [List.append_eq_nil_iff] at ht
          have e1 := ihs (by rw [h1]; exact ht.1.1)
          have e2 := ihb (by rw [h2]; exact ht.1.2)
          have e3 := ihc (by rw [h3]; exact ht.2)
          rw [h1] at e1; rw [h2] at e2; rw [h3] at e3
          simp only [KOut.map] at e1 e2 e3
          rw [← e1, ← e2, ← e3]; rfl
      | err =>
        simp only [List.append_eq_nil_iff] at ht
        have e1 := ihs (by rw [h1]; exact ht.1)
        have e2 := ihb (by rw [h2]; exact ht.2)
        rw [h1] at e1; rw [h2] at e2
        simp only [KOut.map] at e1 e2
        rw [← e1, ← e2]; rfl
      | panic =>
        simp only [List.append_eq_nil_iff] at ht
        have e1 := ihs (by rw [h1]; exact ht.1)
        have e2 := ihb (by rw [h2]; exact ht.2)
        rw [h1] at e1; rw [h2] at e2
        simp only [KOut.map] at e1 e2
        rw [← e1, ← e2]; rfl
    | err =>
      have e1 := ihs (by rw [h1]; exact ht)
      rw [h1] at e1; simp only [KOut.map] at e1
      rw [← e1]; rfl
    | panic =>
      have e1 := ihs (by rw [h1]; exact ht)
      rw [h1] at e1; simp only [KOut.map] at e1
      rw [← e1]; rfl

/-! ## LIKE -/

/-- Since /repo 26c93c7 (operands of type NULL have kernel arms) no node of the evaluator model
raises a reason tag any more: every forced hypothesis has been discharged by a repair. -/
theorem evalK_no_tags (chunk : List Col) (n : Nat) (e : KExpr) : (evalK chunk n e).2 = [] := by
  induction e <;> simp only [evalK] <;> (repeat' split) <;> simp_all

/-- `eval_tree_pointwise` without side condition: on a well-formed chunk every expression tree — NULL
constants as operands included — denotes, row by row, its SQL value (or the same error class). -/
theorem eval_tree_pointwise_total (chunk : List Col) (n : Nat) (hwf : ChunkWF chunk n) (e : KExpr) :
    (evalK chunk n e).1.map Col.abs = specEval (chunk.map Col.abs) n e :=
  eval_tree_pointwise chunk n hwf e (evalK_no_tags chunk n e)

/-- CASE with several WHEN branches: the nested `if`s (first WHEN outermost) give, on every row, the
result of the FIRST branch whose condition is TRUE. -/
theorem case_first_true_wins {α} (bs : List (Option Bool × Option α)) (el : Option α) :
    caseS bs el = firstTrue bs el := by
  induction bs with
  | nil => rfl
  | cons b rest ih =>
    obtain ⟨c, r⟩ := b
    simp only [caseS, firstTrue, ih]
    cases c with
    | none => simp [specSelect]
    | some v => cases v <;> simp [specSelect]

/-- `specEval` of the desugaring is the row-wise CASE of the first branch over the rest. -/
theorem specEval_caseOf_cons (chunk : List SCol) (n : Nat) (c r : KExpr) (rest : List (KExpr × KExpr))
    (el : KExpr) :
    specEval chunk n (caseOf ((c, r) :: rest) el) = specEval chunk n (.ite c r (caseOf rest el)) := rfl

/-- K for LIKE — holds in full since /repo 1ee6bdb (`like_to_regex` escapes literal characters and
sets `(?s)`): SQL LIKE on every non-NULL row, NULL on NULL rows, for every pattern; no pattern
makes the kernel fail. -/
theorem like_pointwise (p : String) (a : Arr String) :
    (Col.like p (.str a)).map Col.abs
      = .ok (.bool ((vals a).map (Option.map fun s => likeSpec p s))) := like_abs p a

/-- Regressions (the former witnesses): `.` is a literal, `_` matches a line feed, `(` is legal. -/
theorem like_regression :
    likeImpl "a.c" "abc" = false ∧ likeImpl "a_b" "a\nb" = true ∧
    (likeK "a(" [⟨true, "a("⟩]).map vals = .ok [some true] := by
  refine ⟨?_, ?_, ?_⟩ <;>
    simp [likeK, likeImpl, likeImplToks, matchT, clearNull, vals, Slot.val, KOut.map]

/-! ## Constant folding -/

/-- Regression (was the witness of `fold_eq_eval_unsound`): `(1/0 = 1) OR true` folds to TRUE. -/
theorem fold_regression :
    foldC (.or (.cmp .eq (.arith .div (.const (.int .w32 1)) (.const (.int .w32 0))) (.const (.int .w32 1)))
      (.const (.bool true))) = .ok (some (.bool true)) := by decide

/-- Folding a division by a zero constant gives NULL, as the run-time kernel does. -/
example : foldC (.arith .div (.const (.int .w32 1)) (.const (.int .w32 0))) = .ok (some .null) := by
  decide

/-- `x % 0` folds to NULL (since /repo f444b3f); an overflowing constant panics inside the
analysis, i.e. while planning. -/
theorem fold_rem_zero_is_null :
    foldC (.arith .rem (.const (.int .w32 1)) (.const (.int .w32 0))) = .ok (some .null) := by decide

theorem fold_overflow_unknown :
    foldC (.arith .add (.const (.int .w32 2147483647)) (.const (.int .w32 1))) = .ok none := by decide

/-- An out-of-range cast is not folded (`a.cast(ty).ok()`): the error surfaces at run time. -/
theorem fold_cast_out_of_range_unknown :
    foldC (.cast (.int .w16) (.const (.int .w32 70000))) = .ok none ∧
    (evalK [] 1 (.cast (.int .w16) (.const (.int .w32 70000)))).1 = .err := by decide


theorem isNull_eq (v : KVal) (h : v.isNull = true) : v = .null := by cases v <;> simp_all [KVal.isNull]

/-- A one-row column whose value is the non-NULL constant `v` IS the constant's array. -/
theorem const_of_get0 (c : Col) (v : KVal) (hl : c.len = 1) (hg : c.get0 = v)
    (hn : v.isNull = false) : c = constCol v 1 := by
  cases c with
  | null n => simp [Col.get0] at hg; subst hg; simp [KVal.isNull] at hn
  | bool a =>
    match a, hl with
    | [s], _ =>
      rcases s with ⟨sv, sr⟩
      cases sv <;> simp [Col.get0] at hg <;> subst hg
      · simp [KVal.isNull] at hn
      · simp [constCol]
  | int w a =>
    match a, hl with
    | [s], _ =>
      rcases s with ⟨sv, sr⟩
      cases sv <;> simp [Col.get0] at hg <;> subst hg
      · simp [KVal.isNull] at hn
      · simp [constCol]
  | str a =>
    match a, hl with
    | [s], _ =>
      rcases s with ⟨sv, sr⟩
      cases sv <;> simp [Col.get0] at hg <;> subst hg
      · simp [KVal.isNull] at hn
      · simp [constCol]

theorem foldBin_sound (K : Col → Col → KOut Col) (fa fb : KOut (Option KVal)) (ca cb c : Col)
    (v : KVal) (ha : ∀ va, fa = .ok (some va) → ca.get0 = va)
    (hb : ∀ vb, fb = .ok (some vb) → cb.get0 = vb) (la : ca.len = 1) (lb : cb.len = 1)
    (sc : KVal → KVal → KVal)
    (hstrict : ∀ va vb, fa = .ok (some va) → fb = .ok (some vb) →
      (va.isNull || vb.isNull) = true → c.get0 = sc va vb)
    (hf : foldBin fa fb K sc = .ok (some v)) (hk : K ca cb = .ok c) : c.get0 = v := by
  unfold foldBin at hf
  cases fa with
  | ok oa =>
    cases fb with
    | ok ob =>
      cases oa with
      | some va =>
        cases ob with
        | some vb =>
          simp only at hf
          by_cases hn : (va.isNull || vb.isNull) = true
          · simp only [hn, if_true] at hf
            cases hf
            exact hstrict va vb rfl rfl hn
          · simp only [hn, if_false] at hf
            simp only [Bool.or_eq_true, not_or, Bool.not_eq_true] at hn
            have e1 := const_of_get0 ca va la (ha va rfl) hn.1
            have e2 := const_of_get0 cb vb lb (hb vb rfl) hn.2
            rw [← e1, ← e2, hk] at hf
            simp only at hf
            cases hf; rfl
        | none => simp at hf
      | none => simp at hf
    | err => simp at hf
    | panic => simp at hf
  | err => simp at hf
  | panic => simp at hf

theorem foldUn_sound (K : Col → KOut Col) (fa : KOut (Option KVal)) (ca c : Col) (v : KVal)
    (ha : ∀ va, fa = .ok (some va) → ca.get0 = va) (la : ca.len = 1)
    (hstrict : ca.get0 = .null → c.get0 = .null)
    (hf : foldUn fa K = .ok (some v)) (hk : K ca = .ok c) : c.get0 = v := by
  unfold foldUn at hf
  cases fa with
  | ok oa =>
    cases oa with
    | some va =>
      simp only at hf
      by_cases hn : va.isNull = true
      · simp only [hn, if_true] at hf
        cases hf
        exact hstrict (by rw [ha va rfl]; exact isNull_eq va hn)
      · simp only [hn, if_false] at hf
        have e1 := const_of_get0 ca va la (ha va rfl) (by simpa using hn)
        rw [← e1, hk] at hf
        simp only at hf
        cases hf; rfl
    | none => simp at hf
  | err => simp at hf
  | panic => simp at hf

/-! ### `fold_eq_eval` -/

theorem binaryOp_invalid {α β γ} (f : α → β → KOut γ) (a : Arr α) (b : Arr β) (c : Arr γ)
    (h : ∀ p ∈ List.zip a b, (p.1.valid && p.2.valid) = false) (hk : binaryOp f a b = .ok c) :
    ∀ s ∈ c, s.valid = false := by
  have hl := (binaryOp_length f a b c hk).2
  rw [binaryOp_eq_zipSlotM f a b hl] at hk
  apply zipSlotM_forall _ (fun s => s.valid = false) a b c _ hk
  intro p hp r hr
  simp only [binSlot] at hr
  cases hf : f p.1.raw p.2.raw <;> simp [hf, KOut.map] at hr
  subst hr
  exact h p hp

/-- value of a one-row column all of whose slots are invalid -/
theorem get0_invalid_int (w : IW) (c : Arr Int) (h : ∀ s ∈ c, s.valid = false) :
    (Col.int w c).get0 = .null := by
  cases c with
  | nil => rfl
  | cons s ss => simp [Col.get0, h s (by simp)]

theorem get0_invalid_bool (c : Arr Bool) (h : ∀ s ∈ c, s.valid = false) :
    (Col.bool c).get0 = .null := by
  cases c with
  | nil => rfl
  | cons s ss => simp [Col.get0, h s (by simp)]

theorem get0_invalid_str (c : Arr String) (h : ∀ s ∈ c, s.valid = false) :
    (Col.str c).get0 = .null := by
  cases c with
  | nil => rfl
  | cons s ss => simp [Col.get0, h s (by simp)]

theorem one_row_null_int (w : IW) (a : Arr Int) (hl : (Col.int w a).len = 1)
    (hg : (Col.int w a).get0 = .null) : ∀ s ∈ a, s.valid = false := by
  match a, hl with
  | [s], _ =>
    intro t ht
    simp at ht; subst ht
    rcases t with ⟨v, r⟩
    cases v <;> simp_all [Col.get0]

theorem arith_strict (op : ArithOp) (ca cb c : Col) (la : ca.len = 1) (lb : cb.len = 1)
    (hn : ca.get0 = .null ∨ cb.get0 = .null) (hk : Col.arith op ca cb = .ok c) :
    c.get0 = .null := by
  rcases arith_inv op ca cb c hk with ⟨wa, a, wb, b, r, rfl, rfl, hr, rfl⟩ | ⟨k, _, rfl⟩ | ⟨k, _, rfl⟩
  · match a, b, la, lb with
    | [s], [t], _, _ =>
      unfold arithK tryBinaryOp at hr
      rcases hn with hn | hn
      · have hv := one_row_null_int wa [s] rfl hn s (by simp)
        cases hd : op.safens <;>
          simp [hd, safenDividend, zipSlotM, trySlot, hv] at hr <;> (subst hr; simp [Col.get0])
      · have hv := one_row_null_int wb [t] rfl hn t (by simp)
        cases hd : op.safens <;>
          simp [hd, safenDividend, zipSlotM, trySlot, hv] at hr <;> (subst hr; simp [Col.get0])
  · rfl
  · rfl

theorem one_row_null_bool (a : Arr Bool) (hl : (Col.bool a).len = 1)
    (hg : (Col.bool a).get0 = .null) : ∀ s ∈ a, s.valid = false := by
  match a, hl with
  | [s], _ =>
    intro t ht
    simp at ht; subst ht
    rcases t with ⟨v, r⟩
    cases v <;> simp_all [Col.get0]

theorem one_row_null_str (a : Arr String) (hl : (Col.str a).len = 1)
    (hg : (Col.str a).get0 = .null) : ∀ s ∈ a, s.valid = false := by
  match a, hl with
  | [s], _ =>
    intro t ht
    simp at ht; subst ht
    rcases t with ⟨v, r⟩
    cases v <;> simp_all [Col.get0]

theorem cmpK_invalid {α} (f : α → α → Bool) (a b : Arr α) (c : Arr Bool)
    (h : (∀ s ∈ a, s.valid = false) ∨ (∀ s ∈ b, s.valid = false)) (hk : cmpK f a b = .ok c) :
    ∀ s ∈ c, s.valid = false := by
  unfold cmpK at hk
  cases hb : binaryOp (fun x y => KOut.ok (f x y)) a b <;> simp [hb, KOut.map] at hk
  subst hk
  rename_i r
  have := binaryOp_invalid _ a b r (by
    intro p hp
    rcases h with h | h
    · simp [h p.1 (List.of_mem_zip hp).1]
    · simp [h p.2 (List.of_mem_zip hp).2]) hb
  intro s hs
  simp only [clearNull, List.mem_map] at hs
  obtain ⟨t, ht, rfl⟩ := hs
  exact this t ht

theorem get0_replicate_null (n : Nat) :
    (Col.bool (List.replicate n (⟨false, false⟩ : Slot Bool))).get0 = .null := by
  cases n <;> simp [Col.get0, List.replicate]

theorem cmp_strict (op : CmpOp) (ca cb c : Col) (la : ca.len = 1) (lb : cb.len = 1)
    (hn : ca.get0 = .null ∨ cb.get0 = .null) (hk : Col.cmp op ca cb = .ok c) :
    c.get0 = .null := by
  cases ca with
  | null k => cases cb <;> (simp only [Col.cmp] at hk; cases hk; exact get0_replicate_null _)
  | bool a =>
    cases cb with
    | bool b =>
      simp only [Col.cmp] at hk
      cases hr : cmpK (fun x y => op.onOrd (boolOrd x y)) a b <;> simp [hr, KOut.map] at hk
      subst hk
      apply get0_invalid_bool
      apply cmpK_invalid _ a b _ _ hr
      rcases hn with hn | hn
      · exact Or.inl (one_row_null_bool a la hn)
      · exact Or.inr (one_row_null_bool b lb hn)
    | null k => simp only [Col.cmp] at hk; cases hk; exact get0_replicate_null _
    | int w b => simp [Col.cmp] at hk
    | str b => simp [Col.cmp] at hk
  | int wa a =>
    cases cb with
    | int wb b =>
      simp only [Col.cmp] at hk
      cases hr : cmpK op.onInt a b <;> simp [hr, KOut.map] at hk
      subst hk
      apply get0_invalid_bool
      apply cmpK_invalid _ a b _ _ hr
      rcases hn with hn | hn
      · exact Or.inl (one_row_null_int wa a la hn)
      · exact Or.inr (one_row_null_int wb b lb hn)
    | null k => simp only [Col.cmp] at hk; cases hk; exact get0_replicate_null _
    | bool b => simp [Col.cmp] at hk
    | str b => simp [Col.cmp] at hk
  | str a =>
    cases cb with
    | str b =>
      simp only [Col.cmp] at hk
      cases hr : cmpK (fun x y => op.onOrd (strOrd x y)) a b <;> simp [hr, KOut.map] at hk
      subst hk
      apply get0_invalid_bool
      apply cmpK_invalid _ a b _ _ hr
      rcases hn with hn | hn
      · exact Or.inl (one_row_null_str a la hn)
      · exact Or.inr (one_row_null_str b lb hn)
    | null k => simp only [Col.cmp] at hk; cases hk; exact get0_replicate_null _
    | bool b => simp [Col.cmp] at hk
    | int w b => simp [Col.cmp] at hk

theorem concat_strict (ca cb c : Col) (la : ca.len = 1) (lb : cb.len = 1)
    (hn : ca.get0 = .null ∨ cb.get0 = .null) (hk : Col.concat ca cb = .ok c) :
    c.get0 = .null := by
  cases ca <;> cases cb <;> simp only [Col.concat] at hk <;> try (cases hk)
  rename_i a b
  cases hr : binaryOp (fun x y => KOut.ok (x ++ y)) a b <;> simp only [hr] at hk <;> cases hk
  apply get0_invalid_str
  apply binaryOp_invalid _ a b _ _ hr
  intro p hp
  rcases hn with hn | hn
  · simp [one_row_null_str a la hn p.1 (List.of_mem_zip hp).1]
  · simp [one_row_null_str b lb hn p.2 (List.of_mem_zip hp).2]

theorem not_strict (ca c : Col) (la : ca.len = 1) (hn : ca.get0 = .null)
    (hk : Col.not ca = .ok c) : c.get0 = .null := by
  cases ca <;> simp [Col.not] at hk
  rename_i a
  subst hk
  apply get0_invalid_bool
  intro s hs
  simp only [notK, clearNull, List.mem_map] at hs
  obtain ⟨t, ⟨u, hu, rfl⟩, rfl⟩ := hs
  exact one_row_null_bool a la hn u hu

theorem neg_strict (ca c : Col) (la : ca.len = 1) (hn : ca.get0 = .null)
    (hk : Col.neg ca = .ok c) : c.get0 = .null := by
  cases ca with
  | int w a =>
    have hinv := one_row_null_int w a la hn
    match a, la with
    | [s], _ =>
      have hs := hinv s (by simp)
      simp [Col.neg, tryUnaryOp, hs] at hk
      subst hk; simp [Col.get0]
  | null k => simp [Col.neg] at hk; subst hk; rfl
  | bool x => simp [Col.neg] at hk
  | str x => simp [Col.neg] at hk


/-- A one-row operand of AND / OR seen as a Boolean array: same length, same value. -/
theorem asBoolArr_one (c : Col) (a : Arr Bool) (h : c.asBoolArr = some a) (l : c.len = 1) :
    a.length = 1 ∧ (Col.bool a).get0 = c.get0 := by
  cases c with
  | bool x => simp [Col.asBoolArr] at h; subst h; exact ⟨l, rfl⟩
  | null k =>
    simp [Col.asBoolArr] at h; subst h
    simp [Col.len] at l; subst l
    simp [Col.get0, List.replicate]
  | int w x => simp [Col.asBoolArr] at h
  | str x => simp [Col.asBoolArr] at h

theorem and_fold_value (ca cb c : Col) (la : ca.len = 1) (lb : cb.len = 1)
    (hn : ca.get0 = .null ∨ cb.get0 = .null) (hk : Col.and ca cb = .ok c) :
    c.get0 = logicShortcut true ca.get0 cb.get0 := by
  obtain ⟨a, b, r, ha, hb, hr, rfl⟩ := and_inv ca cb c hk
  obtain ⟨la', ga⟩ := asBoolArr_one ca a ha la
  obtain ⟨lb', gb⟩ := asBoolArr_one cb b hb lb
  rw [← ga, ← gb] at hn ⊢
  clear ga gb ha hb hk la lb
  match a, b, la', lb' with
  | [s], [t], _, _ =>
    rw [andK_eq] at hr
    simp [zipSlotM, KOut.map] at hr
    subst hr
    rcases s with ⟨sv, sr⟩
    rcases t with ⟨tv, tr⟩
    cases sv <;> cases sr <;> cases tv <;> cases tr <;>
      simp_all [Col.get0, andSlot, logicShortcut]

theorem or_fold_value (ca cb c : Col) (la : ca.len = 1) (lb : cb.len = 1)
    (hn : ca.get0 = .null ∨ cb.get0 = .null) (hk : Col.or ca cb = .ok c) :
    c.get0 = logicShortcut false ca.get0 cb.get0 := by
  obtain ⟨a, b, r, ha, hb, hr, rfl⟩ := or_inv ca cb c hk
  obtain ⟨la', ga⟩ := asBoolArr_one ca a ha la
  obtain ⟨lb', gb⟩ := asBoolArr_one cb b hb lb
  rw [← ga, ← gb] at hn ⊢
  clear ga gb ha hb hk la lb
  match a, b, la', lb' with
  | [s], [t], _, _ =>
    rw [orK_eq] at hr
    simp [zipSlotM, KOut.map] at hr
    subst hr
    rcases s with ⟨sv, sr⟩
    rcases t with ⟨tv, tr⟩
    cases sv <;> cases sr <;> cases tv <;> cases tr <;>
      simp_all [Col.get0, orSlot, logicShortcut]

/-- `fold_eq_eval` — holds in full since /repo 543c949 (AND / OR fold with three-valued logic):
whenever `eval_constant` folds an expression to `v` and the evaluator computes a value for the same
expression, that value is `v`. -/
theorem fold_eq_eval (e : KExpr) : ∀ (v : KVal) (c : Col),
    foldC e = .ok (some v) → (evalK [] 1 e).1 = .ok c → c.get0 = v := by
  have wf : ChunkWF [] 1 := fun c hc => by cases hc
  induction e with
  | col i => intro v c hf _; simp [foldC] at hf
  | const k =>
    intro v c hf he
    simp only [foldC] at hf
    simp only [evalK] at he
    cases hf; cases he
    cases k <;> simp [constCol, Col.get0]
  | arith op a b iha ihb =>
    intro v c hf he
    simp only [foldC] at hf
    simp only [evalK] at he
    rcases ha : evalK [] 1 a with ⟨ra, ta⟩
    try rw [ha] at he
    cases ra with
    | ok ca =>
      rcases hb : evalK [] 1 b with ⟨rb, tb⟩
      try rw [hb] at he
      cases rb with
      | ok cb =>
        simp only at he
        have la := evalK_len [] 1 wf a ca (by rw [ha])
        have lb := evalK_len [] 1 wf b cb (by rw [hb])
        exact foldBin_sound (Col.arith op) (foldC a) (foldC b) ca cb c v
          (fun va h => iha va ca h (by rw [ha])) (fun vb h => ihb vb cb h (by rw [hb])) la lb
          (fun _ _ => .null)
          (fun va vb h1 h2 hn => arith_strict op ca cb c la lb
            (((Bool.or_eq_true _ _).mp hn).imp
              (fun h => by rw [iha va ca h1 (by rw [ha]), isNull_eq va h])
              (fun h => by rw [ihb vb cb h2 (by rw [hb]), isNull_eq vb h])) he) hf he
      | err => simp at he
      | panic => simp at he
    | err => simp at he
    | panic => simp at he
  | cmp op a b iha ihb =>
    intro v c hf he
    simp only [foldC] at hf
    simp only [evalK] at he
    rcases ha : evalK [] 1 a with ⟨ra, ta⟩
    try rw [ha] at he
    cases ra with
    | ok ca =>
      rcases hb : evalK [] 1 b with ⟨rb, tb⟩
      try rw [hb] at he
      cases rb with
      | ok cb =>
        simp only at he
        have la := evalK_len [] 1 wf a ca (by rw [ha])
        have lb := evalK_len [] 1 wf b cb (by rw [hb])
        exact foldBin_sound (Col.cmp op) (foldC a) (foldC b) ca cb c v
          (fun va h => iha va ca h (by rw [ha])) (fun vb h => ihb vb cb h (by rw [hb])) la lb
          (fun _ _ => .null)
          (fun va vb h1 h2 hn => cmp_strict op ca cb c la lb
            (((Bool.or_eq_true _ _).mp hn).imp
              (fun h => by rw [iha va ca h1 (by rw [ha]), isNull_eq va h])
              (fun h => by rw [ihb vb cb h2 (by rw [hb]), isNull_eq vb h])) he) hf he
      | err => simp at he
      | panic => simp at he
    | err => simp at he
    | panic => simp at he
  | and a b iha ihb =>
    intro v c hf he
    simp only [foldC] at hf
    simp only [evalK] at he
    rcases ha : evalK [] 1 a with ⟨ra, ta⟩
    try rw [ha] at he
    cases ra with
    | ok ca =>
      rcases hb : evalK [] 1 b with ⟨rb, tb⟩
      try rw [hb] at he
      cases rb with
      | ok cb =>
        simp only at he
        have la := evalK_len [] 1 wf a ca (by rw [ha])
        have lb := evalK_len [] 1 wf b cb (by rw [hb])
        exact foldBin_sound (Col.and) (foldC a) (foldC b) ca cb c v
          (fun va h => iha va ca h (by rw [ha])) (fun vb h => ihb vb cb h (by rw [hb])) la lb
          (logicShortcut true)
          (fun va vb h1 h2 hn => by
            have e1 := iha va ca h1 (by rw [ha])
            have e2 := ihb vb cb h2 (by rw [hb])
            rw [← e1, ← e2]
            exact and_fold_value ca cb c la lb
              (((Bool.or_eq_true _ _).mp hn).imp
                (fun h => by rw [e1, isNull_eq va h]) (fun h => by rw [e2, isNull_eq vb h])) he) hf he
      | err => simp at he
      | panic => simp at he
    | err => simp at he
    | panic => simp at he
  | or a b iha ihb =>
    intro v c hf he
    simp only [foldC] at hf
    simp only [evalK] at he
    rcases ha : evalK [] 1 a with ⟨ra, ta⟩
    try rw [ha] at he
    cases ra with
    | ok ca =>
      rcases hb : evalK [] 1 b with ⟨rb, tb⟩
      try rw [hb] at he
      cases rb with
      | ok cb =>
        simp only at he
        have la := evalK_len [] 1 wf a ca (by rw [ha])
        have lb := evalK_len [] 1 wf b cb (by rw [hb])
        exact foldBin_sound (Col.or) (foldC a) (foldC b) ca cb c v
          (fun va h => iha va ca h (by rw [ha])) (fun vb h => ihb vb cb h (by rw [hb])) la lb
          (logicShortcut false)
          (fun va vb h1 h2 hn => by
            have e1 := iha va ca h1 (by rw [ha])
            have e2 := ihb vb cb h2 (by rw [hb])
            rw [← e1, ← e2]
            exact or_fold_value ca cb c la lb
              (((Bool.or_eq_true _ _).mp hn).imp
                (fun h => by rw [e1, isNull_eq va h]) (fun h => by rw [e2, isNull_eq vb h])) he) hf he
      | err => simp at he
      | panic => simp at he
    | err => simp at he
    | panic => simp at he
  | concat a b iha ihb =>
    intro v c hf he
    simp only [foldC] at hf
    simp only [evalK] at he
    rcases ha : evalK [] 1 a with ⟨ra, ta⟩
    try rw [ha] at he
    cases ra with
    | ok ca =>
      rcases hb : evalK [] 1 b with ⟨rb, tb⟩
      try rw [hb] at he
      cases rb with
      | ok cb =>
        simp only at he
        have la := evalK_len [] 1 wf a ca (by rw [ha])
        have lb := evalK_len [] 1 wf b cb (by rw [hb])
        exact foldBin_sound (Col.concat) (foldC a) (foldC b) ca cb c v
          (fun va h => iha va ca h (by rw [ha])) (fun vb h => ihb vb cb h (by rw [hb])) la lb
          (fun _ _ => .null)
          (fun va vb h1 h2 hn => concat_strict ca cb c la lb
            (((Bool.or_eq_true _ _).mp hn).imp
              (fun h => by rw [iha va ca h1 (by rw [ha]), isNull_eq va h])
              (fun h => by rw [ihb vb cb h2 (by rw [hb]), isNull_eq vb h])) he) hf he
      | err => simp at he
      | panic => simp at he
    | err => simp at he
    | panic => simp at he
  | neg a iha =>
    intro v c hf he
    simp only [foldC] at hf
    simp only [evalK] at he
    rcases ha : evalK [] 1 a with ⟨ra, ta⟩
    try rw [ha] at he
    cases ra with
    | ok ca =>
      simp only at he
      have la := evalK_len [] 1 wf a ca (by rw [ha])
      exact foldUn_sound (Col.neg) (foldC a) ca c v (fun va h => iha va ca h (by rw [ha])) la
        (fun hn => neg_strict ca c la hn he) hf he
    | err => simp at he
    | panic => simp at he
  | not a iha =>
    intro v c hf he
    simp only [foldC] at hf
    simp only [evalK] at he
    rcases ha : evalK [] 1 a with ⟨ra, ta⟩
    try rw [ha] at he
    cases ra with
    | ok ca =>
      simp only at he
      have la := evalK_len [] 1 wf a ca (by rw [ha])
      exact foldUn_sound (Col.not) (foldC a) ca c v (fun va h => iha va ca h (by rw [ha])) la
        (fun hn => not_strict ca c la hn he) hf he
    | err => simp at he
    | panic => simp at he
  | isnull a iha =>
    intro v c hf he
    simp only [foldC] at hf
    simp only [evalK] at he
    rcases ha : evalK [] 1 a with ⟨ra, ta⟩
    try rw [ha] at he
    cases ra with
    | ok ca =>
      simp only at he
      cases he
      have la := evalK_len [] 1 wf a ca (by rw [ha])
      cases hfa : foldC a with
      | ok oa =>
        cases oa with
        | some va =>
          rw [hfa] at hf
          simp only at hf
          cases hf
          have hg := iha va ca hfa (by rw [ha])
          subst hg
          cases ca with
          | null k => match k, la with | 1, _ => rfl
          | bool x => match x, la with | [s], _ => rcases s with ⟨sv, sr⟩; cases sv <;> rfl
          | int w x => match x, la with | [s], _ => rcases s with ⟨sv, sr⟩; cases sv <;> rfl
          | str x => match x, la with | [s], _ => rcases s with ⟨sv, sr⟩; cases sv <;> rfl
        | none => rw [hfa] at hf; cases hf
      | err => rw [hfa] at hf; cases hf
      | panic => rw [hfa] at hf; cases hf
    | err => simp at he
    | panic => simp at he
  | cast t a iha =>
    intro v c hf he
    simp only [foldC] at hf
    simp only [evalK] at he
    rcases ha : evalK [] 1 a with ⟨ra, ta⟩
    try rw [ha] at he
    cases ra with
    | ok ca =>
      simp only at he
      have la := evalK_len [] 1 wf a ca (by rw [ha])
      cases hfa : foldC a with
      | ok oa =>
        cases oa with
        | some va =>
          rw [hfa] at hf
          simp only at hf
          have hg := iha va ca hfa (by rw [ha])
          by_cases hn : va.isNull = true
          · have hv := isNull_eq va hn
            subst hv
            by_cases htn : t = .null
            · subst htn
              -- cast of a NULL-valued one-row column to type NULL
              cases ca with
              | null k =>
                simp [Col.cast, nullCol] at he; subst he
                simp [KVal.isNull, Col.cast, constCol, nullCol, Col.get0] at hf
                exact hf.symm ▸ rfl
              | bool x => simp [Col.cast] at he
              | int w x => simp [Col.cast] at he
              | str x => simp [Col.cast] at he
            · simp [KVal.isNull, htn] at hf
          · have hn' : va.isNull = false := by simpa using hn
            simp only [hn', Bool.false_and, Bool.false_eq_true, if_false] at hf
            have e1 := const_of_get0 ca va la hg hn'
            rw [← e1, he] at hf
            simp only at hf
            cases hf; rfl
        | none => rw [hfa] at hf; cases hf
      | err => rw [hfa] at hf; cases hf
      | panic => rw [hfa] at hf; cases hf
    | err => simp at he
    | panic => simp at he
  | ite cnd t e ihc iht ihe =>
    intro v c hf _
    simp only [foldC, foldNone] at hf
    split at hf <;> cases hf
  | like a p iha =>
    intro v c hf _
    simp only [foldC, foldNone] at hf
    split at hf <;> cases hf
  | substring s b c0 ihs ihb ihc =>
    intro v c hf _
    simp only [foldC, foldNone] at hf
    split at hf <;> cases hf
  | replace a f t iha =>
    intro v c hf _
    simp only [foldC, foldNone] at hf
    split at hf <;> cases hf
  | repeat_ s k ihs ihk =>
    intro v c hf _
    simp only [foldC, foldNone] at hf
    split at hf <;> cases hf

end RlModel
