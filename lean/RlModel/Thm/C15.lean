import RlModel.Lemmas.Stream
/-!
# C15 — a failing statement reports an error, never a partial answer

Property theorems over the L9 model (`Model/Stream.lean`).  Quantification is over *all* plans
(any tree of unary / binary operators with arbitrary loop bodies and state), all chunk lists, all
fault positions — induction over the plan, no bound.

Full statements are kept as `def … : Prop`; where the code that exists does not satisfy them the
negation is proved with a concrete witness (`…_unsound`) which the check replays on the
implementation, and the part that does hold is proved as `…_partial` / a characterisation.
-/
namespace RlModel
open Strm

/-- Number of armed faults. -/
def Strm.Plan.faults {α : Type} : Plan α → Nat
  | .leaf ft _ => if ft.isSome then 1 else 0
  | .unary ft _ c => (if ft.isSome then 1 else 0) + c.faults
  | .binary ft _ l r => (if ft.isSome then 1 else 0) + l.faults + r.faults
  | .mjoin ft _ _ l r => (if ft.isSome then 1 else 0) + l.faults + r.faults

/-- Some armed fault of kind `kd` fires: its node produces an item with that index. -/
def Strm.Plan.Fires {α : Type} (kd : FaultKind) : Plan α → Prop
  | .leaf ft out => ∃ k, ft = some ⟨k, kd⟩ ∧ k < out.items
  | .unary ft o c => (∃ k, ft = some ⟨k, kd⟩ ∧ k < (o.exec c.tr).items) ∨ c.Fires kd
  | .binary ft o l r => (∃ k, ft = some ⟨k, kd⟩ ∧ k < (o.exec l.tr r.tr).items) ∨ l.Fires kd ∨ r.Fires kd
  | .mjoin ft o fuel l r => (∃ k, ft = some ⟨k, kd⟩ ∧ k < (o.exec fuel l.tr r.tr).items) ∨ l.Fires kd ∨ r.Fires kd

/-! ## error faults -/

/-- FULL statement (property text): one `error` fault firing at any operator and item index makes
the statement return `Err`. -/
def ErrPropagatesFull : Prop :=
  ∀ (α : Type) (p : Plan α), p.faults = 1 → p.Fires .error → ∃ e, p.run = .error e

/-- Proved part: it does whenever every task between the fault and the root reads its input to
the end (everything but `limit`, which may stop before the failing chunk). -/
theorem err_propagates_partial {α : Type} (p : Plan α) (h : p.ErrHit) : ∃ e, p.run = .error e := by
  obtain ⟨e, he⟩ := Plan.errHit_fin p h
  exact ⟨e, (collect_error_iff _ _).mpr he⟩

/-- Witness against the full statement: `… LIMIT 1` over a two-chunk child whose *second* chunk
fails — the limit task has stopped reading, the statement returns the complete correct answer. -/
def errLimitWitness : Plan Ck :=
  .unary none (limitOp 1 1 0) (.leaf (some ⟨1, .error⟩) ⟨[⟨0, 0, 3, true⟩, ⟨0, 1, 2, true⟩], none⟩)

theorem err_propagates_unsound : ¬ ErrPropagatesFull := by
  intro h
  have h1 := h Ck errLimitWitness (by decide) (Or.inr ⟨1, rfl, by decide⟩)
  obtain ⟨e, he⟩ := h1
  have : errLimitWitness.run = .ok [⟨1, 0, 1, true⟩] := by rfl
  rw [this] at he
  cases he

/-- … and what happens instead is harmless: whatever faults are armed — errors **and panics**, any
number, anywhere — a statement that returns `Ok` returns exactly the fault-free rows. (Before the
repair of `Builder::spawn` this needed the hypothesis "no panic fault"; it is now the full
statement.) -/
theorem no_partial_ok {α : Type} (p : Plan α) (rows : List α)
    (hr : p.run = .ok rows) : p.clean.run = .ok rows := by
  have hrel := Plan.tr_rel p
  rw [Plan.run, collect_ok_iff] at hr
  rcases hrel with heq | ⟨hf, _⟩
  · rw [Plan.run, collect_ok_iff, ← heq]; exact hr
  · rw [hr.1] at hf; cases hf

/-! ## panic faults -/

/-- FULL statement: one `panic` fault firing anywhere makes the statement return `Err`. -/
def PanicPropagatesFull : Prop :=
  ∀ (α : Type) (p : Plan α), p.faults = 1 → p.Fires .panic → ∃ e, p.run = .error e

/-- Proved part (same as for errors): a panic that fires, with every task between it and the
root reading its input to the end, makes the statement return `Err`. -/
theorem panic_propagates_partial {α : Type} (p : Plan α) (h : p.ErrHit) : ∃ e, p.run = .error e :=
  err_propagates_partial p h

/-- REGRESSION (was `panic_reads_as_end_of_stream`: `run = Ok (first k chunks)`): a task that
panics at item `k` now ends its stream with `Err(operator panicked)`. -/
theorem panic_reported_regression {α : Type} (o : Op1 α) (c : Plan α) (k : Nat)
    (hk : k < (o.exec c.tr).items) :
    (Plan.unary (some ⟨k, .panic⟩) o c).run = .error 2 := by
  simp [Plan.run, Plan.tr, applyFault, hk, collect]

/-- `Ok` with rows different from the fault-free rows. -/
def partialOk (p : Plan Ck) : Bool :=
  match p.run, p.clean.run with
  | .ok a, .ok b => a != b
  | _, _ => false

private def src3 (ft : Option Fault) : Plan Ck :=
  .leaf ft ⟨[⟨0, 0, 3, true⟩, ⟨0, 1, 2, true⟩, ⟨0, 2, 1, true⟩], none⟩
private def src2 (ft : Option Fault) : Plan Ck :=
  .leaf ft ⟨[⟨1, 0, 2, true⟩, ⟨1, 1, 1, true⟩], none⟩

/-- One former witness per operator kind (each returned `Ok` with rows missing before the repair;
kept as regression inputs, the check replays the same shapes on the implementation). -/
def panicWitnesses : List (String × Plan Ck) := [
  ("scan",    src3 (some ⟨1, .panic⟩)),
  ("filter",  .unary (some ⟨1, .panic⟩) (streamOp 1 [2, 2, 1] none) (src3 none)),
  ("agg",     .unary (some ⟨0, .panic⟩) (blockOp 1 3 [1] false) (src3 none)),
  ("below-agg", .unary none (blockOp 1 3 [1] false) (src3 (some ⟨2, .panic⟩))),
  ("limit",   .unary (some ⟨0, .panic⟩) (limitOp 1 4 0) (src3 none)),
  ("hashjoin", .binary (some ⟨0, .panic⟩) (joinOp 2 3 2 [3]) (src3 none) (src2 none)),
  ("below-join-right", .binary none (joinOp 2 3 2 [3]) (src3 none) (src2 (some ⟨1, .panic⟩)))
]

/-- The full statement still fails — for the same harmless reason as for errors: a `limit` that
has stopped reading never sees the panic, and returns the complete answer (`no_partial_ok`). -/
theorem panic_propagates_unsound : ¬ PanicPropagatesFull := by
  intro h
  obtain ⟨e, he⟩ := h Ck (.unary none (limitOp 1 1 0) (src3 (some ⟨1, .panic⟩))) (by decide) (Or.inr ⟨1, rfl, by decide⟩)
  have : (Plan.unary none (limitOp 1 1 0) (src3 (some ⟨1, .panic⟩))).run = .ok [⟨1, 0, 1, true⟩] := by rfl
  rw [this] at he
  cases he

/-- REGRESSION (was `panic_witnesses_partial_ok`): none of the former witnesses returns a partial
`Ok` any more; every one of them returns `Err`. -/
theorem panic_witnesses_regression :
    panicWitnesses.all (fun w => !partialOk w.2 && (match w.2.run with | .error _ => true | .ok _ => false)) = true := by decide

/-! ## prefix monotonicity (what a truncated input does to `filter` / `proj` / `limit` / `window`) -/

/-- A streaming executor fed a prefix of its fault-free input — its child died, or failed — has
sent a prefix of its fault-free output. -/
theorem prefix_monotone {α : Type} (o : Op1 α) (ho : o.Streaming) (t t0 : Tr α) (h : t.chunks <+: t0.chunks) :
    (o.exec t).chunks <+: (o.exec t0).chunks := by
  have hp := Phase.run_outs_prefix o.ph t.fin t0.fin t.chunks t0.chunks o.init h
  have hfin : ∀ (outs : List α) (r : Except Nat o.σ), (finish o.onEnd outs r).chunks = outs := by
    intro outs r
    cases r with
    | error e => rfl
    | ok s => simp [finish, ho s]
  simp only [Op1.exec, hfin]
  exact hp

theorem streamOp_streaming (id : Nat) (outs : List Nat) (f : Option Nat) : (streamOp id outs f).Streaming := fun _ => rfl
theorem limitOp_streaming (id limit offset : Nat) : (limitOp id limit offset).Streaming := fun _ => rfl

theorem applyFault_chunks_prefix {α : Type} (ft : Option Fault) (t : Tr α) : (applyFault ft t).chunks <+: t.chunks := by
  cases ft with
  | none => exact List.prefix_refl _
  | some f =>
    unfold applyFault
    simp only
    by_cases h : f.k < t.items
    · simp only [h, if_true]; cases f.kind <;> exact List.take_prefix _ _
    · simp only [h, if_false]; exact List.prefix_refl _

/-- Over a chain of streaming executors, whatever faults are armed (errors, panics, any number,
anywhere): the chunks the root sends are a prefix of the fault-free chunks. So when such a
statement wrongly returns `Ok`, its rows are exactly a prefix of the right answer. -/
theorem stream_chain_prefix {α : Type} : ∀ (p : Plan α), p.StreamChain → p.tr.chunks <+: p.clean.tr.chunks
  | .leaf ft out, _ => by
    simp only [Plan.tr, Plan.clean]
    exact applyFault_chunks_prefix ft out
  | .unary ft o c, h => by
    simp only [Plan.tr, Plan.clean]
    have ih := stream_chain_prefix c h.2
    have : applyFault none (o.exec c.clean.tr) = o.exec c.clean.tr := rfl
    rw [this]
    exact List.IsPrefix.trans (applyFault_chunks_prefix ft _) (prefix_monotone o h.1 _ _ ih)
  | .binary _ _ _ _, h => by cases h
  | .mjoin _ _ _ _ _, h => by cases h

/-! ## the merge join (interleaved reads of two inputs) -/

/-- `no_partial_ok` for a merge join, spelled out: whatever faults are armed in its inputs (or at
the join itself), at whatever chunk index of either side, a merge join that returns `Ok` returns
exactly the fault-free rows. (Instance of `no_partial_ok`, which covers `Plan.mjoin` through
`OpM.go_rel`: the interleaved loop re-raises an `Err` item of either input at whatever position.) -/
theorem merge_join_no_partial_ok {α : Type} (ft : Option Fault) (o : OpM α) (fuel : Nat) (l r : Plan α)
    (rows : List α) (h : (Plan.mjoin ft o fuel l r).run = .ok rows) :
    (Plan.mjoin ft o fuel l r).clean.run = .ok rows :=
  no_partial_ok _ rows h

/-- The former blind spot (an `Err` of a side that has already delivered a chunk read as "side
exhausted"): with the modelled loop the error of the left input at its 2nd item, or of the right
input at its 3rd, is reported. -/
theorem merge_join_err_any_position :
    (Plan.mjoin none (mergeJoinOp 2 3 2 [3]) 20 (src3 (some ⟨1, .error⟩)) (src2 none)).run = .error 0 ∧
    (Plan.mjoin none (mergeJoinOp 2 3 2 [3]) 20 (src3 none) (src2 (some ⟨1, .panic⟩))).run = .error 2 ∧
    (Plan.mjoin none (mergeJoinOp 2 3 2 [3]) 20 (src3 (some ⟨2, .error⟩)) (src2 none)).run = .error 0 ∧
    (Plan.mjoin none (mergeJoinOp 2 3 2 [3]) 20 (src3 none) (src2 none)).run =
      .ok [⟨2, 0, 3, true⟩] := ⟨rfl, rfl, rfl, rfl⟩

/-! ## the tail of a writer: the final flush is a step whose error must propagate -/

/-- Whatever an executor did in its loop, an error of the code after the loop (the writer's final
flush) ends its stream with that error. -/
theorem finish_error_propagates {α σ : Type} (onEnd : σ → Except Nat (List α)) (outs : List α) (s : σ) (e : Nat)
    (h : onEnd s = .error e) : (finish onEnd outs (.ok s)).fin = some e := by
  simp [finish, h]

/-- `COPY … TO`: if flushing the last buffered part of the output fails, the statement returns that
error — for any child (any number of chunks, empty included) that itself ends normally and any
fault-free writes before. -/
theorem copy_to_flush_error_propagates (id e : Nat) (c : Plan Ck) (hc : c.tr.fin = none) :
    (Plan.unary none (copyToOp id none (some e)) c).run = .error e := by
  have hrun : ∀ (cs : List Ck) (s : Nat × Nat), ∃ s', (copyToOp id none (some e)).ph.run none s cs = ([], .ok s') := by
    intro cs
    induction cs with
    | nil => intro s; exact ⟨s, rfl⟩
    | cons x xs ih =>
      intro s
      obtain ⟨s', hs'⟩ := ih (s.1 + 1, s.2 + x.card)
      have hstep : (copyToOp id none (some e)).ph.run none s (x :: xs) =
          (copyToOp id none (some e)).ph.run none (s.1 + 1, s.2 + x.card) xs := by
        simp [Phase.run, copyToOp]
      exact ⟨s', by rw [hstep, hs']⟩
  obtain ⟨s', hs'⟩ := hrun c.tr.chunks (0, 0)
  have hex : (copyToOp id none (some e)).exec c.tr = ⟨[], some e⟩ := by
    simp only [Op1.exec, hc]
    have : (copyToOp id none (some e)).init = (0, 0) := rfl
    rw [this, hs']
    rfl
  simp [Plan.run, Plan.tr, applyFault, hex, collect]

example : (Plan.unary none (copyToOp 1 none (some 28)) (src3 none)).run = .error 28 := rfl
example : (Plan.unary none (copyToOp 1 none none) (src3 none)).run = .ok [⟨1, 6, 1, true⟩] := rfl

/-! ## DML -/

/-- FULL statement: a failed INSERT/DELETE leaves the table unchanged — whatever is armed,
including a fault at the DML task itself. -/
def DmlAtomicFull : Prop :=
  ∀ (α : Type) (ft : Option Fault) (d : Dml α) (c : Plan α) (e : Nat),
    (Stmt.dml ft d c).run.out = .error e → (Stmt.dml ft d c).run.committed = none

/-- Proved part: holds for every fault (error or panic, any number) *below* the DML task: the
statement fails only if the loop raised, and then `commit` was never reached. -/
theorem dml_atomic {α : Type} (d : Dml α) (c : Plan α) (e : Nat)
    (h : (Stmt.dml none d c).run.out = .error e) : (Stmt.dml none d c).run.committed = none := by
  simp only [Stmt.run] at h ⊢
  cases hr : (d.phase.run c.tr.fin [] c.tr.chunks).2 with
  | error e' => simp
  | ok s => simp [hr, applyFault, collect] at h

/-- The excluded point: the H4 injection point of the DML task itself sits in its output loop,
i.e. after `txn.commit()`; an error there is reported although the change is durable. (The
executor has no failure site between `commit` and `yield`; this is a property of the hook.) -/
theorem dml_atomic_at_root_unsound : ¬ DmlAtomicFull := by
  intro h
  have := h Ck (some ⟨0, .error⟩) (dmlCk 9) (src3 none) 0 (by rfl)
  revert this
  decide

/-- Whatever faults are armed below (errors, panics), a DML statement is all-or-nothing: either
it behaves exactly as without faults, or it fails and nothing is committed. -/
theorem dml_all_or_nothing {α : Type} (d : Dml α) (c : Plan α) :
    ((Stmt.dml none d c).run.out = (Stmt.dml none d c).clean.run.out ∧
      (Stmt.dml none d c).run.committed = (Stmt.dml none d c).clean.run.committed) ∨
    ((∃ e, (Stmt.dml none d c).run.out = .error e) ∧ (Stmt.dml none d c).run.committed = none) := by
  have hrel := Plan.tr_rel c
  simp only [Stmt.run, Stmt.clean]
  rcases Phase.run_rel d.phase [] hrel with he | ⟨⟨e', he⟩, _⟩
  · left; rw [he]; constructor <;> rfl
  · right; rw [he]; exact ⟨⟨e', by simp [applyFault, collect]⟩, rfl⟩

/-- FULL statement for silent ends: whatever is armed below, the committed change is nothing or
the complete fault-free change. -/
def DmlAtomicOnSilentEndFull : Prop :=
  ∀ (α : Type) (d : Dml α) (c : Plan α),
    (Stmt.dml none d c).run.committed = none ∨
    (Stmt.dml none d c).run.committed = (Stmt.dml none d c).clean.run.committed

/-- Now the full statement holds (it is `dml_all_or_nothing`'s second component): there is no
silent end any more. -/
theorem dml_atomic_on_silent_end : DmlAtomicOnSilentEndFull := by
  intro α d c
  rcases dml_all_or_nothing d c with h | h
  · right; exact h.2
  · left; exact h.2

/-- The former witness (the child's task dies after its first chunk; INSERT committed that chunk
only and reported success), kept as a regression input. -/
def dmlSilentWitness : Stmt Ck := .dml none (dmlCk 9) (src3 (some ⟨1, .panic⟩))

/-- REGRESSION (was `dml_atomic_on_silent_end_unsound`): the statement fails and commits nothing. -/
theorem dml_silent_end_regression :
    dmlSilentWitness.run.out = .error 2 ∧ dmlSilentWitness.run.committed = none := ⟨rfl, rfl⟩

/-! ## the write transaction: roll-over of full row-sets, commit, abort -/

theorem WTxn.append_visible {α : Type} (limit : Nat) (sz : α → Nat) (t : WTxn α) (c : α) :
    (t.append limit sz c).visible = t.visible := by
  unfold WTxn.append
  split
  · rfl
  · split <;> rfl

/-- **A failed INSERT / COPY leaves the table unchanged**: whatever chunks were appended, however
many row-sets were rolled over (any `target_rowset_size`, any chunk sizes, any length), dropping the
transaction leaves the published version exactly as it was. Induction over the append sequence. -/
theorem failed_dml_leaves_table {α : Type} (limit : Nat) (sz : α → Nat) (t : WTxn α) (cs : List α) :
    (t.appendAll limit sz cs).abort = t.abort := by
  unfold WTxn.appendAll WTxn.abort
  induction cs generalizing t with
  | nil => rfl
  | cons c cs ih => simp only [List.foldl_cons]; rw [ih, WTxn.append_visible]

/-- …and nothing is visible before the commit either: during the statement, after any prefix of
its appends, readers see the pre-statement version. -/
theorem dml_invisible_before_commit {α : Type} (limit : Nat) (sz : α → Nat) (v : List (List α)) (cs : List α)
    (n : Nat) : ((WTxn.start v).appendAll limit sz (cs.take n)).visible = v := by
  have := failed_dml_leaves_table limit sz (WTxn.start v) (cs.take n)
  simpa [WTxn.abort, WTxn.start] using this

theorem WTxn.append_content {α : Type} (limit : Nat) (sz : α → Nat) (t : WTxn α) (c : α) :
    (t.append limit sz c).pending.flatten ++ (t.append limit sz c).mem =
      t.pending.flatten ++ t.mem ++ (if sz c = 0 then [] else [c]) := by
  unfold WTxn.append
  by_cases h0 : sz c = 0
  · simp [h0]
  · simp only [h0, if_false]
    split <;> simp [List.flatten_append]

/-- The commit publishes exactly the appended rows (chunks without rows aside), in order, after
the old row-sets — however the roll-overs cut them into row-sets. -/
theorem commit_publishes_exactly {α : Type} (limit : Nat) (sz : α → Nat) (v : List (List α)) (cs : List α) :
    ∃ rs, ((WTxn.start v).appendAll limit sz cs).commit = v ++ rs ∧ rs.flatten = cs.filter (fun c => sz c ≠ 0) := by
  have key : ∀ (cs : List α) (t : WTxn α),
      (t.appendAll limit sz cs).pending.flatten ++ (t.appendAll limit sz cs).mem =
        t.pending.flatten ++ t.mem ++ cs.filter (fun c => sz c ≠ 0) := by
    intro cs
    induction cs with
    | nil => intro t; simp [WTxn.appendAll]
    | cons c cs ih =>
      intro t
      have h := ih (t.append limit sz c)
      simp only [WTxn.appendAll, List.foldl_cons] at h ⊢
      rw [h, WTxn.append_content]
      by_cases h0 : sz c = 0 <;> simp [h0]
  have hv : ((WTxn.start v).appendAll limit sz cs).visible = v := failed_dml_leaves_table limit sz (WTxn.start v) cs
  have hk : ((WTxn.start v).appendAll limit sz cs).pending.flatten ++ ((WTxn.start v).appendAll limit sz cs).mem =
      cs.filter (fun c => sz c ≠ 0) := by
    have := key cs (WTxn.start v)
    simpa [WTxn.start] using this
  generalize (WTxn.start v).appendAll limit sz cs = T at hv hk
  refine ⟨T.pending ++ (if T.mem.isEmpty then [] else [T.mem]), ?_, ?_⟩
  · simp [WTxn.commit, hv, List.append_assoc]
  · rw [← hk, List.flatten_append]
    split
    · rename_i he; simp [List.isEmpty_iff.mp he]
    · simp

/-- What the seeded variant does — publish a full row-set at roll-over — is *not* this model: one
append with `limit = 1` would already change the visible version. -/
example : ((WTxn.start ([] : List (List Nat))).appendAll 1 (fun _ => 1) [7, 8]).pending = [[7], [8]] ∧
    ((WTxn.start ([] : List (List Nat))).appendAll 1 (fun _ => 1) [7, 8]).abort = [] ∧
    ((WTxn.start ([] : List (List Nat))).appendAll 1 (fun _ => 1) [7, 8]).commit = [[7], [8]] := by decide

/-! ## delivery: the broadcast channel as `Builder::spawn` uses it -/

/-- Producer / consumer actions after the subscriber exists. -/
def Strm.ChanAct.isData {α : Type} : ChanAct α → Bool
  | .send _ => true | .recv => true | .close => true | _ => false

/-- Single consumer positioned at the head, every queued message still owed to it, nothing lost. -/
def ChanInv {α : Type} (c : Chan α) (sent got : List α) : Prop :=
  c.active = [c.head] ∧ (∀ m ∈ c.queue, m.2 = 1) ∧ sent = got ++ c.queue.map (·.1)

theorem chanInv_step {α : Type} (c : Chan α) (sent got : List α) (h : ChanInv c sent got) :
    ∀ (as : List (ChanAct α)), (∀ a ∈ as, a.isData = true) →
      ChanInv (Chan.runSched c as sent got).1 (Chan.runSched c as sent got).2.1 (Chan.runSched c as sent got).2.2 := by
  intro as
  induction as generalizing c sent got with
  | nil => intro _; exact h
  | cons a as ih =>
    intro hall
    have hrest : ∀ a ∈ as, a.isData = true := fun x hx => hall x (List.mem_cons_of_mem _ hx)
    have ha := hall a (List.mem_cons_self ..)
    obtain ⟨hact, hq, hs⟩ := h
    cases a with
    | deactivate => cases ha
    | activate => cases ha
    | close =>
      simp only [Chan.runSched, Chan.step]
      exact ih _ _ _ ⟨hact, hq, hs⟩ hrest
    | send m =>
      simp only [Chan.runSched, Chan.step]
      split
      · exact ih _ _ _ ⟨hact, hq, hs⟩ hrest
      · rename_i c' r heq
        split at heq
        · cases heq
        · cases heq
          apply ih _ _ _ _ hrest
          refine ⟨hact, ?_, ?_⟩
          · intro x hx
            rcases List.mem_append.mp hx with hx | hx
            · exact hq x hx
            · simp at hx; subst hx; simp [hact]
          · simp [hs]
    | recv =>
      simp only [Chan.runSched, Chan.step, hact, Nat.sub_self]
      cases hqq : c.queue with
      | nil => simp; exact ih _ _ _ ⟨hact, hq, hs⟩ hrest
      | cons x xs =>
        have hx1 : x.2 = 1 := hq x (by simp [hqq])
        have hxs : ∀ m ∈ xs, m.2 = 1 := fun m hm => hq m (by simp [hqq, hm])
        have htw : (List.takeWhile (fun m : α × Nat => m.2 == 0) xs).length = 0 := by
          cases xs with
          | nil => rfl
          | cons y ys => have := hxs y (by simp); simp [List.takeWhile, this]
        simp only [List.getElem?_cons_zero, List.set_cons_zero, Chan.gc, hx1, Nat.sub_self,
          List.takeWhile_cons, beq_self_eq_true, if_true, List.length_cons, htw, List.drop_succ_cons, List.drop_zero]
        apply ih _ _ _ _ hrest
        refine ⟨by simp, hxs, ?_⟩
        simp [hs, hqq]

/-- `DeactivatedBeforeFirstSend` (what the current-thread runtime guarantees: the spawned task
cannot run before `spawn` returns): for every interleaving of producer sends, consumer receives
and the close, nothing is lost — what was accepted from the producer is what the consumer got
plus what is still queued for it, in order. -/
theorem delivery_complete {α : Type} (cap : Nat) (rest : List (ChanAct α))
    (h : ∀ a ∈ rest, a.isData = true) :
    let r := Chan.runSched (Chan.new cap) (.deactivate :: .activate :: rest) [] []
    r.2.1 = r.2.2 ++ r.1.queue.map (·.1) := by
  have h0 : ChanInv ({ cap := cap, queue := [], head := 0, active := [0], inactive := 1, closed := false } : Chan α) [] [] :=
    ⟨rfl, by simp, rfl⟩
  have := chanInv_step _ _ _ h0 rest h
  simpa [Chan.runSched, Chan.step, Chan.new, Chan.gc] using this.2.2

/-- FULL statement (no hypothesis on the order of `deactivate` and the first send). -/
def DeliveryCompleteFull : Prop :=
  ∀ (cap : Nat) (pre rest : List (ChanAct Nat)), (∀ a ∈ pre, a.isData = true) → (∀ a ∈ rest, a.isData = true) →
    let r := Chan.runSched (Chan.new cap) (pre ++ .deactivate :: .activate :: rest) [] []
    r.2.1 = r.2.2 ++ r.1.queue.map (·.1)

/-- Witness (multi-thread runtime: the producer task runs before `rx.deactivate()`): the item
sent first is dropped together with the receiver it was queued for. -/
theorem delivery_incomplete_witness : ¬ DeliveryCompleteFull := by
  intro h
  have := h 16 [.send 1] [.send 2, .recv, .recv, .close] (by decide) (by decide)
  revert this
  decide

/-! ## non-vacuity -/

example : ∀ a ∈ ([.send 1, .recv, .send 2, .close, .recv] : List (ChanAct Nat)), a.isData = true := by decide


example : (Plan.unary none (limitOp 2 4 0) (.unary none (streamOp 1 [2, 2, 1] none) (src3 (some ⟨1, .panic⟩)))).StreamChain :=
  ⟨limitOp_streaming _ _ _, streamOp_streaming _ _ _, trivial⟩
example : (Plan.unary none (streamOp 1 [2, 2, 1] none) (src3 (some ⟨1, .error⟩))).ErrHit :=
  Or.inr ⟨rfl, ⟨fun _ => rfl, fun _ => rfl⟩, ⟨1, .error, rfl, by decide⟩⟩
example : (Plan.unary none (limitOp 1 1 0) (src3 (some ⟨2, .error⟩))).run = .ok [⟨1, 0, 1, true⟩] := rfl
example : (Plan.unary none (streamOp 1 [2, 2, 1] none) (src3 (some ⟨1, .panic⟩))).ErrHit :=
  Or.inr ⟨rfl, ⟨fun _ => rfl, fun _ => rfl⟩, ⟨1, .panic, rfl, by decide⟩⟩
example : (Stmt.dml none (dmlCk 9) (src3 (some ⟨1, .error⟩))).run.out = .error 0 := by rfl

end RlModel
