import RlModel.Model.Type
import RlModel.Lemmas.KernelLen
/-!
C16 — declared types and constraints hold for every stored and returned value.

* `type_soundness`: for the evaluator's expression language (L4) the array variant the kernels
  produce is exactly the static type `analyze_type` derives (`typeOf`), for every chunk.
* arity: a projection list of k expressions has a struct type of k fields.
* INSERT: every stored value has the declared type or is NULL; integer → integer casts are
  lossless or fail; the general "lossless or fails" statement and NOT NULL enforcement are
  stated in full and refuted with witnesses (replayed on both engines by checks/c16.py).
-/
namespace RlModel

/-! ## Static type = runtime array variant -/

theorem ofTy_max (wa wb : IW) :
    (let (x, y) := if (DT.ofTy (.int wa)).rank > (DT.ofTy (.int wb)).rank
        then (DT.ofTy (.int wb), DT.ofTy (.int wa)) else (DT.ofTy (.int wa), DT.ofTy (.int wb))
     if x == DT.null then some DT.null
     else if x.isNumber && y.isNumber then some y
     else if x == DT.date && y == DT.interval then some DT.date else none)
    = some (DT.ofTy (.int (wa.max wb))) := by
  cases wa <;> cases wb <;> decide

theorem cmp_ty (op : CmpOp) (ca cb c : Col) (h : Col.cmp op ca cb = .ok c) : c.ty = .bool := by
  cases ca <;> cases cb <;> simp only [Col.cmp] at h <;>
    first
    | (cases h; rfl)
    | cases h
    | skip
  · rename_i a b
    cases hk : cmpK (fun x y => op.onOrd (boolOrd x y)) a b <;> simp [hk, KOut.map] at h
    subst h; rfl
  · rename_i wa a wb b
    cases hk : cmpK op.onInt a b <;> simp [hk, KOut.map] at h
    subst h; rfl
  · rename_i a b
    cases hk : cmpK (fun x y => op.onOrd (strOrd x y)) a b <;> simp [hk, KOut.map] at h
    subst h; rfl

theorem cast_ty (t : Ty) (ca c : Col) (h : Col.cast t ca = .ok c) : c.ty = t := by
  cases ca with
  | null n => simp [Col.cast] at h; subst h; cases t <;> rfl
  | bool a => cases t <;> simp [Col.cast] at h <;> (subst h; rfl)
  | int w a =>
    cases t with
    | null => simp [Col.cast] at h
    | bool => simp [Col.cast] at h; subst h; rfl
    | str => simp [Col.cast] at h; subst h; rfl
    | int w' =>
      simp only [Col.cast] at h
      split at h
      · cases h; simp_all [Col.ty]
      · split at h
        · cases h; rfl
        · split at h <;> first | (cases h; rfl) | cases h
  | str a =>
    cases t with
    | null => simp [Col.cast] at h
    | str => simp [Col.cast] at h; subst h; rfl
    | bool =>
      simp only [Col.cast] at h
      split at h <;> first | (cases h; rfl) | cases h
    | int w =>
      simp only [Col.cast] at h
      split at h <;> first | (cases h; rfl) | cases h

/-- Type soundness of the evaluator w.r.t. `analyze_type`: whenever the type checker derives
`T` for an expression and the evaluator returns an array, the array's variant is `T`. -/
theorem type_soundness (chunk : List Col) (n : Nat) (e : KExpr) :
    ∀ (T : DT) (c : Col), typeOf (toT (chunk.map Col.ty) e) = some T →
      (evalK chunk n e).1 = .ok c → DT.ofTy c.ty = T := by
  induction e with
  | col i =>
    intro T c hT hE
    simp only [toT, evalK, List.getElem?_map] at hT hE
    cases hc : chunk[i]? with
    | none => simp [hc] at hE
    | some c0 => simp [hc, typeOf] at hT hE; subst hE; exact hT
  | const v =>
    intro T c hT hE
    simp only [toT, typeOf, evalK] at hT hE
    cases hE; cases hT
    cases v <;> rfl
  | arith op a b iha ihb =>
    intro T c hT hE
    simp only [toT, typeOf] at hT
    simp only [evalK] at hE
    rcases ha : evalK chunk n a with ⟨ra, ta⟩
    rw [ha] at hE
    cases ra with
    | ok ca =>
      rcases hb : evalK chunk n b with ⟨rb, tb⟩
      rw [hb] at hE
      cases rb with
      | ok cb =>
        simp only at hE
        cases hta : typeOf (toT (chunk.map Col.ty) a) with
        | none => simp [hta] at hT
        | some Ta =>
          cases htb : typeOf (toT (chunk.map Col.ty) b) with
          | none => simp [hta, htb] at hT
          | some Tb =>
            have ea := iha Ta ca hta (by rw [ha])
            have eb := ihb Tb cb htb (by rw [hb])
            rw [hta, htb] at hT
            rcases arith_inv op ca cb c hE with ⟨wa, x, wb, y, r, rfl, rfl, _, rfl⟩ | ⟨k, rfl, rfl⟩ |
              ⟨k, rfl, rfl⟩
            · simp only [Col.ty] at ea eb
              subst ea; subst eb
              have := ofTy_max wa wb
              simp only at this hT
              rw [this] at hT
              exact (Option.some.inj hT)
            · -- left operand of type NULL: `analyze_type` says NULL
              simp only [Col.ty, DT.ofTy] at ea ⊢
              subst ea
              cases Tb <;> simp [DT.rank] at hT <;> exact hT
            · simp only [Col.ty, DT.ofTy] at eb ⊢
              subst eb
              cases Ta <;> simp [DT.rank, DT.isNumber] at hT <;> exact hT
      | err => simp at hE
      | panic => simp at hE
    | err => simp at hE
    | panic => simp at hE
  | cmp op a b iha ihb =>
    intro T c hT hE
    simp only [toT, typeOf] at hT
    simp only [evalK] at hE
    rcases ha : evalK chunk n a with ⟨ra, ta⟩
    rw [ha] at hE
    cases ra with
    | ok ca =>
      rcases hb : evalK chunk n b with ⟨rb, tb⟩
      rw [hb] at hE
      cases rb with
      | ok cb =>
        simp only at hE
        have h1 := cmp_ty op ca cb c hE
        cases hta : typeOf (toT (chunk.map Col.ty) a) with
        | none => simp [hta] at hT
        | some Ta =>
          cases htb : typeOf (toT (chunk.map Col.ty) b) with
          | none => simp [hta, htb] at hT
          | some Tb =>
            rw [hta, htb] at hT
            simp only at hT
            split at hT
            · cases hT; rw [h1]; rfl
            · cases hT
      | err => simp at hE
      | panic => simp at hE
    | err => simp at hE
    | panic => simp at hE
  | and a b iha ihb =>
    intro T c hT hE
    simp only [toT, typeOf] at hT
    simp only [evalK] at hE
    rcases ha : evalK chunk n a with ⟨ra, ta⟩
    rw [ha] at hE
    cases ra with
    | ok ca =>
      rcases hb : evalK chunk n b with ⟨rb, tb⟩
      rw [hb] at hE
      cases rb with
      | ok cb =>
        simp only at hE
        have hc : c.ty = .bool := by
          obtain ⟨_, _, _, _, _, _, rfl⟩ := and_inv ca cb c hE
          rfl
        cases hta : typeOf (toT (chunk.map Col.ty) a) with
        | none => simp [hta] at hT
        | some Ta =>
          cases htb : typeOf (toT (chunk.map Col.ty) b) with
          | none => simp [hta, htb] at hT
          | some Tb =>
            rw [hta, htb] at hT
            simp only at hT
            split at hT
            · cases hT; rw [hc]; rfl
            · cases hT
      | err => simp at hE
      | panic => simp at hE
    | err => simp at hE
    | panic => simp at hE
  | or a b iha ihb =>
    intro T c hT hE
    simp only [toT, typeOf] at hT
    simp only [evalK] at hE
    rcases ha : evalK chunk n a with ⟨ra, ta⟩
    rw [ha] at hE
    cases ra with
    | ok ca =>
      rcases hb : evalK chunk n b with ⟨rb, tb⟩
      rw [hb] at hE
      cases rb with
      | ok cb =>
        simp only at hE
        have hc : c.ty = .bool := by
          obtain ⟨_, _, _, _, _, _, rfl⟩ := or_inv ca cb c hE
          rfl
        cases hta : typeOf (toT (chunk.map Col.ty) a) with
        | none => simp [hta] at hT
        | some Ta =>
          cases htb : typeOf (toT (chunk.map Col.ty) b) with
          | none => simp [hta, htb] at hT
          | some Tb =>
            rw [hta, htb] at hT
            simp only at hT
            split at hT
            · cases hT; rw [hc]; rfl
            · cases hT
      | err => simp at hE
      | panic => simp at hE
    | err => simp at hE
    | panic => simp at hE
  | not a iha =>
    intro T c hT hE
    simp only [toT, typeOf] at hT
    simp only [evalK] at hE
    rcases ha : evalK chunk n a with ⟨ra, ta⟩
    rw [ha] at hE
    cases ra with
    | ok ca =>
      simp only at hE
      have hc : c.ty = .bool := by
        cases ca <;> simp [Col.not] at hE
        subst hE; rfl
      cases hta : typeOf (toT (chunk.map Col.ty) a) with
      | none => simp [hta] at hT
      | some Ta =>
        rw [hta] at hT
        simp only at hT
        split at hT
        · cases hT; rw [hc]; rfl
        · cases hT
    | err => simp at hE
    | panic => simp at hE
  | neg a iha =>
    intro T c hT hE
    simp only [toT, typeOf] at hT
    simp only [evalK] at hE
    rcases ha : evalK chunk n a with ⟨ra, ta⟩
    rw [ha] at hE
    cases ra with
    | ok ca =>
      simp only at hE
      cases hta : typeOf (toT (chunk.map Col.ty) a) with
      | none => simp [hta] at hT
      | some Ta =>
        have ea := iha Ta ca hta (by rw [ha])
        rw [hta] at hT
        simp only at hT
        split at hT
        · cases hT
          have : c.ty = ca.ty := by
            cases ca with
            | int w x =>
              simp only [Col.neg] at hE
              cases hk : tryUnaryOp 0 (negW w) x <;> simp only [hk] at hE <;> cases hE
              rfl
            | null k => simp [Col.neg] at hE; subst hE; rfl
            | bool x => simp [Col.neg] at hE
            | str x => simp [Col.neg] at hE
          rw [this]; exact ea
        · cases hT
    | err => simp at hE
    | panic => simp at hE
  | isnull a iha =>
    intro T c hT hE
    simp only [toT, typeOf] at hT
    simp only [evalK] at hE
    rcases ha : evalK chunk n a with ⟨ra, ta⟩
    rw [ha] at hE
    cases ra with
    | ok ca =>
      simp only at hE
      cases hE; cases hT
      cases ca <;> rfl
    | err => simp at hE
    | panic => simp at hE
  | ite cnd t e ihc iht ihe =>
    intro T c hT hE
    simp only [toT, typeOf] at hT
    simp only [evalK] at hE
    rcases hc : evalK chunk n cnd with ⟨rc, tc⟩
    rw [hc] at hE
    cases rc with
    | ok cc =>
      rcases ht : evalK chunk n t with ⟨rt, tt⟩
      rw [ht] at hE
      cases rt with
      | ok ct =>
        rcases he : evalK chunk n e with ⟨re, te⟩
        rw [he] at hE
        cases re with
        | ok ce =>
          simp only at hE
          cases htc : typeOf (toT (chunk.map Col.ty) cnd) with
          | none => simp [htc] at hT
          | some Tc =>
            cases htt : typeOf (toT (chunk.map Col.ty) t) with
            | none => simp [htc, htt] at hT
            | some Tt =>
              cases hte : typeOf (toT (chunk.map Col.ty) e) with
              | none => simp [htc, htt, hte] at hT
              | some Te =>
                have et := iht Tt ct htt (by rw [ht])
                rw [htc, htt, hte] at hT
                simp only at hT
                split at hT
                · cases hT
                  have : c.ty = ct.ty := by
                    obtain ⟨s, _, h2⟩ := select_inv cc ct ce c hE
                    rcases h2 with ⟨w, x, y, r, rfl, _, _, rfl⟩ | ⟨x, y, r, rfl, _, _, rfl⟩ |
                      ⟨x, y, r, rfl, _, _, rfl⟩ | ⟨k, k', rfl, _, rfl⟩ <;> rfl
                  rw [this]; exact et
                · cases hT
        | err => simp at hE
        | panic => simp at hE
      | err => simp at hE
      | panic => simp at hE
    | err => simp at hE
    | panic => simp at hE
  | cast t a iha =>
    intro T c hT hE
    simp only [toT, typeOf] at hT
    simp only [evalK] at hE
    rcases ha : evalK chunk n a with ⟨ra, ta⟩
    rw [ha] at hE
    cases ra with
    | ok ca =>
      simp only at hE
      cases hta : typeOf (toT (chunk.map Col.ty) a) with
      | none => simp [hta] at hT
      | some Ta =>
        rw [hta] at hT
        cases hT
        rw [cast_ty t ca c hE]
    | err => simp at hE
    | panic => simp at hE
  | concat a b iha ihb =>
    intro T c hT hE
    simp only [toT, typeOf] at hT
    simp only [evalK] at hE
    rcases ha : evalK chunk n a with ⟨ra, ta⟩
    rw [ha] at hE
    cases ra with
    | ok ca =>
      rcases hb : evalK chunk n b with ⟨rb, tb⟩
      rw [hb] at hE
      cases rb with
      | ok cb =>
        simp only at hE
        have hc : c.ty = .str := by
          cases ca <;> cases cb <;> simp [Col.concat] at hE
          rename_i x y
          cases hk : binaryOp (fun p q => KOut.ok (p ++ q)) x y <;> simp [hk] at hE
          subst hE; rfl
        cases hta : typeOf (toT (chunk.map Col.ty) a) with
        | none => simp [hta] at hT
        | some Ta =>
          cases htb : typeOf (toT (chunk.map Col.ty) b) with
          | none => simp [hta, htb] at hT
          | some Tb =>
            rw [hta, htb] at hT
            simp only at hT
            split at hT
            · cases hT; rw [hc]; rfl
            · cases hT
      | err => simp at hE
      | panic => simp at hE
    | err => simp at hE
    | panic => simp at hE

  | like a p iha =>
    intro T c hT hE
    simp only [toT, typeOf] at hT
    simp only [evalK] at hE
    rcases ha : evalK chunk n a with ⟨ra, ta⟩
    rw [ha] at hE
    cases ra with
    | ok ca =>
      simp only at hE
      have hc : c.ty = .bool := by
        cases ca <;> simp [Col.like] at hE
        rename_i x
        cases hk : likeK p x <;> simp [hk, KOut.map] at hE
        subst hE; rfl
      cases hta : typeOf (toT (chunk.map Col.ty) a) with
      | none => simp [hta] at hT
      | some Ta =>
        rw [hta] at hT
        simp only at hT
        split at hT
        · cases hT; rw [hc]; rfl
        · cases hT
    | err => simp at hE
    | panic => simp at hE
  | substring s b c0 ihs ihb ihc =>
    intro T c hT hE
    simp only [toT, typeOf] at hT
    simp only [evalK] at hE
    rcases hs : evalK chunk n s with ⟨rs, ts⟩
    rw [hs] at hE
    cases rs with
    | ok cs =>
      rcases hb : evalK chunk n b with ⟨rb, tb⟩
      rw [hb] at hE
      cases rb with
      | ok cb =>
        rcases hc0 : evalK chunk n c0 with ⟨rc, tc⟩
        rw [hc0] at hE
        cases rc with
        | ok cc =>
          simp only at hE
          have hc : c.ty = .str := by
            cases cs <;> cases cb <;> cases cc <;> simp only [Col.substring] at hE <;> try (cases hE)
            all_goals (rename_i x w1 y w2 z; cases w1 <;> cases w2 <;> simp only [Col.substring] at hE <;> cases hE; rfl)
          cases hts : typeOf (toT (chunk.map Col.ty) s) with
          | none => simp [hts] at hT
          | some Ts =>
            cases htb : typeOf (toT (chunk.map Col.ty) b) with
            | none => simp [hts, htb] at hT
            | some Tb =>
              cases htc : typeOf (toT (chunk.map Col.ty) c0) with
              | none => simp [hts, htb, htc] at hT
              | some Tc =>
                rw [hts, htb, htc] at hT
                simp only at hT
                split at hT
                · cases hT; rw [hc]; rfl
                · cases hT
        | err => simp at hE
        | panic => simp at hE
      | err => simp at hE
      | panic => simp at hE
    | err => simp at hE
    | panic => simp at hE
  | replace a frm to iha =>
    intro T c hT hE
    simp only [toT, typeOf] at hT
    simp only [evalK] at hE
    rcases ha : evalK chunk n a with ⟨ra, ta⟩
    rw [ha] at hE
    cases ra with
    | ok ca =>
      simp only at hE
      have hc : c.ty = .str := by
        cases ca <;> simp [Col.replace] at hE
        subst hE; rfl
      cases hta : typeOf (toT (chunk.map Col.ty) a) with
      | none => simp [hta] at hT
      | some Ta =>
        rw [hta] at hT
        simp only at hT
        split at hT
        · cases hT; rw [hc]; rfl
        · cases hT
    | err => simp at hE
    | panic => simp at hE
  | repeat_ s k ihs ihk =>
    intro T c hT hE
    simp only [toT, typeOf] at hT
    simp only [evalK] at hE
    rcases hs : evalK chunk n s with ⟨rs, ts⟩
    rw [hs] at hE
    cases rs with
    | ok cs =>
      rcases hk : evalK chunk n k with ⟨rk, tk⟩
      rw [hk] at hE
      cases rk with
      | ok ck =>
        simp only at hE
        have hc : c.ty = .str := by
          cases cs <;> cases ck <;> simp only [Col.repeat_] at hE <;> try (cases hE)
          rename_i x w y
          cases w <;> simp only [Col.repeat_] at hE <;> try (cases hE)
          cases hb : binaryOp (fun s n => KOut.ok (repeatF s n)) x y <;> simp only [hb] at hE <;> cases hE
          rfl
        cases hts : typeOf (toT (chunk.map Col.ty) s) with
        | none => simp [hts] at hT
        | some Ts =>
          cases htk : typeOf (toT (chunk.map Col.ty) k) with
          | none => simp [hts, htk] at hT
          | some Tk =>
            rw [hts, htk] at hT
            simp only at hT
            split at hT
            · cases hT; rw [hc]; rfl
            · cases hT
      | err => simp at hE
      | panic => simp at hE
    | err => simp at hE
    | panic => simp at hE

example : typeOf (toT [.int .w16, .int .w64] (.arith .add (.col 0) (.col 1))) = some .int64 := by
  decide

/-- Arity: the struct type of a list of k expressions has k fields. -/
theorem typeOfList_length (es : List TExpr) (ts : List DT) (h : typeOfList es = some ts) :
    ts.length = es.length := by
  induction es generalizing ts with
  | nil => simp [typeOfList] at h; subst h; rfl
  | cons x xs ih =>
    simp only [typeOfList] at h
    cases hx : typeOf x with
    | none => simp [hx] at h
    | some t =>
      cases hxs : typeOfList xs with
      | none => simp [hx, hxs] at h
      | some ts' =>
        simp [hx, hxs] at h
        subst h
        simp [ih ts' hxs]

example : typeOfList [.leaf .int32, .cmp (.leaf .int32) (.leaf .null)] = some [.int32, .bool] := by
  decide

/-! ## INSERT -/

/-- Every value INSERT stores has the column's declared type, or is NULL. -/
theorem insert_value_type (t : Ty) (v v' : IVal) (h : castI t v = .ok v') :
    v'.dynTy = t ∨ v' = .null := by
  cases v <;> cases t <;> simp [castI] at h <;> try (subst h; simp [IVal.dynTy])
  all_goals (first
    | (split at h <;> first | (cases h; simp [IVal.dynTy]) | cases h)
    | (split at h <;> (try split at h) <;> first | (cases h; simp [IVal.dynTy]) | cases h))

theorem castCol_ok (d : ColDecl) (v x : IVal) (h : castCol d v = .ok x) :
    castI d.ty v = .ok x ∧ (d.nullable = false → x ≠ .null) := by
  unfold castCol at h
  cases hc : castI d.ty v with
  | ok y =>
    simp only [hc] at h
    split at h
    · cases h
    · rename_i hn
      cases h
      refine ⟨rfl, ?_⟩
      intro hd hx
      subst hx
      simp [hd] at hn
  | err => simp [hc] at h
  | panic => simp [hc] at h

theorem insert_row_types (decls : List ColDecl) (vs row : List IVal)
    (h : castRow decls vs = .ok row) :
    row.length = decls.length ∧
      ∀ p ∈ List.zip decls row, p.2.dynTy = p.1.ty ∨ p.2 = .null := by
  induction decls generalizing vs row with
  | nil =>
    cases vs <;> simp [castRow] at h
    subst h; simp
  | cons d ds ih =>
    cases vs with
    | nil => simp [castRow] at h
    | cons v vs =>
      simp only [castRow] at h
      cases hc : castCol d v with
      | ok x =>
        cases hr : castRow ds vs with
        | ok r =>
          simp [hc, hr] at h
          subst h
          obtain ⟨h1, h2⟩ := ih vs r hr
          refine ⟨by simp [h1], ?_⟩
          intro p hp
          simp at hp
          rcases hp with rfl | hp
          · exact insert_value_type d.ty v x (castCol_ok d v x hc).1
          · exact h2 p hp
        | err => simp [hc, hr] at h
        | panic => simp [hc, hr] at h
      | err => simp [hc] at h
      | panic => simp [hc] at h

example : castRow [⟨.int .w32, false⟩, ⟨.str, true⟩] [.int .w64 5, .int .w32 7]
    = .ok [.int .w32 5, .str "7"] := by decide

/-- Integer → integer INSERT conversion is lossless or fails. -/
theorem insert_int_lossless_or_fails (w w' : IW) (x : Int) (v' : IVal)
    (h : castI (.int w') (.int w x) = .ok v') : v' = .int w' x ∧ w'.fits x = true := by
  simp only [castI] at h
  split at h
  · cases h; exact ⟨rfl, by assumption⟩
  · cases h

/-- Full statement: an INSERT conversion of a numeric value keeps the number or fails. -/
def InsertLossless : Prop := ∀ (t : Ty) (v v' : IVal), v.tenths.isSome →
  castI t v = .ok v' → v'.tenths = v.tenths

/-- Witnesses: integer 5 into a BOOLEAN column is stored as TRUE (= 1); decimal 2.7 into an INT
column is stored as 2. -/
theorem insert_lossless_unsound : ¬ InsertLossless := by
  intro h
  exact absurd (h .bool (.int .w32 5) (.bool true) (by decide) (by decide)) (by decide)

theorem insert_decimal_truncates :
    castI (.int .w32) (.dec 27) = .ok (.int .w32 2) := by decide

/-! ## NOT NULL / PRIMARY KEY -/

def RowRespectsNotNull (decls : List ColDecl) (row : List IVal) : Prop :=
  ∀ p ∈ List.zip decls row, p.1.nullable = false → p.2 ≠ .null

/-- Full statement: after any sequence of INSERTs a NOT NULL column holds no NULL. -/
def NotNullEnforced (e : Engine) : Prop := ∀ (decls : List ColDecl) (rows : List (List IVal)),
  ∀ row ∈ selectAll e decls rows, RowRespectsNotNull decls row

/-- Full statement: what is read back is what was stored (no value silently replaced). -/
def NoSilentReplacement (e : Engine) : Prop := ∀ (decls : List ColDecl) (vs row : List IVal),
  castRow decls vs = .ok row → readRow e decls row = row

theorem readRow_of_respects (e : Engine) (decls : List ColDecl) (row : List IVal)
    (hlen : row.length = decls.length) (h : RowRespectsNotNull decls row) :
    readRow e decls row = row := by
  induction decls generalizing row with
  | nil => cases row <;> simp_all [readRow]
  | cons d ds ih =>
    cases row with
    | nil => simp at hlen
    | cons v vs =>
      have h0 := h (d, v) (by simp)
      have ih' := ih vs (by simpa using hlen) (fun p hp => h p (by simp [hp]))
      simp only [readRow, ih']
      congr 1
      cases e <;> cases hn : d.nullable <;> cases v <;> simp_all [readBack]

/-- INSERT stores no NULL in a NOT NULL / PRIMARY KEY column (since /repo 652f6b6). -/
theorem castRow_respects (decls : List ColDecl) (vs row : List IVal)
    (h : castRow decls vs = .ok row) : RowRespectsNotNull decls row := by
  induction decls generalizing vs row with
  | nil =>
    cases vs <;> simp [castRow] at h
    subst h; intro p hp; simp at hp
  | cons d ds ih =>
    cases vs with
    | nil => simp [castRow] at h
    | cons v vs =>
      simp only [castRow] at h
      cases hc : castCol d v with
      | ok x =>
        cases hr : castRow ds vs with
        | ok r =>
          simp [hc, hr] at h
          subst h
          intro p hp
          simp at hp
          rcases hp with rfl | hp
          · exact (castCol_ok d v x hc).2
          · exact ih vs r hr p hp
        | err => simp [hc, hr] at h
        | panic => simp [hc, hr] at h
      | err => simp [hc] at h
      | panic => simp [hc] at h

/-- Both engines return exactly the stored (converted) row: no value is silently replaced. -/
theorem no_silent_replacement (e : Engine) : NoSilentReplacement e := by
  intro decls vs row hc
  exact readRow_of_respects e decls row (insert_row_types decls vs row hc).1
    (castRow_respects decls vs row hc)

theorem insertAll_mem (decls : List ColDecl) (rows : List (List IVal)) (row : List IVal)
    (h : row ∈ insertAll decls rows) : ∃ vs, castRow decls vs = .ok row := by
  induction rows with
  | nil => simp [insertAll] at h
  | cons r rs ih =>
    simp only [insertAll] at h
    cases hc : castRow decls r with
    | ok x =>
      simp [hc] at h
      rcases h with rfl | h
      · exact ⟨r, hc⟩
      · exact ih h
    | err => simp [hc] at h; exact ih h
    | panic => simp [hc] at h; exact ih h

/-- `not_null_enforced` — holds on both engines since /repo 652f6b6: after any sequence of
INSERTs, `SELECT *` shows no NULL in a NOT NULL / PRIMARY KEY column. -/
theorem not_null_enforced (e : Engine) : NotNullEnforced e := by
  intro decls rows row hrow
  simp only [selectAll, List.mem_map] at hrow
  obtain ⟨stored, hs, rfl⟩ := hrow
  obtain ⟨vs, hc⟩ := insertAll_mem decls rows stored hs
  rw [no_silent_replacement e decls vs stored hc]
  exact castRow_respects decls vs stored hc

/-- Regression (the former witnesses): NULL into a NOT NULL column fails the statement. -/
theorem not_null_regression :
    castRow [⟨.int .w32, false⟩] [.null] = .err ∧
    selectAll .disk [⟨.int .w32, false⟩] [[.null], [.int .w32 7]] = [[.int .w32 7]] := by decide

/-! ## The reason tags are exactly the forced hypotheses -/

theorem castI_null_inv (t : Ty) (v : IVal) (h : castI t v = .ok .null) : v = .null := by
  cases v with
  | null => rfl
  | bool b => cases t <;> simp [castI] at h
  | int w x =>
    cases t <;> simp [castI] at h
    split at h <;> cases h
  | str s0 =>
    cases t <;> simp [castI] at h
    · split at h <;> (try split at h) <;> cases h
    · split at h <;> (try split at h) <;> cases h
  | dec x =>
    cases t <;> simp [castI] at h
    split at h <;> cases h

theorem specCol_eq_of_no_tag (e : Engine) (d : ColDecl) (v : IVal) (h : colTags e d v = []) :
    specCol d v = castCol d v := by
  unfold colTags at h
  unfold specCol castCol
  by_cases hn : (v == IVal.null && !d.nullable) = true
  · simp only [hn, if_true]
    have hv : v = .null := by
      simp only [Bool.and_eq_true, beq_iff_eq] at hn; exact hn.1
    subst hv
    simp only [castI]
    simp only [Bool.and_eq_true, beq_self_eq_true, true_and] at hn
    simp [hn]
  · simp only [hn, Bool.false_eq_true, if_false] at h ⊢
    cases hc : castI d.ty v with
    | ok v' =>
      simp only [hc] at h ⊢
      split at h
      · simp at h
      · rename_i hl
        simp only [hl, Bool.false_eq_true, if_false]
        -- a non-NULL value never converts to NULL, and a NULL here means a nullable column
        by_cases hx : (v' == IVal.null && !d.nullable) = true
        · exfalso
          simp only [Bool.and_eq_true, beq_iff_eq] at hx
          obtain ⟨hx1, hx2⟩ := hx
          subst hx1
          have : v = .null := castI_null_inv d.ty v hc
          subst this
          simp [hx2] at hn
        · simp [hx]
    | err => rfl
    | panic => rfl

/-- When the model raises no reason tag for a row, what INSERT stores is what the property
demands (conversion lossless, NOT NULL respected). -/
theorem insert_agrees_with_spec_partial (e : Engine) (decls : List ColDecl) (vs : List IVal)
    (h : rowTags e decls vs = []) : castRow decls vs = specRow decls vs := by
  induction decls generalizing vs with
  | nil => cases vs <;> simp [castRow, specRow]
  | cons d ds ih =>
    cases vs with
    | nil => simp [castRow, specRow]
    | cons v vs =>
      simp only [rowTags, List.append_eq_nil_iff] at h
      simp only [castRow, specRow, specCol_eq_of_no_tag e d v h.1, ih vs h.2]

example : rowTags .disk [⟨.int .w32, true⟩, ⟨.bool, true⟩] [.null, .int .w32 5]
    = ["insert:lossy-cast:int->bool"] := by decide

example : selectAll .disk [⟨.int .w32, false⟩, ⟨.int .w32, true⟩] [[.null, .null], [.int .w32 1, .dec 27]]
    = [[.int .w32 1, .int .w32 2]] := by decide

/-! ## CREATE TABLE column options: declared nullability = catalogued nullability -/

theorem optFold_nullable (st : Bool × Bool) (opts : List ColOpt) :
    (optFold st opts).1 = (lastNullability opts).getD st.1 := by
  induction opts generalizing st with
  | nil => rfl
  | cons o os ih =>
    simp only [optFold, lastNullability]
    rw [ih]
    cases h : lastNullability os with
    | some b => simp
    | none => cases o <;> simp [optStep]

/-- A column whose last nullability option is NOT NULL is catalogued not nullable — for EVERY
option list (any order, repeated or contradicting options, UNIQUE / PRIMARY KEY anywhere). -/
theorem declared_not_null_catalogued (opts : List ColOpt) (nn : Bool × Bool)
    (hlast : lastNullability opts = some false) (hc : catalogOf opts = some nn) : nn.1 = false := by
  unfold catalogOf at hc
  split at hc
  · cases hc
  · simp only [Option.some.injEq] at hc
    subst hc
    simp only
    split
    · rfl
    · rw [optFold_nullable, hlast]; rfl

/-- A PRIMARY KEY column is catalogued not nullable whatever else is written. -/
theorem primary_key_catalogued_not_null (opts : List ColOpt) (nn : Bool × Bool)
    (hpk : pkCount opts = 1) (hc : catalogOf opts = some nn) : nn.1 = false := by
  unfold catalogOf at hc
  simp only [hpk, gt_iff_lt, Nat.lt_irrefl, if_false, beq_self_eq_true, if_true,
    Option.some.injEq] at hc
  subst hc; rfl

/-- Exactly: catalogued nullable iff no PRIMARY KEY and the last nullability option is not
NOT NULL (none at all, or NULL). -/
theorem catalogued_nullable_iff (opts : List ColOpt) (nn : Bool × Bool)
    (hc : catalogOf opts = some nn) :
    nn.1 = true ↔ (pkCount opts = 0 ∧ lastNullability opts ≠ some false) := by
  unfold catalogOf at hc
  split at hc
  · cases hc
  · rename_i hle
    simp only [Option.some.injEq] at hc
    subst hc
    simp only
    have hle' : pkCount opts ≤ 1 := by omega
    by_cases h1 : pkCount opts = 1
    · simp [h1]
    · have h0 : pkCount opts = 0 := by omega
      simp only [h0, Nat.zero_ne_one, beq_iff_eq, if_false, true_and]
      rw [optFold_nullable]
      cases h : lastNullability opts with
      | none => simp
      | some b => cases b <;> simp

example : catalogOf [.notNull, .unique] = some (false, false) := by decide
example : catalogOf [.unique, .null, .notNull] = some (false, false) := by decide
example : catalogOf [.notNull, .null, .primaryKey] = some (false, true) := by decide
example : catalogOf [.primaryKey, .primaryKey] = none := by decide

/-! ### Table-level PRIMARY KEY (c1, …, cn) (after seed s7c16 was missed) -/

theorem setNotNull_length (i : Nat) (l : List (Bool × Bool)) : (setNotNull i l).length = l.length := by
  induction l generalizing i with
  | nil => cases i <;> rfl
  | cons p ps ih => cases i <;> simp [setNotNull, ih]

theorem forceNotNull_length (ks : List Nat) (l : List (Bool × Bool)) :
    (forceNotNull ks l).length = l.length := by
  induction ks generalizing l with
  | nil => rfl
  | cons k ks ih => simp [forceNotNull, ih, setNotNull_length]

/-- The nullability flag of column `i`. -/
def nullableAt (l : List (Bool × Bool)) (i : Nat) : Option Bool := (l[i]?).map (·.1)

theorem setNotNull_self (i : Nat) (l : List (Bool × Bool)) (h : i < l.length) :
    nullableAt (setNotNull i l) i = some false := by
  induction l generalizing i with
  | nil => simp at h
  | cons p ps ih =>
    cases i with
    | zero => simp [setNotNull, nullableAt]
    | succ i =>
      have := ih i (by simpa using h)
      simpa [setNotNull, nullableAt] using this

theorem setNotNull_keeps_false (j i : Nat) (l : List (Bool × Bool))
    (h : nullableAt l i = some false) : nullableAt (setNotNull j l) i = some false := by
  induction l generalizing i j with
  | nil => simp [nullableAt] at h
  | cons p ps ih =>
    cases j with
    | zero =>
      cases i with
      | zero => simp [setNotNull, nullableAt]
      | succ i => simpa [setNotNull, nullableAt] using h
    | succ j =>
      cases i with
      | zero => simpa [setNotNull, nullableAt] using h
      | succ i =>
        have := ih j i (by simpa [nullableAt] using h)
        simpa [setNotNull, nullableAt] using this

theorem forceNotNull_keeps_false (ks : List Nat) (i : Nat) (l : List (Bool × Bool))
    (h : nullableAt l i = some false) : nullableAt (forceNotNull ks l) i = some false := by
  induction ks generalizing l with
  | nil => exact h
  | cons k ks ih => exact ih _ (setNotNull_keeps_false k i l h)

/-- Induction over the key list: every listed column that exists ends NOT NULL. -/
theorem forceNotNull_mem (ks : List Nat) (l : List (Bool × Bool)) (i : Nat) (hi : i ∈ ks)
    (hl : i < l.length) : nullableAt (forceNotNull ks l) i = some false := by
  induction ks generalizing l with
  | nil => cases hi
  | cons k ks ih =>
    simp only [forceNotNull]
    by_cases hk : i = k
    · subst hk
      exact forceNotNull_keeps_false ks i _ (setNotNull_self i l hl)
    · have : i ∈ ks := by
        cases hi with
        | head => exact absurd rfl hk
        | tail _ h => exact h
      exact ih _ this (by rw [setNotNull_length]; exact hl)

/-- Every column listed in a table-level `PRIMARY KEY (c1, …, cn)` is catalogued NOT NULL, whatever
the order of the key, its length, and the options of the columns. -/
theorem table_key_columns_not_null (cols : List (List ColOpt)) (key : List Nat)
    (cat : List (Bool × Bool)) (hc : tableCatalogOf cols key = some cat) :
    ∀ i ∈ key, nullableAt cat i = some false := by
  intro i hi
  unfold tableCatalogOf at hc
  simp only at hc
  split at hc
  · cases hc
  · split at hc
    · cases hc
    · rename_i h2
      split at hc
      · cases hc
      · rename_i h3
        cases hc
        have hkey : key.isEmpty = false := by cases key <;> simp_all
        have hinl : (inlineKeyFrom 0 cols).isEmpty = true := by
          simpa [hkey] using h2
        simp only [hinl, if_true]
        apply forceNotNull_mem key _ i hi
        simp only [List.length_map]
        have := h3
        simp only [List.any_eq_true, decide_eq_true_eq, not_exists, not_and, Nat.not_le] at this
        exact this i hi

/-- A table of one column without table-level key: the old `catalogOf`. -/
theorem tableCatalogOf_single (opts : List ColOpt) :
    tableCatalogOf [opts] [] = (catalogOf opts).map (fun p => [p]) := by
  unfold tableCatalogOf catalogOf
  simp only [inlineKeyFrom, List.append_nil, List.length_replicate, List.isEmpty_nil, Bool.not_true,
    Bool.and_false, List.any_nil]
  by_cases h1 : pkCount opts > 1
  · simp [h1]
  · simp only [h1, if_false]
    by_cases h0 : pkCount opts = 0
    · simp [h0, forceNotNull]
    · have h : pkCount opts = 1 := by omega
      simp [h, forceNotNull, setNotNull]

example : tableCatalogOf [[], [.null], [.unique]] [2, 0] = some [(false, false), (true, false), (false, false)] := by decide
example : tableCatalogOf [[.primaryKey], []] [1] = none := by decide
example : tableCatalogOf [[], []] [2] = none := by decide
/-! ### Multi-row INSERT … VALUES (after seed s8c16 was missed) -/

theorem filterMap_ok_length {α β} (f : KOut α → Option β) (hf : ∀ r, (f (.ok r)).isSome = true)
    (l : List (KOut α)) (h : l.all (fun c => c.isOk) = true) : (l.filterMap f).length = l.length := by
  induction l with
  | nil => rfl
  | cons c cs ih =>
    simp only [List.all_cons, Bool.and_eq_true] at h
    cases c with
    | ok r =>
      have := hf r
      cases hr : f (.ok r) with
      | none => simp [hr] at this
      | some v => simp [hr, ih h.2]
    | err => simp [KOut.isOk] at h
    | panic => simp [KOut.isOk] at h

/-- One multi-row INSERT … VALUES statement stores all of its rows or none. -/
theorem insertValues_all_or_nothing (decls : List ColDecl) (rows : List (List IVal)) :
    insertValues decls rows = [] ∨ (insertValues decls rows).length = rows.length := by
  unfold insertValues
  simp only
  split
  · rename_i h
    right
    rw [filterMap_ok_length _ (fun r => rfl) _ h, List.length_map]
  · left; rfl

/-- The property's side never demands more than the statement failing as a whole. -/
theorem specInsertValues_failed (decls : List ColDecl) (rows : List (List IVal))
    (h : insertValues decls rows = []) : specInsertValues decls rows = [] := by
  simp [specInsertValues, h]

end RlModel
