import RlModel.Model.PlanWf
/-!
# C17 — every accepted query is planned into an executable plan (property theorems)

The checker `check` (model of `Builder::build_id_subscriber`) is the function the correspondence
run applies to every optimized plan of the real optimizer; the theorems say what its verdict
`ok` guarantees, for plans of any size.
-/
namespace RlModel.Wf

/-- Resolution finds positions inside the schema. -/
theorem indexOf?_bound (x : Tm) (sch : List Tm) (k i : Nat) (h : indexOf? x sch k = some i) :
    i < k + sch.length := by
  induction sch generalizing k with
  | nil => simp [indexOf?] at h
  | cons y ys ih =>
    simp only [indexOf?] at h
    split at h
    · cases h; simp
    · have := ih (k + 1) h; simp; omega

mutual
  /-- `resolve_sound`: a resolved expression only holds column indices into the child's schema
  (never a bare column) — what the evaluator needs. Any expression, any schema. -/
  theorem resolve_bounded (sch : List Tm) (e : Tm) (r : RTm) (h : resolve sch e = some r) :
      r.bounded sch.length = true := by
    cases e with
    | col t c =>
      simp only [resolve] at h
      split at h
      · rename_i i hi; cases h
        have := indexOf?_bound _ _ _ _ hi
        simp [RTm.bounded]; omega
      · cases h
    | leaf l =>
      simp only [resolve] at h
      split at h
      · rename_i i hi; cases h
        have := indexOf?_bound _ _ _ _ hi
        simp [RTm.bounded]; omega
      · cases h; simp [RTm.bounded]
    | node hd xs =>
      simp only [resolve] at h
      split at h
      · rename_i i hi; cases h
        have := indexOf?_bound _ _ _ _ hi
        simp [RTm.bounded]; omega
      · cases hx : resolveList sch xs with
        | none => simp [hx] at h
        | some ys =>
          simp [hx] at h; subst h
          simp only [RTm.bounded]
          exact resolveList_bounded sch xs ys hx
  theorem resolveList_bounded (sch : List Tm) (es : List Tm) (rs : List RTm)
      (h : resolveList sch es = some rs) : RTm.boundedList sch.length rs = true := by
    cases es with
    | nil => simp [resolveList] at h; subst h; rfl
    | cons x xs =>
      simp only [resolveList] at h
      cases hx : resolve sch x with
      | none => simp [hx] at h
      | some y =>
        cases hxs : resolveList sch xs with
        | none => simp [hx, hxs] at h
        | some ys =>
          simp [hx, hxs] at h; subst h
          simp only [RTm.boundedList, Bool.and_eq_true]
          exact ⟨resolve_bounded sch x y hx, resolveList_bounded sch xs ys hxs⟩
end

theorem Verdict.and_ok (a b : Verdict) (h : a.and b = .ok) : a = .ok ∧ b = .ok := by
  cases a <;> simp_all [Verdict.and]

theorem resolvesAll_ok (sch : List Tm) (e : Tm) (w : String) (h : resolvesAll sch e w = .ok) :
    ∃ r, resolve sch e = some r ∧ r.bounded sch.length = true := by
  unfold resolvesAll at h
  cases hr : resolve sch e with
  | none => simp [hr] at h
  | some r => exact ⟨r, rfl, resolve_bounded sch e r hr⟩

/-- Every obligation of an accepted arm resolves, to in-range indices. -/
theorem obligationsOk_ok (w : String) (obl : List (List Tm × Tm)) (h : obligationsOk w obl = .ok) :
    ∀ p ∈ obl, ∃ r, resolve p.1 p.2 = some r ∧ r.bounded p.1.length = true := by
  induction obl with
  | nil => intro p hp; cases hp
  | cons q rest ih =>
    obtain ⟨sch, e⟩ := q
    simp only [obligationsOk] at h
    obtain ⟨h1, h2⟩ := Verdict.and_ok _ _ h
    intro p hp
    rcases List.mem_cons.mp hp with rfl | hp'
    · exact resolvesAll_ok _ _ _ h1
    · exact ih h2 p hp'

/-- `wf_build` for the unary operators: a plan the checker accepts has an accepted child and
expressions that resolve to in-range column indices (which expression against which input is
read from the builder's source: `Gen/BuilderArms.lean`). -/
theorem check_filter_ok (e c : Tm) (h : check (.node .filter [e, c]) = .ok) :
    check c = .ok ∧ ∃ r, resolve (schema c) e = some r ∧ r.bounded (schema c).length = true := by
  simp only [check] at h
  obtain ⟨h1, h2⟩ := Verdict.and_ok _ _ h
  exact ⟨h1, obligationsOk_ok _ _ h2 (schema c, e) (by simp [resolveObligations])⟩

theorem check_proj_ok (es c : Tm) (h : check (.node .proj [es, c]) = .ok) :
    check c = .ok ∧ ∃ r, resolve (schema c) es = some r ∧ r.bounded (schema c).length = true := by
  simp only [check] at h
  obtain ⟨h1, h2⟩ := Verdict.and_ok _ _ h
  exact ⟨h1, obligationsOk_ok _ _ h2 (schema c, es) (by simp [resolveObligations])⟩

theorem check_order_ok (ks c : Tm) (h : check (.node .order [ks, c]) = .ok) :
    check c = .ok ∧ ∃ r, resolve (schema c) ks = some r ∧ r.bounded (schema c).length = true := by
  simp only [check] at h
  obtain ⟨h1, h2⟩ := Verdict.and_ok _ _ h
  exact ⟨h1, obligationsOk_ok _ _ h2 (schema c, ks) (by simp [resolveObligations])⟩

theorem check_hashagg_ok (ks as c : Tm) (h : check (.node .hashagg [ks, as, c]) = .ok) :
    check c = .ok ∧ (∃ r, resolve (schema c) ks = some r) ∧ (∃ r, resolve (schema c) as = some r) := by
  simp only [check] at h
  obtain ⟨h1, h2⟩ := Verdict.and_ok _ _ h
  obtain ⟨r2, hr2, _⟩ := obligationsOk_ok _ _ h2 (schema c, ks) (by simp [resolveObligations])
  obtain ⟨r3, hr3, _⟩ := obligationsOk_ok _ _ h2 (schema c, as) (by simp [resolveObligations])
  exact ⟨h1, ⟨r2, hr2⟩, ⟨r3, hr3⟩⟩

/-- An accepted nested-loop join has a join type the builder has an executor for (the list is read
from the source: all six since `fix:` 7d07810), both inputs are accepted and the condition
resolves over the two schemas. -/
theorem check_join_ok (t on l r : Tm) (h : check (.node .join [t, on, l, r]) = .ok) :
    check l = .ok ∧ check r = .ok ∧ (∃ x, resolve (schema l ++ schema r) on = some x) ∧
      (∃ jt, joinType? t = some jt ∧ jt ∈ nlJoinTypes) := by
  simp only [check] at h
  cases ht : joinType? t with
  | none =>
    simp only [ht] at h
    have := (Verdict.and_ok _ _ h).2; cases this
  | some jt =>
    simp only [ht] at h
    by_cases hj : nlJoinTypes.contains jt = true
    · simp only [hj, if_true] at h
      obtain ⟨h12, h3⟩ := Verdict.and_ok _ _ h
      obtain ⟨h1, h2⟩ := Verdict.and_ok _ _ h12
      obtain ⟨x, hx, _⟩ := obligationsOk_ok _ _ h3 (schema l ++ schema r, on) (by simp [resolveObligations])
      exact ⟨h1, h2, ⟨x, hx⟩, ⟨jt, rfl, by simpa using hj⟩⟩
    · simp only [hj] at h
      have := (Verdict.and_ok _ _ h).2; cases this

/-- An accepted hash join with an inner / outer type has residual condition `true` (the builder
asserts it: `hashJoinResidualMustBeTrue`, read from the source). -/
theorem check_hashjoin_residual (t cond lk rk l r : Tm) (jt : JT) (ht : joinType? t = some jt)
    (hjt : jt ≠ .semi ∧ jt ≠ .anti) (h : check (.node .hashjoin [t, cond, lk, rk, l, r]) = .ok) :
    isTrue cond = true := by
  simp only [check, ht] at h
  have hn : ¬ (jt = .semi ∨ jt = .anti) := by intro hc; cases hc <;> simp_all
  by_cases hty : (!hashJoinTypes.contains jt) = true
  · simp only [hty, if_true] at h
    have := (Verdict.and_ok _ _ h).2; cases this
  · simp only [hty, hn, if_false] at h
    by_cases hc : isTrue cond = true
    · exact hc
    · have hres := (Verdict.and_ok _ _ h).2
      simp [hashJoinResidualMustBeTrue, hc] at hres

/-- An accepted merge join is an inner or outer join (no semi / anti merge join exists) with a
`true` residual. -/
theorem check_mergejoin_ok (t cond lk rk l r : Tm) (h : check (.node .mergejoin [t, cond, lk, rk, l, r]) = .ok) :
    (∃ jt, joinType? t = some jt ∧ jt ∈ mergeJoinTypes) ∧ isTrue cond = true := by
  simp only [check] at h
  cases ht : joinType? t with
  | none =>
    simp only [ht] at h
    have := (Verdict.and_ok _ _ h).2; cases this
  | some jt =>
    simp only [ht] at h
    by_cases hty : (!mergeJoinTypes.contains jt) = true
    · simp only [hty, if_true] at h
      have := (Verdict.and_ok _ _ h).2; cases this
    · simp only [hty] at h
      refine ⟨⟨jt, rfl, by simpa using hty⟩, ?_⟩
      by_cases hc : isTrue cond = true
      · exact hc
      · have hres := (Verdict.and_ok _ _ h).2
        simp [mergeJoinResidualMustBeTrue, hc] at hres

/-- No accepted plan contains an `apply` at the root (the executor has none). -/
theorem check_apply (args : List Tm) : check (.node .apply args) ≠ .ok := by
  simp [check]

-- schema laws (output columns of the rewritten plan are those of the original) ---------------

theorem schema_filter (e c : Tm) : schema (.node .filter [e, c]) = schema c := rfl
theorem schema_order (e c : Tm) : schema (.node .order [e, c]) = schema c := rfl
theorem schema_limit (l o c : Tm) : schema (.node .limit [l, o, c]) = schema c := rfl
theorem schema_topn (l o k c : Tm) : schema (.node .topn [l, o, k, c]) = schema c := rfl
theorem schema_proj (es c : Tm) : schema (.node .proj [es, c]) = schema es := by simp [schema]

/-- … and the schema of an expression list is its items. -/
theorem schema_list (xs : List Tm) : schema (.node .list xs) = xs := by simp [schema]

/-- `pushdown-proj-order` keeps the root schema. -/
theorem applyProjOrder_schema (es ks c : Tm) :
    schema (applyProjOrder es ks c) = schema (.node .proj [es, .node .order [ks, c]]) := rfl

-- apply_proj prunes a key that is a computed column of the child ------------------------------

/-- Witness: `(proj (list K) (order (list K) (hashagg (list K) (list) (scan $1 (list $1.0 $1.1) true))))`
with `K = (* $1.1 $1.0)`.  The plan is accepted; after `pushdown-proj-order` the inserted
projection is empty and the sort key no longer resolves. -/
def wK : Tm := .node (.other 7) [.col 1 1, .col 1 0]
def wScan : Tm := .node .scan [.leaf (.table 1), .node .list [.col 1 0, .col 1 1], .leaf .tru]
def wAgg : Tm := .node .hashagg [.node .list [wK], .node .list [], wScan]
def wEs : Tm := .node .list [wK]

/-- What C17 needs of the rule: pushing a projection below ORDER BY keeps accepted plans accepted. -/
def ApplyProjOrderKeepsOk : Prop :=
  ∀ es ks c : Tm, check (.node .proj [es, .node .order [ks, c]]) = .ok → check (applyProjOrder es ks c) = .ok

theorem wPlan_ok : check (.node .proj [wEs, .node .order [wEs, wAgg]]) = .ok := by decide

/-- Before `fix:` 5c889c5 the rule broke the witness plan (the recorded finding
`plan:apply_proj-prunes-computed-key-column`) … -/
theorem applyProjOrderOld_unsound :
    ¬ ∀ es ks c : Tm, check (.node .proj [es, .node .order [ks, c]]) = .ok → check (applyProjOrderOld es ks c) = .ok := by
  intro h
  have := h wEs wEs wAgg wPlan_ok
  revert this
  decide

/-- … and the repaired applier keeps it executable. -/
theorem applyProjOrder_regression : check (applyProjOrder wEs wEs wAgg) = .ok := by decide

-- expressions the evaluator can evaluate ---------------------------------------------------------

/-- An expression that is an entry of the input's schema is a column index: evaluable. -/
theorem evalOk_of_mem (sch : List Tm) (e : Tm) (h : sch.contains e = true) : evalOk sch e = true := by
  cases e with
  | col t c => simp [evalOk]
  | leaf l => simp [evalOk]
  | node hd xs => simp [evalOk, h]

/-- A subquery form (`exists`, `max1row`, a plan) that is not itself a column of the input is not
evaluable, whatever is inside it. -/
theorem evalOk_subquery (sch : List Tm) (hd : Hd) (xs : List Tm) (hs : subqueryHead hd = true)
    (hm : sch.contains (.node hd xs) = false) : evalOk sch (.node hd xs) = false := by
  simp [evalOk, hm, hs]

/-- Any other operator is evaluable iff it is a column of the input or its arguments are. -/
theorem evalOk_node (sch : List Tm) (hd : Hd) (xs : List Tm) (hs : subqueryHead hd = false) :
    evalOk sch (.node hd xs) = (sch.contains (.node hd xs) || evalOkList sch xs) := by
  simp [evalOk, hs]

/-- The verdict is `ok` exactly when the builder accepts the plan and every expression of every
operator is evaluable. -/
theorem verdict_ok_iff (p : Tm) : verdict p = .ok ↔ check p = .ok ∧ evalCheck p = true := by
  unfold verdict
  cases hc : check p with
  | ok =>
    by_cases he : evalCheck p = true
    · simp [he]
    · simp [he]
  | buildPanic w => simp
  | runtimeTodo w => simp

/-- A plan node whose verdict is `ok` has only evaluable expressions, and so have its inputs. -/
theorem verdict_ok_node (hd : Hd) (xs : List Tm) (hp : planHead hd = true) (h : verdict (.node hd xs) = .ok) :
    obligationsEvaluable (nodeObligations (.node hd xs)) = true ∧ evalCheckList xs = true := by
  have h2 := ((verdict_ok_iff _).mp h).2
  simpa [evalCheck, hp] using h2

/-- Witness (the recorded finding `plan:subquery-left-in-optimized-plan:max1row`): the optimized
plan of `select a, (select count(*) from t2) from t1` keeps `max1row` in the projection list; the
builder accepts it, the evaluator cannot evaluate it. -/
def wSub : Tm :=
  .node .proj [.node .list [.col 0 0, .node .max1row [.node .agg [.node .list [.node (.other 5) []],
      .node .scan [.leaf (.table 1), .node .list [], .leaf .tru]]]],
    .node .scan [.leaf (.table 0), .node .list [.col 0 0], .leaf .tru]]

theorem wSub_builder_accepts : check wSub = .ok := by decide
theorem wSub_not_evaluable : evalCheck wSub = false := by decide
theorem wSub_verdict : verdict wSub ≠ .ok := by
  intro h
  have := ((verdict_ok_iff _).mp h).2
  revert this
  decide

end RlModel.Wf
