import RlModel.Lemmas.StoreCrash
import RlModel.Gen.ManifestOps
/-!
# C04 — a crash at any instant leaves a recoverable, atomic, durable database

Property theorems over the persistence-step model (`Model/StoreCrash.lean`).  They quantify over
**every** disk state that opens (`view d = ok v`, any log length, any number of tables / row-sets /
delete vectors), every statement of the write-ahead shape the code uses (any number of data-file
steps touching only files nothing references, then one manifest append `Begin e₁ … eₙ End`),
every crash position `k` and every progress of the step in flight.

Full statements are kept as `def … : Prop`; where the code does not satisfy them the negation is
proved with a concrete witness (`…_unsound`) that the check reproduces on the implementation.
-/
namespace RlModel
open Crash

/-- The step in flight did not stop inside a manifest record. -/
def Crash.NotTorn : Option Progress → Prop
  | some (.recs _ true) => False
  | _ => True

/-- A statement: data-file steps, then one manifest transaction. -/
def Crash.stmtSteps (data : List PStep) (es : List Rec) : List PStep :=
  data ++ [PStep.appendManifest ([Rec.begin] ++ es ++ [Rec.fin])]

/-! ## manifest replay -/

/-- Any proper prefix (cut between records) of an appended transaction is ignored by `replay`. -/
theorem replay_append_prefix (rs es : List Rec) (hb : Balanced rs) (h : ∀ e ∈ es, e.isBracket = false)
    (c : Nat) (hc : c < es.length + 2) :
    replay (rs ++ ([Rec.begin] ++ es ++ [Rec.fin]).take c) = replay rs := by
  rcases take_txn_cases es c hc with h0 | ⟨es', hpre, h1⟩
  · rw [h0]; simp
  · rw [h1]
    apply replay_open_txn rs es' hb
    intro e he
    exact h e (hpre.subset he)

/-- The complete transaction is applied after everything committed before, and the log is again
balanced (so the statement composes over histories of any length). -/
theorem replay_append_txn (rs es : List Rec) (hb : Balanced rs) (h : ∀ e ∈ es, e.isBracket = false) :
    replay (rs ++ ([Rec.begin] ++ es ++ [Rec.fin])) = replay rs ++ es ∧
    Balanced (rs ++ ([Rec.begin] ++ es ++ [Rec.fin])) :=
  replay_closed_txn rs es hb h

/-! ## atomicity -/

/-- FULL statement: whatever the crash position and however far the write in flight got, the
directory opens, showing the pre-state or the post-state. -/
def CrashAtomicFull : Prop :=
  ∀ (d : Disk) (v : View) (data : List PStep) (es : List Rec) (k : Nat) (p : Option Progress),
    view d = .ok v → Balanced d.recs → (∀ s ∈ data, Fresh v s) → (∀ e ∈ es, e.isBracket = false) →
    (∀ c t, p = some (.recs c t) → c < es.length + 2) →
    (view (crash d (stmtSteps data es) k p) = .ok v ∧ abs (crash d (stmtSteps data es) k p) v = abs d v) ∨
      crash d (stmtSteps data es) k p = d.applyAll (stmtSteps data es)

/-- **Full statement, proved** (since /repo bceddd9 — replay ignores an incomplete record at the
end of the file; before, the hypothesis "not cut inside a record" was needed and the full
statement was refuted by `tornWitness`): at every crash point and every progress of the write in
flight the database opens with exactly the pre-state (same view, same table contents), or the crash
image IS the post-state directory. -/
theorem crash_atomic : CrashAtomicFull := by
  intro d v data es k p hv hb hf hes hc
  have hh : ∀ x ∈ data, Harmless v x := fun x hx => Or.inl (hf x hx)
  unfold stmtSteps
  rcases Nat.lt_trichotomy k data.length with hk | hk | hk
  · left
    have h := crash_before_last v d data (PStep.appendManifest ([Rec.begin] ++ es ++ [Rec.fin])) k p hh (Or.inl hk)
    exact ⟨view_agree h.1 (by rw [h.2.1]) hv, abs_agree h.1⟩
  · -- the manifest append is the step in flight
    subst hk
    have hall := agree_applyAll_harmless v data hh d
    have htake : (data ++ [PStep.appendManifest ([Rec.begin] ++ es ++ [Rec.fin])]).take data.length = data := by simp
    have hget : (data ++ [PStep.appendManifest ([Rec.begin] ++ es ++ [Rec.fin])])[data.length]? =
        some (PStep.appendManifest ([Rec.begin] ++ es ++ [Rec.fin])) := by simp
    cases p with
    | none =>
      left
      have h := crash_before_last v d data (PStep.appendManifest ([Rec.begin] ++ es ++ [Rec.fin])) data.length none hh
        (Or.inr ⟨rfl, rfl⟩)
      exact ⟨view_agree h.1 (by rw [h.2.1]) hv, abs_agree h.1⟩
    | some pr =>
      cases pr with
      | full => right; simp [crash, htake, hget, Disk.applyAll, List.foldl_append]
      | part => right; simp [crash, htake, hget, Disk.applyAll, List.foldl_append, Disk.apply]
      | recs c t =>
        -- `c` complete records, and possibly (`t`) a torn one after them: ignored either way
        left
        have hc' := hc c t rfl
        have hd : crash d (data ++ [PStep.appendManifest ([Rec.begin] ++ es ++ [Rec.fin])]) data.length (some (.recs c t)) =
            { d.applyAll data with recs := (d.applyAll data).recs ++ ([Rec.begin] ++ es ++ [Rec.fin]).take c, torn := t } := by
          simp [crash, htake, hget, Disk.apply]
        rw [hd]
        have hag : Agree v d { d.applyAll data with recs := (d.applyAll data).recs ++ ([Rec.begin] ++ es ++ [Rec.fin]).take c, torn := t } :=
          ⟨fun x hx => hall.1.1 x hx, fun x hx => hall.1.2 x hx⟩
        refine ⟨view_agree hag ?_ hv, abs_agree hag⟩
        simp only [hall.2.1]
        exact replay_append_prefix d.recs es hb hes c hc'
  · right
    have hlen : (data ++ [PStep.appendManifest ([Rec.begin] ++ es ++ [Rec.fin])]).length ≤ k := by
      simp; omega
    unfold crash
    rw [List.take_of_length_le hlen, List.getElem?_eq_none hlen]

/-- The instance the earlier name referred to (kept for the obligation list). -/
theorem crash_atomic_partial (d : Disk) (v : View) (data : List PStep) (es : List Rec) (k : Nat)
    (p : Option Progress) (hv : view d = .ok v) (hb : Balanced d.recs) (hf : ∀ s ∈ data, Fresh v s)
    (hes : ∀ e ∈ es, e.isBracket = false) (_hnt : NotTorn p)
    (hc : ∀ c t, p = some (.recs c t) → c < es.length + 2) :
    (view (crash d (stmtSteps data es) k p) = .ok v ∧ abs (crash d (stmtSteps data es) k p) v = abs d v) ∨
      crash d (stmtSteps data es) k p = d.applyAll (stmtSteps data es) :=
  crash_atomic d v data es k p hv hb hf hes hc

/-- The former witness against atomicity: `CREATE TABLE u` cut inside its manifest record. -/
def tornWitness : Disk :=
  { Disk.empty with boot := 3, recs := [.begin, .createTable "t" 2, .fin] }

/-- REGRESSION (was `crash_atomic_unsound`: `view = error "json-eof"`, database unopenable): the
torn image opens, with the pre-state. -/
theorem crash_atomic_torn_regression :
    view (crash tornWitness (stmtSteps [] [.createTable "u" 2]) 0 (some (.recs 1 true))) =
      .ok ⟨[⟨"t", 0, 2⟩], 1, [.createTable "t" 2], [], [], 0, 0⟩ := rfl

/-! ## durability -/

/-- Nothing committed before is lost or reordered by a crash during a later statement: the
operations replayed from the crash image extend those replayed before — for **every** crash
position, torn or not. (Whether the image *opens* is `crash_atomic_partial`.) -/
theorem crash_durable (d : Disk) (v : View) (data : List PStep) (es : List Rec) (k : Nat)
    (p : Option Progress) (hb : Balanced d.recs) (hf : ∀ s ∈ data, Fresh v s)
    (hes : ∀ e ∈ es, e.isBracket = false) :
    replay d.recs <+: replay (crash d (stmtSteps data es) k p).recs := by
  have hh : ∀ x ∈ data, Harmless v x := fun x hx => Or.inl (hf x hx)
  unfold stmtSteps
  rcases Nat.lt_trichotomy k data.length with hk | hk | hk
  · have h := crash_before_last v d data (PStep.appendManifest ([Rec.begin] ++ es ++ [Rec.fin])) k p hh (Or.inl hk)
    rw [h.2.1]; exact List.prefix_refl _
  · subst hk
    have hall := agree_applyAll_harmless v data hh d
    have htake : (data ++ [PStep.appendManifest ([Rec.begin] ++ es ++ [Rec.fin])]).take data.length = data := by simp
    have hget : (data ++ [PStep.appendManifest ([Rec.begin] ++ es ++ [Rec.fin])])[data.length]? =
        some (PStep.appendManifest ([Rec.begin] ++ es ++ [Rec.fin])) := by simp
    have hfull : replay d.recs <+: replay (d.recs ++ ([Rec.begin] ++ es ++ [Rec.fin])) := by
      rw [(replay_append_txn d.recs es hb hes).1]; exact List.prefix_append _ _
    cases p with
    | none => simp only [crash, htake, hget, hall.2.1]; exact List.prefix_refl _
    | some pr =>
      cases pr with
      | full => simp only [crash, htake, hget, Disk.apply, hall.2.1]; exact hfull
      | part => simp only [crash, htake, hget, Disk.apply, hall.2.1]; exact hfull
      | recs c t =>
        simp only [crash, htake, hget, Disk.apply, hall.2.1]
        by_cases hc : c < es.length + 2
        · rw [replay_append_prefix d.recs es hb hes c hc]; exact List.prefix_refl _
        · have : ([Rec.begin] ++ es ++ [Rec.fin]).take c = [Rec.begin] ++ es ++ [Rec.fin] := by
            apply List.take_of_length_le; simp; omega
          rw [this]; exact hfull
  · have hlen : (data ++ [PStep.appendManifest ([Rec.begin] ++ es ++ [Rec.fin])]).length ≤ k := by
      simp; omega
    have hall := agree_applyAll_harmless v data hh d
    unfold crash
    rw [List.take_of_length_le hlen, List.getElem?_eq_none hlen]
    have hrecs : (d.applyAll (data ++ [PStep.appendManifest ([Rec.begin] ++ es ++ [Rec.fin])])).recs =
        (d.applyAll data).recs ++ ([Rec.begin] ++ es ++ [Rec.fin]) := by
      simp [Disk.applyAll, List.foldl_append, Disk.apply]
    simp only [hrecs, hall.2.1]
    rw [(replay_append_txn d.recs es hb hes).1]; exact List.prefix_append _ _

/-! ## crashes inside recovery -/

/-- The steps of `bootstrap` in front of its `rename`. -/
def Crash.recoverPrefix (d : Disk) (v : View) : List PStep :=
  (if d.boot < 1 then [PStep.mkdirDb] else []) ++ (if d.boot < 2 then [PStep.mkdirDv] else []) ++
  (if d.boot < 3 then [PStep.createManifest] else []) ++
  (orphans d v).map (fun x => PStep.rmdir x.t x.r) ++
  (orphanDvs d v).map (fun x => PStep.rmdv x.t x.r x.d) ++
  [PStep.createTmp, PStep.appendTmp (rewriteRecs v)]

theorem recoverSteps_eq (d : Disk) (v : View) :
    recoverSteps d v = recoverPrefix d v ++ [PStep.renameTmp, PStep.syncDir] := by
  simp [recoverSteps, recoverPrefix]

theorem recoverPrefix_harmless (d : Disk) (v : View) : ∀ x ∈ recoverPrefix d v, Harmless v x := by
  intro x hx
  simp only [recoverPrefix, List.mem_append, List.mem_map, List.mem_cons, List.mem_nil_iff, or_false] at hx
  rcases hx with ((((hx | hx) | hx) | ⟨o, ho, hx⟩) | ⟨o, ho, hx⟩) | hx | hx
  · split at hx <;> simp at hx; subst hx; exact Or.inr (Or.inl rfl)
  · split at hx <;> simp at hx; subst hx; exact Or.inr (Or.inr (Or.inl rfl))
  · split at hx <;> simp at hx; subst hx; exact Or.inr (Or.inr (Or.inr (Or.inl rfl)))
  · subst hx
    left
    simp only [orphans, List.mem_filter] at ho
    simp only [Fresh]
    intro hmem
    have := ho.2
    simp [hmem] at this
  · subst hx
    left
    simp only [orphanDvs, List.mem_filter] at ho
    simp only [Fresh]
    intro hmem
    have := ho.2
    simp [hmem] at this
  · subst hx; exact Or.inr (Or.inr (Or.inr (Or.inr (Or.inl rfl))))
  · subst hx; exact Or.inr (Or.inr (Or.inr (Or.inr (Or.inr (Or.inr ⟨_, rfl⟩)))))

/-- A crash anywhere inside recovery before its final `rename` — including inside the write of
`manifest.tmp.json`, torn or not — leaves a directory that opens to exactly the same view and
contents: recovering again gives the same state. -/
theorem recover_idempotent_partial (d : Disk) (v : View) (hv : view d = .ok v) (k : Nat) (p : Option Progress)
    (hk : k < (recoverPrefix d v).length ∨ (k = (recoverPrefix d v).length ∧ p = none)) :
    view (crash d (recoverSteps d v) k p) = .ok v ∧ abs (crash d (recoverSteps d v) k p) v = abs d v := by
  rw [recoverSteps_eq]
  have h := crash_before_tail v d (recoverPrefix d v) [PStep.renameTmp, PStep.syncDir] k p (recoverPrefix_harmless d v) hk
  exact ⟨view_agree h.1 (by rw [h.2.1]) hv, abs_agree h.1⟩

/-! ## the state after recovery's `rename`, and crashes at every position of recovery -/

theorem view_of_parts {d : Disk} {v : View}
    (hl : View.empty.applyRecs (replay d.recs) = .ok v) (hf : filesOk d v = true) : view d = .ok v := by
  simp [view, hl, hf]

/-- The directory right after the `rename` (the directory fsync may still be missing: `shadow`). -/
theorem applyAll_renamed (d : Disk) (v : View) :
    d.applyAll (recoverPrefix d v ++ [PStep.renameTmp]) =
      { d.applyAll (recoverPrefix d v) with recs := rewriteRecs v, torn := false, tmp := none, shadow := some (d.applyAll (recoverPrefix d v)).recs } := by
  have htmp : (d.applyAll (recoverPrefix d v)).tmp = some (rewriteRecs v, false) := by
    simp [recoverPrefix, Disk.applyAll, List.foldl_append, Disk.apply]
  have happ : d.applyAll (recoverPrefix d v ++ [PStep.renameTmp]) = (d.applyAll (recoverPrefix d v)).apply .renameTmp .full := by
    simp [Disk.applyAll, List.foldl_append]
  rw [happ]
  generalize d.applyAll (recoverPrefix d v) = d1 at htmp ⊢
  simp only [Disk.apply, htmp]

/-- The directory recovery leaves behind. -/
theorem applyAll_recoverSteps (d : Disk) (v : View) :
    d.applyAll (recoverSteps d v) =
      { d.applyAll (recoverPrefix d v) with recs := rewriteRecs v, torn := false, tmp := none, shadow := none } := by
  have h := applyAll_renamed d v
  have happ : d.applyAll (recoverSteps d v) = (d.applyAll (recoverPrefix d v ++ [PStep.renameTmp])).apply .syncDir .full := by
    rw [recoverSteps_eq]
    have : recoverPrefix d v ++ [PStep.renameTmp, PStep.syncDir] = (recoverPrefix d v ++ [PStep.renameTmp]) ++ [PStep.syncDir] := by simp
    rw [this]
    simp [Disk.applyAll, List.foldl_append]
  rw [happ, h]
  rfl

/-- Recovery ends with the directory fsynced: no rename is pending any more. -/
theorem recover_clears_shadow (d : Disk) (s : State) (h : recover d = .ok s) : s.disk.shadow = none := by
  unfold recover at h
  cases hv : view d with
  | error e => simp [hv] at h
  | ok v => simp only [hv] at h; cases h; rw [applyAll_recoverSteps]

/-- What the image looks like at any point after the rename: the recovered directory, up to the
`shadow` bookkeeping (which `view` and `abs` do not look at). -/
theorem view_after_rename (d : Disk) (v : View) (hv : view d = .ok v) (sh : Option (List Rec)) :
    ∃ n m, view { d.applyAll (recoverSteps d v) with shadow := sh } = .ok { v with nextR := n, nextD := m } ∧
      abs { d.applyAll (recoverSteps d v) with shadow := sh } { v with nextR := n, nextD := m } = abs d v := by
  obtain ⟨n, m, hload⟩ := load_rewrite v (canon_of_view hv)
  have h1 := agree_applyAll_harmless v (recoverPrefix d v) (recoverPrefix_harmless d v) d
  have hag : Agree v d { d.applyAll (recoverSteps d v) with shadow := sh } := by
    rw [applyAll_recoverSteps]
    exact ⟨fun x hx => h1.1.1 x hx, fun x hx => h1.1.2 x hx⟩
  refine ⟨n, m, ?_, ?_⟩
  · apply view_of_parts
    · rw [applyAll_recoverSteps]; exact hload
    · have : filesOk { d.applyAll (recoverSteps d v) with shadow := sh } { v with nextR := n, nextD := m } =
          filesOk { d.applyAll (recoverSteps d v) with shadow := sh } v := rfl
      rw [this, filesOk_agree hag]
      exact (view_ok_parts hv).2
  · have : abs { d.applyAll (recoverSteps d v) with shadow := sh } { v with nextR := n, nextD := m } =
        abs { d.applyAll (recoverSteps d v) with shadow := sh } v := rfl
    rw [this, abs_agree hag]

/-- **The recovered store's rewritten manifest replays to the same state**: for every directory
that opens, the directory recovery leaves opens again, to a view with the same tables, row-sets and
delete vectors (only the id counters are re-derived), hence the same contents. -/
theorem recover_after_rename (d : Disk) (v : View) (hv : view d = .ok v) :
    ∃ n m, view (d.applyAll (recoverSteps d v)) = .ok { v with nextR := n, nextD := m } ∧
      abs (d.applyAll (recoverSteps d v)) { v with nextR := n, nextD := m } = abs d v :=
  view_after_rename d v hv (d.applyAll (recoverSteps d v)).shadow

/-- Crash-inside-recovery at **every** position `k` and every progress of the step in flight
(before, during or after the `rename`, before or after the directory fsync): the image opens,
with the same contents. -/
theorem recover_idempotent (d : Disk) (v : View) (hv : view d = .ok v) (k : Nat) (p : Option Progress) :
    ∃ v', view (crash d (recoverSteps d v) k p) = .ok v' ∧ abs (crash d (recoverSteps d v) k p) v' = abs d v := by
  by_cases hk : k < (recoverPrefix d v).length ∨ (k = (recoverPrefix d v).length ∧ p = none)
  · exact ⟨v, recover_idempotent_partial d v hv k p hk⟩
  · -- the rename happened: the image is the directory right after the rename (`B`) or the fully
    -- recovered one (`A`); they differ in `shadow` only
    have hA : d.applyAll (recoverSteps d v) = (d.applyAll (recoverPrefix d v ++ [PStep.renameTmp])).apply .syncDir .full := by
      rw [recoverSteps_eq]
      have : recoverPrefix d v ++ [PStep.renameTmp, PStep.syncDir] = (recoverPrefix d v ++ [PStep.renameTmp]) ++ [PStep.syncDir] := by simp
      rw [this]
      simp [Disk.applyAll, List.foldl_append]
    have hB : d.applyAll (recoverPrefix d v ++ [PStep.renameTmp]) =
        { d.applyAll (recoverSteps d v) with shadow := some (d.applyAll (recoverPrefix d v)).recs } := by
      rw [applyAll_renamed, applyAll_recoverSteps]
    have himg : crash d (recoverSteps d v) k p = d.applyAll (recoverSteps d v) ∨
        crash d (recoverSteps d v) k p = d.applyAll (recoverPrefix d v ++ [PStep.renameTmp]) := by
      have hlen : (recoverSteps d v).length = (recoverPrefix d v).length + 2 := by rw [recoverSteps_eq]; simp
      rcases Nat.lt_trichotomy k (recoverPrefix d v).length with h | h | h
      · exact absurd (Or.inl h) hk
      · cases p with
        | none => exact absurd (Or.inr ⟨h, rfl⟩) hk
        | some pr =>
          right
          rw [recoverSteps_eq]
          unfold crash
          have htake : (recoverPrefix d v ++ [PStep.renameTmp, PStep.syncDir]).take k = recoverPrefix d v := by rw [h]; simp
          have hget : (recoverPrefix d v ++ [PStep.renameTmp, PStep.syncDir])[k]? = some PStep.renameTmp := by rw [h]; simp
          rw [htake, hget]
          simp [Disk.applyAll, List.foldl_append, Disk.apply]
      · by_cases h1 : k = (recoverPrefix d v).length + 1
        · have hsplit : recoverPrefix d v ++ [PStep.renameTmp, PStep.syncDir] = (recoverPrefix d v ++ [PStep.renameTmp]) ++ [PStep.syncDir] := by simp
          have htake : (recoverPrefix d v ++ [PStep.renameTmp, PStep.syncDir]).take k = recoverPrefix d v ++ [PStep.renameTmp] := by
            rw [h1, hsplit, List.take_append_of_le_length (by simp)]
            exact List.take_of_length_le (by simp)
          have hget : (recoverPrefix d v ++ [PStep.renameTmp, PStep.syncDir])[k]? = some PStep.syncDir := by
            rw [h1]; simp
          cases p with
          | none =>
            right
            rw [recoverSteps_eq]
            unfold crash
            rw [htake, hget]
          | some pr =>
            left
            rw [hA, recoverSteps_eq]
            unfold crash
            rw [htake, hget]
            rfl
        · have hle : (recoverSteps d v).length ≤ k := by omega
          left
          unfold crash
          rw [List.take_of_length_le hle, List.getElem?_eq_none hle]
    rcases himg with himg | himg
    · rw [himg]
      obtain ⟨n, m, h1, h2⟩ := recover_after_rename d v hv
      exact ⟨_, h1, h2⟩
    · rw [himg, hB]
      obtain ⟨n, m, h1, h2⟩ := view_after_rename d v hv (some (d.applyAll (recoverPrefix d v)).recs)
      exact ⟨_, h1, h2⟩

theorem abs_next (d : Disk) (v : View) (n m : Nat) : abs d { v with nextR := n, nextD := m } = abs d v := rfl

/-- `recover (recover d) = recover d` up to `abs`, for every `d` that opens. -/
theorem recover_recover (d : Disk) (s : State) (h : recover d = .ok s) :
    ∃ s', recover s.disk = .ok s' ∧ abs s'.disk s'.mem = abs s.disk s.mem := by
  unfold recover at h
  cases hv : view d with
  | error e => simp [hv] at h
  | ok v =>
    simp only [hv] at h
    cases h
    obtain ⟨n, m, h1, h2⟩ := recover_after_rename d v hv
    obtain ⟨n', m', _, h4⟩ := recover_after_rename _ _ h1
    refine ⟨⟨(d.applyAll (recoverSteps d v)).applyAll (recoverSteps (d.applyAll (recoverSteps d v)) { v with nextR := n, nextD := m }),
      { v with nextR := n, nextD := m }, []⟩, ?_, ?_⟩
    · simp only [recover, h1]
    simp only
    rw [abs_next] at h4
    rw [h4, h2]
    have h0 := agree_applyAll_harmless v (recoverPrefix d v) (recoverPrefix_harmless d v) d
    have hag : Agree v d (d.applyAll (recoverSteps d v)) := by
      rw [applyAll_recoverSteps]
      exact ⟨fun x hx => h0.1.1 x hx, fun x hx => h0.1.2 x hx⟩
    exact (abs_agree hag).symm

/-! ## histories (induction over every sequence of statements) -/

/-- The steps of a logging statement are its write-ahead steps followed by one manifest append. -/
theorem psteps_of_txn (s : State) (op : Op) (es : List Rec) (h : txnOf s op = some es) :
    psteps s op = stmtSteps (dataSteps s op) es := by
  cases op with
  | reopen => simp [txnOf] at h
  | vacuum => simp [txnOf] at h
  | create name n => simp only [psteps, h, stmtSteps]
  | drop name => simp only [psteps, h, stmtSteps]
  | insert name rows => simp only [psteps, h, stmtSteps]
  | delete name c k => simp only [psteps, h, stmtSteps]
  | compact name => simp only [psteps, h, stmtSteps]

theorem applyAll_stmtSteps_recs (d : Disk) (data : List PStep) (es : List Rec)
    (hf : ∀ x ∈ data, Fresh View.empty x) :
    (d.applyAll (stmtSteps data es)).recs = d.recs ++ ([Rec.begin] ++ es ++ [Rec.fin]) := by
  have h := agree_applyAll_fresh View.empty data hf d
  have : (d.applyAll (stmtSteps data es)).recs = (d.applyAll data).recs ++ ([Rec.begin] ++ es ++ [Rec.fin]) := by
    simp [stmtSteps, Disk.applyAll, List.foldl_append, Disk.apply]
  rw [this, h.2.1]

/-- One acknowledged statement — create, drop, insert, delete, compaction, vacuum, or a clean
reopen — keeps the log balanced. -/
theorem step_balanced (s : State) (op : Op) (hb : Balanced s.disk.recs) : Balanced (step s op).disk.recs := by
  by_cases hre : op = .reopen
  · subst hre
    simp only [step]
    cases hr : recover s.disk with
    | error e => exact hb
    | ok s' =>
      simp only
      unfold recover at hr
      cases hv : view s.disk with
      | error e => simp [hv] at hr
      | ok v =>
        simp only [hv] at hr
        cases hr
        rw [applyAll_recoverSteps]
        exact rewriteRecs_balanced v (canon_of_view hv)
  by_cases hva : op = .vacuum
  · subst hva
    simp only [step, psteps]
    have hf : ∀ x ∈ s.pending.map (fun x => PStep.rmdir x.1 x.2), Fresh View.empty x := by
      intro x hx
      simp only [List.mem_map] at hx
      obtain ⟨y, _, rfl⟩ := hx
      exact fresh_empty_rmdir _ _
    rw [(agree_applyAll_fresh View.empty _ hf s.disk).2.1]
    exact hb
  -- a logging statement
  have hstep : (step s op).disk.recs = s.disk.recs ∨
      ∃ es, txnOf s op = some es ∧ (step s op).disk.recs = s.disk.recs ++ ([Rec.begin] ++ es ++ [Rec.fin]) := by
    cases htx : txnOf s op with
    | none => left; cases op <;> simp_all [step]
    | some es =>
      cases hap : s.mem.applyRecs es with
      | error e => left; cases op <;> simp_all [step]
      | ok v =>
        right
        refine ⟨es, rfl, ?_⟩
        have : (step s op).disk = s.disk.applyAll (psteps s op) := by
          cases op <;> simp_all [step]
        rw [this, psteps_of_txn s op es htx]
        exact applyAll_stmtSteps_recs s.disk (dataSteps s op) es (dataSteps_fresh_empty s op)
  rcases hstep with h | ⟨es, htx, h⟩
  · rw [h]; exact hb
  · rw [h]; exact (replay_append_txn s.disk.recs es hb (txnOf_nonbracket s op es htx)).2

/-- **Induction over histories**: after any sequence of statements, of any length, starting from a
balanced log (e.g. a fresh bootstrap), the log is balanced — the hypothesis `Balanced` of
`crash_atomic` / `crash_durable` holds in every reachable state. -/
theorem run_balanced (s : State) (ops : List Op) (hb : Balanced s.disk.recs) : Balanced (run s ops).disk.recs := by
  induction ops generalizing s with
  | nil => exact hb
  | cons op ops ih =>
    simp only [run, List.foldl_cons]
    exact ih (step s op) (step_balanced s op hb)

/-- **Durability over histories**: for every history `ops`, every next logging statement `op`,
every crash position and every progress of the write in flight (torn or not), the operations
replayed from the crash image extend those the history committed — nothing acknowledged is lost
or reordered. -/
theorem crash_durable_history (s0 : State) (hb : Balanced s0.disk.recs) (ops : List Op) (op : Op)
    (es : List Rec) (htx : txnOf (run s0 ops) op = some es) (k : Nat) (p : Option Progress) :
    replay (run s0 ops).disk.recs <+:
      replay (crash (run s0 ops).disk (psteps (run s0 ops) op) k p).recs := by
  rw [psteps_of_txn _ op es htx]
  exact crash_durable (run s0 ops).disk View.empty (dataSteps (run s0 ops) op) es k p
    (run_balanced s0 ops hb) (dataSteps_fresh_empty _ op) (txnOf_nonbracket _ op es htx)

/-! ## background vacuum -/

/-- The vacuum task only unlinks directories nothing references: a crash anywhere among its
unlinks (or among any steps of that kind) leaves the view and the contents untouched. -/
theorem vacuum_crash_harmless (d : Disk) (v : View) (hv : view d = .ok v) (steps : List PStep)
    (hf : ∀ s ∈ steps, Fresh v s) (k : Nat) (p : Option Progress) :
    view (crash d steps k p) = .ok v ∧ abs (crash d steps k p) v = abs d v := by
  have hh : ∀ x ∈ steps, Harmless v x := fun x hx => Or.inl (hf x hx)
  -- pad with a harmless last step so that `crash_before_last` applies to every `k`
  have key : ∀ k p, Agree v d (crash d steps k p) ∧ (crash d steps k p).recs = d.recs ∧ (crash d steps k p).torn = d.torn := by
    intro k p
    have h0 := agree_applyAll_harmless v (steps.take k) (fun x hx => hh x (List.mem_of_mem_take hx)) d
    unfold crash
    cases hg : steps[k]? with
    | none => exact h0
    | some s =>
      cases p with
      | none => exact h0
      | some pr =>
        have hs : s ∈ steps := List.mem_of_getElem? hg
        have h1 := agree_apply_harmless v (d.applyAll (steps.take k)) s pr (hh s hs)
        exact ⟨Agree.trans h0.1 h1.1, h1.2.1.trans h0.2.1, h1.2.2.trans h0.2.2⟩
  have h := key k p
  exact ⟨view_agree h.1 (by rw [h.2.1]) hv, abs_agree h.1⟩

/-! ## the rename and its directory fsync -/

/-- Between the `rename` and the directory fsync the rename may still be lost at a crash: the
directory then holds the old `manifest.json` next to a complete `manifest.tmp.json`; it opens to
the same view and contents. -/
theorem lost_rename_right_after_rename (d : Disk) (v : View) (hv : view d = .ok v) :
    view (loseRename (d.applyAll (recoverPrefix d v ++ [PStep.renameTmp]))) = .ok v ∧
      abs (loseRename (d.applyAll (recoverPrefix d v ++ [PStep.renameTmp]))) v = abs d v := by
  have h0 := agree_applyAll_harmless v (recoverPrefix d v) (recoverPrefix_harmless d v) d
  have hag : Agree v d (loseRename (d.applyAll (recoverPrefix d v ++ [PStep.renameTmp]))) := by
    rw [applyAll_renamed]
    exact ⟨fun x hx => h0.1.1 x hx, fun x hx => h0.1.2 x hx⟩
  have hrecs : (loseRename (d.applyAll (recoverPrefix d v ++ [PStep.renameTmp]))).recs = d.recs := by
    rw [applyAll_renamed]; simp [loseRename, h0.2.1]
  exact ⟨view_agree hag (by rw [hrecs]) hv, abs_agree hag⟩

/-- Once recovery has completed (directory fsynced, /repo 96ec538) there is no rename left to
lose. -/
theorem lost_rename_after_recovery (d : Disk) (s : State) (h : recover d = .ok s) : loseRename s.disk = s.disk := by
  have := recover_clears_shadow d s h
  simp [loseRename, this]

/-- The former witness state (a store with the rename still pending while statements run): boot,
`CREATE TABLE t`, rename lost ⇒ the table was gone. Not reachable any more. -/
def lostRenameState : State :=
  ⟨⟨3, [.begin, .fin], false, none, [], [], some []⟩, View.empty, []⟩

/-- REGRESSION (was `lost_rename_durable_unsound`): the same history on a store booted by the
repaired `recover` — fresh directory, `CREATE TABLE t`, then the file system drops whatever
rename it still may — keeps the table. -/
theorem lost_rename_regression :
    (match recover Disk.empty with
     | .ok s0 => (match recover (loseRename (run s0 [.create "t" 2]).disk) with
        | .ok s' => abs s'.disk s'.mem == abs (run s0 [.create "t" 2]).disk (run s0 [.create "t" 2]).mem
        | .error _ => false)
     | .error _ => false) = true := by decide

/-! ## post-recovery statements -/

/-- FULL statement: after recovering any crash image of a DELETE, a following DELETE on the same
table can create its files. -/
def PostRecoveryAcceptsFull : Prop :=
  ∀ (s : State) (name : String) (c : Cmp) (kk : Int) (k : Nat) (p : Option Progress) (s' : State),
    view s.disk = .ok s.mem → NotTorn p →
    recover (crash s.disk (psteps s (.delete name c kk)) k p) = .ok s' →
    allEnabled s'.disk (psteps s' (.delete name c kk)) = true

/-- Recovery removes every unreferenced *row-set directory*; so the directory an INSERT creates
next never exists. -/
theorem post_recovery_accepts_insert (d : Disk) (v : View) (t r : Nat) (h : (t, r) ∉ v.rowsets) :
    findRowset (d.applyAll ((orphans d v).map fun x => PStep.rmdir x.t x.r)) t r = none := by
  have key : ∀ (os : List RowsetDir) (d0 : Disk), (∀ x ∈ d0.rowsets, (x.t, x.r) ∉ v.rowsets → x ∈ os) →
      findRowset (d0.applyAll (os.map fun x => PStep.rmdir x.t x.r)) t r = none := by
    intro os
    induction os with
    | nil =>
      intro d0 hall
      simp only [List.map_nil, Disk.applyAll, List.foldl_nil, findRowset, List.find?_eq_none]
      intro x hx
      by_cases hm : (x.t, x.r) ∈ v.rowsets
      · simp; intro h1 h2; exact h (by rw [← h1, ← h2]; exact hm)
      · exact absurd (hall x hx hm) (by simp)
    | cons o os ih =>
      intro d0 hall
      simp only [List.map_cons, Disk.applyAll, List.foldl_cons]
      apply ih
      intro x hx hm
      simp only [Disk.apply, List.mem_filter] at hx
      have := hall x hx.1 hm
      rcases List.mem_cons.mp this with he | he
      · subst he; simp at hx
      · exact he
  apply key
  intro x hx hm
  simp only [orphans, List.mem_filter]
  exact ⟨hx, by simp [hm]⟩

/-- …and (since /repo 36211f7) every unreferenced *delete-vector file* as well, so the file a
DELETE creates next never exists either. -/
theorem post_recovery_accepts_dv (d : Disk) (v : View) (t r dv : Nat) (h : (t, r, dv) ∉ v.dvs) :
    findDv (d.applyAll ((orphanDvs d v).map fun x => PStep.rmdv x.t x.r x.d)) t r dv = none := by
  have key : ∀ (os : List DvFile) (d0 : Disk), (∀ x ∈ d0.dvfiles, (x.t, x.r, x.d) ∉ v.dvs → x ∈ os) →
      findDv (d0.applyAll (os.map fun x => PStep.rmdv x.t x.r x.d)) t r dv = none := by
    intro os
    induction os with
    | nil =>
      intro d0 hall
      simp only [List.map_nil, Disk.applyAll, List.foldl_nil, findDv, List.find?_eq_none]
      intro x hx
      by_cases hm : (x.t, x.r, x.d) ∈ v.dvs
      · simp; intro h1 h2 h3; exact h (by rw [← h1, ← h2, ← h3]; exact hm)
      · exact absurd (hall x hx hm) (by simp)
    | cons o os ih =>
      intro d0 hall
      simp only [List.map_cons, Disk.applyAll, List.foldl_cons]
      apply ih
      intro x hx hm
      simp only [Disk.apply, List.mem_filter] at hx
      have := hall x hx.1 hm
      rcases List.mem_cons.mp this with he | he
      · subst he; simp at hx
      · exact he
  apply key
  intro x hx hm
  simp only [orphanDvs, List.mem_filter]
  exact ⟨hx, by simp [hm]⟩

/-- The former witness: `DELETE FROM t WHERE a >= 3` interrupted after its DV file was written,
then recovered. -/
def orphanDvState : State :=
  ⟨⟨3, [.begin, .createTable "t" 2, .addRowSet 0 0, .fin], false, none,
      [⟨0, 0, [[2, 5], [3, 6]], 4, 4, false⟩], [], none⟩,
   ⟨[⟨"t", 0, 2⟩], 1, [.createTable "t" 2], [(0, 0)], [], 1, 0⟩, []⟩

/-- The state after recovering the crash image (DV file written, manifest not appended). -/
def orphanRecovered : State :=
  match recover (crash orphanDvState.disk (psteps orphanDvState (.delete "t" .ge 3)) 1 none) with
  | .ok s => s
  | .error _ => orphanDvState

/-- REGRESSION (was `post_recovery_accepts_unsound`: the next DELETE failed on `create_new`): the
orphan file is gone after recovery and the same DELETE can create its files. -/
theorem post_recovery_accepts_regression :
    recover (crash orphanDvState.disk (psteps orphanDvState (.delete "t" .ge 3)) 1 none) = .ok orphanRecovered ∧
    orphanRecovered.disk.dvfiles = [] ∧
    allEnabled orphanRecovered.disk (psteps orphanRecovered (.delete "t" .ge 3)) = true := ⟨rfl, by decide, by decide⟩

/-! ## translator tie: the manifest record kinds are those of the source -/

/-- Name of the `ManifestOperation` variant a model record stands for. -/
def Crash.Rec.kindName : Rec → String
  | .createTable _ _ => "CreateTable" | .dropTable _ => "DropTable"
  | .addRowSet _ _ => "AddRowSet" | .deleteRowSet _ _ => "DeleteRowSet"
  | .addDV _ _ _ => "AddDV" | .deleteDV _ _ _ => "DeleteDV"
  | .begin => "Begin" | .fin => "End"

/-- The model's record kinds, one representative per constructor of `Rec`, in source order. -/
def Crash.recKinds : List String :=
  [Rec.createTable "" 0, .dropTable 0, .addRowSet 0 0, .deleteRowSet 0 0, .addDV 0 0 0, .deleteDV 0 0 0, .begin, .fin].map Rec.kindName

/-- The model has exactly the record kinds `enum ManifestOperation` has in the source of this run
(`Gen.manifestOps` is regenerated from manifest.rs by the check). -/
theorem manifest_ops_match : recKinds = Gen.manifestOps := by decide

/-- …and every model record is of one of them. -/
theorem rec_kind_listed (r : Rec) : r.kindName ∈ Gen.manifestOps := by
  cases r <;> simp [Rec.kindName, Gen.manifestOps]

/-! ## non-vacuity -/

example : view tornWitness = .ok ⟨[⟨"t", 0, 2⟩], 1, [.createTable "t" 2], [], [], 0, 0⟩ := rfl
example : Balanced tornWitness.recs := rfl
example : view orphanDvState.disk = .ok orphanDvState.mem := rfl
example : Fresh orphanDvState.mem (.writeDv 0 0 0 [1]) := by simp [Fresh, orphanDvState]
example : (recoverPrefix orphanDvState.disk orphanDvState.mem).length = 2 := by decide
example : (orphanDvs (crash orphanDvState.disk (psteps orphanDvState (.delete "t" .ge 3)) 1 none) orphanDvState.mem).length = 1 := by decide
example : loseRename lostRenameState.disk ≠ lostRenameState.disk := by decide
/-- the hypotheses of `run_balanced` / `crash_durable_history` are met by a fresh bootstrap and a
history that creates a table, inserts, and is then interrupted in a DELETE -/
def bootState : State := match recover Disk.empty with | .ok s => s | .error _ => ⟨Disk.empty, View.empty, []⟩
example : recover Disk.empty = .ok bootState := rfl
example : Balanced bootState.disk.recs := rfl
example : txnOf (run bootState [.create "t" 2, .insert "t" [[1, 2], [3, 4]]]) (.delete "t" .ge 3) = some [.addDV 0 0 0] := by decide

end RlModel
