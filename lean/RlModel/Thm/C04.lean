import RlModel.Lemmas.StoreCrash
/-!
# C04 — a crash at any instant leaves a recoverable, atomic, durable database

Property theorems over the persistence-step model (`Model/StoreCrash.lean`).  They quantify over
**every** disk state that opens (`view d = ok v`, any log length, any number of tables / row-sets /
delete vectors), every statement of the write-ahead shape the code uses (any number of data-file
steps touching only files nothing references, then one manifest append `Begin e₁ … eₙ End`),
every crash position `k` and every progress of the step in flight.

Full statements are kept as `def … : Prop`; where the code does not satisfy them the negation is
proved with a concrete witness (`…_unsound`) that the check reproduces on the implementation.
-/
namespace RlModel
open Crash

/-- The step in flight did not stop inside a manifest record. -/
def Crash.NotTorn : Option Progress → Prop
  | some (.recs _ true) => False
  | _ => True

/-- A statement: data-file steps, then one manifest transaction. -/
def Crash.stmtSteps (data : List PStep) (es : List Rec) : List PStep :=
  data ++ [PStep.appendManifest ([Rec.begin] ++ es ++ [Rec.fin])]

/-! ## manifest replay -/

/-- Any proper prefix (cut between records) of an appended transaction is ignored by `replay`. -/
theorem replay_append_prefix (rs es : List Rec) (hb : Balanced rs) (h : ∀ e ∈ es, e.isBracket = false)
    (c : Nat) (hc : c < es.length + 2) :
    replay (rs ++ ([Rec.begin] ++ es ++ [Rec.fin]).take c) = replay rs := by
  rcases take_txn_cases es c hc with h0 | ⟨es', hpre, h1⟩
  · rw [h0]; simp
  · rw [h1]
    apply replay_open_txn rs es' hb
    intro e he
    exact h e (hpre.subset he)

/-- The complete transaction is applied after everything committed before, and the log is again
balanced (so the statement composes over histories of any length). -/
theorem replay_append_txn (rs es : List Rec) (hb : Balanced rs) (h : ∀ e ∈ es, e.isBracket = false) :
    replay (rs ++ ([Rec.begin] ++ es ++ [Rec.fin])) = replay rs ++ es ∧
    Balanced (rs ++ ([Rec.begin] ++ es ++ [Rec.fin])) :=
  replay_closed_txn rs es hb h

/-! ## atomicity -/

/-- FULL statement: whatever the crash position and however far the write in flight got, the
directory opens, showing the pre-state or the post-state. -/
def CrashAtomicFull : Prop :=
  ∀ (d : Disk) (v : View) (data : List PStep) (es : List Rec) (k : Nat) (p : Option Progress),
    view d = .ok v → Balanced d.recs → (∀ s ∈ data, Fresh v s) → (∀ e ∈ es, e.isBracket = false) →
    (∀ c t, p = some (.recs c t) → c < es.length + 2) →
    (view (crash d (stmtSteps data es) k p) = .ok v ∧ abs (crash d (stmtSteps data es) k p) v = abs d v) ∨
      crash d (stmtSteps data es) k p = d.applyAll (stmtSteps data es)

/-- Proved part: it holds at every crash point except a cut *inside* a manifest record: the
database then opens with exactly the pre-state (same view, same table contents) or the crash
image IS the post-state directory. -/
theorem crash_atomic_partial (d : Disk) (v : View) (data : List PStep) (es : List Rec) (k : Nat)
    (p : Option Progress) (hv : view d = .ok v) (hb : Balanced d.recs) (hf : ∀ s ∈ data, Fresh v s)
    (hes : ∀ e ∈ es, e.isBracket = false) (hnt : NotTorn p)
    (hc : ∀ c t, p = some (.recs c t) → c < es.length + 2) :
    (view (crash d (stmtSteps data es) k p) = .ok v ∧ abs (crash d (stmtSteps data es) k p) v = abs d v) ∨
      crash d (stmtSteps data es) k p = d.applyAll (stmtSteps data es) := by
  have hh : ∀ x ∈ data, Harmless v x := fun x hx => Or.inl (hf x hx)
  unfold stmtSteps
  rcases Nat.lt_trichotomy k data.length with hk | hk | hk
  · left
    have h := crash_before_last v d data (PStep.appendManifest ([Rec.begin] ++ es ++ [Rec.fin])) k p hh (Or.inl hk)
    exact ⟨view_agree h.1 (by rw [h.2.1]) h.2.2 hv, abs_agree h.1⟩
  · -- the manifest append is the step in flight
    subst hk
    have hall := agree_applyAll_harmless v data hh d
    have htake : (data ++ [PStep.appendManifest ([Rec.begin] ++ es ++ [Rec.fin])]).take data.length = data := by simp
    have hget : (data ++ [PStep.appendManifest ([Rec.begin] ++ es ++ [Rec.fin])])[data.length]? =
        some (PStep.appendManifest ([Rec.begin] ++ es ++ [Rec.fin])) := by simp
    cases p with
    | none =>
      left
      have h := crash_before_last v d data (PStep.appendManifest ([Rec.begin] ++ es ++ [Rec.fin])) data.length none hh
        (Or.inr ⟨rfl, rfl⟩)
      exact ⟨view_agree h.1 (by rw [h.2.1]) h.2.2 hv, abs_agree h.1⟩
    | some pr =>
      cases pr with
      | full => right; simp [crash, htake, hget, Disk.applyAll, List.foldl_append]
      | part => right; simp [crash, htake, hget, Disk.applyAll, List.foldl_append, Disk.apply]
      | recs c t =>
        cases t with
        | true => exact absurd hnt (by simp [NotTorn])
        | false =>
          left
          have hc' := hc c false rfl
          have hd : crash d (data ++ [PStep.appendManifest ([Rec.begin] ++ es ++ [Rec.fin])]) data.length (some (.recs c false)) =
              { d.applyAll data with recs := (d.applyAll data).recs ++ ([Rec.begin] ++ es ++ [Rec.fin]).take c, torn := false } := by
            simp [crash, htake, hget, Disk.apply]
          rw [hd]
          have hag : Agree v d { d.applyAll data with recs := (d.applyAll data).recs ++ ([Rec.begin] ++ es ++ [Rec.fin]).take c, torn := false } :=
            ⟨fun x hx => hall.1.1 x hx, fun x hx => hall.1.2 x hx⟩
          have htorn : d.torn = false := by
            unfold view at hv
            cases hd : d.torn with
            | false => rfl
            | true => simp [hd] at hv
          refine ⟨view_agree hag ?_ htorn.symm hv, abs_agree hag⟩
          simp only [hall.2.1]
          exact replay_append_prefix d.recs es hb hes c hc'
  · right
    have hlen : (data ++ [PStep.appendManifest ([Rec.begin] ++ es ++ [Rec.fin])]).length ≤ k := by
      simp; omega
    unfold crash
    rw [List.take_of_length_le hlen, List.getElem?_eq_none hlen]

/-- The excluded point is real: a manifest append cut inside a record makes `open` fail
(`JsonDecode(EOF while parsing …)`) — the database is unopenable, not even the pre-state is
reachable. Witness: `CREATE TABLE u` interrupted after `Begin` and a few bytes of its record. -/
def tornWitness : Disk :=
  { Disk.empty with boot := 3, recs := [.begin, .createTable "t" 2, .fin] }

theorem crash_atomic_unsound : ¬ CrashAtomicFull := by
  intro h
  have := h tornWitness (⟨[⟨"t", 0, 2⟩], 1, [.createTable "t" 2], [], [], 0, 0⟩) [] [.createTable "u" 2] 0
    (some (.recs 1 true)) rfl rfl (by intro s hs; cases hs) (by decide)
    (by intro c t hct; cases hct; decide)
  rcases this with ⟨hview, _⟩ | heq
  · have : view (crash tornWitness (stmtSteps [] [.createTable "u" 2]) 0 (some (.recs 1 true))) = .error "json-eof" := rfl
    rw [this] at hview
    cases hview
  · exact absurd heq (by decide)

/-! ## durability -/

/-- Nothing committed before is lost or reordered by a crash during a later statement: the
operations replayed from the crash image extend those replayed before — for **every** crash
position, torn or not. (Whether the image *opens* is `crash_atomic_partial`.) -/
theorem crash_durable (d : Disk) (v : View) (data : List PStep) (es : List Rec) (k : Nat)
    (p : Option Progress) (hb : Balanced d.recs) (hf : ∀ s ∈ data, Fresh v s)
    (hes : ∀ e ∈ es, e.isBracket = false) :
    replay d.recs <+: replay (crash d (stmtSteps data es) k p).recs := by
  have hh : ∀ x ∈ data, Harmless v x := fun x hx => Or.inl (hf x hx)
  unfold stmtSteps
  rcases Nat.lt_trichotomy k data.length with hk | hk | hk
  · have h := crash_before_last v d data (PStep.appendManifest ([Rec.begin] ++ es ++ [Rec.fin])) k p hh (Or.inl hk)
    rw [h.2.1]; exact List.prefix_refl _
  · subst hk
    have hall := agree_applyAll_harmless v data hh d
    have htake : (data ++ [PStep.appendManifest ([Rec.begin] ++ es ++ [Rec.fin])]).take data.length = data := by simp
    have hget : (data ++ [PStep.appendManifest ([Rec.begin] ++ es ++ [Rec.fin])])[data.length]? =
        some (PStep.appendManifest ([Rec.begin] ++ es ++ [Rec.fin])) := by simp
    have hfull : replay d.recs <+: replay (d.recs ++ ([Rec.begin] ++ es ++ [Rec.fin])) := by
      rw [(replay_append_txn d.recs es hb hes).1]; exact List.prefix_append _ _
    cases p with
    | none => simp only [crash, htake, hget, hall.2.1]; exact List.prefix_refl _
    | some pr =>
      cases pr with
      | full => simp only [crash, htake, hget, Disk.apply, hall.2.1]; exact hfull
      | part => simp only [crash, htake, hget, Disk.apply, hall.2.1]; exact hfull
      | recs c t =>
        simp only [crash, htake, hget, Disk.apply, hall.2.1]
        by_cases hc : c < es.length + 2
        · rw [replay_append_prefix d.recs es hb hes c hc]; exact List.prefix_refl _
        · have : ([Rec.begin] ++ es ++ [Rec.fin]).take c = [Rec.begin] ++ es ++ [Rec.fin] := by
            apply List.take_of_length_le; simp; omega
          rw [this]; exact hfull
  · have hlen : (data ++ [PStep.appendManifest ([Rec.begin] ++ es ++ [Rec.fin])]).length ≤ k := by
      simp; omega
    have hall := agree_applyAll_harmless v data hh d
    unfold crash
    rw [List.take_of_length_le hlen, List.getElem?_eq_none hlen]
    have hrecs : (d.applyAll (data ++ [PStep.appendManifest ([Rec.begin] ++ es ++ [Rec.fin])])).recs =
        (d.applyAll data).recs ++ ([Rec.begin] ++ es ++ [Rec.fin]) := by
      simp [Disk.applyAll, List.foldl_append, Disk.apply]
    simp only [hrecs, hall.2.1]
    rw [(replay_append_txn d.recs es hb hes).1]; exact List.prefix_append _ _

/-! ## crashes inside recovery -/

/-- The steps of `bootstrap` in front of its `rename`. -/
def Crash.recoverPrefix (d : Disk) (v : View) : List PStep :=
  (if d.boot < 1 then [PStep.mkdirDb] else []) ++ (if d.boot < 2 then [PStep.mkdirDv] else []) ++
  (if d.boot < 3 then [PStep.createManifest] else []) ++
  (orphans d v).map (fun x => PStep.rmdir x.t x.r) ++
  [PStep.createTmp, PStep.appendTmp (rewriteRecs v)]

theorem recoverSteps_eq (d : Disk) (v : View) : recoverSteps d v = recoverPrefix d v ++ [PStep.renameTmp] := by
  simp [recoverSteps, recoverPrefix]

/-- A crash anywhere inside recovery before its final `rename` — including inside the write of
`manifest.tmp.json`, torn or not — leaves a directory that opens to exactly the same view and
contents: recovering again gives the same state. -/
theorem recover_idempotent_partial (d : Disk) (v : View) (hv : view d = .ok v) (k : Nat) (p : Option Progress)
    (hk : k < (recoverPrefix d v).length ∨ (k = (recoverPrefix d v).length ∧ p = none)) :
    view (crash d (recoverSteps d v) k p) = .ok v ∧ abs (crash d (recoverSteps d v) k p) v = abs d v := by
  rw [recoverSteps_eq]
  have hh : ∀ x ∈ recoverPrefix d v, Harmless v x := by
    intro x hx
    simp only [recoverPrefix, List.mem_append, List.mem_map, List.mem_cons, List.mem_nil_iff, or_false] at hx
    rcases hx with (((hx | hx) | hx) | ⟨o, ho, hx⟩) | hx | hx
    · split at hx <;> simp at hx; subst hx; exact Or.inr (Or.inl rfl)
    · split at hx <;> simp at hx; subst hx; exact Or.inr (Or.inr (Or.inl rfl))
    · split at hx <;> simp at hx; subst hx; exact Or.inr (Or.inr (Or.inr (Or.inl rfl)))
    · subst hx
      left
      simp only [orphans, List.mem_filter] at ho
      simp only [Fresh]
      intro hmem
      have := ho.2
      simp [hmem] at this
    · subst hx; exact Or.inr (Or.inr (Or.inr (Or.inr (Or.inl rfl))))
    · subst hx; exact Or.inr (Or.inr (Or.inr (Or.inr (Or.inr ⟨_, rfl⟩))))
  have h := crash_before_last v d (recoverPrefix d v) PStep.renameTmp k p hh hk
  exact ⟨view_agree h.1 (by rw [h.2.1]) h.2.2 hv, abs_agree h.1⟩


/-! ## the state after recovery's `rename`, and crashes at every position of recovery -/

theorem view_of_parts {d : Disk} {v : View} (ht : d.torn = false)
    (hl : View.empty.applyRecs (replay d.recs) = .ok v) (hf : filesOk d v = true) : view d = .ok v := by
  simp [view, ht, hl, hf]

theorem recoverPrefix_harmless (d : Disk) (v : View) : ∀ x ∈ recoverPrefix d v, Harmless v x := by
  intro x hx
  simp only [recoverPrefix, List.mem_append, List.mem_map, List.mem_cons, List.mem_nil_iff, or_false] at hx
  rcases hx with (((hx | hx) | hx) | ⟨o, ho, hx⟩) | hx | hx
  · split at hx <;> simp at hx; subst hx; exact Or.inr (Or.inl rfl)
  · split at hx <;> simp at hx; subst hx; exact Or.inr (Or.inr (Or.inl rfl))
  · split at hx <;> simp at hx; subst hx; exact Or.inr (Or.inr (Or.inr (Or.inl rfl)))
  · subst hx
    left
    simp only [orphans, List.mem_filter] at ho
    simp only [Fresh]
    intro hmem
    have := ho.2
    simp [hmem] at this
  · subst hx; exact Or.inr (Or.inr (Or.inr (Or.inr (Or.inl rfl))))
  · subst hx; exact Or.inr (Or.inr (Or.inr (Or.inr (Or.inr ⟨_, rfl⟩))))

/-- The directory recovery leaves behind. -/
theorem applyAll_recoverSteps (d : Disk) (v : View) :
    d.applyAll (recoverSteps d v) =
      { d.applyAll (recoverPrefix d v) with recs := rewriteRecs v, torn := false, tmp := none, shadow := some (d.applyAll (recoverPrefix d v)).recs } := by
  have htmp : (d.applyAll (recoverPrefix d v)).tmp = some (rewriteRecs v, false) := by
    simp [recoverPrefix, Disk.applyAll, List.foldl_append, Disk.apply]
  rw [recoverSteps_eq]
  have happ : d.applyAll (recoverPrefix d v ++ [PStep.renameTmp]) = (d.applyAll (recoverPrefix d v)).apply .renameTmp .full := by
    simp [Disk.applyAll, List.foldl_append]
  rw [happ]
  generalize d.applyAll (recoverPrefix d v) = d1 at htmp ⊢
  simp only [Disk.apply, htmp]

/-- **The recovered store's rewritten manifest replays to the same state**: for every directory
that opens, the directory recovery leaves opens again, to a view with the same tables, row-sets and
delete vectors (only the id counters are re-derived), hence the same contents. -/
theorem recover_after_rename (d : Disk) (v : View) (hv : view d = .ok v) :
    ∃ n m, view (d.applyAll (recoverSteps d v)) = .ok { v with nextR := n, nextD := m } ∧
      abs (d.applyAll (recoverSteps d v)) { v with nextR := n, nextD := m } = abs d v := by
  obtain ⟨n, m, hload⟩ := load_rewrite v (canon_of_view hv)
  have h1 := agree_applyAll_harmless v (recoverPrefix d v) (recoverPrefix_harmless d v) d
  have hag : Agree v d (d.applyAll (recoverSteps d v)) := by
    rw [applyAll_recoverSteps]
    exact ⟨fun x hx => h1.1.1 x hx, fun x hx => h1.1.2 x hx⟩
  refine ⟨n, m, ?_, ?_⟩
  · apply view_of_parts
    · rw [applyAll_recoverSteps]
    · rw [applyAll_recoverSteps]; exact hload
    · have : filesOk (d.applyAll (recoverSteps d v)) { v with nextR := n, nextD := m } =
          filesOk (d.applyAll (recoverSteps d v)) v := rfl
      rw [this, filesOk_agree hag]
      exact (view_ok_parts hv).2.2
  · have : abs (d.applyAll (recoverSteps d v)) { v with nextR := n, nextD := m } =
        abs (d.applyAll (recoverSteps d v)) v := rfl
    rw [this, abs_agree hag]

/-- Crash-inside-recovery at **every** position `k` and every progress of the step in flight
(before, during or after the `rename`): the image opens, with the same contents. -/
theorem recover_idempotent (d : Disk) (v : View) (hv : view d = .ok v) (k : Nat) (p : Option Progress) :
    ∃ v', view (crash d (recoverSteps d v) k p) = .ok v' ∧ abs (crash d (recoverSteps d v) k p) v' = abs d v := by
  by_cases hk : k < (recoverPrefix d v).length ∨ (k = (recoverPrefix d v).length ∧ p = none)
  · exact ⟨v, recover_idempotent_partial d v hv k p hk⟩
  · -- the rename happened: the image is the recovered directory
    have himg : crash d (recoverSteps d v) k p = d.applyAll (recoverSteps d v) := by
      have hlen : (recoverSteps d v).length = (recoverPrefix d v).length + 1 := by rw [recoverSteps_eq]; simp
      rcases Nat.lt_trichotomy k (recoverPrefix d v).length with h | h | h
      · exact absurd (Or.inl h) hk
      · cases p with
        | none => exact absurd (Or.inr ⟨h, rfl⟩) hk
        | some pr =>
          rw [recoverSteps_eq]
          unfold crash
          have htake : (recoverPrefix d v ++ [PStep.renameTmp]).take k = recoverPrefix d v := by rw [h]; simp
          have hget : (recoverPrefix d v ++ [PStep.renameTmp])[k]? = some PStep.renameTmp := by rw [h]; simp
          rw [htake, hget]
          simp [Disk.applyAll, List.foldl_append, Disk.apply]
      · have hle : (recoverSteps d v).length ≤ k := by omega
        unfold crash
        rw [List.take_of_length_le hle, List.getElem?_eq_none hle]
    rw [himg]
    obtain ⟨n, m, h1, h2⟩ := recover_after_rename d v hv
    exact ⟨_, h1, h2⟩

/-- `recover (recover d) = recover d` up to `abs`, for every `d` that opens. -/
theorem recover_recover (d : Disk) (s : State) (h : recover d = .ok s) :
    ∃ s', recover s.disk = .ok s' ∧ abs s'.disk s'.mem = abs s.disk s.mem := by
  unfold recover at h
  cases hv : view d with
  | error e => simp [hv] at h
  | ok v =>
    simp only [hv] at h
    cases h
    obtain ⟨n, m, h1, h2⟩ := recover_after_rename d v hv
    obtain ⟨n', m', _, h4⟩ := recover_after_rename _ _ h1
    refine ⟨⟨(d.applyAll (recoverSteps d v)).applyAll (recoverSteps (d.applyAll (recoverSteps d v)) { v with nextR := n, nextD := m }),
      { v with nextR := n, nextD := m }, []⟩, ?_, ?_⟩
    · simp only [recover, h1]
    simp only
    have e1 : abs ((d.applyAll (recoverSteps d v)).applyAll (recoverSteps (d.applyAll (recoverSteps d v)) { v with nextR := n, nextD := m }))
        { v with nextR := n, nextD := m } =
        abs (d.applyAll (recoverSteps d v)) { v with nextR := n, nextD := m } := h4
    rw [e1, h2]
    -- the first recovery's own abstraction: same row-sets and files as before it
    have h0 := agree_applyAll_harmless v (recoverPrefix d v) (recoverPrefix_harmless d v) d
    have hag : Agree v d (d.applyAll (recoverSteps d v)) := by
      rw [applyAll_recoverSteps]
      exact ⟨fun x hx => h0.1.1 x hx, fun x hx => h0.1.2 x hx⟩
    exact (abs_agree hag).symm

/-! ## background vacuum -/

/-- The vacuum task only unlinks directories nothing references: a crash anywhere among its
unlinks (or among any steps of that kind) leaves the view and the contents untouched. -/
theorem vacuum_crash_harmless (d : Disk) (v : View) (hv : view d = .ok v) (steps : List PStep)
    (hf : ∀ s ∈ steps, Fresh v s) (k : Nat) (p : Option Progress) :
    view (crash d steps k p) = .ok v ∧ abs (crash d steps k p) v = abs d v := by
  have hh : ∀ x ∈ steps, Harmless v x := fun x hx => Or.inl (hf x hx)
  -- pad with a harmless last step so that `crash_before_last` applies to every `k`
  have key : ∀ k p, Agree v d (crash d steps k p) ∧ (crash d steps k p).recs = d.recs ∧ (crash d steps k p).torn = d.torn := by
    intro k p
    have h0 := agree_applyAll_harmless v (steps.take k) (fun x hx => hh x (List.mem_of_mem_take hx)) d
    unfold crash
    cases hg : steps[k]? with
    | none => exact h0
    | some s =>
      cases p with
      | none => exact h0
      | some pr =>
        have hs : s ∈ steps := List.mem_of_getElem? hg
        have h1 := agree_apply_harmless v (d.applyAll (steps.take k)) s pr (hh s hs)
        exact ⟨Agree.trans h0.1 h1.1, h1.2.1.trans h0.2.1, h1.2.2.trans h0.2.2⟩
  have h := key k p
  exact ⟨view_agree h.1 (by rw [h.2.1]) h.2.2 hv, abs_agree h.1⟩

/-! ## the un-fsynced rename -/

/-- FULL statement under a file system that may drop a `rename` whose directory was never
fsynced (the code never fsyncs it): losing it at any later time still leaves every acknowledged
statement visible. -/
def LostRenameDurableFull : Prop :=
  ∀ (s : State) (ops : List Op) (s' : State), view s.disk = .ok s.mem →
    recover (loseRename (run s ops).disk) = .ok s' → abs s'.disk s'.mem = abs (run s ops).disk (run s ops).mem

/-- Right after recovery nothing is at stake: with the rename lost the directory holds the old
`manifest.json` next to a complete `manifest.tmp.json`; it opens to the same view and contents. -/
theorem lost_rename_right_after_recovery (d : Disk) (v : View) (hv : view d = .ok v) :
    view (loseRename (d.applyAll (recoverSteps d v))) = .ok v ∧
      abs (loseRename (d.applyAll (recoverSteps d v))) v = abs d v := by
  have h0 := agree_applyAll_harmless v (recoverPrefix d v) (recoverPrefix_harmless d v) d
  have hag : Agree v d (loseRename (d.applyAll (recoverSteps d v))) := by
    rw [applyAll_recoverSteps]
    exact ⟨fun x hx => h0.1.1 x hx, fun x hx => h0.1.2 x hx⟩
  have hrecs : (loseRename (d.applyAll (recoverSteps d v))).recs = d.recs := by
    rw [applyAll_recoverSteps]; simp [loseRename, h0.2.1]
  have htorn : (loseRename (d.applyAll (recoverSteps d v))).torn = d.torn := by
    rw [applyAll_recoverSteps]; simp [loseRename, (view_ok_parts hv).1]
  exact ⟨view_agree hag (by rw [hrecs]) htorn hv, abs_agree hag⟩

/-- …but statements acknowledged *after* that recovery are appended to the renamed file; if the
rename is lost later they are in `manifest.tmp.json`, which the next boot truncates. Witness:
boot, `CREATE TABLE t`, rename lost ⇒ the table is gone. -/
def lostRenameState : State :=
  ⟨⟨3, [.begin, .fin], false, none, [], [], some []⟩, View.empty, []⟩

theorem lost_rename_durable_unsound : ¬ LostRenameDurableFull := by
  intro h
  have hr : ∃ s', recover (loseRename (run lostRenameState [.create "t" 2]).disk) = .ok s' ∧
      abs s'.disk s'.mem ≠ abs (run lostRenameState [.create "t" 2]).disk (run lostRenameState [.create "t" 2]).mem := by
    refine ⟨⟨⟨3, [.begin, .fin], false, none, [], [], some []⟩, View.empty, []⟩, rfl, by decide⟩
  obtain ⟨s', h1, h2⟩ := hr
  exact h2 (h lostRenameState [.create "t" 2] s' rfl h1)

/-! ## post-recovery statements -/

/-- FULL statement: after recovering any crash image of a DELETE, a following DELETE on the same
table can create its files. -/
def PostRecoveryAcceptsFull : Prop :=
  ∀ (s : State) (name : String) (c : Cmp) (kk : Int) (k : Nat) (p : Option Progress) (s' : State),
    view s.disk = .ok s.mem → NotTorn p →
    recover (crash s.disk (psteps s (.delete name c kk)) k p) = .ok s' →
    allEnabled s'.disk (psteps s' (.delete name c kk)) = true

/-- Recovery removes every unreferenced *row-set directory*; so the directory an INSERT creates
next never exists. -/
theorem post_recovery_accepts_insert (d : Disk) (v : View) (t r : Nat) (h : (t, r) ∉ v.rowsets) :
    findRowset (d.applyAll ((orphans d v).map fun x => PStep.rmdir x.t x.r)) t r = none := by
  have key : ∀ (os : List RowsetDir) (d0 : Disk), (∀ x ∈ d0.rowsets, (x.t, x.r) ∉ v.rowsets → x ∈ os) →
      findRowset (d0.applyAll (os.map fun x => PStep.rmdir x.t x.r)) t r = none := by
    intro os
    induction os with
    | nil =>
      intro d0 hall
      simp only [List.map_nil, Disk.applyAll, List.foldl_nil, findRowset, List.find?_eq_none]
      intro x hx
      by_cases hm : (x.t, x.r) ∈ v.rowsets
      · simp; intro h1 h2; exact h (by rw [← h1, ← h2]; exact hm)
      · exact absurd (hall x hx hm) (by simp)
    | cons o os ih =>
      intro d0 hall
      simp only [List.map_cons, Disk.applyAll, List.foldl_cons]
      apply ih
      intro x hx hm
      simp only [Disk.apply, List.mem_filter] at hx
      have := hall x hx.1 hm
      rcases List.mem_cons.mp this with he | he
      · subst he; simp at hx
      · exact he
  apply key
  intro x hx hm
  simp only [orphans, List.mem_filter]
  exact ⟨hx, by simp [hm]⟩

/-- …but unreferenced *delete-vector files* are never removed, and the id of the interrupted
DELETE's file is issued again: the next DELETE fails on `create_new` (`AlreadyExists`). Witness:
`DELETE FROM t WHERE a >= 3` interrupted after its DV file was written, then recovered. -/
def orphanDvState : State :=
  ⟨⟨3, [.begin, .createTable "t" 2, .addRowSet 0 0, .fin], false, none,
      [⟨0, 0, [[2, 5], [3, 6]], 4, 4, false⟩], [], none⟩,
   ⟨[⟨"t", 0, 2⟩], 1, [.createTable "t" 2], [(0, 0)], [], 1, 0⟩, []⟩

/-- The state after recovering the crash image (DV file written, manifest not appended). -/
def orphanRecovered : State :=
  match recover (crash orphanDvState.disk (psteps orphanDvState (.delete "t" .ge 3)) 1 none) with
  | .ok s => s
  | .error _ => orphanDvState

theorem post_recovery_accepts_unsound : ¬ PostRecoveryAcceptsFull := by
  intro h
  have hs' : recover (crash orphanDvState.disk (psteps orphanDvState (.delete "t" .ge 3)) 1 none) = .ok orphanRecovered := rfl
  have hdis : allEnabled orphanRecovered.disk (psteps orphanRecovered (.delete "t" .ge 3)) = false := by decide
  have := h orphanDvState "t" .ge 3 1 none orphanRecovered rfl (by simp [NotTorn]) hs'
  rw [hdis] at this
  cases this

/-! ## non-vacuity -/

example : view tornWitness = .ok ⟨[⟨"t", 0, 2⟩], 1, [.createTable "t" 2], [], [], 0, 0⟩ := rfl
example : Balanced tornWitness.recs := rfl
example : view orphanDvState.disk = .ok orphanDvState.mem := rfl
example : Fresh orphanDvState.mem (.writeDv 0 0 0 [1]) := by simp [Fresh, orphanDvState]
example : (recoverPrefix orphanDvState.disk orphanDvState.mem).length = 2 := by decide
example : (orphans orphanRecovered.disk orphanRecovered.mem) = [] ∧ orphanRecovered.disk.dvfiles.length = 1 := by decide

end RlModel
