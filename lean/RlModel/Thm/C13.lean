import RlModel.Lemmas.Scan
import RlModel.Thm.C12
import RlModel.Gen.RangeGuard
/-!
# C13 — a key-range scan returns exactly the rows in the range

Property theorems about the executable model `RlModel/Model/Scan.lean` (`analyzeRange`,
`keyRangeOfFilter`, `startRowid`/`startWalk`, `splitBatches`, `scanBatches`, `scanRowSet`), the same
definitions `drv_c13` runs against the implementation.

Full statement (kept visible) — for EVERY row-set, scan list, range and key column:

    def RangeScanExact rs cols r k :=
      scanRowSet rs cols (some r) = .ok (rs.visible.filter fun row => sqlInRange r (Row.at row k))

It is proved (`rowset_range_scan_exact`) for key-sorted row-sets under the storage layer's
documented precondition (rowset_iterator.rs: "an optional filter for the first column"; start_rowid:
"only the first column of the rowsets ... should be primary key", "support range-filter scan by
sort key type of int32"):
  * `k = 0`                 the key is the table's first column (start_rowid reads column 0's block index)
  * `cols.headD 0 = k`      the key is the first column of the scan list (the mask is computed from it)
  * `keysI32`, `bndI32`     INT keys and Int32 bounds (start_rowid panics / DataValue::cmp compares variants)
Since round 5 the PLANNER only pushes a range that meets this precondition (`rangeGuard`, fixes
a029577 + fe505a1 in /repo): `guard_implies_precondition`, `guarded_range_scan_exact`. The three
`range_scan_precondition_*` theorems show the precondition is necessary at the storage API; the
former fourth hypothesis `boundaryOk` is gone (fix 68084af, `range_scan_dup_boundary_regression`).
-/
namespace RlModel

/-! ## Range analysis -/

/-- constants of a condition -/
def Expr.consts : Expr → List Val
  | .const v => [v]
  | .cmp _ a b => a.consts ++ b.consts
  | .and a b => a.consts ++ b.consts
  | _ => []

/-- same non-NULL variant: the SQL comparison and `DataValue::cmp` agree on such pairs -/
def sameVariant : Val → Val → Bool
  | .bool _, .bool _ => true
  | .i16 _, .i16 _ => true
  | .i32 _, .i32 _ => true
  | .i64 _, .i64 _ => true
  | .str _, .str _ => true
  | _, _ => false

theorem sqlCmp_eq_cmp (a b : Val) (h : sameVariant a b = true) : sqlCmp a b = some (Val.cmp a b) := by
  cases a <;> cases b <;> simp_all [sameVariant, sqlCmp, Val.cmp, Val.int?]

theorem holds_flip (op : CmpOp) (o : Ordering) : op.flip.holds o.swap = op.holds o := by
  cases op <;> cases o <;> rfl

theorem inRange_rangeOf (op : CmpOp) (c v : Val) : inRange (rangeOf op c) v = op.holds (Val.cmp v c) := by
  cases op <;> simp only [rangeOf, inRange, lowerOk, upperBad, CmpOp.holds] <;> cases Val.cmp v c <;> rfl

theorem mergeBnd_lower (a b s : Bnd) (h : mergeBnd a b = some s) (v : Val) : lowerOk s v = (lowerOk a v && lowerOk b v) := by
  cases a <;> cases b <;> simp [mergeBnd] at h <;> subst h <;> simp [lowerOk]

theorem mergeBnd_upper (a b s : Bnd) (h : mergeBnd a b = some s) (v : Val) : upperBad s v = (upperBad a v || upperBad b v) := by
  cases a <;> cases b <;> simp [mergeBnd] at h <;> subst h <;> simp [upperBad]

/-- `analyze_range` is sound: when it yields `(k, r)` for a condition, the condition holds on a
row exactly when the row's key lies in `r` — for `k op v`, the normalised `v op k`, and the AND
merge — provided key value and constants have the same type (the code never checks this). -/
theorem range_analysis_sound (e : Expr) (k : Nat) (r : KeyRange) (row : Row)
    (h : analyzeRange e = some (k, r))
    (hty : ∀ c ∈ e.consts, sameVariant (Row.at row k) c = true) :
    evalPred e row = some (inRange r (Row.at row k)) := by
  induction e generalizing k r with
  | col c => simp [analyzeRange] at h
  | const v => simp [analyzeRange] at h
  | other s => simp [analyzeRange] at h
  | cmp op a b _ _ =>
    cases a with
    | col c =>
      cases b with
      | const v =>
        simp only [analyzeRange, Option.some.injEq, Prod.mk.injEq] at h
        obtain ⟨rfl, rfl⟩ := h
        have hs := hty v (by simp [Expr.consts])
        simp only [evalPred, sqlCmp_eq_cmp _ _ hs, Option.map_some, inRange_rangeOf]
      | _ => simp [analyzeRange] at h
    | const v =>
      cases b with
      | col c =>
        simp only [analyzeRange, Option.some.injEq, Prod.mk.injEq] at h
        obtain ⟨rfl, rfl⟩ := h
        have hs := hty v (by simp [Expr.consts])
        have hs' : sameVariant v (Row.at row c) = true := by
          cases hv : v <;> cases hr : Row.at row c <;> simp_all [sameVariant]
        simp only [evalPred, sqlCmp_eq_cmp _ _ hs', Option.map_some, inRange_rangeOf]
        rw [← Val.cmp_laws.swap (Row.at row c) v]
        congr 1
        rw [← holds_flip, Ordering.swap_swap]
      | _ => simp [analyzeRange] at h
    | _ => simp [analyzeRange] at h
  | and a b iha ihb =>
    simp only [analyzeRange] at h
    cases ha : analyzeRange a with
    | none => simp [ha] at h
    | some pa =>
      cases hb : analyzeRange b with
      | none => simp [ha, hb] at h
      | some pb =>
        obtain ⟨ka, ra⟩ := pa
        obtain ⟨kb, rb⟩ := pb
        simp only [ha, hb] at h
        split at h
        next hk =>
          subst hk
          cases hlo : mergeBnd ra.lo rb.lo with
          | none => simp [hlo] at h
          | some lo =>
            cases hhi : mergeBnd ra.hi rb.hi with
            | none => simp [hlo, hhi] at h
            | some hi =>
              simp only [hlo, hhi, Option.some.injEq, Prod.mk.injEq] at h
              obtain ⟨rfl, rfl⟩ := h
              have e1 := iha ka ra ha (fun c hc => hty c (by simp [Expr.consts, hc]))
              have e2 := ihb ka rb hb (fun c hc => hty c (by simp [Expr.consts, hc]))
              simp only [evalPred, e1, e2, inRange, mergeBnd_lower _ _ _ hlo, mergeBnd_upper _ _ _ hhi]
              cases lowerOk ra.lo (Row.at row ka) <;> cases lowerOk rb.lo (Row.at row ka) <;>
                cases upperBad ra.hi (Row.at row ka) <;> cases upperBad rb.hi (Row.at row ka) <;> rfl
        next => simp at h

example : analyzeRange (.and (.cmp .lt (.const (.i32 1)) (.col 0)) (.cmp .le (.col 0) (.const (.i32 5))))
    = some (0, ⟨.excl (.i32 1), .incl (.i32 5)⟩) := by decide

/-- Without the same-type hypothesis the analysis is NOT sound: a BIGINT key against the Int32
literal the binder produces (`k > 2` on key 1: false by SQL, "in range" by `DataValue::cmp`). -/
theorem range_analysis_type_unsound :
    ¬ (∀ (e : Expr) (k : Nat) (r : KeyRange) (row : Row), analyzeRange e = some (k, r) →
        evalPred e row = some (inRange r (Row.at row k))) := by
  intro h
  have := h (.cmp .gt (.col 0) (.const (.i32 2))) 0 ⟨.excl (.i32 2), .unb⟩ [.i64 1] (by decide)
  revert this
  decide

/-! ## The row-set iterator -/

/-- The condition under which `next_batch_inner` ends a range scan after the current batch, as
RE-EXTRACTED FROM THE SOURCE on every run (`Gen/RowSetStop.lean`; today `end_row_id == 0`), is
sound: it only fires when some row of the batch already violates the upper bound. The seeded change
`start_row_id >= end_row_id` (a batch wholly below the lower bound ends the scan) makes this theorem
- and every range-scan theorem below, which depend on it - fail. -/
theorem range_stop_sound : StopSound Gen.rangeStop := by
  intro lo hi len hlen hlo hhi hstop
  simp only [Gen.rangeStop, decide_eq_true_eq] at hstop
  omega

example : Gen.rangeStop 0 0 3 = true ∧ Gen.rangeStop 3 3 3 = false := by decide

/-- Masks + early stop over ANY batching of a key-sorted stream (first scanned column = key)
return exactly the live rows whose key is in range. -/
theorem batches_range_scan_exact (k : Nat) (rg : KeyRange) (bs : List (List (Row × Bool)))
    (hs : SortedBy (keyCmp [⟨k, false⟩]) (bs.flatten.map (·.1))) :
    scanBatches k (some rg) bs = liveRows (bs.flatten.filter fun x => inRange rg (Row.at x.1 k)) :=
  scanBatches_exact range_stop_sound k rg bs (mono_lower_of_sorted k rg.lo _ hs) (mono_upper_of_sorted k rg.hi _ hs)

example : scanBatches 0 (some ⟨.incl (.i32 2), .excl (.i32 9)⟩)
    [[([.i32 1], true), ([.i32 2], false)], [([.i32 2], true), ([.i32 5], true)], [([.i32 9], true), ([.i32 9], true)]]
    = [[.i32 2], [.i32 5]] := by decide

/-- Early termination: once a row violates the upper bound, no later row of a key-sorted stream is in range. -/
theorem early_stop_sound (k : Nat) (rg : KeyRange) (x : Row) (rest : List Row)
    (hs : SortedBy (keyCmp [⟨k, false⟩]) (x :: rest)) (hx : upperBad rg.hi (Row.at x k) = true) :
    ∀ y ∈ rest, inRange rg (Row.at y k) = false := by
  intro y hy
  unfold SortedBy at hs
  have hxy : leBy (keyCmp [⟨k, false⟩]) x y := (List.pairwise_cons.1 hs).1 y hy
  have : upperBad rg.hi (Row.at y k) = true := upperBad_mono rg.hi (by rw [← keyCmp_single]; exact hxy) hx
  simp [inRange, this]

example : upperBad (.excl (.i32 5)) (.i32 5) = true := by decide

/-- Delete vectors and the range filter commute: range-scanning with deletes applied equals
filtering the delete-applied scan by the range. -/
theorem dv_and_range_commute (k : Nat) (rg : KeyRange) (bs : List (List (Row × Bool)))
    (hs : SortedBy (keyCmp [⟨k, false⟩]) (bs.flatten.map (·.1))) :
    scanBatches k (some rg) bs = (scanBatches k none bs).filter fun row => inRange rg (Row.at row k) := by
  rw [batches_range_scan_exact k rg bs hs, scanBatches_none, liveRows_filter]

/-! ## start_rowid -/

theorem isI32Val_spec (v : Val) (h : isI32Val v = true) : ∃ i : Int, v = .i32 i ∧ -2147483648 ≤ i ∧ i < 2147483648 := by
  cases v <;> simp_all [isI32Val]

theorem getD_eq {α : Type} (l : List α) (i : Nat) (d : α) (h : i < l.length) : l.getD i d = l[i] := by
  simp [List.getD, List.getElem?_eq_getElem h]

theorem getD_mem {α : Type} (l : List α) (i : Nat) (d : α) (h : i < l.length) : l.getD i d ∈ l := by
  rw [getD_eq _ _ _ h]; exact List.getElem_mem h

theorem getD_eq_head_drop {α : Type} (l : List α) (i : Nat) (d : α) (h : i < l.length) :
    ∃ t, l.drop i = l.getD i d :: t := by
  rw [getD_eq _ _ _ h]
  exact ⟨l.drop (i + 1), List.drop_eq_getElem_cons h⟩

/-- The start row chosen from column 0's block index loses nothing: every row before it fails the
lower bound. Needs: key = column 0, INT keys, Int32 begin key, key-sorted rows. (No boundary
condition any more: the walk stops before the first block whose first key is >= the begin key.) -/
theorem start_row_sound (rs : RowSet) (r : KeyRange)
    (hsorted : SortedBy (keyCmp [⟨0, false⟩]) rs.rows)
    (hkeys : keysI32 rs 0 = true) (hlo : bndI32 r.lo = true) (hblocks : blocksOk rs = true) :
    ∃ s, startRowid rs (some r) = .ok s ∧ ∀ row ∈ rs.rows.take s, lowerOk r.lo (Row.at row 0) = false := by
  have hkey : ∀ row ∈ rs.rows, ∃ i : Int, Row.at row 0 = .i32 i ∧ -2147483648 ≤ i ∧ i < 2147483648 := by
    intro row hrow
    exact isI32Val_spec _ (List.all_eq_true.1 hkeys row hrow)
  have hstarts : ∀ s ∈ blockStarts (rs.blocks.getD 0 []), s < rs.rows.length := by
    intro s hs
    simpa using List.all_eq_true.1 hblocks s hs
  obtain ⟨lo, hi⟩ := r
  -- the begin key
  have main : ∀ (b : Int) (strict : Bool),
      (lo = .incl (.i32 b) ∧ strict = false ∨ lo = .excl (.i32 b) ∧ strict = true) →
      ∃ s, startRowid rs (some ⟨lo, hi⟩) = .ok s ∧ ∀ row ∈ rs.rows.take s, lowerOk lo (Row.at row 0) = false := by
    intro b strict hcase
    have hstart : startRowid rs (some ⟨lo, hi⟩) =
        startWalk b ((blockStarts (rs.blocks.getD 0 [])).map fun s => (s, firstKeyI32 (Row.at (rs.rows.getD s []) 0))) 0 := by
      rcases hcase with ⟨rfl, _⟩ | ⟨rfl, _⟩ <;> rfl
    obtain ⟨res, hres, hcases⟩ := startWalk_spec b ((blockStarts (rs.blocks.getD 0 [])).map fun s => (s, firstKeyI32 (Row.at (rs.rows.getD s []) 0))) 0
    refine ⟨res, by rw [hstart]; exact hres, ?_⟩
    rcases hcases with h0 | ⟨x, hx, hx1, fv, hfv, hle⟩
    · subst h0; simp
    · obtain ⟨s, hs, rfl⟩ := List.mem_map.1 hx
      simp only at hx1 hfv
      subst hx1
      have hslt := hstarts s hs
      obtain ⟨i, hi1, hi2, hi3⟩ := hkey _ (getD_mem rs.rows s [] hslt)
      rw [hi1, firstKey_i32_roundtrip i hi2 hi3] at hfv
      have hfi : fv = i := by simpa using hfv.symm
      subst hfi
      intro row hrow
      -- row ≤ rows[s] by sortedness
      obtain ⟨t, ht⟩ := getD_eq_head_drop rs.rows s [] hslt
      have hsplit : rs.rows = rs.rows.take s ++ (rs.rows.getD s [] :: t) := by rw [← ht, List.take_append_drop]
      have hs' := hsorted
      unfold SortedBy at hs'
      rw [hsplit, List.pairwise_append] at hs'
      have hle' : leBy (keyCmp [⟨0, false⟩]) row (rs.rows.getD s []) := hs'.2.2 row hrow _ (by simp)
      obtain ⟨j, hj1, _, _⟩ := hkey row ((List.take_subset s rs.rows) hrow)
      unfold leBy at hle'
      rw [keyCmp_single, hi1, hj1] at hle'
      have hji : j ≤ fv := by
        have : compare j fv ≠ .gt := hle'
        rw [Ne, Int.compare_eq_gt] at this
        omega
      rcases hcase with ⟨rfl, _⟩ | ⟨rfl, _⟩
      · simp only [lowerOk, hj1, Val.cmp]
        have : compare j b = .lt := by rw [Int.compare_eq_lt]; omega
        simp [this]
      · simp only [lowerOk, hj1, Val.cmp]
        have : compare j b ≠ .gt := by rw [Ne, Int.compare_eq_gt]; omega
        cases hc : compare j b with
        | gt => exact absurd hc this
        | lt => rfl
        | eq => rfl
  cases lo with
  | unb => exact ⟨0, rfl, by simp⟩
  | incl v =>
    obtain ⟨b, rfl, _, _⟩ := isI32Val_spec v (by simpa [bndI32] using hlo)
    exact main b false (Or.inl ⟨rfl, rfl⟩)
  | excl v =>
    obtain ⟨b, rfl, _, _⟩ := isI32Val_spec v (by simpa [bndI32] using hlo)
    exact main b true (Or.inr ⟨rfl, rfl⟩)

/-! ## The whole row-set scan -/

/-- FULL statement of the property for one row-set (false in general, see below). -/
def RangeScanExact (rs : RowSet) (cols : List Nat) (r : KeyRange) (k : Nat) : Prop :=
  scanRowSet rs cols (some r) = .ok (rs.visible.filter fun row => sqlInRange r (Row.at row k))

instance (rs : RowSet) (cols : List Nat) (r : KeyRange) (k : Nat) : Decidable (RangeScanExact rs cols r k) :=
  inferInstanceAs (Decidable (_ = _))

theorem lowerOk_eq_sql (lo : Bnd) (i : Int) (hlo : bndI32 lo = true) : lowerOk lo (.i32 i) = sqlLower lo (.i32 i) := by
  cases lo with
  | unb => rfl
  | incl k =>
    obtain ⟨b, rfl, _, _⟩ := isI32Val_spec k (by simpa [bndI32] using hlo)
    simp only [lowerOk, sqlLower, Val.cmp, sqlCmp, Val.int?, Option.map_some, CmpOp.holds]
    cases compare i b <;> rfl
  | excl k =>
    obtain ⟨b, rfl, _, _⟩ := isI32Val_spec k (by simpa [bndI32] using hlo)
    simp only [lowerOk, sqlLower, Val.cmp, sqlCmp, Val.int?, Option.map_some, CmpOp.holds]
    cases compare i b <;> rfl

theorem upperBad_eq_sql (hi : Bnd) (i : Int) (hhi : bndI32 hi = true) : (!upperBad hi (.i32 i)) = sqlUpper hi (.i32 i) := by
  cases hi with
  | unb => rfl
  | incl k =>
    obtain ⟨b, rfl, _, _⟩ := isI32Val_spec k (by simpa [bndI32] using hhi)
    simp only [upperBad, sqlUpper, Val.cmp, sqlCmp, Val.int?, Option.map_some, CmpOp.holds]
    cases compare i b <;> rfl
  | excl k =>
    obtain ⟨b, rfl, _, _⟩ := isI32Val_spec k (by simpa [bndI32] using hhi)
    simp only [upperBad, sqlUpper, Val.cmp, sqlCmp, Val.int?, Option.map_some, CmpOp.holds]
    cases compare i b <;> rfl

theorem inRange_eq_sql (r : KeyRange) (v : Val) (hv : isI32Val v = true) (hlo : bndI32 r.lo = true) (hhi : bndI32 r.hi = true) :
    inRange r v = sqlInRange r v := by
  obtain ⟨i, rfl, _, _⟩ := isI32Val_spec v hv
  simp only [inRange, sqlInRange, lowerOk_eq_sql _ _ hlo, upperBad_eq_sql _ _ hhi]

/-- PARTIAL theorem: the range scan of a key-sorted row-set (any blocks, any batching, any delete
vector) returns exactly the visible rows in the range, under the storage precondition. -/
theorem rowset_range_scan_exact (rs : RowSet) (cols : List Nat) (r : KeyRange) (k : Nat)
    (hcol0 : k = 0)                                    -- KeyIsCol0
    (hfirst : cols.headD 0 = k)                        -- KeyIsFirstScanned
    (hsorted : SortedBy (keyCmp [⟨k, false⟩]) rs.rows)  -- memtable_sorted (C12)
    (hkeys : keysI32 rs k = true) (hlo : bndI32 r.lo = true) (hhi : bndI32 r.hi = true)   -- INT key, Int32 bounds
    (hblocks : blocksOk rs = true) :
    RangeScanExact rs cols r k := by
  subst hcol0
  obtain ⟨s, hs, hpre⟩ := start_row_sound rs r hsorted hkeys hlo hblocks
  unfold RangeScanExact
  simp only [scanRowSet, hs, Out.map, hfirst]
  congr 1
  -- sorted suffix
  have htag : SortedBy (keyCmp [⟨0, false⟩]) ((rs.tagged.drop s).map (·.1)) := by
    rw [List.map_drop, tagged_map_fst]
    exact List.Pairwise.sublist (List.drop_sublist s _) hsorted
  have hfl : (splitBatches (cutPoints rs cols) ((rs.tagged.drop s).length + 1) s (rs.tagged.drop s)).flatten = rs.tagged.drop s :=
    splitBatches_flatten _ _ _ _ (by omega)
  have hs2 : SortedBy (keyCmp [⟨0, false⟩])
      (((splitBatches (cutPoints rs cols) ((rs.tagged.drop s).length + 1) s (rs.tagged.drop s)).flatten).map (·.1)) := by
    rw [hfl]; exact htag
  rw [batches_range_scan_exact 0 r _ hs2, hfl]
  -- right-hand side
  have hrhs : (rs.visible.filter fun row => sqlInRange r (Row.at row 0))
      = liveRows (rs.tagged.filter fun x => inRange r (Row.at x.1 0)) := by
    unfold RowSet.visible
    rw [liveRows_filter]
    congr 1
    apply List.filter_congr
    intro x hx
    have hxrow : x.1 ∈ rs.rows := by
      rw [← tagged_map_fst]; exact List.mem_map.2 ⟨x, hx, rfl⟩
    exact (inRange_eq_sql r _ (List.all_eq_true.1 hkeys _ hxrow) hlo hhi).symm
  rw [hrhs]
  congr 1
  conv => rhs; rw [← List.take_append_drop s rs.tagged]
  rw [List.filter_append]
  have : (rs.tagged.take s).filter (fun x => inRange r (Row.at x.1 0)) = [] := by
    apply List.filter_eq_nil_iff.2
    intro x hx
    have hxrow : x.1 ∈ rs.rows.take s := by
      rw [← tagged_map_fst, ← List.map_take]; exact List.mem_map.2 ⟨x, hx, rfl⟩
    simp [inRange, hpre _ hxrow]
  rw [this, List.nil_append]

/-- a row-set of 6 rows in blocks of 2, keys 1..9, a deleted row, range [2, 9): all hypotheses hold -/
example : RangeScanExact
    { id := 0, rows := [[.i32 1], [.i32 2], [.i32 4], [.i32 5], [.i32 9], [.i32 9]], dead := [2], blocks := [[2, 2, 2]] }
    [0] ⟨.incl (.i32 2), .excl (.i32 9)⟩ 0 := by decide

/-! ## The planner's guard implies the precondition -/

/-- Typing invariant of a stored row-set: columns declared INT hold INT values (C16's subject). -/
def WellTyped (t : TableMeta) (rs : RowSet) : Prop := ∀ c ∈ t.intCols, keysI32 rs c = true

/-- scan lists are in table order -/
def TableOrder (cols : List Nat) : Prop := cols.Pairwise (· < ·)

/-- `rangeGuard` is generated from `is_primary_key_range` on every run (Gen/RangeGuard.lean: which
bound shapes `is_int` accepts, how the two bounds are combined, the conditions on the column). The
statement is the storage precondition of `rowset_range_scan_exact`: EVERY bound is an INT constant
or absent, the key is the table's column 0, PRIMARY KEY, of type INT. A guard that lets a range
through with one bound of another type (seeded change s6c13: `||` → `&&`) does not prove this. -/
theorem guard_implies_precondition (t : TableMeta) (e : Expr) (k : Nat) (r : KeyRange)
    (han : analyzeRange e = some (k, r)) (hg : rangeGuard t e = true) :
    k = 0 ∧ k ∈ t.primary ∧ k ∈ t.intCols ∧ bndI32 r.lo = true ∧ bndI32 r.hi = true := by
  unfold rangeGuard at hg
  rw [han] at hg
  have hb : ∀ b : Bnd, guardIsInt b = true → bndI32 b = true := by
    intro b h
    cases b <;> simp_all [guardIsInt, bndI32]
  simp only [guardBoundsReject, guardColumn, Bool.and_eq_true, Bool.or_eq_true, Bool.not_eq_true',
    Bool.not_eq_false', Bool.or_eq_false_iff, Bool.and_eq_false_iff, beq_iff_eq, List.contains_eq_mem,
    decide_eq_true_eq, Bool.not_eq_eq_eq_not, Bool.not_true, Bool.not_false] at hg
  have hlo := hb r.lo
  have hhi := hb r.hi
  refine ⟨?_, ?_, ?_, ?_, ?_⟩ <;> grind

theorem head_of_table_order (cols : List Nat) (ho : TableOrder cols) (h0 : 0 ∈ cols) : cols.headD 0 = 0 := by
  cases cols with
  | nil => rfl
  | cons c cs =>
    simp only [List.headD_cons]
    rcases List.mem_cons.1 h0 with h | h
    · exact h.symm
    · have := (List.pairwise_cons.1 ho).1 0 h
      omega

/-- FULL statement for the ranges the planner pushes: whenever `is_primary_key_range` lets a
condition into the scan node, the scan of a key-sorted, well-typed row-set with a table-order scan
list containing the key returns exactly the visible rows that satisfy the condition's range. No
hypothesis on key position, key type, bound type or block boundaries is left. -/
theorem guarded_range_scan_exact (t : TableMeta) (e : Expr) (k : Nat) (r : KeyRange) (rs : RowSet) (cols : List Nat)
    (han : analyzeRange e = some (k, r)) (hg : rangeGuard t e = true)
    (hcols : TableOrder cols) (hkin : k ∈ cols)
    (hwt : WellTyped t rs) (hsorted : SortedBy (keyCmp [⟨k, false⟩]) rs.rows) (hblocks : blocksOk rs = true) :
    RangeScanExact rs cols r k := by
  obtain ⟨h0, _, hint, hlo, hhi⟩ := guard_implies_precondition t e k r han hg
  subst h0
  exact rowset_range_scan_exact rs cols r 0 rfl (head_of_table_order cols hcols hkin) hsorted (hwt 0 hint) hlo hhi hblocks

/-- The same for every layout a write history can produce (`reachable_rowsets_sorted`): for a table
keyed on its INT first column, any sequence of INSERTs, DELETEs and compaction passes, any observed
block structure, every range the planner pushes is scanned exactly. Left as hypotheses: the typing
invariant (INT columns hold INT values) and a block index that refers to stored rows. -/
theorem reachable_range_scan_exact (t : TableMeta) (hpk : t.primary = [0]) (ops : List StoreOp)
    (e : Expr) (k : Nat) (r : KeyRange) (cols : List Nat)
    (han : analyzeRange e = some (k, r)) (hg : rangeGuard t e = true)
    (hcols : TableOrder cols) (hkin : k ∈ cols)
    (rs : RowSet) (hrs : rs ∈ (replayStore t.primary ops).1) (blocks : List (List Nat))
    (hwt : WellTyped t { rs with blocks := blocks }) (hblocks : blocksOk { rs with blocks := blocks } = true) :
    RangeScanExact { rs with blocks := blocks } cols r k := by
  have h0 := (guard_implies_precondition t e k r han hg).1
  subst h0
  have hs := reachable_rowsets_sorted t.primary (by rw [hpk]; simp) ops rs hrs
  rw [hpk] at hs
  exact guarded_range_scan_exact t e 0 r _ cols han hg hcols hkin hwt (by simpa [ascKeys] using hs) hblocks

/-- The scan a key-range DELETE performs: the scan list also holds the row-handler column. In the
model the handler is one more column (`withHandler`: index `w`, value = row-set id and row id), filled
for every stored row up to the row-set's TOTAL row count whatever the seek position; with it the
range scan is exact as well, so the DELETE sees exactly the handlers of the rows in range.
(An implementation whose handler column ends elsewhere - seeded change s5c13 - is a deviation from
this model: it is caught by the correspondence and by the DELETE oracle, not by this theorem.) -/
theorem range_scan_exact_with_handler (w : Nat) (rs : RowSet) (cols : List Nat) (r : KeyRange)
    (hfirst : (cols ++ [w]).headD 0 = 0)
    (hsorted : SortedBy (keyCmp [⟨0, false⟩]) (withHandler w rs).rows)
    (hkeys : keysI32 (withHandler w rs) 0 = true) (hlo : bndI32 r.lo = true) (hhi : bndI32 r.hi = true)
    (hblocks : blocksOk (withHandler w rs) = true) :
    RangeScanExact (withHandler w rs) (cols ++ [w]) r 0 :=
  rowset_range_scan_exact (withHandler w rs) (cols ++ [w]) r 0 rfl hfirst hsorted hkeys hlo hhi hblocks

example : RangeScanExact (withHandler 1 { id := 3, rows := [[.i32 1], [.i32 2], [.i32 4], [.i32 5]], dead := [1], blocks := [[2, 2]] })
    [0, 1] ⟨.incl (.i32 2), .unb⟩ 0
    ∧ scanRowSet (withHandler 1 { id := 3, rows := [[.i32 1], [.i32 2], [.i32 4], [.i32 5]], dead := [1], blocks := [[2, 2]] }) [0, 1]
        (some ⟨.incl (.i32 4), .unb⟩) = .ok [[.i32 4, .i64 12884901890], [.i32 5, .i64 12884901891]] := by decide

example : rangeGuard { primary := [0], sortedByPk := true, intCols := [0, 1] }
    (.and (.cmp .gt (.col 0) (.const (.i32 1))) (.cmp .le (.col 0) (.const (.i32 5)))) = true := by decide

/-! ## The storage precondition is necessary (storage API), and the planner respects it (regressions) -/

/-- `t(c0 int, c1 int primary key)`, rows stored in key (c1) order -/
def wKeySecond : RowSet :=
  { id := 0, rows := [[.i32 10, .i32 1], [.i32 20, .i32 2], [.i32 3, .i32 4], [.i32 90, .i32 9]], dead := [], blocks := [[4], [4]] }

/-- Storage API, key not first in the scan list: the mask is computed from `c0`, `c1 > 2` returns
all four rows. -/
theorem range_scan_precondition_key_first :
    SortedBy (keyCmp [⟨1, false⟩]) wKeySecond.rows ∧ keysI32 wKeySecond 1 = true ∧ blocksOk wKeySecond = true
      ∧ ¬ RangeScanExact wKeySecond [0, 1] ⟨.excl (.i32 2), .unb⟩ 1 := by
  decide

/-- `t(c0 int, c1 int primary key)` with blocks of 2 rows, only `c1` scanned -/
def wKeyNotCol0 : RowSet :=
  { id := 0, rows := [[.i32 0, .i32 1], [.i32 0, .i32 2], [.i32 0, .i32 3], [.i32 0, .i32 4], [.i32 0, .i32 5], [.i32 0, .i32 6]],
    dead := [], blocks := [[2, 2, 2], [2, 2, 2]] }

/-- Storage API, key first in the scan list but NOT the table's column 0: start_rowid walks column
0's first keys (all 0 < 3) and starts at the last block; `c1 >= 3` loses 3 and 4. -/
theorem range_scan_precondition_key_col0 :
    SortedBy (keyCmp [⟨1, false⟩]) wKeyNotCol0.rows ∧ keysI32 wKeyNotCol0 1 = true ∧ blocksOk wKeyNotCol0 = true
      ∧ ([1] : List Nat).headD 0 = 1
      ∧ ¬ RangeScanExact wKeyNotCol0 [1] ⟨.incl (.i32 3), .unb⟩ 1 := by
  decide

/-- BIGINT key, Int32 literal bound -/
def wBigint : RowSet :=
  { id := 0, rows := [[.i64 1], [.i64 2], [.i64 5], [.i64 9]], dead := [], blocks := [[4]] }

/-- Storage API, non-INT key: `c0 > 2` with a BIGINT key returns every row (variant ranks are
compared), `c0 < 3` none; with a VARCHAR key and a lower bound start_rowid panics. -/
theorem range_scan_precondition_key_type :
    SortedBy (keyCmp [⟨0, false⟩]) wBigint.rows ∧ blocksOk wBigint = true ∧ keysI32 wBigint 0 = false
      ∧ ¬ RangeScanExact wBigint [0] ⟨.excl (.i32 2), .unb⟩ 0
      ∧ ¬ RangeScanExact wBigint [0] ⟨.unb, .excl (.i32 3)⟩ 0
      ∧ scanRowSet { id := 0, rows := [[.str "b"], [.str "m"], [.str "x"]], dead := [], blocks := [[3]] } [0]
          (some ⟨.excl (.str "c"), .unb⟩) = .panic "start_rowid:key-type" := by
  decide

/-- Regression of the three former findings (`range:key-not-first-scanned`, `range:key-not-col0`,
`range:key-type-not-i32`): the planner no longer pushes these conditions into the scan. -/
theorem range_guard_regression :
    rangeGuard { primary := [1], sortedByPk := true, intCols := [0, 1] } (.cmp .gt (.col 1) (.const (.i32 2))) = false
      ∧ rangeGuard { primary := [0], sortedByPk := true, intCols := [1] } (.cmp .gt (.col 0) (.const (.i32 2))) = false
      ∧ rangeGuard { primary := [0], sortedByPk := true, intCols := [] } (.cmp .gt (.col 0) (.const (.str "c"))) = false
      ∧ rangeGuard { primary := [0], sortedByPk := true, intCols := [0] } (.cmp .gt (.col 0) (.const (.i64 3000000000))) = false := by
  decide

/-- keys 1 5 | 5 7 in blocks of two rows (PRIMARY KEY is not enforced) -/
def wDupBoundary : RowSet :=
  { id := 0, rows := [[.i32 1], [.i32 5], [.i32 5], [.i32 7]], dead := [], blocks := [[2, 2]] }

/-- Regression of `range:dup-keys-across-blocks` (fix 68084af): duplicates of the Included begin key
straddling a block boundary are all returned (`boundaryOk` fails for this row-set, it no longer matters). -/
theorem range_scan_dup_boundary_regression :
    boundaryOk wDupBoundary 0 ⟨.incl (.i32 5), .unb⟩ = false
      ∧ RangeScanExact wDupBoundary [0] ⟨.incl (.i32 5), .unb⟩ 0 := by
  decide

/-- A scan-node filter that is neither `true` nor a key range is evaluated on top of the scan
(fix a546337; it used to be dropped by the executor builder). -/
theorem scan_filter_residual (t : TableMeta) (lay : List RowSet) (cols : List Nat) (f : Expr)
    (hf : f ≠ .const (.bool true)) (hr : keyRangeOfFilter f = none) :
    execPlan t lay (.scan cols f) = (tableScan t.primary lay cols none).map fun rs => rs.filter (keepRow f) := by
  simp only [execPlan, hr, Option.isNone_none, if_true]

/-- Regression of `range:scan-filter-not-range`: the contradictory key condition folded to `false`
now yields no rows, as the specification says. -/
theorem scan_filter_false_regression :
    keyRangeOfFilter (.const (.bool false)) = none
      ∧ execPlan { primary := [], sortedByPk := true } [wDupBoundary] (.scan [0] (.const (.bool false))) = .ok []
      ∧ specPlan [wDupBoundary] (.scan [0] (.const (.bool false))) = [] := by
  decide

end RlModel
