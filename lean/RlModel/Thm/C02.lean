import RlModel.Lemmas.Exec
import RlModel.Lemmas.ExecNull
import RlModel.Lemmas.ExecWiden
import RlModel.Lemmas.ExecAgg
import RlModel.Lemmas.ValOrderRel
/-!
C02 — query answers follow standard SQL semantics on the core relational subset.

Part 1: the laws the property enumerates, as statements about the L1 spec (`Model.Rel`), for all
inputs.  Part 2: refinement `exec ⊑ spec` per physical operator (L2, `Model.Exec`), each under
the exact hypothesis under which the executor's algorithm equals the spec; where the code does not
meet the spec unconditionally, the full statement is refuted by a witness (`…_unsound`) that the
check replays on the implementation, and the `…_partial` theorem carries the forced hypothesis.
The join / limit / top-N refinements are shared with C11 (`Thm/C11.lean`).
-/
namespace RlModel
open List

/-! ## Part 1 — laws of the spec -/

/-- WHERE keeps exactly the rows on which the predicate is TRUE (not FALSE, not UNKNOWN). -/
theorem where_keeps_only_true (p : Pred) (X : List Row) (r : Row) :
    r ∈ filterRel p X ↔ r ∈ X ∧ p r = some true := by
  unfold filterRel holds
  simp [List.mem_filter]

example : filterRel (fun r => sqlGt (r.getD 0 .null) (.i32 1)) [[.i32 2], [.null], [.i32 0]] = [[.i32 2]] := by decide

/-- `a = b` is UNKNOWN as soon as one side is NULL … -/
theorem null_never_equal (a b : Val) (h : a.isNull = true ∨ b.isNull = true) : sqlEq a b = none := by
  cases a <;> cases b <;> simp_all [Val.isNull, sqlEq, sqlCmp]

/-- … so an equi-join condition never holds for a pair of rows with a NULL among the compared
keys (same for `IN`, which is the semi join on `=`). -/
theorem null_never_equal_in_join (as bs : List Val) (h : as.length = bs.length)
    (hn : as.any Val.isNull = true ∨ bs.any Val.isNull = true) :
    holds (keysEq3 as bs) = false := by
  induction as generalizing bs with
  | nil => cases bs <;> simp_all
  | cons a as ih =>
    cases bs with
    | nil => simp at h
    | cons b bs =>
      simp only [List.length_cons, Nat.add_right_cancel_iff] at h
      unfold keysEq3
      simp only [List.any_cons, Bool.or_eq_true] at hn
      by_cases hab : a.isNull = true ∨ b.isNull = true
      · rw [null_never_equal a b hab]
        cases hk : keysEq3 as bs with
        | none => rfl
        | some v => cases v <;> rfl
      · have hn' : as.any Val.isNull = true ∨ bs.any Val.isNull = true := by
          rcases hn with (h1 | h1) | (h1 | h1)
          · exact absurd (Or.inl h1) hab
          · exact Or.inl h1
          · exact absurd (Or.inr h1) hab
          · exact Or.inr h1
        have := ih bs h hn'
        unfold holds at this ⊢
        cases hk : keysEq3 as bs with
        | none => cases sqlEq a b with
          | none => rfl
          | some v => cases v <;> rfl
        | some v =>
          cases v with
          | true => simp [hk] at this
          | false => cases sqlEq a b with
            | none => rfl
            | some v => cases v <;> rfl

example : holds (keysEq3 [.i32 1, .null] [.i32 1, .null]) = false := by decide

theorem nonNull_idem (vs : List Val) : nonNull (nonNull vs) = nonNull vs := by
  unfold nonNull; rw [List.filter_filter]; simp

theorem intsOf_nonNull (vs : List Val) : intsOf (nonNull vs) = intsOf vs := by
  unfold intsOf nonNull
  rw [List.filterMap_filter]
  congr 1
  funext v
  cases v <;> rfl

/-- COUNT / SUM / MIN / MAX / COUNT(DISTINCT) of a column equal those of the column with the
NULLs removed. -/
theorem agg_skips_nulls (k : AggKind) (hk : k = .count ∨ k = .sum ∨ k = .min ∨ k = .max ∨ k = .countDistinct)
    (vs : List Val) : aggVal k vs = aggVal k (nonNull vs) := by
  rcases hk with h | h | h | h | h <;> subst h
  · show aggCount vs = aggCount (nonNull vs); unfold aggCount; rw [nonNull_idem]
  · show aggSum vs = aggSum (nonNull vs); unfold aggSum; rw [nonNull_idem]
  · show aggMin vs = aggMin (nonNull vs); unfold aggMin; rw [nonNull_idem]
  · show aggMax vs = aggMax (nonNull vs); unfold aggMax; rw [nonNull_idem]
  · show aggCountDistinct vs = aggCountDistinct (nonNull vs); unfold aggCountDistinct; rw [nonNull_idem]

example : aggVal .sum [.i32 5, .null, .i32 3] = .i32 8 := by decide

/-- On empty input SUM / MIN / MAX are NULL and COUNT / COUNT(DISTINCT) / COUNT(*) are 0; an
aggregation without GROUP BY still returns exactly one row. -/
theorem agg_empty :
    aggVal .sum [] = .null ∧ aggVal .min [] = .null ∧ aggVal .max [] = .null ∧
    aggVal .count [] = .i32 0 ∧ aggVal .countDistinct [] = .i32 0 ∧ aggVal .rowCount [] = .i32 0 ∧
    (∀ aggs : List AggCall, (scalarAgg aggs []).length = 1) ∧
    (∀ ks aggs, groupAgg ks aggs [] = []) := by
  refine ⟨rfl, rfl, rfl, rfl, rfl, rfl, fun _ => rfl, fun _ _ => rfl⟩

/-- an all-NULL column behaves like the empty one. -/
theorem agg_all_null (n : Nat) :
    aggVal .sum (List.replicate n .null) = .null ∧ aggVal .count (List.replicate n .null) = .i32 0 := by
  have h : nonNull (List.replicate n Val.null) = [] := by
    unfold nonNull; rw [List.filter_eq_nil_iff]; intro a ha
    simp [List.mem_replicate] at ha; simp [ha.2, Val.isNull]
  constructor
  · show aggSum _ = _; unfold aggSum; rw [h]
  · show aggCount _ = _; unfold aggCount; rw [h]; rfl

theorem count_distinct_ignores_null (vs : List Val) :
    aggVal .countDistinct (.null :: vs) = aggVal .countDistinct vs := by
  show aggCountDistinct _ = aggCountDistinct _
  unfold aggCountDistinct nonNull
  simp [Val.isNull]

example : aggVal .countDistinct [.null, .i32 1, .i32 1, .null, .i32 2] = .i32 2 := by decide

/-- LEFT OUTER JOIN = matches of every left row, or the row padded with NULLs when it has none:
every left row is represented, padded rows are exactly the unmatched ones. -/
theorem left_outer_pads (on : Pred) (nR : Nat) (L R : List Row) (l : Row) (hl : l ∈ L) :
    (matchesOf on l R = [] → l ++ nulls nR ∈ leftJoin on nR L R) ∧
    (∀ r ∈ matchesOf on l R, l ++ r ∈ leftJoin on nR L R) := by
  unfold leftJoin
  constructor
  · intro h
    rw [List.mem_flatMap]
    exact ⟨l, hl, by simp [h]⟩
  · intro r hr
    rw [List.mem_flatMap]
    refine ⟨l, hl, ?_⟩
    have hne : (matchesOf on l R).isEmpty = false := by
      cases h : matchesOf on l R with
      | nil => rw [h] at hr; cases hr
      | cons _ _ => rfl
    simp only [hne, Bool.false_eq_true, if_false, List.mem_map]
    exact ⟨r, hr, rfl⟩

/-- … and as a bag it is the inner join plus the padded unmatched left rows. -/
theorem left_outer_decomp (on : Pred) (nR : Nat) (L R : List Row) :
    (leftJoin on nR L R).Perm (innerJoin on L R ++ leftUnmatched on nR L R) :=
  leftJoin_perm_decomp on nR L R

/-- RIGHT / FULL: unmatched right rows are padded on the left. -/
theorem right_outer_pads (on : Pred) (nL : Nat) (L R : List Row) (r : Row) (hr : r ∈ R)
    (hun : matchedBy on L r = false) :
    nulls nL ++ r ∈ rightJoin on nL L R ∧ ∀ nR, nulls nL ++ r ∈ fullJoin on nL nR L R := by
  have h : nulls nL ++ r ∈ rightUnmatched on nL L R := by
    unfold rightUnmatched
    rw [List.mem_map]
    exact ⟨r, by simp [List.mem_filter, hr, hun], rfl⟩
  exact ⟨List.mem_append_right _ h, fun _ => List.mem_append_right _ h⟩

example : leftJoin (fun r => sqlEq (r.getD 0 .null) (r.getD 1 .null)) 1 [[.i32 1], [.null]] [[.i32 1], [.null]] =
    [[.i32 1, .i32 1], [.null, .null]] := by decide

/-! DISTINCT -/

theorem dedup_filter_comm {α} [BEq α] [LawfulBEq α] (p : α → Bool) (xs : List α) :
    dedup (xs.filter p) = (dedup xs).filter p := by
  induction xs with
  | nil => rfl
  | cons x xs ih =>
    simp only [List.filter_cons]
    cases hp : p x
    · simp only [Bool.false_eq_true, if_false, dedup, List.filter_cons, hp, ih, List.filter_filter]
      apply List.filter_congr
      intro y _
      by_cases hy : y == x
      · have : y = x := eq_of_beq hy
        subst this; simp [hp]
      · simp [hy]
    · simp only [if_true, dedup, List.filter_cons, hp, ih, List.filter_filter]
      congr 1
      apply List.filter_congr
      intro y _; exact Bool.and_comm _ _

theorem dedup_idem {α} [BEq α] [LawfulBEq α] (xs : List α) : dedup (dedup xs) = dedup xs := by
  induction xs with
  | nil => rfl
  | cons x xs ih =>
    simp only [dedup]
    rw [dedup_filter_comm, ih, List.filter_filter]
    congr 1
    apply List.filter_congr
    intro y _; simp

theorem distinct_idempotent (X : List Row) : distinctRel (distinctRel X) = distinctRel X :=
  dedup_idem X

example : distinctRel [[.null], [.i32 1], [.null], [.i32 1]] = [[.null], [.i32 1]] := by decide

/-! ORDER BY / LIMIT -/

theorem insertStable_perm {α} (cmp : α → α → Ordering) (x : α) (xs : List α) :
    (insertStable cmp x xs).Perm (x :: xs) := by
  induction xs with
  | nil => exact Perm.refl _
  | cons y ys ih =>
    unfold insertStable
    split
    · exact Perm.refl _
    · exact (Perm.cons y ih).trans (Perm.swap x y ys)

theorem sortStable_perm_aux {α} (cmp : α → α → Ordering) (xs acc : List α) :
    (xs.foldl (fun acc x => insertStable cmp x acc) acc).Perm (acc ++ xs) := by
  induction xs generalizing acc with
  | nil => simp
  | cons x xs ih =>
    simp only [List.foldl_cons]
    refine (ih _).trans ?_
    refine (Perm.append_right xs (insertStable_perm cmp x acc)).trans ?_
    simp only [List.cons_append]
    exact perm_middle.symm

/-- comparator laws needed for sortedness (a total preorder presented as `Ordering`). -/
structure CmpLaws {α} (cmp : α → α → Ordering) : Prop where
  total : ∀ a b, cmp a b ≠ .lt → cmp b a ≠ .gt
  trans : ∀ a b c, cmp a b ≠ .gt → cmp b c ≠ .gt → cmp a c ≠ .gt

theorem insertStable_sorted {α} (cmp : α → α → Ordering) (hc : CmpLaws cmp) (x : α) (xs : List α)
    (hs : SortedBy cmp xs) : SortedBy cmp (insertStable cmp x xs) := by
  unfold SortedBy at *
  induction xs with
  | nil => simp [insertStable]
  | cons y ys ih =>
    unfold insertStable
    rw [List.pairwise_cons] at hs
    split
    · rename_i hlt
      rw [List.pairwise_cons]
      refine ⟨?_, List.pairwise_cons.mpr hs⟩
      intro z hz
      have hxy : cmp x y ≠ .gt := by
        have : cmp x y = .lt := by simpa using hlt
        rw [this]; decide
      rcases List.mem_cons.mp hz with rfl | hz'
      · exact hxy
      · exact hc.trans x y z hxy (hs.1 z hz')
    · rename_i hnlt
      rw [List.pairwise_cons]
      refine ⟨?_, ih hs.2⟩
      intro z hz
      have hmem := (insertStable_perm cmp x ys).mem_iff.mp hz
      rcases List.mem_cons.mp hmem with rfl | hz'
      · exact hc.total _ _ (by simpa using hnlt)
      · exact hs.1 z hz'

/-- `Val.cmp` is a linear order (Lemmas/ValOrder.lean), hence the ORDER BY comparator — lexicographic
over the keys, each with its direction flag — satisfies the laws (Lemmas/ValOrderRel.lean). -/
theorem orderCmp_laws (ks : List OrderKey) : CmpLaws (orderCmp ks) :=
  ⟨orderCmp_total ks, orderCmp_trans ks⟩

/-- ORDER BY returns a permutation of its input that is sorted by the keys — unconditionally. -/
theorem order_is_sorted_perm (ks : List OrderKey) (X : List Row) :
    (orderRel ks X).Perm X ∧ SortedBy (orderCmp ks) (orderRel ks X) := by
  constructor
  · unfold orderRel sortStable
    simpa using sortStable_perm_aux (orderCmp ks) X []
  · have hc := orderCmp_laws ks
    unfold orderRel sortStable
    suffices h : ∀ acc, SortedBy (orderCmp ks) acc →
        SortedBy (orderCmp ks) (X.foldl (fun acc x => insertStable (orderCmp ks) x acc) acc) by
      exact h [] (by simp [SortedBy])
    induction X with
    | nil => intro acc h; exact h
    | cons x xs ih => intro acc h; exact ih _ (insertStable_sorted _ hc x acc h)

/-- … and equal keys keep their input order is not claimed of the implementation
(`sort_unstable_by`); the model's sort is stable. -/
example : orderRel [{ key := fun r => r.getD 0 .null, desc := true }] [[.i32 1], [.null], [.i32 3]] =
    [[.i32 3], [.i32 1], [.null]] := by decide

/-- LIMIT n OFFSET m is the slice `[m, m+n)` of the ordered input. -/
theorem limit_offset_slice (n off : Nat) (X : List Row) :
    (limitRel (some n) off X).length = min n (X.length - off) ∧
    ∀ i, i < n → (limitRel (some n) off X)[i]? = X[off + i]? := by
  unfold limitRel
  constructor
  · simp [List.length_take, List.length_drop]
  · intro i hi
    rw [List.getElem?_take_of_lt hi, List.getElem?_drop]

example : limitRel (some 2) 1 [[.i32 1], [.i32 2], [.i32 3], [.i32 4]] = [[.i32 2], [.i32 3]] := by decide

/-! ## Part 2 — the executors refine the spec (aggregation paths) -/

/-- ROW path (hash_agg, sort_agg) = spec for COUNT, COUNT(*), MIN, MAX on every input. -/
theorem exec_refines_spec_rowpath (k : AggKind) (hk : k = .count ∨ k = .rowCount ∨ k = .min ∨ k = .max)
    (vs : List Val) : rowPathVal k vs = aggVal k vs := by
  rcases hk with h | h | h | h <;> subst h
  · exact rowpath_count_eq_spec vs
  · exact rowpath_rowcount_eq_spec vs
  · exact rowpath_min_eq_spec vs
  · exact rowpath_max_eq_spec vs

/-- ROW path SUM (hash_agg, sort_agg) = spec on every INT column — unconditional since the `fix:`
commit "a NULL input leaves a running SUM unchanged" (before it: only when no NULL followed a value). -/
theorem exec_refines_spec_rowpath_sum (vs : List Val) (h : I32Col vs) :
    rowPathVal .sum vs = aggVal .sum vs := rowpath_sum_eq_spec vs h

/-- regression input (witness of the former `…_rowpath_sum_unsound`): grouped SUM over 5, NULL, 3. -/
theorem exec_refines_spec_rowpath_sum_regression :
    rowPathVal .sum [.i32 5, .null, .i32 3] = .i32 8 ∧ rowPathVal .sum [.i32 5, .null] = .i32 5 := by decide

example : I32Col [.i32 5, .null, .i32 3] := by
  intro v hv; simp at hv; rcases hv with rfl | rfl | rfl <;> simp

/-- CHUNK path SUM (simple_agg) = spec on every stream of INT chunks — unconditional since the `fix:`
commits "ArrayImpl::sum adds only the non-null slots" and "SUM of no non-null value is NULL". -/
theorem exec_refines_spec_chunkpath_sum (cols : List (List Val × List Int)) (hc : ∀ c ∈ cols, I32Col c.1) :
    chunkPathVal .sum .i32 cols = aggVal .sum (cols.flatMap (·.1)) := chunkpath_sum_eq_spec cols hc

/-- regression inputs (witnesses of the former `…_chunkpath_sum_unsound` / `…_raw_unsound`): one EMPTY
chunk (an all-filtered input) gives NULL; the raw slot under a NULL (here 1) is not added. -/
theorem exec_refines_spec_chunkpath_sum_regression :
    chunkPathVal .sum .i32 [([], [])] = .null ∧
    chunkPathVal .sum .i32 [([.i32 6, .null], [6, 1])] = aggVal .sum [.i32 6, .null] ∧
    chunkPathVal .sum .i32 [([.i32 5], [5]), ([.null, .null], [0, 0])] = .i32 5 := by decide

/-- COUNT(DISTINCT) = spec on both paths — since the `fix:` commit "COUNT(DISTINCT x) ignores NULL". -/
theorem exec_refines_spec_count_distinct (vs : List Val) (ty : Ty) (cols : List (List Val × List Int)) :
    rowPathVal .countDistinct vs = aggVal .countDistinct vs ∧
    chunkPathVal .countDistinct ty cols = aggVal .countDistinct (cols.flatMap (·.1)) :=
  ⟨rowpath_count_distinct_eq_spec vs, chunkpath_count_distinct_eq_spec ty cols⟩

/-- regression input (witness of the former `…_count_distinct_unsound`). -/
theorem exec_refines_spec_count_distinct_regression :
    rowPathVal .countDistinct [.null] = .i32 0 ∧ rowPathVal .countDistinct [.null, .i32 1, .i32 1] = .i32 1 := by decide

/-- the hash join's body (every type) refines the spec's equi-join on the key vectors it is given
under `KeysComparable`.  Since the `fix:` commit "a join key containing NULL never matches" NULL keys
satisfy the hypothesis by themselves (`keysComparable_of_null_free`); what is left of it is the
same-type requirement, which the executor meets by building its keys through `join_key`. -/
theorem exec_refines_spec_hashjoin_body (t : JoinType) (ht : t = .inner ∨ t = .leftOuter ∨ t = .rightOuter ∨ t = .fullOuter)
    (lk rk : List (Row → Val)) (nL nR : Nat) (Ls Rs : List Chunk)
    (hlen : ∀ l ∈ flat Ls, l.length = nL) (hk : KeysComparable lk rk (flat Ls) (flat Rs)) :
    (flat (hashJoin t lk rk nL nR Ls Rs)).Perm
      (joinRel t (equiOn nL lk rk (fun _ => some true)) nL nR (flat Ls) (flat Rs)) :=
  hash_eq_spec_partial t ht lk rk nL nR Ls Rs hlen hk

/-- `widen_keys_comparable`: keys that went through `join_key` are comparable, whatever the data. -/
theorem exec_join_keys_comparable (lk rk : List (Row → Val)) (L R : List Row) :
    KeysComparable (wk lk) (wk rk) L R := widen_keys_comparable lk rk L R

/-- the hash join executor (every type; keys built through `join_key` since the `fix:` commit "join
keys compare by value") refines the spec's equi-join on the ORIGINAL keys — for all data, any mix of
SMALLINT / INT / BIGINT key columns included; no hypothesis about the keys is left. -/
theorem exec_refines_spec_hashjoin (t : JoinType) (ht : t = .inner ∨ t = .leftOuter ∨ t = .rightOuter ∨ t = .fullOuter)
    (lk rk : List (Row → Val)) (nL nR : Nat) (Ls Rs : List Chunk) (hlen : ∀ l ∈ flat Ls, l.length = nL) :
    (flat (hashJoinW t lk rk nL nR Ls Rs)).Perm
      (joinRel t (equiOn nL lk rk (fun _ => some true)) nL nR (flat Ls) (flat Rs)) := by
  have h := hash_eq_spec_partial t ht (wk lk) (wk rk) nL nR Ls Rs hlen (widen_keys_comparable lk rk _ _)
  rw [equiOn_wk] at h
  exact h

/-- regression input (the witness of the former `…_hashjoin_null_key_unsound`): NULL keys are not
joined any more; outer joins still emit the rows padded. -/
theorem exec_refines_spec_hashjoin_null_key_regression :
    (flat (hashJoin .inner [fun r => r.getD 0 .null] [fun r => r.getD 0 .null] 1 1 [[[.null]]] [[[.null]]])).Perm
      (joinRel .inner (equiOn 1 [fun r => r.getD 0 .null] [fun r => r.getD 0 .null] (fun _ => some true)) 1 1 [[.null]] [[.null]]) ∧
    (flat (hashJoin .fullOuter [fun r => r.getD 0 .null] [fun r => r.getD 0 .null] 1 1 [[[.null]]] [[[.null]]])).Perm
      (joinRel .fullOuter (equiOn 1 [fun r => r.getD 0 .null] [fun r => r.getD 0 .null] (fun _ => some true)) 1 1 [[.null]] [[.null]]) := by
  constructor <;> decide

/-- regression input (the witness of the former `…_hashjoin_int_width_unsound`): Int32 1 and Int64 1
are SQL-equal and are joined; the body on raw keys would not join them. -/
theorem exec_refines_spec_hashjoin_int_width_regression :
    (flat (hashJoinW .inner [fun r => r.getD 0 .null] [fun r => r.getD 0 .null] 1 1 [[[.i32 1]]] [[[.i64 1]]])).Perm
      (joinRel .inner (equiOn 1 [fun r => r.getD 0 .null] [fun r => r.getD 0 .null] (fun _ => some true)) 1 1 [[.i32 1]] [[.i64 1]]) ∧
    ¬ (flat (hashJoin .inner [fun r => r.getD 0 .null] [fun r => r.getD 0 .null] 1 1 [[[.i32 1]]] [[[.i64 1]]])).Perm
      (joinRel .inner (equiOn 1 [fun r => r.getD 0 .null] [fun r => r.getD 0 .null] (fun _ => some true)) 1 1 [[.i32 1]] [[.i64 1]]) := by
  constructor <;> decide


/-! ## correlated scalar aggregate subqueries -/

/-- a subquery over an EMPTY match set yields COUNT 0 and SUM / MIN / MAX NULL — for every outer row,
whatever the other rows are. -/
theorem scalar_subquery_empty (f : Row → Val) (corr : Pred) (R : List Row) (l : Row)
    (h : matchesOf corr l R = []) :
    scalarSubAgg ⟨.rowCount, f⟩ corr R l = .i32 0 ∧ scalarSubAgg ⟨.count, f⟩ corr R l = .i32 0 ∧
    scalarSubAgg ⟨.countDistinct, f⟩ corr R l = .i32 0 ∧
    scalarSubAgg ⟨.sum, f⟩ corr R l = .null ∧ scalarSubAgg ⟨.min, f⟩ corr R l = .null ∧
    scalarSubAgg ⟨.max, f⟩ corr R l = .null := by
  unfold scalarSubAgg
  rw [h]
  exact ⟨rfl, rfl, rfl, rfl, rfl, rfl⟩

/-- with GROUP BY on the correlated column an outer row without partner has no group: NULL, also
for COUNT. -/
theorem scalar_group_subquery_empty (agg : AggCall) (corr : Pred) (L R : List Row) (l : Row) (hl : l ∈ L)
    (h : matchesOf corr l R = []) : l ++ [Val.null] ∈ applyGroupAgg agg corr L R := by
  unfold applyGroupAgg
  rw [List.mem_map]
  exact ⟨l, hl, by simp [h]⟩

/-- nested iteration keeps every outer row exactly once, in order — duplicates included — and
appends the subquery's value for THAT row. -/
theorem apply_scalar_agg_keeps_outer_rows (agg : AggCall) (corr : Pred) (L R : List Row) :
    (applyScalarAgg agg corr L R).length = L.length ∧
    ∀ i : Nat, (applyScalarAgg agg corr L R)[i]? = (L[i]?).map (fun l => l ++ [scalarSubAgg agg corr R l]) := by
  unfold applyScalarAgg
  exact ⟨List.length_map _, fun i => List.getElem?_map⟩

/-- the plan the rule `pushdown-apply-scalar-agg` produces, read with the L1 operators: GROUP BY all
`nL` columns of the outer row over the LEFT OUTER join. -/
def decorrScalarAgg (agg : AggCall) (corr : Pred) (nL nR : Nat) (L R : List Row) : List Row :=
  groupAgg ((List.range nL).map (fun i r => r.getD i .null)) [agg] (leftJoin corr nR L R)

/-- FULL statement (false twice): the decorrelated plan returns the bag of the nested iteration.
Witness 1 — the COUNT bug: an outer row without partner is one NULL-padded row, COUNT(*) counts it
(`select a,k from t where (select count(*) from u where u.x = t.a) = 0`, outer rows (2,2), (2,3)). -/
theorem decorr_scalar_agg_count_bug_unsound :
    ¬ (decorrScalarAgg ⟨.rowCount, fun _ => .null⟩ (fun r => sqlEq (r.getD 2 .null) (r.getD 0 .null)) 2 2
          [[.i32 1, .i32 1], [.i32 2, .i32 2], [.i32 2, .i32 3], [.i32 3, .i32 4]]
          [[.i32 1, .i32 10], [.i32 1, .i32 11], [.i32 3, .null]]).Perm
        (applyScalarAgg ⟨.rowCount, fun _ => .null⟩ (fun r => sqlEq (r.getD 2 .null) (r.getD 0 .null))
          [[.i32 1, .i32 1], [.i32 2, .i32 2], [.i32 2, .i32 3], [.i32 3, .i32 4]]
          [[.i32 1, .i32 10], [.i32 1, .i32 11], [.i32 3, .null]]) := by
  decide

/-- Witness 2 — the outer row is the group key: two identical outer rows collapse into one output row
whose aggregate sees every partner twice. -/
theorem decorr_scalar_agg_duplicate_rows_unsound :
    ¬ (decorrScalarAgg ⟨.sum, fun r => r.getD 3 .null⟩ (fun r => sqlEq (r.getD 2 .null) (r.getD 0 .null)) 2 2
          [[.i32 1, .i32 1], [.i32 1, .i32 1]] [[.i32 1, .i32 10]]).Perm
        (applyScalarAgg ⟨.sum, fun r => r.getD 3 .null⟩ (fun r => sqlEq (r.getD 2 .null) (r.getD 0 .null))
          [[.i32 1, .i32 1], [.i32 1, .i32 1]] [[.i32 1, .i32 10]]) := by
  decide

example : applyScalarAgg ⟨.rowCount, fun _ => .null⟩ (fun r => sqlEq (r.getD 2 .null) (r.getD 0 .null))
    [[.i32 2, .i32 2], [.i32 2, .i32 2], [.i32 1, .i32 1]] [[.i32 1, .i32 10], [.i32 1, .i32 11]] =
    [[.i32 2, .i32 2, .i32 0], [.i32 2, .i32 2, .i32 0], [.i32 1, .i32 1, .i32 2]] := by decide

end RlModel
