import RlModel.Lemmas.StoreSim
import RlModel.Lemmas.ValOrderStore
/-!
# C07 — Deletes are exact and permanent; compaction is invisible

Property theorems about the executable storage model `Model/Store.lean` (the definitions the
driver `drv_c07` runs against the real engine).  Each theorem quantifies over all inputs; each
is followed by a non-vacuity `example`.
-/
namespace RlModel

/-! ## Row handlers -/

/-- A row handler survives the trip through the `i64` column for every row-set id below `2^31`
and every row offset below `2^32`.  The bound on the row-set id is *forced*: it is exactly the
guard under which `assert!(data >= 0)` in `From<i64> for SecondaryRowHandler` cannot fire. -/
theorem handler_roundtrip (rs row : Nat) (h1 : rs < 2 ^ 31) (h2 : row < 2 ^ 32) :
    decodeHandler (encodeHandler rs row) = some (rs, row) := by
  have hlt : rs * 2 ^ 32 + row < 2 ^ 63 := by omega
  have hm : (rs * 2 ^ 32 + row) % 2 ^ 64 = rs * 2 ^ 32 + row := Nat.mod_eq_of_lt (by omega)
  simp only [encodeHandler, wrapI64, hm, hlt, if_true, decodeHandler]
  have : ¬ ((rs * 2 ^ 32 + row : Nat) : Int) < 0 := by omega
  simp only [Int.ofNat_eq_natCast, this, if_false, Int.toNat_natCast]
  congr 2
  · rw [Nat.add_comm, Nat.add_mul_div_right _ _ (by omega), Nat.div_eq_of_lt h2, Nat.zero_add]
    exact Nat.mod_eq_of_lt (by omega)
  · rw [Nat.add_comm, Nat.add_mul_mod_self_right]; exact Nat.mod_eq_of_lt h2

example : decodeHandler (encodeHandler 7 123456) = some (7, 123456) :=
  handler_roundtrip 7 123456 (by decide) (by decide)

/-- Full statement (all `u32` pairs) — false for the code that exists: -/
def HandlerRoundtripFull : Prop :=
  ∀ rs row, rs < 2 ^ 32 → row < 2 ^ 32 → decodeHandler (encodeHandler rs row) = some (rs, row)

/-- … the first row-set id with the top bit set makes the handler negative and the assertion fire. -/
theorem handler_roundtrip_full_unsound : ¬ HandlerRoundtripFull := by
  intro h
  have := h (2 ^ 31) 0 (by decide) (by decide)
  revert this
  decide

/-! ## Delete vectors -/

/-- `DeleteVector::apply_to` is exact for every offset and every bitmap length: bit `j` stays set
iff it was set and row `off + j` is not in the (sorted, deduplicated) vector. -/
theorem dv_apply_spec (ids : List Nat) (off : Nat) (bits : List Bool) :
    dvApplyTo (sortDedup ids) off bits = maskFrom (fun i => ids.contains i) off bits := by
  rw [dvApplyTo_spec _ (pairwise_sortDedup ids)]
  exact maskFrom_congr bits off fun i _ => contains_sortDedup ids i

example : dvApplyTo (sortDedup [5, 3, 5]) 3 [true, true, true] = [false, true, false] := by decide

/-- A row-set scan returns, whatever the batch boundaries (block ends, `ROWSET_MAX_OUTPUT`,
`expected_size`), exactly the rows that no delete vector of the snapshot names, each with its
true position. -/
theorem scan_any_batching (dvs : List (List Nat)) (sizes : List Nat) (rows : List Row) :
    scanBatches (dvs.map sortDedup) 0 sizes rows = visFrom (deadIn dvs) 0 rows := by
  rw [scanBatches_spec _ (by
    intro dv hdv
    obtain ⟨d, _, rfl⟩ := List.mem_map.mp hdv
    exact pairwise_sortDedup d)]
  apply visFrom_congr
  intro i _
  simp only [deadIn, List.any_map, Function.comp_def, contains_sortDedup]

example : scanBatches ([[1]].map sortDedup) 0 [2, 1] [[.i32 10], [.i32 11], [.i32 12]]
    = [(0, [.i32 10]), (2, [.i32 12])] := by
  rw [scan_any_batching]; decide

/-- DELETE on one row-set: buffering the handlers of the visible rows that satisfy `p` and
writing them as one more delete vector removes exactly those rows (no other row disappears, no
deleted row stays), and the number of handlers is the number of rows removed. -/
theorem delete_exact_rowset (dvs : List (List Nat)) (p : Row → Bool) (rows : List Row) :
    let hits := hitsOf (deadIn dvs) p 0 rows
    visFrom (deadIn (dvs ++ [sortDedup hits])) 0 rows
        = (visFrom (deadIn dvs) 0 rows).filter (fun x => !p x.2)
      ∧ hits.length = (((visFrom (deadIn dvs) 0 rows).map (·.2)).filter p).length := by
  refine ⟨?_, hitsOf_length rows 0⟩
  rw [← visFrom_delete (dead := deadIn dvs) (p := p) rows 0]
  apply visFrom_congr
  intro i _
  simp [deadIn, List.any_append, mem_sortDedup]

example : visFrom (deadIn ([] ++ [sortDedup (hitsOf (deadIn []) (fun r => r == [.i32 1]) 0 [[.i32 1], [.i32 2]])])) 0
    [[.i32 1], [.i32 2]] = [(1, [.i32 2])] := by decide

/-! ## Compaction -/

/-- What compaction writes is a permutation of what its inputs showed: the selected row-sets,
in any order (`sortNat`), read through their DVs, merged by key or concatenated. -/
theorem compaction_output_perm (le : Row → Row → Bool) (vis : Nat → List Row) (sel : List Nat) :
    (mergeAll le ((sortNat sel).map vis)).Perm (sel.flatMap vis)
    ∧ ((sortNat sel).map vis).flatten.Perm (sel.flatMap vis) := by
  have h : ((sortNat sel).map vis).flatten.Perm (sel.flatMap vis) := by
    rw [← List.flatMap_def]
    exact (sortNat_perm sel).flatMap_right vis
  exact ⟨(mergeAll_perm le _).trans h, h⟩

example : (mergeAll (keyLe [0]) [[[.i32 1], [.i32 4]], [[.i32 2]]]).Perm [[.i32 1], [.i32 4], [.i32 2]] := by
  have := compaction_output_perm (keyLe [0]) (fun n => if n = 0 then [[.i32 1], [.i32 4]] else [[.i32 2]]) [0, 1]
  simpa [sortNat, insertNatSorted] using this.1

/-- Compaction of a keyed table keeps key order: row-sets flushed by the sorted memtable are
key-sorted, hiding rows through DVs keeps them sorted, and the k-way merge of sorted inputs is
sorted.  (`TotalPreorder`: the key order is total and transitive.) -/
theorem compaction_keeps_key_order {le : Row → Row → Bool} (tp : TotalPreorder le)
    (inputs : List (List Row)) (dead : List (Row → Bool)) :
    SortedBy le (mergeAll le ((inputs.zip dead).map fun (rows, q) => (sortStable le rows).filter q)) := by
  apply mergeAll_sorted tp
  intro l hl
  obtain ⟨⟨rows, q⟩, _, rfl⟩ := List.mem_map.mp hl
  exact SortedBy.filter tp q _ (sortStable_sorted tp rows)

/-- the key order the engine uses (`Vec<ComparableDataValue>`: `derive(Ord)` of `DataValue` on the
key projection, lexicographic) is a total preorder — from the laws of `Val.cmp` / `rowCmp` proved in
Lemmas/ValOrder.lean -/
theorem keyLe_totalPreorder (k : List Nat) : TotalPreorder (keyLe k) := ⟨keyLe_total k, keyLe_trans k⟩

/-- **compaction_keeps_key_order, unconditional**: for the engine's own key order, the row-set a
compaction writes for a keyed table is key-sorted whenever its inputs were flushed by the sorted
memtable, whatever rows their delete vectors hide. -/
theorem compaction_keeps_key_order_keyLe (k : List Nat) (inputs : List (List Row)) (dead : List (Row → Bool)) :
    SortedBy (keyLe k)
      (mergeAll (keyLe k) ((inputs.zip dead).map fun (rows, q) => (sortStable (keyLe k) rows).filter q)) :=
  compaction_keeps_key_order (keyLe_totalPreorder k) inputs dead

example : SortedBy (keyLe [0]) (mergeAll (keyLe [0])
    (([[[.i32 3], [.i32 1]], [[.i32 2], [.null]]].zip [fun _ => true, fun r => r != [.i32 2]]).map
      fun (rows, q) => (sortStable (keyLe [0]) rows).filter q)) :=
  compaction_keeps_key_order_keyLe [0] _ _

/-! ## The store as a whole (theorem S restricted to data statements) -/

/-- **delete_exact**: a DELETE removes from its table exactly the rows satisfying the predicate,
touches no other table, and reports the number of rows it removed.  (`Wf`: ids handed out so far are
below the generators — established by `data_history_exact` along every history.) -/
theorem delete_exact (s : Store) (wf : Wf s) (n : String) (p : Row → Bool) (tid : Nat)
    (h : s.tableId? n = some tid) :
    (s.delete n p).2 = .ok ((s.scan tid).filter p).length ∧
    (s.delete n p).1.scan tid = (s.scan tid).filter (fun r => !p r) ∧
    ∀ t, t ≠ tid → (s.delete n p).1.scan t = s.scan t :=
  let ⟨_, _, _, h1, h2, h3⟩ := delete_scan s wf n p tid h
  ⟨h1, h2, h3⟩

/-- **compaction_invisible**: a compaction pass — whatever order it visits the tables in, whatever
row-sets each selection names — changes no table's bag of rows. -/
theorem compaction_invisible (s : Store) (wf : Wf s) (plan : List (Nat × List Nat)) (t : Nat) :
    ((s.compact plan).scan t).Perm (s.scan t) :=
  (compact_scan plan s wf).2.2.2 t

/-- a vacuum pass changes no query result -/
theorem vacuum_invisible (s : Store) (wf : Wf s) (t : Nat) : s.vacuum.scan t = s.scan t :=
  (vacuum_scan s wf).2.2.2 t

/-- **history_exact**: after ANY history of INSERT (any partition into row-sets), DELETE,
compaction passes (any selections) and vacuum passes, every table holds — as a bag — exactly the
rows inserted and not since deleted (an INSERT that would put NULL into a NOT NULL column is rejected
as a whole and inserts nothing: `insAdds`). -/
theorem history_exact (h : List Op) (s : Store) (wf : Wf s) (hd : ∀ op ∈ h, op.isData = true) :
    ∃ s', run (.up s) h = .up s' ∧ ∀ tid, (s'.scan tid).Perm (tidSpec s.cat s.tables tid h (s.scan tid)) :=
  let ⟨s', h1, _, _, _, h5⟩ := data_history_exact h s wf hd
  ⟨s', h1, h5⟩

def NoInsertInto (c : Catalog) (tid : Nat) : List Op → Prop
  | [] => True
  | .insert n _ :: ops => resolve c n ≠ some tid ∧ NoInsertInto c tid ops
  | _ :: ops => NoInsertInto c tid ops

def NoDeleteFrom (c : Catalog) (tid : Nat) : List Op → Prop
  | [] => True
  | .delete n _ :: ops => resolve c n ≠ some tid ∧ NoDeleteFrom c tid ops
  | _ :: ops => NoDeleteFrom c tid ops

theorem tidSpec_subset (c : Catalog) (tbl : List (Nat × TableDef)) (tid : Nat) : ∀ (ops : List Op) (rows : List Row),
    NoInsertInto c tid ops → ∀ r ∈ tidSpec c tbl tid ops rows, r ∈ rows
  | [], _, _, r, h => h
  | op :: ops, rows, hn, r, h => by
    cases op with
    | insert n parts =>
      have hc : insAdds c tbl tid n parts = [] := by simp [insAdds, hn.1]
      simp only [tidSpec, hc, List.append_nil] at h
      exact tidSpec_subset c tbl tid ops rows hn.2 r h
    | delete n p =>
      simp only [tidSpec] at h
      have := tidSpec_subset c tbl tid ops _ hn r h
      split at this
      · exact (List.mem_filter.mp this).1
      · exact this
    | _ => exact tidSpec_subset c tbl tid ops rows hn r h

theorem tidSpec_superset (c : Catalog) (tbl : List (Nat × TableDef)) (tid : Nat) : ∀ (ops : List Op) (rows : List Row),
    NoDeleteFrom c tid ops → ∀ r ∈ rows, r ∈ tidSpec c tbl tid ops rows
  | [], _, _, r, h => h
  | op :: ops, rows, hn, r, h => by
    cases op with
    | delete n p =>
      have hc : ¬ (resolve c n = some tid) := hn.1
      simp only [tidSpec, hc, if_false]
      exact tidSpec_superset c tbl tid ops rows hn.2 r h
    | insert n parts =>
      simp only [tidSpec]
      exact tidSpec_superset c tbl tid ops _ hn r (List.mem_append_left _ h)
    | _ => exact tidSpec_superset c tbl tid ops rows hn r h

/-- **deleted_never_reappears**: once a DELETE has removed the rows satisfying `p`, no later
compaction, vacuum, DELETE or INSERT into *other* tables brings one back. -/
theorem deleted_never_reappears (s : Store) (wf : Wf s) (n : String) (p : Row → Bool) (tid : Nat)
    (hn : s.tableId? n = some tid) (h : List Op) (hd : ∀ op ∈ h, op.isData = true)
    (hni : NoInsertInto s.cat tid h) :
    ∃ s', run (.up s) (.delete n p :: h) = .up s' ∧ ∀ r ∈ s'.scan tid, p r = false := by
  obtain ⟨s', h1, h5⟩ := history_exact (.delete n p :: h) s wf
    (by intro op hop; cases hop with
      | head => rfl
      | tail _ hop => exact hd op hop)
  refine ⟨s', h1, ?_⟩
  intro r hr
  have hr' := (h5 tid).mem_iff.mp hr
  have hc : resolve s.cat n = some tid := by rw [← tableId?_eq]; exact hn
  simp only [tidSpec, hc, if_true] at hr'
  have := tidSpec_subset _ _ tid h _ hni r hr'
  simpa using (List.mem_filter.mp this).2

/-- **survivor_never_lost**: a row that is in a table stays there through any history of
compactions, vacuums, INSERTs and DELETEs on other tables. -/
theorem survivor_never_lost (s : Store) (wf : Wf s) (tid : Nat) (h : List Op)
    (hd : ∀ op ∈ h, op.isData = true) (hnd : NoDeleteFrom s.cat tid h) :
    ∃ s', run (.up s) h = .up s' ∧ ∀ r ∈ s.scan tid, r ∈ s'.scan tid := by
  obtain ⟨s', h1, h5⟩ := history_exact h s wf hd
  exact ⟨s', h1, fun r hr => (h5 tid).mem_iff.mpr (tidSpec_superset _ _ tid h _ hnd r hr)⟩

example : ∃ s', run (.up Store.init) [.compact [(0, [0, 1])], .vacuum] = .up s' ∧
    ∀ tid, (s'.scan tid).Perm (tidSpec Store.init.cat Store.init.tables tid [.compact [(0, [0, 1])], .vacuum] (Store.init.scan tid)) :=
  history_exact _ _ wf_init (by intro op h; simp at h; rcases h with rfl | rfl <;> rfl)

/-! ## Histories with DDL and reopen (name level) -/

/-- **history_refines_spec**: `history_exact` extended to the full table statement language — CREATE
TABLE, DROP TABLE (and the same name created again), INSERT (any partition into row-sets; NULL into
NOT NULL rejected), DELETE, compaction passes (any plan), vacuum passes and shutdown+reopen, in any
order and number: every table NAME maps to the specification's definition and (as a bag) to exactly
the rows inserted and not since deleted.  No guard: the only hypothesis is that the history has no
CREATE VIEW / CREATE INDEX (views are catalog-only and do not survive a reopen, C03's open findings;
`Lemmas/StoreSim.goodHist_of_noView` shows the CREATE TABLE guard holds by itself here). -/
theorem history_refines_spec (h : List Op) (hv : h.all Op.noView = true) :
    ∃ s, run (.up Store.init) h = .up s ∧ ∀ n, AbsEq (s.abs n) ((SpecSt.run {} h).tables.get n) :=
  let ⟨s, h1, _, h3⟩ := hist_sim_noView h Store.init {} inv_init aligned_init sim_init hv
  ⟨s, h1, h3.abs⟩

/-- every statement of the view-free fragment has the specification's outcome: same ok / error class,
and INSERT's and DELETE's reported counts are the numbers of rows added / removed -/
theorem statement_outcome_exact (s : Store) (inv : Inv s) (sp : SpecSt) (sim : Sim s sp) (op : Op)
    (hv : op.noView = true) :
    (stepUp s op).2 = (sp.step op).2 :=
  let ⟨_, h1, _⟩ := step_sim s inv sp sim op hv
  congrArg Prod.snd h1

example : List.all [.create ⟨"t", [⟨"a", "INT", false, false⟩]⟩, .insert "t" [[[.i32 1]], [[.i32 2]]],
    .delete "t" (fun r => r == [.i32 1]), .drop "t", .create ⟨"t", [⟨"b", "BIGINT", false, false⟩]⟩,
    .insert "t" [[[.i64 7]]], .compact [(1, [2])], .reopen] Op.noView = true := by decide

end RlModel
