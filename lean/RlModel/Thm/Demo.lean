import RlModel.Model.Val
/-! Template property file (not a listed property): `Val.cmp` on same-variant integers is the
integer order.  Shows the conventions: property theorems only, each with a non-vacuity example. -/
namespace RlModel

theorem demo_cmp_i32 (a b : Int) : Val.cmp (.i32 a) (.i32 b) = compare a b := rfl

theorem demo_cmp_null_lowest (v : Val) (h : v ≠ .null) : Val.cmp .null v = .lt := by
  cases v <;> first | contradiction | rfl

example : Val.cmp .null (.i32 (-5)) = .lt := demo_cmp_null_lowest _ (by decide)

end RlModel
