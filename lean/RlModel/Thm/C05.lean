import RlModel.Lemmas.StoreHist
/-!
# C05 — The in-memory and on-disk engines are observationally equivalent

Both engine models (`Store`: row-sets + delete vectors + compaction; `MemTable`: chunks + a set of
deleted global row indices) refine the same specification — a plain list of rows, appended to by
INSERT and filtered by DELETE — for every history of data statements; hence they agree with each
other as bags.  The hypothesis the first version needed (`RowsFit`: no NULL goes into a NOT NULL
column) is gone: since repository commit 652f6b6 INSERT rejects such rows on both engines, and the
models do the same.
-/
namespace RlModel

/-- invariant of a memory table: deleted indices point at existing rows -/
def MemInv (t : MemTable) : Prop := ∀ i ∈ t.deleted, i < t.chunks.flatten.length

theorem visFrom_lt {dead : Nat → Bool} : ∀ (rows : List Row) (off : Nat) (x : Nat × Row),
    x ∈ visFrom dead off rows → x.1 < off + rows.length
  | [], _, _, h => by simp [visFrom] at h
  | r :: rs, off, x, h => by
    simp only [visFrom] at h
    split at h
    · have := visFrom_lt rs (off + 1) x h; simp only [List.length_cons]; omega
    · cases h with
      | head => simp
      | tail _ h => have := visFrom_lt rs (off + 1) x h; simp only [List.length_cons]; omega

/-- memory engine, INSERT: the rows are appended (exact list equality) -/
theorem mem_insert_scan (t : MemTable) (inv : MemInv t) (parts : List (List Row)) :
    (t.insert parts).scan = t.scan ++ parts.flatten ∧ MemInv (t.insert parts) := by
  refine ⟨?_, ?_⟩
  · simp only [MemTable.scan, MemTable.scanH, MemTable.insert, List.flatten_append, visFrom_append, List.map_append]
    congr 1
    rw [visFrom_congr (g := fun _ => false) _ _ (fun i hi => by
      cases hc : t.deleted.contains i with
      | false => rfl
      | true => have := inv i (by simpa using hc); omega)]
    exact visFrom_false _ _
  · intro i hi
    have := inv i hi
    simp only [MemTable.insert, List.flatten_append, List.length_append]; omega

/-- memory engine, DELETE: exactly the rows satisfying the predicate go, the count is right -/
theorem mem_delete_scan (t : MemTable) (inv : MemInv t) (p : Row → Bool) :
    (t.delete p).1.scan = t.scan.filter (fun r => !p r) ∧ (t.delete p).2 = (t.scan.filter p).length ∧
      MemInv (t.delete p).1 := by
  refine ⟨?_, ?_, ?_⟩
  · simp only [MemTable.scan, MemTable.scanH, MemTable.delete]
    have : ∀ i, (t.deleted ++ ((visFrom (fun i => t.deleted.contains i) 0 t.chunks.flatten).filter fun x => p x.2).map (·.1)).contains i
        = (t.deleted.contains i || (hitsOf (fun i => t.deleted.contains i) p 0 t.chunks.flatten).contains i) := by
      intro i; rw [Bool.eq_iff_iff]; simp [hitsOf, List.mem_append]
    rw [visFrom_congr _ 0 (fun i _ => this i), visFrom_delete, List.filter_map]
    rfl
  · simp only [MemTable.delete, MemTable.scan, MemTable.scanH, List.length_map, List.filter_map, Function.comp_def]
  · intro i hi
    simp only [MemTable.delete] at hi
    rcases List.mem_append.mp hi with hi | hi
    · exact inv i hi
    · obtain ⟨x, hx, rfl⟩ := List.mem_map.mp hi
      have := visFrom_lt _ 0 x (List.mem_filter.mp hx).1
      show x.1 < t.chunks.flatten.length
      omega

/-- the memory engine's table `tid` along a history (names resolved in a fixed catalog; an INSERT is
applied iff it names this table and passes `InsertExecutor`'s NOT NULL check, which is engine
independent code above both engines) -/
def memApply (c : Catalog) (tbl : List (Nat × TableDef)) (tid : Nat) : List Op → MemTable → MemTable
  | [], t => t
  | .insert n parts :: ops, t =>
      memApply c tbl tid ops
        (if resolve c n = some tid then
          match lookup tid tbl with
          | some d => if rowsOk d parts.flatten then t.insert parts else t
          | none => t
        else t)
  | .delete n p :: ops, t => memApply c tbl tid ops (if resolve c n = some tid then (t.delete p).1 else t)
  | _ :: ops, t => memApply c tbl tid ops t

/-- **mem_refines_spec**: along any history the memory table scans to exactly the specification's
list (order included). -/
theorem mem_refines_spec (c : Catalog) (tbl : List (Nat × TableDef)) (tid : Nat) :
    ∀ (ops : List Op) (t : MemTable), MemInv t →
    (memApply c tbl tid ops t).scan = tidSpec c tbl tid ops t.scan
  | [], _, _ => rfl
  | op :: ops, t, inv => by
    cases op with
    | insert n parts =>
      simp only [memApply, tidSpec, insAdds]
      by_cases h1 : resolve c n = some tid
      · simp only [h1, if_true]
        cases h2 : lookup tid tbl with
        | none => simp only [List.append_nil]; exact mem_refines_spec c tbl tid ops t inv
        | some d =>
          simp only
          cases hok : rowsOk d parts.flatten with
          | false => simp only [Bool.false_eq_true, if_false, List.append_nil]; exact mem_refines_spec c tbl tid ops t inv
          | true =>
            simp only [if_true]
            rw [mem_refines_spec c tbl tid ops _ (mem_insert_scan t inv parts).2, (mem_insert_scan t inv parts).1]
      · simp only [h1, if_false, List.append_nil]; exact mem_refines_spec c tbl tid ops t inv
    | delete n p =>
      simp only [memApply, tidSpec]
      split
      · rw [mem_refines_spec c tbl tid ops _ (mem_delete_scan t inv p).2.2, (mem_delete_scan t inv p).1]
      · exact mem_refines_spec c tbl tid ops t inv
    | _ => exact mem_refines_spec c tbl tid ops t inv

/-- **disk_refines_spec** (theorem S for data statements, see `history_exact` in C07) -/
theorem disk_refines_spec (h : List Op) (s : Store) (wf : Wf s) (hd : ∀ op ∈ h, op.isData = true) :
    ∃ s', run (.up s) h = .up s' ∧ ∀ tid, (s'.scan tid).Perm (tidSpec s.cat s.tables tid h (s.scan tid)) :=
  let ⟨s', h1, _, _, _, h5⟩ := data_history_exact h s wf hd
  ⟨s', h1, h5⟩

/-- **engines_equiv** (full statement, no hypothesis on the data since repository commit 652f6b6
made INSERT reject NULL for NOT NULL columns): two engines that agree on a table keep agreeing on
it, as bags, through every history of INSERT / DELETE / compaction / vacuum - whatever the disk
layout does. -/
theorem engines_equiv (h : List Op) (s : Store) (wf : Wf s) (hd : ∀ op ∈ h, op.isData = true)
    (tid : Nat) (t : MemTable) (inv : MemInv t) (h0 : (s.scan tid).Perm t.scan) :
    ∃ s', run (.up s) h = .up s' ∧ (s'.scan tid).Perm (memApply s.cat s.tables tid h t).scan := by
  obtain ⟨s', h1, h5⟩ := disk_refines_spec h s wf hd
  refine ⟨s', h1, (h5 tid).trans ?_⟩
  rw [mem_refines_spec s.cat s.tables tid h t inv]
  exact tidSpec_perm _ _ _ h _ _ h0

def nnTable : TableDef := ⟨"t", [⟨"a", "INT", true, false⟩]⟩

/-- one table `t(a INT NOT NULL)` and nothing in it -/
def nnStore : Store := (Store.init.createTable nnTable).1

/-- **not_null_storage, regression** (former finding `engines:null-in-nonnull-column`): a NULL for a
NOT NULL column is rejected by the disk model, the memory model and the specification alike, and
nothing is stored; what the non-nullable encodings would have stored (`storeRow`: the type's
default, which is why the engines used to differ) can no longer be reached. -/
theorem not_null_storage_regression :
    ((nnStore.insert "t" [[[Val.null]]]).2 = .err "not-null" ∧ (nnStore.insert "t" [[[Val.null]]]).1.scan 0 = []) ∧
    ((MemStore.step { cat := nnStore.cat, tables := [(0, { defn := nnTable })] } (.insert "t" [[[Val.null]]])).2 = .err "not-null") ∧
    ((SpecSt.step { tables := [("t", nnTable, [])] } (.insert "t" [[[Val.null]]])).2 = .err "not-null") ∧
    storeRow nnTable.cols [Val.null] = [Val.i32 0] := by
  refine ⟨?_, ?_, ?_, ?_⟩ <;> decide

end RlModel
