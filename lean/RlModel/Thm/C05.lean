import RlModel.Lemmas.StoreHist
/-!
# C05 — The in-memory and on-disk engines are observationally equivalent

Both engine models (`Store`: row-sets + delete vectors + compaction; `MemTable`: chunks + a set of
deleted global row indices) refine the same specification — a plain list of rows, appended to by
INSERT and filtered by DELETE — for every history of data statements; hence they agree with each
other as bags.  The hypothesis the proof forces (`RowsFit`: no NULL goes into a NOT NULL column) is
not decoration: without it the statement is false for the code that exists, with a witness.
-/
namespace RlModel

/-- invariant of a memory table: deleted indices point at existing rows -/
def MemInv (t : MemTable) : Prop := ∀ i ∈ t.deleted, i < t.chunks.flatten.length

theorem visFrom_lt {dead : Nat → Bool} : ∀ (rows : List Row) (off : Nat) (x : Nat × Row),
    x ∈ visFrom dead off rows → x.1 < off + rows.length
  | [], _, _, h => by simp [visFrom] at h
  | r :: rs, off, x, h => by
    simp only [visFrom] at h
    split at h
    · have := visFrom_lt rs (off + 1) x h; simp only [List.length_cons]; omega
    · cases h with
      | head => simp
      | tail _ h => have := visFrom_lt rs (off + 1) x h; simp only [List.length_cons]; omega

/-- memory engine, INSERT: the rows are appended (exact list equality) -/
theorem mem_insert_scan (t : MemTable) (inv : MemInv t) (parts : List (List Row)) :
    (t.insert parts).scan = t.scan ++ parts.flatten ∧ MemInv (t.insert parts) := by
  refine ⟨?_, ?_⟩
  · simp only [MemTable.scan, MemTable.scanH, MemTable.insert, List.flatten_append, visFrom_append, List.map_append]
    congr 1
    rw [visFrom_congr (g := fun _ => false) _ _ (fun i hi => by
      cases hc : t.deleted.contains i with
      | false => rfl
      | true => have := inv i (by simpa using hc); omega)]
    exact visFrom_false _ _
  · intro i hi
    have := inv i hi
    simp only [MemTable.insert, List.flatten_append, List.length_append]; omega

/-- memory engine, DELETE: exactly the rows satisfying the predicate go, the count is right -/
theorem mem_delete_scan (t : MemTable) (inv : MemInv t) (p : Row → Bool) :
    (t.delete p).1.scan = t.scan.filter (fun r => !p r) ∧ (t.delete p).2 = (t.scan.filter p).length ∧
      MemInv (t.delete p).1 := by
  refine ⟨?_, ?_, ?_⟩
  · simp only [MemTable.scan, MemTable.scanH, MemTable.delete]
    have : ∀ i, (t.deleted ++ ((visFrom (fun i => t.deleted.contains i) 0 t.chunks.flatten).filter fun x => p x.2).map (·.1)).contains i
        = (t.deleted.contains i || (hitsOf (fun i => t.deleted.contains i) p 0 t.chunks.flatten).contains i) := by
      intro i; rw [Bool.eq_iff_iff]; simp [hitsOf, List.mem_append]
    rw [visFrom_congr _ 0 (fun i _ => this i), visFrom_delete, List.filter_map]
    rfl
  · simp only [MemTable.delete, MemTable.scan, MemTable.scanH, List.length_map, List.filter_map, Function.comp_def]
  · intro i hi
    simp only [MemTable.delete] at hi
    rcases List.mem_append.mp hi with hi | hi
    · exact inv i hi
    · obtain ⟨x, hx, rfl⟩ := List.mem_map.mp hi
      have := visFrom_lt _ 0 x (List.mem_filter.mp hx).1
      show x.1 < t.chunks.flatten.length
      omega

/-- the memory engine's table `tid` along a history (names resolved in a fixed catalog) -/
def memApply (c : Catalog) (tbl : List (Nat × TableDef)) (tid : Nat) : List Op → MemTable → MemTable
  | [], t => t
  | .insert n parts :: ops, t =>
      memApply c tbl tid ops (if resolve c n = some tid ∧ (lookup tid tbl).isSome then t.insert parts else t)
  | .delete n p :: ops, t => memApply c tbl tid ops (if resolve c n = some tid then (t.delete p).1 else t)
  | _ :: ops, t => memApply c tbl tid ops t

/-- **mem_refines_spec**: along any history the memory table scans to exactly the specification's
list (order included). -/
theorem mem_refines_spec (c : Catalog) (tbl : List (Nat × TableDef)) (tid : Nat) :
    ∀ (ops : List Op) (t : MemTable), MemInv t →
    (memApply c tbl tid ops t).scan = tidSpec c tbl tid ops t.scan
  | [], _, _ => rfl
  | op :: ops, t, inv => by
    cases op with
    | insert n parts =>
      simp only [memApply, tidSpec]
      split
      · rw [mem_refines_spec c tbl tid ops _ (mem_insert_scan t inv parts).2, (mem_insert_scan t inv parts).1]
      · exact mem_refines_spec c tbl tid ops t inv
    | delete n p =>
      simp only [memApply, tidSpec]
      split
      · rw [mem_refines_spec c tbl tid ops _ (mem_delete_scan t inv p).2.2, (mem_delete_scan t inv p).1]
      · exact mem_refines_spec c tbl tid ops t inv
    | _ => exact mem_refines_spec c tbl tid ops t inv

/-- **disk_refines_spec** (theorem S for data statements, see `history_exact` in C07): partial —
under `RowsFit`. -/
theorem disk_refines_spec_partial (h : List Op) (s : Store) (wf : Wf s) (hd : ∀ op ∈ h, op.isData = true)
    (hfit : RowsFit s.cat s.tables h) :
    ∃ s', run (.up s) h = .up s' ∧ ∀ tid, (s'.scan tid).Perm (tidSpec s.cat s.tables tid h (s.scan tid)) :=
  let ⟨s', h1, _, _, _, h5⟩ := data_history_exact h s wf hd hfit
  ⟨s', h1, h5⟩

/-- **engines_equiv** (partial): two engines that agree on a table keep agreeing on it, as bags,
through every history of INSERT / DELETE / compaction / vacuum — whatever the disk layout does. -/
theorem engines_equiv_partial (h : List Op) (s : Store) (wf : Wf s) (hd : ∀ op ∈ h, op.isData = true)
    (hfit : RowsFit s.cat s.tables h) (tid : Nat) (t : MemTable) (inv : MemInv t)
    (h0 : (s.scan tid).Perm t.scan) :
    ∃ s', run (.up s) h = .up s' ∧ (s'.scan tid).Perm (memApply s.cat s.tables tid h t).scan := by
  obtain ⟨s', h1, h5⟩ := disk_refines_spec_partial h s wf hd hfit
  refine ⟨s', h1, (h5 tid).trans ?_⟩
  rw [mem_refines_spec s.cat s.tables tid h t inv]
  exact tidSpec_perm _ _ _ h _ _ h0

/-- Full statement: the same, without the `RowsFit` hypothesis. -/
def EnginesEquivFull : Prop :=
  ∀ (h : List Op) (s : Store), Wf s → (∀ op ∈ h, op.isData = true) → ∀ (tid : Nat) (t : MemTable), MemInv t →
    (s.scan tid).Perm t.scan →
    ∃ s', run (.up s) h = .up s' ∧ (s'.scan tid).Perm (memApply s.cat s.tables tid h t).scan

def nnTable : TableDef := ⟨"t", [⟨"a", "INT", true, false⟩]⟩

/-- one table `t(a INT NOT NULL)` and nothing in it -/
def nnStore : Store := (Store.init.createTable nnTable).1

/-- **not_null_storage**: a NULL written into a NOT NULL column is read back as the type's
default by the disk engine (its non-nullable encodings have no validity bitmap) and as NULL by the
memory engine. -/
theorem not_null_storage_witness :
    ((nnStore.insert "t" [[[Val.null]]]).1.scan 0 = [[Val.i32 0]]) ∧
    ((({ defn := nnTable } : MemTable).insert [[[Val.null]]]).scan = [[Val.null]]) := by decide

theorem engines_equiv_full_unsound : ¬ EnginesEquivFull := by
  intro h
  have wf : Wf nnStore := by
    constructor <;> simp [nnStore, Store.createTable, Catalog.add, Catalog.find?, Store.init, Store.commit]
  obtain ⟨s', h1, h2⟩ := h [.insert "t" [[[Val.null]]]] nnStore wf (by intro op hop; simp at hop; subst hop; rfl)
    0 { defn := nnTable } (by intro i hi; simp at hi) (by decide)
  have e1 : run (.up nnStore) [.insert "t" [[[Val.null]]]] = .up (nnStore.insert "t" [[[Val.null]]]).1 := rfl
  rw [e1] at h1
  cases h1
  have hm : (memApply nnStore.cat nnStore.tables 0 [.insert "t" [[[Val.null]]]] { defn := nnTable }).scan = [[Val.null]] := by decide
  rw [hm, not_null_storage_witness.1] at h2
  have := h2.mem_iff (a := [Val.i32 0])
  simp at this

end RlModel
