import RlModel.Gen.PlanRules
import RlModel.Lemmas.PlanSem
import RlModel.Lemmas.PlanGroups
/-!
# C01 — subquery (decorrelation) rules

`planner/rules/plan.rs subquery_rules`, `pushdown-filter-apply-left`, `pushdown-proj-apply`:
the rules that turn `in` / `exists` / scalar subqueries into `apply` nodes and `apply` nodes into
joins.  No executor runs these nodes; their meaning is the SQL meaning of a correlated subquery
— evaluated once per outer row — which `Model/PlanSem.lean` writes down as `DRel`/`apply`/`dexists`/
`din`.  Statements are regenerated from the source (`Gen/PlanRules.lean`).
-/
set_option linter.unusedSimpArgs false
set_option linter.unusedVariables false
namespace RlModel.C01
open RlModel RlModel.P RlModel.Gen

-- exists / not exists -> semi / anti apply -----------------------------------------------------

theorem psound_exists_to_semi_apply : pstmt_exists_to_semi_apply := by
  intro S child _ _
  simp only [RelEq, Rel.out, filter, apply]
  congr 1
  apply List.filter_congr
  intro l _
  simp [holds, dexists]

theorem psound_not_exists_to_anti_apply : pstmt_not_exists_to_anti_apply := by
  intro S child _ _
  simp only [RelEq, Rel.out, filter, apply]
  congr 1
  apply List.filter_congr
  intro l _
  cases h : (S.rows l).isEmpty <;> simp [holds, dexists, bNot, X.not3, h]

-- apply -> join --------------------------------------------------------------------------------

theorem apply_lift_filter (t : JoinType) (ht : ApplyType t) (c : BExpr) (L R : Rel) :
    (apply t L (dfilter c (lift R))).rows = (join t c L R).rows := by
  rcases ht with rfl | rfl | rfl | rfl <;>
    simp only [apply, dfilter, lift, join, joinRows, matchesL]

theorem psound_apply_filter_to_join : pstmt_apply_filter_to_join := by
  intro t L c R ht _
  have h := apply_lift_filter t ht c L R
  simp only [RelEq, Rel.out]
  rw [h]
  simp [apply, join, dfilter, lift]

theorem filter_holds_bTrue (xs : List Env) : xs.filter (holds bTrue) = xs := by
  simp [holds, bTrue]

theorem psound_apply_to_join : pstmt_apply_to_join := by
  intro t L R ht _
  have h := apply_lift_filter t ht bTrue L R
  have h' : (apply t L (dfilter bTrue (lift R))) = apply t L (lift R) := by
    simp [dfilter, filter_holds_bTrue]
  rw [h'] at h
  simp only [RelEq, Rel.out]
  rw [h]
  simp [apply, join, lift]

-- filters and projections around an apply -------------------------------------------------------

theorem psound_pushdown_apply_filter : pstmt_pushdown_apply_filter := by
  intro L c R _ _
  simp only [RelEq, Rel.out, apply, dfilter, filter]
  simp [List.filter_flatMap]

theorem psound_pushdown_apply_proj : pstmt_pushdown_apply_proj := by
  intro L ks R _ _
  simp [RelEq, Rel.out, apply, dproj, proj]

theorem psound_pushdown_semi_apply_proj : pstmt_pushdown_semi_apply_proj := by
  intro L ps R _ _
  simp [RelEq, Rel.out, apply, dproj]

theorem psound_pushdown_anti_apply_proj : pstmt_pushdown_anti_apply_proj := by
  intro L ps R _ _
  simp [RelEq, Rel.out, apply, dproj]

theorem psound_pushdown_proj_apply : pstmt_pushdown_proj_apply := by
  intro es t L R pl pr _ _ ht _
  rcases ht with rfl | rfl | rfl | rfl <;> simp [RelEq, Rel.out, apply, dproj, proj]

/-- A condition that does not read the sub-plan's columns has the same value on every row the
sub-plan returns for an outer row as on the outer row itself. -/
theorem holds_of_extends (c : BExpr) (R : DRel) (hx : R.Extends) (hi : Indep c R.owned)
    (l r : Env) (hr : r ∈ R.rows l) : holds c r = holds c l := by
  unfold holds
  rw [hi r l (fun x hxo => hx l r hr x hxo)]

theorem holds_merge_null (c : BExpr) (S : Col → Bool) (hi : Indep c S) (l : Env) :
    holds c (merge S l nullEnv) = holds c l := by
  unfold holds
  rw [hi (merge S l nullEnv) l (fun x hxo => by simp [merge, hxo])]

theorem psound_pushdown_filter_apply_left : pstmt_pushdown_filter_apply_left := by
  intro c t L R _ hx ht _ hi
  rcases ht with rfl | rfl | rfl | rfl
  · simp only [RelEq, Rel.out, apply, filter]
    congr 1
    exact filter_flatMap_const L.rows R.rows (holds c) (holds c)
      (fun l _ r hr => holds_of_extends c R hx hi l r hr)
  · simp only [RelEq, Rel.out, apply, filter]
    congr 1
    apply filter_flatMap_const L.rows _ (holds c) (holds c)
    intro l _ r hr
    cases hrl : R.rows l with
    | nil =>
      rw [hrl] at hr
      simp at hr
      rw [hr]
      exact holds_merge_null c R.owned hi l
    | cons m ms =>
      rw [hrl] at hr
      exact holds_of_extends c R hx hi l r (by rw [hrl]; exact hr)
  · simp only [RelEq, Rel.out, apply, filter]
    congr 1
    rw [List.filter_filter, List.filter_filter]
    apply List.filter_congr
    intro l _
    exact Bool.and_comm _ _
  · simp only [RelEq, Rel.out, apply, filter]
    congr 1
    rw [List.filter_filter, List.filter_filter]
    apply List.filter_congr
    intro l _
    exact Bool.and_comm _ _

end RlModel.C01

namespace RlModel.C01
open RlModel RlModel.P RlModel.Gen

-- refuted rules ----------------------------------------------------------------------------------

/-- Outer relation of the witnesses: column 0, one row with value 1 (or the same row twice). -/
def aL1 : Rel := { cols := [fun ρ => ρ 0], owned := fun x => x == 0, rows := [fun _ => .n 1] }
def aL2 : Rel := { cols := [fun ρ => ρ 0], owned := fun x => x == 0, rows := [fun _ => .n 1, fun _ => .n 1] }
/-- A sub-plan owning column 1 that returns no row / one row with a NULL in column 1 / one row
with the value 5. -/
def aRnone : DRel := { cols := [fun ρ => ρ 1], owned := fun x => x == 1, rows := fun _ => [] }
def aRnull : DRel := { cols := [fun ρ => ρ 1], owned := fun x => x == 1,
                       rows := fun l => [fun x => if x == 1 then .null else l x] }
def aRfive : DRel := { cols := [fun ρ => ρ 1], owned := fun x => x == 1,
                       rows := fun l => [fun x => if x == 1 then .n 5 else l x] }
/-- `count(*)` published under column 2. -/
def aCount : Agg := { col := 2, fn := fun ms => .n ms.length }

theorem aRnone_extends : aRnone.Extends := by intro l r hr; simp [aRnone] at hr
theorem aRnull_extends : aRnull.Extends := by
  intro l r hr x hx
  simp [aRnull] at hr hx
  subst hr
  simp [hx]
theorem aRfive_extends : aRfive.Extends := by
  intro l r hr x hx
  simp [aRfive] at hr hx
  subst hr
  simp [hx]

/-- `(in ?expr ?subquery) => (exists (filter (= ?expr ?column0) ?subquery))` is not an equivalence
of values: when the subquery returns a NULL (or `?expr` is NULL) and no row matches, `IN` is NULL
and the `exists` form is FALSE.  Under `NOT` the two differ as filter conditions
(`x NOT IN (subquery with a NULL)` selects nothing in SQL; the anti join built from the `exists`
form keeps the row). -/
theorem punsound_in_to_exists : ¬ pstmt_in_to_exists := by
  intro h
  have := h (fun ρ => ρ 0) aRnull aRnull_extends
    (by intro ρ ρ' hh; exact hh 0 (by simp [aRnull])) (fun _ => .n 1)
  revert this
  simp [din, dexists, dfilter, col0, aRnull, sqlEq, holds, bEq]

/-- As a filter condition (TRUE or not) the two forms agree: the rule is sound wherever only the
truth of the predicate matters (a WHERE conjunct), which is how far `psound` goes for it. -/
theorem filter_isEmpty_any {α} (xs : List α) (p : α → Bool) : (!(xs.filter p).isEmpty) = xs.any p := by
  induction xs with
  | nil => rfl
  | cons x xs ih => by_cases hp : p x <;> simp [List.filter_cons, hp, ih]

theorem holds_din (e : VExpr) (S : DRel) (ρ : Env) :
    holds (din e S) ρ = (S.rows ρ).any fun r => sqlEq (e ρ) (col0 S r) == some true := by
  simp only [holds, din, List.any_map]
  by_cases h : ((S.rows ρ).any ((fun x => x == some true) ∘ fun r => sqlEq (e ρ) (col0 S r))) = true
  · rw [if_pos h]
    simpa [Function.comp] using h
  · rw [if_neg h]
    have h' : ((S.rows ρ).any fun r => sqlEq (e ρ) (col0 S r) == some true) = false := by
      simpa [Function.comp] using h
    rw [h']
    split <;> simp

theorem psound_in_to_exists_partial (e : VExpr) (S : DRel) (hx : S.Extends) (hi : Indep e S.owned)
    (ρ : Env) : holds (din e S) ρ = holds (dexists (dfilter (bEq e (col0 S)) S)) ρ := by
  rw [holds_din]
  have : holds (dexists (dfilter (bEq e (col0 S)) S)) ρ
      = (S.rows ρ).any fun r => holds (bEq e (col0 S)) r := by
    rw [← filter_isEmpty_any]
    simp only [holds, dexists, dfilter]
    simp
    rfl
  rw [this]
  have hc : ∀ r ∈ S.rows ρ, (sqlEq (e ρ) (col0 S r) == some true) = holds (bEq e (col0 S)) r := by
    intro r hr
    simp only [holds, bEq]
    rw [hi r ρ (fun x hxo => hx ρ r hr x hxo)]
  generalize S.rows ρ = xs at hc
  induction xs with
  | nil => rfl
  | cons x xs ih =>
    simp only [List.any_cons]
    rw [hc x (by simp), ih (fun r hr => hc r (by simp [hr]))]

/-- `(filter c (apply left_outer L R)) => (filter c (apply inner L R)) if depend_on(c, R)`: reading
a column of the sub-plan does not make a condition reject its NULL padding (the source's FIXME
says `null_reject` is what is meant).  Witness: `c` = "column 1 IS NULL", a sub-plan without rows. -/
theorem punsound_left_outer_apply_to_inner_apply : ¬ pstmt_left_outer_apply_to_inner_apply := by
  intro h
  have := h (bIsNull fun ρ => ρ 1) aL1 aRnone
    (by intro ρ ρ' hh; simp [bIsNull, hh 1 (by simp [apply, aL1, aRnone])])
    aRnone_extends (by intro x; simp [aL1, aRnone]; intro hx; subst hx; decide)
    (by
      intro hi
      have := hi (fun _ => .null) (fun x => if x == 1 then .n 0 else .null)
        (by intro x hx; simp [aRnone] at hx; simp [hx])
      simp [bIsNull] at this)
  revert this
  simp [RelEq, Rel.out, filter, apply, aL1, aRnone, holds, bIsNull, merge, nullEnv]

/-- With the condition the FIXME asks for — `c` is not TRUE on a NULL-padded row — the rule is sound. -/
theorem psound_left_outer_apply_to_inner_apply_partial (c : BExpr) (L : Rel) (R : DRel)
    (hn : ∀ l, holds c (merge R.owned l nullEnv) = false) :
    RelEq (filter c (apply .leftOuter L R)) (filter c (apply .inner L R)) := by
  simp only [RelEq, Rel.out, filter, apply]
  congr 1
  rw [List.filter_flatMap, List.filter_flatMap]
  apply flatMap_congr'
  intro l _
  cases h : R.rows l with
  | nil => simp [hn l]
  | cons m ms => rfl

/-- `(apply inner L (hashagg ks aggs R)) => (hashagg (L.schema ++ ks) aggs (apply inner L R))`:
the left schema is used as a group key, so two equal left rows fall into one group (the source's
FIXME: "correct only if the left table has a key").  Witness: the same left row twice, `count(*)`. -/
theorem punsound_pushdown_apply_group_agg : ¬ pstmt_pushdown_apply_group_agg := by
  intro h
  have := h aL2 [] [aCount] aRfive aRfive_extends
    (by intro x; simp [aL2, aRfive, dhashagg, aCount]; intro hx; subst hx; decide)
  have := this.length_eq
  revert this
  simp [Rel.out, apply, dhashagg, hashagg, aL2, aRfive, groups, groupInsert, groupKey]

/-- `(apply inner L (agg aggs R)) => (hashagg L.schema aggs (apply left_outer L R))`: for an outer
row without any sub-plan row the scalar aggregate is computed over NO row on the left side and
over ONE NULL-padded row on the right side — `count(*)` is 0 vs 1 (the COUNT bug; the source's
FIXME: "correct only if agg({}) = agg({null})"). -/
theorem punsound_pushdown_apply_scalar_agg : ¬ pstmt_pushdown_apply_scalar_agg := by
  intro h
  have := h aL1 [aCount] aRnone aRnone_extends
    (by intro x; simp [aL1, aRnone, dagg, aCount]; intro hx; subst hx; decide)
  revert this
  simp [RelPerm, Rel.out, apply, dagg, hashagg, aggRowD, aggRow, aL1, aRnone, aCount, groups, groupInsert,
    groupKey, merge, nullEnv]

/-- … and it also merges equal left rows, like the grouped variant (here with an aggregate for
which the first defect does not arise: the sub-plan returns a row). -/
theorem pushdown_apply_scalar_agg_merges_equal_left_rows :
    ¬ RelPerm (apply .inner aL2 (dagg [aCount] aRfive))
        (hashagg aL2.cols [aCount] (apply .leftOuter aL2 aRfive)) := by
  intro h
  have := h.length_eq
  revert this
  simp [Rel.out, apply, dagg, hashagg, aL2, aRfive, groups, groupInsert, groupKey]

-- the well-formedness hypothesis is satisfiable and closed under the sub-plan operators ------------

theorem lift_extends (R : Rel) : (lift R).Extends := by
  intro l r hr x hx
  simp only [lift, List.mem_map] at hr hx
  obtain ⟨r0, _, rfl⟩ := hr
  simp [merge, hx]

theorem dfilter_extends (c : BExpr) (R : DRel) (h : R.Extends) : (dfilter c R).Extends := by
  intro l r hr x hx
  simp only [dfilter, List.mem_filter] at hr hx
  exact h l r hr.1 x hx

theorem dproj_extends (es : List VExpr) (R : DRel) (h : R.Extends) : (dproj es R).Extends := by
  intro l r hr x hx
  exact h l r hr x hx

theorem dagg_extends (aggs : List Agg) (R : DRel) : (dagg aggs R).Extends := by
  intro l r hr x hx
  simp only [dagg, List.mem_singleton, Bool.or_eq_false_iff] at hr hx
  subst hr
  unfold aggRowD
  cases hf : aggs.find? (fun a => a.col == x) with
  | none => rfl
  | some a =>
    have hm := List.find?_some hf
    have hmem := List.mem_of_find?_eq_some hf
    have : (aggs.any fun a => a.col == x) = true := List.any_eq_true.mpr ⟨a, hmem, hm⟩
    rw [this] at hx
    exact absurd hx.2 (by simp)

example : aRfive.Extends ∧ (lift aL1).Extends ∧ ApplyType .semi :=
  ⟨aRfive_extends, lift_extends aL1, Or.inr (Or.inr (Or.inl rfl))⟩

-- the aggregate decorrelation rules under the conditions their FIXMEs name ---------------------------

/-- The rows `apply left_outer` produces for one outer row. -/
def loBlock (R : DRel) (l : Env) : List Env :=
  match R.rows l with
  | [] => [merge R.owned l nullEnv]
  | ms => ms

theorem loBlock_ne_nil (R : DRel) (l : Env) : loBlock R l ≠ [] := by
  unfold loBlock; split <;> simp_all

/-- On every row produced for the outer row `l`, an expression of the left side has its value on `l`. -/
theorem loBlock_left_value {α} (e : Env → α) (L : Rel) (R : DRel) (hx : R.Extends)
    (hd : ∀ x, L.owned x = true → R.owned x = false) (he : ReadsWithin e L.owned)
    (l m : Env) (hm : m ∈ loBlock R l) : e m = e l := by
  apply he
  intro x hxl
  have hxr := hd x hxl
  unfold loBlock at hm
  split at hm
  · simp only [List.mem_singleton] at hm
    subst hm
    simp [merge, hxr]
  · exact hx l m hm x hxr

theorem groupKey_congr (ks : List VExpr) (a b : Env) (h : ∀ e ∈ ks, e a = e b) :
    groupKey ks a = groupKey ks b := by
  unfold groupKey
  exact List.map_congr_left h

theorem flatMap_single_eq_map {α β} (xs : List α) (g : α → β) : xs.flatMap (fun x => [g x]) = xs.map g := by
  induction xs with
  | nil => rfl
  | cons x xs ih => simp [List.flatMap_cons, ih]

/-- Output schema of the aggregate decorrelation rules: the left schema and the aggregates' columns. -/
def outCols (L : Rel) (aggs : List Agg) : List VExpr := L.cols ++ aggs.map fun a => fun (ρ : Env) => ρ a.col

/-- **`pushdown-apply-scalar-agg` is sound under exactly the two conditions of its FIXME**: the
left rows are pairwise different on the left schema ("the left table has a key") and every
aggregate gives the same value on no row and on the NULL-padded row ("agg({}) = agg({null})"). -/
theorem psound_pushdown_apply_scalar_agg_partial (L : Rel) (aggs : List Agg) (R : DRel)
    (hx : R.Extends)
    (hd : ∀ x, L.owned x = true → (dagg aggs R).owned x = false)
    (hcols : ∀ e ∈ L.cols, ReadsWithin e L.owned)
    (hkey : L.rows.Pairwise fun a b => groupKey L.cols a ≠ groupKey L.cols b)
    (hagg : ∀ a ∈ aggs, ∀ l, a.fn [] = a.fn [merge R.owned l nullEnv]) :
    RelPerm (apply .inner L (dagg aggs R)) (hashagg L.cols aggs (apply .leftOuter L R)) := by
  have hdR : ∀ x, L.owned x = true → R.owned x = false := by
    intro x h; have := hd x h; simp only [dagg, Bool.or_eq_false_iff] at this; exact this.1
  have hdA : ∀ x, L.owned x = true → (aggs.any fun a => a.col == x) = false := by
    intro x h; have := hd x h; simp only [dagg, Bool.or_eq_false_iff] at this; exact this.2
  -- the right-hand side's input, block by block
  have hrows : (apply .leftOuter L R).rows = L.rows.flatMap (loBlock R) := rfl
  have hkeyb : ∀ l m, m ∈ loBlock R l → groupKey L.cols m = groupKey L.cols l := by
    intro l m hm
    exact groupKey_congr L.cols m l (fun e he => loBlock_left_value e L R hx hdR (hcols e he) l m hm)
  have hgroups : groups L.cols (L.rows.flatMap (loBlock R))
      = L.rows.reverse.map fun l => (groupKey L.cols l, loBlock R l) := by
    rw [groups_flatMap_blocks]
    · rw [← flatMap_single_eq_map]
      apply flatMap_congr'
      intro l _
      cases hb : loBlock R l with
      | nil => exact absurd hb (loBlock_ne_nil R l)
      | cons m ms =>
        apply groups_const_key
        intro y hy
        exact hkeyb l y (by rw [hb]; exact hy)
    · apply List.Pairwise.imp _ hkey
      intro a b hab x hxa y hyb
      rw [hkeyb a x hxa, hkeyb b y hyb]
      exact hab
  -- both sides, as lists of output rows over L.rows (one in reverse order)
  unfold RelPerm
  have hcolsEq : (apply .inner L (dagg aggs R)).cols = (hashagg L.cols aggs (apply .leftOuter L R)).cols := by
    simp [apply, dagg, hashagg]
  have hl : (apply .inner L (dagg aggs R)).out
      = L.rows.map fun l => (outCols L aggs).map fun e => e (aggRowD l aggs (R.rows l)) := by
    simp [Rel.out, apply, dagg, outCols, flatMap_single_eq_map]
  have hr : (hashagg L.cols aggs (apply .leftOuter L R)).out
      = L.rows.reverse.map fun l => (outCols L aggs).map fun e => e (aggRow aggs (loBlock R l)) := by
    simp only [Rel.out, hashagg, hrows, hgroups, List.map_map, outCols]
    rfl
  rw [hl, hr]
  have hrow : ∀ l, ((outCols L aggs).map fun e => e (aggRowD l aggs (R.rows l)))
      = ((outCols L aggs).map fun e => e (aggRow aggs (loBlock R l))) := by
    intro l
    apply List.map_congr_left
    intro e he
    unfold outCols at he
    rcases List.mem_append.mp he with he | he
    · -- a column of the left side: both rows carry l's values on L.owned
      apply hcols e he
      intro x hxl
      have hxa := hdA x hxl
      have hnone : aggs.find? (fun a => a.col == x) = none := by
        apply List.find?_eq_none.mpr
        intro a ha
        have := List.any_eq_false.mp hxa a ha
        simpa using this
      cases hb : loBlock R l with
      | nil => exact absurd hb (loBlock_ne_nil R l)
      | cons m ms =>
        rw [aggRow_outside aggs m ms x hxa]
        unfold aggRowD
        rw [hnone]
        have hm : m ∈ loBlock R l := by rw [hb]; simp
        have := loBlock_left_value (fun ρ => ρ x) L R hx hdR
          (by intro ρ ρ' h; exact h x hxl) l m hm
        exact this.symm
    · -- an aggregate's column
      obtain ⟨a, ha, rfl⟩ := List.mem_map.mp he
      simp only [aggRowD, aggRow]
      cases hf : aggs.find? (fun a' => a'.col == a.col) with
      | none =>
        have := List.find?_eq_none.mp hf a ha
        simp at this
      | some a' =>
        have ha' := List.mem_of_find?_eq_some hf
        simp only
        unfold loBlock
        cases hrl : R.rows l with
        | nil => simpa using hagg a' ha' l
        | cons m ms => rfl
  have : (L.rows.map fun l => (outCols L aggs).map fun e => e (aggRowD l aggs (R.rows l)))
      = L.rows.map fun l => (outCols L aggs).map fun e => e (aggRow aggs (loBlock R l)) :=
    List.map_congr_left (fun l _ => hrow l)
  rw [this]
  exact (List.reverse_perm _).symm.map _

/-- `count(column 1)`: satisfies agg({}) = agg({NULL-padded row}) for a sub-plan owning column 1. -/
def aCountCol : Agg := { col := 2, fn := fun ms => .n (ms.filter fun m => m 1 != .null).length }

example : (aL1.rows.Pairwise fun a b => groupKey aL1.cols a ≠ groupKey aL1.cols b) ∧
    (∀ a ∈ [aCountCol], ∀ l, a.fn [] = a.fn [merge aRnone.owned l nullEnv]) := by
  refine ⟨by simp [aL1], ?_⟩
  intro a ha l
  simp only [List.mem_singleton] at ha
  subst ha
  simp [aCountCol, merge, aRnone, nullEnv]

/-- **`pushdown-apply-group-agg` is sound under the condition of its FIXME**: the left rows are
pairwise different on the left schema ("the left table has a key").  (The other condition the
FIXME lists is not needed here: a grouped aggregate has no row for an empty input on either side.) -/
theorem psound_pushdown_apply_group_agg_partial (L : Rel) (ks : List VExpr) (aggs : List Agg) (R : DRel)
    (hx : R.Extends)
    (hd : ∀ x, L.owned x = true → R.owned x = false)
    (hcols : ∀ e ∈ L.cols, ReadsWithin e L.owned)
    (hkey : L.rows.Pairwise fun a b => groupKey L.cols a ≠ groupKey L.cols b) :
    RelPerm (apply .inner L (dhashagg ks aggs R)) (hashagg (L.cols ++ ks) aggs (apply .inner L R)) := by
  have hkeyb : ∀ l m, m ∈ R.rows l → groupKey L.cols m = groupKey L.cols l := by
    intro l m hm
    apply groupKey_congr
    intro e he
    apply hcols e he
    intro x hxl
    exact hx l m hm x (hd x hxl)
  have hgroups : groups (L.cols ++ ks) (L.rows.flatMap R.rows)
      = L.rows.reverse.flatMap fun l => (groups ks (R.rows l)).map fun g => (groupKey L.cols l ++ g.1, g.2) := by
    rw [groups_flatMap_blocks]
    · apply flatMap_congr'
      intro l _
      exact groups_prefix L.cols ks (groupKey L.cols l) (R.rows l) (hkeyb l)
    · apply List.Pairwise.imp _ hkey
      intro a b hab x hxa y hyb e
      rw [groupKey_append, groupKey_append, hkeyb a x hxa, hkeyb b y hyb] at e
      have hlen : (groupKey L.cols a).length = (groupKey L.cols b).length := by simp [groupKey]
      exact hab (List.append_inj_left e hlen)
  unfold RelPerm
  have hl : (apply .inner L (dhashagg ks aggs R)).out
      = (L.rows.flatMap fun l => (groups ks (R.rows l)).map fun g => aggRow aggs g.2).map
          fun ρ => (L.cols ++ (ks ++ aggs.map fun a => fun (ρ : Env) => ρ a.col)).map fun e => e ρ := by
    simp [Rel.out, apply, dhashagg]
  have hr : (hashagg (L.cols ++ ks) aggs (apply .inner L R)).out
      = (L.rows.reverse.flatMap fun l => (groups ks (R.rows l)).map fun g => aggRow aggs g.2).map
          fun ρ => (L.cols ++ (ks ++ aggs.map fun a => fun (ρ : Env) => ρ a.col)).map fun e => e ρ := by
    have hrows : (apply .inner L R).rows = L.rows.flatMap R.rows := rfl
    simp only [Rel.out, hashagg, hrows, hgroups, List.map_flatMap, List.map_map, List.append_assoc]
    rfl
  rw [hl, hr]
  exact ((List.reverse_perm L.rows).symm.flatMap_right _).map _

end RlModel.C01
