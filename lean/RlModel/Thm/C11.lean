import RlModel.Lemmas.Exec
import RlModel.Lemmas.ExecNull
import RlModel.Lemmas.ExecAgg
import RlModel.Lemmas.ExecSorted
import RlModel.Lemmas.ExecWiden
/-!
C11 — all physical implementations of an operator agree.

Statements are about the L2 algorithms of `Model.Exec` (transcribed from the executors) and
the L1 spec of `Model.Rel`; `flat` forgets chunk boundaries, `List.Perm` is bag equality.
Every theorem holds for all inputs (any number of chunks of any sizes, any rows).
-/
namespace RlModel
open List

/-! ## the chunk builder never loses, duplicates or reorders a row -/

theorem c11_builder_flat (cap : Nat) (rows cur : List Row) :
    flat (builderRun cap rows cur) = cur ++ rows := builder_flat cap rows cur

example : flat (builderRun 2 [[.i32 1], [.i32 2], [.i32 3]] []) = [[.i32 1], [.i32 2], [.i32 3]] := by decide

/-! ## nested-loop joins are the spec -/

/-- inner nested-loop join (cross product right-major, filtered window by window) returns the
bag of the spec's inner join, for every chunking of both inputs. -/
theorem nl_eq_spec_inner (on : Pred) (nL nR : Nat) (Ls Rs : List Chunk) :
    (flat (nlJoin false on nR Ls Rs)).Perm (joinRel .inner on nL nR (flat Ls) (flat Rs)) := by
  unfold nlJoin joinRel innerJoin matchesOf
  simp only [Bool.false_eq_true, if_false]
  rw [flat_map_filter, flat_emit]
  exact cross_swap_perm (fun l r => l ++ r) (fun row => holds (on row)) (flat Ls) (flat Rs)

example : (flat (nlJoin false (fun r => sqlEq (r.getD 0 .null) (r.getD 1 .null)) 1 [[[.i32 1], [.null]]] [[[.i32 1]], [[.null]]])).Perm
    [[.i32 1, .i32 1]] := by decide

/-- LEFT OUTER nested-loop join: the remembered bitmap of the windowed cross product, read back
with the index arithmetic `filter[i + |L|·j]`, finds exactly the unmatched left rows; the result
is the bag of the spec's left outer join, for every chunking of both inputs. -/
theorem nl_eq_spec_left_outer (on : Pred) (nL nR : Nat) (Ls Rs : List Chunk) :
    (flat (nlJoin true on nR Ls Rs)).Perm (joinRel .leftOuter on nL nR (flat Ls) (flat Rs)) := by
  unfold nlJoin joinRel
  simp only [if_true]
  have hf : ∀ (a b : List Chunk), flat (a ++ b) = flat a ++ flat b := by intro a b; simp [flat]
  rw [hf, flat_map_filter, flat_emit, flat_emit, nlUnmatched_spec]
  refine Perm.trans ?_ (leftJoin_perm_decomp on nR (flat Ls) (flat Rs)).symm
  refine Perm.append_right _ ?_
  unfold innerJoin matchesOf
  exact cross_swap_perm (fun l r => l ++ r) (fun row => holds (on row)) (flat Ls) (flat Rs)

example : (flat (nlJoin true (fun r => sqlEq (r.getD 0 .null) (r.getD 1 .null)) 1 [[[.i32 1], [.null]], [[.i32 2]]] [[[.i32 1]], [[.null], [.i32 1]]])).Perm
    [[.i32 1, .i32 1], [.i32 1, .i32 1], [.null, .null], [.i32 2, .null]] := by decide

theorem nl_eq_spec_semi (on : Pred) (nL nR : Nat) (Ls Rs : List Chunk) :
    flat (nlSemiJoin false on Ls Rs) = joinRel .semi on nL nR (flat Ls) (flat Rs) := by
  unfold nlSemiJoin joinRel semiJoin
  rw [flat_emit]
  apply List.filter_congr
  intro l _
  rw [matches_isEmpty, any_flat]
  simp [flat]

theorem nl_eq_spec_anti (on : Pred) (nL nR : Nat) (Ls Rs : List Chunk) :
    flat (nlSemiJoin true on Ls Rs) = joinRel .anti on nL nR (flat Ls) (flat Rs) := by
  unfold nlSemiJoin joinRel antiJoin
  rw [flat_emit]
  apply List.filter_congr
  intro l _
  rw [matches_isEmpty, any_flat]
  simp [flat]

example : flat (nlSemiJoin true (fun r => sqlEq (r.getD 0 .null) (r.getD 1 .null)) [[[.i32 1], [.null]]] [[[.i32 1]], [[.null]]]) =
    [[.null]] := by decide

/-! ## limit / top-N -/

/-- the chunk-by-chunk `LimitExecutor` returns exactly rows `off .. off+n` of the stream. -/
theorem limit_exec_eq_spec (n off : Nat) (Xs : List Chunk) :
    flat (limitExec n off Xs) = limitRel (some n) off (flat Xs) := by
  unfold limitExec limitRel
  by_cases hn : n = 0
  · subst hn; rw [limitLoop_zero]; simp [flat]
  · rw [limitLoop_spec n off hn Xs 0]; simp

/-- … hence the result does not depend on where the chunk boundaries of the input are. -/
theorem chunking_irrelevant_limit (n off k : Nat) (Xs : List Chunk) :
    flat (limitExec n off (rechunk k Xs)) = flat (limitExec n off Xs) := by
  rw [limit_exec_eq_spec, limit_exec_eq_spec]
  congr 1
  unfold rechunk
  split
  · simp [flat]
  · rw [builder_flat]; rfl

example : flat (limitExec 2 1 [[[.i32 1]], [[.i32 2], [.i32 3]], [[.i32 4]]]) = [[.i32 2], [.i32 3]] := by decide

/-- The bounded heap of `TopNExecutor` (push, pop the greatest when over `off + n`) yields exactly
`LIMIT n OFFSET off` of the stable sort: sort-then-limit equals top-N.  (The real heap and the
real `sort_unstable_by` may order ties differently: equality is then on the key projection,
which is what the correspondence run compares.) -/
theorem topn_eq_order_limit (n off : Nat) (ks : List OrderKey) (Xs : List Chunk) :
    flat (topNExec n off ks Xs) = flat (limitExec n off (orderExec ks Xs)) := by
  rw [limit_exec_eq_spec]
  unfold topNExec orderExec limitRel heapPush sortStable
  rw [flat_emit, flat_emit]
  have h := heap_fold_eq (orderCmp ks) (off + n) (flat Xs) []
  simp only [List.take_nil] at h
  rw [h]
  simp only [List.take_drop, List.take_take, Nat.min_self]

theorem topn_eq_spec (n off : Nat) (ks : List OrderKey) (Xs : List Chunk) :
    flat (topNExec n off ks Xs) = topNRel (some n) off ks (flat Xs) := by
  rw [topn_eq_order_limit, limit_exec_eq_spec]
  unfold topNRel orderExec orderRel
  rw [flat_emit]

example : flat (topNExec 2 1 [{ key := fun r => r.getD 0 .null, desc := true }] [[[.i32 1], [.i32 5]], [[.null], [.i32 3]]]) =
    [[.i32 3], [.i32 1]] := by decide

/-! ## hash joins agree with nested-loop joins — when keys are comparable

`hashJoin`, `hashSemiJoin`, `hashSemiJoin2`, `mergeJoin` are the executors' bodies on the key vectors
they are given.  Since the `fix:` commit "a join key containing NULL never matches" they skip NULL keys
like the spec; `KeysComparable` (structural = SQL equality of NULL-free keys) is what they need of
the key vectors — false for raw Int32 vs Int64 keys (`hash_raw_keys_need_widening`), true for every
data once the keys went through `join_key` (`widen_keys_comparable`): the theorems about the executors
themselves (`hashJoinW`, …, section "join keys compare by value" at the end) have no such hypothesis. -/

/-- with NO hypothesis: the hash join of every type returns the canonical bag `joinBag` (pairs whose
NULL-free key vectors are structurally equal, padded unmatched left rows for left/full, padded
unmatched right rows for right/full), for every chunking of both inputs. -/
theorem hashjoin_is_joinBag (t : JoinType) (lk rk : List (Row → Val)) (nL nR : Nat) (Ls Rs : List Chunk) :
    (flat (hashJoin t lk rk nL nR Ls Rs)).Perm
      (joinBag (t == .leftOuter || t == .fullOuter) (t == .rightOuter || t == .fullOuter) lk rk nL nR (flat Ls) (flat Rs)) :=
  hashjoin_perm t lk rk nL nR Ls Rs

/-- FULL statement (false, see `hash_eq_nl_unsound_int_width`): for every input the hash join returns
the bag of the nested-loop join on `lk = rk`.  Proved under the forced hypothesis `KeysComparable`. -/
theorem hash_eq_nl_inner (lk rk : List (Row → Val)) (nL nR : Nat) (Ls Rs : List Chunk)
    (hlen : ∀ l ∈ flat Ls, l.length = nL) (hk : KeysComparable lk rk (flat Ls) (flat Rs)) :
    (flat (hashJoin .inner lk rk nL nR Ls Rs)).Perm
      (flat (nlJoin false (equiOn nL lk rk (fun _ => some true)) nR Ls Rs)) :=
  (hash_eq_spec_partial .inner (Or.inl rfl) lk rk nL nR Ls Rs hlen hk).trans
    (nl_eq_spec_inner (equiOn nL lk rk (fun _ => some true)) nL nR Ls Rs).symm

/-- LEFT OUTER: hash join (matched flags per key, unmatched tail) = nested-loop join (bitmap pass). -/
theorem hash_eq_nl_left_outer (lk rk : List (Row → Val)) (nL nR : Nat) (Ls Rs : List Chunk)
    (hlen : ∀ l ∈ flat Ls, l.length = nL) (hk : KeysComparable lk rk (flat Ls) (flat Rs)) :
    (flat (hashJoin .leftOuter lk rk nL nR Ls Rs)).Perm
      (flat (nlJoin true (equiOn nL lk rk (fun _ => some true)) nR Ls Rs)) :=
  (hash_eq_spec_partial .leftOuter (Or.inr (Or.inl rfl)) lk rk nL nR Ls Rs hlen hk).trans
    (nl_eq_spec_left_outer (equiOn nL lk rk (fun _ => some true)) nL nR Ls Rs).symm

/-- RIGHT / FULL OUTER (no nested-loop executor exists: `todo!()`): hash join = the spec's join. -/
theorem hash_eq_spec_right_outer (lk rk : List (Row → Val)) (nL nR : Nat) (Ls Rs : List Chunk)
    (hlen : ∀ l ∈ flat Ls, l.length = nL) (hk : KeysComparable lk rk (flat Ls) (flat Rs)) :
    (flat (hashJoin .rightOuter lk rk nL nR Ls Rs)).Perm
      (joinRel .rightOuter (equiOn nL lk rk (fun _ => some true)) nL nR (flat Ls) (flat Rs)) :=
  hash_eq_spec_partial .rightOuter (Or.inr (Or.inr (Or.inl rfl))) lk rk nL nR Ls Rs hlen hk

theorem hash_eq_spec_full_outer (lk rk : List (Row → Val)) (nL nR : Nat) (Ls Rs : List Chunk)
    (hlen : ∀ l ∈ flat Ls, l.length = nL) (hk : KeysComparable lk rk (flat Ls) (flat Rs)) :
    (flat (hashJoin .fullOuter lk rk nL nR Ls Rs)).Perm
      (joinRel .fullOuter (equiOn nL lk rk (fun _ => some true)) nL nR (flat Ls) (flat Rs)) :=
  hash_eq_spec_partial .fullOuter (Or.inr (Or.inr (Or.inr rfl))) lk rk nL nR Ls Rs hlen hk

theorem hash_eq_nl_semi (lk rk : List (Row → Val)) (nL : Nat) (Ls Rs : List Chunk)
    (hlen : ∀ l ∈ flat Ls, l.length = nL) (hk : KeysComparable lk rk (flat Ls) (flat Rs)) :
    flat (hashSemiJoin false lk rk Ls Rs) =
      flat (nlSemiJoin false (equiOn nL lk rk (fun _ => some true)) Ls Rs) := by
  rw [hash_semi_eq_spec_N false lk rk nL Ls Rs hlen hk, nl_eq_spec_semi _ nL 0]
  unfold joinRel semiJoin
  apply List.filter_congr
  intro l _; simp

theorem hash_eq_nl_anti (lk rk : List (Row → Val)) (nL : Nat) (Ls Rs : List Chunk)
    (hlen : ∀ l ∈ flat Ls, l.length = nL) (hk : KeysComparable lk rk (flat Ls) (flat Rs)) :
    flat (hashSemiJoin true lk rk Ls Rs) =
      flat (nlSemiJoin true (equiOn nL lk rk (fun _ => some true)) Ls Rs) := by
  rw [hash_semi_eq_spec_N true lk rk nL Ls Rs hlen hk, nl_eq_spec_anti _ nL 0]
  unfold joinRel antiJoin
  apply List.filter_congr
  intro l _
  cases (matchesOf (equiOn nL lk rk fun _ => some true) l (flat Rs)).isEmpty <;> rfl

def col0 : Row → Val := fun r => r.getD 0 .null

/-- NULL keys satisfy the hypothesis by themselves: it only has to be checked on NULL-free keys … -/
theorem keysComparable_null_free (lk rk : List (Row → Val)) (L R : List Row)
    (h : ∀ l ∈ L, ∀ r ∈ R, hasNullKey (keyOf lk l) = false → hasNullKey (keyOf rk r) = false →
      (keyOf lk l == keyOf rk r) = holds (keysEq3 (keyOf lk l) (keyOf rk r))) :
    KeysComparable lk rk L R := keysComparable_of_null_free lk rk L R h

/-- … e.g. data with NULL keys, duplicates and non-matching rows on both sides … -/
example : KeysComparable [col0] [col0] [[.i32 1], [.null], [.i32 1]] [[.null], [.i32 1], [.i32 3]] := by
  unfold KeysComparable; decide

/-- … and the rest of it is forced for RAW keys: Int32 and Int64 keys are SQL-equal but never
structurally equal — this was the executor until the `fix:` commit "join keys compare by value"; it
is why the key vectors are built through `join_key` (regression: `hashW_int_width_regression`). -/
theorem hash_raw_keys_need_widening :
    ¬ (∀ (Ls Rs : List Chunk), (flat (hashJoin .inner [col0] [col0] 1 1 Ls Rs)).Perm
        (flat (nlJoin false (equiOn 1 [col0] [col0] (fun _ => some true)) 1 Ls Rs))) := by
  intro h
  have := (h [[[.i32 1]]] [[[.i64 1]]]).length_eq
  revert this; decide

/-! Regression inputs: the witnesses of the former `*_unsound_null_key` theorems.  Before the fix the
hash / merge executors joined `NULL` with `NULL`; now they agree with the nested loop on them. -/

theorem hashjoin_null_key_regression :
    flat (hashJoin .inner [col0] [col0] 1 1 [[[.null]]] [[[.null]]]) =
      flat (nlJoin false (equiOn 1 [col0] [col0] (fun _ => some true)) 1 [[[.null]]] [[[.null]]]) ∧
    flat (hashJoin .fullOuter [col0] [col0] 1 1 [[[.null]]] [[[.null]]]) = [[.null, .null], [.null, .null]] := by
  decide

theorem hash_anti_null_key_regression :
    flat (hashSemiJoin true [col0] [col0] [[[.null]]] [[[.null]]]) =
      flat (nlSemiJoin true (equiOn 1 [col0] [col0] (fun _ => some true)) [[[.null]]] [[[.null]]]) := by
  decide

theorem mergejoin_null_key_regression :
    flat (mergeJoin .inner [col0] [col0] 1 1 [[[.null]]] [[[.null]]]) =
      flat (nlJoin false (equiOn 1 [col0] [col0] (fun _ => some true)) 1 [[[.null]]] [[[.null]]]) ∧
    (flat (mergeJoin .fullOuter [col0] [col0] 1 1 [[[.null], [.i32 1]]] [[[.null], [.i32 1]]])).Perm
      [[.null, .null], [.null, .null], [.i32 1, .i32 1]] := by
  constructor <;> decide

/-! ## aggregation: the two accumulation paths -/

/-- ROW path = CHUNK path = spec for COUNT / COUNT(*) / MIN / MAX of one group … -/
theorem rowpath_eq_spec (k : AggKind) (hk : k = .count ∨ k = .rowCount ∨ k = .min ∨ k = .max)
    (vs : List Val) : rowPathVal k vs = aggVal k vs := by
  rcases hk with h | h | h | h <;> subst h
  · exact rowpath_count_eq_spec vs
  · exact rowpath_rowcount_eq_spec vs
  · exact rowpath_min_eq_spec vs
  · exact rowpath_max_eq_spec vs

/-- `simpleagg_eq_hashagg_nokeys` for SUM: the chunk path (agg) and the row path (hashagg without
keys) return the same sum on every INT input — unconditional since the aggregate `fix:` commits. -/
theorem simpleagg_eq_hashagg_nokeys_sum (cols : List (List Val × List Int)) (hc : ∀ c ∈ cols, I32Col c.1) :
    chunkPathVal .sum .i32 cols = rowPathVal .sum (cols.flatMap (·.1)) := by
  have hall : I32Col (cols.flatMap (·.1)) := by
    intro v hv
    obtain ⟨c, hcm, hvc⟩ := List.mem_flatMap.mp hv
    exact hc c hcm v hvc
  rw [chunkpath_sum_eq_spec cols hc, rowpath_sum_eq_spec _ hall]

/-- regression input (witness of the former `…_sum_unsound`): 5, NULL, 3 sums to 8 on both paths. -/
theorem simpleagg_eq_hashagg_nokeys_sum_regression :
    chunkPathVal .sum .i32 [([.i32 5, .null, .i32 3], [5, 0, 3])] = rowPathVal .sum [.i32 5, .null, .i32 3] := by
  decide

/-- `first`: the chunk path takes the first ELEMENT of the chunk, the row path the first non-NULL. -/
theorem simpleagg_eq_hashagg_nokeys_first_unsound :
    chunkPathVal .first .i32 [([.null, .i32 5], [0, 5])] ≠ rowPathVal .first [.null, .i32 5] := by decide


/-! ## chunk boundaries of the inputs are irrelevant (1024-row boundary included) -/

theorem chunking_irrelevant_nljoin (outer : Bool) (on : Pred) (nR k k' : Nat) (Ls Rs : List Chunk) :
    nlJoin outer on nR (rechunk k Ls) (rechunk k' Rs) = nlJoin outer on nR Ls Rs := by
  unfold nlJoin; simp only [flat_rechunk]

theorem chunking_irrelevant_hashjoin (t : JoinType) (lk rk : List (Row → Val)) (nL nR k k' : Nat) (Ls Rs : List Chunk) :
    hashJoin t lk rk nL nR (rechunk k Ls) (rechunk k' Rs) = hashJoin t lk rk nL nR Ls Rs := by
  unfold hashJoin; simp only [flat_rechunk]

theorem chunking_irrelevant_mergejoin (t : JoinType) (lk rk : List (Row → Val)) (nL nR k k' : Nat) (Ls Rs : List Chunk) :
    mergeJoin t lk rk nL nR (rechunk k Ls) (rechunk k' Rs) = mergeJoin t lk rk nL nR Ls Rs := by
  unfold mergeJoin; simp only [flat_rechunk]

theorem chunking_irrelevant_order (ks : List OrderKey) (k : Nat) (Xs : List Chunk) :
    orderExec ks (rechunk k Xs) = orderExec ks Xs := by
  unfold orderExec; rw [flat_rechunk]

theorem chunking_irrelevant_topn (n off : Nat) (ks : List OrderKey) (k : Nat) (Xs : List Chunk) :
    topNExec n off ks (rechunk k Xs) = topNExec n off ks Xs := by
  unfold topNExec; rw [flat_rechunk]

theorem chunking_irrelevant_hashagg (ks : List (Row → Val)) (aggs : List XAgg) (k : Nat) (Xs : List Chunk) :
    hashAgg ks aggs (rechunk k Xs) = hashAgg ks aggs Xs := by
  unfold hashAgg; rw [flat_rechunk]

theorem chunking_irrelevant_sortagg (ks : List (Row → Val)) (aggs : List XAgg) (k : Nat) (Xs : List Chunk) :
    sortAgg ks aggs (rechunk k Xs) = sortAgg ks aggs Xs := by
  unfold sortAgg; rw [flat_rechunk]

theorem chunking_irrelevant_semijoin (anti : Bool) (on : Pred) (k k' : Nat) (Ls Rs : List Chunk) :
    nlSemiJoin anti on (rechunk k Ls) (rechunk k' Rs) = nlSemiJoin anti on Ls Rs := by
  unfold nlSemiJoin
  rw [flat_rechunk]
  congr 2
  funext l
  rw [any_flat, any_flat]
  have := flat_rechunk k' Rs
  unfold flat at this
  rw [this]

theorem chunking_irrelevant_hashsemijoin (anti : Bool) (lk rk : List (Row → Val)) (k k' : Nat) (Ls Rs : List Chunk) :
    flat (hashSemiJoin anti lk rk (rechunk k Ls) (rechunk k' Rs)) = flat (hashSemiJoin anti lk rk Ls Rs) := by
  unfold hashSemiJoin
  rw [flat_map_filter, flat_map_filter, flat_rechunk, flat_rechunk]

/-- FULL statement for the simple aggregation (false): the chunk path looks at chunks — `first` takes
the first ELEMENT of the first chunk that has a non-NULL first element: (NULL), (5) in two chunks gives
5, in one chunk NULL.  (SUM was chunk dependent too — empty stream NULL, one empty chunk 0 — until the
`fix:` commit "SUM of no non-null value is NULL".) -/
theorem chunking_irrelevant_simpleagg_unsound :
    ¬ (∀ (aggs : List XAgg) (k : Nat) (Xs : List Chunk), simpleAgg aggs (rechunk k Xs) = simpleAgg aggs Xs) := by
  intro h
  have := h [{ kind := .first, arg := fun r => r.getD 0 .null, ty := .i32 }] 0 [[[.null]], [[.i32 5]]]
  revert this; decide

/-- … it holds for COUNT(*) … (rows are counted chunk by chunk). -/
theorem chunkpath_rowcount (cols : List (List Val × List Int)) :
    chunkPathVal .rowCount .i32 cols = .i32 ((cols.flatMap (·.1)).length) := by
  unfold chunkPathVal initAgg
  suffices h : ∀ (n : Nat), (cols.foldl (fun st c => evalAgg .rowCount .i32 st c.1 c.2) (.value (.i32 n))).result =
      .i32 ((n + (cols.flatMap (·.1)).length : Nat)) by
    have := h 0; simpa using this
  induction cols with
  | nil => intro n; simp [AggState.result]
  | cons c cs ih =>
    intro n
    have step : evalAgg .rowCount .i32 (.value (.i32 n)) c.1 c.2 = .value (.i32 ((n + c.1.length : Nat))) := by
      simp only [evalAgg, addExt, Val.isNull, plusVal, Bool.false_eq_true, if_false, Option.getD_some]
      congr 2
    rw [List.foldl_cons, step, ih]
    simp only [List.flatMap_cons, List.length_append]
    congr 2; omega

/-! ## the executors compute exactly the path values -/

theorem zip_map_self {α β γ} (as : List α) (g : α → β) (f : α × β → γ) :
    ((as.zip (as.map g)).map f) = as.map (fun a => f (a, g a)) := by
  induction as with
  | nil => rfl
  | cons a as ih => simp [ih]

theorem evalChunk_map (aggs : List XAgg) (g : XAgg → AggState) (c : Chunk) :
    evalChunk aggs (aggs.map g) c =
      aggs.map (fun a => evalAgg a.kind a.ty (g a) (c.map a.arg) (c.map a.raw)) := by
  unfold evalChunk
  exact zip_map_self aggs g _

theorem foldl_evalChunk (aggs : List XAgg) (g : XAgg → AggState) (Xs : List Chunk) :
    Xs.foldl (evalChunk aggs) (aggs.map g) =
      aggs.map (fun a => Xs.foldl (fun st c => evalAgg a.kind a.ty st (c.map a.arg) (c.map a.raw)) (g a)) := by
  induction Xs generalizing g with
  | nil => rfl
  | cons c cs ih =>
    simp only [List.foldl_cons]
    rw [evalChunk_map, ih]

/-- `SimpleAggExecutor` computes, per aggregate, the chunk-path value over the stream of argument
columns — so everything proved about `chunkPathVal` is about the executor. -/
theorem simpleagg_is_chunkpath (aggs : List XAgg) (Xs : List Chunk) :
    flat (simpleAgg aggs Xs) =
      [aggs.map (fun a => chunkPathVal a.kind a.ty (Xs.map (fun c => (c.map a.arg, c.map a.raw))))] := by
  unfold simpleAgg initStates chunkPathVal
  rw [foldl_evalChunk]
  simp only [flat, List.flatten_cons, List.flatten_nil, List.append_nil, List.map_map]
  congr 1
  apply List.map_congr_left
  intro a _
  simp only [Function.comp]
  congr 1
  rw [List.foldl_map]

theorem appendRow_map (aggs : List XAgg) (g : XAgg → AggState) (r : Row) :
    appendRow aggs (aggs.map g) r = aggs.map (fun a => aggAppend a.kind (g a) (a.arg r)) := by
  unfold appendRow
  exact zip_map_self aggs g _

theorem foldl_appendRow (aggs : List XAgg) (g : XAgg → AggState) (X : List Row) :
    X.foldl (appendRow aggs) (aggs.map g) =
      aggs.map (fun a => (X.map a.arg).foldl (aggAppend a.kind) (g a)) := by
  induction X generalizing g with
  | nil => rfl
  | cons r rs ih =>
    simp only [List.foldl_cons, List.map_cons]
    rw [appendRow_map, ih]

/-- `SortAggExecutor` / `HashAggExecutor` without keys on a non-empty input: one row holding the
row-path value of every aggregate. -/
theorem sortagg_nokeys_is_rowpath (aggs : List XAgg) (Xs : List Chunk) (r : Row) (rs : List Row)
    (hX : flat Xs = r :: rs) :
    flat (sortAgg [] aggs Xs) = [aggs.map (fun a => rowPathVal a.kind ((r :: rs).map a.arg))] := by
  unfold sortAgg
  rw [flat_emit, hX]
  have key : ∀ (X : List Row) (g : XAgg → AggState),
      saLoop [] aggs X (some []) (aggs.map g) =
        [[] ++ (aggs.map (fun a => (X.map a.arg).foldl (aggAppend a.kind) (g a))).map AggState.result] := by
    intro X
    induction X with
    | nil => intro g; simp [saLoop]
    | cons x xs ih =>
      intro g
      unfold saLoop
      simp only [keyOf, List.map_nil, beq_self_eq_true, if_true]
      rw [appendRow_map, ih]
      simp [List.foldl_cons]
  unfold saLoop
  simp only [keyOf, List.map_nil]
  have hne : ((none : Option (List Val)) == some []) = false := rfl
  simp only [hne, Bool.false_eq_true, if_false, List.nil_append]
  unfold initStates
  rw [appendRow_map]
  have := key rs (fun a => aggAppend a.kind (initAgg a.kind) (a.arg r))
  rw [this]
  simp [rowPathVal, List.map_map, Function.comp]


theorem haInsert_eq_gInsert (aggs : List XAgg) (k : List Val) (r : Row) (m : List (List Val × List AggState)) :
    haInsert aggs k r m = gInsert (appendRow aggs) (initStates aggs) k r m := by
  induction m with
  | nil => rfl
  | cons e es ih =>
    obtain ⟨k', s⟩ := e
    simp only [haInsert, gInsert, ih]

/-- `HashAggExecutor`: one output row per distinct key, in first-occurrence order, holding the
ROW-PATH value of every aggregate over exactly the rows of that group in input order. -/
theorem hashagg_groupwise (ks : List (Row → Val)) (aggs : List XAgg) (Xs : List Chunk) :
    flat (hashAgg ks aggs Xs) =
      (dedup ((flat Xs).map (keyOf ks))).map (fun k =>
        k ++ aggs.map (fun a => rowPathVal a.kind ((groupRows ks k (flat Xs)).map a.arg))) := by
  unfold hashAgg
  rw [flat_emit]
  have h1 : (flat Xs).foldl (fun m r => haInsert aggs (keyOf ks r) r m) [] =
      (flat Xs).foldl (fun m r => gInsert (appendRow aggs) (initStates aggs) (keyOf ks r) r m) [] := by
    congr 1; funext m r; exact haInsert_eq_gInsert aggs _ r m
  have h2 := gBuild_eq (appendRow aggs) (initStates aggs) (keyOf ks) (flat Xs) []
  simp only [List.map_nil, dedup, List.nil_append] at h2
  rw [h1, h2, List.map_map]
  apply List.map_congr_left
  intro k _
  simp only [Function.comp]
  congr 1
  unfold initStates groupRows
  rw [foldl_appendRow, List.map_map]
  apply List.map_congr_left
  intro a _
  rfl

/-- hence hash aggregation = the spec's GROUP BY for COUNT / COUNT(*) / MIN / MAX (list equality). -/
theorem hashagg_eq_spec_partial (ks : List (Row → Val)) (aggs : List XAgg) (Xs : List Chunk)
    (hk : ∀ a ∈ aggs, a.kind = .count ∨ a.kind = .rowCount ∨ a.kind = .min ∨ a.kind = .max) :
    flat (hashAgg ks aggs Xs) = groupAgg ks (aggs.map XAgg.toCall) (flat Xs) := by
  rw [hashagg_groupwise]
  unfold groupAgg
  apply List.map_congr_left
  intro k _
  congr 1
  rw [List.map_map]
  apply List.map_congr_left
  intro a ha
  simp only [Function.comp, XAgg.toCall]
  exact rowpath_eq_spec a.kind (hk a ha) _


/-- `SortAggExecutor` on an input whose rows all carry the same key `k` (one sorted run): one row,
key followed by the row-path values. -/
theorem sortagg_one_run (ks : List (Row → Val)) (aggs : List XAgg) (Xs : List Chunk) (k : List Val)
    (r : Row) (rs : List Row) (hX : flat Xs = r :: rs) (hk : ∀ x ∈ r :: rs, keyOf ks x = k) :
    flat (sortAgg ks aggs Xs) = [k ++ aggs.map (fun a => rowPathVal a.kind ((r :: rs).map a.arg))] := by
  unfold sortAgg
  rw [flat_emit, hX]
  have key : ∀ (X : List Row) (g : XAgg → AggState), (∀ x ∈ X, keyOf ks x = k) →
      saLoop ks aggs X (some k) (aggs.map g) =
        [k ++ (aggs.map (fun a => (X.map a.arg).foldl (aggAppend a.kind) (g a))).map AggState.result] := by
    intro X
    induction X with
    | nil => intro g _; simp [saLoop]
    | cons x xs ih =>
      intro g h
      unfold saLoop
      have hx : keyOf ks x = k := h x List.mem_cons_self
      simp only [hx, beq_self_eq_true, if_true]
      rw [appendRow_map, ih _ (fun y hy => h y (List.mem_cons_of_mem _ hy))]
      simp [List.foldl_cons]
  unfold saLoop
  have hr : keyOf ks r = k := hk r List.mem_cons_self
  have hne : ((none : Option (List Val)) == some (keyOf ks r)) = false := rfl
  simp only [hne, Bool.false_eq_true, if_false, List.nil_append]
  unfold initStates
  rw [appendRow_map, hr]
  have := key rs (fun a => aggAppend a.kind (initAgg a.kind) (a.arg r)) (fun y hy => hk y (List.mem_cons_of_mem _ hy))
  rw [this]
  simp [rowPathVal, List.map_map, Function.comp]

theorem dedup_all_eq {α} [BEq α] [LawfulBEq α] (k : α) (xs : List α) (h : ∀ x ∈ xs, x = k) (hne : xs ≠ []) :
    dedup xs = [k] := by
  induction xs with
  | nil => exact absurd rfl hne
  | cons x xs ih =>
    have hx : x = k := h x List.mem_cons_self
    subst hx
    simp only [dedup]
    congr 1
    rw [List.filter_eq_nil_iff]
    intro y hy
    have : y = x := h y (List.mem_cons_of_mem _ ((mem_dedup xs y).mp hy))
    simp [this]

/-- `hashagg_eq_sortagg` for one run: on an input that is a single group both executors return the
same row.  (General statement: see docs — what is missing is the decomposition of a sorted input
into its runs.) -/
theorem hashagg_eq_sortagg_one_run (ks : List (Row → Val)) (aggs : List XAgg) (Xs : List Chunk) (k : List Val)
    (r : Row) (rs : List Row) (hX : flat Xs = r :: rs) (hk : ∀ x ∈ r :: rs, keyOf ks x = k) :
    flat (hashAgg ks aggs Xs) = flat (sortAgg ks aggs Xs) := by
  rw [sortagg_one_run ks aggs Xs k r rs hX hk, hashagg_groupwise, hX]
  have hd : dedup ((r :: rs).map (keyOf ks)) = [k] := by
    apply dedup_all_eq
    · intro x hx
      obtain ⟨y, hy, rfl⟩ := List.mem_map.mp hx
      exact hk y hy
    · simp
  rw [hd]
  simp only [List.map_cons, List.map_nil]
  congr 3
  funext a
  congr 2
  unfold groupRows
  rw [List.filter_eq_self.mpr]
  · rfl
  · intro x hx; rw [hk x hx]; exact BEq.rfl


/-! ## sort aggregation = hash aggregation on sorted input -/

/-- states of the sort aggregation after the rows `acc` of the current run. -/
def stOf (aggs : List XAgg) (acc : List Row) : List AggState :=
  aggs.map (fun a => (acc.map a.arg).foldl (aggAppend a.kind) (initAgg a.kind))

def outOf (aggs : List XAgg) (p : List Val × List Row) : Row :=
  p.1 ++ aggs.map (fun a => rowPathVal a.kind (p.2.map a.arg))

theorem appendRow_stOf (aggs : List XAgg) (acc : List Row) (r : Row) :
    appendRow aggs (stOf aggs acc) r = stOf aggs (acc ++ [r]) := by
  unfold stOf
  rw [appendRow_map]
  apply List.map_congr_left
  intro a _
  simp [List.foldl_append]

theorem stOf_result (aggs : List XAgg) (k : List Val) (acc : List Row) :
    k ++ (stOf aggs acc).map AggState.result = outOf aggs (k, acc) := by
  unfold stOf outOf rowPathVal
  simp [List.map_map, Function.comp]

/-- `SortAggExecutor`'s loop emits one row per maximal run of adjacent equal keys (no hypothesis). -/
theorem saLoop_runs (ks : List (Row → Val)) (aggs : List XAgg) (X : List Row) (k : List Val) (acc : List Row) :
    saLoop ks aggs X (some k) (stOf aggs acc) = (runsAux (keyOf ks) X k acc).map (outOf aggs) := by
  induction X generalizing k acc with
  | nil => simp [saLoop, runsAux, stOf_result]
  | cons r rs ih =>
    unfold saLoop runsAux
    dsimp only
    have hb : ((some k : Option (List Val)) == some (keyOf ks r)) = (k == keyOf ks r) := rfl
    rw [hb]
    by_cases h : k == keyOf ks r
    · simp only [h, if_true]
      rw [appendRow_stOf, ih]
    · simp only [h, Bool.false_eq_true, if_false, List.map_cons]
      have : appendRow aggs (initStates aggs) r = stOf aggs [r] := by
        have := appendRow_stOf aggs [] r
        simpa [stOf, initStates] using this
      rw [this, ih, stOf_result]
      rfl

theorem sortagg_runs (ks : List (Row → Val)) (aggs : List XAgg) (Xs : List Chunk) :
    flat (sortAgg ks aggs Xs) = (runs (keyOf ks) (flat Xs)).map (outOf aggs) := by
  unfold sortAgg
  rw [flat_emit]
  cases flat Xs with
  | nil => rfl
  | cons r rs =>
    unfold saLoop runs
    dsimp only
    have hb : ((none : Option (List Val)) == some (keyOf ks r)) = false := rfl
    simp only [hb, Bool.false_eq_true, if_false, List.nil_append]
    have : appendRow aggs (initStates aggs) r = stOf aggs [r] := by
      have := appendRow_stOf aggs [] r
      simpa [stOf, initStates] using this
    rw [this, saLoop_runs]

/-- `hashagg_eq_sortagg`: on an input sorted by the grouping keys (`order` below `sortagg`), sort
aggregation and hash aggregation return the same rows — even in the same order, with the same
(row-path) aggregate values, whatever they are. -/
theorem hashagg_eq_sortagg (ks : List (Row → Val)) (aggs : List XAgg) (Xs : List Chunk)
    (hs : SortedBy rowCmp ((flat Xs).map (keyOf ks))) :
    flat (sortAgg ks aggs Xs) = flat (hashAgg ks aggs Xs) := by
  rw [sortagg_runs, hashagg_groupwise,
    runs_sorted (keyOf ks) rowCmp rowCmp_lawful rowCmp_eq_iff (flat Xs).length (flat Xs) (Nat.le_refl _) hs,
    List.map_map]
  apply List.map_congr_left
  intro k _
  rfl

/-- the hypothesis is needed: on an unsorted input sort aggregation splits a group. -/
theorem hashagg_eq_sortagg_unsorted_unsound :
    ¬ (∀ (Xs : List Chunk), flat (sortAgg [col0] [{ kind := .rowCount, arg := col0 }] Xs) =
        flat (hashAgg [col0] [{ kind := .rowCount, arg := col0 }] Xs)) := by
  intro h
  have := h [[[.i32 1], [.i32 2], [.i32 1]]]
  revert this; decide

example : SortedBy rowCmp (([[.null], [.i32 1], [.i32 1], [.i32 3]] : List Row).map (keyOf [col0])) := by
  unfold SortedBy; decide


/-! ## merge join -/

theorem gbkLoop_runsAux (ks : List (Row → Val)) (X : List Row) (cur : List Val) (acc : List Row)
    (hcur : cur ≠ []) (hX : ∀ x ∈ X, keyOf ks x ≠ []) :
    gbkLoop ks X cur acc = runsAux (keyOf ks) X cur acc := by
  induction X generalizing cur acc with
  | nil =>
    unfold gbkLoop runsAux
    have : cur.isEmpty = false := by cases cur <;> simp_all
    simp [this]
  | cons x xs ih =>
    unfold gbkLoop runsAux
    dsimp only
    have hne : cur.isEmpty = false := by cases cur <;> simp_all
    have hsym : (keyOf ks x != cur) = !(cur == keyOf ks x) := by
      simp only [bne]
      cases h : cur == keyOf ks x
      · cases h2 : keyOf ks x == cur
        · rfl
        · rw [eq_of_beq h2] at h; simp at h
      · rw [eq_of_beq h]; simp
    rw [hsym]
    by_cases h : cur == keyOf ks x
    · simp only [h, Bool.not_true, Bool.false_eq_true, if_false, if_true]
      exact ih cur _ hcur (fun y hy => hX y (List.mem_cons_of_mem _ hy))
    · simp only [h, Bool.not_false, if_true, hne, Bool.false_eq_true, if_false, List.singleton_append]
      rw [ih (keyOf ks x) [x] (hX x List.mem_cons_self) (fun y hy => hX y (List.mem_cons_of_mem _ hy))]

/-- `group_by_keys` yields the maximal runs of adjacent equal keys — provided the key list is not
empty (with an empty key list the initial `current_key = []` is never told apart and NOTHING is
yielded: `mergejoin` on `(list)` keys returns no rows, `hashjoin` the cross product). -/
theorem groupByKeys_eq_runs (ks : List (Row → Val)) (hks : ks ≠ []) (X : List Row) :
    groupByKeys ks X = runs (keyOf ks) X := by
  have hkey : ∀ x : Row, keyOf ks x ≠ [] := by
    intro x; unfold keyOf; cases ks with
    | nil => exact absurd rfl hks
    | cons k ks => simp
  unfold groupByKeys
  cases X with
  | nil => rfl
  | cons x xs =>
    unfold gbkLoop runs
    dsimp only
    have h1 : (keyOf ks x != ([] : List Val)) = true := by
      have := hkey x
      cases h : keyOf ks x with
      | nil => exact absurd h this
      | cons a as => rfl
    simp only [h1, if_true, List.isEmpty_nil, List.nil_append]
    exact gbkLoop_runsAux ks xs _ _ (hkey x) (fun y _ => hkey y)

theorem groupByKeys_empty_keys (X : List Row) : groupByKeys [] X = [] := by
  unfold groupByKeys
  suffices h : ∀ acc, gbkLoop [] X [] acc = [] from h []
  induction X with
  | nil => intro acc; rfl
  | cons x xs ih => intro acc; unfold gbkLoop; simp [keyOf, ih]

/-- on sorted inputs the two group streams of the merge join are exactly the key groups, in strictly
increasing key order: the same `(key, rows)` table the hash join builds (`hmBuild_struct`). -/
theorem mergejoin_groups_sorted (ks : List (Row → Val)) (hks : ks ≠ []) (X : List Row)
    (hs : SortedBy rowCmp (X.map (keyOf ks))) :
    groupByKeys ks X = (dedup (X.map (keyOf ks))).map (fun k => (k, X.filter (fun x => keyOf ks x == k))) := by
  rw [groupByKeys_eq_runs ks hks]
  exact runs_sorted (keyOf ks) rowCmp rowCmp_lawful rowCmp_eq_iff X.length X (Nat.le_refl _) hs

/-- merge join with an EMPTY key list returns nothing, hash join the cross product. -/
theorem merge_eq_hash_empty_keys_unsound :
    ¬ (∀ (Ls Rs : List Chunk), (flat (mergeJoin .inner [] [] 1 1 Ls Rs)).Perm (flat (hashJoin .inner [] [] 1 1 Ls Rs))) := by
  intro h
  have := (h [[[.i32 1]]] [[[.i32 2]]]).length_eq
  revert this; decide


def lookupG (k : List Val) (gs : List KGroup) : Option (List Row) := (gs.find? (fun g => g.1 == k)).map (·.2)

def StrictInc (gs : List KGroup) : Prop := (gs.map (·.1)).Pairwise (fun a b => rowCmp a b = .lt)

theorem rowCmp_lt_ne {a b : List Val} (h : rowCmp a b = .lt) : (a == b) = false := by
  cases hab : a == b
  · rfl
  · rw [eq_of_beq hab, rowCmp_refl] at h; cases h

theorem rowCmp_lt_ne' {a b : List Val} (h : rowCmp a b = .lt) : (b == a) = false := by
  cases hab : b == a
  · rfl
  · rw [eq_of_beq hab, rowCmp_refl] at h; cases h

theorem lookupG_none_of_lt (k rk : List Val) (rrows : List Row) (rs : List KGroup)
    (hs : StrictInc ((rk, rrows) :: rs)) (h : rowCmp k rk = .lt) : lookupG k ((rk, rrows) :: rs) = none := by
  unfold lookupG
  rw [Option.map_eq_none_iff, List.find?_eq_none]
  intro g hg
  unfold StrictInc at hs
  rw [List.map_cons, List.pairwise_cons] at hs
  rcases List.mem_cons.mp hg with rfl | hg'
  · simp [rowCmp_lt_ne' h]
  · have h2 : rowCmp rk g.1 = .lt := hs.1 g.1 (List.mem_map_of_mem hg')
    have h3 : rowCmp k g.1 = .lt := rowCmp_trans h h2
    simp [rowCmp_lt_ne' h3]

theorem lookupG_cons_ne (k rk : List Val) (rrows : List Row) (rs : List KGroup) (h : (rk == k) = false) :
    lookupG k ((rk, rrows) :: rs) = lookupG k rs := by
  unfold lookupG; simp [List.find?_cons, h]

theorem beq_comm' {α} [BEq α] [LawfulBEq α] (a b : α) : (a == b) = (b == a) := by
  cases h : a == b
  · cases h2 : b == a
    · rfl
    · rw [eq_of_beq h2] at h; simp at h
  · rw [eq_of_beq h]; simp

/-- distinct keys of a sorted key list are strictly increasing. -/
theorem dedup_sorted_strict (xs : List (List Val)) (hs : xs.Pairwise (fun a b => rowCmp a b ≠ .gt)) :
    (dedup xs).Pairwise (fun a b => rowCmp a b = .lt) := by
  induction xs with
  | nil => simp [dedup]
  | cons x xs ih =>
    rw [List.pairwise_cons] at hs
    simp only [dedup]
    rw [List.pairwise_cons]
    constructor
    · intro y hy
      obtain ⟨hy1, hy2⟩ := List.mem_filter.mp hy
      have hmem := (mem_dedup xs y).mp hy1
      have hle := hs.1 y hmem
      cases hc : rowCmp x y with
      | lt => rfl
      | eq => rw [(rowCmp_eq_iff x y).mp hc] at hy2; simp at hy2
      | gt => exact absurd hc hle
    · exact (ih hs.2).sublist List.filter_sublist

theorem strictInc_groups (key : Row → List Val) (X : List Row) (rowsOf : List Val → List Row)
    (hs : SortedBy rowCmp (X.map key)) :
    StrictInc ((dedup (X.map key)).map (fun k => (k, rowsOf k))) := by
  unfold StrictInc
  rw [List.map_map]
  have : ((fun g : KGroup => g.1) ∘ fun k => (k, rowsOf k)) = id := rfl
  rw [this, List.map_id]
  exact dedup_sorted_strict _ hs

theorem lookupG_groups (key : Row → List Val) (X : List Row) (k : List Val) :
    lookupG k ((dedup (X.map key)).map (fun k => (k, X.filter (fun x => key x == k)))) =
      if (X.map key).contains k then some (X.filter (fun x => key x == k)) else none := by
  unfold lookupG
  rw [← contains_dedup]
  induction (dedup (X.map key)) with
  | nil => rfl
  | cons d ds ih =>
    simp only [List.map_cons, List.find?_cons, List.contains_cons]
    by_cases h : d == k
    · have : (k == d) = true := by rw [beq_comm']; exact h
      simp [h, this, eq_of_beq h]
    · have : (k == d) = false := by rw [beq_comm']; simpa using h
      simp only [h, this, Bool.false_or]
      exact ih

theorem crossLR_nil_right (ls : List Row) : crossLR ls [] = [] := by
  unfold crossLR; induction ls with
  | nil => rfl
  | cons l ls ih => simp [ih]

theorem flatMap_ite_filter {α β} (c : α → Bool) (g : α → List β) (D : List α) :
    D.flatMap (fun k => if c k then g k else []) = (D.filter c).flatMap g := by
  induction D with
  | nil => rfl
  | cons d ds ih =>
    simp only [List.flatMap_cons, List.filter_cons]
    cases c d
    · simp only [Bool.false_eq_true, if_false, List.nil_append]; exact ih
    · simp only [if_true, List.flatMap_cons]; rw [ih]

theorem strictInc_tail {g : KGroup} {gs : List KGroup} (h : StrictInc (g :: gs)) : StrictInc gs := by
  unfold StrictInc at h ⊢; rw [List.map_cons, List.pairwise_cons] at h; exact h.2

theorem strictInc_head_lt {k : List Val} {rows : List Row} {gs : List KGroup} (h : StrictInc ((k, rows) :: gs)) :
    ∀ g ∈ gs, rowCmp k g.1 = .lt := by
  intro g hg
  unfold StrictInc at h; rw [List.map_cons, List.pairwise_cons] at h
  exact h.1 g.1 (List.mem_map_of_mem hg)


/-- what one left group contributes: the cross product with the right group of the same key, or the
padded rows when there is none — a group whose key contains NULL never has a partner. -/
def mergeF (pl : Bool) (nR : Nat) (rg : List KGroup) (g : KGroup) : List Row :=
  if hasNullKey g.1 then (if pl then g.2.map (· ++ nulls nR) else [])
  else match lookupG g.1 rg with
    | some rrows => crossLR g.2 rrows
    | none => if pl then g.2.map (· ++ nulls nR) else []

/-- what the unmatched right groups contribute (right / full outer). -/
def mergeR (pr : Bool) (nL : Nat) (lg rg : List KGroup) : List Row :=
  if pr then (rg.filter (fun h => hasNullKey h.1 || !(lg.any (fun g => g.1 == h.1)))).flatMap
    (fun h => h.2.map (nulls nL ++ ·)) else []

theorem mergeF_unmatched (pl : Bool) (nR : Nat) (rg : List KGroup) (g : KGroup)
    (h : hasNullKey g.1 = true ∨ lookupG g.1 rg = none) :
    mergeF pl nR rg g = if pl then g.2.map (· ++ nulls nR) else [] := by
  unfold mergeF
  cases hn : hasNullKey g.1
  · rcases h with h | h
    · rw [hn] at h; cases h
    · simp [h]
  · simp

theorem mergeF_cons_ne (pl : Bool) (nR : Nat) (rk : List Val) (rrows : List Row) (rs : List KGroup) (g : KGroup)
    (h : (rk == g.1) = false) : mergeF pl nR ((rk, rrows) :: rs) g = mergeF pl nR rs g := by
  unfold mergeF
  rw [lookupG_cons_ne g.1 rk rrows rs h]

theorem mergeR_congr_left (pr : Bool) (nL : Nat) (lg lg' rg : List KGroup)
    (h : ∀ hh ∈ rg, lg.any (fun g => g.1 == hh.1) = lg'.any (fun g => g.1 == hh.1)) :
    mergeR pr nL lg rg = mergeR pr nL lg' rg := by
  unfold mergeR
  cases pr
  · rfl
  · simp only [if_true]
    congr 1
    apply List.filter_congr
    intro hh hm
    rw [h hh hm]

/-- THE merge walk, all four join types, as a bag: over two strictly increasing group streams the
loop emits, per left group, the cross product with the right group of the same NULL-free key or the
padded left rows, and the padded right groups that found no partner. -/
theorem mergeLoop_perm (pl pr : Bool) (nL nR : Nat) :
    ∀ (fuel : Nat) (lg rg : List KGroup), StrictInc lg → StrictInc rg → lg.length + rg.length ≤ fuel →
      (mergeLoop pl pr nL nR fuel lg rg).Perm (lg.flatMap (mergeF pl nR rg) ++ mergeR pr nL lg rg) := by
  intro fuel
  induction fuel with
  | zero =>
    intro lg rg _ _ h
    have h1 : lg = [] := List.eq_nil_of_length_eq_zero (by omega)
    have h2 : rg = [] := List.eq_nil_of_length_eq_zero (by omega)
    subst h1; subst h2
    cases pr <;> simp [mergeLoop, mergeR]
  | succ fuel ih =>
    intro lg rg hl hr hf
    cases lg with
    | nil =>
      cases rg with
      | nil => cases pr <;> simp [mergeLoop, mergeR]
      | cons r rs =>
        obtain ⟨rk, rrows⟩ := r
        unfold mergeLoop
        have := ih [] rs hl (strictInc_tail hr) (by simp at hf ⊢; omega)
        simp only [List.flatMap_nil, List.nil_append] at this ⊢
        refine (Perm.append_left _ this).trans (Perm.of_eq ?_)
        unfold mergeR
        cases pr <;> simp
    | cons l ls =>
      obtain ⟨lk, lrows⟩ := l
      have hl' := strictInc_tail hl
      have hlgt := strictInc_head_lt hl
      cases rg with
      | nil =>
        unfold mergeLoop
        have := ih ls [] hl' hr (by simp at hf ⊢; omega)
        simp only [List.flatMap_cons]
        have hm : mergeF pl nR [] (lk, lrows) = if pl then lrows.map (· ++ nulls nR) else [] :=
          mergeF_unmatched pl nR [] (lk, lrows) (Or.inr rfl)
        have hR : mergeR pr nL ((lk, lrows) :: ls) [] = mergeR pr nL ls [] := by
          unfold mergeR; cases pr <;> simp
        rw [hm, hR, List.append_assoc]
        exact Perm.append_left _ this
      | cons r rs =>
        obtain ⟨rk, rrows⟩ := r
        have hr' := strictInc_tail hr
        have hrgt := strictInc_head_lt hr
        unfold mergeLoop
        simp only [List.flatMap_cons]
        by_cases heq : lk == rk
        · have e : lk = rk := eq_of_beq heq
          by_cases hnull : hasNullKey lk
          · -- equal keys containing NULL: the left group is unmatched, the walk advances on the left
            simp only [heq, hnull, Bool.not_true, Bool.and_false, Bool.false_eq_true, if_false, Bool.and_self,
              Bool.or_true, if_true]
            have h1 : mergeF pl nR ((rk, rrows) :: rs) (lk, lrows) = if pl then lrows.map (· ++ nulls nR) else [] :=
              mergeF_unmatched pl nR _ (lk, lrows) (Or.inl hnull)
            have h3 : mergeR pr nL ((lk, lrows) :: ls) ((rk, rrows) :: rs) = mergeR pr nL ls ((rk, rrows) :: rs) := by
              unfold mergeR
              cases pr
              · rfl
              · simp only [if_true]
                congr 1
                apply List.filter_congr
                intro hh hm
                rcases List.mem_cons.mp hm with rfl | hm'
                · have : hasNullKey rk = true := by rw [← e]; exact hnull
                  simp [this]
                · have : (lk == hh.1) = false := by rw [e]; exact rowCmp_lt_ne (hrgt hh hm')
                  simp [List.any_cons, this]
            rw [h1, h3, List.append_assoc]
            exact Perm.append_left _ (ih ls ((rk, rrows) :: rs) hl' hr (by simp at hf ⊢; omega))
          · simp only [heq, hnull, Bool.not_false, Bool.and_self, if_true]
            have h1 : mergeF pl nR ((rk, rrows) :: rs) (lk, lrows) = crossLR lrows rrows := by
              unfold mergeF lookupG
              have : (rk == lk) = true := by rw [e]; exact BEq.rfl
              simp [hnull, List.find?_cons, this]
            have h2 : ls.flatMap (mergeF pl nR ((rk, rrows) :: rs)) = ls.flatMap (mergeF pl nR rs) := by
              apply flatMap_congr'
              intro g hg
              exact mergeF_cons_ne pl nR rk rrows rs g (by rw [← e]; exact rowCmp_lt_ne (hlgt g hg))
            have h3 : mergeR pr nL ((lk, lrows) :: ls) ((rk, rrows) :: rs) = mergeR pr nL ls rs := by
              unfold mergeR
              cases pr
              · rfl
              · have hrn : hasNullKey rk = false := by rw [← e]; simpa using hnull
                simp only [if_true, List.filter_cons, List.any_cons, heq, Bool.true_or, Bool.not_true,
                  hrn, Bool.or_false, Bool.false_eq_true, if_false]
                congr 1
                apply List.filter_congr
                intro hh hm
                have : (lk == hh.1) = false := by rw [e]; exact rowCmp_lt_ne (hrgt hh hm)
                simp [this]
            rw [h1, h2, h3, List.append_assoc]
            exact Perm.append_left _ (ih ls rs hl' hr' (by simp at hf ⊢; omega))
        · simp only [heq, Bool.false_and, Bool.false_eq_true, if_false, Bool.or_false]
          cases hc : rowCmp lk rk with
          | lt =>
            simp only [beq_self_eq_true, if_true]
            have h1 : mergeF pl nR ((rk, rrows) :: rs) (lk, lrows) = if pl then lrows.map (· ++ nulls nR) else [] :=
              mergeF_unmatched pl nR _ (lk, lrows) (Or.inr (lookupG_none_of_lt lk rk rrows rs hr hc))
            have h3 : mergeR pr nL ((lk, lrows) :: ls) ((rk, rrows) :: rs) = mergeR pr nL ls ((rk, rrows) :: rs) := by
              apply mergeR_congr_left
              intro hh hm
              have hlt : rowCmp lk hh.1 = .lt := by
                rcases List.mem_cons.mp hm with rfl | hm'
                · exact hc
                · exact rowCmp_trans hc (hrgt hh hm')
              simp [List.any_cons, rowCmp_lt_ne hlt]
            rw [h1, h3, List.append_assoc]
            exact Perm.append_left _ (ih ls ((rk, rrows) :: rs) hl' hr (by simp at hf ⊢; omega))
          | gt =>
            have hne : (Ordering.gt == Ordering.lt) = false := rfl
            simp only [hne, Bool.false_eq_true, if_false, beq_self_eq_true, if_true]
            have hrk : rowCmp rk lk = .lt := by
              have := rowCmp_swap lk rk; rw [hc] at this; simpa using this
            have hrklt : ∀ g ∈ (lk, lrows) :: ls, rowCmp rk g.1 = .lt := by
              intro g hg
              rcases List.mem_cons.mp hg with rfl | hg'
              · exact hrk
              · exact rowCmp_trans hrk (hlgt g hg')
            have hcong : ∀ g ∈ (lk, lrows) :: ls, mergeF pl nR rs g = mergeF pl nR ((rk, rrows) :: rs) g := by
              intro g hg
              exact (mergeF_cons_ne pl nR rk rrows rs g (rowCmp_lt_ne (hrklt g hg))).symm
            have h2 : ((lk, lrows) :: ls).flatMap (mergeF pl nR rs) =
                mergeF pl nR ((rk, rrows) :: rs) (lk, lrows) ++ ls.flatMap (mergeF pl nR ((rk, rrows) :: rs)) := by
              rw [List.flatMap_cons, hcong _ List.mem_cons_self]
              congr 1
              apply flatMap_congr'
              intro g hg
              exact hcong g (List.mem_cons_of_mem _ hg)
            have h3 : mergeR pr nL ((lk, lrows) :: ls) ((rk, rrows) :: rs) =
                (if pr then rrows.map (nulls nL ++ ·) else []) ++ mergeR pr nL ((lk, lrows) :: ls) rs := by
              unfold mergeR
              cases pr
              · rfl
              · have hnot : (((lk, lrows) :: ls).any (fun g => g.1 == rk)) = false := by
                  rw [List.any_eq_false]
                  intro g hg
                  simp [rowCmp_lt_ne' (hrklt g hg)]
                simp only [if_true, List.filter_cons, hnot, Bool.not_false, Bool.or_true, List.flatMap_cons]
            have := ih ((lk, lrows) :: ls) rs hl hr' (by simp at hf ⊢; omega)
            rw [h2] at this
            rw [h3]
            refine (Perm.append_left _ this).trans ?_
            exact (perm_append_comm_assoc _ _ _)
          | eq =>
            exact absurd (by rw [(rowCmp_eq_iff lk rk).mp hc]; exact BEq.rfl) heq

/-- right rows that can match key `k` (none when `k` contains a NULL). -/
def rjk (rk : List (Row → Val)) (R : List Row) (k : List Val) : List Row :=
  R.filter (fun r => !hasNullKey k && keyOf rk r == k)

theorem mergeF_groups (pl : Bool) (nR : Nat) (lk rk : List (Row → Val)) (L R : List Row) (k : List Val) :
    mergeF pl nR ((dedup (R.map (keyOf rk))).map (fun k => (k, R.filter (fun x => keyOf rk x == k))))
        (k, L.filter (fun x => keyOf lk x == k)) =
      crossLR (L.filter (fun l => keyOf lk l == k)) (rjk rk R k) ++
        (if (pl && (rjk rk R k).isEmpty) then (L.filter (fun l => keyOf lk l == k)).map (· ++ nulls nR) else []) := by
  unfold mergeF rjk
  cases hn : hasNullKey k
  · simp only [Bool.false_eq_true, if_false, Bool.not_false, Bool.true_and]
    rw [lookupG_groups]
    by_cases hc : (R.map (keyOf rk)).contains k
    · rw [if_pos hc]
      have hne : (R.filter (fun r => keyOf rk r == k)).isEmpty = false := by
        rw [List.contains_iff_mem] at hc
        obtain ⟨r, hr, hrk'⟩ := List.mem_map.mp hc
        cases hf : R.filter (fun r => keyOf rk r == k) with
        | nil =>
          have : r ∈ R.filter (fun r => keyOf rk r == k) := List.mem_filter.mpr ⟨hr, by rw [hrk']; exact BEq.rfl⟩
          rw [hf] at this; cases this
        | cons _ _ => rfl
      simp [hne]
    · rw [if_neg hc]
      have : R.filter (fun r => keyOf rk r == k) = [] := by
        rw [List.filter_eq_nil_iff]
        intro r hr hrk'
        apply hc
        rw [List.contains_iff_mem, ← eq_of_beq hrk']
        exact List.mem_map_of_mem hr
      cases pl <;> simp [this, crossLR_nil_right]
  · have hnil : R.filter (fun r => false && keyOf rk r == k) = [] := by
      rw [List.filter_eq_nil_iff]; intro r _; simp
    simp only [if_true, Bool.not_true, hnil, crossLR_nil_right, List.nil_append, List.isEmpty_nil, Bool.and_true]

theorem regroup_inner (lk rk : List (Row → Val)) (L R : List Row) :
    ((dedup (L.map (keyOf lk))).flatMap (fun k =>
        crossLR (L.filter (fun l => keyOf lk l == k)) (rjk rk R k))).Perm
      (L.flatMap (fun l => (R.filter (jk lk rk l)).map (l ++ ·))) := by
  have hg := group_perm (keyOf lk) L
  refine Perm.trans (Perm.of_eq ?_) (Perm.flatMap_right
    (fun l => (R.filter (jk lk rk l)).map (l ++ ·)) hg)
  rw [List.flatMap_assoc]
  apply flatMap_congr'
  intro k _
  unfold crossLR
  apply flatMap_congr'
  intro l hl
  have hkl : keyOf lk l = k := eq_of_beq (List.mem_filter.mp hl).2
  congr 1
  unfold rjk
  apply List.filter_congr
  intro r _
  unfold jk
  rw [hkl, beq_comm' k]

theorem rjk_of_key (lk rk : List (Row → Val)) (R : List Row) (l : Row) :
    rjk rk R (keyOf lk l) = R.filter (jk lk rk l) := by
  unfold rjk
  apply List.filter_congr
  intro r _
  unfold jk
  rw [beq_comm' (keyOf rk r)]

/-- merge join over sorted inputs, all four types, NO other hypothesis: the canonical bag. -/
theorem mergejoin_sorted_perm (t : JoinType) (lk rk : List (Row → Val)) (hlk : lk ≠ []) (hrk : rk ≠ []) (nL nR : Nat)
    (Ls Rs : List Chunk)
    (hsl : SortedBy rowCmp ((flat Ls).map (keyOf lk))) (hsr : SortedBy rowCmp ((flat Rs).map (keyOf rk))) :
    (flat (mergeJoin t lk rk nL nR Ls Rs)).Perm
      (joinBag (t == .leftOuter || t == .fullOuter) (t == .rightOuter || t == .fullOuter) lk rk nL nR (flat Ls) (flat Rs)) := by
  unfold mergeJoin
  generalize hpl : (t == .leftOuter || t == .fullOuter) = pl
  generalize hpr : (t == .rightOuter || t == .fullOuter) = pr
  simp only []
  rw [flat_emit, mergejoin_groups_sorted lk hlk _ hsl, mergejoin_groups_sorted rk hrk _ hsr]
  refine (mergeLoop_perm pl pr nL nR _ _ _ (strictInc_groups _ _ _ hsl) (strictInc_groups _ _ _ hsr) (Nat.le_succ _)).trans ?_
  rw [List.flatMap_map]
  unfold joinBag
  -- left part
  have hleft : ((dedup ((flat Ls).map (keyOf lk))).flatMap
        ((mergeF pl nR ((dedup ((flat Rs).map (keyOf rk))).map (fun k => (k, (flat Rs).filter (fun x => keyOf rk x == k))))) ∘
          fun k => (k, (flat Ls).filter (fun x => keyOf lk x == k)))).Perm
      ((flat Ls).flatMap (fun l => ((flat Rs).filter (jk lk rk l)).map (l ++ ·)) ++
       (if pl then ((flat Ls).filter (fun l => ((flat Rs).filter (jk lk rk l)).isEmpty)).map (· ++ nulls nR) else [])) := by
    have hsplit : (dedup ((flat Ls).map (keyOf lk))).flatMap
          ((mergeF pl nR ((dedup ((flat Rs).map (keyOf rk))).map (fun k => (k, (flat Rs).filter (fun x => keyOf rk x == k))))) ∘
            fun k => (k, (flat Ls).filter (fun x => keyOf lk x == k))) =
        (dedup ((flat Ls).map (keyOf lk))).flatMap (fun k =>
          crossLR ((flat Ls).filter (fun l => keyOf lk l == k)) (rjk rk (flat Rs) k) ++
          (if (pl && (rjk rk (flat Rs) k).isEmpty)
            then ((flat Ls).filter (fun l => keyOf lk l == k)).map (· ++ nulls nR) else [])) := by
      apply flatMap_congr'
      intro k _
      simp only [Function.comp]
      exact mergeF_groups pl nR lk rk (flat Ls) (flat Rs) k
    refine (Perm.of_eq hsplit).trans ?_
    refine (flatMap_append_perm _ _ _).trans ?_
    refine Perm.append (regroup_inner lk rk (flat Ls) (flat Rs)) ?_
    cases pl
    · simp
    · simp only [Bool.true_and, if_true]
      have e2 := flatMap_ite_filter (fun k => (rjk rk (flat Rs) k).isEmpty)
        (fun k => ((flat Ls).filter (fun l => keyOf lk l == k)).map (· ++ nulls nR)) (dedup ((flat Ls).map (keyOf lk)))
      refine (Perm.of_eq e2).trans ?_
      rw [← List.map_flatMap]
      refine (Perm.map _ (group_perm_filter (keyOf lk) (fun k => (rjk rk (flat Rs) k).isEmpty) (flat Ls))).trans (Perm.of_eq ?_)
      congr 1
      apply List.filter_congr
      intro l _
      rw [rjk_of_key]
  -- right part
  have hright : (mergeR pr nL ((dedup ((flat Ls).map (keyOf lk))).map (fun k => (k, (flat Ls).filter (fun x => keyOf lk x == k))))
        ((dedup ((flat Rs).map (keyOf rk))).map (fun k => (k, (flat Rs).filter (fun x => keyOf rk x == k))))).Perm
      (if pr then ((flat Rs).filter (fun r => ((flat Ls).filter (fun l => jk lk rk l r)).isEmpty)).map (nulls nL ++ ·) else []) := by
    unfold mergeR
    cases pr
    · simp
    · simp only [if_true]
      rw [List.filter_map, List.flatMap_map]
      have hq : ∀ k : List Val, (hasNullKey k || !(((dedup ((flat Ls).map (keyOf lk))).map (fun k => (k, (flat Ls).filter (fun x => keyOf lk x == k)))).any
            (fun g => g.1 == k))) = ((flat Ls).filter (fun l => !hasNullKey (keyOf lk l) && keyOf lk l == k)).isEmpty := by
        intro k
        have hany : (((dedup ((flat Ls).map (keyOf lk))).map (fun k => (k, (flat Ls).filter (fun x => keyOf lk x == k)))).any
            (fun g => g.1 == k)) = (flat Ls).any (fun l => keyOf lk l == k) := by
          rw [List.any_map]
          rw [Bool.eq_iff_iff, List.any_eq_true, List.any_eq_true]
          constructor
          · rintro ⟨d, hd, hdk⟩
            have hm := (mem_dedup _ d).mp hd
            obtain ⟨l, hl, rfl⟩ := List.mem_map.mp hm
            exact ⟨l, hl, hdk⟩
          · rintro ⟨l, hl, hlk'⟩
            exact ⟨keyOf lk l, (mem_dedup _ _).mpr (List.mem_map_of_mem hl), hlk'⟩
        rw [hany, filter_isEmpty_eq_not_any]
        cases hn : hasNullKey k
        · simp only [Bool.false_or]
          congr 1
          apply any_congr'
          intro l _
          cases h : keyOf lk l == k
          · simp
          · rw [hasNull_of_beq h, hn]; rfl
        · simp only [Bool.true_or]
          symm
          rw [Bool.not_eq_true', List.any_eq_false]
          intro l _
          cases h : keyOf lk l == k
          · simp
          · rw [hasNull_of_beq h, hn]; simp
      have e3 : ((dedup ((flat Rs).map (keyOf rk))).filter
            ((fun h : KGroup => hasNullKey h.1 || !(((dedup ((flat Ls).map (keyOf lk))).map (fun k => (k, (flat Ls).filter (fun x => keyOf lk x == k)))).any
              (fun g => g.1 == h.1))) ∘ fun k => (k, (flat Rs).filter (fun x => keyOf rk x == k)))).flatMap
            ((fun h : KGroup => h.2.map (nulls nL ++ ·)) ∘ fun k => (k, (flat Rs).filter (fun x => keyOf rk x == k))) =
          (((dedup ((flat Rs).map (keyOf rk))).filter (fun k => ((flat Ls).filter (fun l => !hasNullKey (keyOf lk l) && keyOf lk l == k)).isEmpty)).flatMap
            (fun k => (flat Rs).filter (fun x => keyOf rk x == k))).map (nulls nL ++ ·) := by
        rw [List.map_flatMap]
        congr 1
        apply List.filter_congr
        intro k _
        simp only [Function.comp]
        exact hq k
      refine (Perm.of_eq e3).trans ?_
      exact Perm.map _ (group_perm_filter (keyOf rk) (fun k => ((flat Ls).filter (fun l => !hasNullKey (keyOf lk l) && keyOf lk l == k)).isEmpty) (flat Rs))
  rw [List.append_assoc]
  exact (Perm.append hleft hright).trans (Perm.of_eq (by rw [List.append_assoc]))

/-- `merge_eq_hash`, all four join types: on inputs sorted by their (non-empty) key lists the merge
join and the hash join return the same bag — for every data (NULL keys are unmatched in both,
mixed-width keys are unequal in both). -/
theorem merge_eq_hash (t : JoinType) (lk rk : List (Row → Val)) (hlk : lk ≠ []) (hrk : rk ≠ []) (nL nR : Nat)
    (Ls Rs : List Chunk)
    (hsl : SortedBy rowCmp ((flat Ls).map (keyOf lk))) (hsr : SortedBy rowCmp ((flat Rs).map (keyOf rk))) :
    (flat (mergeJoin t lk rk nL nR Ls Rs)).Perm (flat (hashJoin t lk rk nL nR Ls Rs)) :=
  (mergejoin_sorted_perm t lk rk hlk hrk nL nR Ls Rs hsl hsr).trans (hashjoin_perm t lk rk nL nR Ls Rs).symm

/-- hence merge join = spec under KeysComparable as well. -/
theorem merge_eq_spec (t : JoinType) (ht : t = .inner ∨ t = .leftOuter ∨ t = .rightOuter ∨ t = .fullOuter)
    (lk rk : List (Row → Val)) (hlk : lk ≠ []) (hrk : rk ≠ []) (nL nR : Nat) (Ls Rs : List Chunk)
    (hsl : SortedBy rowCmp ((flat Ls).map (keyOf lk))) (hsr : SortedBy rowCmp ((flat Rs).map (keyOf rk)))
    (hlen : ∀ l ∈ flat Ls, l.length = nL) (hk : KeysComparable lk rk (flat Ls) (flat Rs)) :
    (flat (mergeJoin t lk rk nL nR Ls Rs)).Perm
      (joinRel t (equiOn nL lk rk (fun _ => some true)) nL nR (flat Ls) (flat Rs)) :=
  (mergejoin_sorted_perm t lk rk hlk hrk nL nR Ls Rs hsl hsr).trans (joinBag_eq_spec t ht lk rk nL nR _ _ hlen hk)

/-! ## hash semi / anti join with residual condition -/

theorem equiOn_split_resid (nL : Nat) (lk rk : List (Row → Val)) (cond : Pred) (l r : Row) (hl : l.length = nL) :
    holds (equiOn nL lk rk cond (l ++ r)) = (holds (keysEq3 (keyOf lk l) (keyOf rk r)) && holds (cond (l ++ r))) := by
  unfold equiOn keyOf
  rw [holds_and3]
  have h1 : (l ++ r).take nL = l := by rw [← hl]; simp
  have h2 : (l ++ r).drop nL = r := by rw [← hl]; simp
  rw [h1, h2]

theorem any_filter' {α} (p q : α → Bool) (R : List α) : (R.filter p).any q = R.any (fun r => p r && q r) := by
  induction R with
  | nil => rfl
  | cons a as ih =>
    simp only [List.filter_cons, List.any_cons]
    cases p a <;> simp [ih]

/-- hash semi / anti join WITH a residual condition (`HashSemiJoinExecutor2`: right rows grouped by
key, residual evaluated on `left row × group`) = nested-loop semi / anti join on `keys AND residual`,
under KeysComparable. -/
theorem hash_semi2_eq_nl (anti : Bool) (lk rk : List (Row → Val)) (cond : Pred) (nL : Nat) (Ls Rs : List Chunk)
    (hlen : ∀ l ∈ flat Ls, l.length = nL) (hk : KeysComparable lk rk (flat Ls) (flat Rs)) :
    flat (hashSemiJoin2 anti lk rk cond Ls Rs) = flat (nlSemiJoin anti (equiOn nL lk rk cond) Ls Rs) := by
  unfold hashSemiJoin2 nlSemiJoin
  rw [flat_map_filter, flat_emit]
  apply List.filter_congr
  intro l hl
  congr 1
  rw [any_flat]
  have hR : (flat Rs).any (fun r => holds (equiOn nL lk rk cond (l ++ r))) =
      (flat Rs).any (fun r => jkEq (keyOf lk l) (keyOf rk r) && holds (cond (l ++ r))) := by
    apply any_congr'
    intro r hr
    rw [equiOn_split_resid nL lk rk cond l r (hlen l hl), ← hk l hl r hr]
  unfold flat at hR ⊢
  rw [hR]
  cases hn : hasNullKey (keyOf lk l)
  · simp only [Bool.false_eq_true, if_false]
    rw [any_filter', any_filter']
    apply any_congr'
    intro r _
    unfold jkEq
    rw [hn, beq_comm' (keyOf rk r)]
    simp [Bool.and_assoc]
  · simp only [if_true, List.any_nil]
    symm
    rw [List.any_eq_false]
    intro r _
    simp [jkEq, hn]

example : flat (hashSemiJoin2 false [col0] [col0] (fun row => sqlGt (row.getD 1 .null) (.i32 0)) [[[.i32 1], [.i32 2]]] [[[.i32 1]], [[.i32 2]]]) =
    [[.i32 1], [.i32 2]] := by decide


/-! ## chunk path = row path for COUNT / MIN / MAX -/

theorem cmp_gt_trans {a b c : Val} (h1 : Val.cmp b a = .gt) (h2 : Val.cmp c b = .gt) : Val.cmp c a = .gt := by
  have s1 : Val.cmp a b = .lt := by have := Val.cmp_swap b a; rw [h1] at this; simpa using this
  have s2 : Val.cmp b c = .lt := by have := Val.cmp_swap c b; rw [h2] at this; simpa using this
  have := Val.cmp_trans s1 s2
  have sw := Val.cmp_swap a c; rw [this] at sw; simpa using sw

theorem cmp_gt_of_gt_of_ge {a b c : Val} (h1 : Val.cmp c a = .gt) (h2 : Val.cmp b a ≠ .gt) : Val.cmp c b = .gt := by
  -- a < c, b ≤ a  ⇒ b < c
  have s1 : Val.cmp a c = .lt := by have := Val.cmp_swap c a; rw [h1] at this; simpa using this
  have := Val.cmp_lawful.lt_of_le_of_lt h2 s1
  have sw := Val.cmp_swap b c; rw [this] at sw; simpa using sw

theorem cmp_not_gt_trans {a b c : Val} (h1 : Val.cmp b a ≠ .gt) (h2 : Val.cmp c b ≠ .gt) : Val.cmp c a ≠ .gt :=
  Val.cmp_le_trans h2 h1

theorem maxVal_assoc (a b c : Val) : maxVal a (maxVal b c) = maxVal (maxVal a b) c := by
  by_cases ha : a.isNull
  · simp [maxVal, ha]
  by_cases hb : b.isNull
  · simp [maxVal, ha, hb]
  by_cases hc : c.isNull
  · unfold maxVal; simp only [ha, hb, hc, Bool.false_eq_true, if_false, if_true]
    split <;> simp [*]
  unfold maxVal
  simp only [ha, hb, hc, Bool.false_eq_true, if_false]
  by_cases h1 : Val.cmp b a = .gt <;> by_cases h2 : Val.cmp c b = .gt
  · have h3 := cmp_gt_trans h1 h2
    simp [h1, h2, h3, hb, hc]
  · simp [h1, h2, hb, hc]
  · simp [h1, h2, hb, hc, ha]
  · have h3 : Val.cmp c a ≠ .gt := cmp_not_gt_trans h1 h2
    simp [h1, h2, h3, hb, ha]

theorem cmp_lt_trans' {a b c : Val} (h1 : Val.cmp b a = .lt) (h2 : Val.cmp c b = .lt) : Val.cmp c a = .lt :=
  Val.cmp_trans h2 h1

theorem minVal_assoc (a b c : Val) : minVal a (minVal b c) = minVal (minVal a b) c := by
  by_cases ha : a.isNull
  · simp [minVal, ha]
  by_cases hb : b.isNull
  · simp [minVal, ha, hb]
  by_cases hc : c.isNull
  · unfold minVal; simp only [ha, hb, hc, Bool.false_eq_true, if_false, if_true]
    split <;> simp [*]
  unfold minVal
  simp only [ha, hb, hc, Bool.false_eq_true, if_false]
  by_cases h1 : Val.cmp b a = .lt <;> by_cases h2 : Val.cmp c b = .lt
  · have h3 := cmp_lt_trans' h1 h2
    simp [h1, h2, h3, hb, hc]
  · simp [h1, h2, hb, hc]
  · simp [h1, h2, hb, hc, ha]
  · have h3 : Val.cmp c a ≠ .lt := by
      -- a ≤ b ≤ c
      intro h
      have hab : Val.cmp a b ≠ .gt := by
        intro hh; have := Val.cmp_swap a b; rw [hh] at this; exact h1 (by simpa using this)
      have hbc : Val.cmp b c ≠ .gt := by
        intro hh; have := Val.cmp_swap b c; rw [hh] at this; exact h2 (by simpa using this)
      have hac := Val.cmp_le_trans hab hbc
      have := Val.cmp_swap c a; rw [h] at this; exact hac (by simpa using this)
    simp [h1, h2, h3, hb, ha]

theorem maxVal_fold (a b : Val) (xs : List Val) : maxVal a (xs.foldl maxVal b) = xs.foldl maxVal (maxVal a b) := by
  induction xs generalizing b with
  | nil => rfl
  | cons x xs ih => simp only [List.foldl_cons]; rw [ih, maxVal_assoc]

theorem minVal_fold (a b : Val) (xs : List Val) : minVal a (xs.foldl minVal b) = xs.foldl minVal (minVal a b) := by
  induction xs generalizing b with
  | nil => rfl
  | cons x xs ih => simp only [List.foldl_cons]; rw [ih, minVal_assoc]

theorem chunkpath_max_state (ty : Ty) (cols : List (List Val × List Int)) (s : Val) :
    cols.foldl (fun st c => evalAgg .max ty st c.1 c.2) (.value s) = .value ((cols.flatMap (·.1)).foldl maxVal s) := by
  induction cols generalizing s with
  | nil => rfl
  | cons c cs ih =>
    simp only [List.foldl_cons, List.flatMap_cons, List.foldl_append]
    have : evalAgg .max ty (.value s) c.1 c.2 = .value (c.1.foldl maxVal s) := by
      simp only [evalAgg, arrMax]
      rw [maxVal_fold, maxVal_null_right, ← foldl_max_nonNull]
    rw [this, ih]

theorem chunkpath_min_state (ty : Ty) (cols : List (List Val × List Int)) (s : Val) :
    cols.foldl (fun st c => evalAgg .min ty st c.1 c.2) (.value s) = .value ((cols.flatMap (·.1)).foldl minVal s) := by
  induction cols generalizing s with
  | nil => rfl
  | cons c cs ih =>
    simp only [List.foldl_cons, List.flatMap_cons, List.foldl_append]
    have : evalAgg .min ty (.value s) c.1 c.2 = .value (c.1.foldl minVal s) := by
      simp only [evalAgg, arrMin]
      rw [minVal_fold, minVal_null_right, ← foldl_min_nonNull]
    rw [this, ih]

theorem chunkpath_count_state (ty : Ty) (cols : List (List Val × List Int)) (n : Nat) :
    cols.foldl (fun st c => evalAgg .count ty st c.1 c.2) (.value (.i32 n)) =
      .value (.i32 ((n + (nonNull (cols.flatMap (·.1))).length : Nat))) := by
  induction cols generalizing n with
  | nil => simp [nonNull]
  | cons c cs ih =>
    have step : evalAgg .count ty (.value (.i32 n)) c.1 c.2 = .value (.i32 ((n + (nonNull c.1).length : Nat))) := by
      simp only [evalAgg, addExt, Val.isNull, plusVal, Bool.false_eq_true, if_false, Option.getD_some, arrCount]
      congr 2
    rw [List.foldl_cons, step, ih]
    simp only [List.flatMap_cons, nonNull, List.filter_append, List.length_append]
    congr 2; omega

/-- CHUNK path = spec for COUNT, COUNT(*), MIN, MAX, for every stream of chunks. -/
theorem chunkpath_eq_spec (k : AggKind) (hk : k = .count ∨ k = .rowCount ∨ k = .min ∨ k = .max) (ty : Ty)
    (cols : List (List Val × List Int)) : chunkPathVal k ty cols = aggVal k (cols.flatMap (·.1)) := by
  rcases hk with h | h | h | h <;> subst h
  · unfold chunkPathVal initAgg
    have := chunkpath_count_state ty cols 0
    simp only [Nat.zero_add] at this
    have e : (Val.i32 0) = Val.i32 ((0 : Nat) : Int) := rfl
    rw [e, this]; rfl
  · have h1 := chunkpath_rowcount cols
    -- `chunkpath_rowcount` is stated for `.i32`; the type argument is irrelevant for COUNT(*)
    have : chunkPathVal .rowCount ty cols = chunkPathVal .rowCount .i32 cols := by
      unfold chunkPathVal; congr 1
    rw [this, h1]; rfl
  · unfold chunkPathVal initAgg
    rw [chunkpath_min_state]
    show _ = aggMin _
    unfold aggMin
    rw [← foldl_min_nonNull]; rfl
  · unfold chunkPathVal initAgg
    rw [chunkpath_max_state]
    show _ = aggMax _
    unfold aggMax
    rw [← foldl_max_nonNull]; rfl

/-- `simpleagg_eq_hashagg_nokeys`: on a non-empty input, aggregation without keys by the simple
executor (chunk path) and by the hash executor (row path) agree — for COUNT, COUNT(*), MIN, MAX
(SUM, COUNT DISTINCT-free; for SUM / first / last see the `_unsound` witnesses). -/
theorem simpleagg_eq_hashagg_nokeys (aggs : List XAgg) (Xs : List Chunk) (hne : flat Xs ≠ [])
    (hk : ∀ a ∈ aggs, a.kind = .count ∨ a.kind = .rowCount ∨ a.kind = .min ∨ a.kind = .max) :
    flat (simpleAgg aggs Xs) = flat (hashAgg [] aggs Xs) := by
  rw [simpleagg_is_chunkpath, hashagg_groupwise]
  have hd : dedup ((flat Xs).map (keyOf [])) = [[]] := by
    apply dedup_all_eq
    · intro x hx
      obtain ⟨y, _, rfl⟩ := List.mem_map.mp hx
      rfl
    · intro h; exact hne (List.map_eq_nil_iff.mp h)
  rw [hd]
  simp only [List.map_cons, List.map_nil, List.nil_append]
  congr 1
  apply List.map_congr_left
  intro a ha
  rw [chunkpath_eq_spec a.kind (hk a ha), rowpath_eq_spec a.kind (hk a ha)]
  congr 1
  have hg : groupRows [] [] (flat Xs) = flat Xs := by
    unfold groupRows
    rw [List.filter_eq_self]
    intro x _; rfl
  rw [hg, List.flatMap_map]
  simp only [Function.comp]
  unfold flat
  rw [List.map_flatten]
  rfl


/-! ## nested-loop RIGHT / FULL OUTER join (executor since /repo 7d07810) -/

theorem emit_nil : emit [] = [] := by simp [emit, builderRun]

/-- the inner / left-outer executor model is the general one without right padding. -/
theorem nlJoinG_eq_nlJoin (outer : Bool) (on : Pred) (nL nR : Nat) (Ls Rs : List Chunk) :
    flat (nlJoinG outer false on nL nR Ls Rs) = flat (nlJoin outer on nR Ls Rs) := by
  unfold nlJoinG nlJoin
  cases outer
  · simp [flat_append, flat_emit]
  · simp [flat_append, flat_emit]

/-- the right-outer bitmap pass finds exactly the right rows without a partner. -/
theorem nlMatchedR_spec (on : Pred) (L R : List Row) (j : Nat) (r : Row) (hr : R[j]? = some r) :
    nlMatchedR ((crossRL L R).map on) L.length j = matchedBy on L r := by
  unfold nlMatchedR matchedBy crossRL
  have key : ∀ i, i < L.length →
      ((R.flatMap (fun r => L.map (fun l => l ++ r))).map on).getD (j * L.length + i) none =
        ((L[i]?).map (fun l => on (l ++ r))).getD none := by
    intro i hi
    have e : j * L.length + i = i + L.length * j := by rw [Nat.mul_comm]; omega
    rw [e, List.getD_eq_getElem?_getD, List.getElem?_map, cross_getElem? (fun l r => l ++ r) L R i j hi, hr]
    cases L[i]? <;> rfl
  have h1 : (List.range L.length).any (fun i => holds (((R.flatMap (fun r => L.map (fun l => l ++ r))).map on).getD (j * L.length + i) none)) =
      (List.range L.length).any (fun i => (fun o : Option Row => holds ((o.map (fun l => on (l ++ r))).getD none)) L[i]?) := by
    apply any_congr'
    intro i hi
    rw [key i (List.mem_range.mp hi)]
  rw [h1, any_range_getElem? L (fun o => holds ((o.map (fun l => on (l ++ r))).getD none)) rfl]
  rfl

theorem nlUnmatchedR_spec (on : Pred) (nL : Nat) (L R : List Row) :
    nlUnmatchedR ((crossRL L R).map on) nL L.length R = rightUnmatched on nL L R := by
  unfold nlUnmatchedR rightUnmatched
  have h1 : ((List.range R.length).zip R).filterMap (fun (p : Nat × Row) =>
        if nlMatchedR ((crossRL L R).map on) L.length p.1 then none else some (nulls nL ++ p.2)) =
      ((List.range R.length).zip R).filterMap (fun p =>
        (fun r => if !matchedBy on L r then some (nulls nL ++ r) else none) p.2) := by
    apply filterMap_congr_mem
    rintro ⟨j, r⟩ hm
    simp only
    rw [nlMatchedR_spec on L R j r (mem_zip_range R j r hm)]
    cases matchedBy on L r <;> rfl
  rw [h1]
  have h2 : ∀ (g : Row → Option Row), ((List.range R.length).zip R).filterMap (fun p => g p.2) = R.filterMap g := by
    intro g
    have : (fun p : Nat × Row => g p.2) = g ∘ Prod.snd := rfl
    rw [this, ← List.filterMap_map]
    congr 1
    rw [List.map_snd_zip]; simp
  refine (h2 (fun r => if !matchedBy on L r then some (nulls nL ++ r) else none)).trans ?_
  clear h1 h2
  induction R with
  | nil => rfl
  | cons a as ih =>
    simp only [List.filterMap_cons, List.filter_cons]
    cases matchedBy on L a
    · simp only [Bool.not_false, if_true, List.map_cons]; rw [ih]
    · simp only [Bool.not_true, Bool.false_eq_true, if_false]; exact ih

theorem nlJoinG_flat (pl pr : Bool) (on : Pred) (nL nR : Nat) (Ls Rs : List Chunk) :
    flat (nlJoinG pl pr on nL nR Ls Rs) =
      (crossRL (flat Ls) (flat Rs)).filter (fun row => holds (on row)) ++
        ((if pl then leftUnmatched on nR (flat Ls) (flat Rs) else []) ++
         (if pr then rightUnmatched on nL (flat Ls) (flat Rs) else [])) := by
  unfold nlJoinG
  rw [flat_append, flat_map_filter, flat_emit, flat_emit, nlUnmatched_spec, nlUnmatchedR_spec]

/-- RIGHT OUTER nested-loop join (since /repo 7d07810) = the spec's right outer join. -/
theorem nl_eq_spec_right_outer (on : Pred) (nL nR : Nat) (Ls Rs : List Chunk) :
    (flat (nlJoinG false true on nL nR Ls Rs)).Perm (joinRel .rightOuter on nL nR (flat Ls) (flat Rs)) := by
  rw [nlJoinG_flat]
  simp only [Bool.false_eq_true, if_false, if_true, List.nil_append, joinRel, rightJoin]
  refine Perm.append_right _ ?_
  unfold innerJoin matchesOf
  exact cross_swap_perm (fun l r => l ++ r) (fun row => holds (on row)) (flat Ls) (flat Rs)

/-- FULL OUTER nested-loop join = the spec's full outer join. -/
theorem nl_eq_spec_full_outer (on : Pred) (nL nR : Nat) (Ls Rs : List Chunk) :
    (flat (nlJoinG true true on nL nR Ls Rs)).Perm (joinRel .fullOuter on nL nR (flat Ls) (flat Rs)) := by
  rw [nlJoinG_flat]
  simp only [if_true, joinRel, fullJoin]
  rw [← List.append_assoc]
  refine Perm.append_right _ ?_
  refine Perm.trans ?_ (leftJoin_perm_decomp on nR (flat Ls) (flat Rs)).symm
  refine Perm.append_right _ ?_
  unfold innerJoin matchesOf
  exact cross_swap_perm (fun l r => l ++ r) (fun row => holds (on row)) (flat Ls) (flat Rs)

/-- the general executor model refines the spec for all four join types (one statement). -/
theorem nl_eq_spec (t : JoinType) (ht : t = .inner ∨ t = .leftOuter ∨ t = .rightOuter ∨ t = .fullOuter)
    (on : Pred) (nL nR : Nat) (Ls Rs : List Chunk) :
    (flat (nlJoinG (t == .leftOuter || t == .fullOuter) (t == .rightOuter || t == .fullOuter) on nL nR Ls Rs)).Perm
      (joinRel t on nL nR (flat Ls) (flat Rs)) := by
  rcases ht with h | h | h | h <;> subst h
  · show (flat (nlJoinG false false on nL nR Ls Rs)).Perm _
    rw [nlJoinG_eq_nlJoin]; exact nl_eq_spec_inner on nL nR Ls Rs
  · show (flat (nlJoinG true false on nL nR Ls Rs)).Perm _
    rw [nlJoinG_eq_nlJoin]; exact nl_eq_spec_left_outer on nL nR Ls Rs
  · exact nl_eq_spec_right_outer on nL nR Ls Rs
  · exact nl_eq_spec_full_outer on nL nR Ls Rs

/-- hash join = nested-loop join for RIGHT and FULL OUTER too, under KeysComparable. -/
theorem hash_eq_nl_right_outer (lk rk : List (Row → Val)) (nL nR : Nat) (Ls Rs : List Chunk)
    (hlen : ∀ l ∈ flat Ls, l.length = nL) (hk : KeysComparable lk rk (flat Ls) (flat Rs)) :
    (flat (hashJoin .rightOuter lk rk nL nR Ls Rs)).Perm
      (flat (nlJoinG false true (equiOn nL lk rk (fun _ => some true)) nL nR Ls Rs)) :=
  (hash_eq_spec_right_outer lk rk nL nR Ls Rs hlen hk).trans (nl_eq_spec_right_outer _ nL nR Ls Rs).symm

theorem hash_eq_nl_full_outer (lk rk : List (Row → Val)) (nL nR : Nat) (Ls Rs : List Chunk)
    (hlen : ∀ l ∈ flat Ls, l.length = nL) (hk : KeysComparable lk rk (flat Ls) (flat Rs)) :
    (flat (hashJoin .fullOuter lk rk nL nR Ls Rs)).Perm
      (flat (nlJoinG true true (equiOn nL lk rk (fun _ => some true)) nL nR Ls Rs)) :=
  (hash_eq_spec_full_outer lk rk nL nR Ls Rs hlen hk).trans (nl_eq_spec_full_outer _ nL nR Ls Rs).symm

theorem chunking_irrelevant_nljoinG (pl pr : Bool) (on : Pred) (nL nR k k' : Nat) (Ls Rs : List Chunk) :
    nlJoinG pl pr on nL nR (rechunk k Ls) (rechunk k' Rs) = nlJoinG pl pr on nL nR Ls Rs := by
  unfold nlJoinG; simp only [flat_rechunk]

example : (flat (nlJoinG true true (fun r => sqlEq (r.getD 0 .null) (r.getD 1 .null)) 1 1
    [[[.i32 1], [.null]], [[.i32 2]]] [[[.i32 1]], [[.null], [.i32 3]]])).Perm
    [[.i32 1, .i32 1], [.null, .null], [.i32 2, .null], [.null, .null], [.null, .i32 3]] := by decide

/-! ## join keys compare by value: the executors themselves (`join_key`)

The executors build their key vectors through `join_key` (integer of any width → Int64): `hashJoinW`
= `hashJoin` on `wk lk`, `wk rk`, and so on.  `widen_keys_comparable` discharges `KeysComparable` for
EVERY data (of the model's value universe: no DECIMAL / DOUBLE keys), and the join condition does not
see the widening (`equiOn_wk`): hash and merge joins equal the nested-loop join and the spec on the
ORIGINAL keys without any hypothesis about the keys. -/

theorem c11_widen_keys_comparable (lk rk : List (Row → Val)) (L R : List Row) :
    KeysComparable (wk lk) (wk rk) L R := widen_keys_comparable lk rk L R

/-- hash join (inner, left / right / full outer) = the spec's join on `lk = rk`, for all data. -/
theorem hashW_eq_spec (t : JoinType) (ht : t = .inner ∨ t = .leftOuter ∨ t = .rightOuter ∨ t = .fullOuter)
    (lk rk : List (Row → Val)) (nL nR : Nat) (Ls Rs : List Chunk) (hlen : ∀ l ∈ flat Ls, l.length = nL) :
    (flat (hashJoinW t lk rk nL nR Ls Rs)).Perm
      (joinRel t (equiOn nL lk rk (fun _ => some true)) nL nR (flat Ls) (flat Rs)) := by
  have h := hash_eq_spec_partial t ht (wk lk) (wk rk) nL nR Ls Rs hlen (widen_keys_comparable lk rk _ _)
  rw [equiOn_wk] at h
  exact h

/-- hash join = nested-loop join, all four types, for all data. -/
theorem hashW_eq_nl (t : JoinType) (ht : t = .inner ∨ t = .leftOuter ∨ t = .rightOuter ∨ t = .fullOuter)
    (lk rk : List (Row → Val)) (nL nR : Nat) (Ls Rs : List Chunk) (hlen : ∀ l ∈ flat Ls, l.length = nL) :
    (flat (hashJoinW t lk rk nL nR Ls Rs)).Perm
      (flat (nlJoinG (t == .leftOuter || t == .fullOuter) (t == .rightOuter || t == .fullOuter)
        (equiOn nL lk rk (fun _ => some true)) nL nR Ls Rs)) :=
  (hashW_eq_spec t ht lk rk nL nR Ls Rs hlen).trans (nl_eq_spec t ht _ nL nR Ls Rs).symm

/-- hash semi / anti join = nested-loop semi / anti join, for all data. -/
theorem hashW_semi_eq_nl (anti : Bool) (lk rk : List (Row → Val)) (nL : Nat) (Ls Rs : List Chunk)
    (hlen : ∀ l ∈ flat Ls, l.length = nL) :
    flat (hashSemiJoinW anti lk rk Ls Rs) =
      flat (nlSemiJoin anti (equiOn nL lk rk (fun _ => some true)) Ls Rs) := by
  have hk := widen_keys_comparable lk rk (flat Ls) (flat Rs)
  unfold hashSemiJoinW
  rw [← equiOn_wk]
  cases anti
  · exact hash_eq_nl_semi (wk lk) (wk rk) nL Ls Rs hlen hk
  · exact hash_eq_nl_anti (wk lk) (wk rk) nL Ls Rs hlen hk

/-- … with a residual condition too. -/
theorem hashW_semi2_eq_nl (anti : Bool) (lk rk : List (Row → Val)) (cond : Pred) (nL : Nat) (Ls Rs : List Chunk)
    (hlen : ∀ l ∈ flat Ls, l.length = nL) :
    flat (hashSemiJoin2W anti lk rk cond Ls Rs) = flat (nlSemiJoin anti (equiOn nL lk rk cond) Ls Rs) := by
  unfold hashSemiJoin2W
  rw [← equiOn_wk]
  exact hash_semi2_eq_nl anti (wk lk) (wk rk) cond nL Ls Rs hlen (widen_keys_comparable lk rk _ _)

/-- merge join = hash join on inputs sorted by their (widened) keys, for all data. -/
theorem mergeW_eq_hashW (t : JoinType) (lk rk : List (Row → Val)) (hlk : lk ≠ []) (hrk : rk ≠ []) (nL nR : Nat)
    (Ls Rs : List Chunk)
    (hsl : SortedBy rowCmp ((flat Ls).map (keyOf (wk lk)))) (hsr : SortedBy rowCmp ((flat Rs).map (keyOf (wk rk)))) :
    (flat (mergeJoinW t lk rk nL nR Ls Rs)).Perm (flat (hashJoinW t lk rk nL nR Ls Rs)) :=
  merge_eq_hash t (wk lk) (wk rk) (by simpa [wk] using hlk) (by simpa [wk] using hrk) nL nR Ls Rs hsl hsr

/-- merge join = the spec's join on `lk = rk` on sorted inputs, for all data. -/
theorem mergeW_eq_spec (t : JoinType) (ht : t = .inner ∨ t = .leftOuter ∨ t = .rightOuter ∨ t = .fullOuter)
    (lk rk : List (Row → Val)) (hlk : lk ≠ []) (hrk : rk ≠ []) (nL nR : Nat) (Ls Rs : List Chunk)
    (hsl : SortedBy rowCmp ((flat Ls).map (keyOf (wk lk)))) (hsr : SortedBy rowCmp ((flat Rs).map (keyOf (wk rk))))
    (hlen : ∀ l ∈ flat Ls, l.length = nL) :
    (flat (mergeJoinW t lk rk nL nR Ls Rs)).Perm
      (joinRel t (equiOn nL lk rk (fun _ => some true)) nL nR (flat Ls) (flat Rs)) :=
  (mergeW_eq_hashW t lk rk hlk hrk nL nR Ls Rs hsl hsr).trans (hashW_eq_spec t ht lk rk nL nR Ls Rs hlen)

/-- the same with the sortedness stated on the RAW key columns, as the scan / `order` below the merge
join delivers them: enough if every key column has one integer width (`sorted_widen`). -/
theorem mergeW_eq_spec_raw_sorted (t : JoinType) (ht : t = .inner ∨ t = .leftOuter ∨ t = .rightOuter ∨ t = .fullOuter)
    (lk rk : List (Row → Val)) (hlk : lk ≠ []) (hrk : rk ≠ []) (nL nR : Nat) (Ls Rs : List Chunk)
    (hwl : ∀ x ∈ flat Ls, ∀ y ∈ flat Ls, RowSameWidth (keyOf lk x) (keyOf lk y))
    (hwr : ∀ x ∈ flat Rs, ∀ y ∈ flat Rs, RowSameWidth (keyOf rk x) (keyOf rk y))
    (hsl : SortedBy rowCmp ((flat Ls).map (keyOf lk))) (hsr : SortedBy rowCmp ((flat Rs).map (keyOf rk)))
    (hlen : ∀ l ∈ flat Ls, l.length = nL) :
    (flat (mergeJoinW t lk rk nL nR Ls Rs)).Perm
      (joinRel t (equiOn nL lk rk (fun _ => some true)) nL nR (flat Ls) (flat Rs)) :=
  mergeW_eq_spec t ht lk rk hlk hrk nL nR Ls Rs (sorted_widen lk _ hwl hsl) (sorted_widen rk _ hwr hsr) hlen

theorem chunking_irrelevant_hashjoinW (t : JoinType) (lk rk : List (Row → Val)) (nL nR k k' : Nat) (Ls Rs : List Chunk) :
    hashJoinW t lk rk nL nR (rechunk k Ls) (rechunk k' Rs) = hashJoinW t lk rk nL nR Ls Rs :=
  chunking_irrelevant_hashjoin t (wk lk) (wk rk) nL nR k k' Ls Rs

theorem chunking_irrelevant_mergejoinW (t : JoinType) (lk rk : List (Row → Val)) (nL nR k k' : Nat) (Ls Rs : List Chunk) :
    mergeJoinW t lk rk nL nR (rechunk k Ls) (rechunk k' Rs) = mergeJoinW t lk rk nL nR Ls Rs :=
  chunking_irrelevant_mergejoin t (wk lk) (wk rk) nL nR k k' Ls Rs

/-- Regression inputs: the witnesses of the former `*_unsound_int_width` theorems (INT 1 joined with
BIGINT 1; SMALLINT / INT / BIGINT keys with NULLs and duplicates in a full outer merge join). -/
theorem hashW_int_width_regression :
    flat (hashJoinW .inner [col0] [col0] 1 1 [[[.i32 1]]] [[[.i64 1]]]) =
      flat (nlJoin false (equiOn 1 [col0] [col0] (fun _ => some true)) 1 [[[.i32 1]]] [[[.i64 1]]]) ∧
    flat (hashJoinW .inner [col0] [col0] 1 1 [[[.i32 1]]] [[[.i64 1]]]) = [[.i32 1, .i64 1]] ∧
    flat (hashSemiJoinW true [col0] [col0] [[[.i16 2], [.i32 3]]] [[[.i64 2]]]) = [[.i32 3]] := by
  decide

theorem mergeW_int_width_regression :
    (flat (mergeJoinW .fullOuter [col0] [col0] 1 1 [[[.null], [.i32 1], [.i32 1]], [[.i32 4]]] [[[.i64 1], [.i64 3]]])).Perm
      [[.null, .null], [.i32 1, .i64 1], [.i32 1, .i64 1], [.null, .i64 3], [.i32 4, .null]] := by
  decide

end RlModel
