import RlModel.Lemmas.Exec
/-!
C11 — all physical implementations of an operator agree.

Statements are about the L2 algorithms of `Model.Exec` (transcribed from the executors) and
the L1 spec of `Model.Rel`; `flat` forgets chunk boundaries, `List.Perm` is bag equality.
Every theorem holds for all inputs (any number of chunks of any sizes, any rows).
-/
namespace RlModel
open List

/-! ## the chunk builder never loses, duplicates or reorders a row -/

theorem c11_builder_flat (cap : Nat) (rows cur : List Row) :
    flat (builderRun cap rows cur) = cur ++ rows := builder_flat cap rows cur

example : flat (builderRun 2 [[.i32 1], [.i32 2], [.i32 3]] []) = [[.i32 1], [.i32 2], [.i32 3]] := by decide

/-! ## nested-loop joins are the spec -/

/-- inner nested-loop join (cross product right-major, filtered window by window) returns the
bag of the spec's inner join, for every chunking of both inputs. -/
theorem nl_eq_spec_inner (on : Pred) (nL nR : Nat) (Ls Rs : List Chunk) :
    (flat (nlJoin false on nR Ls Rs)).Perm (joinRel .inner on nL nR (flat Ls) (flat Rs)) := by
  unfold nlJoin joinRel innerJoin matchesOf
  simp only [Bool.false_eq_true, if_false]
  rw [flat_map_filter, flat_emit]
  exact cross_swap_perm (fun l r => l ++ r) (fun row => holds (on row)) (flat Ls) (flat Rs)

example : (flat (nlJoin false (fun r => sqlEq (r.getD 0 .null) (r.getD 1 .null)) 1 [[[.i32 1], [.null]]] [[[.i32 1]], [[.null]]])).Perm
    [[.i32 1, .i32 1]] := by decide

theorem nl_eq_spec_semi (on : Pred) (nL nR : Nat) (Ls Rs : List Chunk) :
    flat (nlSemiJoin false on Ls Rs) = joinRel .semi on nL nR (flat Ls) (flat Rs) := by
  unfold nlSemiJoin joinRel semiJoin
  rw [flat_emit]
  apply List.filter_congr
  intro l _
  rw [matches_isEmpty, any_flat]
  simp [flat]

theorem nl_eq_spec_anti (on : Pred) (nL nR : Nat) (Ls Rs : List Chunk) :
    flat (nlSemiJoin true on Ls Rs) = joinRel .anti on nL nR (flat Ls) (flat Rs) := by
  unfold nlSemiJoin joinRel antiJoin
  rw [flat_emit]
  apply List.filter_congr
  intro l _
  rw [matches_isEmpty, any_flat]
  simp [flat]

example : flat (nlSemiJoin true (fun r => sqlEq (r.getD 0 .null) (r.getD 1 .null)) [[[.i32 1], [.null]]] [[[.i32 1]], [[.null]]]) =
    [[.null]] := by decide

/-! ## limit / top-N -/

/-- the chunk-by-chunk `LimitExecutor` returns exactly rows `off .. off+n` of the stream. -/
theorem limit_exec_eq_spec (n off : Nat) (Xs : List Chunk) :
    flat (limitExec n off Xs) = limitRel (some n) off (flat Xs) := by
  unfold limitExec limitRel
  by_cases hn : n = 0
  · subst hn; rw [limitLoop_zero]; simp [flat]
  · rw [limitLoop_spec n off hn Xs 0]; simp

/-- … hence the result does not depend on where the chunk boundaries of the input are. -/
theorem chunking_irrelevant_limit (n off k : Nat) (Xs : List Chunk) :
    flat (limitExec n off (rechunk k Xs)) = flat (limitExec n off Xs) := by
  rw [limit_exec_eq_spec, limit_exec_eq_spec]
  congr 1
  unfold rechunk
  split
  · simp [flat]
  · rw [builder_flat]; rfl

example : flat (limitExec 2 1 [[[.i32 1]], [[.i32 2], [.i32 3]], [[.i32 4]]]) = [[.i32 2], [.i32 3]] := by decide

/-- The bounded heap of `TopNExecutor` (push, pop the greatest when over `off + n`) yields exactly
`LIMIT n OFFSET off` of the stable sort: sort-then-limit equals top-N.  (The real heap and the
real `sort_unstable_by` may order ties differently: equality is then on the key projection,
which is what the correspondence run compares.) -/
theorem topn_eq_order_limit (n off : Nat) (ks : List OrderKey) (Xs : List Chunk) :
    flat (topNExec n off ks Xs) = flat (limitExec n off (orderExec ks Xs)) := by
  rw [limit_exec_eq_spec]
  unfold topNExec orderExec limitRel heapPush sortStable
  rw [flat_emit, flat_emit]
  have h := heap_fold_eq (orderCmp ks) (off + n) (flat Xs) []
  simp only [List.take_nil] at h
  rw [h]
  simp only [List.take_drop, List.take_take, Nat.min_self]

theorem topn_eq_spec (n off : Nat) (ks : List OrderKey) (Xs : List Chunk) :
    flat (topNExec n off ks Xs) = topNRel (some n) off ks (flat Xs) := by
  rw [topn_eq_order_limit, limit_exec_eq_spec]
  unfold topNRel orderExec orderRel
  rw [flat_emit]

example : flat (topNExec 2 1 [{ key := fun r => r.getD 0 .null, desc := true }] [[[.i32 1], [.i32 5]], [[.null], [.i32 3]]]) =
    [[.i32 3], [.i32 1]] := by decide

end RlModel
