/-
C08 — Readers see a stable snapshot and their files are never removed.

Theorems about the small-step model `RlModel.SC` (Model/StoreConc.lean): an invariant of every
kernel operation, lifted to every schedule (any number of actors, threads and steps) by
induction on the action list, and the property's guarantees as corollaries.

FULL STATEMENT (properties.jsonl C08): "A scan that has started returns exactly the rows that
were committed when it started, no matter which inserts, deletes, table drops, compactions or
vacuum passes complete while it is running, and it never fails because a file it needs was
removed.  Storage files are only removed once no running reader can reference them."
Proved in full for the model (no `_partial`): `reader_sees_start_snapshot`, `no_missing_file`,
`unlink_only_unpinned`.
-/
import RlModel.Lemmas.StoreConc

namespace RlModel
namespace SC

/-- One kernel operation (with the side conditions the model checks before applying it). -/
inductive KStep : K → K → Prop where
  | refl (k : K) : KStep k k
  | pin (k : K) (th : Tid) : KStep k (kPin k th)
  | unpin (k : K) (th : Tid) (e : Nat) (h : (th, e) ∈ k.pins) : KStep k (kUnpin k th e)
  | reserve (k : K) (th : Tid) (t : Nat) : KStep k (kReserve k th t)
  | commitA (k k' : K) (th : Tid) (ops : List Op) (h : kCommitA k th ops = some k') : KStep k k'
  | commitAPanic (k k' : K) (th : Tid) (ops : List Op) (h : kCommitAPanic k th ops = some k') :
      KStep k k'
  | commitB (k k' : K) (th : Tid) (h : kCommitB k th = some k') : KStep k k'
  | find (k : K) (th : Tid) : KStep k (kFind k th)
  | unlink (k : K) (th : Tid) (ed : Nat) (key : Key) (h : (th, ed, key) ∈ k.uq) :
      KStep k (kUnlink k th ed key)
  | abandon (k : K) (th : Tid) : KStep k (kAbandon k th)
  | allocDv (k : K) (n : Nat) : KStep k (kAllocDv k n)

theorem kinv_kstep : ∀ {k k' : K}, KInv k → KStep k k' → KInv k'
  | _, _, h, .refl _ => h
  | _, _, h, .pin _ th => kinv_pin h th
  | _, _, h, .unpin _ th e hm => kinv_unpin h th e hm
  | _, _, h, .reserve _ th t => kinv_reserve h th t
  | _, _, h, .commitA _ _ th ops hc => kinv_commitA h th ops hc
  | _, _, h, .commitAPanic _ _ th ops hc => kinv_commitAPanic h th ops hc
  | _, _, h, .commitB _ _ th hc => kinv_commitB h th hc
  | _, _, h, .find _ th => kinv_find h th
  | _, _, h, .unlink _ th ed key hm => kinv_unlink h th ed key hm
  | _, _, h, .abandon _ th => kinv_abandon h th
  | _, _, h, .allocDv _ n => kinv_allocDv h n

@[simp] theorem setTh_k (s : Sys) (th : Tid) (t : Th) : (setTh s th t).k = s.k := rfl
@[simp] theorem unlockAll_k (s : Sys) (th : Tid) : (unlockAll s th).k = s.k := rfl
@[simp] theorem unlockActor_k (s : Sys) (a : Nat) : (unlockActor s a).k = s.k := rfl
@[simp] theorem withK_k (s : Sys) (k : K) : (withK s k).k = k := rfl

/-- The invariant of the whole system is the kernel invariant. -/
def Inv (s : Sys) : Prop := KInv s.k

macro "kstep_close" : tactic => `(tactic| (
  first
  | exact KStep.refl _
  | exact KStep.pin _ _
  | exact KStep.reserve _ _ _
  | exact KStep.find _ _
  | exact KStep.abandon _ _
  | exact KStep.allocDv _ _
  | (apply KStep.unpin; assumption)
  | (apply KStep.commitA; assumption)
  | (apply KStep.commitAPanic; assumption)
  | (apply KStep.commitB; assumption)))

macro "kstep_auto" : tactic => `(tactic| (
  repeat' (split at ‹_ = some _›)
  all_goals (first | (cases ‹_ = some _›; done) | skip)
  all_goals (cases ‹_ = some _›)
  all_goals (try simp only [setTh_k, unlockAll_k, unlockActor_k, withK_k])
  all_goals kstep_close))

/-- Every atomic segment changes the kernel by (at most) one kernel operation. -/
theorem astep_kstep {s s' : Sys} {a : Act} (h : astep s a = some s') : KStep s.k s'.k := by
  cases a <;> simp only [astep] at h
  case config big => cases h; exact KStep.refl _
  case cmdBegin th c => simp only [stepCmdBegin] at h; kstep_auto
  case bound th => simp only [stepBound] at h; kstep_auto
  case pin th => simp only [stepPin] at h; kstep_auto
  case unpin th e =>
    simp only [stepUnpin] at h
    split at h
    · cases h
    rename_i hc
    have hm : (th, e) ∈ s.k.pins := by simpa using hc
    kstep_auto
  case txnPinned th m t => simp only [stepTxnPinned] at h; kstep_auto
  case txnLocked th => simp only [stepTxnLocked] at h; kstep_auto
  case lockBegin th => simp only [stepLockBegin] at h; kstep_auto
  case scanBatch th n => simp only [stepScanBatch] at h; kstep_auto
  case commitBegin th => simp only [stepCommitBegin] at h; kstep_auto
  case commitA th => simp only [stepCommitA] at h; kstep_auto
  case append th => simp only [stepAppend] at h; kstep_auto
  case committed th => simp only [stepCommitted] at h; kstep_auto
  case createApplied th => simp only [stepCreateApplied] at h; kstep_auto
  case dropApplied th => simp only [stepDropApplied] at h; kstep_auto
  case cpPinned th => simp only [stepCpPinned] at h; kstep_auto
  case cpTable th t => simp only [stepCpTable] at h; kstep_auto
  case cpLocked th t => simp only [stepCpLocked] at h; kstep_auto
  case cpEnd th => simp only [stepCpEnd] at h; kstep_auto
  case vacFind th => simp only [stepVacFind] at h; kstep_auto
  case vacUnlinked th key =>
    simp only [stepVacUnlinked] at h
    split at h
    · rename_i q hq
      have hq1 := List.find?_some hq
      have hq2 := List.mem_of_find?_eq_some hq
      simp only [Bool.and_eq_true, beq_iff_eq] at hq1
      have hm : (th, q.2.1, key) ∈ s.k.uq := by
        obtain ⟨a, b⟩ := hq1
        have : q = (th, q.2.1, key) := by
          rcases q with ⟨q1, q2, q3⟩
          simp only at a b ⊢
          rw [a, b]
        rw [← this]; exact hq2
      split at h
      · cases h
        simp only [withK_k]
        exact KStep.unlink _ _ _ _ hm
      · cases h
    · cases h
  case rdOpen th => simp only [stepRdOpen] at h; kstep_auto
  case rdBatch th n => simp only [stepRdBatch] at h; kstep_auto
  case cmdDone th => simp only [stepCmdDone] at h; kstep_auto
  case panic th => simp only [stepPanic] at h; kstep_auto

/-! ### Theorem I: the invariant holds in every reachable state of every schedule -/

theorem inv_init : Inv init := kinv_init

theorem inv_step {s s' : Sys} {a : Act} (h : Inv s) (st : astep s a = some s') : Inv s' :=
  kinv_kstep h (astep_kstep st)

/-- Any number of actors, threads and steps: induction on the action list. -/
theorem inv_reachable : ∀ (acts : List Act) {s s' : Sys}, Inv s → run s acts = some s' → Inv s'
  | [], s, s', h, hr => by simp only [run] at hr; cases hr; exact h
  | a :: r, s, s', h, hr => by
      simp only [run] at hr
      split at hr
      · rename_i s1 h1
        exact inv_reachable r (inv_step h h1) hr
      · cases hr

theorem inv_reachable_init (acts : List Act) {s : Sys} (hr : run init acts = some s) : Inv s :=
  inv_reachable acts inv_init hr

example : Inv init := inv_reachable_init [] rfl

/-! ### no_missing_file -/

theorem lookupPool_some {pool : List (Key × List Int)} {key : Key} (h : key ∈ pool.map (·.1)) :
    ∃ rows, lookupPool pool key = some rows := by
  simp only [lookupPool]
  cases hf : pool.find? (fun p => p.1 == key) with
  | some p => exact ⟨p.2, rfl⟩
  | none =>
      obtain ⟨p, hp, hpk⟩ := List.mem_map.mp h
      have := List.find?_eq_none.mp hf p hp
      simp [hpk] at this

theorem scan?_some {pool : List (Key × List Int)} {s : Snap} : ∀ {keys : List Key},
    (∀ key ∈ keys, key ∈ pool.map (·.1)) → ∃ l, scan? pool s keys = some l
  | [], _ => ⟨[], rfl⟩
  | key :: r, h => by
      obtain ⟨rows, hr⟩ := lookupPool_some (h key List.mem_cons_self)
      obtain ⟨l, hl⟩ := scan?_some (pool := pool) (s := s) (keys := r)
        (fun x hx => h x (List.mem_cons_of_mem _ hx))
      exact ⟨(liveFrom 0 (deadPos s key) rows).map (fun p => (key, p.1, p.2)) ++ l,
        by simp only [scan?, hr, hl]⟩

theorem mem_tableKeys {s : Snap} {t : Nat} {key : Key} (h : key ∈ tableKeys s t) : key ∈ s.rs :=
  (List.mem_filter.mp h).1

/-- A thread holding a pin can read every table of its snapshot: all row-set objects are in the
pool and all row-set directories exist (whatever ran in between). -/
theorem no_missing_file {s : Sys} (h : Inv s) {p : Tid × Nat} (hp : p ∈ s.k.pins) (t : Nat) :
    (∃ rows, rowsAt? s.k.pool (s.k.status p.2) t = some rows)
    ∧ ∀ key ∈ tableKeys (s.k.status p.2) t, key ∈ s.k.disk := by
  have hpres := h.present p.2 (h.pins_le p hp) (Or.inl (refcnt_of_pinned h hp))
  constructor
  · obtain ⟨l, hl⟩ := scan?_some (pool := s.k.pool) (s := s.k.status p.2)
      (keys := tableKeys (s.k.status p.2) t) (fun key hk => (hpres key (mem_tableKeys hk)).1)
    exact ⟨l.map (fun x => x.2.2), by simp only [rowsAt?, hl]⟩
  · intro key hk
    exact (hpres key (mem_tableKeys hk)).2

/-- The reader's "open iterators" segment is never disabled by a missing file. -/
theorem fetch_never_missing {s : Sys} (h : Inv s) {th : Tid} {n b : Nat}
    (hc : (getTh s th).cmd = some (.read n b))
    (hp : (th, (getTh s th).snapE) ∈ s.k.pins) : (stepRdOpen s th).isSome = true := by
  obtain ⟨⟨rows, hr⟩, _⟩ := no_missing_file h hp (getTh s th).tab
  simp only [stepRdOpen, hc, hr, Option.isSome]

/-! ### unlink_only_unpinned -/

/-- An unlink step implies that no pinned snapshot (and not the current one) contains the
row-set. -/
theorem unlink_only_unpinned {s s' : Sys} (h : Inv s) {th : Tid} {key : Key}
    (st : astep s (.vacUnlinked th key) = some s') :
    (∀ p ∈ s.k.pins, key ∉ (s.k.status p.2).rs) ∧ key ∉ (s.k.status s.k.epoch).rs := by
  simp only [astep, stepVacUnlinked] at st
  split at st
  · rename_i q hq
    have hq1 := List.find?_some hq
    have hq2 := List.mem_of_find?_eq_some hq
    simp only [Bool.and_eq_true, beq_iff_eq] at hq1
    have hk : q.2.2 = key := hq1.2
    obtain ⟨a, b⟩ := h.uq_dead q hq2
    rw [hk] at b
    constructor
    · intro p hp
      exact b p.2 (h.uq_min q hq2 p hp) (h.pins_le p hp)
    · exact b s.k.epoch a (Nat.le_refl _)
  · cases st

/-! ### reader_sees_start_snapshot -/

theorem scan?_congr {p1 p2 : List (Key × List Int)} {s : Snap} : ∀ {keys : List Key},
    (∀ key ∈ keys, lookupPool p1 key = lookupPool p2 key) → scan? p1 s keys = scan? p2 s keys
  | [], _ => rfl
  | key :: r, h => by
      simp only [scan?]
      rw [h key List.mem_cons_self,
        scan?_congr (keys := r) (fun x hx => h x (List.mem_cons_of_mem _ hx))]

theorem rowsAt?_congr {p1 p2 : List (Key × List Int)} {s : Snap} {t : Nat}
    (h : ∀ key ∈ s.rs, lookupPool p1 key = lookupPool p2 key) :
    rowsAt? p1 s t = rowsAt? p2 s t := by
  simp only [rowsAt?]
  rw [scan?_congr (fun key hk => h key (mem_tableKeys hk))]

theorem lookupPool_append {new pool : List (Key × List Int)} {key : Key}
    (h : key ∉ new.map (·.1)) : lookupPool (new ++ pool) key = lookupPool pool key := by
  simp only [lookupPool, List.find?_append]
  have : new.find? (fun p => p.1 == key) = none := by
    apply List.find?_eq_none.mpr
    intro p hp hpk
    apply h
    simp only [beq_iff_eq] at hpk
    exact List.mem_map.mpr ⟨p, hp, hpk⟩
  rw [this]
  rfl

theorem lookupPool_filter {pool : List (Key × List Int)} {f : Key × List Int → Bool} {key : Key}
    (h : ∀ p ∈ pool, p.1 = key → f p = true) :
    lookupPool (pool.filter f) key = lookupPool pool key := by
  induction pool with
  | nil => rfl
  | cons a r ih =>
    have ih' := ih (fun p hp => h p (List.mem_cons_of_mem _ hp))
    simp only [lookupPool] at ih' ⊢
    by_cases hk : a.1 = key
    · have hf := h a List.mem_cons_self hk
      have hb : (a.1 == key) = true := by simpa using hk
      simp only [List.filter_cons, hf, if_true, List.find?_cons, hb]
    · have hb : (a.1 == key) = false := beq_false_of_ne hk
      by_cases hf : f a = true
      · simp only [List.filter_cons, hf, if_true, List.find?_cons, hb]
        exact ih'
      · have hf' : f a = false := by simpa using hf
        simp only [List.filter_cons, hf', List.find?_cons, hb]
        exact ih'

/-- One kernel operation does not change what a held pin reads. -/
theorem kstep_stable {k k' : K} (h : KInv k) (st : KStep k k') {p : Tid × Nat} (hp : p ∈ k.pins)
    (t : Nat) : rowsAt? k'.pool (k'.status p.2) t = rowsAt? k.pool (k.status p.2) t := by
  have hle := h.pins_le p hp
  have hpres := h.present p.2 hle (Or.inl (refcnt_of_pinned h hp))
  cases st with
  | refl => rfl
  | pin th => rfl
  | unpin th e hm => rfl
  | reserve th t => rfl
  | abandon th => rfl
  | allocDv n => rfl
  | unlink th ed key hm => rfl
  | commitB _ th hc =>
      simp only [kCommitB] at hc
      split at hc
      · cases hc
      split at hc
      case isFalse => cases hc
      cases hc
      have : p.2 ≠ k.epoch + 1 := by omega
      simp only [this, if_false]
  | commitA _ th ops hc =>
      simp only [kCommitA] at hc
      split at hc
      · cases hc
      split at hc
      · cases hc
      rename_i hinfl hok
      have hok : opsOk k th ops = true := by simpa using hok
      split at hc
      · cases hc
      cases hc
      apply rowsAt?_congr
      intro key hk
      apply lookupPool_append
      rw [poolAdds_keys]
      intro ha
      exact h.resv_pool _ (opsOk_add hok ha) (hpres key hk).1
  | commitAPanic _ th ops hc =>
      simp only [kCommitAPanic] at hc
      split at hc
      · cases hc
      split at hc
      · cases hc
      rename_i hinfl hok
      have hok : opsOk k th ops = true := by simpa using hok
      split at hc
      · cases hc
      cases hc
      apply rowsAt?_congr
      intro key hk
      apply lookupPool_append
      intro ha
      exact h.resv_pool _ (opsOk_add hok (addsBeforePanic_keys ops _ ha)) (hpres key hk).1
  | find th =>
      apply rowsAt?_congr
      intro key hk
      simp only [kFind]
      apply lookupPool_filter
      intro pe _ hpk
      simp only [Bool.not_eq_true', List.contains_eq_mem, decide_eq_false_iff_not, List.mem_map,
        not_exists, not_and]
      intro q hq heq
      have hq' := mem_takenUpTo.mp hq
      rw [heq, hpk] at hq'
      exact (h.pend_dead q.1 key hq'.2).2 p.2
        (Nat.le_trans hq'.1 (vacuumEpoch_le_pin h hp)) hle hk

/-- the pin `p` is held in every state the schedule goes through -/
def HeldAlong (p : Tid × Nat) : Sys → List Act → Prop
  | s, [] => p ∈ s.k.pins
  | s, a :: r => p ∈ s.k.pins ∧ (match astep s a with
      | some s' => HeldAlong p s' r
      | none => True)

/-- Whatever commits, compactions, vacuum passes and drops are interleaved (any schedule `acts`),
a reader that keeps its pin reads at the end exactly the rows its snapshot had at the start. -/
theorem reader_sees_start_snapshot : ∀ (acts : List Act) {s s' : Sys} {p : Tid × Nat},
    Inv s → run s acts = some s' → HeldAlong p s acts → ∀ t,
    rowsAt? s'.k.pool (s'.k.status p.2) t = rowsAt? s.k.pool (s.k.status p.2) t
  | [], s, s', p, _, hr, _, t => by simp only [run] at hr; cases hr; rfl
  | a :: r, s, s', p, h, hr, hh, t => by
      simp only [run] at hr
      simp only [HeldAlong] at hh
      split at hr
      · rename_i s1 h1
        rw [h1] at hh
        rw [reader_sees_start_snapshot r (inv_step h h1) hr hh.2 t]
        exact kstep_stable h (astep_kstep h1) hh.1 t
      · cases hr

/-! ### the epoch-continuity assert of phase B never fires -/

theorem assert_epoch_unreachable {s : Sys} (h : Inv s) {th : Tid} {f : Inflight}
    (hi : s.k.infl = some (th, f)) : f.base = s.k.epoch :=
  (h.infl_ok th f hi).1

/-! ### Non-vacuity: concrete schedules, and the vacuum rule is tight -/

def heldAlongB (p : Tid × Nat) : Sys → List Act → Bool
  | s, [] => s.k.pins.contains p
  | s, a :: r => s.k.pins.contains p && (match astep s a with
      | some s' => heldAlongB p s' r
      | none => true)

theorem heldAlong_of_B : ∀ (acts : List Act) {s : Sys} {p : Tid × Nat},
    heldAlongB p s acts = true → HeldAlong p s acts
  | [], s, p, h => by simpa [heldAlongB, HeldAlong] using h
  | a :: r, s, p, h => by
      simp only [heldAlongB, Bool.and_eq_true] at h
      simp only [HeldAlong]
      refine ⟨by simpa using h.1, ?_⟩
      cases ha : astep s a with
      | none => trivial
      | some s' =>
          have h2 := h.2
          simp only [ha] at h2
          exact heldAlong_of_B r h2

def wCreate : List Act :=
  [.cmdBegin (0,0) (.create 1), .bound (0,0), .commitBegin (0,1), .commitA (0,1), .append (0,1),
   .committed (0,1), .createApplied (0,1), .cmdDone (0,0)]

def wIns (th e : Nat) (vs : List Int) : List Act :=
  [.cmdBegin (0,0) (.insert 1 vs), .bound (0,0), .pin (0,th), .txnPinned (0,th) .rw 0,
   .commitBegin (0,th), .commitA (0,th), .append (0,th), .committed (0,th), .unpin (0,th) e,
   .cmdDone (0,0)]

def wReadPin : List Act := [.cmdBegin (1,0) (.read 1 2), .pin (1,0), .txnPinned (1,0) .ro 0]

def wReadEnd (e : Nat) : List Act :=
  [.rdOpen (1,0), .rdBatch (1,0) 2, .rdBatch (1,0) 1, .unpin (1,0) e, .cmdDone (1,0)]

def wCompact (e : Nat) : List Act :=
  [.cmdBegin (2,0) .compact, .pin (2,0), .cpPinned (2,0), .cpTable (2,0) 0, .cpLocked (2,0) 0,
   .commitBegin (2,0), .commitA (2,0), .append (2,0), .committed (2,0), .cpEnd (2,0),
   .unpin (2,0) e, .cmdDone (2,0)]

def wVacuum : List Act :=
  [.cmdBegin (3,0) .vacuum, .vacFind (3,0), .vacUnlinked (3,0) (0,0), .vacUnlinked (3,0) (0,1),
   .cmdDone (3,0)]

def wSetup : List Act := wCreate ++ wIns 2 2 [1,2] ++ wIns 3 3 [3]

/-- reader pins (epoch 4), then a compaction commits (epoch 5: row-sets 0_0 0_1 → 0_2) -/
def wPinThenCompact : List Act := wSetup ++ wReadPin ++ wCompact 4

/-- the compaction commits first, the reader pins afterwards (epoch 5) -/
def wCompactThenPin : List Act := wSetup ++ wCompact 4 ++ wReadPin

def stateOf (acts : List Act) : Sys := (run init acts).getD init

theorem run_stateOf {acts : List Act} (h : (run init acts).isSome = true) :
    run init acts = some (stateOf acts) := by
  simp only [stateOf]
  cases hr : run init acts with
  | none => simp [hr] at h
  | some s => rfl

theorem run_append : ∀ (a b : List Act) (s : Sys),
    run s (a ++ b) = (run s a).bind (fun s' => run s' b)
  | [], b, s => rfl
  | x :: a, b, s => by
      simp only [List.cons_append, run]
      cases astep s x with
      | none => rfl
      | some s1 => exact run_append a b s1

theorem run_suffix {a b : List Act} (ha : (run init a).isSome = true)
    (hab : (run init (a ++ b)).isSome = true) : run (stateOf a) b = some (stateOf (a ++ b)) := by
  have h1 := run_stateOf ha
  have h2 := run_stateOf hab
  rw [run_append, h1] at h2
  exact h2

def wVacuumNothing : List Act := [.cmdBegin (3,0) .vacuum, .vacFind (3,0), .cmdDone (3,0)]

/-- reader pins; compaction commits; a vacuum pass finds nothing to do; the reader finishes;
the next vacuum pass unlinks the two old row-sets -/
def wFull : List Act := wPinThenCompact ++ wVacuumNothing ++ wReadEnd 4 ++ wVacuum

-- inv_reachable is not vacuous: a schedule with a reader overlapping a compaction and a vacuum
example : Inv (stateOf wFull) := inv_reachable_init _ (run_stateOf (by decide))

-- reader_sees_start_snapshot is not vacuous: the pin ((1,0),4) is held while the compaction
-- commits, the old row-sets become pending and a vacuum pass runs; the rows are unchanged
example : rowsAt? (stateOf (wSetup ++ wReadPin ++ (wCompact 4 ++ wVacuumNothing))).k.pool
    ((stateOf (wSetup ++ wReadPin ++ (wCompact 4 ++ wVacuumNothing))).k.status 4) 0
    = rowsAt? (stateOf (wSetup ++ wReadPin)).k.pool ((stateOf (wSetup ++ wReadPin)).k.status 4) 0 :=
  reader_sees_start_snapshot _ (inv_reachable_init _ (run_stateOf (by decide)))
    (run_suffix (by decide) (by decide)) (p := ((1,0),4)) (heldAlong_of_B _ (by decide)) 0

-- ... and the reader's result in the model is the three rows
example : (stateOf (wPinThenCompact ++ wVacuumNothing ++ wReadEnd 4)).outs.getLast?.map
    (fun o => match o.2.2 with | .rows xs => xs | _ => []) = some [3,1,2] := by decide

/-- `find_vacuum` with an explicit threshold (the code uses `vacuumEpoch`). -/
def kFindAt (k : K) (th : Tid) (v : Nat) : K :=
  let taken := takenUpTo k.pending v
  { k with pending := fun e => if e ≤ v then [] else k.pending e,
           uq := taken.map (fun p => (th, p.1, p.2)) ++ k.uq,
           pool := k.pool.filter (fun p => !(taken.map (·.2)).contains p.1) }

theorem kFind_eq_at (k : K) (th : Tid) : kFind k th = kFindAt k th (vacuumEpoch k) := rfl

/-- The rule `deletion epoch ≤ min pinned epoch` is exercised at equality: with the reader
pinned at the very epoch (5) at which the compaction recorded its deletions, `find_vacuum`
applies them (both old row-sets leave the pool and go to the unlink queue) and the reader's
snapshot is still fully readable; with the reader pinned one epoch earlier (4) nothing is
taken. -/
theorem vacuum_rule_tight :
    (vacuumEpoch (stateOf wCompactThenPin).k = 5
      ∧ (stateOf wCompactThenPin).k.pending 5 = [(0,0), (0,1)]
      ∧ ((kFind (stateOf wCompactThenPin).k (3,0)).uq.map (·.2)) = [(5, (0,0)), (5, (0,1))]
      ∧ poolKeys (kFind (stateOf wCompactThenPin).k (3,0)) = [(0,2)]
      ∧ rowsAt? (kFind (stateOf wCompactThenPin).k (3,0)).pool
          ((kFind (stateOf wCompactThenPin).k (3,0)).status 5) 0 = some [1,2,3])
    ∧ (vacuumEpoch (stateOf wPinThenCompact).k = 4
      ∧ (kFind (stateOf wPinThenCompact).k (3,0)).uq = []
      ∧ rowsAt? (kFind (stateOf wPinThenCompact).k (3,0)).pool
          ((kFind (stateOf wPinThenCompact).k (3,0)).status 4) 0 = some [3,1,2]) := by
  decide

/-- Off by one (`deletion epoch ≤ min pinned epoch + 1`) is unsafe: in the reachable state where
the reader is pinned at 4 and the deletions were recorded at 5, the looser rule removes row-sets
of the reader's snapshot from the pool (its scan would panic in `get_rowset`), and the invariant
breaks. -/
theorem vacuum_rule_off_by_one_unsafe :
    Inv (stateOf wPinThenCompact)
    ∧ ((1,0), 4) ∈ (stateOf wPinThenCompact).k.pins
    ∧ rowsAt? (kFindAt (stateOf wPinThenCompact).k (3,0) (vacuumEpoch (stateOf wPinThenCompact).k + 1)).pool
        ((stateOf wPinThenCompact).k.status 4) 0 = none
    ∧ ¬ KInv (kFindAt (stateOf wPinThenCompact).k (3,0) (vacuumEpoch (stateOf wPinThenCompact).k + 1)) := by
  refine ⟨inv_reachable_init _ (run_stateOf (by decide)), by decide, by decide, ?_⟩
  intro hinv
  have h1 := hinv.present 4 (by decide) (Or.inl (by decide)) (0,0) (by decide)
  exact absurd h1.1 (by decide)

-- no_missing_file / unlink_only_unpinned are not vacuous: a pinned reader exists while the
-- vacuum unlinks
example : ∃ s', astep (stateOf (wCompactThenPin ++ [.cmdBegin (3,0) .vacuum, .vacFind (3,0)]))
    (.vacUnlinked (3,0) (0,0)) = some s' := by
  cases h : astep (stateOf (wCompactThenPin ++ [.cmdBegin (3,0) .vacuum, .vacFind (3,0)]))
      (.vacUnlinked (3,0) (0,0)) with
  | some s' => exact ⟨s', rfl⟩
  | none =>
      have : (astep (stateOf (wCompactThenPin ++ [.cmdBegin (3,0) .vacuum, .vacFind (3,0)]))
        (.vacUnlinked (3,0) (0,0))).isSome = true := by decide
      simp [h] at this

end SC
end RlModel
