/- GENERATED on every run of ./check C13 by checks/c13.py (gen_rowset_stop) from
   src/storage/secondary/rowset/rowset_iterator.rs, fn next_batch_inner. Do not edit. -/
namespace RlModel.Gen

/-- `if end_row_id == 0 { self.end = true; }` — `lo`/`hi` = start_row_id/end_row_id of the batch's mask,
`len` = rows in the batch -/
def rangeStop (lo hi len : Nat) : Bool := decide (hi = 0)

end RlModel.Gen
