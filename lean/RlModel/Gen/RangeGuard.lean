/- GENERATED on every run of ./check C12 / C13 by checks/c12.py (gen_range_guard) from
   src/planner/rules/range.rs, fn is_primary_key_range. Do not edit. -/
import RlModel.Model.Scan
namespace RlModel

/-- `let is_int = |b| match b { Bound::Included(v) | Bound::Excluded(v) => matches!(v, DataValue::Int32(_)), Bound::Unbounded => true, }` -/
def guardIsInt : Bnd → Bool
  | .unb => true
  | .incl v => isI32Val v
  | .excl v => isI32Val v

/-- `if !is_int(&range.start) || !is_int(&range.end) { return false; }` -/
def guardBoundsReject (lo hi : Bnd) : Bool := (!guardIsInt lo)  ||  (!guardIsInt hi)

/-- `col.is_primary() && column.column_id == 0 && col.data_type() == DataType::Int32` (k = the range's column) -/
def guardColumn (primary intCols : List Nat) (k : Nat) : Bool := primary.contains k && k == 0 && intCols.contains k

/-- `is_primary_key_range`: the condition under which the filter-scan rules move a condition into
the scan node -/
def rangeGuard (t : TableMeta) (e : Expr) : Bool :=
  match analyzeRange e with
  | some (k, r) => !guardBoundsReject r.lo r.hi && guardColumn t.primary t.intCols k
  | none => false

end RlModel
