/- GENERATED on every run of ./check C12 by checks/c12.py (gen_merge_heap) from
   src/storage/secondary/merge_iterator.rs, fn replace_pending_data. Do not edit. -/
namespace RlModel.Gen

/-- `let left_child = processing_element * 2 + 1;` -/
def mergeLeftIdx (i : Nat) : Nat := i * 2 + 1

/-- `let right_child = processing_element * 2 + 2;` -/
def mergeRightIdx (i : Nat) : Nat := i * 2 + 2

/-- `if left_child >= self.pending_heap.len() { break }` -/
def mergeLeftStop (left len : Nat) : Bool := decide (left ≥ len)

/-- `if right_child < self.pending_data_len() && ...` -/
def mergeRightOk (right len : Nat) : Bool := decide (right < len)

end RlModel.Gen
