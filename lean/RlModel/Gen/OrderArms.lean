/- GENERATED on every run of ./check C12 by checks/c12.py (gen_order_arms) from the match arms of
   `analyze_order` in src/planner/rules/order.rs. Do not edit.
   For every operator with an explicit arm: `claim_<Op>`, the order the planner claims for the node's
   output in terms of its own key list (`keys`; joins: `lks`/`rks`) and of the orders claimed for its
   children (`xc`; joins: `xl`/`xr`). Operators without an arm claim no order (`_ => []`).
   Theorem `order_arm_<Op>` (Thm/C12.lean) is the obligation of the arm.
-/
import RlModel.Model.OrderSem
namespace RlModel.Gen

-- List(keys) => keys.clone()   (a key list denotes itself)
def orderArms : List String := ["Scan", "Order", "TopN", "Proj", "Filter", "Window", "Limit", "MergeJoin", "SortAgg"]

/-- the first primary-key column of the scan list, if the engine's scans are key-ordered -/
def claim_Scan (sortedByPk : Bool) (primary cols : List Nat) : List OrdKey :=
  if sortedByPk then match cols.find? (fun c => primary.contains c) with
    | some c => [⟨c, false⟩]
    | none => []
  else []

def claim_Order (keys xc : List OrdKey) : List OrdKey := keys

def claim_TopN (keys xc : List OrdKey) : List OrdKey := keys

def claim_Proj (keys xc : List OrdKey) : List OrdKey := xc

def claim_Filter (keys xc : List OrdKey) : List OrdKey := xc

def claim_Window (keys xc : List OrdKey) : List OrdKey := xc

def claim_Limit (keys xc : List OrdKey) : List OrdKey := xc

def claim_MergeJoin (t : JT) (lks rks xl xr : List OrdKey) : List OrdKey :=
  match t with
    | .inner => rks
    | .rightOuter => rks
    | .leftOuter => lks
    | _ => []

def claim_SortAgg (keys xc : List OrdKey) : List OrdKey := xc

/-- ExprAnalysis::merge on the order property of two members of an e-class: `to.orderby = to.orderby[..common] with common = length of the common prefix of to.orderby and from.orderby` -/
def mergeOrder : List OrdKey → List OrdKey → List OrdKey
  | a :: as, b :: bs => if a = b then a :: mergeOrder as bs else []
  | _, _ => []

end RlModel.Gen
